/-
  C10 lemmas, part 1: `esccpy` — what it copies (`unesc`) and that it never returns more than fits.
-/
import Echse.Model.Ical
namespace Echse.Ical

/-- what `esccpy` copies when it does not overrun: CR dropped, NL dropped together with the byte behind it,
a backslash kept and the byte behind it dropped -/
def unesc : List Byte → List Byte
  | [] => []
  | c :: rest =>
    if c = CR then unesc rest
    else if c = NL then (match rest with | [] => [] | _ :: r => unesc r)
    else if c = BSL then c :: (match rest with | [] => [] | _ :: r => unesc r)
    else c :: unesc rest

theorem unesc_nil : unesc [] = [] := by simp [unesc]

theorem unesc_drop1 (rest : List Byte) :
    (match rest with | [] => [] | _ :: r => unesc r) = unesc (rest.drop 1) := by
  cases rest <;> simp [unesc]

theorem unesc_cons (c : Byte) (rest : List Byte) :
    unesc (c :: rest) =
      if c = CR then unesc rest
      else if c = NL then unesc (rest.drop 1)
      else if c = BSL then c :: unesc (rest.drop 1)
      else c :: unesc rest := by
  cases rest <;> simp [unesc]

theorem unesc_length_le : ∀ (n : Nat) (s : List Byte), s.length ≤ n → (unesc s).length ≤ s.length
  | 0, s, h => by
    have : s = [] := List.eq_nil_of_length_eq_zero (by omega)
    subst this; simp [unesc]
  | n+1, [], _ => by simp [unesc]
  | n+1, c :: rest, h => by
    have h1 := unesc_length_le n rest (by simp at h; omega)
    have h2 := unesc_length_le n (rest.drop 1) (by simp at h ⊢; omega)
    have h3 : (rest.drop 1).length ≤ rest.length := by simp
    rw [unesc_cons]
    split
    · simp; omega
    · split
      · simp at h2 ⊢; omega
      · split
        · simp at h2 ⊢; omega
        · simp; omega

theorem unesc_length (s : List Byte) : (unesc s).length ≤ s.length :=
  unesc_length_le s.length s (Nat.le_refl _)

theorem go_zero (tz : Nat) (s acc : List Byte) : esccpy.go tz 0 s acc = some acc := by
  simp [esccpy.go]

theorem go_nil (tz fuel : Nat) (acc : List Byte) : esccpy.go tz fuel [] acc = some acc := by
  cases fuel <;> simp [esccpy.go]

theorem go_cons (tz fuel : Nat) (c : Byte) (rest acc : List Byte) :
    esccpy.go tz (fuel+1) (c :: rest) acc =
      if c = CR then (if acc.length ≥ tz then none else esccpy.go tz fuel rest acc)
      else if c = NL then (if acc.length ≥ tz then none else esccpy.go tz fuel (rest.drop 1) acc)
      else if c = BSL then
        (if (acc ++ [c]).length ≥ tz then none else esccpy.go tz fuel (rest.drop 1) (acc ++ [c]))
      else (if (acc ++ [c]).length ≥ tz then none else esccpy.go tz fuel rest (acc ++ [c])) := by
  rw [esccpy.go]
  have e1 : NL ≠ CR := by decide
  have e2 : BSL ≠ CR := by decide
  have e3 : BSL ≠ NL := by decide
  by_cases h1 : c = CR
  · simp [h1]
  · by_cases h2 : c = NL
    · simp [h2, e1]
    · by_cases h3 : c = BSL
      · simp [h3, e2, e3]
      · simp [h1, h2, h3]

/-- the copy loop never returns more than fits -/
theorem go_some_lt (tz : Nat) : ∀ (fuel : Nat) (s acc o : List Byte),
    acc.length < tz → esccpy.go tz fuel s acc = some o → o.length < tz
  | 0, s, acc, o, ha, h => by
    rw [go_zero] at h; cases h; exact ha
  | fuel+1, [], acc, o, ha, h => by
    rw [go_nil] at h; cases h; exact ha
  | fuel+1, c :: rest, acc, o, ha, h => by
    rw [go_cons] at h
    split at h
    · split at h
      · cases h
      · exact go_some_lt tz fuel _ _ _ ha h
    · split at h
      · split at h
        · cases h
        · exact go_some_lt tz fuel _ _ _ ha h
      · split at h
        · split at h
          · cases h
          · rename_i hl; exact go_some_lt tz fuel _ _ _ (by omega) h
        · split at h
          · cases h
          · rename_i hl; exact go_some_lt tz fuel _ _ _ (by omega) h

/-- `esccpy` never returns more than fits (needs only a non-empty target) -/
theorem esccpy_some_lt (tz : Nat) (src o : List Byte) (s : Byte) (htz : 0 < tz)
    (h : esccpy tz src = (some o, s)) : o.length < tz := by
  unfold esccpy at h
  split at h
  · rename_i out hg
    cases h
    exact go_some_lt tz _ _ _ _ (by simpa using htz) hg
  · cases h

theorem esccpy_snd (tz : Nat) (src : List Byte) : (esccpy tz src).2 = 0 := by
  unfold esccpy; split <;> rfl

/-- with enough room the copy loop yields `unesc` -/
theorem go_eq (tz : Nat) : ∀ (fuel : Nat) (s acc : List Byte),
    s.length < fuel → (acc ++ unesc s).length < tz → esccpy.go tz fuel s acc = some (acc ++ unesc s)
  | 0, s, acc, hf, _ => by omega
  | fuel+1, [], acc, _, _ => by simp [go_nil, unesc]
  | fuel+1, c :: rest, acc, hf, hl => by
    have hd : (rest.drop 1).length < fuel := by simp at hf ⊢; omega
    have hr : rest.length < fuel := by simp at hf; omega
    have e1 : NL ≠ CR := by decide
    have e2 : BSL ≠ CR := by decide
    have e3 : BSL ≠ NL := by decide
    rw [go_cons]
    rw [unesc_cons] at hl ⊢
    by_cases h1 : c = CR
    · simp only [h1, if_true] at hl ⊢
      have : ¬ acc.length ≥ tz := by simp at hl; omega
      rw [if_neg this]; exact go_eq tz fuel rest acc hr hl
    · by_cases h2 : c = NL
      · simp only [h2, e1, if_true, if_false] at hl ⊢
        have : ¬ acc.length ≥ tz := by simp at hl; omega
        rw [if_neg this]; exact go_eq tz fuel _ acc hd hl
      · by_cases h3 : c = BSL
        · simp only [h3, e2, e3, if_true, if_false] at hl ⊢
          have : ¬ (acc ++ [BSL]).length ≥ tz := by simp at hl ⊢; omega
          rw [if_neg this]
          have := go_eq tz fuel (rest.drop 1) (acc ++ [BSL]) hd (by simpa using hl)
          simpa using this
        · simp only [h1, h2, h3, if_false] at hl ⊢
          have : ¬ (acc ++ [c]).length ≥ tz := by simp at hl ⊢; omega
          rw [if_neg this]
          have := go_eq tz fuel rest (acc ++ [c]) hr (by simpa using hl)
          simpa using this

theorem esccpy_eq (tz : Nat) (src : List Byte) (h : (unesc src).length < tz) :
    esccpy tz src = (some (unesc src), 0) := by
  unfold esccpy
  rw [go_eq tz (src.length + 1) src [] (by omega) (by simpa using h)]
  simp

/-- without enough room the copy loop gives up -/
theorem go_none (tz : Nat) : ∀ (fuel : Nat) (s acc : List Byte),
    s.length < fuel → acc.length < tz → tz ≤ (acc ++ unesc s).length → esccpy.go tz fuel s acc = none
  | 0, s, acc, hf, _, _ => by omega
  | fuel+1, [], acc, _, ha, hl => by simp [unesc] at hl; omega
  | fuel+1, c :: rest, acc, hf, ha, hl => by
    have hd : (rest.drop 1).length < fuel := by simp at hf ⊢; omega
    have hr : rest.length < fuel := by simp at hf; omega
    have e1 : NL ≠ CR := by decide
    have e2 : BSL ≠ CR := by decide
    have e3 : BSL ≠ NL := by decide
    rw [go_cons]
    rw [unesc_cons] at hl
    by_cases h1 : c = CR
    · simp only [h1, if_true] at hl ⊢
      rw [if_neg (by omega)]; exact go_none tz fuel rest acc hr ha hl
    · by_cases h2 : c = NL
      · simp only [h2, e1, if_true, if_false] at hl ⊢
        rw [if_neg (by omega)]; exact go_none tz fuel _ acc hd ha hl
      · by_cases h3 : c = BSL
        · simp only [h3, e2, e3, if_true, if_false] at hl ⊢
          by_cases hge : (acc ++ [BSL]).length ≥ tz
          · rw [if_pos hge]
          · rw [if_neg hge]
            exact go_none tz fuel (rest.drop 1) (acc ++ [BSL]) hd (by omega) (by simpa using hl)
        · simp only [h1, h2, h3, if_false] at hl ⊢
          by_cases hge : (acc ++ [c]).length ≥ tz
          · rw [if_pos hge]
          · rw [if_neg hge]
            exact go_none tz fuel rest (acc ++ [c]) hr (by omega) (by simpa using hl)

/-- `esccpy` gives up exactly when what it would copy does not fit below `tz` -/
theorem esccpy_none (tz : Nat) (src : List Byte) (htz : 0 < tz) (h : tz ≤ (unesc src).length) :
    esccpy tz src = (none, 0) := by
  unfold esccpy
  rw [go_none tz (src.length + 1) src [] (by omega) (by simpa using htz) (by simpa using h)]

/-- the grown stash: with room for one byte more than it reads `esccpy` never gives up (it appends no more
than it reads), and what it yields does not depend on how much more room there is -/
theorem esccpy_fits (src : List Byte) (k : Nat) : esccpy (src.length + 1 + k) src = (some (unesc src), 0) :=
  esccpy_eq _ _ (by have := unesc_length src; omega)

theorem esccpy_fits' (src : List Byte) : (esccpy (src.length + 1) src).1 = some (unesc src) := by
  rw [esccpy_fits src 0]

end Echse.Ical
