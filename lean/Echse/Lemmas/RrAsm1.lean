/-
  Assembly of C16 / C09, part 1: the kind of DTSTART.

  `KindOk r ds`: RFC 5545 (3.3.10) -- BYHOUR, BYMINUTE and BYSECOND must not be specified when DTSTART is a DATE.
  It used to be a proviso of the filler and stream theorems; since `make_enum` ignores these parts next to a DATE
  seed, it is not any more.  What remains here: what a filler writes has the kind of its seed -- the hour of an instant
  written is a BYHOUR value (< 24) or the seed's hour (`HFrom`), so an all-day instant comes from an all-day seed only
  (`HFrom.of_allDay`), and `KindOk` is handed on.  Here: the definitions and the yearly and monthly
  filler; part 2 (RrAsm2) has the weekly and daily filler, parts 10-12 the sub-daily ones (hour always < 24).
-/
import Echse.Lemmas.RrYlyOk
import Echse.Lemmas.RrMlyOk
import Echse.Lemmas.RrOkBase
namespace Echse.Lemmas.RrAsm
open Echse.Rrule Echse.Instant Echse.Spec.RrOk
open Echse.Lemmas.RrCandOk

/-- RFC 5545: no BYHOUR / BYMINUTE / BYSECOND on a rule whose DTSTART is a DATE (all-day) -/
def KindOk (r : Rule) (ds : Inst) : Prop := ds.H = allDay → r.H = [] ∧ r.M = [] ∧ r.S = []

theorem KindOk.of_timed (r : Rule) (ds : Inst) (h : ds.H ≠ allDay) : KindOk r ds := fun h' => absurd h' h
theorem KindOk.of_plain (r : Rule) (ds : Inst) (hH : r.H = []) (hM : r.M = []) (hS : r.S = []) : KindOk r ds :=
  fun _ => ⟨hH, hM, hS⟩

/-- `KindOk` looks at BYHOUR / BYMINUTE / BYSECOND only -/
theorem KindOk.congr {r r' : Rule} {ds : Inst} (h : KindOk r ds) (hH : r'.H = r.H) (hM : r'.M = r.M) (hS : r'.S = r.S) :
    KindOk r' ds := by
  intro ha; rw [hH, hM, hS]; exact h ha

/-- the hour of `x` is one the ENUM loop of a filler seeded with `p` visits: a BYHOUR value or the seed's hour -/
def HFrom (r : Rule) (p x : Inst) : Prop := x.H ∈ (makeEnum p r).H

/-- the hours of `make_enum` are `uint8_t` values -/
theorem enumH_mod (r : Rule) (p : Inst) (h : Nat) (hh : h ∈ (makeEnum p r).H) : h % 256 = h := by
  unfold makeEnum at hh
  split at hh
  · simp only [List.mem_singleton] at hh; omega
  dsimp only at hh
  split at hh
  · simp only [List.mem_singleton] at hh; omega
  · obtain ⟨a, _, rfl⟩ := List.mem_map.mp hh; omega

/-- an instant written has the kind of the seed: it is all-day only if the seed is -/
theorem HFrom.of_allDay {r : Rule} {p x : Inst} (hr : WfRule r) (hp : WfInst p) (h : HFrom r p x) (hx : x.H = allDay) :
    p.H = allDay := by
  unfold HFrom makeEnum at h
  split at h
  · assumption
  dsimp only at h
  unfold allDay at *
  split at h
  · simp only [List.mem_singleton] at h
    have := hp.time
    unfold allDay at this
    omega
  · obtain ⟨a, ha, e⟩ := List.mem_map.mp h
    have := hr.hours.2 a ha
    omega

/-- … and an all-day seed yields all-day instants only: BYHOUR is ignored -/
theorem HFrom.allDay_of {r : Rule} {p x : Inst} (h : HFrom r p x) (hp : p.H = allDay) : x.H = allDay := by
  unfold HFrom makeEnum at h
  rw [if_pos hp, hp] at h
  simp only [List.mem_singleton] at h
  rw [h]; rfl

theorem HFrom.kindOk {r : Rule} {p x : Inst} (hr : WfRule r) (hp : WfInst p) (hk : KindOk r p) (h : HFrom r p x) :
    KindOk r x := fun hx => hk (h.of_allDay hr hp hx)

/-- everything a period of the yearly / monthly filler can write has an hour of the ENUM loop -/
theorem finE_hfrom (r : Rule) (p : Inst) (nti y : Nat) (cand : List Nat) :
    ∀ x ∈ finE (mkFillCtx r p nti) y cand, HFrom r p x := by
  intro x hx
  unfold finE at hx
  have key : ∀ yy cs, x ∈ setE (mkFillCtx r p nti) yy cs → HFrom r p x := by
    intro yy cs h
    obtain ⟨yd, _, t, ht, rfl⟩ := mem_setE _ _ _ x h
    rw [mkFillCtx_times] at ht
    have h1 := (mem_times _ t ht).1
    show t.1 % 256 ∈ (makeEnum p r).H
    rw [enumH_mod r p t.1 h1]; exact h1
  rcases mem_periodE _ y _ x hx with h | h | h <;> exact key _ _ h

open Echse.Lemmas.RrYlyOk in
theorem fillYly_hfrom (r : Rule) (p : Inst) (n : Nat) (l : List Inst) (h : fillYly r p n = some l) :
    ∀ x ∈ l, HFrom r p x := by
  rcases fillYly_some r p n l h with rfl | ⟨nti, _, rfl⟩
  · exact fun x hx => (nomatch hx)
  · obtain ⟨_, hJ⟩ := ylyLoop_ind (ylyCtxOf r p nti) (fun _ st => ∀ x ∈ st.out, HFrom r p x)
      (fun y st _ hJ => by
        have he := finishPeriod_emits (ylyCtxOf r p nti).k y (ylyCand (ylyCtxOf r p nti) y) st
        exact he.inv (fun x hx _ _ => finE_hfrom r p nti y _ x hx) hJ)
      (64 * (nti + 1) + 2101) (ylyStart r p) 64 {} (fun x hx => nomatch hx)
    exact fun x hx => hJ x (List.mem_reverse.mp hx)

open Echse.Lemmas.RrMlyOk in
theorem fillMly_hfrom (r : Rule) (p : Inst) (n : Nat) (l : List Inst) (h : fillMly r p n = some l) :
    ∀ x ∈ l, HFrom r p x := by
  rcases fillMly_some r p n l h with rfl | ⟨nti, y0, m0, _, _, _, _, rfl⟩
  · exact fun x hx => (nomatch hx)
  · obtain ⟨_, _, hJ⟩ := mlyLoop_ind (mlyCtxOf r p nti) (fun _ _ st => ∀ x ∈ st.out, HFrom r p x)
      (fun y m st _ hJ => by
        have he := finishPeriod_emits (mlyCtxOf r p nti).k y (mlyCand (mlyCtxOf r p nti) y (toU32 m)) st
        exact he.inv (fun x hx _ _ => finE_hfrom r p nti y _ x hx) hJ)
      (mlyTries * (nti + 1) + 12 * 2100 + 1) y0 m0 mlyTries {} (fun x hx => nomatch hx)
    exact fun x hx => hJ x (List.mem_reverse.mp hx)

end Echse.Lemmas.RrAsm
