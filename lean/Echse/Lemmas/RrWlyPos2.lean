/-
  BYSETPOS for the weekly filler, part 2: the list of one week's instances as the week loop walks them (`weekL`), in
  ascending order.
-/
import Echse.Lemmas.RrWlyPos1
namespace Echse.Lemmas.RrRfc
open Echse.Rrule Echse.Instant Echse.Spec.RrOk Echse.Spec.Cal Echse.Spec.RuleExt Echse.Spec.Rfc
open Echse.Lemmas.RrOkBase

/-- the context of the week loop -/
abbrev wctx (r : Rule) (p : Inst) (nti : Nat) : WlyCtx := mkCtx r p nti (wlyIncs r)

/-- the instants of the day `D` (an offset into the month `y-m`) -/
def dayBlock (r : Rule) (p : Inst) (y m D : Nat) : List Inst :=
  (makeEnum p r).timesIx.map (mkz (dateOf y m D).1 (dateOf y m D).2.1 (dateOf y m D).2.2 p.ms)

/-- the instants of the week that starts on `y-m-d`: the days of the week's offsets that are in a month of BYMONTH -/
def weekL (r : Rule) (p : Inst) (nti y m d : Nat) : List Inst :=
  ((offs 8 (wlyIncs r) d).filter (selD (wctx r p nti) y m)).flatMap (dayBlock r p y m)

theorem carry_one {y m D y2 m2 d2 : Nat} (hc : Carry y m D y2 m2 d2) (h1 : 1 ≤ m) (h2 : m ≤ 12)
    (hD : D ≤ getNdom y m + 28) : y2 * 12 + m2 ≤ y * 12 + m + 1 := by
  cases hc with
  | done h => omega
  | step hd hc' =>
    have hn := nxM_range m h1 h2
    have hb := ndom_bounds (nxY y m) (nxM m) hn.1 hn.2
    have := nx_ym (y := y) h1 h2
    cases hc' with
    | done _ => omega
    | step hd' _ => omega

theorem offs_range {f incs b D d D' : Nat} (hnib : nibOk f incs b = true) (hDb : D + b ≤ d + 6) (h : D' ∈ offs f incs D) :
    D ≤ D' ∧ D' ≤ d + 6 := by
  induction f generalizing incs b D with
  | zero => cases h
  | succ f ih =>
    obtain ⟨hn1, hn2⟩ := nibOk_succ hnib
    unfold offs at h
    rcases List.mem_cons.1 h with h | h
    · omega
    · split at h
      · rename_i c0
        have := ih (hn2 c0).2 (by omega) h
        omega
      · cases h

theorem mem_week_offs {r : Rule} {d D' : Nat} (h : D' ∈ offs 8 (wlyIncs r) d) : d ≤ D' ∧ D' ≤ d + 6 :=
  offs_range (wlyIncs_nib r) (by omega) h

/-- the day number of an offset of the week -/
theorem dateOf_days {y m d D : Nat} (hv : VD y m d) (hl : LowOk y m) (h1 : d ≤ D) (h2 : D ≤ d + 6)
    (hwk : ∀ ty tm td, Carry y m D ty tm td → ty * 12 + tm ≤ 25201) :
    days (dateOf y m D).1 (dateOf y m D).2.1 (dateOf y m D).2.2 = days y m 1 + D - 1 := by
  have hd := hv.2.2.2
  have hd1 := hv.2.2.1
  have hc := carry_dateOf (y := y) (m := m) (D := D) hv.1 hv.2.1 (by omega)
  exact carry_days' hc hv.1 hv.2.1 (by omega) hl (hwk _ _ _ hc)

/-- the week's list ascends -/
theorem weekL_sorted (r : Rule) (p : Inst) (nti : Nat) (hr : WfRule r) (hp : WfInst p)
    {y m d : Nat} (hv : VD y m d) (hl : LowOk y m)
    (hwk : ∀ D, d ≤ D → D ≤ d + 6 → ∀ ty tm td, Carry y m D ty tm td → ty * 12 + tm ≤ 25201) :
    (weekL r p nti y m d).Pairwise (fun a b => absOf a < absOf b) := by
  unfold weekL
  rw [List.pairwise_flatMap]
  constructor
  · intro D' _
    exact dayL_sorted r p hr hp _ _ _
  · refine ((offs_sorted 8 (wlyIncs r) 6 d (wlyIncs_nib r)).filter _).imp_of_mem ?_
    intro D1 D2 h1 h2 hlt a ha b hb
    have r1 := mem_week_offs (List.mem_filter.1 h1).1
    have r2 := mem_week_offs (List.mem_filter.1 h2).1
    have e1 := dateOf_days hv hl r1.1 r1.2 (hwk D1 r1.1 r1.2)
    have e2 := dateOf_days hv hl r2.1 r2.2 (hwk D2 r2.1 r2.2)
    obtain ⟨t1, ht1, rfl⟩ := List.mem_map.1 ha
    obtain ⟨t2, ht2, rfl⟩ := List.mem_map.1 hb
    obtain ⟨a1, a2, a3⟩ := mem_timesIx ht1
    obtain ⟨b1, b2, b3⟩ := mem_timesIx ht2
    have ka := secOf_range p _ (exp_of_enum (x := mkz (dateOf y m D1).1 (dateOf y m D1).2.1 (dateOf y m D1).2.2 p.ms t1)
      hr hp a1 a2 a3).1
    have kb := secOf_range p _ (exp_of_enum (x := mkz (dateOf y m D2).1 (dateOf y m D2).2.1 (dateOf y m D2).2.2 p.ms t2)
      hr hp b1 b2 b3).1
    unfold absOf
    have d1 : dayOf (mkz (dateOf y m D1).1 (dateOf y m D1).2.1 (dateOf y m D1).2.2 p.ms t1) = days y m 1 + D1 - 1 := e1
    have d2 : dayOf (mkz (dateOf y m D2).1 (dateOf y m D2).2.1 (dateOf y m D2).2.2 p.ms t2) = days y m 1 + D2 - 1 := e2
    rw [d1, d2]
    omega

end Echse.Lemmas.RrRfc
