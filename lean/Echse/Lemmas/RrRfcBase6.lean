/-
  Shared base of the C01 proofs, part 6: the month carry and day numbers up to January 2100 (a week that starts in 2099
  may end there; `getNdom` is the Gregorian month length up to that month).
-/
import Echse.Lemmas.RrRfcBase5
namespace Echse.Lemmas.RrRfc
open Echse.Rrule Echse.Instant Echse.Spec.RrOk Echse.Spec.Cal Echse.Spec.RuleExt Echse.Spec.Rfc
open Echse.Lemmas.RrOkBase

theorem ndom_eq' {y m : Nat} (h1 : 1 ≤ m) (h2 : m ≤ 12) (hl : LowOk y m) (hy : y * 12 + m ≤ 25201) :
    getNdom y m = monthLen y m :=
  Echse.RuleExt.getNdom_eq y m ⟨h1, h2, hl, by omega⟩ (by omega)

theorem days_2100_2 : days 2100 2 1 = 766981 := by decide

theorem days_ge_2100_2 {y m : Nat} (hy : 25202 ≤ y * 12 + m) (h1 : 1 ≤ m) (h2 : m ≤ 12) : days 2100 2 1 ≤ days y m 1 := by
  by_cases c : y = 2100
  · subst c; exact days_month_mono 2100 2 m (by omega) (by omega) h2
  · have a := days_year_mono 2101 y (by omega)
    have b := days_month_mono y 1 m (by omega) h1 h2
    have e : days 2101 1 1 = 767315 := by decide
    rw [days_2100_2]; omega

theorem days_lt_2100_2 {y m d : Nat} (h : VDs y m d) (hy : y * 12 + m ≤ 25201) : days y m d < days 2100 2 1 :=
  days_lt_of_lex y m d 2100 2 1 h.1 h.2.1 h.2.2.2 (by omega) (by omega) (by omega) (by have := h.1; omega)

theorem nx_ym {y m : Nat} (h1 : 1 ≤ m) (h2 : m ≤ 12) : nxY y m * 12 + nxM m = y * 12 + m + 1 := by
  unfold nxY nxM; split <;> omega

theorem carry_ym {y m D y2 m2 d2 : Nat} (hc : Carry y m D y2 m2 d2) (h1 : 1 ≤ m) (h2 : m ≤ 12) (hD : 1 ≤ D) :
    y * 12 + m ≤ y2 * 12 + m2 := by
  obtain ⟨-, -, -, hor⟩ := hc.props h1 h2 hD
  rcases hor with ⟨e1, e2, _⟩ | ⟨_, h⟩
  · rw [e1, e2]; exact Nat.le_refl _
  · omega

theorem carry_days' {y m D y2 m2 d2 : Nat} (hc : Carry y m D y2 m2 d2) :
    1 ≤ m → m ≤ 12 → 1 ≤ D → LowOk y m → y2 * 12 + m2 ≤ 25201 → days y2 m2 d2 = days y m 1 + D - 1 := by
  induction hc with
  | @done y m d h => intro _ _ _ _ _; exact days_d y m d
  | @step y m d y2 m2 d2 hd hc ih =>
    intro h1 h2 h3 hl hy
    have hn := nxM_range m h1 h2
    have hb := ndom_bounds y m h1 h2
    have hle := carry_ym hc hn.1 hn.2 (by omega)
    have hnx := nx_ym (y := y) h1 h2
    rw [ih hn.1 hn.2 (by omega) (lowOk_nx hl) hy, days_nx h1 h2, ← ndom_eq' h1 h2 hl (by omega)]
    omega

theorem carry_of_days' {y m D y2 m2 d2 : Nat} (hc : Carry y m D y2 m2 d2) (yx mx dx : Nat) (hx : VDs yx mx dx)
    (hyx : yx * 12 + mx ≤ 25201) :
    1 ≤ m → m ≤ 12 → 1 ≤ D → LowOk y m → days yx mx dx = days y m 1 + D - 1 → y2 = yx ∧ m2 = mx ∧ d2 = dx := by
  have hlt := days_lt_2100_2 hx hyx
  induction hc with
  | @done y m d h =>
    intro h1 h2 h3 hl he
    have hy : y * 12 + m ≤ 25201 := by
      by_cases c : y * 12 + m ≤ 25201
      · exact c
      · have := days_ge_2100_2 (show 25202 ≤ y * 12 + m by omega) h1 h2; omega
    rw [ndom_eq' h1 h2 hl hy] at h
    rw [← days_d] at he
    obtain ⟨e1, e2, e3⟩ := days_inj yx mx dx y m d hx.1 hx.2.1 hx.2.2.1 hx.2.2.2 h1 h2 h3 h he
    exact ⟨e1.symm, e2.symm, e3.symm⟩
  | @step y m d y2 m2 d2 hd hc ih =>
    intro h1 h2 h3 hl he
    have hn := nxM_range m h1 h2
    have hb := ndom_bounds y m h1 h2
    have hy : y * 12 + m ≤ 25201 := by
      by_cases c : y * 12 + m ≤ 25201
      · exact c
      · have := days_ge_2100_2 (show 25202 ≤ y * 12 + m by omega) h1 h2; omega
    refine ih hn.1 hn.2 (by omega) (lowOk_nx hl) ?_
    rw [days_nx h1 h2, ← ndom_eq' h1 h2 hl hy]
    omega

end Echse.Lemmas.RrRfc
