/-
  Model of `rrul_fill_Mly` (src/evrrul.c:2110-2356, FREQ=MINUTELY).  Hand transcription, loop by loop; shares the mask
  set-up (`mkSubCtx`), the day tests (`SubCtx.dayOut`), `doyHit`, `interPast`, `posPickP`, `posPickAnyP` with the hourly
  filler (Echse.Model.RrHly).  C `unsigned int` arithmetic that can wrap is written with explicit `% u32`.
  Tied to the C code by tools/rrfillprobe.py.  Results are accumulated in reverse; `cnt` is the C variable `res`.
-/
import Echse.Model.RrHly
namespace Echse.Rrule
open Echse.Instant

/-- 2236-2245: `for (k = 0, tmp = H * 60U + M; !(H_mask & (1U << tmp / 60U)) || !(M_mask & (1ULL << tmp % 60U));
tmp = (tmp + rr->inter % 1440U) % 1440U) if (++k >= 1440U) goto fin;`
`some true` = an allowed time of day is reachable, `some false` = `goto fin`.  Fuel: `k` grows by one per round and the
loop is left at `k = 1440`, so 1440 rounds suffice. -/
def mnlyReach (c : SubCtx) : Nat → Nat → Nat → Option Bool
  | 0, _, _ => none
  | fuel+1, k, tmp =>
    if (c.HMask &&& shl1 (tmp / 60)) ≠ 0 ∧ (c.MMask &&& shl1q (tmp % 60)) ≠ 0 then some true
    else if k + 1 ≥ 1440 then some false
    else mnlyReach c fuel (k + 1) ((tmp + c.inter % 1440) % 1440)

/-- 2331-2352: the ENUM loop of the minute `y-m-d H:M`, `for (ENUM_INIT(e, iS); res < nti && ENUM_COND(e, iS);
ENUM_ITER(e, iS))`: one pass over the seconds (the hidden minute and hour counters are set to -2U by ENUM_ITER);
result `(cnt, acc, fin)`, `fin` = `goto fin` was taken.  Recursion over the (finite) list of `(e.S[iS], iS)`. -/
def mnlyEnum (c : SubCtx) (y m d H M : Nat) : List (Nat × Nat) → Nat → List Inst → Nat × List Inst × Bool
  | [], cnt, acc => (cnt, acc, false)
  | (s, iS) :: rest, cnt, acc =>
    if ¬ cnt < c.nti then (cnt, acc, false) else
    let x := mkInst y m d H M s c.proto.ms
    if ltP x c.proto then mnlyEnum c y m d H M rest cnt acc                  -- continue
    else if ltP c.r.untl x then (cnt, acc, true)                             -- goto fin
    else if !posPickP c.r.pos iS c.e.S.length then mnlyEnum c y m d H M rest cnt acc   -- not one of the set positions
    else mnlyEnum c y m d H M rest (cnt + 1) (x :: acc)                      -- tgt[res++] = x

/-- 2259-2266 (and 2524-2531): `while (d > maxd) { d -= maxd; if (++m > 12U) { y++; m = 1U; } maxd = __get_ndom(y, m); }`,
state `(y, m, d, maxd)`.  Fuel: `m` stays in 1..12, so `maxd ≥ 28` and every round lowers `d` by at least 1 while
`d > maxd ≥ 1`: `d + 1` rounds suffice (callers pass `d + 1`). -/
def subCarry : Nat → Nat → Nat → Nat → Nat → Option (Nat × Nat × Nat × Nat)
  | 0, _, _, _, _ => none
  | fuel+1, y, m, d, maxd =>
    if d > maxd then
      let d := d - maxd
      if m + 1 > 12 then
        let y := (y + 1) % u32
        subCarry fuel y 1 d (getNdom y 1)
      else subCarry fuel y (m + 1) d (getNdom y (m + 1))
    else some (y, m, d, maxd)

/-- 2248-2353: the outer loop over the candidate minutes, `for (w = …, maxd = …, inc = rr->inter; res < nti;
({ if ((M += inc) >= 60U) { … } inc = rr->inter; }))`.  `inc` is `rr->inter` at the head of every round, so it is not
part of the state; the body says which `inc` its `continue` leaves behind.  `none` out of fuel (see `mnlyFuel`). -/
def mnlyLoop (c : SubCtx) (secs : List (Nat × Nat)) :
    Nat → Nat → Nat → Nat → Nat → Nat → Nat → Nat → Nat → List Inst → Option (List Inst)
  | 0, _, _, _, _, _, _, _, _, _ => none
  | fuel+1, y, m, d, H, M, w, maxd, cnt, acc =>
    if ¬ cnt < c.nti then some acc else
    -- 2271-2288: the first instant this candidate could produce; the year stop; UNTIL
    let lb := mkInst y m d H M 0 c.proto.ms
    if y > subMaxYear then some acc                                          -- goto fin
    else if ltP c.r.untl lb then some acc                                    -- goto fin
    else
    -- 2292-2352: the body proper, `(cnt, acc, fin, inc)`
    let pastD := interPast ((1440 + u32 - (H * 60 + M) % u32) % u32) c.inter -- inter_past(1440U - (H * 60U + M), rr->inter)
    let (cnt, acc, fin, inc) : Nat × List Inst × Bool × Nat :=
      if c.dayOut w m d maxd then (cnt, acc, false, pastD)                   -- weekday, month or day is filtered
      else if (c.HMask &&& shl1 H) = 0 then                                  -- hour is filtered
        (cnt, acc, false, interPast ((60 + u32 - M) % u32) c.inter)
      else if (c.MMask &&& shl1q M) = 0 then (cnt, acc, false, c.inter)      -- minute is filtered
      else if !c.r.doy.isEmpty && !doyHit c.r.doy (ymdGetYd y m d) (maxyOf y) then (cnt, acc, false, pastD)
      else
        let (cnt, acc, fin) := mnlyEnum c y m d H M secs cnt acc             -- bang:
        (cnt, acc, fin, c.inter)
    if fin then some acc else
    -- 2251-2270: the loop's increment expression
    let M := (M + inc) % u32
    if M ≥ 60 then
      let H := (H + M / 60) % u32
      let M := M % 60
      if H ≥ 24 then
        let q := H / 24
        let w := wrapWd ((w + q) % u32)
        match subCarry ((d + q) % u32 + 1) y m ((d + q) % u32) maxd with
        | none => none
        | some (y, m, d, maxd) => mnlyLoop c secs fuel y m d (H % 24) M w maxd cnt acc
      else mnlyLoop c secs fuel y m d H M w maxd cnt acc
    else mnlyLoop c secs fuel y m d H M w maxd cnt acc

/-- fuel of `mnlyLoop` entered at year `y`.  `inc` is `rr->inter` or `inter_past(rem, rr->inter)`, a multiple of
`rr->inter ≥ 1` below `rem + rr->inter` (`rem ≤ 1440`, no wrap).  As long as `M + inc` does not wrap, a round moves the
candidate `y-m-d H:M` forward by `inc ≥ 1` minutes (the carries keep the minute count), and a round entered with
`y > 2099` leaves the loop: at most `(2100 - y) * 366 * 1440 + 1` such rounds.  `M + inc` wraps only for
`inc ≥ 2^32 - 59`; then `M` shrinks by at least 1, the rest stays, and after at most 59 such rounds in a row (255 for a
proto with a minute out of range) the sum no longer wraps, `d` grows by more than 10^6 days and the next round sees
`y > 2099`. -/
def mnlyFuel (y : Nat) : Nat := (2100 - y) * 527040 + 300

/-- `rrul_fill_Mly(tgt, nti, rr)` with `*tgt = proto` -/
def fillMnly (r : Rule) (proto : Inst) (nti : Nat) : Option (List Inst) :=
  let y := proto.y
  let m := proto.m
  let d := proto.d
  -- 2128-2132
  match capNti r nti with
  | none => some []
  | some nti =>
  -- 2133-2136
  if r.scale ≠ 0 then some [] else
  -- 2138-2142
  let (H, M) := if proto.H = allDay then (0, 0) else (proto.H, proto.M)
  let c := mkSubCtx r proto nti
  -- 2223-2229
  if y < 1600 ∨ m = 0 ∨ m > 12 ∨ d = 0 ∨ d > 31 then some [] else
  if r.inter % u32 = 0 then some [] else
  -- 2231-2234
  if !posPickAnyP r.pos c.e.S.length then some [] else
  match mnlyReach c 1440 0 (H * 60 + M) with
  | none => none
  | some false => some []                                                    -- incongruent, nothing will ever match
  | some true =>
    (mnlyLoop c c.e.S.zipIdx (mnlyFuel y) y m d H M (ymdGetWday y m d) (getNdom y m) 0 []).map List.reverse

end Echse.Rrule
