/-
  Property C01 for the daily filler `rrul_fill_dly` (model `fillDly`) against the RFC 5545 specification
  `Echse.Spec.Rfc.DailyInst`:

    fillDly_sound     every instant written is an instance of the rule anchored at the seed, and chosen by BYSETPOS
    fillDly_complete  none missing: an instance `x` chosen by BYSETPOS, at or after the seed, not after UNTIL and not after
                      2099 is in the result `l`, or `l` is full (`capOf r n` elements: `n`, or COUNT if smaller) and all of
                      `l` comes before `x`.
    (`fillDly_inst`, `fillDly_complete_nopos`: the same without reference to BYSETPOS / for rules without BYSETPOS)

  Both cover the hand-over to the weekly filler (BYDAY with plain weekdays, INTERVAL=1, no BYMONTHDAY, no BYSETPOS), where
  from the seed's day on the daily and the weekly instances are the same (`daily_of_weekly`, `weekly_of_daily`).

  History: a hypothesis `SeedOk r p` (a DATE seed has no BYHOUR/BYMINUTE/BYSECOND) used to be needed: the code did not
  ignore these parts next to a DATE seed as RFC 5545 (and the specification's `TimeExp`) has it, e.g.
  r = { freq := 4, H := [9] }, p = 2020-01-01 (all day) gave 2020-01-01T09:00:00, … timed instants, not of the seed's kind
  (`SameKind`).  Since the repair of `make_enum` the code ignores them and the hypothesis is gone
  (`fillDly_date_seed_byhour`).
-/
import Echse.Lemmas.RrDlyPos2
import Echse.Lemmas.RrWlyRfc
namespace Echse.Lemmas.RrDlyRfc
open Echse.Rrule Echse.Instant Echse.Spec.RrOk Echse.Spec.Cal Echse.Spec.RuleExt Echse.Spec.Rfc
open Echse.Lemmas.RrOkBase Echse.Lemmas.RrRfc Echse.Lemmas.RrWlyRfc

theorem capNti_idem {r : Rule} {n nti : Nat} (h : capNti r n = some nti) : capNti r nti = some nti := by
  unfold capNti at h ⊢
  simp only at h ⊢
  generalize (r.count % (u32 : Int)).toNat = cu at h ⊢
  by_cases a : cu < n
  · rw [if_pos a] at h
    by_cases b : cu = 0
    · rw [if_pos b] at h; cases h
    · rw [if_neg b] at h; cases h; rw [if_neg (by omega)]
  · rw [if_neg a] at h; cases h; rw [if_neg a]

/-- what the hand-over condition says of the rule -/
theorem handover_facts {r : Rule} (hr : WfRule r) (hh : Handover r) :
    plainDays r ≠ [] ∧ r.inter = 1 ∧ r.dom = [] ∧ r.pos = [] := by
  obtain ⟨h1, h2, h3, h4⟩ := hh
  have hi := hr.inter
  refine ⟨fun e => h1 ((wdMaskOf_half r).2 e), by unfold u32 at h2; omega, List.isEmpty_iff.1 h3, ?_⟩
  cases hp : r.pos with
  | nil => rfl
  | cons a as => rw [hp] at h4; simp at h4

theorem week_mono (a b : Int) (h : a ≤ b) : ∃ k : Nat, weekStart b = weekStart a + 7 * (k : Int) := by
  refine ⟨((weekStart b - weekStart a) / 7).toNat, ?_⟩
  unfold weekStart wdayOf; omega

/-- with INTERVAL=1, plain BYDAY weekdays and no BYMONTHDAY a daily instance is a weekly one -/
theorem weekly_of_daily {r : Rule} {p x : Inst} (h1 : plainDays r ≠ []) (h2 : r.inter = 1) (hx : DailyInst r p x) :
    WeeklyInst r p x := by
  obtain ⟨sk, ⟨k, hk⟩, ⟨d1, d2, d3⟩, hte⟩ := hx
  obtain ⟨k', hk'⟩ := week_mono (dayOf p) (dayOf x) (by rw [hk, h2]; omega)
  refine ⟨sk, ⟨k', by rw [hk', h2]; omega⟩, ?_, d1, hte⟩
  rw [if_neg h1]
  rcases d3 with a | a
  · exact absurd a h1
  · exact a

/-- … and from the seed's day on a weekly instance is a daily one -/
theorem daily_of_weekly {r : Rule} {p x : Inst} (h2 : r.inter = 1) (h3 : r.dom = []) (hge : dayOf p ≤ dayOf x)
    (hx : WeeklyInst r p x) : DailyInst r p x := by
  obtain ⟨sk, -, hwd, hmon, hte⟩ := hx
  refine ⟨sk, ⟨(dayOf x - dayOf p).toNat, by rw [h2]; omega⟩, ⟨hmon, Or.inl h3, ?_⟩, hte⟩
  by_cases c : plainDays r = []
  · exact Or.inl c
  · rw [if_neg c] at hwd; exact Or.inr hwd

theorem inR_of_kind {p x : Inst} (hp : WfInst p) (hk : SameKind p x) (hxy : x.y ≤ 2099) : InR x := by
  obtain ⟨s1, s2, s3, s4, s5, s6⟩ := hk
  have hx31 := (show VDs x.y x.m x.d from ⟨s1, s2, s3, s4⟩).d31
  have hms := hp.ms
  have hpt := hp.time
  unfold allDay at s6 hpt
  refine ⟨by omega, by omega, by omega, ?_, ?_, ?_, by omega⟩
  · rcases s6 with ⟨a, b, c, d⟩ | ⟨a, b, c, d⟩ <;> omega
  · rcases s6 with ⟨a, b, c, d⟩ | ⟨a, b, c, d⟩ <;> omega
  · rcases s6 with ⟨a, b, c, d⟩ | ⟨a, b, c, d⟩ <;> omega

/-- an instant of the seed's kind that the code does not put before the seed is not on an earlier day -/
theorem day_ge_of_not_lt {p x : Inst} (hp : WfInst p) (hy : 1901 ≤ p.y) (hk : SameKind p x) (hxy : x.y ≤ 2099)
    (h : ltP x p = false) : dayOf p ≤ dayOf x := by
  have hxin := inR_of_kind hp hk hxy
  have hpin := inR_of_wf hp
  have hik := (ltP_key_false x p hxin hpin hk.2.2.2.2.1).1 h
  have hdk := ikey_date_le hpin hxin hik
  have hpm := hp.month
  have hpd := hp.day
  have hxv : VDs x.y x.m x.d := ⟨hk.1, hk.2.1, hk.2.2.1, hk.2.2.2.1⟩
  have hx31 := hxv.d31
  have hpy : p.y ≤ 2099 := by
    have := year_le_of_not_lt x p hpin h; omega
  have hpv : VDs p.y p.m p.d := ⟨hpm.1, hpm.2, hpd.1, by rw [← ndom_eq hpm.1 hpm.2 (lowOk_seed hy) hpy]; exact hpd.2⟩
  have hp31 := hpv.d31
  unfold dayOf
  by_cases c : dkey p.y p.m p.d < dkey x.y x.m x.d
  · exact Int.le_of_lt (days_lt_of_dkey hpv hxv c)
  · have e : p.y = x.y ∧ p.m = x.m ∧ p.d = x.d := by
      have hm := hxv.2.1
      unfold dkey at c hdk; omega
    rw [e.1, e.2.1, e.2.2]; exact Int.le_refl _

theorem fillDly_inst (r : Rule) (p : Inst) (n : Nat) (l : List Inst) (hr : WfRule r) (hp : WfInst p)
    (_hn : n ≤ 64) (hy : 1901 ≤ p.y) (h : fillDly r p n = some l) :
    ∀ x ∈ l, DailyInst r p x := by
  cases hcap : capNti r n with
  | none =>
    rw [fillDly_none r p n hr hp hcap] at h
    cases h; intro x hx; cases hx
  | some nti =>
    by_cases hh : Handover r
    · obtain ⟨f1, f2, f3, -⟩ := handover_facts hr hh
      rw [fillDly_ho r p n nti hr hp hcap hh] at h
      intro x hx
      obtain ⟨hw, hxy, hge⟩ := fillWly_sound' r p nti l hr hp hy h x hx
      exact daily_of_weekly f2 f3 (day_ge_of_not_lt hp hy hw.1 hxy hge) hw
    · exact dly_nh_sound r p n nti l hr hp hy hcap hh h

theorem fillDly_complete_nopos (r : Rule) (p : Inst) (n : Nat) (l : List Inst) (hr : WfRule r) (hp : WfInst p)
    (hn : n ≤ 64) (hy : 1901 ≤ p.y) (hpos : r.pos = []) (h : fillDly r p n = some l)
    (x : Inst) (hx : DailyInst r p x) (hge : absOf p ≤ absOf x) (hle : ltP r.untl x = false) (hxy : x.y ≤ 2099) :
    x ∈ l ∨ (l.length = capOf r n ∧ ∀ z ∈ l, ltP z x = true) := by
  cases hcap : capNti r n with
  | none =>
    rw [fillDly_none r p n hr hp hcap] at h
    cases h
    exact Or.inr ⟨by unfold capOf; rw [hcap]; rfl, fun z hz => by cases hz⟩
  | some nti =>
    have hc : capOf r n = nti := by unfold capOf; rw [hcap]; rfl
    rw [hc]
    by_cases hh : Handover r
    · obtain ⟨f1, f2, f3, -⟩ := handover_facts hr hh
      rw [fillDly_ho r p n nti hr hp hcap hh] at h
      have hnti := (capNti_spec hr hcap).1
      have := fillWly_complete_nopos r p nti l hr hp (by omega) hy hpos h x (weekly_of_daily f1 f2 hx) hge hle hxy
      have hc2 : capOf r nti = nti := by unfold capOf; rw [capNti_idem hcap]; rfl
      rw [hc2] at this
      exact this
    · exact dly_nh_complete r p n nti l hr hp hy hpos hcap hh h x hx hge hle hxy

/-- C01, soundness of the daily filler: every instant written is an instance of the rule anchored at the seed and is
chosen by BYSETPOS (`hf`: the rule's frequency, which `SetposOk` refers to, is DAILY — needed only with BYSETPOS) -/
theorem fillDly_sound (r : Rule) (p : Inst) (n : Nat) (l : List Inst) (hr : WfRule r) (hp : WfInst p)
    (hn : n ≤ 64) (hy : 1901 ≤ p.y) (hf : r.pos ≠ [] → r.freq = 4) (h : fillDly r p n = some l) :
    ∀ x ∈ l, DailyInst r p x ∧ SetposOk r p x := by
  intro x hx
  refine ⟨fillDly_inst r p n l hr hp hn hy h x hx, ?_⟩
  by_cases hpos : r.pos = []
  · exact Or.inl hpos
  · cases hcap : capNti r n with
    | none =>
      rw [fillDly_none r p n hr hp hcap] at h
      cases h; cases hx
    | some nti => exact dly_pos_sound r p n nti l hr hp hy (hf hpos) hpos hcap h x hx

/-- C01, completeness of the daily filler: an instance `x` chosen by BYSETPOS, at or after the seed, not after UNTIL and
not after 2099 is in the result `l`, or `l` is full (`capOf r n` elements) and all of it comes before `x` -/
theorem fillDly_complete (r : Rule) (p : Inst) (n : Nat) (l : List Inst) (hr : WfRule r) (hp : WfInst p)
    (hn : n ≤ 64) (hy : 1901 ≤ p.y) (hf : r.pos ≠ [] → r.freq = 4) (h : fillDly r p n = some l)
    (x : Inst) (hx : DailyInst r p x) (hsp : SetposOk r p x) (hge : absOf p ≤ absOf x)
    (hle : ltP r.untl x = false) (hxy : x.y ≤ 2099) :
    x ∈ l ∨ (l.length = capOf r n ∧ ∀ z ∈ l, ltP z x = true) := by
  by_cases hpos : r.pos = []
  · exact fillDly_complete_nopos r p n l hr hp hn hy hpos h x hx hge hle hxy
  · cases hcap : capNti r n with
    | none =>
      rw [fillDly_none r p n hr hp hcap] at h
      cases h
      exact Or.inr ⟨by unfold capOf; rw [hcap]; rfl, fun z hz => by cases hz⟩
    | some nti =>
      have hc : capOf r n = nti := by unfold capOf; rw [hcap]; rfl
      rw [hc]
      exact dly_pos_complete r p n nti l hr hp hy (hf hpos) hpos hcap h x hx hsp hge hle hxy

/-- FREQ=DAILY;BYHOUR=9 on the DATE seed 2020-01-01: BYHOUR is ignored (RFC 5545, 3.3.10), the days themselves come out
(before the repair of `make_enum`: 2020-01-01T09:00:00, …, instants not of the seed's kind) -/
theorem fillDly_date_seed_byhour :
    fillDly { freq := 4, H := [9] } { y := 2020, m := 1, d := 1, H := 255, M := 0, S := 0, ms := 0 } 2 =
    some [{ y := 2020, m := 1, d := 1, H := 255, M := 0, S := 0, ms := 0 },
          { y := 2020, m := 1, d := 2, H := 255, M := 0, S := 0, ms := 0 }] := by decide +kernel

end Echse.Lemmas.RrDlyRfc
