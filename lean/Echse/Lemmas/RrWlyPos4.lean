/-
  BYSETPOS for the weekly filler, part 4: the week loop's test `pos_match_p` is the specification's `SetposOk`.
-/
import Echse.Lemmas.RrWlyPos3
namespace Echse.Lemmas.RrRfc
open Echse.Rrule Echse.Instant Echse.Spec.RrOk Echse.Spec.Cal Echse.Spec.RuleExt Echse.Spec.Rfc
open Echse.Lemmas.RrOkBase

/-- `nset`: the number of the week's days in a month of BYMONTH times the number of times of a day -/
theorem wlyNset_eq (r : Rule) (p : Inst) (nti : Nat) (hpos : r.pos ≠ []) {y m d : Nat} (hv : VD y m d) :
    wlyNset (wctx r p nti) m d (getNdom y m) =
      (offs 8 (wlyIncs r) d).countP (selD (wctx r p nti) y m) * (makeEnum p r).timesIx.length := by
  have hne : r.pos.isEmpty = false := by
    cases hq : r.pos with
    | nil => exact absurd hq hpos
    | cons a as => rfl
  unfold wlyNset
  show (if (!r.pos.isEmpty) = true then _ else 0) = _
  rw [hne]
  simp only [Bool.not_false, if_true]
  have hd31 := hv.d31
  rw [nsetLoop_eq (wctx r p nti) m d (getNdom y m) (m % 12 + 1) hd31 8 (wlyIncs r) 0 0 6 (wlyIncs_nib r) (by omega),
    timesIx_length, Nat.zero_add, Nat.add_zero, Nat.mul_assoc]
  congr 1
  apply List.countP_congr
  intro D' _
  have hm := hv.1
  have hm2 := hv.2.1
  have e : (if D' > getNdom y m then m % 12 + 1 else m) = monOf y m D' := by
    unfold monOf nxM
    split
    · split <;> omega
    · rfl
  unfold selD
  rw [e]

theorem wly_idx (a H M S iH iM iS : Nat) :
    (((a * H + iH) * M + iM) * S + iS) = a * (H * (M * S)) + (iH * (M * S) + (iM * S + iS)) := by
  rw [Nat.add_mul, Nat.add_mul, Nat.add_mul, Nat.mul_assoc, Nat.mul_assoc, Nat.mul_assoc, Nat.add_assoc, Nat.add_assoc]

/-- the week loop's BYSETPOS test is `SetposOk` -/
theorem wlySkip_iff (r : Rule) (p : Inst) (nti : Nat) (hr : WfRule r) (hp : WfInst p)
    (hy2 : p.y ≤ 2099) (hf : r.freq = 3) (hpos : r.pos ≠ []) {y0 m0 d0 : Nat} (hv0 : VD y0 m0 d0) (hl0 : LowOk y0 m0)
    (hy0 : y0 ≤ 2099) (hback : Carry y0 m0 (d0 + wlyBack r p) p.y p.m p.d) (j y m d : Nat)
    (hcw : Carry y0 m0 (d0 + j * wk (wctx r p nti)) y m d)
    (hwk : ∀ D, d ≤ D → D ≤ d + 6 → ∀ ty tm td, Carry y m D ty tm td → ty * 12 + tm ≤ 25201)
    (o : Nat) (ho : o ∈ offs 8 (wlyIncs r) 0) (ty tm td : Nat) (hc : Carry y m (d + o) ty tm td)
    (hbit : bit (monMask r.mon) tm = true) (t : Tix) (ht : t ∈ (makeEnum p r).timesIx) :
    wlySkip (wctx r p nti) (wlyNset (wctx r p nti) m d (getNdom y m))
      (ndAt (wctx r p nti) y m (offs 8 (wlyIncs r) d) (d + o)) t.1 = false ↔ SetposOk r p (mkz ty tm td p.ms t) := by
  obtain ⟨⟨iH, iM, iS⟩, h, mi, s⟩ := t
  have hd0 := hv0.2.2.1
  have hD0 : 1 ≤ d0 + j * wk (wctx r p nti) := by omega
  obtain ⟨hv, -, -, -⟩ := hcw.props hv0.1 hv0.2.1 hD0
  have hd := hv.2.2.2
  have hl := lowOk_carry hcw hv0.1 hv0.2.1 hD0 hl0
  have ho6 := (offs_range (wlyIncs_nib r) (show 0 + 6 ≤ 0 + 6 by omega) ho).2
  have hcd := carry_dateOf (y := y) (m := m) (D := d + o) hv.1 hv.2.1 (by omega)
  obtain ⟨e1, e2, e3⟩ := carry_det hcd hc
  have hb := hwk (d + o) (by omega) (by omega) _ _ _ hc
  have hxw := (wly_days r p nti hy2 hv0 hl0 hback j o ty tm td ho (hcw.comp o _ _ _ hc) hb).1
  obtain ⟨g1, g2, g3⟩ := (mem_timesIx_iff _ _ _ _ _ _ _).1 ht
  have hget := timesIx_get (makeEnum p r) iH iM iS h mi s g1 g2 g3
  have hlt : iH * ((makeEnum p r).M.length * (makeEnum p r).S.length) + (iM * (makeEnum p r).S.length + iS) <
      (makeEnum p r).timesIx.length := (List.getElem?_eq_some_iff.1 hget).1
  have hsel : selD (wctx r p nti) y m (d + o) = true := by
    show bit (monMask r.mon) (monOf y m (d + o)) = true
    rw [← dateOf_mon, e2]; exact hbit
  -- the position in the week's list
  have hidx : (weekL r p nti y m d)[(ndAt (wctx r p nti) y m (offs 8 (wlyIncs r) d) (d + o) - 1) *
      (makeEnum p r).timesIx.length + (iH * ((makeEnum p r).M.length * (makeEnum p r).S.length) +
        (iM * (makeEnum p r).S.length + iS))]? = some (mkz ty tm td p.ms ((iH, iM, iS), h, mi, s)) := by
    unfold weekL ndAt
    rw [week_pos (offs 8 (wlyIncs r) d) (offs_sorted 8 (wlyIncs r) 6 d (wlyIncs_nib r)) (selD (wctx r p nti) y m)
      (dayBlock r p y m) (makeEnum p r).timesIx.length (fun a => by unfold dayBlock; rw [List.length_map]) (d + o)
      (offs_shift_mem ho) hsel _ hlt]
    unfold dayBlock
    rw [List.getElem?_map, hget, e1, e2, e3]; rfl
  have hI : ∀ u, Instance r p u = WeeklyInst r p u := by intro u; unfold Instance; rw [hf]; rfl
  have hP : ∀ v, periodOf r.freq v = weekStart (dayOf v) := by intro v; unfold periodOf; rw [hf]; rfl
  have hchar : ∀ u, u ∈ weekL r p nti y m d ↔
      Instance r p u ∧ periodOf r.freq u = periodOf r.freq (mkz ty tm td p.ms ((iH, iM, iS), h, mi, s)) := by
    intro u
    rw [hI, hP, hP]
    have hxw' : weekStart (dayOf (mkz ty tm td p.ms ((iH, iM, iS), h, mi, s))) =
        weekStart (dayOf p) + 7 * (j : Int) * (r.inter : Int) := hxw
    rw [hxw']
    constructor
    · intro hu; exact weekL_sound r p nti hr hp hy2 hv0 hl0 hback j y m d hcw hwk u hu
    · rintro ⟨a, b⟩; exact weekL_complete r p nti hr hp hy2 hv0 hl0 hy0 hback j y m d hcw hwk u a b
  have key := setpos_iff r p _ hpos _ (weekL_sorted r p nti hr hp hv hl hwk) _ hidx hchar
  rw [key]
  have hlen : (weekL r p nti y m d).length = wlyNset (wctx r p nti) m d (getNdom y m) := by
    rw [wlyNset_eq r p nti hpos hv]
    unfold weekL
    exact week_len _ _ _ _ (fun a => by unfold dayBlock; rw [List.length_map])
  rw [hlen]
  have hne : r.pos.isEmpty = false := by
    cases hq : r.pos with
    | nil => exact absurd hq hpos
    | cons a as => rfl
  unfold wlySkip
  show ((!r.pos.isEmpty) && !posMatchP r.pos ((((ndAt (wctx r p nti) y m (offs 8 (wlyIncs r) d) (d + o) - 1) *
    (makeEnum p r).H.length + iH) * (makeEnum p r).M.length + iM) * (makeEnum p r).S.length + iS + 1)
    (wlyNset (wctx r p nti) m d (getNdom y m))) = false ↔ _
  rw [hne, wly_idx, ← timesIx_length]
  simp

end Echse.Lemmas.RrRfc
