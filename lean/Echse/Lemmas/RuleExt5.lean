/-
  C17 lemmas, part 5: `snarf_shift` on the SHIFT texts of the README.
-/
import Echse.Lemmas.RuleExt4
namespace Echse.RuleExt
open Echse.Rrule

/-- C17's `mkShift` -/
def mkSh (d : Int) (count : Nat) (back keep : Bool) : Int :=
  d * 65536 + (count * 4 + (if keep ∨ count = 0 then 2 else 0) + (if back then 1 else 0) : Nat)

theorem notdig_nil : ∀ x ∈ ([] : List Char).head?, Char.isDigit x = false := by simp
theorem notdig_B (r : List Char) : ∀ x ∈ ('B' :: r).head?, Char.isDigit x = false := by
  simp
theorem notdig_comma (r : List Char) : ∀ x ∈ (',' :: r).head?, Char.isDigit x = false := by
  simp

theorem snarf_days (n : Int) (hn : -366 ≤ n ∧ n ≤ 366) : snarfShift (toString n) = n * 65536 := by
  have h := strtol_int n hn [] notdig_nil
  rw [List.append_nil] at h
  unfold snarfShift
  rw [go_end _ _ _ _ _ _ h.1 (by omega), packShift_eq _ _ _ (by omega) (by omega)]
  have := xor_pack n 0 0 hn (by omega) (by omega)
  simpa using this

theorem finB_val (sem : Nat) (hs : sem = 0 ∨ sem = 2) (b d : Int) (neg : Bool)
    (hb : -366 ≤ b ∧ b ≤ 366) (hd : -366 ≤ d ∧ d ≤ 366) :
    finB sem b d neg = mkSh d b.natAbs (decide (b < 0) || (decide (b = 0) && neg)) (decide (sem = 2)) := by
  rw [finB_eq_finBx sem b d neg hb hd]
  unfold finBx mkSh
  by_cases h0 : b = 0
  · subst h0
    rcases hs with rfl | rfl <;> cases neg <;> simp <;>
      first
      | (have := xor_pack d 0 2 hd (by omega) (by omega); simpa using this)
      | (have := xor_pack d 0 3 hd (by omega) (by omega); simpa using this)
  · by_cases hneg : b < 0
    · have hb' : ¬ (b ≥ 0) := by omega
      have e : ((b.natAbs : Nat) : Int) = -b := by omega
      rcases hs with rfl | rfl <;> simp [h0, hneg, hb'] <;>
        first
        | (have := xor_pack d (-b) 1 hd (by omega) (by omega); simp at this; omega)
        | (have := xor_pack d (-b) 3 hd (by omega) (by omega); simp at this; omega)
    · have hb' : b ≥ 0 := by omega
      have e : ((b.natAbs : Nat) : Int) = b := by omega
      rcases hs with rfl | rfl <;> simp [h0, hneg, hb'] <;>
        first
        | (have := xor_pack d b 0 hd (by omega) (by omega); simp at this; omega)
        | (have := xor_pack d b 2 hd (by omega) (by omega); simp at this; omega)

theorem snarf_bdays (n : Int) (hn : n ≠ 0 ∧ -366 ≤ n ∧ n ≤ 366) :
    snarfShift (toString n ++ "B") = mkSh 0 n.natAbs (n < 0) false := by
  have h := strtol_int n hn.2 ['B'] (notdig_B [])
  unfold snarfShift
  have e : (toString n ++ "B").toList = (toString n).toList ++ ['B'] := by rw [String.toList_append]; rfl
  rw [e, go_B _ _ _ _ _ _ h.1 (by omega), h.2, finB_val 0 (Or.inl rfl) _ _ _ (by omega) (by omega)]
  simp [hn.1]

theorem snarf_bdays_keep_fwd (n : Nat) (hn : 1 ≤ n ∧ n ≤ 366) :
    snarfShift (toString n ++ "B+") = mkSh 0 n false true := by
  have h := strtol_nat n hn.2 ['B', '+'] (notdig_B _)
  unfold snarfShift
  have e : (toString n ++ "B+").toList = Nat.toDigits 10 n ++ ['B', '+'] := by
    rw [String.toList_append, nat_toList]; rfl
  rw [e, go_Bplus _ _ _ _ _ _ h.1 (by omega), h.2]
  have e2 : (0 ||| (if (n : Int) ≥ 0 then 1 else 0) <<< 1) = 2 := by
    rw [if_pos (by omega)]; rfl
  rw [e2, finB_val 2 (Or.inr rfl) _ _ _ (by omega) (by omega)]
  have : ¬ ((n : Int) < 0) := by omega
  simp [this]

theorem snarf_bdays_keep_back (n : Nat) (hn : 1 ≤ n ∧ n ≤ 366) :
    snarfShift ("-" ++ toString n ++ "B-") = mkSh 0 n true true := by
  have h := strtol_negnat n hn.2 ['B', '-'] (notdig_B _)
  unfold snarfShift
  have e : ("-" ++ toString n ++ "B-").toList = '-' :: Nat.toDigits 10 n ++ ['B', '-'] := by
    rw [String.toList_append, String.toList_append, nat_toList]; rfl
  rw [e, go_Bminus _ _ _ _ _ _ h (by omega)]
  have e2 : (0 ||| (if -(n : Int) < 0 then 1 else 0) <<< 1) = 2 := by
    rw [if_pos (by omega)]; rfl
  rw [e2, finB_val 2 (Or.inr rfl) _ _ _ (by omega) (by omega)]
  have : 0 < n := by omega
  simp [this]

theorem snarf_both (d n : Int) (hd : d ≠ 0 ∧ -366 ≤ d ∧ d ≤ 366) (hn : -366 ≤ n ∧ n ≤ 366) :
    snarfShift (toString d ++ "," ++ toString n ++ "B") = mkSh d n.natAbs (n < 0) false := by
  have h1 := strtol_int d hd.2 (',' :: ((toString n).toList ++ ['B'])) (notdig_comma _)
  have h2 := strtol_int n hn ['B'] (notdig_B [])
  unfold snarfShift
  have e : (toString d ++ "," ++ toString n ++ "B").toList
      = (toString d).toList ++ (',' :: ((toString n).toList ++ ['B'])) := by
    simp only [String.toList_append]
    simp
  rw [e, go_comma _ _ _ _ _ _ _ h1.1 (by omega), go_B _ _ _ _ _ _ h2.1 (by omega), h2.2,
    finB_val 0 (Or.inl rfl) _ _ _ (by omega) (by omega)]
  by_cases h0 : n = 0
  · subst h0; simp [mkSh]
  · simp [h0]

theorem snarf_zero_forms :
    snarfShift "0B" = mkSh 0 0 false true ∧ snarfShift "0B+" = mkSh 0 0 false true ∧
    snarfShift "-0B" = mkSh 0 0 true true ∧ snarfShift "0B-" = mkSh 0 0 true true := by
  decide +kernel
end Echse.RuleExt
