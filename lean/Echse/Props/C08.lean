/-
  C08 — calendar-instant arithmetic (`echs_instant_fixup`, `_diff`, `_add`, the ordering
  predicates, and the epoch conversions) agrees with the calendar specification
  `Echse.Spec.Cal` on normal instants of the years 1901..2099.
  Statements only; helper lemmas live in Echse/Lemmas/Instant*.lean.
-/
import Echse.Lemmas.Instant4
namespace C08
open Echse.Instant Echse.Spec.Cal

/-! ### 1. `diff` -/

/-- `diff` is the difference of the points in time (milliseconds). -/
theorem diff_spec (a b : Inst) (ha : Normal a) (hb : Normal b) (ra : InRange a) (rb : InRange b) :
    diff a b = absMs a - absMs b := by
  obtain ⟨⟨a1, a2, -, -⟩, a5, a6, a7, a8⟩ := ha
  obtain ⟨⟨b1, b2, -, -⟩, b5, b6, b7, b8⟩ := hb
  rw [diff_general a b ra rb a1 a2 b1 b2 _ rfl (by omega)]
  simp only [absMs, msPerDay]
  omega

/-- second resolution -/
theorem diff_spec_sec (a b : Inst) (ha : NormalSec a) (hb : NormalSec b) (ra : InRange a) (rb : InRange b) :
    diff a b = (absSec a - absSec b) * 1000 := by
  obtain ⟨⟨a1, a2, -, -⟩, a5, a6, a7, a8⟩ := ha
  obtain ⟨⟨b1, b2, -, -⟩, b5, b6, b7, b8⟩ := hb
  rw [diff_general a b ra rb a1 a2 b1 b2 _ rfl (by omega)]
  simp only [absSec]
  omega

/-- all-day instants (the unused fields M, S, ms agree, e.g. are all zero) -/
theorem diff_spec_day (a b : Inst) (ha : NormalDay a) (hb : NormalDay b) (ra : InRange a) (rb : InRange b)
    (hM : a.M = b.M) (hS : a.S = b.S) (hms : a.ms = b.ms) :
    diff a b = (days a.y a.m a.d - days b.y b.m b.d) * 86400000 := by
  obtain ⟨⟨a1, a2, -, -⟩, a5⟩ := ha
  obtain ⟨⟨b1, b2, -, -⟩, b5⟩ := hb
  rw [diff_general a b ra rb a1 a2 b1 b2 _ rfl (by omega)]
  omega

/-! ### 2. `add` -/

/-- `add` moves a normal instant by `δ` milliseconds (this includes that the fuel of the
month loops in `addDays` suffices). -/
theorem add_spec (b : Inst) (δ : Int) (hb : Normal b) (rb : InRange b)
    (hlo : absMs ⟨1901,1,1,0,0,0,0⟩ ≤ absMs b + δ) (hhi : absMs b + δ < absMs ⟨2100,1,1,0,0,0,0⟩) :
    Normal (add b δ) ∧ InRange (add b δ) ∧ absMs (add b δ) = absMs b + δ :=
  Echse.Instant.add_spec b δ hb rb hlo hhi

/-- all-day: `k` days move the date by `k` days, H stays `allDay`, the other fields stay. -/
theorem add_spec_day (b : Inst) (k : Int) (hb : NormalDay b) (rb : InRange b)
    (hlo : days 1901 1 1 ≤ days b.y b.m b.d + k) (hhi : days b.y b.m b.d + k < days 2100 1 1) :
    NormalDay (add b (k * 86400000)) ∧ InRange (add b (k * 86400000)) ∧
    days (add b (k * 86400000)).y (add b (k * 86400000)).m (add b (k * 86400000)).d = days b.y b.m b.d + k ∧
    (add b (k * 86400000)).M = b.M ∧ (add b (k * 86400000)).S = b.S ∧ (add b (k * 86400000)).ms = b.ms := by
  have e : (k * 86400000).tdiv 86400000 = k := Int.mul_tdiv_cancel k (by decide)
  have := Echse.Instant.add_spec_day b (k * 86400000) hb rb (by rw [e]; exact hlo) (by rw [e]; exact hhi)
  rw [e] at this
  exact this

/-- all-day, any `δ`: the date moves by `δ / 86400000` days (C division, truncating). -/
theorem add_spec_day' (b : Inst) (δ : Int) (hb : NormalDay b) (rb : InRange b)
    (hlo : days 1901 1 1 ≤ days b.y b.m b.d + δ.tdiv 86400000)
    (hhi : days b.y b.m b.d + δ.tdiv 86400000 < days 2100 1 1) :
    NormalDay (add b δ) ∧ InRange (add b δ) ∧
    days (add b δ).y (add b δ).m (add b δ).d = days b.y b.m b.d + δ.tdiv 86400000 ∧
    (add b δ).M = b.M ∧ (add b δ).S = b.S ∧ (add b δ).ms = b.ms :=
  Echse.Instant.add_spec_day b δ hb rb hlo hhi

/-- second resolution: `k` seconds -/
theorem add_spec_sec (b : Inst) (k : Int) (hb : NormalSec b) (rb : InRange b)
    (hlo : days 1901 1 1 * 86400 ≤ absSec b + k) (hhi : absSec b + k < days 2100 1 1 * 86400) :
    NormalSec (add b (k * 1000)) ∧ InRange (add b (k * 1000)) ∧ absSec (add b (k * 1000)) = absSec b + k := by
  have e : (k * 1000).tdiv 1000 = k := Int.mul_tdiv_cancel k (by decide)
  have := Echse.Instant.add_spec_sec b (k * 1000) hb rb (by rw [e]; exact hlo) (by rw [e]; exact hhi)
  rw [e] at this
  exact this

/-- second resolution, any `δ`: the sub-second part of `δ` is dropped (truncating). -/
theorem add_spec_sec' (b : Inst) (δ : Int) (hb : NormalSec b) (rb : InRange b)
    (hlo : days 1901 1 1 * 86400 ≤ absSec b + δ.tdiv 1000) (hhi : absSec b + δ.tdiv 1000 < days 2100 1 1 * 86400) :
    NormalSec (add b δ) ∧ InRange (add b δ) ∧ absSec (add b δ) = absSec b + δ.tdiv 1000 :=
  Echse.Instant.add_spec_sec b δ hb rb hlo hhi

/-! ### 3. `add` and `diff` are inverse to each other -/

theorem absMs_injective (a b : Inst) (ha : Normal a) (hb : Normal b) (h : absMs a = absMs b) : a = b :=
  absMs_inj a b ha hb h

theorem add_diff (a b : Inst) (ha : Normal a) (hb : Normal b) (ra : InRange a) (rb : InRange b) :
    add b (diff a b) = a := by
  have hd := diff_spec a b ha hb ra rb
  obtain ⟨l, u⟩ := absMs_bounds a ha ra
  obtain ⟨n, -, e⟩ := add_spec b (diff a b) hb rb (by rw [hd]; omega) (by rw [hd]; omega)
  exact absMs_inj _ _ n ha (by rw [e, hd]; omega)

theorem diff_add (b : Inst) (δ : Int) (hb : Normal b) (rb : InRange b)
    (hlo : absMs ⟨1901,1,1,0,0,0,0⟩ ≤ absMs b + δ) (hhi : absMs b + δ < absMs ⟨2100,1,1,0,0,0,0⟩) :
    diff (add b δ) b = δ := by
  obtain ⟨n, r, e⟩ := add_spec b δ hb rb hlo hhi
  rw [diff_spec _ _ n hb r rb, e]; omega

/-- the same for second resolution -/
theorem add_diff_sec (a b : Inst) (ha : NormalSec a) (hb : NormalSec b) (ra : InRange a) (rb : InRange b) :
    add b (diff a b) = a := by
  have hd := diff_spec_sec a b ha hb ra rb
  obtain ⟨l, u⟩ := absSec_bounds a ha ra
  have e : (diff a b).tdiv 1000 = absSec a - absSec b := by rw [hd]; exact Int.mul_tdiv_cancel _ (by decide)
  obtain ⟨n, -, e'⟩ := Echse.Instant.add_spec_sec b (diff a b) hb rb (by rw [e]; omega) (by rw [e]; omega)
  exact absSec_inj _ _ n ha (by rw [e', e]; omega)

/-! ### 4. `fixup` -/

/-- an overflowed timed instant denotes the same point in time after `fixup`, counting the
overflowed fields on from the first of the (possibly overflowed) month. -/
theorem fixup_spec (e : Inst) (hm1 : 1 ≤ e.m) (hm2 : e.m ≤ 36) (hd1 : 1 ≤ e.d) (hd2 : e.d ≤ 245)
    (hH : e.H ≤ 250) (hM : e.M ≤ 254) (hS : e.S ≤ 62) (hms : e.ms ≤ 1022) (hy1 : 1901 ≤ e.y) (hy2 : e.y ≤ 2095) :
    Normal (fixup e) ∧
    absMs (fixup e) = days (e.y + (e.m - 1) / 12) ((e.m - 1) % 12 + 1) 1 * 86400000 +
      ((e.d : Int) - 1) * 86400000 + (((e.H : Int) * 60 + e.M) * 60 + e.S) * 1000 + e.ms := by
  have := fixup_general e (by unfold allDay; omega) (by unfold allSec; omega) hm1 hy1 hd1
    (by omega) (by omega) (by omega) (by omega) (mfirst_lt _ _ _ (by omega) (by omega))
  exact ⟨this.1, this.2.2⟩

theorem fixup_inRange (e : Inst) (hm1 : 1 ≤ e.m) (hm2 : e.m ≤ 36) (hd1 : 1 ≤ e.d) (hd2 : e.d ≤ 245)
    (hH : e.H ≤ 250) (hM : e.M ≤ 254) (hS : e.S ≤ 62) (hms : e.ms ≤ 1022) (hy1 : 1901 ≤ e.y) (hy2 : e.y ≤ 2095) :
    InRange (fixup e) :=
  (fixup_general e (by unfold allDay; omega) (by unfold allSec; omega) hm1 hy1 hd1
    (by omega) (by omega) (by omega) (by omega) (mfirst_lt _ _ _ (by omega) (by omega))).2.1

theorem fixup_idem (e : Inst) (h : Normal e) : fixup e = e := Echse.Instant.fixup_idem e h
theorem fixup_idem_sec (e : Inst) (h : NormalSec e) : fixup e = e := Echse.Instant.fixup_idem_sec e h
theorem fixup_idem_day (e : Inst) (h : NormalDay e) : fixup e = e := Echse.Instant.fixup_idem_day e h

end C08
