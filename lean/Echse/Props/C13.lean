import Echse.Model.Exec
namespace C13
open Echse.Exec

/-- smoke (general statements replace this): row 14 of the table (same file, mail stdout only) -/
theorem row14_mail_is_stdout :
    mailBody (prep (Cfg.mk' true true true true false)) [(true, [1, 2]), (false, [9]), (true, [3])] = [1, 2, 3] := by decide

end C13
