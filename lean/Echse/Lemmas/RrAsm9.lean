/-
  Assembly of C16 / C09, part 9 (used by part 6): a pure business-day SHIFT of at most 250 business days keeps
  dates real (`KeepsAt`), in echse's own calendar and for all years: `bdayMove` displaces a date by at most 358
  calendar days, forward for `nB`, backward for `-nB`, and `reassess` (RrAsm3) does the rest.  Nothing is claimed
  about WHICH day is reached (that is C17, for 1902..2098), only that it is a real date of the year it is filed under.
-/
import Echse.Lemmas.RrAsm4
import Echse.Lemmas.RuleExt13
import Echse.Lemmas.RrOkBase
namespace Echse.Lemmas.RrAsm
open Echse.Rrule Echse.Instant Echse.Spec.RrOk
open Echse.Lemmas.RrCandOk
open Echse.RuleExt (bdF shiftBdays_pw nb bdTail bdTail_fwd bdTail_back bdayMove_eq)

/-- a packed SHIFT with a business-day part only: `count = sh / 4` business days, bit 0 backward, bit 1 the `B+`/`B-` form -/
def BdayOnly (sh : Int) : Prop := 0 < sh ∧ sh < 65536 ∧ sh / 4 ≤ 250

theorem bdayOnly_fields (sh : Int) (h : BdayOnly sh) :
    sh ≠ 0 ∧ shDvalue sh = 0 ∧ shBdayP sh = true ∧ shLow sh = sh.toNat ∧ shAbsval sh ≤ 250 := by
  obtain ⟨h1, h2, h3⟩ := h
  have s2 : shLow sh = sh.toNat := by unfold shLow; omega
  refine ⟨by omega, by unfold shDvalue; omega, ?_, s2, ?_⟩
  · simp [shBdayP, s2]; omega
  · unfold shAbsval; rw [s2]; omega

/-- a business-day-only SHIFT is the business-day part of `shift()` -/
theorem shift_bdays_eq (cand : Cand3) (y : Nat) (sh : Int) (h : BdayOnly sh) :
    shift cand y sh = shiftBdays cand y sh := by
  obtain ⟨s0, s1, s2, _, _⟩ := bdayOnly_fields sh h
  unfold shift
  rw [if_neg s0, s1]
  simp [s2]

/-- `bdayMove` goes forward by at most 358 days for `nB`, backward by at most 358 days for `-nB` (n ≤ 250) -/
theorem bdayMove_bound (w0 : Nat) (d0 sh : Int) (hw : 1 ≤ w0 ∧ w0 ≤ 7) (hk : shAbsval sh ≤ 250) :
    (shNegP sh = false → d0 ≤ bdayMove w0 d0 sh ∧ bdayMove w0 d0 sh ≤ d0 + 358) ∧
    (shNegP sh = true → d0 - 358 ≤ bdayMove w0 d0 sh ∧ bdayMove w0 d0 sh ≤ d0) := by
  rw [bdayMove_eq]
  generalize hkk : shAbsval sh = k at hk
  have hbv : shBvalue sh = if shNegP sh then -(k : Int) else k := by unfold shBvalue; rw [hkk]
  constructor
  · intro hneg
    rw [hneg] at hbv ⊢
    simp only [Bool.false_eq_true, if_false] at hbv
    rw [hbv]
    simp only [Bool.not_false, if_true]
    by_cases h6 : w0 ≥ 6
    · rw [if_pos h6]
      -- the count left after stepping off the weekend
      have hk' : ∃ k' : Nat, k' ≤ k ∧ ((k : Int) - (if (k : Int) ≠ 0 ∧ (!shInvP sh) = true then 1 else 0)) = (k' : Int) := by
        by_cases hc : (k : Int) ≠ 0 ∧ (!shInvP sh) = true
        · rw [if_pos hc]; exact ⟨k - 1, by omega, by omega⟩
        · rw [if_neg hc]; exact ⟨k, by omega, by omega⟩
      obtain ⟨k', hk1, hk2⟩ := hk'
      rw [hk2, bdTail_fwd _ 1 k' (by omega) (by omega)]
      split <;> omega
    · rw [if_neg h6, bdTail_fwd _ w0 k (by omega) (by omega)]
      split <;> omega
  · intro hneg
    rw [hneg] at hbv ⊢
    simp only [if_true] at hbv
    rw [hbv]
    simp only [Bool.not_true, Bool.false_eq_true, if_false]
    by_cases h6 : w0 ≥ 6
    · rw [if_pos h6]
      have hk' : ∃ k' : Nat, k' ≤ k ∧ (-(k : Int) + (if -(k : Int) ≠ 0 ∧ (!shInvP sh) = true then 1 else 0)) = -(k' : Int) := by
        by_cases hc : -(k : Int) ≠ 0 ∧ (!shInvP sh) = true
        · rw [if_pos hc]; exact ⟨k - 1, by omega, by omega⟩
        · rw [if_neg hc]; exact ⟨k, by omega, by omega⟩
      obtain ⟨k', hk1, hk2⟩ := hk'
      rw [hk2, bdTail_back _ 5 k' (by omega) (by omega)]
      split <;> omega
    · rw [if_neg h6, bdTail_back _ w0 k (by omega) (by omega)]
      split <;> omega

theorem wday_range' (y m d : Nat) : 1 ≤ ymdGetWday y m d ∧ ymdGetWday y m d ≤ 7 :=
  Echse.Lemmas.RrOkBase.wday_range y m d

/-- one date of the year's own set moved by a business-day SHIFT: a real date of the year its set stands for -/
theorem bdF_keeps (y c : Nat) (sh : Int) (hc : VC y c) (hk : shAbsval sh ≤ 250) (hy : 1 ≤ y ∨ shNegP sh = false) :
    (nb (bdF y sh 0 c).1 = 0 → VC y (bdF y sh 0 c).2) ∧
    (nb (bdF y sh 0 c).1 = 1 → 1 ≤ y ∧ VC (y - 1) (bdF y sh 0 c).2) ∧
    (nb (bdF y sh 0 c).1 = 2 → VC (y + 1) (bdF y sh 0 c).2) := by
  have hb := bdayMove_bound (ymdGetWday y (c / 32 + 1) (c % 32)) ((c % 32 : Nat) : Int) sh (wday_range' _ _ _) hk
  have hd : bdF y sh 0 c =
      (bucket y (reassess (reassessFuel (bdayMove (ymdGetWday y (c / 32 + 1) (c % 32)) ((c % 32 : Nat) : Int) sh)) y
          ((c / 32 + 1 : Nat) : Int) (bdayMove (ymdGetWday y (c / 32 + 1) (c % 32)) ((c % 32 : Nat) : Int) sh)).1,
       packCand (reassess (reassessFuel (bdayMove (ymdGetWday y (c / 32 + 1) (c % 32)) ((c % 32 : Nat) : Int) sh)) y
          ((c / 32 + 1 : Nat) : Int) (bdayMove (ymdGetWday y (c / 32 + 1) (c % 32)) ((c % 32 : Nat) : Int) sh)).2.1.toNat
         (reassess (reassessFuel (bdayMove (ymdGetWday y (c / 32 + 1) (c % 32)) ((c % 32 : Nat) : Int) sh)) y
          ((c / 32 + 1 : Nat) : Int) (bdayMove (ymdGetWday y (c / 32 + 1) (c % 32)) ((c % 32 : Nat) : Int) sh)).2.2.toNat) := by
    unfold bdF unpackCand
    simp
  refine move_keeps y c _ hc ?_ ?_ _ hd
  · cases hn : shNegP sh
    · have := hb.1 hn; omega
    · have := hb.2 hn; omega
  · rcases hy with hy | hy
    · exact Or.inl hy
    · exact Or.inr (hb.1 hy).1

/-- a pure business-day SHIFT of at most 250 business days keeps dates real in every year -- year 0 only forward -/
theorem keepsAt_bdays (sh : Int) (y : Nat) (h : BdayOnly sh) (hy : 1 ≤ y ∨ shNegP sh = false) : KeepsAt sh y := by
  intro cs hcs
  rw [shift_bdays_eq _ y sh h]
  have hk := (bdayOnly_fields sh h).2.2.2.2
  have key : ∀ k x, x ∈ (shiftBdays { same := cs } y sh).get k →
      ∃ c, VC y c ∧ nb (bdF y sh 0 c).1 = nb k ∧ x = (bdF y sh 0 c).2 := by
    intro k x hx
    obtain ⟨j, hj, c, hc, h1, h2⟩ := (shiftBdays_pw _ y sh k x).mp hx
    have : j = 0 ∨ j = 1 ∨ j = 2 := by omega
    rcases this with rfl | rfl | rfl
    · exact ⟨c, hcs.1 c hc, h1, h2⟩
    · exact absurd hc (by simp [Cand3.get])
    · exact absurd hc (by simp [Cand3.get])
  refine ⟨fun x hx => ?_, fun x hx => ?_, fun x hx => ?_⟩
  · obtain ⟨c, hc, h1, rfl⟩ := key 0 x hx
    exact (bdF_keeps y c sh hc hk hy).1 h1
  · obtain ⟨c, hc, h1, rfl⟩ := key 1 x hx
    exact (bdF_keeps y c sh hc hk hy).2.1 h1
  · obtain ⟨c, hc, h1, rfl⟩ := key 2 x hx
    exact (bdF_keeps y c sh hc hk hy).2.2 h1

end Echse.Lemmas.RrAsm
