/-
  C12 — the per-task concurrency limit (`max_simul`, 63 = none) of the daemon model.

  All statements are about arbitrary finite histories (`run`, operations `Op`: loop iteration, client
  request, child exit, checkpoint, and the combined iteration `tickExit` in which a child is reaped while
  periodic callbacks are pending) from the initial state; the clock does not run backwards and submitted
  occurrence lists are ascending (`Mono`).
  Helper lemmas: Echse/Lemmas/Daemon*.lean.
-/
import Echse.Lemmas.Daemon3
namespace C12
open Echse.Daemon

/-- every reachable state is well-formed (`Inv`: sids unique and below `nextSid`, at most one in-table task
per uid, `seq` distinct, the per-task phase invariant `TInv`, live children name existing tasks, `nsim` is
the number of live children) -/
theorem reachable_inv (m : Nat) (ops : List Op) (hm : Mono 0 ops) : Inv (run { me := m } ops).1 :=
  Inv_run ops { me := m } (Inv_init m) hm

/-- 1. in every reachable state `nsim` of every task is the number of its live children -/
theorem nsim_counts (m : Nat) (ops : List Op) (hm : Mono 0 ops) :
    ∀ t ∈ (run { me := m } ops).1.tasks, t.nsim = liveCount (run { me := m } ops).1.children t.sid :=
  (reachable_inv m ops hm).count

/-- 1'. no wrap-around: whenever a live child is reaped its task is there and has `nsim ≥ 1` -/
theorem exit_no_underflow (m : Nat) (ops : List Op) (hm : Mono 0 ops) (k : Nat) (c : Child)
    (hc : (run { me := m } ops).1.children[k]? = some c) (hl : c.live = true) :
    ∃ t ∈ (run { me := m } ops).1.tasks, t.sid = c.sid ∧ 1 ≤ t.nsim := by
  have h := reachable_inv m ops hm
  have hcm : c ∈ (run { me := m } ops).1.children := List.mem_of_getElem? hc
  obtain ⟨t, ht, hs⟩ := h.kids c hcm hl
  refine ⟨t, ht, hs, ?_⟩
  rw [h.count t ht, hs]
  exact liveCount_pos hcm hl

/-- 2a. a loop iteration raises `nsim` of a task only by one and only when the limit test of `task_cb`
passed for the value `nsim` had when the callback ran (`exitDec`: the child reaped in the same iteration) -/
theorem nsim_up_only_below_limit {s : St} {now : Nat} {ko : Option Nat} (h : Inv s) {t' : DTask}
    (ht' : t' ∈ (iter s now ko).1.tasks) :
    ∃ t ∈ s.tasks, t'.sid = t.sid ∧ t'.maxSimul = t.maxSimul ∧
      (t'.nsim ≤ t.nsim ∨ (t'.nsim = t.nsim - exitDec (exitSid s ko) t + 1 ∧
        (t.maxSimul ≥ 63 ∨ t.nsim - exitDec (exitSid s ko) t < t.maxSimul))) := by
  obtain ⟨t, ht, hit⟩ := (mem_iter_tasks h).mp ht'
  have hk := iterTask_keeps hit
  exact ⟨t, ht, hk.1, hk.2.2.2.2.1, iterTask_nsim hit⟩

/-- 2b. the limit proper: if the limit submitted for a uid never changes over the history (`LimOk lim`;
replacements with the same limit allowed), then in every reachable state `nsim ≤ maxSimul` for every
limited task -/
theorem limit (m : Nat) (lim : String → Nat) (ops : List Op) (hm : Mono 0 ops)
    (hl : ∀ op ∈ ops, LimOk lim op) :
    ∀ t ∈ (run { me := m } ops).1.tasks, t.maxSimul = lim t.uid ∧ (t.maxSimul < 63 → t.nsim ≤ t.maxSimul) :=
  LInv_run ops { me := m } (Inv_init m) (by intro t ht; cases ht) hm hl

/-- 2c. without that hypothesis the bound fails: a replacement keeps `nsim` and may lower `maxSimul` -/
example :
    Mono 0 [Op.req 1001 [.sched "j" none 2 0 [10, 20, 30, 40] true], .tick 15, .tick 25,
            .req 1001 [.sched "j" none 1 0 [30, 40] true]] ∧
    ((run { me := 0 } [Op.req 1001 [.sched "j" none 2 0 [10, 20, 30, 40] true], .tick 15, .tick 25,
        .req 1001 [.sched "j" none 1 0 [30, 40] true]]).1.tasks.map fun t => (t.nsim, t.maxSimul)) = [(2, 1)] :=
  ⟨by simp [Mono, instrSorted], by decide⟩

/-- the limit test, spelled out -/
theorem mayRun_iff (t : DTask) : mayRun t = false ↔ t.maxSimul < 63 ∧ t.maxSimul ≤ t.nsim := by
  simp only [mayRun, unlimited, Bool.or_eq_false_iff, decide_eq_false_iff_not, ge_iff_le]
  omega

/-- 3a. `refuse_iff`: every spawn of an iteration belongs to exactly one in-table task, and it is a
`--no-run` report iff that task is limited and has `nsim ≥ maxSimul` when its callback runs -/
theorem refuse_iff {s : St} {now : Nat} {ko : Option Nat} (h : Inv s) {sp : Spawn} (hsp : sp ∈ (iter s now ko).2) :
    ∃ t ∈ s.tasks, t.inTable = true ∧ t.uid = sp.uid ∧
      (∀ t2 ∈ s.tasks, t2.inTable = true → t2.uid = sp.uid → t2 = t) ∧
      (sp.nd = true ↔ t.maxSimul < 63 ∧ t.maxSimul ≤ t.nsim - exitDec (exitSid s ko) t) := by
  obtain ⟨t, htm, hit, _, _, _, _, _, he⟩ := spawn_char h hsp
  refine ⟨t, htm, hit, by rw [he], ?_, ?_⟩
  · intro t2 h2 hi2 hu2
    exact h.uidU t2 h2 t htm hi2 hit (by rw [hu2, he])
  · rw [he]
    simp only [Bool.not_eq_eq_eq_not, Bool.not_true]
    exact mayRun_iff _

/-- 3a for the plain iteration: `nsim` and `maxSimul` are those of the state before the `tick` -/
theorem refuse_iff_tick {s : St} {now : Nat} (h : Inv s) {sp : Spawn} (hsp : sp ∈ (tick s now).2) :
    ∃ t ∈ s.tasks, t.inTable = true ∧ t.uid = sp.uid ∧
      (sp.nd = true ↔ t.maxSimul < 63 ∧ t.maxSimul ≤ t.nsim) := by
  rw [tick_eq_iter] at hsp
  obtain ⟨t, htm, hit, hu, _, hnd⟩ := refuse_iff h hsp
  exact ⟨t, htm, hit, hu, by simpa [exitDec, exitSid] using hnd⟩

/-- 3b. `resume`: after one of `t`'s children has been reaped (with `nsim ≤ maxSimul` before), the next
spawn of `t` is a real run -/
theorem resume {s : St} (h : Inv s) {t : DTask} (htm : t ∈ s.tasks) (hit : t.inTable = true)
    (hle : t.nsim ≤ t.maxSimul) {k : Nat} {c : Child} (hc : s.children[k]? = some c) (hl : c.live = true)
    (hcs : c.sid = t.sid) {now : Nat} {sp : Spawn} (hsp : sp ∈ (tick (childExit s k).1 now).2)
    (hu : sp.uid = t.uid) : sp.nd = false := by
  have h' : Inv (childExit s k).1 := Inv_childExit h k
  rw [tick_eq_iter] at hsp
  obtain ⟨t', ht'm, hit', _, _, _, _, _, he⟩ := spawn_char h' hsp
  obtain ⟨hts, _, _⟩ := exit_spec s k [] h.sidU c hc hl
  have ht'm' : t' ∈ (childExitPending s k []).1.tasks := ht'm
  rw [hts, List.mem_filterMap] at ht'm'
  obtain ⟨x, hx, hex⟩ := ht'm'
  have hxo : exitO (some c.sid) ([].contains x.sid) x = some t' := hex
  have hx' := exitO_some hxo
  have hxt : x = t := by
    apply h.uidU x hx t htm _ hit
    · rw [← hu, he]; simp only []; rw [hx']
    · rw [hx'] at hit'; exact hit'
  subst hxt
  have hpos : 1 ≤ x.nsim := by
    rw [h.count x htm, ← hcs]; exact liveCount_pos (List.mem_of_getElem? hc) hl
  rw [he]
  simp only [exitSid, exitDec]
  rw [hx']
  simp only [mayRun, unlimited, exitDec, hcs, if_true, Bool.not_eq_eq_eq_not, Bool.not_false,
    Bool.or_eq_true, decide_eq_true_eq]
  right
  simp
  omega

/-- 4. `independent`: the spawns an iteration makes for the in-table task `t` are a function of `t`'s own
record, the clock, `spawnFail` and whether a child of `t` is reaped in that iteration — nothing else of the
state matters (in particular not `nsim`/`maxSimul`/`occ` of other tasks) -/
theorem independent {s s' : St} {now : Nat} {ko ko' : Option Nat} (h : Inv s) (h' : Inv s') {t : DTask}
    (ht : t ∈ s.tasks) (ht' : t ∈ s'.tasks) (hit : t.inTable = true) (hf : s.spawnFail = s'.spawnFail)
    (hex : exitDec (exitSid s ko) t = exitDec (exitSid s' ko') t) :
    (iter s now ko).2.filter (·.uid == t.uid) = (iter s' now ko').2.filter (·.uid == t.uid) := by
  rw [iter_spawns_uid now ko h ht hit, iter_spawns_uid now ko' h' ht' hit,
    iterSpawns_eq (h.tinv' ht) hit, iterSpawns_eq (h'.tinv' ht') hit, hf, hex]

/-- 4 for the plain iteration -/
theorem independent_tick {s s' : St} {now : Nat} (h : Inv s) (h' : Inv s') {t : DTask}
    (ht : t ∈ s.tasks) (ht' : t ∈ s'.tasks) (hit : t.inTable = true) (hf : s.spawnFail = s'.spawnFail) :
    (tick s now).2.filter (·.uid == t.uid) = (tick s' now).2.filter (·.uid == t.uid) := by
  rw [tick_eq_iter, tick_eq_iter]
  exact independent (ko := none) (ko' := none) h h' ht ht' hit hf rfl

/-- a limit-1 task with two overlapping occurrences: the second spawn is a `--no-run` report -/
example :
    ((run { me := 0 } [.req 1001 [.sched "j" none 1 0 [10, 20] true], .tick 15, .tick 25]).2.1.map
      fun p => (p.1, p.2.uid, p.2.nd)) = [(15, "j", false), (25, "j", true)] := by decide

/-- … and after the child has exited the next one runs again -/
example :
    ((run { me := 0 } [.req 1001 [.sched "j" none 1 0 [10, 20, 30] true], .tick 15, .tick 25, .exit 0, .tick 35]).2.1.map
      fun p => (p.1, p.2.nd)) = [(15, false), (25, true), (35, false)] := by decide

/-- the combined iteration: the last child exits while the last callback is pending — the run is not lost -/
example :
    ((run { me := 0 } [.req 1001 [.sched "j" none 1 0 [10, 20] true], .tick 15, .tickExit 25 0]).2.1.map
      fun p => (p.1, p.2.nd)) = [(15, false), (25, false)] := by decide

end C12
