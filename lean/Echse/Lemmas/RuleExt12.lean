/-
  C17 lemmas, part 12: closed forms of n business days forward / backward from a business day.
-/
import Echse.Spec.RuleExt
namespace Echse.RuleExt
open Echse.Spec.Cal Echse.Spec.RuleExt

theorem wdayOf_range (n : Int) : 1 ≤ wdayOf n ∧ wdayOf n ≤ 7 := by unfold wdayOf; omega

theorem nextB_closed : ∀ (k : Nat) (n : Int), wdayOf n ≤ 5 →
    iter nextB k n = n + 7 * (k / 5 : Nat) + (k % 5 : Nat) + (if wdayOf n + k % 5 > 5 then 2 else 0) := by
  intro k
  induction k with
  | zero => intro n h; simp [iter]; omega
  | succ k ih =>
    intro n h
    rw [iter]
    have hw : wdayOf (nextB n) ≤ 5 := by unfold nextB wdayOf at *; split <;> (try split) <;> omega
    rw [ih (nextB n) hw]
    unfold nextB wdayOf at *
    split <;> split <;> (try split) <;> (try split) <;> omega

theorem prevB_closed : ∀ (k : Nat) (n : Int), wdayOf n ≤ 5 →
    iter prevB k n = n - 7 * (k / 5 : Nat) - (k % 5 : Nat) - (if wdayOf n ≤ k % 5 then 2 else 0) := by
  intro k
  induction k with
  | zero => intro n h; simp [iter]; have := wdayOf_range n; omega
  | succ k ih =>
    intro n h
    rw [iter]
    have hw : wdayOf (prevB n) ≤ 5 := by unfold prevB wdayOf at *; split <;> (try split) <;> omega
    rw [ih (prevB n) hw]
    unfold prevB wdayOf at *
    split <;> split <;> (try split) <;> (try split) <;> omega
end Echse.RuleExt
