/-
  C05, rule text round trip — part 8: BYDAY.  The loop finds its next value with `strchr(on, ',')`, which does not
  stop at the end of the BYDAY field: behind the last weekday it walks through every comma of the parts that
  follow (BYHOUR, BYMINUTE, BYSECOND, BYPOS, SHIFT, …).  `Skips t` says that this walk over `t` inserts nothing,
  because what stands behind those commas is a number and no weekday name.
-/
import Echse.Lemmas.RrText7
namespace Echse.RrText
open Echse.Rrule Echse.Strpf

/-- the BYDAY loop, having read a value that ends at `on`, goes on from the next comma and changes nothing -/
def Skips (on : List Char) : Prop := ∀ (fuel : Nat) (acc : List Int),
  (match on.dropWhile (· ≠ ',') with
   | _ :: r => bydayLoop fuel r acc
   | [] => acc) = acc

theorem skips_nil : Skips [] := fun _ _ => rfl

theorem skips_cons (c : Char) (t : List Char) (hc : c ≠ ',') (h : Skips t) : Skips (c :: t) := by
  intro fuel acc
  rw [List.dropWhile_cons_of_pos (by simpa using hc)]
  exact h fuel acc

theorem skips_avoid (l t : List Char) (hl : Avoid ',' l) (h : Skips t) : Skips (l ++ t) := by
  induction l with
  | nil => exact h
  | cons c cs ih =>
    exact skips_cons c _ (hl c (by simp)) (ih (fun x hx => hl x (by simp [hx])))

/-- a comma, a number, and then something that is no weekday name -/
theorem skips_comma (num t : List Char) (hn : ∃ v, strtolC (num ++ t) = (v, t)) (hw : snarfWday t = 0)
    (h : Skips t) : Skips (',' :: (num ++ t)) := by
  intro fuel acc
  rw [List.dropWhile_cons_of_neg (by simp)]
  simp only
  cases fuel with
  | zero => rfl
  | succ f =>
    obtain ⟨v, hv⟩ := hn
    rw [bydayLoop]
    simp only [hv, hw, ne_eq, not_true_eq_false, false_and, if_false]
    exact h f acc

theorem snarfWday_term (t : List Char) (ht : Term t) : snarfWday t = 0 := by
  rcases ht with rfl | ⟨q, rfl⟩ <;> simp [snarfWday, chr]

theorem snarfWday_moreVals {α : Type} (fmt : α → List Char) (xs : List α) (t : List Char) (ht : Term t) :
    snarfWday (moreVals fmt xs t) = 0 := by
  cases xs with
  | nil => exact snarfWday_term t ht
  | cons y ys => rw [moreVals_cons]; simp [snarfWday, chr]

/-- the walk passes a list part whose values are numbers -/
theorem skips_part {α : Type} (key : List Char) (fmt : α → List Char) (l : List α) (t : List Char)
    (hk : Avoid ',' key) (hf1 : ∀ y, Avoid ',' (fmt y))
    (hf2 : ∀ y t', NoDig t' → ∃ v, strtolC (fmt y ++ t') = (v, t'))
    (ht : Term t) (h : Skips t) : Skips (sendPart key fmt l ++ t) := by
  have hm : ∀ xs : List α, Skips (moreVals fmt xs t) := by
    intro xs
    induction xs with
    | nil => exact h
    | cons y ys ih =>
      rw [moreVals_cons]
      exact skips_comma _ _ (hf2 y _ (moreVals_noDig fmt ys t ht)) (snarfWday_moreVals fmt ys t ht) ih
  cases l with
  | nil => exact h
  | cons x xs =>
    have e : sendPart key fmt (x :: xs) ++ t = (';' :: key ++ '=' :: fmt x) ++ moreVals fmt xs t := by
      simp [sendPart, moreVals]
    rw [e]
    exact skips_avoid _ _ (avoid_cons (by decide) (avoid_append hk (avoid_cons (by decide) (hf1 x)))) (hm xs)

theorem strtolC_fmtU_ex (y : Nat) (t' : List Char) (h : NoDig t') : ∃ v, strtolC (fmtU y ++ t') = (v, t') := by
  unfold strtolC fmtU
  rw [strtol_u y t' h]
  exact ⟨_, rfl⟩

theorem strtolC_fmtD_ex (y : Int) (t' : List Char) (h : NoDig t') : ∃ v, strtolC (fmtD y ++ t') = (v, t') := by
  unfold strtolC
  rw [strtol_d y t' h]
  exact ⟨_, rfl⟩

theorem skips_upart (key : List Char) (l : List Nat) (t : List Char) (hk : Avoid ',' key) (ht : Term t)
    (h : Skips t) : Skips (sendPart key fmtU l ++ t) :=
  skips_part key fmtU l t hk (avoid_fmtU (by decide)) strtolC_fmtU_ex ht h

theorem skips_ipart (key : List Char) (l : List Int) (t : List Char) (hk : Avoid ',' key) (ht : Term t)
    (h : Skips t) : Skips (sendPart key fmtD l ++ t) :=
  skips_part key fmtD l t hk (avoid_fmtD (by decide) (by decide)) strtolC_fmtD_ex ht h

/-- the walk passes the SHIFT part: its one comma stands before the signed business-day count -/
theorem skips_shift (sh : Int) (t : List Char) (h : Skips t) : Skips (sendShift sh ++ t) := by
  by_cases h0 : sh = 0
  · subst h0; exact h
  · rw [sendShift_eq sh h0]
    have hB : ∀ neg inv a, Skips (bdayText neg inv a ++ t) ∧
        (∃ v, strtolC (bdayText neg inv a ++ t)
          = (v, 'B' :: ((if inv = true ∧ a ≠ 0 then [signCh neg] else []) ++ t))) := by
      intro neg inv a
      have hsfx : Avoid ',' (if inv = true ∧ a ≠ 0 then [signCh neg] else []) := by
        split
        · exact avoid_cons (by unfold signCh; split <;> decide) (avoid_nil _)
        · exact avoid_nil _
      constructor
      · exact skips_avoid _ _ (avoid_bdayText ',' (by decide) (by decide) (by decide) (by decide) neg inv a) h
      · have e : bdayText neg inv a ++ t
            = signCh neg :: Nat.toDigits 10 a ++ 'B' :: ((if inv = true ∧ a ≠ 0 then [signCh neg] else []) ++ t) := by
          simp [bdayText]
        rw [e]
        unfold strtolC signCh
        cases neg with
        | true => simp only [if_true]; rw [strtol_neg_u a _ (noDig_cons _ _ (by decide))]; exact ⟨_, rfl⟩
        | false =>
          simp only [Bool.false_eq_true, if_false]
          rw [strtol_plus_u a _ (noDig_cons _ _ (by decide))]; exact ⟨_, rfl⟩
    rw [List.append_assoc, List.append_assoc]
    refine skips_avoid _ _ (by decide) (skips_avoid _ _ (avoid_ite (avoid_fmtD (by decide) (by decide) _) (avoid_nil _)) ?_)
    split
    · split
      · obtain ⟨_, v, hv⟩ := hB (shNegP sh) (shInvP sh) (shAbsval sh)
        rw [List.append_assoc]
        show Skips (',' :: (bdayText (shNegP sh) (shInvP sh) (shAbsval sh) ++ t))
        have e : bdayText (shNegP sh) (shInvP sh) (shAbsval sh) ++ t
            = (signCh (shNegP sh) :: Nat.toDigits 10 (shAbsval sh)) ++
              ('B' :: ((if shInvP sh = true ∧ shAbsval sh ≠ 0 then [signCh (shNegP sh)] else []) ++ t)) := by
          simp [bdayText]
        rw [e] at hv ⊢
        refine skips_comma _ _ ⟨v, hv⟩ (by simp [snarfWday, chr]) ?_
        refine skips_cons _ _ (by decide) (skips_avoid _ _ ?_ h)
        split
        · exact avoid_cons (by unfold signCh; split <;> decide) (avoid_nil _)
        · exact avoid_nil _
      · rw [List.nil_append]; exact (hB _ _ _).1
    · exact h

end Echse.RrText
