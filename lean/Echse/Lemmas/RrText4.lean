/-
  C05, rule text round trip — part 4: the parts with numbers.  Each lemma says what the field loop does at the
  position of one part of the serialised rule: it updates one member of the rule and goes on behind the part.
-/
import Echse.Lemmas.RrText3
namespace Echse.RrText
open Echse.Rrule

/-- the loop at `;KEY=value` + rest -/
theorem part_kv (r : Rule) (key value t : List Char) (_hk0 : key ≠ []) (hk1 : Avoid ';' key) (hk2 : Avoid '=' key)
    (hv : Avoid ';' value) (ht : Term t) :
    parseFrom r (';' :: key ++ '=' :: value ++ t) =
      (keyStep (keyOf key) (value ++ t) r).bind (fun r' => parseFrom r' t) := by
  have e : ';' :: key ++ '=' :: value ++ t = ';' :: ((key ++ '=' :: value) ++ t) := by simp
  rw [e, parseFrom_part r (key ++ '=' :: value) t (by simp) (avoid_append hk1 (avoid_cons (by decide) hv))]
  have e2 : (key ++ '=' :: value) ++ t = key ++ '=' :: (value ++ t) := by simp
  rw [e2, fieldStep_kv r key value t hk1 hk2 hv ht]

theorem avoid_moreVals {α : Type} {c : Char} (fmt : α → List Char) (xs : List α) (hc : ',' ≠ c)
    (h : ∀ x, Avoid c (fmt x)) : Avoid c (xs.flatMap (fun y => ',' :: fmt y)) :=
  avoid_flatMap _ _ (fun x => avoid_cons hc (h x))

/-- `sendPart` as key, value and rest -/
theorem sendPart_cons {α : Type} (key : List Char) (fmt : α → List Char) (x : α) (xs : List α) (t : List Char) :
    sendPart key fmt (x :: xs) ++ t = ';' :: key ++ '=' :: (fmt x ++ xs.flatMap (fun y => ',' :: fmt y)) ++ t := by
  simp [sendPart]

theorem value_moreVals {α : Type} (fmt : α → List Char) (x : α) (xs : List α) (t : List Char) :
    (fmt x ++ xs.flatMap (fun y => ',' :: fmt y)) ++ t = fmt x ++ moreVals fmt xs t := by
  simp [moreVals]

theorem ulist_value (ok : Nat → Bool) (xs : List Nat) (x : Nat) (t : List Char) (acc : List Nat)
    (hok : ∀ y ∈ x :: xs, ok y = true ∧ y < 2^64) (ht : Term t) :
    ulistLoop ok ((fmtU x ++ moreVals fmtU xs t).length + 1) (fmtU x ++ moreVals fmtU xs t) acc
      = (x :: xs).foldl assU acc := by
  apply ulistLoop_items ok xs x t acc _ hok ht
  have := moreVals_length fmtU xs t
  simp only [List.length_append]
  omega

theorem ilist_value (nz : Bool) (lim : Int) (xs : List Int) (x : Int) (t : List Char) (acc : List Int)
    (hlim : lim ≤ 2^62) (hok : ∀ y ∈ x :: xs, (nz = true → y ≠ 0) ∧ y ≤ lim ∧ y ≥ -lim) (ht : Term t) :
    ilistLoop nz lim ((fmtD x ++ moreVals fmtD xs t).length + 1) (fmtD x ++ moreVals fmtD xs t) acc
      = (x :: xs).foldl assI acc := by
  apply ilistLoop_items nz lim xs x t acc _ hlim hok ht
  have := moreVals_length fmtD xs t
  simp only [List.length_append]
  omega

theorem avoid_uvalue (x : Nat) (xs : List Nat) : Avoid ';' (fmtU x ++ xs.flatMap (fun y => ',' :: fmtU y)) :=
  avoid_append (avoid_fmtU (by decide) x) (avoid_moreVals fmtU xs (by decide) (avoid_fmtU (by decide)))
theorem avoid_ivalue (x : Int) (xs : List Int) : Avoid ';' (fmtD x ++ xs.flatMap (fun y => ',' :: fmtD y)) :=
  avoid_append (avoid_fmtD (by decide) (by decide) x)
    (avoid_moreVals fmtD xs (by decide) (avoid_fmtD (by decide) (by decide)))

/-! ### the unsigned lists -/

theorem part_mon (r : Rule) (l : List Nat) (t : List Char) (ht : Term t) (hl : ∀ y ∈ l, 1 ≤ y ∧ y ≤ 12) :
    parseFrom r (sendPart "BYMONTH".toList fmtU l ++ t) = parseFrom { r with mon := l.foldl assU r.mon } t := by
  cases l with
  | nil => rfl
  | cons x xs =>
    rw [sendPart_cons, part_kv r _ _ t (by decide) (by decide) (by decide) (avoid_uvalue x xs) ht, value_moreVals]
    have hk : keyOf "BYMONTH".toList = .mon := by decide
    rw [hk]
    simp only [keyStep]
    rw [ulist_value _ xs x t r.mon (fun y hy => by have := hl y hy; simp; omega) ht]
    rfl

theorem part_hour (r : Rule) (l : List Nat) (t : List Char) (ht : Term t) (hl : ∀ y ∈ l, y < 24) :
    parseFrom r (sendPart "BYHOUR".toList fmtU l ++ t) = parseFrom { r with H := l.foldl assU r.H } t := by
  cases l with
  | nil => rfl
  | cons x xs =>
    rw [sendPart_cons, part_kv r _ _ t (by decide) (by decide) (by decide) (avoid_uvalue x xs) ht, value_moreVals]
    have hk : keyOf "BYHOUR".toList = .hour := by decide
    rw [hk]
    simp only [keyStep]
    rw [ulist_value _ xs x t r.H (fun y hy => by have := hl y hy; simp; omega) ht]
    rfl

theorem part_min (r : Rule) (l : List Nat) (t : List Char) (ht : Term t) (hl : ∀ y ∈ l, y < 60) :
    parseFrom r (sendPart "BYMINUTE".toList fmtU l ++ t) = parseFrom { r with M := l.foldl assU r.M } t := by
  cases l with
  | nil => rfl
  | cons x xs =>
    rw [sendPart_cons, part_kv r _ _ t (by decide) (by decide) (by decide) (avoid_uvalue x xs) ht, value_moreVals]
    have hk : keyOf "BYMINUTE".toList = .min := by decide
    rw [hk]
    simp only [keyStep]
    rw [ulist_value _ xs x t r.M (fun y hy => by have := hl y hy; simp; omega) ht]
    rfl

theorem part_sec (r : Rule) (l : List Nat) (t : List Char) (ht : Term t) (hl : ∀ y ∈ l, y < 60) :
    parseFrom r (sendPart "BYSECOND".toList fmtU l ++ t) = parseFrom { r with S := l.foldl assU r.S } t := by
  cases l with
  | nil => rfl
  | cons x xs =>
    rw [sendPart_cons, part_kv r _ _ t (by decide) (by decide) (by decide) (avoid_uvalue x xs) ht, value_moreVals]
    have hk : keyOf "BYSECOND".toList = .sec := by decide
    rw [hk]
    simp only [keyStep]
    rw [ulist_value _ xs x t r.S (fun y hy => by have := hl y hy; simp; omega) ht]
    rfl

end Echse.RrText
