/-
  Daemon model: the spool as `GET /queue` shows it.  `Retire s s'`: what loop iterations and child exits do to
  the table as far as the spool is concerned — records are kept (same uid, owner) or leave the table with their
  owner marked dirty.  `Fresh s`: the queue file of a user who is not marked agrees with the table.
  Continued in DaemonQueue2.lean.  Used by C11 (section 5).
-/
import Echse.Lemmas.Chkpnt2
namespace Echse.Daemon

/-- `s'` comes from `s` by retiring records: the spool is not touched, marks are only added, and an in-table
record of `s` is still there (same uid, same owner) unless its owner is marked in `s'` (or the marks are full) -/
structure Retire (s s' : St) : Prop where
  files : s'.files = s.files
  sidU : SidU s.tasks → SidU s'.tasks
  len : s'.dirty.length < 16 → s.dirty.length < 16
  sub : ∀ u ∈ s.dirty, u ∈ s'.dirty
  fwd : SidU s.tasks → s'.dirty.length < 16 → ∀ t ∈ s.tasks, t.inTable = true → t.owner ∉ s'.dirty →
    ∃ t' ∈ s'.tasks, t'.inTable = true ∧ t'.uid = t.uid ∧ t'.owner = t.owner

theorem Retire.refl (s : St) : Retire s s :=
  ⟨rfl, id, id, fun _ h => h, fun _ _ t ht hi _ => ⟨t, ht, hi, rfl, rfl⟩⟩

theorem Retire.trans {a b c : St} (h1 : Retire a b) (h2 : Retire b c) : Retire a c where
  files := h2.files.trans h1.files
  sidU := fun h => h2.sidU (h1.sidU h)
  len := fun h => h1.len (h2.len h)
  sub := fun u hu => h2.sub u (h1.sub u hu)
  fwd := by
    intro hu hl t ht hi hd
    obtain ⟨t', ht', hi', hu', ho'⟩ := h1.fwd hu (h2.len hl) t ht hi (fun c => hd (h2.sub _ c))
    obtain ⟨t'', ht'', hi'', hu'', ho''⟩ := h2.fwd (h1.sidU hu) hl t' ht' hi' (by rw [ho']; exact hd)
    exact ⟨t'', ht'', hi'', hu''.trans hu', ho''.trans ho'⟩

/-- only fields the spool does not depend on change -/
theorem Retire.same {s s' : St} (ht : s'.tasks = s.tasks) (hd : s'.dirty = s.dirty) (hf : s'.files = s.files) :
    Retire s s' where
  files := hf
  sidU := fun h => by rw [ht]; exact h
  len := fun h => by rw [hd] at h; exact h
  sub := fun u hu => by rw [hd]; exact hu
  fwd := fun _ _ t hm hi _ => ⟨t, by rw [ht]; exact hm, hi, rfl, rfl⟩

/-- a record is replaced by one with the same sid, uid, owner and table flag -/
theorem Retire.upd {s : St} {old t' : DTask} (hm : old ∈ s.tasks) (h1 : t'.sid = old.sid) (h2 : t'.uid = old.uid)
    (h3 : t'.owner = old.owner) (h4 : t'.inTable = old.inTable) : Retire s (s.upd t') where
  files := rfl
  sidU := by
    intro h
    rw [upd_tasks_filterMap]
    apply sidU_filterMap _ _ h
    intro x y hy
    by_cases c : x.sid = t'.sid
    · have hb : (x.sid == t'.sid) = true := by simpa using c
      simp only [hb, if_true, Option.some.injEq] at hy
      rw [← hy, c]
    · have hb : (x.sid == t'.sid) = false := by simpa using c
      simp only [hb, Bool.false_eq_true, if_false, Option.some.injEq] at hy
      rw [hy]
  len := id
  sub := fun _ h => h
  fwd := by
    intro hu _ t ht hi _
    by_cases c : t.sid = t'.sid
    · have : t = old := hu.inj ht hm (c.trans h1)
      subst this
      exact ⟨t', mem_upd.mpr (Or.inr ⟨rfl, t, ht, c⟩), by rw [h4]; exact hi, h2, h3⟩
    · exact ⟨t, mem_upd.mpr (Or.inl ⟨ht, c⟩), hi, rfl, rfl⟩

theorem sidU_del {s : St} (d : Nat) (h : SidU s.tasks) : SidU (s.del d).tasks := by
  rw [del_tasks_filterMap]
  apply sidU_filterMap _ _ h
  intro x y hy
  by_cases c : x.sid = d
  · have hb : (x.sid == d) = true := by simpa using c
    simp only [hb, if_true] at hy
    cases hy
  · have hb : (x.sid == d) = false := by simpa using c
    simp only [hb, Bool.false_eq_true, if_false, Option.some.injEq] at hy
    rw [hy]

/-- a record that is not in the table any more (cancelled while children ran) is dropped -/
theorem Retire.del {s : St} {old : DTask} (hm : old ∈ s.tasks) (hi : old.inTable = false) :
    Retire s (s.del old.sid) where
  files := rfl
  sidU := sidU_del _
  len := id
  sub := fun _ h => h
  fwd := by
    intro hu _ t ht hti _
    refine ⟨t, mem_del.mpr ⟨ht, ?_⟩, hti, rfl, rfl⟩
    intro c
    have : t = old := hu.inj ht hm c
    rw [this, hi] at hti
    cases hti

/-- `unsched`: the record leaves the table, its owner is marked -/
theorem Retire.unsched {s : St} {old t : DTask} (hm : old ∈ s.tasks) (h1 : t.sid = old.sid)
    (h3 : t.owner = old.owner) : Retire s (unsched s t) where
  files := (unsched_frame s t).files
  sidU := fun h => by
    have : (Echse.Daemon.unsched s t).tasks = (s.del t.sid).tasks := by
      rw [unsched_tasks, del_tasks_filterMap]
    rw [this]; exact sidU_del _ h
  len := by
    intro h
    rw [unsched_dirty] at h
    split at h
    · assumption
    · exact h
  sub := by
    intro u hu
    rw [unsched_dirty]
    split
    · exact List.mem_append_left _ hu
    · exact hu
  fwd := by
    intro hu hl x hx hxi hd
    rw [unsched_dirty] at hl hd
    by_cases c : s.dirty.length < 16
    · rw [if_pos c] at hd
      have hne : x.sid ≠ t.sid := by
        intro e
        have : x = old := hu.inj hx hm (e.trans h1)
        apply hd
        rw [this, ← h3]
        exact List.mem_append_right _ (List.mem_singleton.mpr rfl)
      refine ⟨x, ?_, hxi, rfl, rfl⟩
      show x ∈ ((addChkpnt s t.owner).del t.sid).tasks
      rw [mem_del, addChkpnt_tasks]
      exact ⟨hx, hne⟩
    · rw [if_neg c] at hl
      exact absurd hl c

/-! ### the stages of a loop iteration -/

theorem ret_reify (now : Nat) : ∀ (fuel : Nat) (s : St) (pend : List Nat),
    Retire s (reify now fuel s pend).1 := by
  intro fuel
  induction fuel with
  | zero => intro s pend; exact Retire.refl s
  | succ n ih =>
    intro s pend
    rw [reify_succ]
    split
    · exact Retire.refl s
    · rename_i d ds hf
      have hmem : ds.foldl pick d ∈ s.tasks := by
        have := foldl_pick_mem ds d
        rw [← hf] at this
        exact (List.mem_filter.mp this).1
      have hk := rearm_keeps now (ds.foldl pick d)
      exact (Retire.upd hmem hk.1 hk.2.1 hk.2.2.2.2.1 hk.2.2.1).trans (ih _ _)

theorem ret_taskCb {s : St} {t : DTask} (hm : t ∈ s.tasks) : Retire s (taskCb s t).1 := by
  unfold taskCb
  by_cases hr : mayRun t = true
  · by_cases hsf : s.spawnFail = true
    · simp only [hr, hsf, if_true]
      split
      · exact Retire.unsched hm rfl rfl
      · exact Retire.refl s
    · simp only [hr, hsf, if_true, Bool.false_eq_true, if_false]
      have h1 : ∀ (sf : Bool) (cs : List Child), Retire s (({ s with children := cs, spawnFail := sf } : St).upd
          { t with nsim := t.nsim + 1 }) := fun sf cs =>
        (Retire.same (s := s) (s' := { s with children := cs, spawnFail := sf }) rfl rfl rfl).trans
          (Retire.upd (s := { s with children := cs, spawnFail := sf }) (old := t) hm rfl rfl rfl rfl)
      split
      · refine (h1 _ _).trans (Retire.unsched (old := { t with nsim := t.nsim + 1 }) ?_ rfl rfl)
        exact mem_upd.mpr (Or.inr ⟨rfl, t, hm, rfl⟩)
      · exact h1 _ _
  · simp only [hr, Bool.false_eq_true, if_false]
    split
    · exact Retire.unsched hm rfl rfl
    · exact Retire.refl s

theorem ret_cbStep (acc : St × List Spawn) (sid : Nat) : Retire acc.1 (cbStep acc sid).1 := by
  obtain ⟨s, sps⟩ := acc
  simp only [cbStep]
  cases hf : s.tasks.find? (·.sid == sid) with
  | none => exact Retire.refl s
  | some t =>
    have hm : t ∈ s.tasks := List.mem_of_find?_eq_some hf
    simp only []
    split
    · exact Retire.refl s
    · split
      · split
        · exact Retire.upd (old := t) hm rfl rfl rfl rfl
        · exact Retire.unsched (old := t) hm rfl rfl
      · exact ret_taskCb hm

theorem ret_cbFold : ∀ (pend : List Nat) (acc : St × List Spawn), Retire acc.1 (pend.foldl cbStep acc).1 := by
  intro pend
  induction pend with
  | nil => intro acc; exact Retire.refl _
  | cons a r ih => intro acc; rw [List.foldl_cons]; exact (ret_cbStep acc a).trans (ih _)

theorem ret_runPending (s : St) (pend : List Nat) : Retire s (runPending s pend).1 := by
  rw [runPending_eq]; exact ret_cbFold pend (s, [])

theorem ret_childExitPending (s : St) (k : Nat) (pend : List Nat) : Retire s (childExitPending s k pend).1 := by
  unfold childExitPending
  cases hc : s.children[k]? with
  | none => exact Retire.refl s
  | some c =>
    simp only []
    split
    · exact Retire.refl s
    · have h0 : ∀ cs : List Child, Retire s ({ s with children := cs } : St) := fun cs => Retire.same rfl rfl rfl
      generalize (s.children.zipIdx.map fun ((c : Child), (i : Nat)) =>
        if i == k then ({ c with live := false } : Child) else c) = cs
      cases hf : ({ s with children := cs } : St).tasks.find? (·.sid == c.sid) with
      | none => exact h0 cs
      | some t =>
        have hm : t ∈ ({ s with children := cs } : St).tasks := List.mem_of_find?_eq_some hf
        have hu : Retire ({ s with children := cs } : St) (({ s with children := cs } : St).upd { t with nsim := t.nsim - 1 }) :=
          Retire.upd (old := t) hm rfl rfl rfl rfl
        simp only []
        split
        · rename_i hi
          split
          · exact (h0 cs).trans (Retire.del (s := { s with children := cs }) (old := t) hm (by simpa using hi))
          · exact (h0 cs).trans hu
        · split
          · refine ((h0 cs).trans hu).trans (Retire.unsched (old := { t with nsim := t.nsim - 1 }) ?_ rfl rfl)
            exact mem_upd.mpr (Or.inr ⟨rfl, t, hm, rfl⟩)
          · exact (h0 cs).trans hu

theorem ret_iter (s : St) (now : Nat) (ko : Option Nat) : Retire s (iter s now ko).1 := by
  unfold iter
  simp only []
  have h0 : Retire s ({ s with now := now } : St) := Retire.same rfl rfl rfl
  have h1 := ret_reify now (s.tasks.length + 1) { s with now := now } []
  refine ((h0.trans h1).trans ?_).trans (ret_runPending _ _)
  cases ko with
  | none => exact Retire.refl _
  | some k => exact ret_childExitPending _ k _

/-- loop iterations and child exits only retire records -/
theorem ret_step (s : St) (op : Op) (hnr : op.isReq = false) (hnc : op ≠ .chk) : Retire s (step s op).1 := by
  cases op with
  | tick now => exact ret_iter s now none
  | req p ins => cases hnr
  | exit k => exact ret_childExitPending s k []
  | chk => exact absurd rfl hnc
  | tickExit now k => exact ret_iter s now (some k)

end Echse.Daemon
