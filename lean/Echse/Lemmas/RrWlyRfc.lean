/-
  Property C01 for the weekly filler `rrul_fill_wly` (model `fillWly`) against the RFC 5545 specification
  `Echse.Spec.Rfc.WeeklyInst`:

    fillWly_sound     every instant written is an instance of the rule anchored at the seed, and chosen by BYSETPOS
    fillWly_complete  none missing: an instance `x` chosen by BYSETPOS, at or after the seed, not after UNTIL and not after
                      2099 is in the result `l`, or `l` is full (`capOf r n` elements: `n`, or COUNT if smaller) and all of
                      `l` comes before `x`.  With `FillOk` (ascending, `fillWly_ok`) this says: `l` is the first
                      `capOf r n` elements of the recurrence set from the seed on.
    (`fillWly_inst`, `fillWly_complete_nopos`: the same without reference to BYSETPOS / for rules without BYSETPOS)
  BYSETPOS counts within the Monday-based week over all of the week's instances, those before the seed included — the
  code's `nset` / `nday` and the specification's `SetposOk` agree on that.

  History: a hypothesis `SeedOk r p` (a DATE seed has no BYHOUR/BYMINUTE/BYSECOND) used to be needed: e.g.
  r = { freq := 3, H := [9] }, p = 2020-01-01 (all day) gave 2020-01-01T09:00:00, 2020-01-08T09:00:00, timed instants,
  which are not of the seed's kind (`SameKind`); RFC 5545 says BYHOUR is to be ignored there, and since the repair of
  `make_enum` the code does ignore it; the hypothesis is gone.
-/
import Echse.Lemmas.RrWlyPos4
namespace Echse.Lemmas.RrWlyRfc
open Echse.Rrule Echse.Instant Echse.Spec.RrOk Echse.Spec.Cal Echse.Spec.RuleExt Echse.Spec.Rfc
open Echse.Lemmas.RrOkBase Echse.Lemmas.RrRfc

theorem wly_start0 (c : WlyCtx) (y0 m0 d0 : Nat) (hv0 : VD y0 m0 d0) : Carry y0 m0 (d0 + 0 * wk c) y0 m0 d0 := by
  rw [Nat.zero_mul]; exact Carry.done hv0.2.2.2

/-- soundness, with two more facts about the instants written (used for the daily filler's hand-over) -/
theorem fillWly_sound' (r : Rule) (p : Inst) (n : Nat) (l : List Inst) (hr : WfRule r) (hp : WfInst p)
    (hy : 1901 ≤ p.y) (h : fillWly r p n = some l) :
    ∀ x ∈ l, WeeklyInst r p x ∧ x.y ≤ 2099 ∧ ltP x p = false := by
  cases hcap : capNti r n with
  | none =>
    rw [fillWly_none r p n hr hp hcap] at h
    cases h; intro x hx; cases hx
  | some nti =>
    obtain ⟨y0, m0, d0, hv0, hl0, hy0, hback, he⟩ := fillWly_start r p n nti hr hp hy hcap
    rw [he] at h
    obtain ⟨l', hl, rfl⟩ := Option.map_eq_some_iff.1 h
    have hen : EnumOk (mkCtx r p nti (wlyIncs r)).e := makeEnum_ok r p hr hp
    have hpy := hp.year
    intro x hx
    refine wlyLoop_sound (mkCtx r p nti (wlyIncs r)) hr hp hen (wlyIncs_nib r)
      (fun z => WeeklyInst r p z ∧ z.y ≤ 2099 ∧ ltP z p = false) y0 m0 d0 hv0 ?_ _ 0
      y0 m0 d0 [] l' (wly_start0 _ y0 m0 d0 hv0) (by omega) (fun z hz => by cases hz) hl x (List.mem_reverse.1 hx)
    intro j y m d o ty tm td hcw ho hc hty hbit t ht _ hge _
    have hy2 : p.y ≤ 2099 := by
      have := year_le_of_not_lt _ p (inR_of_wf hp) hge
      exact Nat.le_trans this hty
    have htm : tm ≤ 12 := by
      have hd0 := hv0.2.2.1
      exact ((hcw.comp o _ _ _ hc).props hv0.1 hv0.2.1 (by omega)).1.2.1
    exact ⟨wly_inst r p nti hr hp hy2 hv0 hl0 hback j o ty tm td ho (hcw.comp o _ _ _ hc) (by omega) hbit t ht, hty, hge⟩

theorem fillWly_inst (r : Rule) (p : Inst) (n : Nat) (l : List Inst) (hr : WfRule r) (hp : WfInst p)
    (_hn : n ≤ 64) (hy : 1901 ≤ p.y) (h : fillWly r p n = some l) :
    ∀ x ∈ l, WeeklyInst r p x := fun x hx => (fillWly_sound' r p n l hr hp hy h x hx).1

/-- the days of a week one of whose days is not after 2099 are not after January 2100 -/
theorem week_bound {y m d o ty tm td : Nat} (hv : VD y m d) (ho : o ≤ 6) (hc : Carry y m (d + o) ty tm td)
    (hty : ty ≤ 2099) :
    ∀ D, d ≤ D → D ≤ d + 6 → ∀ ty' tm' td', Carry y m D ty' tm' td' → ty' * 12 + tm' ≤ 25201 := by
  intro D h1 h2 ty' tm' td' hc'
  have hd1 := hv.2.2.1
  have hd31 := hv.d31
  have hm12 := hv.2.1
  obtain ⟨hvt, -, -, -⟩ := hc.props hv.1 hv.2.1 (by omega)
  obtain ⟨hvt', -, -, -⟩ := hc'.props hv.1 hv.2.1 (by omega)
  have ht31 := hvt.d31
  have ht31' := hvt'.d31
  have htm := hvt.2.1
  have htm' := hvt'.2.1
  have hyy := carry_year hc hv.1 hv.2.1 (by omega)
  by_cases c : D ≤ d + o
  · have hk : dkey ty' tm' td' ≤ dkey ty tm td := by
      by_cases e : D = d + o
      · subst e; obtain ⟨e1, e2, e3⟩ := carry_det hc' hc; rw [e1, e2, e3]; exact Nat.le_refl _
      · exact Nat.le_of_lt (hc'.mono _ _ _ _ hc (by omega) hv.1 hv.2.1 (by omega))
    unfold dkey at hk
    omega
  · have e : D = d + o + (D - (d + o)) := by omega
    rw [e] at hc'
    have hs := carry_split hc hc' ⟨hv.1, hv.2.1⟩ (by omega) (by unfold pot; omega)
    have := carry_one hs hvt.1 hvt.2.1 (by have := hvt.2.2.2; omega)
    omega

/-- completeness, given that the week loop's BYSETPOS test lets `x` pass -/
theorem wly_complete' (r : Rule) (p : Inst) (n : Nat) (l : List Inst) (hr : WfRule r) (hp : WfInst p)
    (hy : 1901 ≤ p.y) (h : fillWly r p n = some l)
    (x : Inst) (hx : WeeklyInst r p x) (hge : absOf p ≤ absOf x) (hle : ltP r.untl x = false) (hxy : x.y ≤ 2099)
    (hsk : ∀ nti y0 m0 d0 j y m d o ix, capNti r n = some nti → p.y ≤ 2099 → VD y0 m0 d0 → LowOk y0 m0 → y0 ≤ 2099 →
      Carry y0 m0 (d0 + wlyBack r p) p.y p.m p.d → Carry y0 m0 (d0 + j * wk (wctx r p nti)) y m d →
      o ∈ offs 8 (wlyIncs r) 0 → Carry y m (d + o) x.y x.m x.d → bit (monMask r.mon) x.m = true →
      (ix, x.H, x.M, x.S) ∈ (makeEnum p r).timesIx →
      wlySkip (wctx r p nti) (wlyNset (wctx r p nti) m d (getNdom y m))
        (ndAt (wctx r p nti) y m (offs 8 (wlyIncs r) d) (d + o)) ix = false) :
    x ∈ l ∨ (l.length = capOf r n ∧ ∀ z ∈ l, ltP z x = true) := by
  unfold capOf
  cases hcap : capNti r n with
  | none =>
    rw [fillWly_none r p n hr hp hcap] at h
    cases h
    exact Or.inr ⟨rfl, fun z hz => by cases hz⟩
  | some nti =>
    obtain ⟨hgeP, hxin, hy2⟩ := ge_seed hp hy hx.1 hxy hge
    obtain ⟨y0, m0, d0, hv0, hl0, hy0, hback, he⟩ := fillWly_start r p n nti hr hp hy hcap
    rw [he] at h
    obtain ⟨l', hl, rfl⟩ := Option.map_eq_some_iff.1 h
    have hen : EnumOk (wctx r p nti).e := makeEnum_ok r p hr hp
    obtain ⟨l2, hl2, hacc⟩ := wlyLoop_spec (wctx r p nti) hr hp (wlyIncs_nib r) (wlyDlyFuel y0 nti) y0 m0 d0 []
      hv0 (by omega) (fun _ => ⟨Acc.nil _ _ _, Below.nil _ _ _⟩) (enough_start y0 m0 d0 nti hv0)
    rw [hl] at hl2
    cases hl2
    have hacc := hacc hen
    obtain ⟨k, o, ho, hc, hmon, -, ix, hix⟩ := wly_inst_conv r p nti hr hp hy2 hv0 hl0 (by omega) hback x hx
      (by have := hx.1.2.1; omega)
    rcases wlyLoop_complete (wctx r p nti) hr hp hen (wlyIncs_nib r) x o ho hxy hx.1.2.2.2.2.1 ix hix
      (fun y m d => ∃ j, Carry y0 m0 (d0 + j * wk (wctx r p nti)) y m d)
      (fun y m d y2 m2 d2 ⟨j, hj⟩ hc2 => ⟨j + 1, by
        rw [Nat.succ_mul, ← Nat.add_assoc]; exact hj.comp _ _ _ _ hc2⟩)
      (fun y m d ⟨j, hj⟩ _ hcx => hsk nti y0 m0 d0 j y m d o ix hcap hy2 hv0 hl0 (by omega) hback hj ho hcx hmon hix)
      hmon hgeP hle _ k y0 m0 d0 [] l' ⟨0, wly_start0 _ y0 m0 d0 hv0⟩ hv0 hl0 hc (Acc.nil _ _ _) (Below.nil _ _ _) hl
      with a | ⟨b1, b2⟩
    · exact Or.inl (List.mem_reverse.2 a)
    · refine Or.inr ⟨by rw [List.length_reverse]; exact b1, ?_⟩
      intro z hz
      exact acc_ltP hacc hxin hx.1.2.2.2.2.1 b2 z (List.mem_reverse.1 hz)

theorem fillWly_complete_nopos (r : Rule) (p : Inst) (n : Nat) (l : List Inst) (hr : WfRule r) (hp : WfInst p)
    (_hn : n ≤ 64) (hy : 1901 ≤ p.y) (hpos : r.pos = []) (h : fillWly r p n = some l)
    (x : Inst) (hx : WeeklyInst r p x) (hge : absOf p ≤ absOf x) (hle : ltP r.untl x = false) (hxy : x.y ≤ 2099) :
    x ∈ l ∨ (l.length = capOf r n ∧ ∀ z ∈ l, ltP z x = true) := by
  refine wly_complete' r p n l hr hp hy h x hx hge hle hxy ?_
  intro nti y0 m0 d0 j y m d o ix _ _ _ _ _ _ _ _ _ _ _
  unfold wlySkip
  show ((!r.pos.isEmpty) && _) = false
  rw [hpos]; rfl

/-- C01, soundness of the weekly filler: every instant written is an instance of the rule anchored at the seed and is
chosen by BYSETPOS (`hf`: the rule's frequency, which `SetposOk` refers to, is WEEKLY — needed only with BYSETPOS) -/
theorem fillWly_sound (r : Rule) (p : Inst) (n : Nat) (l : List Inst) (hr : WfRule r) (hp : WfInst p)
    (hn : n ≤ 64) (hy : 1901 ≤ p.y) (hf : r.pos ≠ [] → r.freq = 3) (h : fillWly r p n = some l) :
    ∀ x ∈ l, WeeklyInst r p x ∧ SetposOk r p x := by
  intro x hx
  refine ⟨fillWly_inst r p n l hr hp hn hy h x hx, ?_⟩
  by_cases hpos : r.pos = []
  · exact Or.inl hpos
  · cases hcap : capNti r n with
    | none =>
      rw [fillWly_none r p n hr hp hcap] at h
      cases h; cases hx
    | some nti =>
      obtain ⟨y0, m0, d0, hv0, hl0, hy0, hback, he⟩ := fillWly_start r p n nti hr hp hy hcap
      rw [he] at h
      obtain ⟨l', hl, rfl⟩ := Option.map_eq_some_iff.1 h
      have hen : EnumOk (wctx r p nti).e := makeEnum_ok r p hr hp
      have hpy := hp.year
      refine wlyLoop_sound (wctx r p nti) hr hp hen (wlyIncs_nib r) (SetposOk r p) y0 m0 d0 hv0 ?_ _ 0
        y0 m0 d0 [] l' (wly_start0 _ y0 m0 d0 hv0) (by omega) (fun z hz => by cases hz) hl x (List.mem_reverse.1 hx)
      intro j y m d o ty tm td hcw ho hc hty hbit t ht hsk hge _
      have hy2 : p.y ≤ 2099 := by
        have := year_le_of_not_lt _ p (inR_of_wf hp) hge
        exact Nat.le_trans this hty
      have hd0 := hv0.2.2.1
      obtain ⟨hv, -, -, -⟩ := hcw.props hv0.1 hv0.2.1 (by omega)
      have ho6 := (offs_range (wlyIncs_nib r) (show 0 + 6 ≤ 0 + 6 by omega) ho).2
      exact (wlySkip_iff r p nti hr hp hy2 (hf hpos) hpos hv0 hl0 (by omega) hback j y m d hcw
        (week_bound hv (by omega) hc hty) o ho ty tm td hc hbit t ht).1 hsk

/-- C01, completeness of the weekly filler: an instance `x` chosen by BYSETPOS, at or after the seed, not after UNTIL
and not after 2099 is in the result `l`, or `l` is full (`capOf r n` elements) and all of it comes before `x` -/
theorem fillWly_complete (r : Rule) (p : Inst) (n : Nat) (l : List Inst) (hr : WfRule r) (hp : WfInst p)
    (hn : n ≤ 64) (hy : 1901 ≤ p.y) (hf : r.pos ≠ [] → r.freq = 3) (h : fillWly r p n = some l)
    (x : Inst) (hx : WeeklyInst r p x) (hsp : SetposOk r p x) (hge : absOf p ≤ absOf x)
    (hle : ltP r.untl x = false) (hxy : x.y ≤ 2099) :
    x ∈ l ∨ (l.length = capOf r n ∧ ∀ z ∈ l, ltP z x = true) := by
  by_cases hpos : r.pos = []
  · exact fillWly_complete_nopos r p n l hr hp hn hy hpos h x hx hge hle hxy
  · refine wly_complete' r p n l hr hp hy h x hx hge hle hxy ?_
    intro nti y0 m0 d0 j y m d o ix _ hy2 hv0 hl0 hy0 hback hcw ho hc hbit hix
    have hd0 := hv0.2.2.1
    obtain ⟨hv, -, -, -⟩ := hcw.props hv0.1 hv0.2.1 (by omega)
    have ho6 := (offs_range (wlyIncs_nib r) (show 0 + 6 ≤ 0 + 6 by omega) ho).2
    have hxeq : mkz x.y x.m x.d p.ms (ix, x.H, x.M, x.S) = x := by
      have hms := hx.1.2.2.2.2.1
      unfold mkz
      cases x
      simp only at hms
      subst hms
      rfl
    have := (wlySkip_iff r p nti hr hp hy2 (hf hpos) hpos hv0 hl0 hy0 hback j y m d hcw
      (week_bound hv (by omega) hc hxy) o ho x.y x.m x.d hc hbit (ix, x.H, x.M, x.S) hix).2
    rw [hxeq] at this
    exact this hsp

end Echse.Lemmas.RrWlyRfc
