/-
  Daemon model: `Fresh` — the queue file of a user who is not marked dirty agrees with the table — holds in every
  state a history of socket requests, loop iterations, child exits and checkpoints reaches.
  Continues DaemonQueue.lean.  Used by C11 (section 5).
-/
import Echse.Lemmas.DaemonQueue
namespace Echse.Daemon

/-- one queue file per user; and, unless marks were dropped (the list of marks is full), for every user who is
not marked: the user's file lists only tasks the table holds for that user, and every task of that user that is
still to run -/
def Fresh (s : St) : Prop :=
  (keys s.files).Nodup ∧
  (s.dirty.length < 16 → ∀ u, u ∉ s.dirty →
    (∀ f ∈ s.files, f.1 = u → ∀ t ∈ f.2, ∃ t' ∈ s.tasks, t'.inTable = true ∧ t'.uid = t.uid ∧ t'.owner = u) ∧
    (∀ t' ∈ tasksOf s u, ∃ f ∈ s.files, f.1 = u ∧ t'.uid ∈ f.2.map (·.uid)))

theorem Fresh_init (m : Nat) : Fresh { me := m } :=
  ⟨List.nodup_nil, fun _ _ _ => ⟨fun _ h => (nomatch h), fun _ h => (nomatch h)⟩⟩

/-- loop iterations and child exits -/
theorem Fresh_step_nonreq {s : St} (h : Inv s) (op : Op) (hop : OpOk s op) (hnr : op.isReq = false)
    (hnc : op ≠ .chk) (hf : Fresh s) : Fresh (step s op).1 := by
  have R := ret_step s op hnr hnc
  have hinv' := Inv_step h op hop
  refine ⟨by rw [R.files]; exact hf.1, ?_⟩
  intro hl u hu
  obtain ⟨hA, hB⟩ := hf.2 (R.len hl) u (fun c => hu (R.sub u c))
  constructor
  · intro f hf' hfu t ht
    rw [R.files] at hf'
    obtain ⟨t', ht', hi, hu', ho⟩ := hA f hf' hfu t ht
    obtain ⟨t'', ht'', hi'', hu'', ho''⟩ := R.fwd h.sidU hl t' ht' hi (by rw [ho]; exact hu)
    exact ⟨t'', ht'', hi'', hu''.trans hu', ho''.trans ho⟩
  · intro t' ht'
    obtain ⟨hm, hi, ho, hocc⟩ := mem_tasksOf.mp ht'
    have hfind : (step s op).1.find t'.uid = some t' := (find_eq_some_iff hinv').mpr ⟨hm, hi, rfl⟩
    obtain ⟨t, hft, _, hown, _, hocc'⟩ := find_step_nonreq h op hop hnr hfind
    obtain ⟨htm, hti, htu⟩ := find_some hft
    have : t ∈ tasksOf s u := by
      refine mem_tasksOf.mpr ⟨htm, hti, by rw [← hown]; exact ho, ?_⟩
      intro c
      rw [c] at hocc'
      exact hocc hocc'
    obtain ⟨f, hfm, hfu, hmem⟩ := hB t this
    refine ⟨f, by rw [R.files]; exact hfm, hfu, ?_⟩
    rw [← htu]; exact hmem

/-- a completed checkpoint -/
theorem Fresh_chkpnt {s : St} (hf : Fresh s) : Fresh (chkpnt s) := by
  refine ⟨keys_nodup_chkpnt hf.1, ?_⟩
  intro _ u _
  constructor
  · intro f hf' hfu t ht
    rcases mem_chkpnt hf.1 hf' with ⟨_, h2⟩ | ⟨hl, h1, h2⟩
    · rw [h2, hfu] at ht
      obtain ⟨a1, a2, a3, _⟩ := mem_tasksOf.mp ht
      exact ⟨t, a1, a2, rfl, a3⟩
    · rw [chkpntUsers_dirty hl, hfu] at h1
      exact (hf.2 hl u h1).1 f h2 hfu t ht
  · intro t' ht'
    have ht : t' ∈ tasksOf s u := ht'
    have hfo := fileOf_chkpnt_none s u
    by_cases hm : u ∈ chkpntUsers s
    · rw [if_pos hm] at hfo
      exact ⟨(u, tasksOf s u), fileOf_mem hfo, rfl, List.mem_map.mpr ⟨t', ht, rfl⟩⟩
    · rw [if_neg hm] at hfo
      by_cases hl : 16 ≤ s.dirty.length
      · rw [tasksOf_nil_of_unseen hl hm] at ht
        cases ht
      · rw [if_neg hl] at hfo
        have hl' : s.dirty.length < 16 := by omega
        rw [chkpntUsers_dirty hl'] at hm
        obtain ⟨f, hfm, hfu, hmem⟩ := (hf.2 hl' u hm).2 t' ht
        have h3 := fileOf_of_mem hf.1 hfm
        rw [hfu] at h3
        rw [h3] at hfo
        exact ⟨(u, f.2), fileOf_mem hfo, rfl, hmem⟩

/-- a request none of whose instructions succeeds changes nothing -/
theorem applyAll_allfail (p : Nat) : ∀ (ins : List Instr) (s : St),
    (applyAll s p ins).2.any (·.2) = false → (applyAll s p ins).1 = s := by
  intro ins
  induction ins with
  | nil => intro s _; rfl
  | cons i r ih =>
    intro s ha
    rw [applyAll_cons] at ha ⊢
    simp only [List.any_cons, Bool.or_eq_false_iff] at ha
    have h1 := applyInstr_fail s p i ha.1
    simp only []
    rw [h1] at ha ⊢
    exact ih s ha.2

/-- a request from a socket peer -/
theorem Fresh_cmdIcal {s : St} (h : Inv s) {p : Nat} (hp : p ≠ notAUid) (ins : List Instr)
    (hs : ∀ i ∈ ins, instrSorted i) (hf : Fresh s) : Fresh (cmdIcal s p ins).1 := by
  have hfiles := (cmdIcal_frame s p ins).files
  refine ⟨by rw [hfiles]; exact hf.1, ?_⟩
  intro hl u hu
  have hd := cmdIcal_dirty s p ins
  by_cases ha : (cmdIcal s p ins).2.any (·.2) = true
  · by_cases hl0 : s.dirty.length < 16
    · rw [if_pos ⟨ha, hl0⟩] at hd
      rw [hd] at hu
      have hup : u ≠ p := fun c => hu (by rw [c]; exact List.mem_append_right _ (List.mem_singleton.mpr rfl))
      obtain ⟨hA, hB⟩ := hf.2 hl0 u (fun c => hu (List.mem_append_left _ c))
      constructor
      · intro f hf' hfu t ht
        rw [hfiles] at hf'
        obtain ⟨t', ht', hi, hu', ho⟩ := hA f hf' hfu t ht
        exact ⟨t', (cmdIcal_others h hp ins hs t' (by rw [ho]; exact hup)).mpr ht', hi, hu', ho⟩
      · intro t' ht'
        obtain ⟨hm, hi, ho, hocc⟩ := mem_tasksOf.mp ht'
        have hm0 := (cmdIcal_others h hp ins hs t' (by rw [ho]; exact hup)).mp hm
        obtain ⟨f, hfm, hfu, hmem⟩ := hB t' (mem_tasksOf.mpr ⟨hm0, hi, ho, hocc⟩)
        exact ⟨f, by rw [hfiles]; exact hfm, hfu, hmem⟩
    · rw [if_neg (fun c => hl0 c.2)] at hd
      rw [hd] at hl
      exact absurd hl hl0
  · have ha' : (applyAll s p ins).2.any (·.2) = false := by
      rw [← cmdIcal_replies]; simpa using ha
    have : (cmdIcal s p ins).1 = s := by
      rw [cmdIcal_eq]
      simp only [ha']
      exact applyAll_allfail p ins s ha'
    rw [this] at hl hu ⊢
    exact hf.2 hl u hu

/-! ### histories -/

/-- every request of the history comes from a socket peer (`SO_PEERCRED` never reports `(uid_t)-1`, which the
daemon uses for "no peer") -/
def SockPeers (ops : List Op) : Prop := ∀ p ins, Op.req p ins ∈ ops → p ≠ notAUid

theorem Fresh_step {s : St} (h : Inv s) (op : Op) (hop : OpOk s op)
    (hp : ∀ p ins, op = .req p ins → p ≠ notAUid) (hf : Fresh s) : Fresh (step s op).1 := by
  cases op with
  | tick now => exact Fresh_step_nonreq h _ hop rfl (fun c => nomatch c) hf
  | req p ins => exact Fresh_cmdIcal h (hp p ins rfl) ins hop hf
  | exit k => exact Fresh_step_nonreq h _ hop rfl (fun c => nomatch c) hf
  | chk => exact Fresh_chkpnt hf
  | tickExit now k => exact Fresh_step_nonreq h _ hop rfl (fun c => nomatch c) hf

theorem Fresh_run : ∀ (ops : List Op) (s : St), Inv s → Fresh s → Mono s.now ops → SockPeers ops →
    Fresh (run s ops).1 := by
  intro ops
  induction ops with
  | nil => intro s _ hf _ _; exact hf
  | cons op ops ih =>
    intro s h hf hm hsp
    obtain ⟨h1, h2⟩ := Mono_cons hm
    rw [run_cons]
    simp only []
    apply ih _ (Inv_step h op h1)
      (Fresh_step h op h1 (fun p ins e => hsp p ins (by rw [e]; exact List.mem_cons_self)) hf)
    · rw [step_now h op]; exact h2
    · intro p ins hm'; exact hsp p ins (List.mem_cons_of_mem _ hm')

/-! ### `GET /queue` -/

/-- the state `GET /queue` for user `u` reads the spool in: after a checkpoint if `u` is marked or marks were
dropped -/
def queueSt (s : St) (u : Nat) : St :=
  if s.dirty.contains u || decide (16 ≤ s.dirty.length) then chkpnt s else s

theorem queueSt_cases (s : St) (u : Nat) : queueSt s u = s ∨ queueSt s u = chkpnt s := by
  unfold queueSt; split
  · exact Or.inr rfl
  · exact Or.inl rfl

theorem queueSt_tasks (s : St) (u : Nat) : (queueSt s u).tasks = s.tasks := by
  rcases queueSt_cases s u with h | h <;> rw [h] <;> rfl

/-- in that state the file of `u` agrees with the table -/
theorem queueSt_fresh {s : St} (hf : Fresh s) (u : Nat) :
    (keys (queueSt s u).files).Nodup ∧
    (∀ f ∈ (queueSt s u).files, f.1 = u → ∀ t ∈ f.2, ∃ t' ∈ s.tasks, t'.inTable = true ∧ t'.uid = t.uid ∧ t'.owner = u) ∧
    (∀ t' ∈ tasksOf s u, ∃ f ∈ (queueSt s u).files, f.1 = u ∧ t'.uid ∈ f.2.map (·.uid)) := by
  unfold queueSt
  by_cases c : (s.dirty.contains u || decide (16 ≤ s.dirty.length)) = true
  · rw [if_pos c]
    have hf' := Fresh_chkpnt hf
    exact ⟨hf'.1, hf'.2 (Nat.zero_lt_succ _) u (fun h => nomatch h)⟩
  · rw [if_neg c]
    simp only [Bool.or_eq_true, List.contains_eq_mem, decide_eq_true_eq, not_or] at c
    exact ⟨hf.1, hf.2 (by omega) u c.1⟩

theorem httpQueue_refused {s : St} {p : Nat} (hk : Known s p) {urlUid : Option Nat}
    (hg : p &&& urlUid.getD notAUid ≠ p) : httpQueue s p urlUid = (s, 403, []) := by
  unfold httpQueue
  simp only [complUid_known hk, if_neg hk.1]
  rw [if_pos hg]

theorem httpQueue_passed {s : St} {p : Nat} (hk : Known s p) (hp : p ≠ 0) {urlUid : Option Nat}
    (hg : p &&& urlUid.getD notAUid = p) :
    httpQueue s p urlUid = match (queueSt s p).files.find? (·.1 == p) with
      | some f => (queueSt s p, 200, f.2.map (·.uid))
      | none => (queueSt s p, 404, []) := by
  unfold httpQueue queueSt
  simp only [complUid_known hk, if_neg hk.1]
  rw [if_neg (fun c => c hg)]
  simp only [hg, ne_eq, hp, not_false_eq_true, if_true]
  rfl

theorem httpQueue_state (s : St) (p : Nat) (urlUid : Option Nat) :
    (httpQueue s p urlUid).1 = s ∨ (httpQueue s p urlUid).1 = chkpnt s := by
  unfold httpQueue
  simp only []
  generalize (if complUid s p = notAUid then p else complUid s p) = cu
  by_cases hg : cu &&& urlUid.getD notAUid ≠ cu
  · rw [if_pos hg]; exact Or.inl rfl
  · rw [if_neg hg]
    generalize (if cu &&& urlUid.getD notAUid ≠ 0 then cu &&& urlUid.getD notAUid else
      if urlUid.getD notAUid = notAUid then 0 else urlUid.getD notAUid) = u
    by_cases c : (s.dirty.contains u || decide (16 ≤ s.dirty.length)) = true
    · rw [if_pos c]; right; split <;> rfl
    · rw [if_neg c]; left; split <;> rfl

theorem gate_none {p : Nat} (h : p < 2 ^ 32) : p &&& (none : Option Nat).getD notAUid = p := by
  have := Nat.and_two_pow_sub_one_eq_mod p 32
  simp only [Nat.reducePow, Nat.reduceSub] at this
  show p &&& 4294967295 = p
  rw [this]; exact Nat.mod_eq_of_lt h

theorem gate_self (p : Nat) : p &&& (some p).getD notAUid = p := Nat.and_self p

/-- a known peer other than root is refused or shown a file that lists tasks of its own only -/
theorem httpQueue_own {s : St} (h : Inv s) (hf : Fresh s) {p : Nat} (hk : Known s p) (hp : p ≠ 0)
    (urlUid : Option Nat) :
    (httpQueue s p urlUid).2 = (403, []) ∨
    (((httpQueue s p urlUid).2.1 = 200 ∨ (httpQueue s p urlUid).2.1 = 404) ∧
      ∀ uid ∈ (httpQueue s p urlUid).2.2, absMap s uid = some p) := by
  by_cases hg : p &&& urlUid.getD notAUid = p
  · right
    rw [httpQueue_passed hk hp hg]
    obtain ⟨_, hA, _⟩ := queueSt_fresh hf p
    cases hfind : (queueSt s p).files.find? (·.1 == p) with
    | none => exact ⟨Or.inr rfl, fun _ hm => nomatch hm⟩
    | some f =>
      refine ⟨Or.inl rfl, ?_⟩
      intro uid hm
      simp only [List.mem_map] at hm
      obtain ⟨t, ht, rfl⟩ := hm
      have hfm := List.mem_of_find?_eq_some hfind
      have hfu : f.1 = p := by simpa using List.find?_some hfind
      obtain ⟨t', ht', hi, hu, ho⟩ := hA f hfm hfu t ht
      exact (absMap_eq_some_iff h).mpr ⟨t', ht', hi, hu, ho⟩
  · left; rw [httpQueue_refused hk hg]

/-- … and once the gate is passed the file lists every task of the peer that is still to run -/
theorem httpQueue_all {s : St} (hf : Fresh s) {p : Nat} (hk : Known s p) (hp : p ≠ 0) {urlUid : Option Nat}
    (hg : p &&& urlUid.getD notAUid = p) :
    (∀ t ∈ tasksOf s p, t.uid ∈ (httpQueue s p urlUid).2.2) ∧
    (tasksOf s p ≠ [] → (httpQueue s p urlUid).2.1 = 200) := by
  rw [httpQueue_passed hk hp hg]
  obtain ⟨hkeys, _, hB⟩ := queueSt_fresh hf p
  have key : ∀ t ∈ tasksOf s p, ∃ g, (queueSt s p).files.find? (·.1 == p) = some g ∧ t.uid ∈ g.2.map (·.uid) := by
    intro t ht
    obtain ⟨f, hfm, hfu, hmem⟩ := hB t ht
    have h3 := fileOf_of_mem hkeys hfm
    rw [hfu] at h3
    unfold fileOf at h3
    rw [Option.map_eq_some_iff] at h3
    obtain ⟨g, hg1, hg2⟩ := h3
    exact ⟨g, hg1, by rw [hg2]; exact hmem⟩
  constructor
  · intro t ht
    obtain ⟨g, hg1, hg2⟩ := key t ht
    rw [hg1]; exact hg2
  · intro hne
    cases hl : tasksOf s p with
    | nil => exact absurd hl hne
    | cons t r =>
      obtain ⟨g, hg1, _⟩ := key t (by rw [hl]; exact List.mem_cons_self)
      rw [hg1]

end Echse.Daemon
