/-
  BYSETPOS for the weekly filler, part 3: `weekL` lists exactly the instances of its week.
-/
import Echse.Lemmas.RrWlyPos2
namespace Echse.Lemmas.RrRfc
open Echse.Rrule Echse.Instant Echse.Spec.RrOk Echse.Spec.Cal Echse.Spec.RuleExt Echse.Spec.Rfc
open Echse.Lemmas.RrOkBase

theorem dateOf_mon (y m D : Nat) : (dateOf y m D).2.1 = monOf y m D := by
  unfold dateOf monOf; split <;> rfl

theorem days_low {y m : Nat} (hl : LowOk y m) (h1 : 1 ≤ m) (h2 : m ≤ 12) : 693960 ≤ days y m 1 := by
  unfold LowOk at hl
  rcases hl with a | ⟨a, b⟩
  · have := days_ge_1901 (show 1901 ≤ y by omega) h1 h2 (Nat.le_refl 1); omega
  · subst a
    have := days_month_mono 1900 3 m (by omega) b h2
    rw [days_1900_3'] at this; exact this

/-- the elements of the week's list are instances of the week -/
theorem weekL_sound (r : Rule) (p : Inst) (nti : Nat) (hr : WfRule r) (hp : WfInst p)
    (hy2 : p.y ≤ 2099) {y0 m0 d0 : Nat} (hv0 : VD y0 m0 d0) (hl0 : LowOk y0 m0)
    (hback : Carry y0 m0 (d0 + wlyBack r p) p.y p.m p.d) (j y m d : Nat)
    (hcw : Carry y0 m0 (d0 + j * wk (wctx r p nti)) y m d)
    (hwk : ∀ D, d ≤ D → D ≤ d + 6 → ∀ ty tm td, Carry y m D ty tm td → ty * 12 + tm ≤ 25201)
    (u : Inst) (hu : u ∈ weekL r p nti y m d) :
    WeeklyInst r p u ∧ weekStart (dayOf u) = weekStart (dayOf p) + 7 * (j : Int) * (r.inter : Int) := by
  have hd0 := hv0.2.2.1
  obtain ⟨hv, -, -, -⟩ := hcw.props hv0.1 hv0.2.1 (by omega)
  have hd := hv.2.2.2
  unfold weekL at hu
  obtain ⟨D', hD', hub⟩ := List.mem_flatMap.1 hu
  obtain ⟨hmem, hsel⟩ := List.mem_filter.1 hD'
  obtain ⟨t, ht, rfl⟩ := List.mem_map.1 hub
  obtain ⟨o, ho, rfl⟩ := mem_offs_shift hmem
  have hrange := mem_week_offs hmem
  have hcd := carry_dateOf (y := y) (m := m) (D := d + o) hv.1 hv.2.1 (by omega)
  have habs := hcw.comp o _ _ _ hcd
  have hb := hwk (d + o) hrange.1 hrange.2 _ _ _ hcd
  have hbit : bit (monMask r.mon) (dateOf y m (d + o)).2.1 = true := by
    rw [dateOf_mon]; exact hsel
  exact ⟨wly_inst r p nti hr hp hy2 hv0 hl0 hback j o _ _ _ ho habs hb hbit t ht,
    (wly_days r p nti hy2 hv0 hl0 hback j o _ _ _ ho habs hb).1⟩

theorem week_le (n : Int) : n ≤ weekStart n + 6 ∧ weekStart n ≤ n := by
  unfold weekStart wdayOf; omega

/-- every instance of the week is in the week's list -/
theorem weekL_complete (r : Rule) (p : Inst) (nti : Nat) (hr : WfRule r) (hp : WfInst p)
    (hy2 : p.y ≤ 2099) {y0 m0 d0 : Nat} (hv0 : VD y0 m0 d0) (hl0 : LowOk y0 m0) (hy0 : y0 ≤ 2099)
    (hback : Carry y0 m0 (d0 + wlyBack r p) p.y p.m p.d) (j y m d : Nat)
    (hcw : Carry y0 m0 (d0 + j * wk (wctx r p nti)) y m d)
    (hwk : ∀ D, d ≤ D → D ≤ d + 6 → ∀ ty tm td, Carry y m D ty tm td → ty * 12 + tm ≤ 25201)
    (u : Inst) (hu : WeeklyInst r p u)
    (huw : weekStart (dayOf u) = weekStart (dayOf p) + 7 * (j : Int) * (r.inter : Int)) :
    u ∈ weekL r p nti y m d := by
  have hd0 := hv0.2.2.1
  have hd031 := hv0.d31
  have hm012 := hv0.2.1
  have hi := hr.inter
  have hD0 : 1 ≤ d0 + j * wk (wctx r p nti) := by omega
  obtain ⟨hv, -, -, -⟩ := hcw.props hv0.1 hv0.2.1 hD0
  have hd := hv.2.2.2
  have hd1 := hv.2.2.1
  have hl := lowOk_carry hcw hv0.1 hv0.2.1 hD0 hl0
  -- the day number of the week's first day
  have hbj := carry_days' hcw hv0.1 hv0.2.1 hD0 hl0 (hwk d (Nat.le_refl _) (by omega) _ _ _ (Carry.done hd))
  have hcast := wk_cast r p nti (wlyIncs r) j
  rw [Int.natCast_add, hcast] at hbj
  have hbase := wly_base hy2 hv0 hl0 hback
  -- the week's last day is before February 2100
  have hc6 := carry_dateOf (y := y) (m := m) (D := d + 6) hv.1 hv.2.1 (by omega)
  have hb6 := hwk (d + 6) (by omega) (Nat.le_refl _) _ _ _ hc6
  have hd6 := carry_days' hc6 hv.1 hv.2.1 (by omega) hl hb6
  obtain ⟨hv6, -, -, -⟩ := hc6.props hv.1 hv.2.1 (by omega)
  have hlt6 := days_lt_2100_2 (y := (dateOf y m (d + 6)).1) (m := (dateOf y m (d + 6)).2.1) (d := (dateOf y m (d + 6)).2.2)
    ⟨hv6.1, hv6.2.1, hv6.2.2.1, by
      rw [← ndom_eq' hv6.1 hv6.2.1 (lowOk_carry hc6 hv.1 hv.2.1 (by omega) hl) hb6]; exact hv6.2.2.2⟩ hb6
  rw [days_2100_2, hd6] at hlt6
  have hdd := days_d y m d
  -- `u` is not after the week's last day
  have hule : dayOf u < 766981 := by
    have h1 := week_le (dayOf u)
    have h2 := week_split (dayOf u)
    have h3 := week_split (dayOf p)
    have hwu := wdayOf_range (dayOf u)
    rw [Int.mul_assoc] at huw
    obtain ⟨-, -, hwd, -, -⟩ := hu
    by_cases c : plainDays r = []
    · rw [if_pos c] at hbase hwd
      rw [hwd] at h2
      omega
    · rw [if_neg c] at hbase
      omega
  have hub : u.y * 12 + u.m ≤ 25201 := by
    by_cases c : u.y * 12 + u.m ≤ 25201
    · exact c
    · exfalso
      have hge2 := days_ge_2100_2 (show 25202 ≤ u.y * 12 + u.m by omega) hu.1.1 hu.1.2.1
      have h2 := days_d u.y u.m u.d
      have hud := hu.1.2.2.1
      rw [days_2100_2] at hge2
      unfold dayOf at hule
      omega
  obtain ⟨k', o', ho', hc', hmon', hweek', ix, hix⟩ := wly_inst_conv r p nti hr hp hy2 hv0 hl0 hy0 hback u hu hub
  -- the same week
  have hk : k' = j := by
    rw [huw] at hweek'
    have e : (j : Int) * (r.inter : Int) = (k' : Int) * (r.inter : Int) := by
      rw [Int.mul_assoc, Int.mul_assoc] at hweek'; omega
    have e2 : j * r.inter = k' * r.inter := by
      have := congrArg Int.toNat e
      rw [← Int.natCast_mul, ← Int.natCast_mul, Int.toNat_natCast, Int.toNat_natCast] at this
      exact this
    exact (Nat.eq_of_mul_eq_mul_right (by omega) e2).symm
  subst hk
  have ho6 := (offs_range (wlyIncs_nib r) (show 0 + 6 ≤ 0 + 6 by omega) ho').2
  -- the span of the carry to `u`
  have hspan : d0 + k' * wk (wctx r p nti) + o' < 80000 := by
    have h1 := carry_days' hc' hv0.1 hv0.2.1 (by omega) hl0 hub
    have h2 := days_low hl0 hv0.1 hv0.2.1
    unfold dayOf at hule
    show d0 + k' * wk (mkCtx r p nti (wlyIncs r)) + o' < 80000
    omega
  have hcu : Carry y m (d + o') u.y u.m u.d :=
    carry_split hcw hc' ⟨hv0.1, hv0.2.1⟩ hD0 (by unfold pot; omega)
  have hcd := carry_dateOf (y := y) (m := m) (D := d + o') hv.1 hv.2.1 (by omega)
  obtain ⟨e1, e2, e3⟩ := carry_det hcd hcu
  unfold weekL
  refine List.mem_flatMap.2 ⟨d + o', List.mem_filter.2 ⟨offs_shift_mem ho', ?_⟩, ?_⟩
  · show bit (monMask r.mon) (monOf y m (d + o')) = true
    rw [← dateOf_mon, e2]; exact hmon'
  · unfold dayBlock
    refine List.mem_map.2 ⟨(ix, u.H, u.M, u.S), hix, ?_⟩
    rw [e1, e2, e3]
    have hms := hu.1.2.2.2.2.1
    unfold mkz
    cases u
    simp only at hms
    subst hms
    rfl

end Echse.Lemmas.RrRfc
