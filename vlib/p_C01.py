"""C01 — RRULE expansion equals the RFC 5545 recurrence set.

  * oracle: generated (DTSTART, RRULE) pairs of the supported language go through the real parser (snarf_rrule) and the
    real rule stream (echs_make_evstrm_rrul -> refill -> rrul_fill_*); the first N occurrences (N crosses the
    64-occurrence refill several times) are compared with the RFC 5545 reference expander vlib/rfc5545.py;
  * the same rules written into a calendar and read through the whole parser (`p.parse`) must yield the same
    first occurrences (the command line and the daemon both consume that stream);
  * correspondence: every filler call and every stream goes through the Lean model (Echse.Model.Rr*) as well.
"""
import collections

from . import common, p_strm, p_rr, p_rrfill, rfc5545, rrgen
from .common import hex16


def parse_struct_expect(r):
    """what print_rule() must show for the rule text (checks snarf_rrule)"""
    fr = {"YEARLY": 1, "MONTHLY": 2, "WEEKLY": 3, "DAILY": 4, "HOURLY": 5, "MINUTELY": 6, "SECONDLY": 7}[r.freq]

    def canon(vals):
        vals = [v for v in vals]
        return sorted(set(v for v in vals if v >= 0)) + sorted(set(v for v in vals if v < 0), reverse=True)
    dow = [((o << 3) | (w + 1)) for o, w in r.byday]          # pack_cd(): (cnt << 3) | dow
    until = "ffffffffffffffff"
    if r.until is not None:
        u = r.until
        until = hex16(u[0], u[1], u[2], 255, 0, 0, 0) if u[3] is None else hex16(u[0], u[1], u[2], u[3], u[4], u[5], 1023)
    f = lambda l: ",".join(map(str, l))
    return "freq=%d scale=0 count=%d inter=%d until=%s shift=0 dom=%s doy=%s dow=%s mon=%s wk=%s H=%s M=%s S=%s pos=%s easter=" % (
        fr, -1 if r.count is None else r.count, r.interval, until, f(canon(r.bymonthday)), f(canon(r.byyearday)), f(canon(dow)),
        f(sorted(set(r.bymonth))), f(canon(r.byweekno)), f(sorted(set(r.byhour))), f(sorted(set(r.byminute))),
        f(sorted(set(r.bysecond))), f(canon(r.bysetpos)))


def numbered_limit_p(r):
    """class of the recorded finding D125: BYDAY with an ordinal where it limits the days BYMONTHDAY / BYYEARDAY select"""
    return r.freq in ("MONTHLY", "YEARLY") and any(o for o, _ in r.byday) and bool(r.bymonthday or r.byyearday)


def yearly_combo_p(r):
    """class of the recorded finding D129: a YEARLY rule in which BYWEEKNO or BYYEARDAY meets BYMONTH, BYMONTHDAY or each other"""
    return r.freq == "YEARLY" and bool(r.byweekno or r.byyearday) and \
        bool(r.bymonth or r.bymonthday or (r.byweekno and r.byyearday))


def calendar(ds, r, uid):
    return ("BEGIN:VCALENDAR\nVERSION:2.0\nBEGIN:VEVENT\nUID:%s\nSUMMARY:x\nDTSTART%s:%s\nRRULE:%s\nEND:VEVENT\nEND:VCALENDAR\n" % (
        uid, ";VALUE=DATE" if ds[3] is None else "", rrgen.dtstart_text(ds) + ("" if ds[3] is None else "Z"), r.text()))


def run(ctx):
    rng = ctx.rng
    thorough = ctx.tier == "thorough"
    exe = p_strm.build(ctx)
    ncases = 4000 if thorough else 700
    npop = 200 if thorough else 150
    cases = []
    for i in range(ncases):
        ds = rrgen.gen_dtstart(rng)
        cases.append((ds, rrgen.gen_rule(rng, ds, big_times=(i % 10 == 9), numbered_limit=0.25, yearly_combos=0.15)))
    res, st, err = p_rr.run_cases(ctx, exe, cases, npop, timeout=120)
    fails, corr = [], []
    kl = common.load_known("C01")
    known_classes = {k.get("class") for k in kl if k.get("status") == "known"}      # classes of defects recorded, not repaired
    known = collections.Counter()
    shapes = collections.Counter()
    freqs = collections.Counter()
    nocc = 0
    refills = 0
    # 1. oracle on the stream and on the parsed rule
    for k, x in enumerate(res):
        sh = rrgen.shape_of(x["rule"], x["ds"])
        shapes[sh] += 1
        freqs[x["rule"].freq] += 1
        if not isinstance(x["got"], str):
            nocc += len(x["got"])
            refills += len(x["got"]) // 63
        want = parse_struct_expect(x["rule"])
        if x["struct"] != want:
            fails.append((x, "snarf_rrule reads RRULE:%s as\n   %s\nexpected\n   %s" % (x["rule"].text(), x["struct"], want)))
        elif x["verdict"] and yearly_combo_p(x["rule"]) and "yearly-parts-union" in known_classes:
            known["yearly-parts-union"] += 1
        elif x["verdict"] and numbered_limit_p(x["rule"]) and "numbered-byday-limit" in known_classes:
            known["numbered-byday-limit"] += 1
        elif x["verdict"]:
            fails.append((x, "DTSTART:%s RRULE:%s : %s" % (rrgen.dtstart_text(x["ds"]), x["rule"].text(), x["verdict"])))
    # 2. correspondence: streams and filler chains through the model
    ops = [x["op"].replace("ds=%s" % rrgen.dtstart_text(x["ds"]), "from=%s" % p_rrfill.proto_hex(x["ds"])) for x in res]
    impl2, st2, err2 = ctx.impl(exe, ops, timeout=120)
    model2 = ctx.model(ops)
    corr += [d for d in common.diff_lines(ops, impl2, model2) if d[3] != "unmodelled"]
    unmodelled = sum(1 for m in model2 if m == "unmodelled")
    # the two ways of giving DTSTART agree
    for k, x in enumerate(res):
        a = impl2[k] if k < len(impl2) else "<no answer>"
        if not isinstance(x["got"], str) and p_rr.decode(a)[0] != x["got"] and not fails:
            fails.append((x, "DTSTART read by dt_strp and DTSTART given as instant yield different streams for %s" % x["rule"].text()))
    sub = [cases[i] for i in sorted(rng.sample(range(len(cases)), min(len(cases), 800 if thorough else 200)))]
    fops, fimpl, fmodel = p_rrfill.chains(ctx, exe, sub, rng, nfills=4)
    d, unm2 = p_rrfill.compare(fops, fimpl, fmodel)
    corr += d
    unmodelled += unm2
    # 3. the whole parser path: calendars with the same rules
    sub2 = sorted(rng.sample(range(len(cases)), min(len(cases), 300 if thorough else 80)))
    pops = []
    for i in sub2:
        ds, r = cases[i]
        pops.append("p.parse " + calendar(ds, r, "u%d" % i).encode().hex())
    pimpl, st3, err3 = ctx.impl(exe, pops, timeout=120)
    for k, i in enumerate(sub2):
        a = pimpl[k] if k < len(pimpl) else "<no answer>"
        x = res[i]
        if isinstance(x["got"], str):
            continue
        # p.parse prints the first occurrences as occ=HEX+dur,…
        import re
        m = re.search(r"occ=([^}]*)\}", a)
        if not m:
            if x["exp"]:
                fails.append((x, "calendar with RRULE:%s does not parse into a task: %s" % (x["rule"].text(), a[:200])))
            continue
        occ = [o.split("+")[0] for o in m.group(1).split(",") if o and o != "-"]
        want = [hex16(t[0], t[1], t[2], 255, 0, 0, 0) if t[3] is None else hex16(t[0], t[1], t[2], t[3], t[4], t[5], 1023) for t in x["got"][:len(occ)]]
        if occ != want:
            fails.append((x, "the event read from a calendar starts %s, the rule stream built directly starts %s (RRULE:%s)" % (occ, want, x["rule"].text())))
    # the days of a year's first (last) ISO week that lie in December before (January after): fixed probe, recorded reading
    pcal = ("BEGIN:VCALENDAR\nBEGIN:VEVENT\nUID:wk\nSUMMARY:x\nDTSTART;VALUE=DATE:20200106\nRRULE:FREQ=YEARLY;BYWEEKNO=1;BYDAY=MO;COUNT=8\n"
            "END:VEVENT\nEND:VCALENDAR\n")
    wout, _, _ = ctx.impl(exe, ["p.occ %s 8" % pcal.encode().hex()])
    wdays = [common.unhex16(o.split("+")[0])[:3] for o in re.findall(r"[0-9a-f]{16}\+\d+", wout[0] if wout else "")]
    if (2024, 12, 30) not in wdays:
        known["weekno-spill"] += 1
        ctx.cov["weekno_spill_probe"] = "BYWEEKNO=1;BYDAY=MO from 2020-01-06: %s" % wdays
        if not any(k.get("status") == "known" and k.get("class") == "weekno-spill" for k in kl):
            fails.append(({"op": "p.occ %s 8" % pcal.encode().hex(), "rule": None}, "FREQ=YEARLY;BYWEEKNO=1;BYDAY=MO: the Monday of week 1 of 2025 (2024-12-30) is not among %s" % wdays))
    for k in kl:
        if k.get("status") == "known" and known.get(k.get("class"), 0):
            ctx.known(k["what"])
    ctx.cov.update({
        "known_class_hits": dict(known),
        "rules_in_class_numbered_byday_limit": sum(1 for x in res if numbered_limit_p(x["rule"])),
        "rules_in_class_yearly_parts_union": sum(1 for x in res if yearly_combo_p(x["rule"])),
        "evaluations": len(res) + len(fops) + len(pops),
        "distinct_nontrivial": len(set(x["op"] for x in res)) + len(set(fops)) + len(set(pops)),
        "traces_validated_against_impl": len(ops) + len(fops) - len(corr) - unmodelled,
        "rule": "generated DTSTART (1902-2090, dates and date-times, month ends, leap days, 53-week years) x well-formed rules of every "
                "frequency (INTERVAL 1-1000, COUNT incl. 63/64/65/128/129, UNTIL, BYMONTH, BYWEEKNO+BYDAY, BYYEARDAY, BYMONTHDAY incl. negative, "
                "BYDAY with ordinals, BYHOUR/BYMINUTE/BYSECOND (every tenth rule with up to 24x60x60 values), BYSETPOS); %d occurrences "
                "per stream (the 64-entry cache is refilled up to three times) compared one by one with the RFC 5545 reference "
                "expander; non-trivial = all (each is a distinct rule/start pair)" % npop,
        "samples": ["DTSTART:%s RRULE:%s" % (rrgen.dtstart_text(x["ds"]), x["rule"].text()) for x in (res[i] for i in sorted(rng.sample(range(len(res)), 4)))],
        "rules_per_frequency": dict(freqs),
        "distinct_rule_shapes": len(shapes),
        "occurrences_compared": nocc,
        "refills_crossed": refills,
        "filler_calls_through_model": len(fops),
        "calendars_through_whole_parser": len(pops),
        "ops_not_modelled": unmodelled,
        "impl_vs_spec_failures": len(fails),
        "impl_vs_model_differences": len(corr),
        "exhaustive": False,
    })
    ctx.assumptions += ["RFC 5545 section 3.3.10 as implemented by vlib/rfc5545.py (expand/limit table, notes 1 and 2, WKST=MO); a DTSTART "
                        "that is not an instance of its rule does not count as an occurrence (the RFC leaves that case undefined)",
                        "occurrences beyond 2099 are not judged (supported range)"]
    if fails:
        x, why = fails[0]
        ctx.violation("property", why, {"op": x["op"], "dtstart": rrgen.dtstart_text(x["ds"]) if x.get("ds") else None,
                                        "rrule": x["rule"].text() if x.get("rule") else None,
                                        "failures_total": len(fails), "more": [w[:300] for _, w in fails[1:6]]})
    elif corr:
        i, op, a, b = corr[0]
        ctx.violation("correspondence", "implementation and model differ in %d ops; first: %s -> impl %s, model %s" % (len(corr), op[:200], a[:160], b[:160]),
                      {"correspondence": "Echse.Model.Rr* vs evrrul.c rrul_fill_* / evical.c refill", "op": op, "impl": a, "model": b},
                      found_input=False)


def replay(ctx, rep):
    exe = p_strm.build(ctx)
    d = rep["data"]
    if "rrule" in d:
        import subprocess, sys, os
        return subprocess.call([sys.executable, os.path.join(common.ROOT, "tools", "rrprobe.py"), "--rule", d["rrule"], "--ds", d["dtstart"]])
    op = d.get("op")
    out, st, _ = ctx.impl(exe, [op])
    print("impl :", out[0][:600] if out else st)
    print("model:", ctx.model([op])[0][:600])
    return 1
