/-
  C15 enumeration part (written once by a loop, then static): Gregorian scale, per day number,
  chunks 48..69 of 1024 points and the final 1004 points.
  One theorem per chunk: each is checked by the kernel on its own (bounded memory and heartbeats).
-/
import Echse.Lemmas.C15Enum
namespace Echse.Scale

theorem gregC_c0 : allFrom (chkG) (dLo + 1024 * (48 + 0)) 1024 = true := by decide +kernel
theorem gregC_c1 : allFrom (chkG) (dLo + 1024 * (48 + 1)) 1024 = true := by decide +kernel
theorem gregC_c2 : allFrom (chkG) (dLo + 1024 * (48 + 2)) 1024 = true := by decide +kernel
theorem gregC_c3 : allFrom (chkG) (dLo + 1024 * (48 + 3)) 1024 = true := by decide +kernel
theorem gregC_c4 : allFrom (chkG) (dLo + 1024 * (48 + 4)) 1024 = true := by decide +kernel
theorem gregC_c5 : allFrom (chkG) (dLo + 1024 * (48 + 5)) 1024 = true := by decide +kernel
theorem gregC_c6 : allFrom (chkG) (dLo + 1024 * (48 + 6)) 1024 = true := by decide +kernel
theorem gregC_c7 : allFrom (chkG) (dLo + 1024 * (48 + 7)) 1024 = true := by decide +kernel
theorem gregC_c8 : allFrom (chkG) (dLo + 1024 * (48 + 8)) 1024 = true := by decide +kernel
theorem gregC_c9 : allFrom (chkG) (dLo + 1024 * (48 + 9)) 1024 = true := by decide +kernel
theorem gregC_c10 : allFrom (chkG) (dLo + 1024 * (48 + 10)) 1024 = true := by decide +kernel
theorem gregC_c11 : allFrom (chkG) (dLo + 1024 * (48 + 11)) 1024 = true := by decide +kernel
theorem gregC_c12 : allFrom (chkG) (dLo + 1024 * (48 + 12)) 1024 = true := by decide +kernel
theorem gregC_c13 : allFrom (chkG) (dLo + 1024 * (48 + 13)) 1024 = true := by decide +kernel
theorem gregC_c14 : allFrom (chkG) (dLo + 1024 * (48 + 14)) 1024 = true := by decide +kernel
theorem gregC_c15 : allFrom (chkG) (dLo + 1024 * (48 + 15)) 1024 = true := by decide +kernel
theorem gregC_c16 : allFrom (chkG) (dLo + 1024 * (48 + 16)) 1024 = true := by decide +kernel
theorem gregC_c17 : allFrom (chkG) (dLo + 1024 * (48 + 17)) 1024 = true := by decide +kernel
theorem gregC_c18 : allFrom (chkG) (dLo + 1024 * (48 + 18)) 1024 = true := by decide +kernel
theorem gregC_c19 : allFrom (chkG) (dLo + 1024 * (48 + 19)) 1024 = true := by decide +kernel
theorem gregC_c20 : allFrom (chkG) (dLo + 1024 * (48 + 20)) 1024 = true := by decide +kernel
theorem gregC_c21 : allFrom (chkG) (dLo + 1024 * (48 + 21)) 1024 = true := by decide +kernel

theorem gregC_chunks : ∀ c, c < 22 → allFrom (chkG) (dLo + 1024 * (48 + c)) 1024 = true
  | 0, _ => gregC_c0
  | 1, _ => gregC_c1
  | 2, _ => gregC_c2
  | 3, _ => gregC_c3
  | 4, _ => gregC_c4
  | 5, _ => gregC_c5
  | 6, _ => gregC_c6
  | 7, _ => gregC_c7
  | 8, _ => gregC_c8
  | 9, _ => gregC_c9
  | 10, _ => gregC_c10
  | 11, _ => gregC_c11
  | 12, _ => gregC_c12
  | 13, _ => gregC_c13
  | 14, _ => gregC_c14
  | 15, _ => gregC_c15
  | 16, _ => gregC_c16
  | 17, _ => gregC_c17
  | 18, _ => gregC_c18
  | 19, _ => gregC_c19
  | 20, _ => gregC_c20
  | 21, _ => gregC_c21
  | n + 22, h => absurd h (by omega)

theorem gregC : ∀ k, dLo + 1024 * 48 ≤ k → k < dLo + 1024 * (48 + 22) → chkG k = true :=
  allFrom_chunks _ _ _ _ _ gregC_chunks

theorem gregC_tail : allFrom (chkG) (dLo + 1024 * 70) 1004 = true := by decide +kernel

end Echse.Scale
