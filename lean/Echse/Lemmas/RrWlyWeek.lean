/-
  The week of `rrul_fill_wly`: `wlyEnum` as an instance of the generic ENUM loop, the nibble word `wd_incs`
  (`nibOk`, checked for all 128 weekday masks), and `wlyWeek` (the days of one week).
-/
import Echse.Lemmas.RrDlyLoop
namespace Echse.Lemmas.RrOkBase
open Echse.Rrule Echse.Instant Echse.Spec.RrOk

def wlySkip (c : WlyCtx) (nset nday : Nat) (ix : Nat × Nat × Nat) : Bool :=
  c.posp && !posMatchP c.r.pos
    ((((nday - 1) * c.e.H.length + ix.1) * c.e.M.length + ix.2.1) * c.e.S.length + ix.2.2 + 1) nset

theorem wlyEnum_eq (c : WlyCtx) (nset nday y m d : Nat) : ∀ (l : List Tix) (res : List Inst),
    wlyEnum c nset nday y m d l res = genEnum c.r c.proto c.nti (!bit c.mMask m) (wlySkip c nset nday) y m d l res := by
  intro l
  induction l with
  | nil => intro res; rfl
  | cons t rest ih =>
    obtain ⟨⟨iH, iM, iS⟩, h, mi, s⟩ := t
    intro res
    unfold wlyEnum genEnum
    simp only [ih, wlySkip]
    rfl

/-- the nibbles of `wd_incs`: the first one and all later ones add up to at most `b`, later ones are ≥ 1, and at most
`fuel` nibbles are in use -/
def nibOk : Nat → Nat → Nat → Bool
  | 0, _, _ => false
  | f+1, incs, b => decide (incs % 16 ≤ b) &&
      (incs / 16 == 0 || (decide (1 ≤ (incs / 16) % 16) && nibOk f (incs / 16) (b - incs % 16)))

theorem wdIncs_ok : ∀ w, w < 128 → nibOk 8 (wdIncsLoop 8 w 0 0 0) 6 = true := by decide

theorem nibOk_zero : nibOk 8 0 6 = true := by decide

theorem nibOk_succ {f incs b : Nat} (h : nibOk (f + 1) incs b = true) :
    incs % 16 ≤ b ∧ (incs / 16 ≠ 0 → 1 ≤ (incs / 16) % 16 ∧ nibOk f (incs / 16) (b - incs % 16) = true) := by
  unfold nibOk at h
  simp only [Bool.and_eq_true, Bool.or_eq_true, decide_eq_true_eq, beq_iff_eq] at h
  refine ⟨h.1, fun hne => ?_⟩
  rcases h.2 with h0 | h1
  · exact absurd h0 hne
  · exact h1

/-- one week: the days `d + s` (`s` the partial sums of the nibbles) of the week that starts at the real date `y-m-d`;
the week loop ends within its fuel, and keeps the accumulator sane under a condition `P` that makes the enumeration sane -/
theorem wlyWeek_spec (c : WlyCtx) (hp : WfInst c.proto) (P : Prop) (hP : P → EnumOk c.e) (nset : Nat) {y m d : Nat}
    (hv : VD y m d) (hy : y ≤ 13000000) :
    ∀ (fuel incs D ty tm td nday : Nat) (res : List Inst) (b : Nat),
      nibOk fuel incs b = true → D + b ≤ d + 6 → d ≤ D → Carry y m D ty tm td →
      (P → Acc c.r c.proto c.nti res ∧ Below res y m (D + incs % 16)) →
      ∃ res' fin, wlyWeek c nset fuel incs ty tm td (getNdom ty tm) nday res = some (res', fin) ∧
        (P → Acc c.r c.proto c.nti res' ∧ Below res' y m (d + 7)) ∧ (fin = false → y ≤ 2099) := by
  intro fuel
  induction fuel with
  | zero => intro incs D ty tm td nday res b h; simp [nibOk] at h
  | succ f ih =>
    intro incs D ty tm td nday res b hnib hDb hdD hc hab
    obtain ⟨hn1, hn2⟩ := nibOk_succ hnib
    have hd31 := hv.d31
    have hm12 := hv.2.1
    obtain ⟨hvt, hpot, -, hor⟩ := hc.props hv.1 hv.2.1 (by have := hv.2.2.1; omega)
    have ht31 := hvt.d31
    have htm := hvt.2.1
    unfold wlyWeek
    have e1 : (td + incs % 16) % u32 = td + incs % 16 := by unfold u32; omega
    simp only [e1]
    obtain ⟨y2, m2, d2, hcm, hc2⟩ := carryMon_spec (td + incs % 16 + 1) ty tm (td + incs % 16) hvt.1 hvt.2.1
      (by omega) (by unfold pot at hpot ⊢; omega)
    rw [hcm]
    simp only
    have hc3 := hc.comp (incs % 16) y2 m2 d2 hc2
    obtain ⟨hv2, -, -, hor2⟩ := hc3.props hv.1 hv.2.1 (by have := hv.2.2.1; omega)
    have hyy : y ≤ y2 := by
      have := hv.1; have := hv2.2.1
      rcases hor2 with ⟨e, _, _⟩ | ⟨_, h⟩ <;> omega
    by_cases c1 : y2 > wlyDlyMaxYear
    · rw [if_pos c1]
      exact ⟨res, true, rfl, fun he => ⟨(hab he).1, (hab he).2.mono (by omega)⟩, fun h => by cases h⟩
    · rw [if_neg c1]
      have hy99 : y2 ≤ 2099 := by unfold wlyDlyMaxYear at c1; omega
      generalize (if bit c.mMask m2 = true then nday + 1 else nday) = nday'
      rw [wlyEnum_eq]
      have hday := fun he : P =>
        day_step c.r c.proto c.nti (!bit c.mMask m2) (wlySkip c nset nday') hp (hP he) hc3 hv.1 hv.2.1
          (by have := hv.2.2.1; omega) hy99 (hab he).1 (hab he).2
      generalize genEnum c.r c.proto c.nti (!bit c.mMask m2) (wlySkip c nset nday') y2 m2 d2 c.e.timesIx res = out
        at hday ⊢
      obtain ⟨res1, fin1⟩ := out
      simp only at hday ⊢
      by_cases c2 : fin1 = true
      · rw [if_pos c2]
        exact ⟨res1, true, rfl, fun he => ⟨(hday he).1, (hday he).2.mono (by omega)⟩, fun h => by cases h⟩
      · rw [if_neg c2]
        by_cases c3 : incs / 16 ≠ 0 ∧ res1.length < c.nti
        · rw [if_pos c3]
          obtain ⟨hn3, hn4⟩ := hn2 c3.1
          exact ih (incs / 16) (D + incs % 16) y2 m2 d2 nday' res1 (b - incs % 16) hn4 (by omega) (by omega) hc3
            (fun he => ⟨(hday he).1, (hday he).2.mono (by omega)⟩)
        · rw [if_neg c3]
          exact ⟨res1, false, rfl, fun he => ⟨(hday he).1, (hday he).2.mono (by omega)⟩, fun _ => by omega⟩

end Echse.Lemmas.RrOkBase
