import Echse.Lemmas.Strpf2
namespace C18
open Echse.Instant Echse.Strpf Echse.Spec.Cal

/-! ### A. ISO form -/

theorem dtStrf_length_ms (i : Inst) (h : Normal i) : (dtStrf i).length = 23 := by
  obtain ⟨-, hH, -, -, hms⟩ := h
  rw [dtStrf_ms i (by simp only [allDay]; omega) (by simp only [allSec]; omega)]
  simp [spell_length, tpstr3]

/-- (a) millisecond resolution -/
theorem dt_roundtrip_ms (i : Inst) (hy : i.y ≤ 9999) (h : Normal i) :
    dtStrp (dtStrf i) 0 = some (i, (dtStrf i).length) ∧
    dtStrp (dtStrf i) (dtStrf i).length = some (i, (dtStrf i).length) := by
  rw [dtStrf_length_ms i h]
  obtain ⟨-, hH, -, -, hms⟩ := id h
  rw [dtStrf_ms i (by simp only [allDay]; omega) (by simp only [allSec]; omega)]
  obtain ⟨y, m, d, H, M, S, ms⟩ := i
  exact ⟨iso_ms_parse 0 (Or.inl rfl) y m d H M S ms hy h, iso_ms_parse 23 (Or.inr rfl) y m d H M S ms hy h⟩


theorem hne_sec {i : Inst} (h : NormalSec i) : i.H ≠ allDay := by
  have := h.2.1; simp only [allDay]; omega
theorem hne_ms {i : Inst} (h : Normal i) : i.H ≠ allDay := by
  have := h.2.1; simp only [allDay]; omega

/-- (b) second resolution -/
theorem dt_roundtrip_sec (i : Inst) (hy : i.y ≤ 9999) (h : NormalSec i) :
    dtStrp (dtStrf i) 0 = some (i, (dtStrf i).length) ∧
    dtStrp (dtStrf i) (dtStrf i).length = some (i, (dtStrf i).length) := by
  rw [dtStrf_sec i (hne_sec h) h.2.2.2.2, spell_length]
  obtain ⟨y, m, d, H, M, S, ms⟩ := i
  obtain rfl : ms = allSec := h.2.2.2.2
  exact ⟨spell_parse true true 'T' false y m d H M S 0 (Or.inl rfl) (Or.inl rfl) hy h,
         spell_parse true true 'T' false y m d H M S _ (Or.inr rfl) (Or.inl rfl) hy h⟩

/-- (c) all-day -/
theorem dt_roundtrip_day (i : Inst) (hy : i.y ≤ 9999) (h : NormalDay i)
    (hM : i.M = 0) (hS : i.S = 0) (hms : i.ms = 0) :
    dtStrp (dtStrf i) 0 = some (i, (dtStrf i).length) ∧
    dtStrp (dtStrf i) (dtStrf i).length = some (i, (dtStrf i).length) := by
  obtain ⟨y, m, d, H, M, S, ms⟩ := i
  obtain ⟨hv, rfl⟩ := h
  simp only at hM hS hms; subst hM hS hms
  rw [dtStrf_day _ rfl]
  have hl : (dayStr true ⟨y, m, d, allDay, 0, 0, 0⟩).length = 10 := by simp [dayStr, tpstr2, tpstr4]
  rw [hl]
  exact ⟨day_parse true 0 (Or.inl rfl) y m d hy hv, day_parse true 10 (Or.inr rfl) y m d hy hv⟩

/-! ### B. iCalendar form -/

/-- (b) second resolution: the trailing `Z` is consumed -/
theorem ical_roundtrip_sec (i : Inst) (hy : i.y ≤ 9999) (h : NormalSec i) :
    dtStrp (dtStrfIcal i) 0 = some (i, (dtStrfIcal i).length) ∧
    dtStrp (dtStrfIcal i) (dtStrfIcal i).length = some (i, (dtStrfIcal i).length) := by
  rw [dtStrfIcal_sec i (hne_sec h), spell_length]
  obtain ⟨y, m, d, H, M, S, ms⟩ := i
  obtain rfl : ms = allSec := h.2.2.2.2
  exact ⟨spell_parse false false 'T' true y m d H M S 0 (Or.inl rfl) (Or.inl rfl) hy h,
         spell_parse false false 'T' true y m d H M S _ (Or.inr rfl) (Or.inl rfl) hy h⟩

/-- (c) all-day -/
theorem ical_roundtrip_day (i : Inst) (hy : i.y ≤ 9999) (h : NormalDay i)
    (hM : i.M = 0) (hS : i.S = 0) (hms : i.ms = 0) :
    dtStrp (dtStrfIcal i) 0 = some (i, (dtStrfIcal i).length) ∧
    dtStrp (dtStrfIcal i) (dtStrfIcal i).length = some (i, (dtStrfIcal i).length) := by
  obtain ⟨y, m, d, H, M, S, ms⟩ := i
  obtain ⟨hv, rfl⟩ := h
  simp only at hM hS hms; subst hM hS hms
  rw [dtStrfIcal_day _ rfl]
  have hl : (dayStr false ⟨y, m, d, allDay, 0, 0, 0⟩).length = 8 := by simp [dayStr, tpstr2, tpstr4]
  rw [hl]
  exact ⟨day_parse false 0 (Or.inl rfl) y m d hy hv, day_parse false 8 (Or.inr rfl) y m d hy hv⟩

/-- (a) millisecond resolution: the iCalendar form has no milliseconds; the result has second
resolution. -/
theorem ical_roundtrip_ms (i : Inst) (hy : i.y ≤ 9999) (h : Normal i) :
    dtStrp (dtStrfIcal i) 0 = some ({ i with ms := allSec }, (dtStrfIcal i).length) ∧
    dtStrp (dtStrfIcal i) (dtStrfIcal i).length = some ({ i with ms := allSec }, (dtStrfIcal i).length) := by
  rw [dtStrfIcal_sec i (hne_ms h), spell_length]
  obtain ⟨y, m, d, H, M, S, ms⟩ := i
  have h' : NormalSec ⟨y, m, d, H, M, S, allSec⟩ := ⟨h.1, h.2.1, h.2.2.1, h.2.2.2.1, rfl⟩
  exact ⟨spell_parse false false 'T' true y m d H M S 0 (Or.inl rfl) (Or.inl rfl) hy h',
         spell_parse false false 'T' true y m d H M S _ (Or.inr rfl) (Or.inl rfl) hy h'⟩

/-! ### C. spellings -/

/-- every second-resolution spelling `YYYY-MM-DD` / `YYYYMMDD`, `T` or space, `HH:MM:SS` / `HHMMSS`,
with or without a final `Z`, parses to the instant, and the whole text is consumed. -/
theorem dt_spellings (dsep tsep : Bool) (sep : Char) (z : Bool) (i : Inst)
    (hsep : sep = 'T' ∨ sep = ' ') (hy : i.y ≤ 9999) (h : NormalSec i) :
    dtStrp (spell dsep tsep sep z i) 0 = some (i, (spell dsep tsep sep z i).length) ∧
    dtStrp (spell dsep tsep sep z i) (spell dsep tsep sep z i).length
      = some (i, (spell dsep tsep sep z i).length) := by
  rw [spell_length]
  obtain ⟨y, m, d, H, M, S, ms⟩ := i
  obtain rfl : ms = allSec := h.2.2.2.2
  exact ⟨spell_parse dsep tsep sep z y m d H M S 0 (Or.inl rfl) hsep hy h,
         spell_parse dsep tsep sep z y m d H M S _ (Or.inr rfl) hsep hy h⟩

end C18
