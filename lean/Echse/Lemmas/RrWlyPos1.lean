/-
  BYSETPOS for the weekly filler, part 1: the offsets of a week ascend; the date of an offset as a function; `nset` is the
  number of the week's days in a month of BYMONTH times the number of times; where a day's block lies in the week's list.
-/
import Echse.Lemmas.RrWlyRfc6
import Echse.Lemmas.RrRfcPos2
namespace Echse.Lemmas.RrRfc
open Echse.Rrule Echse.Instant Echse.Spec.RrOk Echse.Spec.Cal Echse.Spec.RuleExt Echse.Spec.Rfc
open Echse.Lemmas.RrOkBase

theorem offs_sorted : ∀ (f incs b D : Nat), nibOk f incs b = true → (offs f incs D).Pairwise (· < ·) := by
  intro f
  induction f with
  | zero => intro incs b D h; simp [nibOk] at h
  | succ f ih =>
    intro incs b D hnib
    obtain ⟨hn1, hn2⟩ := nibOk_succ hnib
    unfold offs
    refine List.pairwise_cons.2 ⟨?_, ?_⟩
    · intro b' hb'
      split at hb'
      · rename_i c0
        have := offs_ge _ _ _ _ hb'
        have := (hn2 c0).1
        omega
      · cases hb'
    · split
      · rename_i c0; exact ih _ _ _ (hn2 c0).2
      · exact List.Pairwise.nil

/-- the date of the day `D` counted from the start of the month `y-m` (at most one month on) -/
def dateOf (y m D : Nat) : Nat × Nat × Nat :=
  if D > getNdom y m then (nxY y m, nxM m, D - getNdom y m) else (y, m, D)

theorem carry_dateOf {y m D : Nat} (h1 : 1 ≤ m) (h2 : m ≤ 12) (hD : D ≤ getNdom y m + 28) :
    Carry y m D (dateOf y m D).1 (dateOf y m D).2.1 (dateOf y m D).2.2 := by
  unfold dateOf
  split
  · rename_i c
    have hn := nxM_range m h1 h2
    have hb := ndom_bounds (nxY y m) (nxM m) hn.1 hn.2
    exact Carry.step c (Carry.done (by omega))
  · exact Carry.done (by omega)

/-- `nset` before the multiplication -/
theorem nsetLoop_succ (c : WlyCtx) (m d maxd nxtM f incs k nset : Nat) :
    nsetLoop c m d maxd nxtM (f + 1) incs k nset =
      if incs / 16 ≠ 0 then
        nsetLoop c m d maxd nxtM f (incs / 16) ((k + incs % 16) % u32)
          (if bit c.mMask (if (d + (k + incs % 16) % u32) % u32 > maxd then nxtM else m) then nset + 1 else nset)
      else (if bit c.mMask (if (d + (k + incs % 16) % u32) % u32 > maxd then nxtM else m) then nset + 1 else nset) := rfl

theorem nsetLoop_eq (c : WlyCtx) (m d maxd nxtM : Nat) (hd : d ≤ 31) : ∀ (fuel incs k nset b : Nat),
    nibOk fuel incs b = true → k + b ≤ 6 →
    nsetLoop c m d maxd nxtM fuel incs k nset =
      nset + (offs fuel incs (d + k)).countP (fun D' => bit c.mMask (if D' > maxd then nxtM else m)) := by
  intro fuel
  induction fuel with
  | zero => intro incs k nset b h; simp [nibOk] at h
  | succ f ih =>
    intro incs k nset b hnib hkb
    obtain ⟨hn1, hn2⟩ := nibOk_succ hnib
    rw [nsetLoop_succ]
    unfold offs
    have e1 : (k + incs % 16) % u32 = k + incs % 16 := by unfold u32; omega
    have e2 : (d + (k + incs % 16)) % u32 = d + k + incs % 16 := by unfold u32; omega
    rw [e1, e2]
    rw [List.countP_cons]
    by_cases c0 : incs / 16 ≠ 0
    · rw [if_pos c0, if_pos c0, ih _ _ _ _ (hn2 c0).2 (by omega)]
      have e3 : d + (k + incs % 16) = d + k + incs % 16 := by omega
      rw [e3]
      cases bit c.mMask (if d + k + incs % 16 > maxd then nxtM else m) <;> simp <;> omega
    · rw [if_neg c0, if_neg c0]
      simp only [List.countP_nil]
      cases bit c.mMask (if d + k + incs % 16 > maxd then nxtM else m) <;> simp

/-- where the block of the day `a` lies in the list of the week: after the blocks of the selected days before it -/
theorem week_pos {β : Type} (l : List Nat) (hl : l.Pairwise (· < ·)) (q : Nat → Bool) (f : Nat → List β) (n : Nat)
    (hf : ∀ a, (f a).length = n) (a : Nat) (ha : a ∈ l) (hq : q a = true) (k : Nat) (hk : k < n) :
    ((l.filter q).flatMap f)[(l.countP (fun b => decide (b ≤ a) && q b) - 1) * n + k]? = (f a)[k]? := by
  obtain ⟨s, t, e⟩ := List.append_of_mem ha
  subst e
  obtain ⟨hs, ht, hst⟩ := List.pairwise_append.1 hl
  have hat := (List.pairwise_cons.1 ht).1
  have c1 : s.countP (fun b => decide (b ≤ a) && q b) = s.countP q := by
    apply List.countP_congr
    intro b hb
    have := hst b hb a List.mem_cons_self
    simp only [Bool.and_eq_true, decide_eq_true_eq]
    exact ⟨fun h => h.2, fun h => ⟨by omega, h⟩⟩
  have c2 : t.countP (fun b => decide (b ≤ a) && q b) = 0 := by
    rw [List.countP_eq_zero]
    intro b hb
    have := hat b hb
    simp only [Bool.and_eq_true, decide_eq_true_eq, not_and]
    intro h; omega
  rw [List.countP_append, List.countP_cons, c1, c2]
  simp only [Nat.le_refl, decide_true, hq, Bool.and_self, if_true, Nat.zero_add, Nat.add_sub_cancel]
  rw [List.filter_append, List.filter_cons, if_pos hq, List.flatMap_append, List.flatMap_cons]
  have hlen : ((s.filter q).flatMap f).length = s.countP q * n := by
    rw [flatMap_length_const _ f n (fun a _ => hf a), List.countP_eq_length_filter]
  rw [List.getElem?_append_right (by omega), hlen, Nat.add_sub_cancel_left,
    List.getElem?_append_left (by rw [hf]; exact hk)]

theorem week_len {β : Type} (l : List Nat) (q : Nat → Bool) (f : Nat → List β) (n : Nat) (hf : ∀ a, (f a).length = n) :
    ((l.filter q).flatMap f).length = l.countP q * n := by
  rw [flatMap_length_const _ f n (fun a _ => hf a), List.countP_eq_length_filter]

end Echse.Lemmas.RrRfc
