/-
  C05, rule text round trip — part 10: the serialised rule as a chain of parts (`tInter` … `tUntil` are the text
  from one part to the end); every such tail starts a new part (`Term`), and the tails behind BYDAY are walked
  through by the BYDAY loop without effect (`Skips`).
-/
import Echse.Lemmas.RrText9
namespace Echse.RrText
open Echse.Rrule Echse.Strpf Echse.Instant

def tUntil (r : Rule) : List Char := if r.untl.pack < 2^64 - 1 then ";UNTIL=".toList ++ dtStrfIcal r.untl else []
def tCount (r : Rule) (ccnt : Nat) : List Char :=
  (if r.count ≥ 0 then ";COUNT=".toList ++ fmtU ((r.count.toNat + ccnt) % 2^64) else []) ++ tUntil r
def tShift (r : Rule) (ccnt : Nat) : List Char := sendShift r.shift ++ tCount r ccnt
def tPos (r : Rule) (ccnt : Nat) : List Char := sendPart "BYPOS".toList fmtD r.pos ++ tShift r ccnt
def tS (r : Rule) (ccnt : Nat) : List Char := sendPart "BYSECOND".toList fmtU r.S ++ tPos r ccnt
def tM (r : Rule) (ccnt : Nat) : List Char := sendPart "BYMINUTE".toList fmtU r.M ++ tS r ccnt
def tH (r : Rule) (ccnt : Nat) : List Char := sendPart "BYHOUR".toList fmtU r.H ++ tM r ccnt
def tDow (r : Rule) (ccnt : Nat) : List Char := sendPart "BYDAY".toList sendCd r.dow ++ tH r ccnt
def tEaster (r : Rule) (ccnt : Nat) : List Char := sendPart "BYEASTER".toList fmtD r.easter ++ tDow r ccnt
def tDom (r : Rule) (ccnt : Nat) : List Char := sendPart "BYMONTHDAY".toList fmtD r.dom ++ tEaster r ccnt
def tDoy (r : Rule) (ccnt : Nat) : List Char := sendPart "BYYEARDAY".toList fmtD r.doy ++ tDom r ccnt
def tWk (r : Rule) (ccnt : Nat) : List Char := sendPart "BYWEEKNO".toList fmtD r.wk ++ tDoy r ccnt
def tMon (r : Rule) (ccnt : Nat) : List Char := sendPart "BYMONTH".toList fmtU r.mon ++ tWk r ccnt
def tScale (r : Rule) (ccnt : Nat) : List Char := sendScale r.scale ++ tMon r ccnt
def tInter (r : Rule) (ccnt : Nat) : List Char :=
  (if r.inter > 1 then ";INTERVAL=".toList ++ fmtU r.inter else []) ++ tScale r ccnt

/-- the rule text between `RRULE:` and the newline -/
def body (r : Rule) (ccnt : Nat) : List Char := "FREQ=".toList ++ freqName r.freq ++ tInter r ccnt

theorem sendRrulL_eq (r : Rule) (ccnt : Nat) (exc : Bool) :
    sendRrulL r ccnt exc = (if exc then "EXRULE:".toList else "RRULE:".toList) ++ (body r ccnt ++ ['\n']) := by
  unfold sendRrulL body tInter tScale tMon tWk tDoy tDom tEaster tDow tH tM tS tPos tShift tCount tUntil
  simp only [List.append_assoc]

/-! ### every tail starts a part -/

theorem isPart_str (s x : List Char) (h : s.head? = some ';') : IsPart (s ++ x) := by
  cases s with
  | nil => simp at h
  | cons c cs =>
    simp only [List.head?_cons, Option.some.injEq] at h
    subst h
    exact isPart_semi _

theorem isPart_sendScale (sca : Nat) : IsPart (sendScale sca) := by
  unfold sendScale
  exact isPart_ite (isPart_str _ _ (by decide)) isPart_nil

theorem isPart_sendShift (sh : Int) : IsPart (sendShift sh) := by
  unfold sendShift
  refine isPart_ite isPart_nil ?_
  rw [List.append_assoc]
  exact isPart_str _ _ (by decide)

theorem term_tUntil (r : Rule) : Term (tUntil r) := by
  have : IsPart (tUntil r) := isPart_ite (isPart_str _ _ (by decide)) isPart_nil
  simpa using this.term term_nil
theorem term_tCount (r : Rule) (c : Nat) : Term (tCount r c) :=
  (isPart_ite (isPart_str _ _ (by decide)) isPart_nil).term (term_tUntil r)
theorem term_tShift (r : Rule) (c : Nat) : Term (tShift r c) := (isPart_sendShift _).term (term_tCount r c)
theorem term_tPos (r : Rule) (c : Nat) : Term (tPos r c) := (isPart_sendPart _ _ _).term (term_tShift r c)
theorem term_tS (r : Rule) (c : Nat) : Term (tS r c) := (isPart_sendPart _ _ _).term (term_tPos r c)
theorem term_tM (r : Rule) (c : Nat) : Term (tM r c) := (isPart_sendPart _ _ _).term (term_tS r c)
theorem term_tH (r : Rule) (c : Nat) : Term (tH r c) := (isPart_sendPart _ _ _).term (term_tM r c)
theorem term_tDow (r : Rule) (c : Nat) : Term (tDow r c) := (isPart_sendPart _ _ _).term (term_tH r c)
theorem term_tEaster (r : Rule) (c : Nat) : Term (tEaster r c) := (isPart_sendPart _ _ _).term (term_tDow r c)
theorem term_tDom (r : Rule) (c : Nat) : Term (tDom r c) := (isPart_sendPart _ _ _).term (term_tEaster r c)
theorem term_tDoy (r : Rule) (c : Nat) : Term (tDoy r c) := (isPart_sendPart _ _ _).term (term_tDom r c)
theorem term_tWk (r : Rule) (c : Nat) : Term (tWk r c) := (isPart_sendPart _ _ _).term (term_tDoy r c)
theorem term_tMon (r : Rule) (c : Nat) : Term (tMon r c) := (isPart_sendPart _ _ _).term (term_tWk r c)
theorem term_tScale (r : Rule) (c : Nat) : Term (tScale r c) := (isPart_sendScale _).term (term_tMon r c)
theorem term_tInter (r : Rule) (c : Nat) : Term (tInter r c) :=
  (isPart_ite (isPart_str _ _ (by decide)) isPart_nil).term (term_tScale r c)

/-! ### the BYDAY loop walks through what follows BYDAY -/

theorem skips_tUntil (r : Rule) : Skips (tUntil r) := by
  unfold tUntil
  split
  · have := skips_avoid _ [] (avoid_append (by decide : Avoid ',' ";UNTIL=".toList)
      (avoid_ical ',' (by decide) (by decide) (by decide) r.untl)) skips_nil
    simpa using this
  · exact skips_nil

theorem skips_tCount (r : Rule) (c : Nat) : Skips (tCount r c) := by
  unfold tCount
  refine skips_avoid _ _ ?_ (skips_tUntil r)
  exact avoid_ite (avoid_append (by decide : Avoid ',' ";COUNT=".toList) (avoid_fmtU (by decide) _)) (avoid_nil _)

theorem skips_tShift (r : Rule) (c : Nat) : Skips (tShift r c) := skips_shift _ _ (skips_tCount r c)
theorem skips_tPos (r : Rule) (c : Nat) : Skips (tPos r c) :=
  skips_ipart _ _ _ (by decide) (term_tShift r c) (skips_tShift r c)
theorem skips_tS (r : Rule) (c : Nat) : Skips (tS r c) :=
  skips_upart _ _ _ (by decide) (term_tPos r c) (skips_tPos r c)
theorem skips_tM (r : Rule) (c : Nat) : Skips (tM r c) :=
  skips_upart _ _ _ (by decide) (term_tS r c) (skips_tS r c)
theorem skips_tH (r : Rule) (c : Nat) : Skips (tH r c) :=
  skips_upart _ _ _ (by decide) (term_tM r c) (skips_tM r c)

end Echse.RrText
