/-
  C01, sub-daily fillers: the seed as the fillers read it (`seedT`), the candidate as an instant, phases of the
  time-of-day search.
-/
import Echse.Lemmas.RrSubRfc3
namespace Echse.Lemmas.RrSubRfc
open Echse.Rrule Echse.Instant Echse.Spec.RrOk Echse.Lemmas.RrSubOk Echse.Spec.Rfc Echse.Spec.Cal Echse.Spec.RuleExt

/-- the candidate `y-m-d H:M:S` as an instant -/
def cand (p : Inst) (y m d H M S : Nat) : Inst := ⟨y, m, d, H, M, S, p.ms⟩

theorem cand_vt (p : Inst) (y m d H M S : Nat) (hy1 : 1901 ≤ y) (hy2 : y ≤ 2099) (hm1 : 1 ≤ m) (hm2 : m ≤ 12)
    (hd1 : 1 ≤ d) (hd2 : d ≤ getNdom y m) (hH : H < 24) (hM : M < 60) (hS : S < 60) :
    VT (cand p y m d H M S) ∧ absOf (cand p y m d H M S) = cabs y m d H M S := by
  have hv : VT (cand p y m d H M S) :=
    ⟨hm1, hm2, hd1, by show d ≤ monthLen y m; rw [← ndom_eq y m hy1 hy2 hm1 hm2]; exact hd2, hH, hM, hS,
      by show y < 65536; omega⟩
  exact ⟨hv, by rw [absOf_vt _ hv]; rfl⟩

theorem ctx_inter (r : Rule) (p : Inst) (k : Nat) (hr : WfRule r) : (mkSubCtx r p k).inter = r.inter := by
  have e : (mkSubCtx r p k).inter = r.inter % u32 := rfl
  rw [e]
  have := hr.inter
  simp only [u32]; omega

/-- instants of years up to 2099 lie before 2100 -/
theorem abs_lt_2100 (x : Inst) (hx : VT x) (hy : x.y ≤ 2099) : absOf x < days 2100 1 1 * 86400 := by
  rw [absOf_vt x hx]
  obtain ⟨a1, a2, a3, a4, aH, aM, aS, _⟩ := hx
  have := days_lt_2100 x.y x.m x.d hy a1 a2 a4
  omega

theorem phase_step (tmp ci n N : Nat) (hn : n ≠ 0) :
    ((tmp + ci) % N + (n - 1) * ci) % N = (tmp + n * ci) % N := by
  rw [Nat.mod_add_mod]
  congr 1
  have : n = (n - 1) + 1 := by omega
  rw [this, Nat.add_mul, Nat.one_mul]
  simp only [Nat.add_sub_cancel]
  omega

theorem phase_mod (a t i N : Nat) : (a + t * i) % N = (a + (t % N) * (i % N)) % N := by
  rw [Nat.add_mod a (t * i), Nat.mul_mod, ← Nat.add_mod]

/-- the seed as the sub-daily fillers read it: an all-day seed counts as 00:00:00 of its day -/
def seedT (p : Inst) : Inst := if p.H = allDay then { p with H := 0, M := 0, S := 0 } else p

theorem seedT_props (p : Inst) (hp : WfInst p) (hy : 1901 ≤ p.y) (hy2 : p.y ≤ 2099) :
    VT (seedT p) ∧ (seedT p).ms = p.ms ∧ (seedT p).y = p.y ∧ (seedT p).m = p.m ∧ (seedT p).d = p.d := by
  obtain ⟨_, ⟨hm1, hm2⟩, ⟨hd1, hd2⟩, ht, _⟩ := hp
  have hnd := ndom_eq p.y p.m hy hy2 hm1 hm2
  by_cases h : p.H = allDay
  · have e : seedT p = { p with H := 0, M := 0, S := 0 } := if_pos h
    rw [e]
    exact ⟨⟨hm1, hm2, hd1, by show p.d ≤ monthLen p.y p.m; omega, by show 0 < 24; omega, by show 0 < 60; omega,
      by show 0 < 60; omega, by show p.y < 65536; omega⟩, rfl, rfl, rfl, rfl⟩
  · have e : seedT p = p := if_neg h
    rw [e]
    rcases ht with ⟨h', _⟩ | ⟨h1, h2, h3⟩
    · exact absurd h' h
    · exact ⟨⟨hm1, hm2, hd1, by omega, h1, h2, h3, by omega⟩, rfl, rfl, rfl, rfl⟩

theorem seedT_time (p : Inst) (hp : WfInst p) :
    (seedT p).H < 24 ∧ (seedT p).M < 60 ∧ (seedT p).S < 60 ∧ (seedT p).ms = p.ms ∧ (seedT p).y = p.y ∧
    (seedT p).m = p.m ∧ (seedT p).d = p.d := by
  by_cases h : p.H = allDay
  · have e : seedT p = { p with H := 0, M := 0, S := 0 } := if_pos h
    rw [e]
    exact ⟨by show 0 < 24; omega, by show 0 < 60; omega, by show 0 < 60; omega, rfl, rfl, rfl, rfl⟩
  · have e : seedT p = p := if_neg h
    rw [e]
    rcases hp.time with ⟨h', _⟩ | ⟨h1, h2, h3⟩
    · exact absurd h' h
    · exact ⟨h1, h2, h3, rfl, rfl, rfl, rfl⟩

theorem absOf_timed (x : Inst) (hH : x.H < 24) :
    absOf x = days x.y x.m x.d * 86400 + (x.H : Int) * 3600 + (x.M : Int) * 60 + x.S := by
  have : x.H ≠ allDay := by simp only [allDay]; omega
  simp only [absOf, dayOf, secOf, if_neg this]
  omega

theorem absOf_seedT (p : Inst) (hp : WfInst p) :
    absOf (seedT p) = cabs p.y p.m p.d (seedT p).H (seedT p).M (seedT p).S := by
  obtain ⟨h1, _, _, _, e1, e2, e3⟩ := seedT_time p hp
  rw [absOf_timed _ h1, e1, e2, e3]; rfl

theorem seedT_timed (p : Inst) (hH : p.H ≠ allDay) : seedT p = p := if_neg hH

end Echse.Lemmas.RrSubRfc
