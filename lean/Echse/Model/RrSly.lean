/-
  Model of `rrul_fill_Sly` (src/evrrul.c:2358-2610, FREQ=SECONDLY).  Hand transcription, loop by loop; shares the mask
  set-up (`mkSubCtx`; the `make_enum` part of it is not used here), the day tests (`SubCtx.dayOut`), `doyHit`,
  `interPast`, `posPickAnyP` with the hourly filler (Echse.Model.RrHly) and the month carry `subCarry` with the minutely
  one (Echse.Model.RrMnly).  C `unsigned int` arithmetic that can wrap is written with explicit `% u32`.
  Tied to the C code by tools/rrfillprobe.py.  Results are accumulated in reverse; `cnt` is the C variable `res`.
-/
import Echse.Model.RrMnly
namespace Echse.Rrule
open Echse.Instant

/-- 2496-2507: `for (k = 0, tmp = (H * 60U + M) * 60U + S; !(H_mask & (1U << tmp / 3600U)) ||
!(M_mask & (1ULL << tmp / 60U % 60U)) || !(S_mask & (1ULL << tmp % 60U)); tmp = (tmp + rr->inter % 86400U) % 86400U)
if (++k >= 86400U) goto fin;`
`some true` = an allowed time of day is reachable, `some false` = `goto fin`.  Fuel: `k` grows by one per round and the
loop is left at `k = 86400`, so 86400 rounds suffice. -/
def slyReach (c : SubCtx) : Nat → Nat → Nat → Option Bool
  | 0, _, _ => none
  | fuel+1, k, tmp =>
    if (c.HMask &&& shl1 (tmp / 3600)) ≠ 0 ∧ (c.MMask &&& shl1q (tmp / 60 % 60)) ≠ 0 ∧
       (c.SMask &&& shl1q (tmp % 60)) ≠ 0 then some true
    else if k + 1 ≥ 86400 then some false
    else slyReach c fuel (k + 1) ((tmp + c.inter % 86400) % 86400)

/-- 2510-2607: the loop over the candidate seconds, `for (w = …, maxd = …, inc = rr->inter; res < nti;
({ if ((S += inc) >= 60U) { … } inc = rr->inter; }))`.  `inc` is `rr->inter` at the head of every round, so it is not
part of the state; the body says which `inc` its `continue` leaves behind.  There is no `x < proto` test and no ENUM
loop here: a candidate that passes the tests is written as it is.  `none` out of fuel (see `slyFuel`). -/
def slyLoop (c : SubCtx) :
    Nat → Nat → Nat → Nat → Nat → Nat → Nat → Nat → Nat → Nat → List Inst → Option (List Inst)
  | 0, _, _, _, _, _, _, _, _, _, _ => none
  | fuel+1, y, m, d, H, M, S, w, maxd, cnt, acc =>
    if ¬ cnt < c.nti then some acc else
    -- 2537-2555: the instant this candidate would produce; the year stop; UNTIL
    let x := mkInst y m d H M S c.proto.ms
    if y > subMaxYear then some acc                                          -- goto fin
    else if ltP c.r.untl x then some acc                                     -- goto fin
    else
    -- 2559-2606: the body proper, `(hit, inc)`; `hit` = bang: `tgt[res++] = x`
    -- inter_past(86400U - ((H * 60U + M) * 60U + S), rr->inter)
    let pastD := interPast ((86400 + u32 - ((H * 60 + M) * 60 + S) % u32) % u32) c.inter
    let (hit, inc) : Bool × Nat :=
      if c.dayOut w m d maxd then (false, pastD)                             -- weekday, month or day is filtered
      else if (c.HMask &&& shl1 H) = 0 then                                  -- hour is filtered
        (false, interPast ((3600 + u32 - (M * 60 + S) % u32) % u32) c.inter)
      else if (c.MMask &&& shl1q M) = 0 then                                 -- minute is filtered
        (false, interPast ((60 + u32 - S) % u32) c.inter)
      else if (c.SMask &&& shl1q S) = 0 then (false, c.inter)                -- second is filtered
      else if !c.r.doy.isEmpty && !doyHit c.r.doy (ymdGetYd y m d) (maxyOf y) then (false, pastD)
      else (true, c.inter)
    let cnt := if hit then cnt + 1 else cnt
    let acc := if hit then x :: acc else acc
    -- 2513-2536: the loop's increment expression
    let S := (S + inc) % u32
    if S ≥ 60 then
      let M := (M + S / 60) % u32
      let S := S % 60
      if M ≥ 60 then
        let H := (H + M / 60) % u32
        let M := M % 60
        if H ≥ 24 then
          let q := H / 24
          let w := wrapWd ((w + q) % u32)
          match subCarry ((d + q) % u32 + 1) y m ((d + q) % u32) maxd with
          | none => none
          | some (y, m, d, maxd) => slyLoop c fuel y m d (H % 24) M S w maxd cnt acc
        else slyLoop c fuel y m d H M S w maxd cnt acc
      else slyLoop c fuel y m d H M S w maxd cnt acc
    else slyLoop c fuel y m d H M S w maxd cnt acc

/-- fuel of `slyLoop` entered at year `y`.  `inc` is `rr->inter` or `inter_past(rem, rr->inter)`, a multiple of
`rr->inter ≥ 1` below `rem + rr->inter` (`rem ≤ 86400`, no wrap).  As long as `S + inc` does not wrap, a round moves the
candidate `y-m-d H:M:S` forward by `inc ≥ 1` seconds (the carries keep the second count), and a round entered with
`y > 2099` leaves the loop.  `S + inc` wraps only for `inc ≥ 2^32 - 63` (then `rr->inter > 86400 ≥ rem` and `inc` is
`rr->inter` in every round); then `S` shrinks by at least 1, the rest stays,
and after at most 63 such rounds in a row (`S` is a 6-bit field) the sum no longer wraps and the candidate leaps forward
by more than 2^32 - 64 seconds (136 years): a run of at most 64 rounds gains more than 64 seconds.  So there are at
most `(2100 - y) * 366 * 86400 + 65` rounds. -/
def slyFuel (y : Nat) : Nat := (2100 - y) * 31622400 + 300

/-- `rrul_fill_Sly(tgt, nti, rr)` with `*tgt = proto` -/
def fillSly (r : Rule) (proto : Inst) (nti : Nat) : Option (List Inst) :=
  let y := proto.y
  let m := proto.m
  let d := proto.d
  -- 2377-2381
  match capNti r nti with
  | none => some []
  | some nti =>
  -- 2382-2385
  if r.scale ≠ 0 then some [] else
  -- 2387-2392
  let (H, M, S) := if proto.H = allDay then (0, 0, 0) else (proto.H, proto.M, proto.S)
  let c := mkSubCtx r proto nti
  -- 2483-2489
  if y < 1600 ∨ m = 0 ∨ m > 12 ∨ d = 0 ∨ d > 31 then some [] else
  if r.inter % u32 = 0 then some [] else
  -- 2491-2494: a second's set is just one instant, the first and last
  if !posPickAnyP r.pos 1 then some [] else
  match slyReach c 86400 0 ((H * 60 + M) * 60 + S) with
  | none => none
  | some false => some []                                                    -- incongruent, nothing will ever match
  | some true =>
    (slyLoop c (slyFuel y) y m d H M S (ymdGetWday y m d) (getNdom y m) 0 []).map List.reverse

end Echse.Rrule
