/-
  Candidate builders of the YEARLY / MONTHLY filler models, continued: the counted weekdays (`ymcw_get_dom`,
  `ycw_get_yday`) and the every-day-of-the-year builder.
-/
import Echse.Lemmas.RrCandOk2
namespace Echse.Lemmas.RrCandOk
open Echse.Rrule Echse.Instant Echse.Spec.RrOk

theorem ymdGetWday_range (y m d : Nat) : 1 ≤ ymdGetWday y m d ∧ ymdGetWday y m d ≤ 7 := by
  unfold ymdGetWday; dsimp only; split <;> split <;> omega

theorem ndom_classes (y m : Nat) (hm : 1 ≤ m ∧ m ≤ 12) :
    (mdays m = 31 ∧ getNdom y m = 31) ∨ (mdays m = 30 ∧ getNdom y m = 30) ∨
    (mdays m = 28 ∧ getNdom y m = 28 ∧ y % 4 ≠ 0) ∨ (mdays m = 28 ∧ getNdom y m = 29 ∧ y % 4 = 0) := by
  have : m = 1 ∨ m = 2 ∨ m = 3 ∨ m = 4 ∨ m = 5 ∨ m = 6 ∨ m = 7 ∨ m = 8 ∨ m = 9 ∨ m = 10 ∨ m = 11 ∨ m = 12 := by omega
  unfold getNdom
  by_cases h : y % 4 = 0 <;>
  rcases this with rfl | rfl | rfl | rfl | rfl | rfl | rfl | rfl | rfl | rfl | rfl | rfl <;>
    simp [mdays, h]

/-- `__get_mcnt` in clean form: 4 or 5 (3 never), and when the weekday occurs once more than the whole weeks say -/
theorem getMcnt_cases (y m w wd1 nd : Nat) (hwd1 : ymdGetWday y m 1 = wd1) (hnd : getNdom y m = nd)
    (hr : 28 ≤ nd ∧ nd ≤ 31) :
    ∃ mx : Nat, toU32 (getMcnt y m w) = mx ∧ toS32 mx = (mx : Int) ∧
      ((mx = (nd - 1) / 7 + 1 ∧ (((if w = 7 then 0 else w) ≥ wd1 ∧ (if w = 7 then 0 else w) ≤ wd1 + (nd - 1) % 7) ∨
          (if w = 7 then 0 else w) + 7 ≤ wd1 + (nd - 1) % 7)) ∨
       (mx = (nd - 1) / 7 ∧ ¬ (((if w = 7 then 0 else w) ≥ wd1 ∧ (if w = 7 then 0 else w) ≤ wd1 + (nd - 1) % 7) ∨
          (if w = 7 then 0 else w) + 7 ≤ wd1 + (nd - 1) % 7))) := by
  have hu : u32 = 4294967296 := rfl
  unfold getMcnt
  dsimp only
  rw [hwd1, hnd]
  generalize (if w = 7 then 0 else w) = w0
  have e1 : (nd + u32 - 1) % u32 = nd - 1 := by rw [hu]; omega
  rw [e1]
  have e2 : ((nd - 1) / 7 + 1) % u32 = (nd - 1) / 7 + 1 := by rw [hu]; omega
  rw [e2]
  have e3 : ((nd - 1) / 7 + 1 + u32 - 1) % u32 = (nd - 1) / 7 := by rw [hu]; omega
  rw [e3]
  have e4 : ∀ n : Nat, n < 10 → toU32 (toS32 n) = n ∧ toS32 n = (n : Int) := by
    intro n hn; unfold toU32 toS32; simp only [hu]; split <;> omega
  by_cases hc : (w0 ≥ wd1 ∧ w0 ≤ wd1 + (nd - 1) % 7) ∨ w0 + 7 ≤ wd1 + (nd - 1) % 7
  · rw [if_pos hc]
    exact ⟨_, (e4 _ (by omega)).1, (e4 _ (by omega)).2, Or.inl ⟨rfl, hc⟩⟩
  · rw [if_neg hc]
    exact ⟨_, (e4 _ (by omega)).1, (e4 _ (by omega)).2, Or.inr ⟨rfl, hc⟩⟩

theorem ymcwGetDom_ok (y m : Nat) (c : Int) (w : Nat) (hm : 1 ≤ m ∧ m ≤ 12) (hc : -54 ≤ c ∧ c ≤ 53 ∧ c ≠ 0)
    (hw : 1 ≤ w ∧ w ≤ 7) : ymcwGetDom y m c w ≤ getNdom y m := by
  have hcl := ndom_classes y m hm
  have hwd := ymdGetWday_range y m 1
  obtain ⟨mx, h1, h2, h3⟩ := getMcnt_cases y m w _ _ rfl rfl (by omega)
  unfold ymcwGetDom
  dsimp only
  rw [h1, h2]
  generalize ymdGetWday y m 1 = wd1 at *
  generalize getNdom y m = nd at *
  generalize mdays m = mdm at *
  have hu : u32 = 4294967296 := rfl
  by_cases g1 : c > (mx : Int)
  · rw [if_pos g1]; omega
  rw [if_neg g1]
  have e1 : (if c < 0 then toS32 (toU32 c + mx + 1) else c) = (if c < 0 then c + mx + 1 else c) := by
    split
    · unfold toS32 toU32; simp only [hu]; split <;> omega
    · rfl
  rw [e1]
  generalize hc' : (if c < 0 then c + mx + 1 else c) = c'
  by_cases g2 : c < 0 ∧ c' ≤ 0
  · rw [if_pos g2]; omega
  rw [if_neg g2]
  have hc1 : 1 ≤ c' ∧ c' ≤ mx := by split at hc' <;> omega
  have e2 : toU32 (c' - 1) = (c' - 1).toNat := by unfold toU32; rw [hu]; omega
  rw [e2]
  have e3 : (w + 7 + u32 - wd1) % u32 % 7 = (w + 7 - wd1) % 7 := by rw [hu]; omega
  rw [e3]
  have e4 : (1 + (w + 7 - wd1) % 7 + (c' - 1).toNat * 7) % u32 = 1 + (w + 7 - wd1) % 7 + (c' - 1).toNat * 7 := by
    rw [hu]; omega
  rw [e4]
  generalize ht : 1 + (w + 7 - wd1) % 7 + (c' - 1).toNat * 7 = tgtd
  have e5 : tgtd > mdm → (tgtd + u32 - 7) % u32 = tgtd - 7 := by intro _; rw [hu]; omega
  split
  · split
    · omega
    · rw [e5 (by assumption)]
      split at h3 <;> omega
  · split at h3 <;> omega

theorem fillMlyYmcw_ok (cand : List Nat) (y m : Nat) (dow : List Int) (hc : AllVC y cand) (hm : 1 ≤ m ∧ m ≤ 12)
    (hdow : ∀ t ∈ dow, -431 ≤ t ∧ t ≤ 431 ∧ t % 8 ≠ 0) : AllVC y (fillMlyYmcw cand y m dow) := by
  unfold fillMlyYmcw
  refine foldl_inv (AllVC y) _ dow cand hc ?_
  intro b t ht hb
  have := hdow t ht
  unfold unpackCd
  dsimp only
  split
  · exact hb
  rename_i hcnt
  split
  · exact hb
  rename_i hdom
  have h := ymcwGetDom_ok y m (t / 8) (t % 8).toNat hm (by omega) (by omega)
  exact hb.assC (VC_pack y m _ hm (by omega))

theorem fillYlyYmcw_ok (cand : List Nat) (y : Nat) (dow : List Int) (ms : List Nat) (hc : AllVC y cand)
    (hms : ∀ m ∈ ms, 1 ≤ m ∧ m ≤ 12) (hdow : ∀ t ∈ dow, -431 ≤ t ∧ t ≤ 431 ∧ t % 8 ≠ 0) :
    AllVC y (fillYlyYmcw cand y dow ms) := by
  unfold fillYlyYmcw
  exact foldl_inv (AllVC y) _ ms cand hc (fun b m hm hb => fillMlyYmcw_ok b y m dow hb (hms m hm) hdow)
theorem leapN_le (y : Nat) : leapN y ≤ 1 := by unfold leapN; split <;> omega

theorem toS32_small (n : Nat) (h : n < 2147483648) : toS32 n = (n : Int) := by
  unfold toS32; have hu : u32 = 4294967296 := rfl; rw [hu]; split <;> omega

theorem toS32_big (n : Nat) (h : 2147483648 ≤ n) (h' : n < 4294967296) : toS32 n = (n : Int) - 4294967296 := by
  unfold toS32; have hu : u32 = 4294967296 := rfl; rw [hu]; split <;> omega

theorem ycwGetYday_ok (y : Nat) (c : Int) (w : Nat) (hc : -54 ≤ c ∧ c ≤ 53) (hw : 1 ≤ w ∧ w ≤ 7) :
    ycwGetYday y c w = 0 ∨
      (-366 ≤ toS32 (ycwGetYday y c w) ∧ toS32 (ycwGetYday y c w) ≤ 365 + (leapN y : Int)) := by
  have hwd := ymdGetWday_range y 1 1
  have hl := leapN_le y
  have hu : u32 = 4294967296 := rfl
  unfold ycwGetYday
  dsimp only
  generalize ymdGetWday y 1 1 = j at *
  have hd : (if j ≤ w then w - j else (7 + w + u32 - j) % u32) ≤ 6 := by rw [hu]; split <;> omega
  generalize (if j ≤ w then w - j else (7 + w + u32 - j) % u32) = diff at hd
  have hl2 : y % 4 = 0 → leapN y = 1 := by intro h; unfold leapN; rw [if_pos h]
  generalize leapN y = lp at *
  by_cases g1 : c > 0
  · rw [if_pos g1]
    have e1 : (toU32 (c - 1) * 7 + diff + 1) % u32 = (c - 1).toNat * 7 + diff + 1 := by
      unfold toU32; rw [hu]; omega
    rw [e1]
    split
    · exact Or.inl rfl
    · right; rw [toS32_small _ (by omega)]; omega
  rw [if_neg g1]
  by_cases g2 : c < 0
  · rw [if_pos g2]
    rcases (by omega : c = -54 ∨ -53 ≤ c) with rfl | hc53
    · have e0 : toU32 (53 + -54) = 4294967295 := by decide
      rw [e0]
      rcases (by omega : diff = 6 ∨ diff ≤ 5) with rfl | hd5
      · have e1 : (4294967295 * 7 + 6 + 1) % u32 = 0 := by decide
        rw [e1]
        split
        · omega
        split
        · omega
        · exact Or.inl rfl
      · have e1 : (4294967295 * 7 + diff + 1) % u32 = 4294967290 + diff := by rw [hu]; omega
        rw [e1]
        split
        · right; rw [toS32_big _ (by omega) (by omega)]; omega
        split
        · right; rw [toS32_big _ (by omega) (by omega)]; omega
        split
        · exact Or.inl rfl
        · right; rw [toS32_big _ (by omega) (by omega)]; omega
    · have e1 : (toU32 (53 + c) * 7 + diff + 1) % u32 = (53 + c).toNat * 7 + diff + 1 := by
        unfold toU32; rw [hu]; omega
      rw [e1]
      split
      · right; rw [toS32_small _ (by omega)]; omega
      split
      · right; rw [toS32_small _ (by omega)]; omega
      split
      · exact Or.inl rfl
      · right; rw [toS32_small _ (by omega)]; omega
  · rw [if_neg g2]; exact Or.inl rfl

theorem fillYlyYcw_ok (cand : List Nat) (y : Nat) (dow : List Int) (hc : AllVC y cand)
    (hdow : ∀ t ∈ dow, -431 ≤ t ∧ t ≤ 431 ∧ t % 8 ≠ 0) : AllVC y (fillYlyYcw cand y dow) := by
  unfold fillYlyYcw
  refine foldl_inv (AllVC y) _ dow cand hc ?_
  intro b t ht hb
  have := hdow t ht
  unfold unpackCd
  dsimp only
  split
  · exact hb
  split
  · exact hb
  rename_i hyd
  split
  · exact hb
  rename_i hm
  rcases ycwGetYday_ok y (t / 8) (t % 8).toNat (by omega) (by omega) with h | h
  · exact absurd h hyd
  · exact hb.assC (okMd_VC y _ (ydToMd_ok y _ h.1 h.2) hm)
/-- days of the year before month `m` -/
def cumD (y m : Nat) : Nat :=
  [0, 0, 31, 59, 90, 120, 151, 181, 212, 243, 273, 304, 334].getD m 0 + (if y % 4 = 0 ∧ m ≥ 3 then 1 else 0)

/-- `md` is the real date that is day `i + 1` of year `y` -/
def IsYd (y i : Nat) (md : Md) : Prop :=
  1 ≤ md.m ∧ md.m ≤ 12 ∧ 1 ≤ md.d ∧ md.d ≤ getNdom y md.m ∧ cumD y md.m + md.d = i + 1

theorem incMd_step (y i : Nat) (md : Md) (h : IsYd y i md) (hi : i + 1 < 365 + leapN y) : IsYd y (i + 1) (incMd md y) := by
  obtain ⟨m, d⟩ := md
  unfold IsYd at *
  dsimp only at h
  have hm : m = 1 ∨ m = 2 ∨ m = 3 ∨ m = 4 ∨ m = 5 ∨ m = 6 ∨ m = 7 ∨ m = 8 ∨ m = 9 ∨ m = 10 ∨ m = 11 ∨ m = 12 := by omega
  unfold incMd
  dsimp only
  unfold leapN at hi
  by_cases hl : y % 4 = 0 <;>
  rcases hm with rfl | rfl | rfl | rfl | rfl | rfl | rfl | rfl | rfl | rfl | rfl | rfl <;>
  simp [getNdom, mdays, cumD, hl] at h hi ⊢ <;>
  (split <;> simp <;> omega)

theorem fillYlyYdAll_ok (cand : List Nat) (y : Nat) (wdMask : Nat) (hc : AllVC y cand) :
    AllVC y (fillYlyYdAll cand y wdMask) := by
  unfold fillYlyYdAll
  split
  · exact hc
  dsimp only
  have hn : (if y % 4 ≠ 0 then 365 else 366) = 365 + leapN y := by unfold leapN; split <;> simp_all
  rw [hn]
  -- the step ignores the index: any list of that length would do
  have key : ∀ (l : List Nat) (c : List Nat) (w i : Nat) (md : Md), AllVC y c → i + l.length ≤ 365 + leapN y →
      (l = [] ∨ IsYd y i md) →
      AllVC y (l.foldl (fun (st : List Nat × Nat × Md) _ =>
        let (c, w, md) := st
        ((if bit wdMask w then assC c (packCand md.m md.d) else c), incWd w, incMd md y))
        (c, w, md)).1 := by
    intro l
    induction l with
    | nil => intro c w i md hc _ _; exact hc
    | cons a l ih =>
      intro c w i md hc hlen hmd
      rw [List.foldl_cons]
      dsimp only
      have hI : IsYd y i md := by
        rcases hmd with h | h
        · cases h
        · exact h
      have hlen' : i + 1 + l.length ≤ 365 + leapN y := by simp only [List.length_cons] at hlen; omega
      refine ih _ _ (i + 1) _ ?_ hlen' ?_
      · split
        · exact AllVC.assC hc (VC_pack y md.m md.d ⟨hI.1, hI.2.1⟩ ⟨hI.2.2.1, hI.2.2.2.1⟩)
        · exact hc
      · cases l with
        | nil => exact Or.inl rfl
        | cons b l =>
          right
          exact incMd_step y i md hI (by simp only [List.length_cons] at hlen'; omega)
  refine key _ _ _ 0 _ hc (by simp) (Or.inr ?_)
  unfold IsYd cumD getNdom
  simp [mdays]

end Echse.Lemmas.RrCandOk
