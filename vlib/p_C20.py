"""C20 — instant and event sorting is a stable ordering permutation.

Implementation: echs_instant_sort / echs_event_sort through harness hx_cal (events are tagged with
their input index, which makes stability observable).  Oracle: Python's stable sort by the
chronological key.  Correspondence: Echse.Model.Sort (transcription for n < 1024, specification
sort above — see the model's header).
"""
import os

from . import common
from .common import hex16
from . import p_C08


def build(ctx):
    return p_C08.build(ctx)


def gen_array(rng, n):
    """instants with many ties, all kinds mixed"""
    mode = rng.choice(["random", "fewkeys", "sorted", "reversed", "sawtooth", "nearly", "twokeys", "allsame", "runs", "plateaus"])
    if mode in ("runs", "plateaus"):
        # a few runs over a few keys, each ascending, descending or constant; plateaus: constant runs of falling keys (the
        # ranges of a merge level then are in reverse order and all of one value)
        k = rng.choice([1, 2, 2, 3, 4, 5, 8, 16])
        keys = sorted({p_C08.rand_inst(rng) for _ in range(k + 3)}, key=p_C08.okey)[:k]
        nruns = rng.choice([2, 2, 3, 4, 8, rng.randint(2, 40)])
        cuts = [n * j // nruns for j in range(1, nruns)] if rng.random() < 0.5 or n < 2 * nruns else sorted(rng.sample(range(1, n), nruns - 1))
        xs, prev = [], 0
        down = sorted(keys, key=p_C08.okey, reverse=True)
        for j, c in enumerate(cuts + [n]):
            if mode == "plateaus":
                seg = [down[min(j, len(down) - 1)]] * (c - prev)
            else:
                seg = [rng.choice(keys) for _ in range(c - prev)]
                z = rng.random()
                if z < 0.45:
                    seg.sort(key=p_C08.okey)
                elif z < 0.7:
                    seg.sort(key=p_C08.okey, reverse=True)
                elif z < 0.85:
                    seg = [rng.choice(keys)] * len(seg)
            xs += seg
            prev = c
        return mode, xs
    base = [p_C08.rand_inst(rng) for _ in range(max(1, {"fewkeys": 5, "twokeys": 2, "allsame": 1}.get(mode, max(1, n // rng.choice([1, 2, 8])))))]
    xs = [rng.choice(base) for _ in range(n)]
    if mode == "fewkeys" and rng.random() < 0.5:
        # same day, different kinds: all-day < timed, all-second < ms of the same second
        d = base[0]
        base = [d[:3] + (255, 0, 0, 0), d[:3] + (0, 0, 0, 1023), d[:3] + (0, 0, 0, 0), d[:3] + (0, 0, 0, 1),
                d[:3] + (23, 59, 59, 999)]
        xs = [rng.choice(base) for _ in range(n)]
    key = p_C08.okey
    if mode == "sorted":
        xs.sort(key=key)
    elif mode == "reversed":
        xs.sort(key=key, reverse=True)
    elif mode == "sawtooth":
        k = max(1, n // 7)
        xs = sum((sorted(xs[i:i + k], key=key) for i in range(0, n, k)), [])
    elif mode == "nearly":
        xs.sort(key=key)
        for _ in range(max(1, n // 20)):
            i, j = rng.randrange(n), rng.randrange(n)
            xs[i], xs[j] = xs[j], xs[i]
    return mode, xs


def run(ctx):
    exe = build(ctx)
    rng = ctx.rng
    thorough = ctx.tier == "thorough"
    lens = list(range(0, 70)) + [127, 128, 129, 255, 256, 257, 511, 512, 513, 767, 1023, 1024, 1025, 1535, 2047, 2048, 2049,
                                 3000, 4095, 4096]
    reps = 12 if thorough else 3
    if thorough:
        lens += list(range(70, 1100, 7)) + list(range(1100, 4096, 97))
    cases = []
    for n in lens:
        for _ in range(reps if n > 2 else 1):
            mode, xs = gen_array(rng, n)
            cases.append((mode, xs))
    # the in-place block merge changes behaviour with the number of distinct keys (size of the internal buffers) and with
    # the block size reaching the 512-element cache: few-key arrays at lengths around 1024 / 2048 / 3072 / 4096
    edge_lens = list(range(1022, 1028)) + list(range(2040, 2050)) + list(range(3062, 3074)) + list(range(4086, 4097))
    if not thorough:
        edge_lens = [n for n in edge_lens if n % 2 == 0 or n in (1023, 1025, 2047, 3071, 4095)]
    for n in edge_lens:
        for k in (1, 2, 3, 4, 5, 8) if thorough else (2, 3, 4):
            base = sorted({p_C08.rand_inst(rng) for _ in range(k + 3)}, key=p_C08.okey)[:k]
            if rng.random() < 0.5 and k >= 2:
                d = base[0]
                base[:2] = [d[:3] + (255, 0, 0, 0), d[:3] + (10, 0, 0, 1023)]
            xs = [rng.choice(base) for _ in range(n)]
            cases.append(("edge-%dkeys" % k, xs))
    for n in ([1024, 1025, 1536, 2048, 2049, 3000, 4096, 5000] if not thorough else list(range(1024, 1040)) + list(range(2040, 2056)) + [3000, 4096, 5000, 6001]):
        for _ in range(4 if thorough else 2):
            for forced in ("runs", "plateaus"):
                while True:
                    mode, xs = gen_array(rng, n)
                    if mode == forced:
                        break
                cases.append((mode, xs))
    ops, chk = [], []
    for mode, xs in cases:
        h = " ".join(hex16(*t) for t in xs)
        for op in ("q.isort", "q.esort"):
            ops.append((op + " " + h).strip())
            chk.append((op, xs, mode))
    for l in common.load_corpus("C20"):
        ops.append(l); chk.append(None)
    impl, st, err = ctx.impl(exe, ops)
    model = ctx.model(ops)
    fails = []
    hist = {}
    for i, c in enumerate(chk):
        if c is None:
            continue
        op, xs, mode = c
        hist[mode] = hist.get(mode, 0) + 1
        ans = impl[i] if i < len(impl) else "<no answer>"
        if op == "q.isort":
            want = " ".join(hex16(*t) for t in sorted(xs, key=p_C08.okey))
            why = "instants are not returned as the chronologically ordered permutation of the input"
        else:
            order = sorted(range(len(xs)), key=lambda k: p_C08.okey(xs[k]))      # Python's sort is stable
            want = " ".join("%s:%d" % (hex16(*xs[k]), k) for k in order)
            why = "events are not returned in stable chronological order"
        if ans != want:
            got = ans.split()
            w = want.split()
            first = next((j for j in range(min(len(got), len(w))) if got[j] != w[j]), min(len(got), len(w)))
            fails.append((i, "%s, n=%d (%s input): %s; first difference at position %d" % (op, len(xs), mode, why, first)))
    # beyond 512 * 512 elements the block size outgrows the 512-element cache and the two internal buffers of the in-place
    # merge come into play (MergeInternal, the search for 2 * sqrt(n) distinct keys): arrays too long for an op line are
    # generated inside the harness from a seed; judged against Python's stable sort only (no model above 1023 elements)
    big = []
    for n in ([262145, 300000, 524289, 700001] if thorough else [262145, 300001]):
        for k in ([1, 2, 3, 600, 1100, 5000, n] if thorough else [2, 1100, n]):
            big.append((n, rng.getrandbits(32), k, rng.choice([0, 0, 1, 2, 3])))
    # the top level of 600001 elements merges ranges of 300000: blocks of 547 > 512, the internal buffers are in use
    big += [(600001, rng.getrandbits(32), 600001, 0), (600001, rng.getrandbits(32), 1500, 0), (600001, rng.getrandbits(32), 700, 3)]
    bops = ["q.gsort %d %d %d %d" % b for b in big]
    bimpl, bst, berr = ctx.impl(exe, bops, timeout=1800)
    for j, (n, seed, k, mode) in enumerate(big):
        s, kis = seed, []
        for i in range(n):
            s = (s * 6364136223846793005 + 1442695040888963407) & 0xFFFFFFFFFFFFFFFF
            kis.append({0: (s >> 33) % k, 1: i * k // n, 2: k - 1 - i * k // n, 3: (i % 1000) * k // 1000}[mode])
        want = sorted(range(n), key=kis.__getitem__)
        ans = bimpl[j] if j < len(bimpl) else "<no answer>"
        hist["generated-%d" % mode] = hist.get("generated-%d" % mode, 0) + 1
        if ans.startswith("<") or [int(x) for x in ans.split()] != want:
            fails.append((len(ops) + j, "q.gsort n=%d keys=%d mode=%d: events are not returned in stable chronological order (%s)"
                          % (n, k, mode, ans[:60])))
    corr = common.diff_lines(ops, impl, model)
    ctx.cov.update({
        "evaluations": len(ops) + len(bops),
        "generated_long_arrays": ["n=%d keys=%d mode=%d" % (b[0], b[2], b[3]) for b in big],
        "distinct_nontrivial": len({o for o, c in zip(ops, chk) if c and len(c[1]) >= 2}),
        "traces_validated_against_impl": len(ops) - len(corr),
        "rule": "array lengths 0..69 and around 128/256/512/1024/2048/4096 (thorough: also every 7th length to 1100 and "
                "every 97th to 4096), several arrays per length in the modes random / few keys (incl. all-day, all-second "
                "and ms instants of one day) / sorted / reversed / sawtooth / nearly sorted / two keys / all equal; each "
                "array is sorted as instants and as index-tagged events (stability observable). non-trivial = length >= 2; "
                "distinct = distinct op lines",
        "samples": [(ops[i][:120] + " …  =>  " + (impl[i][:80] if i < len(impl) else "?")) for i in
                    sorted(rng.sample(range(len(ops)), min(5, len(ops))))],
        "modes": hist,
        "harness_status": st,
        "impl_vs_spec_failures": len(fails),
        "impl_vs_model_differences": len(corr),
        "model_transcribed_for_lengths_below": 1024,
        "exhaustive": False,
    })
    ctx.assumptions += ["for n >= 1024 the Lean model is the specification sort, not a transcription of the in-place branch"]
    if st != "ok" and not fails and not corr:
        ctx.violation("correspondence", "harness ended with %s: %s" % (st, err[-600:]), {"stderr": err}, found_input=False)
    if fails:
        i, why = fails[0]
        ctx.violation("property", why, {"op": ops[i], "impl": impl[i] if i < len(impl) else None, "model": model[i],
                                        "failures_total": len(fails)})
    elif corr:
        i, op, a, b = corr[0]
        ctx.violation("correspondence", "implementation and model differ on %d ops; first: n=%d" % (len(corr), len(op.split()) - 1),
                      {"correspondence": "Echse.Model.Sort vs wikisort.c", "op": op, "impl": a, "model": b},
                      found_input=False)


def replay(ctx, rep):
    exe = build(ctx)
    op = rep["data"].get("op")
    if not op:
        print("replay names no input: %s" % rep.get("what"))
        return 1
    out, st, _ = ctx.impl(exe, [op])
    m = ctx.model([op])[0]
    print("op: %s…\nimpl==model(spec): %s\nwas: %s" % (op[:100], bool(out) and out[0] == m, rep.get("what")))
    return 0 if (out and out[0] == m) else 1
