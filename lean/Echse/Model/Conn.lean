/-
  Model of echsd's pool of connection slots (src/echsd.c: `free_conns`, `make_conn`, `free_conn`): a 64-bit map, a set
  bit means the slot is free; `make_conn` takes the lowest free slot, looking at the two 32-bit halves with ffs(3).
  Tied to the C code by the `N` operation of harness/hx_echsd.c.
-/
namespace Echse.Conn

/-- ffs(3) scanning `n` bits from position `i`: 1-based position of the lowest set bit, 0 if there is none -/
def ffsAux : Nat → Nat → Nat → Nat
  | 0, _, _ => 0
  | n+1, i, x => if x % 2 = 1 then i + 1 else ffsAux n (i + 1) (x / 2)

/-- `ffs((int)x)` for a 32-bit `x` -/
def ffs32 (x : Nat) : Nat := ffsAux 32 0 (x % 2^32)

/-- all 64 slots free: `static uint64_t free_conns = -1` -/
def allFree : Nat := 2^64 - 1

/-- `make_conn()`: the slot handed out (`none`: too many concurrent connections) and the map afterwards -/
def makeConn (free : Nat) : Option Nat × Nat :=
  let lo := ffs32 (free % 2^32)
  let i := if lo ≠ 0 then lo else
    let hi := ffs32 (free / 2^32 % 2^32)
    if hi ≠ 0 then hi + 32 else 0          -- slots of the upper half count from 32
  if i > 0 then (some (i - 1), free ^^^ (1 <<< (i - 1))) else (none, free)

/-- `free_conn(c)` for slot `i`: out-of-range slots are refused, otherwise the bit is toggled -/
def freeConn (free i : Nat) : Nat := if i ≥ 64 then free else free ^^^ (1 <<< i)

end Echse.Conn
