"""C08 — instant arithmetic and epoch conversions agree with the calendar.

Correspondence: harness/hx_cal.c (library objects from the working tree) vs Echse.Model.Instant.
Oracle: Python's proleptic Gregorian `datetime.date.toordinal` applied to the implementation's answers.
"""
import datetime
import os

from . import common
from .common import hex16, unhex16

MSD = 86400000
LO, HI = 1901, 2099
EPOCH_ORD = datetime.date(1970, 1, 1).toordinal()


def mdays(y, m):
    return [0, 31, 29 if (y % 4 == 0 and (y % 100 != 0 or y % 400 == 0)) else 28, 31, 30, 31, 30, 31, 31, 30, 31, 30, 31][m]


def absms(t):
    """milliseconds on the proleptic Gregorian calendar of a normal instant (all-day: midnight; all-sec: ms 0)."""
    y, m, d, H, M, S, ms = t
    o = datetime.date(y, m, d).toordinal()
    if H == 255:
        return o * MSD
    return o * MSD + ((H * 60 + M) * 60 + S) * 1000 + (0 if ms == 1023 else ms)


def normal(t):
    y, m, d, H, M, S, ms = t
    if not (1 <= m <= 12 and 1 <= y <= 9999 and 1 <= d <= mdays(y, m)):
        return False
    if H == 255:
        return True
    return H < 24 and M < 60 and S < 60 and (ms < 1000 or ms == 1023)


def kind(t):
    return "day" if t[3] == 255 else "sec" if t[6] == 1023 else "ms"


def from_abs(a, k):
    o, r = divmod(a, MSD)
    dt = datetime.date.fromordinal(o)
    if k == "day":
        return (dt.year, dt.month, dt.day, 255, 0, 0, 0)
    H, r = divmod(r, 3600000)
    M, r = divmod(r, 60000)
    S, ms = divmod(r, 1000)
    return (dt.year, dt.month, dt.day, H, M, S, 1023 if k == "sec" else ms)


def rand_inst(rng, k=None, ylo=LO, yhi=HI):
    y = rng.randint(ylo, yhi)
    m = rng.randint(1, 12)
    r = rng.random()
    if r < 0.35:
        d = rng.choice([1, 28, mdays(y, m), max(1, mdays(y, m) - 1)])
    else:
        d = rng.randint(1, mdays(y, m))
    if rng.random() < 0.15:
        y = rng.choice([yy for yy in range(ylo, yhi + 1) if yy % 4 == 0] or [y])
        m, d = rng.choice([(2, 28), (2, 29), (3, 1), (12, 31), (1, 1)])
    k = k or rng.choice(["ms", "ms", "sec", "day"])
    if k == "day":
        return (y, m, d, 255, 0, 0, 0)
    if rng.random() < 0.3:
        H, M, S = rng.choice([(0, 0, 0), (23, 59, 59), (12, 0, 0), (23, 59, 0), (0, 0, 59)])
    else:
        H, M, S = rng.randint(0, 23), rng.randint(0, 59), rng.randint(0, 59)
    ms = 1023 if k == "sec" else rng.choice([0, 999, rng.randint(0, 999)])
    return (y, m, d, H, M, S, ms)


def in_range(a):
    return datetime.date(LO, 1, 1).toordinal() * MSD <= a < datetime.date(HI + 1, 1, 1).toordinal() * MSD


def gen(ctx):
    rng = ctx.rng
    thorough = ctx.tier == "thorough"
    cases = []   # (op line, checker, tags)
    n = 150000 if thorough else 12000

    # --- add / diff pairs
    for _ in range(n):
        a = rand_inst(rng)
        k = kind(a)
        r = rng.random()
        if r < 0.4:
            b = rand_inst(rng, k)
        else:
            span = rng.choice([1, 2, 27, 28, 29, 30, 31, 32, 59, 60, 365, 366, 400, 1461, 40000])
            delta = rng.randint(-span, span) * MSD + (0 if k == "day" else rng.randint(-MSD, MSD))
            if k == "sec":
                delta -= delta % 1000
            x = absms(a) + delta
            if not in_range(x):
                continue
            b = from_abs(x, k)
        cases.append(("i.diff %s %s" % (hex16(*a), hex16(*b)), ("diff", a, b)))
        delta = absms(a) - absms(b)
        cases.append(("i.add %s %d" % (hex16(*b), delta), ("add", b, delta)))
        if rng.random() < 0.3:
            cases.append(("i.add %s %d" % (hex16(*a), -delta), ("add", a, -delta)))
        if rng.random() < 0.12:
            # instants of two kinds (a DTSTART with milliseconds and a DTEND without, a date and a time): elapsed time all the same
            c = rand_inst(rng, rng.choice([x for x in ("ms", "sec", "day") if x != k]), max(LO, a[0] - 1), min(HI, a[0] + 1))
            if normal(c):
                cases.append(("i.diff %s %s" % (hex16(*a), hex16(*c)), ("diff", a, c)))
    # --- exhaustive day level in thorough: every day of the range, +-1 day and month/year hops
    if thorough:
        o0 = datetime.date(LO, 1, 1).toordinal()
        o1 = datetime.date(HI, 12, 31).toordinal()
        for o in range(o0, o1 + 1):
            dt = datetime.date.fromordinal(o)
            a = (dt.year, dt.month, dt.day, 12, 30, 15, 500)
            for dd in (1, -1, 31, -31, 366, -366):
                if o0 <= o + dd <= o1:
                    cases.append(("i.add %s %d" % (hex16(*a), dd * MSD), ("add", a, dd * MSD)))
            b = from_abs((o0 + (o * 7919) % (o1 - o0)) * MSD + 3600000, "ms")
            cases.append(("i.diff %s %s" % (hex16(*a), hex16(*b)), ("diff", a, b)))
    # --- fixup of overflowed instants
    for _ in range(n // 3):
        y, m, d, H, M, S, ms = rand_inst(rng, "ms", LO, HI - 2)
        r = rng.random()
        if r < 0.25:
            d = rng.randint(1, 245)
        elif r < 0.5:
            H = rng.randint(0, 250)
        elif r < 0.65:
            m = rng.randint(1, 36)
        elif r < 0.8:
            M, S = rng.randint(0, 254), rng.randint(0, 62)
        else:
            d, H, M, S, m = rng.randint(1, 245), rng.randint(0, 250), rng.randint(0, 254), rng.randint(0, 62), rng.randint(1, 24)
        if rng.random() < 0.2:
            ms = rng.randint(1000, 1022)
        k = rng.random()
        if k < 0.1:
            H, M, S, ms = 255, 0, 0, 0
        elif k < 0.2:
            ms = 1023
        t = (y, m, d, H, M, S, ms)
        cases.append(("i.fixup %s" % hex16(*t), ("fixup", t)))
    # --- ordering
    for _ in range(n // 3):
        a = rand_inst(rng)
        r = rng.random()
        if r < 0.3:
            b = a[:3] + rand_inst(rng)[3:]          # same day, other time/kind
        elif r < 0.45:
            b = a[:6] + (rng.choice([0, 1, 999, 1023]),)
        elif r < 0.55:
            b = a
        else:
            b = rand_inst(rng)
        cases.append(("i.lt %s %s" % (hex16(*a), hex16(*b)), ("lt", a, b)))
        cases.append(("i.le %s %s" % (hex16(*a), hex16(*b)), ("le", a, b)))
    # --- epoch conversions (library both directions, daemon timestamp)
    for _ in range(n // 2):
        a = rand_inst(rng, rng.choice(["sec", "ms"]), rng.choice([LO, 1970, 1970]), HI)     # (before 1970 the unix time is negative)
        cases.append(("i.toepoch %s" % hex16(*a), ("toepoch", a)))
        t = (absms(a) - EPOCH_ORD * MSD) // 1000
        cases.append(("i.frepoch %d" % t, ("frepoch", t)))
        # the daemon's wake-up time: any DTSTART there is, of long ago (1902..2000) as well as beyond 2099
        b = rand_inst(rng, None, *rng.choice([(1902, 2000), (1902, HI), (2001, HI), (2090, 2400)]))
        try:
            datetime.date(*b[:3])
        except ValueError:
            b = b[:2] + (28,) + b[3:]       # (2100, 2200, 2300 have no leap day)
        cases.append(("i.tstamp %s" % hex16(*b), ("tstamp", b)))
    # the two conversions on a day as such (recorded difference, class allday-epoch)
    for _ in range(6):
        a = rand_inst(rng, "day", 1970, HI)
        cases.append(("i.toepoch %s" % hex16(*a), ("toepoch_day", a)))
    if thorough:
        for o in range(datetime.date(LO, 1, 1).toordinal(), datetime.date(HI, 12, 31).toordinal() + 1):
            dt = datetime.date.fromordinal(o)
            a = (dt.year, dt.month, dt.day, 23, 59, 59, 1023)
            cases.append(("i.toepoch %s" % hex16(*a), ("toepoch", a)))
            cases.append(("i.frepoch %d" % ((o - EPOCH_ORD) * 86400 + 86399), ("frepoch", (o - EPOCH_ORD) * 86400 + 86399)))
            cases.append(("i.tstamp %s" % hex16(*a), ("tstamp", a)))
        for o in range(datetime.date(1902, 1, 1).toordinal(), EPOCH_ORD, 3):
            dt = datetime.date.fromordinal(o)
            cases.append(("i.tstamp %s" % hex16(dt.year, dt.month, dt.day, 12, 0, 0, 1023), ("tstamp", (dt.year, dt.month, dt.day, 12, 0, 0, 1023))))
        for o in range(datetime.date(2100, 1, 1).toordinal(), datetime.date(2400, 12, 31).toordinal(), 5):
            dt = datetime.date.fromordinal(o)
            cases.append(("i.tstamp %s" % hex16(dt.year, dt.month, dt.day, 255, 0, 0, 0), ("tstamp", (dt.year, dt.month, dt.day, 255, 0, 0, 0))))
    return cases


def overflow_abs(t):
    """the point in time an overflowed instant denotes (fields counted on from the first of month y-m)."""
    y, m, d, H, M, S, ms = t
    y, m = y + (m - 1) // 12, (m - 1) % 12 + 1
    o = datetime.date(y, m, 1).toordinal() + d - 1
    if H == 255:
        return o * MSD, "day"
    if ms == 1023:
        return o * MSD + ((H * 60 + M) * 60 + S) * 1000, "sec"
    return o * MSD + ((H * 60 + M) * 60 + S) * 1000 + ms, "ms"


def okey(t):
    y, m, d, H, M, S, ms = t
    return (y, m, d, (H + 1) % 256, M, S, (ms + 1) % 1024)


def spec(chk, ans):
    """(ok, why) — does the implementation's answer satisfy the property on this case?"""
    what = chk[0]
    try:
        if what == "diff":
            _, a, b = chk
            want = absms(a) - absms(b)
            return int(ans) == want, "difference is %s, calendar says %d" % (ans, want)
        if what == "add":
            _, b, delta = chk
            r = unhex16(ans)
            want = from_abs(absms(b) + delta, kind(b))
            return r == want, "sum is %s, calendar says %s" % (r, want)
        if what == "fixup":
            _, t = chk
            a, k = overflow_abs(t)
            want = from_abs(a, k)
            r = unhex16(ans)
            return r == want, "normalised to %s, calendar says %s" % (r, want)
        if what in ("lt", "le"):
            _, a, b = chk
            want = okey(a) < okey(b) if what == "lt" else okey(a) <= okey(b)
            return ans == ("1" if want else "0"), "%s says %s, chronological order says %d" % (what, ans, want)
        if what == "toepoch":
            _, a = chk
            want = (absms(a) - EPOCH_ORD * MSD) // 1000
            return int(ans) == want, "epoch %s, calendar says %d" % (ans, want)
        if what == "toepoch_day":
            _, a = chk
            want = (absms(a) - EPOCH_ORD * MSD) // 1000       # the day's beginning, what the daemon's conversion gives
            if int(ans) == want + 86400:
                return "known:allday-epoch", ""
            return int(ans) == want, "epoch %s of the all-day instant, the day begins at %d" % (ans, want)
        if what == "frepoch":
            _, t = chk
            want = from_abs(EPOCH_ORD * MSD + t * 1000, "sec")
            r = unhex16(ans)
            return r == want, "instant %s, calendar says %s" % (r, want)
        if what == "tstamp":
            _, a = chk
            want = (absms(a) - EPOCH_ORD * MSD) // 1000
            return int(ans) == want, "wake-up timestamp %s, calendar says %d" % (ans, want)
    except Exception as e:  # unparsable answer
        return False, "unusable answer %r (%s)" % (ans, e)
    return True, ""


def chk_of_line(l):
    """rebuild the oracle's view of a corpus / replay line (None when it is outside the domain)."""
    w = l.split()
    try:
        if w[0] in ("i.diff", "i.lt", "i.le"):
            a, b = unhex16(w[1]), unhex16(w[2])
            if normal(a) and normal(b) and (w[0] != "i.diff" or kind(a) == kind(b)):
                return (w[0][2:], a, b)
        elif w[0] == "i.add":
            b = unhex16(w[1])
            if normal(b):
                return ("add", b, int(w[2]))
        elif w[0] == "i.fixup":
            return ("fixup", unhex16(w[1]))
        elif w[0] in ("i.toepoch", "i.tstamp"):
            a = unhex16(w[1])
            if normal(a):
                return (w[0][2:], a)
        elif w[0] == "i.frepoch":
            return ("frepoch", int(w[1]))
    except Exception:
        pass
    return None


def build(ctx):
    fn = common.extract_c_function(os.path.join(ctx.src, "echsd.c"), "instant_to_tstamp")
    with open(os.path.join(ctx.scratch, "x_instant_to_tstamp.c"), "w") as f:
        f.write(fn)
    objs, log = ctx.lib_objects()
    if objs is None:
        raise common.Broken("library does not compile: " + log[-1500:])
    exe, log = ctx.cc("hx_cal", [os.path.join(common.HARNESS, "hx_cal.c")] + objs, inc=[ctx.scratch])
    if exe is None:
        raise common.Broken("harness hx_cal does not compile against the working tree:\n" + log[-1500:])
    return exe


def tag(chk):
    what = chk[0]
    if what in ("diff", "lt", "le"):
        return what + ":" + kind(chk[1]) + "/" + kind(chk[2])
    if what == "add":
        d = chk[2]
        return "add:" + kind(chk[1]) + (":neg" if d < 0 else ":pos") + (":big" if abs(d) > 400 * MSD else "")
    return what


def run(ctx):
    exe = build(ctx)
    cases = []
    for l in common.load_corpus("C08"):
        cases.append((l, chk_of_line(l)))
    cases += gen(ctx)
    lines = [c[0] for c in cases]
    impl, status, err = ctx.impl(exe, lines)
    model = ctx.model(lines)
    fails = []
    hist = {}
    seen_known = set()
    for i, (l, chk) in enumerate(cases):
        if chk is None:
            continue
        hist[tag(chk)] = hist.get(tag(chk), 0) + 1
        ans = impl[i] if i < len(impl) else "<no answer: %s>" % status
        ok, why = spec(chk, ans)
        if ok == "known:allday-epoch":
            seen_known.add("allday-epoch")
        elif not ok:
            fails.append((i, why))
    for k in common.load_known("C08"):
        if k.get("status") == "known" and k.get("class") in seen_known:
            ctx.known(k["what"]); seen_known.discard(k.get("class"))
    if seen_known and not fails:
        i0 = next(i for i, (l, c) in enumerate(cases) if c and c[0] == "toepoch_day")
        fails.append((i0, "the library takes an all-day instant for the end of its day, the daemon for its beginning (not a recorded finding)"))
    corr = common.diff_lines(lines, impl, model)
    ctx.cov.update({
        "evaluations": len(lines),
        "distinct_nontrivial": len(set(lines)),
        "traces_validated_against_impl": len(lines) - len(corr),
        "rule": "normal instants 1901-2099 (35% on month ends, 15% on leap-day/year-end anchors; ms / all-second / "
                "all-day kinds); pairs either independent or a chosen span apart (1..40000 days plus a random "
                "intraday part); diff(a,b), add(b, a-b), add(a, b-a); overflowed instants for fixup (day<=245, "
                "hour<=250, month<=36, ...); ordering pairs (same day / same second / equal / independent); "
                "epoch conversions 1901-2099 (negative unix times before 1970) and daemon timestamps 1902-2400; thorough adds every day of the "
                "range.  Every generated case is in the property's domain and counts as non-trivial; distinct = distinct op lines",
        "samples": [lines[i] + "  =>  " + (impl[i] if i < len(impl) else "?") for i in
                    sorted(ctx.rng.sample(range(len(lines)), min(8, len(lines))))],
        "histogram": hist,
        "harness_status": status,
        "impl_vs_spec_failures": len(fails),
        "impl_vs_model_differences": len(corr),
        "exhaustive": False,
    })
    ctx.assumptions += [
        "instants carry no scale / time-zone bits (callers detach them first)",
        "epoch conversions are exercised from 1970-01-01 on, the daemon timestamp from 2001 on (its documented range)",
        "oracle: Python datetime.date ordinals (proleptic Gregorian calendar)",
    ]
    if status != "ok" and not fails and not corr:
        ctx.violation("correspondence", "harness ended with %s: %s" % (status, err[-400:]),
                      {"status": status, "stderr": err}, found_input=False)
    if fails:
        i, why = fails[0]
        ctx.violation("property", "%s: %s" % (lines[i], why),
                      {"op": lines[i], "impl": impl[i] if i < len(impl) else None, "model": model[i],
                       "failures_total": len(fails),
                       "more": [lines[j] for j, _ in fails[1:6]]})
    elif corr:
        i, op, a, b = corr[0]
        ctx.violation("correspondence",
                      "implementation and model differ on %d ops, none contradicts the calendar; first: %s impl=%s model=%s"
                      % (len(corr), op, a, b),
                      {"correspondence": "Echse.Model.Instant vs instant.c/tzob.c/echsd.c", "op": op, "impl": a,
                       "model": b, "n": len(corr)}, found_input=False)


def replay(ctx, rep):
    exe = build(ctx)
    op = rep["data"].get("op")
    if not op:
        print("replay names no input: %s" % rep.get("what"))
        return 1
    out, st, _ = ctx.impl(exe, [op])
    print("op: %s\nimpl: %s\nmodel: %s" % (op, out[0] if out else st, ctx.model([op])[0]))
    chk = chk_of_line(op)
    if chk is not None:
        ok, why = spec(chk, out[0] if out else "")
        print("verdict: %s %s" % ("holds" if ok else "FAILS", "" if ok else why))
        return 0 if ok else 1
    print("was: %s" % rep.get("what"))
    return 1 if (out and out[0] == rep["data"].get("impl")) else 0
