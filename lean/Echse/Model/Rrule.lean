/-
  Model of the calendar helpers of src/evrrul.c and of echse's own rule extensions:
  `mdays` / `__get_ndom`, `ymd_get_wday` (Sakamoto), `yd_to_md` (Freundt), `easter_get_yday`,
  `pack_cand` / `unpack_cand`, `md_match_p`, `fill_yly_eastr` (BYEASTER), `clr_poss` (BYSETPOS),
  `shift` (SHIFT, day and business-day part) and of `snarf_shift` in src/evical.c (SHIFT text -> packed value).

  Candidate sets (`bitint383_t cand`) are modelled by the list their iterator yields: property C19 shows
  that iterating a bitint yields the set of assigned values, non-negative ones ascending, then negative ones
  descending.  Candidates are packed month/day pairs 1..383, so a candidate set is a strictly ascending list and
  `ass_bi383` is an ordered insert.  Rule parts (`easter`, `pos`, `dom`, `mon`) are given as their iteration lists.
  C `unsigned int` arithmetic that can wrap is written with explicit `% 2^32`.
  Hand transcription; tied to the C code by vlib/p_C17.py (function-level harness hx_rrul).
-/
namespace Echse.Rrule

def u32 : Nat := 4294967296

def mdays (m : Nat) : Nat := [0, 31, 28, 31, 30, 31, 30, 31, 31, 30, 31, 30, 31].getD m 0

/-- `__get_ndom` -/
def getNdom (y m : Nat) : Nat := mdays m + (if y % 4 = 0 ∧ m = 2 then 1 else 0)

/-- `ymd_get_wday`: Monday = 1 … Sunday = 7 -/
def ymdGetWday (y m d : Nat) : Nat :=
  let t := [0, 3, 2, 5, 0, 3, 5, 1, 4, 6, 2, 4]
  let y := if m < 3 then (y + u32 - 1) % u32 else y
  let res := (y + y / 4 + (u32 - y / 100) + y / 400 + t.getD (m - 1) 0 + d) % u32
  if res % 7 = 0 then 7 else res % 7

structure Md where
  m : Nat
  d : Nat
deriving Repr, DecidableEq

/-- `yd_to_md` (Freundt's algorithm); `doy` is a C `int` -/
def ydToMd (y : Nat) (doy : Int) : Md :=
  let rem := [19, 19, 18, 14, 13, 11, 10, 8, 7, 6, 4, 3, 1, 0]
  let leap := y % 4 = 0
  let doy : Int := if doy < 0 then doy + 366 + (if leap then 1 else 0) else doy
  -- (doy + 19) / 32U : the int is converted to unsigned
  let t : Nat := ((doy + 19) % (u32 : Int)).toNat
  let m := t / 32
  let d := t % 32
  let beef := rem.getD m 0
  let cake := rem.getD (m + 1) 0
  let (beef, cake) := if leap ∧ cake < 16 then (beef + (if beef < 16 then 1 else 0), cake + 1) else (beef, cake)
  if d ≤ cake then
    ⟨m, ((doy - (((m : Int) - 1) * 32 - 19 + beef)) % (u32 : Int)).toNat⟩
  else
    ⟨m + 1, ((doy - ((m : Int) * 32 - 19 + cake)) % (u32 : Int)).toNat⟩

/-- `easter_get_yday` -/
def easterGetYday (y : Nat) : Nat :=
  let a := y % 19
  let b := y / 4
  let c := b / 25 + 1
  let d := 3 * c / 4
  let e := (19 * a + (u32 - (8 * c + 5) / 25) + d + 15) % u32
  let e := e % 30
  let e := (e + ((29578 + 2 * u32 - a - 32 * e) % u32) / 1024) % u32
  let e := (e + u32 - ((y % 7 + b + (u32 - d) + e + 2) % u32) % 7) % u32
  (e + 59 + (if y % 4 = 0 then 1 else 0)) % u32

def packCand (m d : Nat) : Nat := ((m + u32 - 1) % u32 * 32 + d) % u32
def unpackCand (c : Nat) : Md := ⟨c / 32 + 1, c % 32⟩

/-- ordered insert without duplicates: `ass_bi383` on a set of positive values, seen through its iterator -/
def assC : List Nat → Nat → List Nat
  | [], x => [x]
  | v :: vs, x => if x < v then x :: v :: vs else if x = v then v :: vs else v :: assC vs x

/-- `md_match_p(md, m, d)`: BYMONTH / BYMONTHDAY as a filter (`mon`, `dom`: the values present) -/
def mdMatchP (md : Md) (mon : List Nat) (dom : List Int) : Bool :=
  let mp := !mon.isEmpty
  let dp := !dom.isEmpty
  if !mp && !dp then true
  else if mp && dp then mon.contains md.m && dom.contains (md.d : Int)
  else if mp then mon.contains md.m
  else dom.contains (md.d : Int)

/-- `fill_yly_eastr`: candidates `offs` days after Easter Sunday of year `y`, limited by weekday mask, months, days -/
def fillYlyEastr (cand : List Nat) (y : Nat) (offs : List Int) (mon : List Nat) (dom : List Int) (wdMask : Nat) : List Nat :=
  offs.foldl (fun cand o =>
    let wdOk : Bool :=
      if wdMask >>> 1 ≠ 0 then
        if o ≥ 0 then (wdMask >>> (o.toNat % 7)) % 2 = 1
        else (wdMask >>> (7 - ((-o).toNat % 7))) % 2 = 1
      else true
    if !wdOk then cand else
    let yd0 := easterGetYday y
    if yd0 = 0 then cand else
    let yd : Nat := ((yd0 : Int) + o).toNat % u32   -- unsigned sum; a negative sum wraps to a huge value
    let yd : Nat := if (yd0 : Int) + o < 0 then (((yd0 : Int) + o) % (u32 : Int)).toNat else yd
    if yd = 0 ∨ yd > 365 + (if y % 4 = 0 then 1 else 0) then cand else
    let md := ydToMd y yd
    if md.m = 0 then cand
    else if !mdMatchP md mon dom then cand
    else assC cand (packCand md.m md.d)) cand

/-- `clr_poss`: keep the candidates at the (1-based, negative = from the end) positions in `poss`, which is
iterated non-negative values ascending, then negative values descending -/
def clrPoss (cand : List Nat) (poss : List Int) : List Nat :=
  if poss.isEmpty then cand else
  let nbits : Int := cand.length
  -- state: result, ci (index of the candidate iterator), prev
  let step := fun (st : List Nat × Nat × Int) (pos0 : Int) =>
    let (res, ci, prev) := st
    let pos : Int := if pos0 < 0 then nbits + pos0 + 1 else pos0
    if pos ≤ 0 ∨ pos > nbits then (res, ci, prev) else      -- no such position: iterator and `prev` stay
    let (ci, prev) := if prev > pos then (0, (0 : Int)) else (ci, prev)
    -- advance the iterator by (pos - prev) steps, as far as it goes; c = last value read (0 if none / exhausted)
    let n : Nat := (pos - prev).toNat
    let avail := cand.length - ci
    let (c, ci') : Nat × Nat :=
      if n = 0 then (0, ci)
      else if n ≤ avail then (cand.getD (ci + n - 1) 0, ci + n)
      else (0, 0)                       -- iterator ran off the end: it yields 0 and resets
    let res := if c > 0 then assC res c else res
    (res, ci', pos)                     -- `prev = pos` in the loop's increment
  (poss.foldl step ([], 0, 0)).1

/-! ### SHIFT -/

/-- fields of the packed `echs_shift_t` (a C int) -/
def shDvalue (sh : Int) : Int := sh / 65536               -- `sh >> 16`, arithmetic
def shLow (sh : Int) : Nat := (sh % 65536).toNat           -- `sh & 0xffff`
def shBdayP (sh : Int) : Bool := shLow sh ≠ 0
def shNegP (sh : Int) : Bool := shLow sh % 2 = 1
def shInvP (sh : Int) : Bool := (shLow sh / 2) % 2 = 1
def shAbsval (sh : Int) : Nat := shLow sh / 4
def shBvalue (sh : Int) : Int := if shNegP sh then -(shAbsval sh : Int) else shAbsval sh

/-- the `reassess` loop: bring day-of-month `d` (an int) into the month, carrying months and years -/
def reassess : Nat → Int → Int → Int → Int × Int × Int
  | 0, y, m, d => (y, m, d)
  | fuel+1, y, m, d =>
    if d ≤ 0 then
      let (m, y) := if m - 1 ≤ 0 then (m - 1 + 12, y - 1) else (m - 1, y)
      reassess fuel y m (d + getNdom y.toNat m.toNat)
    else if d > getNdom y.toNat m.toNat then
      let d := d - getNdom y.toNat m.toNat
      let (m, y) := if m + 1 > 12 then (m + 1 - 12, y + 1) else (m + 1, y)
      reassess fuel y m d
    else (y, m, d)

/-- which of the three sets a result year belongs to: 0 same year, 1 an earlier year, 2 a later year -/
def bucket (y : Nat) (ny : Int) : Nat := if ny = y then 0 else if ny > y then 2 else 1

structure Cand3 where
  same : List Nat := []
  prev : List Nat := []
  next : List Nat := []
deriving Repr, DecidableEq

def Cand3.ass (c : Cand3) (k : Nat) (x : Nat) : Cand3 :=
  if k = 0 then { c with same := assC c.same x } else if k = 1 then { c with prev := assC c.prev x }
  else { c with next := assC c.next x }

def Cand3.get (c : Cand3) (k : Nat) : List Nat := if k = 0 then c.same else if k = 1 then c.prev else c.next

/-- fuel for `reassess`: every round moves by a whole month -/
def reassessFuel (d : Int) : Nat := d.natAbs / 28 + 3

/-- day part of `shift()`: only the same-year set is read -/
def shiftDays (cand : Cand3) (y : Nat) (d : Int) : Cand3 :=
  cand.same.foldl (fun res c =>
    let md := unpackCand c
    let (ny, nm, nd) := reassess (reassessFuel ((md.d : Int) + d)) y md.m ((md.d : Int) + d)
    res.ass (bucket y ny) (packCand nm.toNat nd.toNat)) {}

/-- C `%` and `/` on ints truncate towards zero -/
def tdiv (a b : Int) : Int := Int.tdiv a b
def tmod (a b : Int) : Int := Int.tmod a b

/-- business-day displacement of one date: returns the new day-of-month as an int (to be `reassess`ed) -/
def bdayMove (w0 : Nat) (d0 : Int) (sh : Int) : Int :=
  let b := shBvalue sh
  let bnz : Int := if b ≠ 0 ∧ !shInvP sh then 1 else 0
  let (d, w, nb) : Int × Nat × Int :=
    if w0 ≥ 6 then
      if !shNegP sh then (d0 + (8 - (w0 : Int)), 1, b - bnz)
      else (d0 - ((w0 : Int) - 5), 5, b + bnz)
    else (d0, w0, b)
  -- unsigned arithmetic: (w + 384 + nu_b) with nu_b converted to unsigned
  let u5 := (((w : Int) + 35839 + nb) % (u32 : Int)).toNat % 5
  let nb := tdiv nb 5 * 7 + tmod nb 5
  let u7 := (((w : Int) + 35839 + nb) % (u32 : Int)).toNat % 7
  let d := d + nb
  -- `nu_d += u5 - u7` : unsigned difference added to an int (two's complement)
  let d := d + ((u5 : Int) - (u7 : Int))
  d + (if nb > 0 ∧ u5 < u7 then 7 else 0)

/-- business-day part of `shift()`: all three sets are read, each with its own year -/
def shiftBdays (cand : Cand3) (y : Nat) (sh : Int) : Cand3 :=
  [0, 1, 2].foldl (fun res k =>
    (cand.get k).foldl (fun res c =>
      let md := unpackCand c
      let cy : Int := (y : Int) - (if k = 1 then 1 else 0) + (if k = 2 then 1 else 0)
      let w := ymdGetWday cy.toNat md.m md.d
      let d := bdayMove w md.d sh
      let (ny, nm, nd) := reassess (reassessFuel d) cy md.m d
      res.ass (bucket y ny) (packCand nm.toNat nd.toNat)) res) {}

/-- `shift(cand, y, sh)` -/
def shift (cand : Cand3) (y : Nat) (sh : Int) : Cand3 :=
  if sh = 0 then cand else
  let cand := if shDvalue sh ≠ 0 then shiftDays cand y (shDvalue sh) else cand
  if shBdayP sh then shiftBdays cand y sh else cand

/-! ### `snarf_shift` (src/evical.c): SHIFT text to packed value -/

/-- C `int` values as 32-bit two's complement words -/
def toU32 (z : Int) : Nat := (z % (u32 : Int)).toNat
def toS32 (n : Nat) : Int := if n % u32 ≥ 2147483648 then (n % u32 : Nat) - (u32 : Int) else (n % u32 : Nat)
/-- `a ^ b` on C ints -/
def xor32 (a b : Int) : Int := toS32 (toU32 a ^^^ toU32 b)

/-- `strtol(s, &on, 10)` on a byte string: optional sign, digits; returns value, whether a minus sign was
read, and the rest.  No digits: value 0 and the rest is the whole input (sign not consumed). -/
def strtol (s0 : List Char) : Int × List Char :=
  let s := s0.dropWhile fun c => c = ' ' ∨ c = '\t' ∨ c = '\n' ∨ c = '\r' ∨ c.toNat = 11 ∨ c.toNat = 12
  let (neg, r) := match s with
    | '-' :: r => (true, r)
    | '+' :: r => (false, r)
    | r => (false, r)
  let ds := r.takeWhile Char.isDigit
  if ds.isEmpty then (0, s0) else
  let v : Nat := ds.foldl (fun a c => a * 10 + (c.toNat - 48)) 0
  ((if neg then -(v : Int) else v), r.drop ds.length)

/-- the end of `snarf_shift`: values beyond what the README allows make the whole SHIFT void, else
`(d << 16) ^ (b << 2) ^ sem` on ints -/
def packShift (d b : Int) (sem : Nat) : Int :=
  if d > 366 ∨ d < -366 ∨ b > 366 ∨ b < -366 then 0 else xor32 (xor32 (d * 65536) (b * 4)) sem

/-- state of the parse: sem bits, b, d -/
def snarfShiftGo : Nat → List Char → Nat → Int → Int → Int
  | 0, _, _, _, _ => 0
  | fuel+1, spec, sem, b, d =>
    let (tmp, rest) := strtol spec
    -- a part out of range is refused before it is summed up
    if tmp > 366 ∨ tmp < -366 then 0 else
    let neg0 : Bool := spec.head? = some '-'
    match rest with
    | [] =>               -- `*spec++` reads the terminating NUL: `case '\0'`: a plain day count ends the text
      packShift (d + tmp) b sem
    | c :: rest' =>
      if c = 'b' ∨ c = 'B' then
        -- the `again` loop over the suffix characters
        let rec again (fuel : Nat) (r : List Char) (sem : Nat) (neg : Bool) : Option (List Char × Nat × Bool × Bool) :=
          match fuel with
          | 0 => none
          | fuel+1 =>
            match r with
            | [] => some ([], sem, neg, false)                 -- NUL
            | ';' :: r' => some (r', sem, neg, false)
            | '+' :: r' => again fuel r' (sem ||| ((if tmp ≥ 0 then 1 else 0) <<< 1)) neg
            | '-' :: r' => again fuel r' (sem ||| ((if tmp < 0 then 1 else 0) <<< 1)) (neg || tmp == 0)
            | ',' :: r' => some (r', sem, neg, true)
            | _ => none
        match again (rest'.length + 1) rest' sem neg0 with
        | none => 0
        | some (r, sem, neg, more) =>
          let b := b + tmp
          if more then snarfShiftGo fuel r sem b d
          else
            let sem := sem ||| (if b < 0 ∨ (b = 0 ∧ neg) then 1 else 0)
            let sem := sem ||| ((if b = 0 then 1 else 0) <<< 1)
            let b := if b ≥ 0 then b else -b
            -- `(d << 16) ^ (b << 2) ^ sem` on ints
            packShift d b sem
      else if c = ',' then snarfShiftGo fuel rest' sem b (d + tmp)
      else if c = ';' then packShift (d + tmp) b sem
      else 0

/-- `snarf_shift(spec)`; the result is the C `int` (two's complement, 32 bit) -/
def snarfShift (spec : String) : Int :=
  snarfShiftGo (spec.length + 2) spec.toList 0 0 0

end Echse.Rrule
