/- helpers for the line-protocol driver -/
namespace Driver

def joinWith (sep : String) (xs : List String) : String := sep.intercalate xs

def parseInt? (s : String) : Option Int := s.toInt?

def parseInts (ws : List String) : Option (List Int) := ws.mapM parseInt?
def parseNats (ws : List String) : Option (List Nat) := ws.mapM String.toNat?

def showList {α} [ToString α] (xs : List α) : String := joinWith "," (xs.map toString)

def bits (bs : List Bool) : String := String.ofList (bs.map fun b => if b then '1' else '0')

end Driver

namespace Driver
def hexDigit? (c : Char) : Option Nat :=
  if '0' ≤ c ∧ c ≤ '9' then some (c.toNat - '0'.toNat)
  else if 'a' ≤ c ∧ c ≤ 'f' then some (c.toNat - 'a'.toNat + 10)
  else if 'A' ≤ c ∧ c ≤ 'F' then some (c.toNat - 'A'.toNat + 10)
  else none

def parseHex? (s : String) : Option Nat :=
  if s.isEmpty then none else
  s.toList.foldlM (fun acc c => (hexDigit? c).map (acc * 16 + ·)) 0

def hexChar (n : Nat) : Char := if n < 10 then Char.ofNat (n + 48) else Char.ofNat (n - 10 + 97)

def toHex16 (n : Nat) : String :=
  String.ofList ((List.range 16).reverse.map fun k => hexChar (n / 16^k % 16))
end Driver
