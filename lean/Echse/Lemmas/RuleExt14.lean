/-
  C17 lemmas, part 14: `bdayMove` against the specification `shiftB`.
-/
import Echse.Lemmas.RuleExt13
namespace Echse.RuleExt
open Echse.Rrule Echse.Spec.Cal Echse.Spec.RuleExt

/-- business days left after stepping off a weekend -/
def cnt' (count : Nat) (keep : Bool) : Nat := if keep ∨ count = 0 then count else count - 1

theorem weekend_next (N : Int) (h : ¬ wdayOf N ≤ 5) :
    nextB N = N + (8 - (wdayOf N : Int)) ∧ wdayOf (nextB N) = 1 := by
  unfold nextB wdayOf at *; split <;> (try split) <;> omega
theorem weekend_prev (N : Int) (h : ¬ wdayOf N ≤ 5) :
    prevB N = N - ((wdayOf N : Int) - 5) ∧ wdayOf (prevB N) = 5 := by
  unfold prevB wdayOf at *; split <;> (try split) <;> omega

theorem bnz_fwd (count : Nat) (keep : Bool) :
    (count : Int) - (if (count : Int) ≠ 0 ∧ (!(keep || decide (count = 0))) = true then 1 else 0) = (cnt' count keep : Nat) := by
  unfold cnt'
  cases keep <;> by_cases h : count = 0 <;> simp [h] <;> omega
theorem bnz_back (count : Nat) (keep : Bool) :
    -(count : Int) + (if -(count : Int) ≠ 0 ∧ (!(keep || decide (count = 0))) = true then 1 else 0) = -((cnt' count keep : Nat) : Int) := by
  unfold cnt'
  cases keep <;> by_cases h : count = 0 <;> simp [h] <;> omega
theorem cnt'_le (count : Nat) (keep : Bool) : cnt' count keep ≤ count := by unfold cnt'; split <;> omega

theorem bdayMove_spec (N d0 : Int) (count : Nat) (back keep : Bool) (sh : Int) (hc : count ≤ 366)
    (hneg : shNegP sh = back) (hinv : shInvP sh = (keep || decide (count = 0)))
    (hb : shBvalue sh = if back then -(count : Int) else count) :
    bdayMove (wdayOf N) d0 sh = d0 + (shiftB N count back keep - N) := by
  rw [bdayMove_eq, hneg, hinv, hb]
  have hr := wdayOf_range N
  have hc' := cnt'_le count keep
  unfold shiftB isBday
  cases back
  · simp only [Bool.not_false, if_true, Bool.false_eq_true, if_false, decide_eq_true_eq]
    by_cases hw : wdayOf N ≤ 5
    · have h6 : ¬ wdayOf N ≥ 6 := by omega
      rw [if_neg h6, if_pos hw, bdTail_fwd d0 _ count (by omega) hc, nextB_closed count N hw]
      omega
    · have h6 : wdayOf N ≥ 6 := by omega
      obtain ⟨e1, e2⟩ := weekend_next N hw
      rw [if_pos h6, if_neg hw, bnz_fwd, bdTail_fwd _ 1 _ (by omega) (by omega)]
      show _ = d0 + (iter nextB (cnt' count keep) (nextB N) - N)
      rw [nextB_closed _ (nextB N) (by omega), e2, e1]
      omega
  · simp only [Bool.not_true, Bool.false_eq_true, if_false, if_true, decide_eq_true_eq]
    by_cases hw : wdayOf N ≤ 5
    · have h6 : ¬ wdayOf N ≥ 6 := by omega
      rw [if_neg h6, if_pos hw, bdTail_back d0 _ count (by omega) hc, prevB_closed count N hw]
      omega
    · have h6 : wdayOf N ≥ 6 := by omega
      obtain ⟨e1, e2⟩ := weekend_prev N hw
      rw [if_pos h6, if_neg hw, bnz_back, bdTail_back _ 5 _ (by omega) (by omega)]
      show _ = d0 + (iter prevB (cnt' count keep) (prevB N) - N)
      rw [prevB_closed _ (prevB N) (by omega), e2, e1]
      omega

/-- 366 business days are at most 516 calendar days -/
theorem shiftB_bound (N : Int) (count : Nat) (back keep : Bool) (hc : count ≤ 366) :
    N - 516 ≤ shiftB N count back keep ∧ shiftB N count back keep ≤ N + 516 := by
  have hr := wdayOf_range N
  have hc' := cnt'_le count keep
  unfold shiftB isBday
  cases back
  · simp only [Bool.false_eq_true, if_false, decide_eq_true_eq]
    by_cases hw : wdayOf N ≤ 5
    · rw [if_pos hw, nextB_closed count N hw]; split <;> omega
    · obtain ⟨e1, e2⟩ := weekend_next N hw
      rw [if_neg hw]
      show _ ≤ iter nextB (cnt' count keep) (nextB N) ∧ iter nextB (cnt' count keep) (nextB N) ≤ _
      rw [nextB_closed _ (nextB N) (by omega), e2, e1]
      split <;> omega
  · simp only [if_true, decide_eq_true_eq]
    by_cases hw : wdayOf N ≤ 5
    · rw [if_pos hw, prevB_closed count N hw]; split <;> omega
    · obtain ⟨e1, e2⟩ := weekend_prev N hw
      rw [if_neg hw]
      show _ ≤ iter prevB (cnt' count keep) (prevB N) ∧ iter prevB (cnt' count keep) (prevB N) ≤ _
      rw [prevB_closed _ (prevB N) (by omega), e2, e1]
      split <;> omega
end Echse.RuleExt
