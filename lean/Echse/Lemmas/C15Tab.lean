/-
  C15, table calendars (Umm al-Qura, Diyanet): what the linear scan `htScan` computes, and
  `mjd2ht` / `ht2mjd` / `ndimHt` on any table whose month starts increase by 28..30 days
  (`GoodCal`).  The two generated tables are shown to be `GoodCal` by a kernel-evaluated check
  that is linear in the table; nothing of their contents is repeated here.
-/
import Echse.Model.Scale
namespace Echse.Scale
open Echse.Gen

/-! ### lists with bounded gaps -/

/-- adjacent entries differ by at least `g` and at most 30 -/
def gapB (g : Nat) : List Nat → Bool
  | a :: b :: r => decide (a + g ≤ b) && decide (b ≤ a + 30) && gapB g (b :: r)
  | _ => true

theorem gapB_adj (g : Nat) : ∀ (l : List Nat), gapB g l = true →
    ∀ i, i + 1 < l.length → l.getD i 0 + g ≤ l.getD (i + 1) 0 ∧ l.getD (i + 1) 0 ≤ l.getD i 0 + 30
  | [], _, i, hi => by simp at hi
  | [_], _, i, hi => by simp at hi
  | a :: b :: r, h, i, hi => by
    simp only [gapB, Bool.and_eq_true, decide_eq_true_eq] at h
    cases i with
    | zero => simpa using h.1
    | succ i =>
      have := gapB_adj g (b :: r) h.2 i (by simpa using hi)
      simpa using this

theorem gap_mono (l : List Nat)
    (h : ∀ i, i + 1 < l.length → l.getD i 0 < l.getD (i + 1) 0) :
    ∀ n i, i + n < l.length → l.getD i 0 ≤ l.getD (i + n) 0 := by
  intro n
  induction n with
  | zero => intro i _; exact Nat.le_refl _
  | succ n ih =>
    intro i hi
    have a := ih i (by omega)
    have b := h (i + n) (by omega)
    have e : i + (n + 1) = i + n + 1 := by omega
    rw [e]; omega

/-! ### the scan -/

theorem htScan_eq (d : Nat) : ∀ (mt : List Nat) (a n : Nat), n ≤ mt.length →
    (∀ k, k < n → mt.getD k 0 ≤ d) → (n < mt.length → d < mt.getD n 0) →
    htScan mt d a = a + n
  | [], a, n, hn, _, _ => by
    have : n = 0 := by simpa using hn
    subst this; rfl
  | x :: xs, a, 0, _, _, h2 => by
    have : d < x := by simpa using h2 (by simp)
    simp only [htScan]
    rw [if_neg (by omega)]; rfl
  | x :: xs, a, n + 1, hn, h1, h2 => by
    have hx : x ≤ d := by simpa using h1 0 (by omega)
    simp only [htScan]
    rw [if_pos hx, htScan_eq d xs (a + 1) n (by simpa using hn)
      (fun k hk => by simpa using h1 (k + 1) (by omega))
      (fun hl => by simpa using h2 (by simpa using hl))]
    omega

theorem htScan_spec (d : Nat) : ∀ (mt : List Nat) (a : Nat), ∃ n, htScan mt d a = a + n ∧ n ≤ mt.length ∧
    (∀ k, k < n → mt.getD k 0 ≤ d) ∧ (n < mt.length → d < mt.getD n 0)
  | [], a => ⟨0, rfl, Nat.le_refl _, fun k hk => by omega, fun h => by simp at h⟩
  | x :: xs, a => by
    by_cases hx : x ≤ d
    · obtain ⟨n, e, h0, h1, h2⟩ := htScan_spec d xs (a + 1)
      refine ⟨n + 1, ?_, by simpa using h0, ?_, ?_⟩
      · simp only [htScan]; rw [if_pos hx, e]; omega
      · intro k hk
        cases k with
        | zero => simpa using hx
        | succ k => simpa using h1 k (by omega)
      · intro hl; simpa using h2 (by simpa using hl)
    · refine ⟨0, ?_, by simp, fun k hk => by omega, fun _ => by simpa using Nat.lt_of_not_le hx⟩
      simp only [htScan]; rw [if_neg hx]; rfl

/-! ### tables -/

theorem getD_drop2 (cal : List Nat) (i : Nat) : (cal.drop 2).getD i 0 = calMT cal i := by
  unfold calMT
  simp only [List.getD_eq_getElem?_getD, List.getElem?_drop]
  rw [Nat.add_comm]

theorem length_drop2 (cal : List Nat) : (cal.drop 2).length = calNM cal := by
  unfold calNM; simp

/-- a table calendar the conversions work on: at least one transition, month starts positive,
below 2^32 and increasing by `g`..30 days (`g ≥ 1`), and `SM + nm` small enough for the
`unsigned` month index not to wrap for years up to 4095. -/
structure GoodCal (g : Nat) (cal : List Nat) : Prop where
  g_pos : 1 ≤ g
  nm_pos : 1 ≤ calNM cal
  first_pos : 0 < calMT cal 0
  last_lt : calMT cal (calNM cal - 1) < W
  small : calSM cal + calNM cal + 60000 < W
  gaps : ∀ i, i + 1 < calNM cal → calMT cal i + g ≤ calMT cal (i + 1) ∧ calMT cal (i + 1) ≤ calMT cal i + 30

def goodCalB (g : Nat) (cal : List Nat) : Bool :=
  decide (1 ≤ g) && decide (1 ≤ calNM cal) && decide (0 < calMT cal 0) &&
  decide (calMT cal (calNM cal - 1) < W) && decide (calSM cal + calNM cal + 60000 < W) &&
  gapB g (cal.drop 2)

theorem goodCalB_spec (g : Nat) (cal : List Nat) (h : goodCalB g cal = true) : GoodCal g cal := by
  simp only [goodCalB, Bool.and_eq_true, decide_eq_true_eq] at h
  obtain ⟨⟨⟨⟨⟨h1, h2⟩, h3⟩, h4⟩, h5⟩, h6⟩ := h
  refine ⟨h1, h2, h3, h4, h5, ?_⟩
  intro i hi
  have := gapB_adj g (cal.drop 2) h6 i (by rw [length_drop2]; exact hi)
  simpa only [getD_drop2] using this

/-- the Umm al-Qura table (its shortest month has 28 days) -/
theorem goodCal_ummulqura : GoodCal 28 datUmmulqura := goodCalB_spec _ _ (by decide +kernel)
/-- the Diyanet table: every month has 29 or 30 days -/
theorem goodCal_diyanet : GoodCal 29 datDiyanet := goodCalB_spec _ _ (by decide +kernel)

theorem GoodCal.weaken {g : Nat} {cal : List Nat} (h : GoodCal g cal) : GoodCal 1 cal :=
  ⟨Nat.le_refl _, h.nm_pos, h.first_pos, h.last_lt, h.small,
   fun i hi => ⟨by have := (h.gaps i hi).1; have := h.g_pos; omega, (h.gaps i hi).2⟩⟩

theorem goodCal_tableOf (s : Nat) : GoodCal 1 (tableOf s) := by
  unfold tableOf; split
  · exact goodCal_ummulqura.weaken
  · exact goodCal_diyanet.weaken

namespace GoodCal
variable {g : Nat} {cal : List Nat}

theorem lt_succ (h : GoodCal g cal) (i : Nat) (hi : i + 1 < calNM cal) :
    calMT cal i < calMT cal (i + 1) := by
  have := (h.gaps i hi).1; have := h.g_pos; omega

theorem mono (h : GoodCal g cal) (i k : Nat) (hik : i ≤ k) (hk : k < calNM cal) :
    calMT cal i ≤ calMT cal k := by
  have := gap_mono (cal.drop 2)
    (fun i hi => by
      rw [length_drop2] at hi; simpa only [getD_drop2] using h.lt_succ i hi)
    (k - i) i (by rw [length_drop2]; omega)
  simp only [getD_drop2] at this
  have e : i + (k - i) = k := by omega
  rwa [e] at this

/-- the scan finds the bracket `MT (n-1) ≤ j < MT n` -/
theorem scan_bracket (h : GoodCal g cal) (j n : Nat) (h1 : 1 ≤ n) (h2 : n < calNM cal)
    (h3 : calMT cal (n - 1) ≤ j) (h4 : j < calMT cal n) : htScan (cal.drop 2) j 0 = n := by
  have := htScan_eq j (cal.drop 2) 0 n (by rw [length_drop2]; omega)
    (fun k hk => by
      rw [getD_drop2]
      exact Nat.le_trans (h.mono k (n - 1) (by omega) (by omega)) h3)
    (fun _ => by rw [getD_drop2]; exact h4)
  omega

theorem scan_before (_h : GoodCal g cal) (j : Nat) (h1 : j < calMT cal 0) :
    htScan (cal.drop 2) j 0 = 0 := by
  have := htScan_eq j (cal.drop 2) 0 0 (by omega) (fun k hk => by omega)
    (fun _ => by rw [getD_drop2]; exact h1)
  omega

theorem scan_after (h : GoodCal g cal) (j : Nat) (h1 : calMT cal (calNM cal - 1) ≤ j) :
    htScan (cal.drop 2) j 0 = calNM cal := by
  have := h.nm_pos
  have := htScan_eq j (cal.drop 2) 0 (calNM cal) (by rw [length_drop2]; omega)
    (fun k hk => by
      rw [getD_drop2]
      exact Nat.le_trans (h.mono k (calNM cal - 1) (by omega) (by omega)) h1)
    (fun hl => by rw [length_drop2] at hl; omega)
  omega

/-- inside the covered span there is a bracket -/
theorem bracket_exists (h : GoodCal g cal) (j : Nat) (h1 : calMT cal 0 ≤ j)
    (h2 : j < calMT cal (calNM cal - 1)) :
    ∃ n, 1 ≤ n ∧ n < calNM cal ∧ calMT cal (n - 1) ≤ j ∧ j < calMT cal n := by
  obtain ⟨n, _, a1, a2, a3⟩ := htScan_spec j (cal.drop 2) 0
  rw [length_drop2] at a1 a3
  have hp := h.nm_pos
  have n0 : n ≠ 0 := by
    intro e; subst e
    have := a3 (by omega); rw [getD_drop2] at this; omega
  have nn : n ≠ calNM cal := by
    intro e
    have := a2 (calNM cal - 1) (by omega); rw [getD_drop2] at this; omega
  refine ⟨n, by omega, by omega, ?_, ?_⟩
  · have := a2 (n - 1) (by omega); rwa [getD_drop2] at this
  · have := a3 (by omega); rwa [getD_drop2] at this

end GoodCal

/-! ### `u32` on values that fit -/

theorem u32_natCast (n : Nat) (h : n < W) : u32 (n : Int) = n := by
  unfold u32; unfold W at *; omega

theorem u32_sub_one (n : Nat) (h1 : 1 ≤ n) (h : n ≤ W) : u32 ((n : Int) - 1) = n - 1 := by
  unfold u32; unfold W at *; omega

theorem Ymd.eq_mk (a : Ymd) (y m d : Nat) (h1 : a.y = y) (h2 : a.m = m) (h3 : a.d = d) :
    a = ⟨y, m, d⟩ := by cases a; simp_all

/-- the date `mjd2ht` builds for table month number `n` (1-based index into the transitions) -/
def htDate (cal : List Nat) (n j : Nat) : Ymd :=
  ⟨(n + calSM cal - 1) / 12 + 1, (n + calSM cal - 1) % 12 + 1, j - calMT cal (n - 1) + 1⟩

theorem ht_index (n sm : Nat) (h1 : 1 ≤ n) :
    ((((n + sm - 1) / 12 + 1 : Nat) : Int) - 1) * 12 + ((((n + sm - 1) % 12 + 1 : Nat) : Int) - 1) - (sm : Int)
      = (n : Int) - 1 := by omega

namespace GoodCal
variable {g : Nat} {cal : List Nat}

theorem mjd2ht_bracket (h : GoodCal g cal) (j n : Nat) (h1 : 1 ≤ n) (h2 : n < calNM cal)
    (h3 : calMT cal (n - 1) ≤ j) (h4 : j < calMT cal n) : mjd2ht cal j = htDate cal n j := by
  have e := h.scan_bracket j n h1 h2 h3 h4
  simp only [mjd2ht, e, htDate]
  rw [if_neg (by omega)]

theorem mjd2ht_reject (h : GoodCal g cal) (j : Nat)
    (hj : j < calMT cal 0 ∨ calMT cal (calNM cal - 1) ≤ j) : mjd2ht cal j = ⟨0, 0, 0⟩ := by
  rcases hj with hj | hj
  · simp [mjd2ht, h.scan_before j hj]
  · simp only [mjd2ht, h.scan_after j hj]; rw [if_pos (Or.inr (Nat.le_refl _))]

theorem lt_W (h : GoodCal g cal) (n : Nat) (h2 : n < calNM cal) : calMT cal n < W :=
  Nat.lt_of_le_of_lt (h.mono n (calNM cal - 1) (by omega) (by have := h.nm_pos; omega)) h.last_lt

theorem nm_lt_W (h : GoodCal g cal) : calNM cal < W := by have := h.small; omega

theorem ht2mjd_idx (cal : List Nat) (d : Ymd) (i : Nat)
    (hi : ((d.y : Int) - 1) * 12 + ((d.m : Int) - 1) - calSM cal = (i : Int)) (hW : i < W)
    (hn : i + 1 < calNM cal) : ht2mjd cal d = (calMT cal i + u32 ((d.d : Int) - 1)) % W := by
  unfold ht2mjd
  simp only [hi, u32_natCast i hW]
  rw [if_neg (by omega)]

theorem ndimHt_idx (cal : List Nat) (y m : Nat) (i : Nat)
    (hi : ((y : Int) - 1) * 12 + ((m : Int) - 1) - calSM cal = (i : Int)) (hW : i < W)
    (hn : i + 1 < calNM cal) : ndimHt cal y m = calMT cal (i + 1) - calMT cal i := by
  unfold ndimHt
  simp only [hi, u32_natCast i hW]
  rw [if_neg (by omega)]

theorem htDate_idx (cal : List Nat) (n j : Nat) (h1 : 1 ≤ n) :
    (((htDate cal n j).y : Int) - 1) * 12 + (((htDate cal n j).m : Int) - 1) - calSM cal = ((n - 1 : Nat) : Int) := by
  have := ht_index n (calSM cal) h1
  simp only [htDate]; omega

theorem ht2mjd_htDate (h : GoodCal g cal) (j n : Nat) (h1 : 1 ≤ n) (h2 : n < calNM cal)
    (h3 : calMT cal (n - 1) ≤ j) (h4 : j < calMT cal n) : ht2mjd cal (htDate cal n j) = j := by
  have hW := h.lt_W n h2
  have hnW := h.nm_lt_W
  rw [ht2mjd_idx cal _ (n - 1) (htDate_idx cal n j h1) (by omega) (by omega)]
  have e : (((htDate cal n j).d : Int) - 1) = ((j - calMT cal (n - 1) : Nat) : Int) := by
    simp only [htDate]; omega
  rw [e, u32_natCast _ (by omega)]
  have e2 : calMT cal (n - 1) + (j - calMT cal (n - 1)) = j := by omega
  rw [e2]; exact Nat.mod_eq_of_lt (by omega)

theorem ndimHt_htDate (h : GoodCal g cal) (j n : Nat) (h1 : 1 ≤ n) (h2 : n < calNM cal) :
    ndimHt cal (htDate cal n j).y (htDate cal n j).m = calMT cal n - calMT cal (n - 1) := by
  have hnW := h.nm_lt_W
  rw [ndimHt_idx cal _ _ (n - 1) (htDate_idx cal n j h1) (by omega) (by omega)]
  have e : n - 1 + 1 = n := by omega
  rw [e]

/-- successor date by the table's own month lengths -/
def _root_.Echse.Scale.succHt (cal : List Nat) (h : Ymd) : Ymd :=
  if h.d < ndimHt cal h.y h.m then ⟨h.y, h.m, h.d + 1⟩
  else if h.m < 12 then ⟨h.y, h.m + 1, 1⟩
  else ⟨h.y + 1, 1, 1⟩

theorem succHt_day (cal : List Nat) (d : Ymd) (hd : d.d < ndimHt cal d.y d.m) :
    succHt cal d = ⟨d.y, d.m, d.d + 1⟩ := by unfold succHt; rw [if_pos hd]
theorem succHt_month (cal : List Nat) (d : Ymd) (hd : ¬ d.d < ndimHt cal d.y d.m) (hm : d.m < 12) :
    succHt cal d = ⟨d.y, d.m + 1, 1⟩ := by unfold succHt; rw [if_neg hd, if_pos hm]
theorem succHt_year (cal : List Nat) (d : Ymd) (hd : ¬ d.d < ndimHt cal d.y d.m) (hm : ¬ d.m < 12) :
    succHt cal d = ⟨d.y + 1, 1, 1⟩ := by unfold succHt; rw [if_neg hd, if_neg hm]

theorem succ_htDate (h : GoodCal g cal) (j n : Nat) (h1 : 1 ≤ n) (h2 : n < calNM cal)
    (h3 : calMT cal (n - 1) ≤ j) (h4 : j < calMT cal n) (h5 : j + 1 < calMT cal (calNM cal - 1)) :
    mjd2ht cal (j + 1) = succHt cal (htDate cal n j) := by
  have hnd := h.ndimHt_htDate j n h1 h2
  have hdd : (htDate cal n j).d = j - calMT cal (n - 1) + 1 := rfl
  have hmm : (htDate cal n j).m = (n + calSM cal - 1) % 12 + 1 := rfl
  by_cases hc : j + 1 < calMT cal n
  · rw [h.mjd2ht_bracket (j + 1) n h1 h2 (by omega) hc,
      succHt_day cal _ (by rw [hnd, hdd]; omega)]
    apply Ymd.eq_mk <;> first | rfl | (simp only [htDate]; omega)
  · have hn1' : n + 1 < calNM cal := by
      have : n ≠ calNM cal - 1 := by
        intro e; rw [e] at hc; omega
      omega
    have hlt := h.lt_succ n hn1'
    have en : n + 1 - 1 = n := by omega
    rw [h.mjd2ht_bracket (j + 1) (n + 1) (by omega) hn1' (by rw [en]; omega) (by omega)]
    by_cases hm : (htDate cal n j).m < 12
    · rw [succHt_month cal _ (by rw [hnd, hdd]; omega) hm]
      rw [hmm] at hm
      apply Ymd.eq_mk <;> first | rfl | (simp only [htDate, en]; omega)
    · rw [succHt_year cal _ (by rw [hnd, hdd]; omega) hm]
      rw [hmm] at hm
      apply Ymd.eq_mk <;> first | rfl | (simp only [htDate, en]; omega)

/-- month index (`(y-1)*12 + (m-1) - SM`) outside `[0, nm-1)` (the last transition only closes the last month, it
is no month itself): `ht2mjd` answers 0 -/
theorem ht2mjd_outside (h : GoodCal g cal) (d : Ymd) (hy : d.y ≤ 4095) (hm : d.m ≤ 15)
    (ho : ((d.y : Int) - 1) * 12 + ((d.m : Int) - 1) - calSM cal < 0 ∨
          (calNM cal : Int) - 1 ≤ ((d.y : Int) - 1) * 12 + ((d.m : Int) - 1) - calSM cal) :
    ht2mjd cal d = 0 := by
  have hs := h.small
  simp only [ht2mjd]
  rw [if_pos]
  unfold u32; unfold W at *; omega

/-- month index outside `[0, nm-1)` (the last transition only closes the last month): `ndimHt` answers 0 -/
theorem ndimHt_outside (h : GoodCal g cal) (y m : Nat) (hy : y ≤ 4095) (hm : m ≤ 15)
    (ho : ((y : Int) - 1) * 12 + ((m : Int) - 1) - calSM cal < 0 ∨
          (calNM cal : Int) - 1 ≤ ((y : Int) - 1) * 12 + ((m : Int) - 1) - calSM cal) :
    ndimHt cal y m = 0 := by
  have hs := h.small
  simp only [ndimHt]
  rw [if_pos]
  unfold u32; unfold W at *; omega

/-- month index inside `[0, nm-1)`: the month has `g`..30 days -/
theorem ndimHt_inside (h : GoodCal g cal) (y m : Nat)
    (h0 : 0 ≤ ((y : Int) - 1) * 12 + ((m : Int) - 1) - calSM cal)
    (h1 : ((y : Int) - 1) * 12 + ((m : Int) - 1) - calSM cal < (calNM cal : Int) - 1) :
    g ≤ ndimHt cal y m ∧ ndimHt cal y m ≤ 30 := by
  have hs := h.small
  have hu : ∃ i : Nat, u32 (((y : Int) - 1) * 12 + ((m : Int) - 1) - calSM cal) = i ∧ i + 1 < calNM cal := by
    refine ⟨_, rfl, ?_⟩
    unfold u32; unfold W at *; omega
  obtain ⟨i, e, hi⟩ := hu
  simp only [ndimHt]
  rw [e, if_neg (by omega)]
  have := h.gaps i hi
  omega

end GoodCal

/-! ### scales 9 and 10 -/

theorem scaleNdim_tab (s : Nat) (hs : s = 9 ∨ s = 10) (y m : Nat) :
    scaleNdim s y m = ndimHt (tableOf s) y m := by
  rcases hs with h | h <;> subst h <;> simp [scaleNdim]

theorem scaleWday_tab (s : Nat) (hs : s = 9 ∨ s = 10) (y m d : Nat) :
    scaleWday s y m d =
      if ht2mjd (tableOf s) ⟨y, m, d⟩ = 0 then 0 else wdayOfMjd (ht2mjd (tableOf s) ⟨y, m, d⟩) := by
  rcases hs with h | h <;> subst h <;> simp [scaleWday]

/-- a date the table has got: the weekday of its day number -/
theorem scaleWday_tab_pos (s : Nat) (hs : s = 9 ∨ s = 10) (y m d : Nat) (h : ht2mjd (tableOf s) ⟨y, m, d⟩ ≠ 0) :
    scaleWday s y m d = wdayOfMjd (ht2mjd (tableOf s) ⟨y, m, d⟩) := by
  rw [scaleWday_tab s hs, if_neg h]

/-- a date the table has not got: no weekday (`MIR`) -/
theorem scaleWday_tab_zero (s : Nat) (hs : s = 9 ∨ s = 10) (y m d : Nat) (h : ht2mjd (tableOf s) ⟨y, m, d⟩ = 0) :
    scaleWday s y m d = 0 := by
  rw [scaleWday_tab s hs, if_pos h]

theorem toMjd_tab (s : Nat) (hs : s = 9 ∨ s = 10) (h : Ymd) :
    toMjd s h = if ht2mjd (tableOf s) h = 0 then none else some (ht2mjd (tableOf s) h) := by
  rcases hs with e | e <;> subst e <;> simp [toMjd]

end Echse.Scale
