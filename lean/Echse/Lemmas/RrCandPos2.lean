/-
  C01 for the YEARLY / MONTHLY filler models: the emission of one period when BYSETPOS numbers the instants of the
  period (`k.tposp = true`): the code is, up to the counter `inst`, the fold of `pstep` over those instants of the
  period's enumeration whose (1-based) number BYSETPOS selects (`selE`).
-/
import Echse.Lemmas.RrCandRfc2
namespace Echse.Lemmas.RrCandRfc
open Echse.Rrule Echse.Instant Echse.Spec.RrOk Echse.Lemmas.RrCandOk

/-- the entries of `L` whose (1-based) number BYSETPOS selects -/
def selE (poss : List Int) (L : List Inst) : List Inst :=
  ((L.zipIdx).filter (fun zi => possSelP poss (zi.2 + 1) (zi.2 + 1) L.length)).map (·.1)

/-- the same on an arbitrary numbered list, `n` the period's number of instants -/
def selF (poss : List Int) (n : Nat) (l : List (Inst × Nat)) : List Inst :=
  (l.filter (fun zi => possSelP poss (zi.2 + 1) (zi.2 + 1) n)).map (·.1)

theorem selE_eq (poss : List Int) (L : List Inst) : selE poss L = selF poss L.length L.zipIdx := rfl

/-- a range is selected iff one of its numbers is -/
theorem possSelP_range (poss : List Int) (lo hi n : Nat) :
    possSelP poss lo hi n = true ↔ ∃ j, lo ≤ j ∧ j ≤ hi ∧ possSelP poss j j n = true := by
  unfold possSelP
  simp only [List.any_eq_true, decide_eq_true_eq]
  constructor
  · rintro ⟨p, hp, h1, h2, h3⟩
    exact ⟨_, h2, h3, p, hp, h1, Nat.le_refl _, Nat.le_refl _⟩
  · rintro ⟨j, hlo, hhi, p, hp, h1, h2, h3⟩
    exact ⟨p, hp, h1, Nat.le_trans hlo h2, Nat.le_trans h3 hhi⟩

theorem possSelP_range_false (poss : List Int) (lo hi n j : Nat) (h : possSelP poss lo hi n = false)
    (h1 : lo ≤ j) (h2 : j ≤ hi) : possSelP poss j j n = false := by
  cases hj : possSelP poss j j n with
  | false => rfl
  | true =>
    have := (possSelP_range poss lo hi n).mpr ⟨j, h1, h2, hj⟩
    rw [h] at this; cases this

theorem mem_selE (poss : List Int) (L : List Inst) (z : Inst) :
    z ∈ selE poss L ↔ ∃ i, L[i]? = some z ∧ possSelP poss (i + 1) (i + 1) L.length = true := by
  unfold selE
  simp only [List.mem_map, List.mem_filter, List.mem_zipIdx_iff_getElem?]
  constructor
  · rintro ⟨⟨x, i⟩, ⟨h1, h2⟩, rfl⟩
    exact ⟨i, h1, h2⟩
  · rintro ⟨i, h1, h2⟩
    exact ⟨(z, i), ⟨h1, h2⟩, rfl⟩

theorem selF_sublist (poss : List Int) (n : Nat) (l : List (Inst × Nat)) :
    (selF poss n l).Sublist (l.map (·.1)) :=
  List.Sublist.map _ List.filter_sublist

theorem selE_sublist (poss : List Int) (L : List Inst) : (selE poss L).Sublist L := by
  have h := selF_sublist poss L.length L.zipIdx
  rw [List.zipIdx_map_fst] at h
  exact h

/-- the numbered step: entry `zi.1` carrying number `zi.2 + 1` of `n` -/
def nstep (k : FillCtx) (n : Nat) (st : FillSt) (zi : Inst × Nat) : FillSt :=
  if possSelP k.pos (zi.2 + 1) (zi.2 + 1) n then pstep k st zi.1 else st

theorem nstep_sim (k : FillCtx) (n : Nat) {a b : FillSt} (h : Sim a b) (zi : Inst × Nat) :
    Sim (nstep k n a zi) (nstep k n b zi) := by
  unfold nstep
  by_cases c : possSelP k.pos (zi.2 + 1) (zi.2 + 1) n = true
  · rw [if_pos c, if_pos c]; exact pstep_sim k h _
  · rw [if_neg c, if_neg c]; exact h

theorem nstep_stop (k : FillCtx) (n : Nat) (st : FillSt) (zi : Inst × Nat) (h : Stopped k st) :
    nstep k n st zi = st := by
  unfold nstep
  by_cases c : possSelP k.pos (zi.2 + 1) (zi.2 + 1) n = true
  · rw [if_pos c]; exact pstep_stop k st _ h
  · rw [if_neg c]

theorem foldl_nstep_stop (k : FillCtx) (n : Nat) (l : List (Inst × Nat)) (st : FillSt) (h : Stopped k st) :
    l.foldl (nstep k n) st = st := by
  induction l with
  | nil => rfl
  | cons zi l ih => rw [List.foldl_cons, nstep_stop k n st zi h]; exact ih

theorem foldl_nstep_sim (k : FillCtx) (n : Nat) (l : List (Inst × Nat)) {a b : FillSt} (h : Sim a b) :
    Sim (l.foldl (nstep k n) a) (l.foldl (nstep k n) b) := by
  induction l generalizing a b with
  | nil => exact h
  | cons zi l ih => exact ih (nstep_sim k n h zi)

/-- entries whose numbers are not selected do nothing -/
theorem foldl_nstep_none (k : FillCtx) (n : Nat) (l : List (Inst × Nat)) (st : FillSt)
    (h : ∀ zi ∈ l, possSelP k.pos (zi.2 + 1) (zi.2 + 1) n = false) : l.foldl (nstep k n) st = st := by
  induction l with
  | nil => rfl
  | cons zi l ih =>
    have e : nstep k n st zi = st := by
      unfold nstep
      rw [h zi (List.mem_cons_self ..)]; rfl
    rw [List.foldl_cons, e]
    exact ih (fun z hz => h z (List.mem_cons_of_mem _ hz))

theorem selF_cons (poss : List Int) (n : Nat) (zi : Inst × Nat) (l : List (Inst × Nat)) :
    selF poss n (zi :: l) =
      if possSelP poss (zi.2 + 1) (zi.2 + 1) n = true then zi.1 :: selF poss n l else selF poss n l := by
  unfold selF
  rw [List.filter_cons]
  split <;> rfl

/-- the numbered fold is the fold of `pstep` over the selected entries -/
theorem foldl_nstep_selF (k : FillCtx) (n : Nat) (l : List (Inst × Nat)) (st : FillSt) :
    l.foldl (nstep k n) st = (selF k.pos n l).foldl (pstep k) st := by
  induction l generalizing st with
  | nil => rfl
  | cons zi l ih =>
    rw [selF_cons]
    by_cases c : possSelP k.pos (zi.2 + 1) (zi.2 + 1) n = true
    · rw [if_pos c, List.foldl_cons, List.foldl_cons]
      have e : nstep k n st zi = pstep k st zi.1 := by unfold nstep; rw [if_pos c]
      rw [e]; exact ih _
    · rw [if_neg c, List.foldl_cons]
      have e : nstep k n st zi = st := by unfold nstep; rw [if_neg c]
      rw [e]; exact ih _

/-- with numbering and without SHIFT one round of the ENUM loop is the numbered step at number `inst + 1`, and
the counter goes up by one -/
theorem emitStep_nstep (k : FillCtx) (ninst yy yd i : Nat) (a : FillSt) (t : Nat × Nat × Nat) (hs : k.sh = 0)
    (ht : k.tposp = true) (hi : Stopped k a ∨ a.inst = i) :
    Sim (emitStep k ninst yy yd a t) (nstep k ninst a (mkX k yy yd t, i)) ∧
      (Stopped k (emitStep k ninst yy yd a t) ∨ (emitStep k ninst yy yd a t).inst = i + 1) := by
  by_cases c1 : Stopped k a
  · have e : emitStep k ninst yy yd a t = a := by unfold emitStep; exact if_pos c1
    rw [e, nstep_stop k ninst a _ c1]
    exact ⟨Sim.rfl' a, Or.inl c1⟩
  · have hi' : a.inst = i := hi.resolve_left c1
    unfold emitStep nstep pstep mkX
    unfold Stopped at c1
    rw [if_neg c1, if_neg c1]
    dsimp only
    generalize mkInst yy (yd / 32 + 1) (yd % 32) t.1 t.2.1 t.2.2 k.proto.ms = x
    rw [ht, hi']
    have e : (if true = true then ({ out := a.out, res := a.res, inst := i + 1, hit := a.hit, fin := a.fin } : FillSt) else a)
        = { out := a.out, res := a.res, inst := i + 1, hit := a.hit, fin := a.fin } := if_pos rfl
    rw [e]
    dsimp only
    by_cases c0 : possSelP k.pos (i + 1) (i + 1) ninst = true
    · have c0' : ¬ (true = true ∧ (!possSelP k.pos (i + 1) (i + 1) ninst) = true) := by
        rw [c0]; intro h; exact Bool.false_ne_true h.2
      rw [if_neg c0', if_pos c0]
      by_cases c2 : ltP k.untl x = true
      · rw [if_pos c2, if_pos c2]
        exact ⟨⟨rfl, rfl, rfl, rfl⟩, Or.inl (Or.inl rfl)⟩
      · rw [if_neg c2, if_neg c2]
        by_cases c3 : ltP x k.proto = true
        · rw [if_pos c3, if_pos c3]
          exact ⟨⟨rfl, rfl, rfl, rfl⟩, Or.inr rfl⟩
        · rw [if_neg c3, if_neg c3]
          split
          · rw [if_neg (fun h => h.2.1 hs)]
            exact ⟨⟨rfl, rfl, rfl, rfl⟩, Or.inr rfl⟩
          · exact ⟨⟨rfl, rfl, rfl, rfl⟩, Or.inr rfl⟩
    · have c0' : (true = true ∧ (!possSelP k.pos (i + 1) (i + 1) ninst) = true) := by
        refine ⟨rfl, ?_⟩
        cases hq : possSelP k.pos (i + 1) (i + 1) ninst with
        | false => rfl
        | true => exact absurd hq c0
      rw [if_pos c0', if_neg c0]
      exact ⟨⟨rfl, rfl, rfl, rfl⟩, Or.inr rfl⟩

/-- the ENUM loop of one day: numbers `i + 1 .. i + #times` -/
theorem foldl_emitStep_nstep (k : FillCtx) (ninst yy yd : Nat) (hs : k.sh = 0) (ht : k.tposp = true)
    (ts : List (Nat × Nat × Nat)) (i : Nat) (a b : FillSt) (hab : Sim a b) (hi : Stopped k a ∨ a.inst = i) :
    Sim (ts.foldl (emitStep k ninst yy yd) a) (((ts.map (mkX k yy yd)).zipIdx i).foldl (nstep k ninst) b) ∧
      (Stopped k (ts.foldl (emitStep k ninst yy yd) a) ∨ (ts.foldl (emitStep k ninst yy yd) a).inst = i + ts.length) := by
  induction ts generalizing i a b with
  | nil => exact ⟨hab, hi⟩
  | cons t ts ih =>
    obtain ⟨h1, h2⟩ := emitStep_nstep k ninst yy yd i a t hs ht hi
    have h3 : Sim (emitStep k ninst yy yd a t) (nstep k ninst b (mkX k yy yd t, i)) :=
      h1.trans (nstep_sim k ninst hab _)
    have h4 := ih (i + 1) _ _ h3 h2
    rw [List.foldl_cons, List.map_cons, List.zipIdx_cons, List.foldl_cons, List.length_cons]
    have e : i + (ts.length + 1) = i + 1 + ts.length := by omega
    rw [e]
    exact h4

theorem emitDay_nstep (k : FillCtx) (ninst yy yd : Nat) (hs : k.sh = 0) (ht : k.tposp = true)
    (i : Nat) (a b : FillSt) (hab : Sim a b) (hi : Stopped k a ∨ a.inst = i) :
    Sim (emitDay k ninst yy yd a) (((dayE k yy yd).zipIdx i).foldl (nstep k ninst) b) ∧
      (Stopped k (emitDay k ninst yy yd a) ∨ (emitDay k ninst yy yd a).inst = i + (dayE k yy yd).length) := by
  rw [emitDay_eq]
  unfold dayE
  rw [List.length_map]
  exact foldl_emitStep_nstep k ninst yy yd hs ht k.times i a b hab hi

theorem setE_cons (k : FillCtx) (yy c : Nat) (cs : List Nat) : setE k yy (c :: cs) = dayE k yy c ++ setE k yy cs := by
  unfold setE
  rw [List.flatMap_cons]

theorem dayE_length (k : FillCtx) (yy c : Nat) : (dayE k yy c).length = k.times.length := by
  unfold dayE
  rw [List.length_map]

theorem setE_length (k : FillCtx) (yy : Nat) (cs : List Nat) : (setE k yy cs).length = cs.length * k.times.length := by
  induction cs with
  | nil => simp [setE]
  | cons c cs ih => rw [setE_cons, List.length_append, ih, dayE_length, List.length_cons, Nat.succ_mul, Nat.add_comm]

/-- one round of the day loop of `emitPeriod` -/
def dayF (k : FillCtx) (ninst yy : Nat) (st : FillSt) (yd : Nat) : FillSt :=
  if st.fin ∨ !(st.res < k.nti) then st
  else if k.tposp ∧ !possSelP k.pos (st.inst + 1) (st.inst + k.nT) ninst then
    { st with inst := st.inst + k.nT }
  else emitDay k ninst yy yd st

theorem dayF_nstep (k : FillCtx) (ninst yy c : Nat) (hs : k.sh = 0) (ht : k.tposp = true)
    (hnT : k.nT = k.times.length) (i : Nat) (a b : FillSt) (hab : Sim a b) (hi : Stopped k a ∨ a.inst = i) :
    Sim (dayF k ninst yy a c) (((dayE k yy c).zipIdx i).foldl (nstep k ninst) b) ∧
      (Stopped k (dayF k ninst yy a c) ∨ (dayF k ninst yy a c).inst = i + (dayE k yy c).length) := by
  by_cases c1 : Stopped k a
  · have e : dayF k ninst yy a c = a := by unfold dayF; exact if_pos c1
    have c1' : Stopped k b := by
      unfold Stopped at c1 ⊢
      rw [← hab.2.1, ← hab.2.2.2]; exact c1
    rw [e, foldl_nstep_stop k ninst _ b c1']
    exact ⟨hab, Or.inl c1⟩
  · have hi' : a.inst = i := hi.resolve_left c1
    by_cases c2 : possSelP k.pos (i + 1) (i + k.nT) ninst = true
    · have e : dayF k ninst yy a c = emitDay k ninst yy c a := by
        unfold dayF
        unfold Stopped at c1
        rw [if_neg c1, hi']
        have c2' : ¬ (k.tposp = true ∧ (!possSelP k.pos (i + 1) (i + k.nT) ninst) = true) := by
          rw [c2]; intro h; exact Bool.false_ne_true h.2
        rw [if_neg c2']
      rw [e]
      exact emitDay_nstep k ninst yy c hs ht i a b hab hi
    · have c2f : possSelP k.pos (i + 1) (i + k.nT) ninst = false := by
        cases hq : possSelP k.pos (i + 1) (i + k.nT) ninst with
        | false => rfl
        | true => exact absurd hq c2
      have e : dayF k ninst yy a c = { a with inst := i + k.nT } := by
        unfold dayF
        unfold Stopped at c1
        rw [if_neg c1, hi']
        have c2' : (k.tposp = true ∧ (!possSelP k.pos (i + 1) (i + k.nT) ninst) = true) := by
          rw [c2f]; exact ⟨ht, rfl⟩
        rw [if_pos c2']
      have e2 : ((dayE k yy c).zipIdx i).foldl (nstep k ninst) b = b := by
        apply foldl_nstep_none
        rintro ⟨x, j⟩ hz
        obtain ⟨h1, h2, _⟩ := List.mem_zipIdx hz
        rw [dayE_length, ← hnT] at h2
        exact possSelP_range_false k.pos (i + 1) (i + k.nT) ninst (j + 1) c2f (by omega) (by omega)
      rw [e, e2, dayE_length, ← hnT]
      exact ⟨hab, Or.inr rfl⟩

theorem emitSet_nstep (k : FillCtx) (ninst yy : Nat) (hs : k.sh = 0) (ht : k.tposp = true)
    (hnT : k.nT = k.times.length) (cs : List Nat) (i : Nat) (a b : FillSt) (hab : Sim a b)
    (hi : Stopped k a ∨ a.inst = i) :
    Sim (cs.foldl (dayF k ninst yy) a) (((setE k yy cs).zipIdx i).foldl (nstep k ninst) b) ∧
      (Stopped k (cs.foldl (dayF k ninst yy) a) ∨ (cs.foldl (dayF k ninst yy) a).inst = i + (setE k yy cs).length) := by
  induction cs generalizing i a b with
  | nil => exact ⟨hab, hi⟩
  | cons c cs ih =>
    obtain ⟨h1, h2⟩ := dayF_nstep k ninst yy c hs ht hnT i a b hab hi
    have h3 := ih (i + (dayE k yy c).length) _ _ h1 h2
    rw [List.foldl_cons, setE_cons, List.zipIdx_append, List.foldl_append, List.length_append, ← Nat.add_assoc]
    exact h3

/-- the period's tail without SHIFT when BYSETPOS numbers the instants: up to the counter, a fold of `pstep` over
the selected instants of the period's enumeration -/
theorem finishPeriod_tposp (k : FillCtx) (y : Nat) (cand : List Nat) (a b : FillSt) (hs : k.sh = 0)
    (ht : k.tposp = true) (hnT : k.nT = k.times.length) (hab : Sim a b) :
    Sim (finishPeriod k y cand a) ((selE k.pos (setE k y cand)).foldl (pstep k) { b with hit := false }) := by
  unfold finishPeriod emitPeriod
  have e1 : (if !k.tposp then clrPoss cand k.pos else cand) = cand := by rw [ht]; rfl
  have e2 : (if k.tposp then ({ a with inst := 0 } : FillSt) else a) = { a with inst := 0 } := by rw [ht]; rfl
  have e3 : shift { same := cand } y k.sh = { same := cand } := by rw [hs]; rfl
  have e4 : (if k.tposp then cntCand cand * k.nT else 0) = (setE k y cand).length := by
    rw [ht, setE_length, hnT]; rfl
  dsimp only
  rw [e1, e2, e3, e4]
  rw [List.foldl_cons, List.foldl_cons, List.foldl_cons, List.foldl_nil]
  show Sim (List.foldl _ (List.foldl (dayF k _ y) (List.foldl _ _ []) cand) []) _
  rw [List.foldl_nil, List.foldl_nil]
  rw [selE_eq, ← foldl_nstep_selF]
  have hab' : Sim ({ ({ a with inst := 0 } : FillSt) with hit := false }) { b with hit := false } :=
    ⟨hab.1, hab.2.1, rfl, hab.2.2.2⟩
  exact (emitSet_nstep k (setE k y cand).length y hs ht hnT cand 0 _ _ hab' (Or.inr rfl)).1

end Echse.Lemmas.RrCandRfc
