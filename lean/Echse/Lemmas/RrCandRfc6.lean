/-
  C01 for the YEARLY / MONTHLY filler models, part 6: the calendar repeats after 28 years (1901 – 2099) — day numbers,
  month lengths, weekdays, and with them the date limits of the specification (`sh28`).
-/
import Echse.Lemmas.RrCandRfc5
import Echse.Lemmas.RrRfcBase6
namespace Echse.Lemmas.RrCandRfc
open Echse.Rrule Echse.Instant Echse.Spec.RrOk Echse.Lemmas.RrCandOk Echse.Spec.Rfc Echse.Lemmas.RrRfc
open Echse.Spec.Cal Echse.Spec.RuleExt

/-- the same date `28 n` years later -/
def sh28 (x : Inst) (n : Nat) : Inst := { x with y := x.y + 28 * n }

theorem days_28 (y m d n : Nat) (h1 : 1901 ≤ y) (h2 : y + 28 * n ≤ 2099) :
    days (y + 28 * n) m d = days y m d + 10227 * n := by
  have k : ∀ z : Int, 1900 ≤ z → z ≤ 2099 → z / 100 - z / 400 = 15 := by intro z _ _; omega
  have q : ∀ z : Int, (z + 28 * n) / 4 = z / 4 + 7 * n := by intro z; omega
  unfold days
  by_cases c : m ≤ 2
  · simp only [c, if_true]
    have e : ((y + 28 * n : Nat) : Int) - 1 = ((y : Int) - 1) + 28 * n := by omega
    rw [e, q]
    have := k ((y : Int) - 1) (by omega) (by omega)
    have := k ((y : Int) - 1 + 28 * n) (by omega) (by omega)
    omega
  · simp only [c, if_false]
    have e : ((y + 28 * n : Nat) : Int) = (y : Int) + 28 * n := by omega
    rw [e, q]
    have := k (y : Int) (by omega) (by omega)
    have := k ((y : Int) + 28 * n) (by omega) (by omega)
    omega

theorem isLeap_28 (y n : Nat) (h1 : 1901 ≤ y) (h2 : y + 28 * n ≤ 2099) : isLeap (y + 28 * n) = isLeap y := by
  unfold isLeap
  have e1 : (y + 28 * n) % 4 = y % 4 := by omega
  have a : ∀ z : Nat, 1901 ≤ z → z ≤ 2099 → (decide (z % 4 = 0 ∧ (z % 100 ≠ 0 ∨ z % 400 = 0)) = decide (z % 4 = 0)) := by
    intro z _ _
    apply decide_eq_decide.mpr
    constructor
    · intro h; exact h.1
    · intro h; exact ⟨h, by omega⟩
  rw [a y h1 (by omega), a (y + 28 * n) (by omega) h2, e1]

theorem monthLen_28 (y m n : Nat) (h1 : 1901 ≤ y) (h2 : y + 28 * n ≤ 2099) :
    monthLen (y + 28 * n) m = monthLen y m := by
  unfold monthLen
  rw [isLeap_28 y n h1 h2]

theorem wdayOf_28 (d : Int) (n : Nat) : wdayOf (d + 10227 * n) = wdayOf d := by
  unfold wdayOf; omega

theorem dayOf_sh28 (x : Inst) (n : Nat) (h1 : 1901 ≤ x.y) (h2 : x.y + 28 * n ≤ 2099) :
    dayOf (sh28 x n) = dayOf x + 10227 * n := days_28 x.y x.m x.d n h1 h2

theorem mdayOk_sh28 (r : Rule) (x : Inst) (n : Nat) (h1 : 1901 ≤ x.y) (h2 : x.y + 28 * n ≤ 2099) :
    mdayOk r (sh28 x n) ↔ mdayOk r x := by
  unfold mdayOk sh28
  dsimp only
  rw [monthLen_28 x.y x.m n h1 h2]

theorem bydayLimit_sh28 (r : Rule) (x : Inst) (n : Nat) (h1 : 1901 ≤ x.y) (h2 : x.y + 28 * n ≤ 2099) :
    bydayLimit r (sh28 x n) ↔ bydayLimit r x := by
  unfold bydayLimit
  rw [dayOf_sh28 x n h1 h2, wdayOf_28]

theorem nth_shift (c lo hi dx a : Int) : NthWeekday c (lo + a) (hi + a) (dx + a) ↔ NthWeekday c lo hi dx := by
  unfold NthWeekday
  have e1 : dx + a - (lo + a) = dx - lo := by omega
  have e2 : hi + a - (dx + a) = hi - dx := by omega
  rw [e1, e2]
  constructor
  · rintro ⟨a1, a2, a3⟩; exact ⟨by omega, by omega, a3⟩
  · rintro ⟨a1, a2, a3⟩; exact ⟨by omega, by omega, a3⟩

theorem bydayInMonth_sh28 (r : Rule) (x : Inst) (n : Nat) (h1 : 1901 ≤ x.y) (h2 : x.y + 28 * n ≤ 2099) :
    bydayInMonth r (sh28 x n) ↔ bydayInMonth r x := by
  unfold bydayInMonth
  rw [dayOf_sh28 x n h1 h2, wdayOf_28]
  show (∃ t ∈ r.dow, wdOf t = wdayOf (dayOf x) ∧ (ordOf t = 0 ∨
    NthWeekday (ordOf t) (days (x.y + 28 * n) x.m 1) (days (x.y + 28 * n) x.m (monthLen (x.y + 28 * n) x.m))
      (dayOf x + 10227 * n))) ↔ _
  rw [monthLen_28 x.y x.m n h1 h2, days_28 x.y x.m 1 n h1 h2, days_28 x.y x.m _ n h1 h2]
  apply exists_congr; intro t
  apply and_congr Iff.rfl
  apply and_congr Iff.rfl
  apply or_congr Iff.rfl
  exact nth_shift _ _ _ _ _

theorem sameKind_sh28 (p x : Inst) (n : Nat) (h1 : 1901 ≤ x.y) (h2 : x.y + 28 * n ≤ 2099) :
    SameKind p (sh28 x n) ↔ SameKind p x := by
  unfold SameKind sh28
  dsimp only
  rw [monthLen_28 x.y x.m n h1 h2]

end Echse.Lemmas.RrCandRfc
