import Echse.Model.Rrule
import Driver.Util
open Echse.Rrule
namespace Driver

def showCand (l : List Nat) : String := if l.isEmpty then "-" else showList l

def parseIntList? (s : String) : Option (List Int) :=
  if s == "-" then some [] else (s.splitOn ",").mapM String.toInt?
def parseNatList? (s : String) : Option (List Nat) :=
  if s == "-" then some [] else (s.splitOn ",").mapM String.toNat?

/-- split the argument words at the `|` words -/
def splitBars (args : List String) : List (List String) :=
  args.foldr (fun w acc => if w == "|" then [] :: acc else match acc with
    | [] => [[w]]
    | a :: rest => (w :: a) :: rest) [[]]

def runRrule (op : String) (args : List String) : String :=
  match op, args with
  | "y.easter", [y] => match y.toNat? with | some y => toString (easterGetYday y) | none => "bad-op"
  | "y.wday", [y, m, d] => match y.toNat?, m.toNat?, d.toNat? with
    | some y, some m, some d => toString (ymdGetWday y m d) | _, _, _ => "bad-op"
  | "y.ndom", [y, m] => match y.toNat?, m.toNat? with
    | some y, some m => toString (getNdom y m) | _, _ => "bad-op"
  | "y.ydmd", [y, doy] => match y.toNat?, doy.toInt? with
    | some y, some doy => let md := ydToMd y doy; s!"{md.m} {md.d}" | _, _ => "bad-op"
  | "y.shift", y :: sh :: rest => match y.toNat?, sh.toInt?, parseNatList? (rest.headD "-") with
    | some y, some sh, some c =>
      let r := shift { same := c.foldl assC [] } y sh
      s!"{showCand r.same}|{showCand r.prev}|{showCand r.next}"
    | _, _, _ => "bad-op"
  | "y.eastr", y :: rest => match y.toNat?, splitBars rest with
    | some y, [[offs], [mon], [dom], [wd]] =>
      match parseIntList? offs, parseNatList? mon, parseIntList? dom, wd.toNat? with
      | some offs, some mon, some dom, some wd => showCand (fillYlyEastr [] y offs mon dom (wd % 256))
      | _, _, _, _ => "bad-op"
    | _, _ => "bad-op"
  | "y.clrposs", rest => match splitBars rest with
    | [[cand], [poss]] => match parseNatList? cand, parseIntList? poss with
      | some c, some p => showCand (clrPoss (c.foldl assC []) p)
      | _, _ => "bad-op"
    | _ => "bad-op"
  | "y.snarfshift", [hex] =>
    -- the SHIFT text, hex-encoded
    let rec unhex : List Char → Option (List Char)
      | a :: b :: r => do
        let x ← hexDigit? a; let y ← hexDigit? b; let t ← unhex r
        pure (Char.ofNat (x * 16 + y) :: t)
      | [] => some []
      | _ => none
    match unhex hex.toList with
    | some cs => toString (snarfShift (String.ofList cs))
    | none => "bad-op"
  | _, _ => "bad-op"

end Driver
