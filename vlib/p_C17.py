"""C17 — BYEASTER and SHIFT mean what the README says.

Three layers:
  * oracle on the real code (full parser + rule stream, `r.parse` / `r.strm`): Easter by the anonymous Gregorian
    computus, SHIFT by date arithmetic written from the README / property text, on rules whose unshifted result
    comes from the RFC 5545 reference expander;
  * oracle on the inner functions (`y.easter` for every year, `y.shift`, `y.eastr`, `y.snarfshift`);
  * correspondence of those inner functions with Echse.Model.Rrule (what the C17 theorems are about).
"""
import collections
import datetime as dt
import os

from . import common, p_strm, p_rr, rfc5545, rrgen
from .common import hex16


def computus(y):
    a = y % 19; b = y // 100; c = y % 100; d = b // 4; e = b % 4; f = (b + 8) // 25; g = (b - f + 1) // 3
    h = (19 * a + b - d - g + 15) % 30; i = c // 4; k = c % 4; l = (32 + 2 * e + 2 * i - h - k) % 7
    m = (a + 11 * h + 22 * l) // 451
    return dt.date(y, (h + l - 7 * m + 114) // 31, (h + l - 7 * m + 114) % 31 + 1)


def bday(d):
    return d.weekday() < 5


def step_b(d, back):
    one = dt.timedelta(days=1)
    d = d - one if back else d + one
    while not bday(d):
        d = d - one if back else d + one
    return d


def shift_b(d, count, back, keep):
    """the property's wording: a weekend date first moves to the adjacent business day in the direction of the shift
    (that step is the first of the N in the plain form, extra in the B+/B- form), then N business days"""
    if not bday(d):
        d = step_b(d, back)
        if not keep and count:
            count -= 1
    for _ in range(count):
        d = step_b(d, back)
    return d


class Shift:
    def __init__(self, days=0, b=None, back=False, keep=False):
        self.days, self.b, self.back, self.keep = days, b, back, keep

    def text(self):
        parts = []
        if self.days:
            parts.append("%d" % self.days)
        if self.b is not None:
            s = ("-" if self.back else "") + "%dB" % self.b
            if self.b == 0:
                s = "-0B" if self.back else "0B"
            elif self.keep:
                s += "-" if self.back else "+"
            parts.append(s)
        return ",".join(parts)

    def packed(self):
        if self.b is None:
            return self.days << 16
        return (self.days << 16) | (self.b << 2) | ((1 if (self.keep or self.b == 0) else 0) << 1) | (1 if self.back else 0)

    def apply(self, d):
        d = d + dt.timedelta(days=self.days)
        if self.b is not None:
            d = shift_b(d, self.b, self.back, self.keep)
        return d


def gen_shift(rng):
    z = rng.random()
    days = 0
    if z < 0.45 or rng.random() < 0.25:
        days = rng.choice([1, -1, 7, -16, 30, -30, 70, 365, -365, 366, -366, rng.randint(-366, 366)]) or 1
    if z < 0.45:
        return Shift(days)
    b = rng.choice([0, 0, 1, 1, 2, 4, 5, 6, 10, rng.randint(0, 40), rng.randint(0, 366)])
    back = rng.random() < 0.5
    keep = b != 0 and rng.random() < 0.4
    return Shift(days, b, back, keep)


def unshifted_dates(ds, r, lo_year, hi_year):
    """all dates the (YEARLY / MONTHLY, date-only) rule selects in [lo_year, hi_year], BYSETPOS applied, no DTSTART/COUNT/UNTIL;
    the period grid is DTSTART's"""
    r2 = rfc5545.Rule(**{**r.__dict__, "count": None, "until": None})
    # anchor: DTSTART moved back by whole intervals
    y0, m0, d0 = ds[:3]
    if r.freq == "YEARLY":
        k = (y0 - lo_year) // r.interval + 1
        anchor = (y0 - k * r.interval, m0, d0)
    else:
        k = ((y0 - lo_year) * 12 + 11) // r.interval + 1
        mm = y0 * 12 + (m0 - 1) - k * r.interval
        anchor = (mm // 12, mm % 12 + 1, d0)
    out = []
    for inst in rfc5545.periods(anchor + (None, None, None), r2, hi_year):
        inst = rfc5545._setpos(sorted(set(inst), key=rfc5545._key), r2)
        out += [dt.date(*t[:3]) for t in inst if lo_year <= t[0] <= hi_year]
    return out


def expected(ds, r, shift, easter, n):
    """occurrences per the property: unshifted set (or Easter + N), shifted, then DTSTART / UNTIL / COUNT"""
    start = dt.date(*ds[:3])
    lo, hi = max(1899, ds[0] - 3), p_rr.HORIZON          # base dates beyond the supported range are not expected
    if easter:
        base = []
        for y in range(lo, hi + 1, 1):
            if (y - ds[0]) % r.interval == 0:
                for off in easter:
                    base.append((y, computus(y) + dt.timedelta(days=off)))
        lit = [d for _, d in base]
        dropped = [d for y, d in base if d.year == y]                    # finding D61: offsets leaving the year vanish
    else:
        lit = dropped = unshifted_dates(ds, r, lo, hi)
    res = []
    for base in (lit, dropped):
        sh = sorted(set(shift.apply(d) if shift else d for d in base))
        sh = [d for d in sh if d >= start and d.year <= p_rr.HORIZON]
        if r.until is not None:
            sh = [d for d in sh if d <= dt.date(*r.until[:3])]
        if r.count is not None:
            sh = sh[:r.count]
        res.append([(d.year, d.month, d.day, None, None, None) for d in sh[:n]])
    return res


def gen_case(rng):
    ds = rrgen.gen_dtstart(rng, allday=True, lo=1905, hi=2085)
    easter = None
    if rng.random() < 0.15:
        # the last days of a period pushed over its end: the occurrence belongs to the period before DTSTART's, and with a
        # zero business-day shift (0B, 0B+, 1,0B) it is only a week-end that moves
        freq = rng.choice(["YEARLY", "YEARLY", "MONTHLY"])
        r = rfc5545.Rule(freq)
        r.bymonthday = sorted(set(rng.sample([-1, -2, 30, 31, 29], rng.randint(1, 3))))
        if freq == "YEARLY":
            r.bymonth = [12]
            y0 = ds[0]
            if rng.random() < 0.6:
                # a year whose eve is a Saturday or Sunday
                while dt.date(y0 - 1, 12, 31).weekday() < 5:
                    y0 = y0 + 1 if y0 < 2085 else 1906
            ds = (y0, 1, rng.choice([1, 1, 2, 3]), None, None, None)
        else:
            ds = (ds[0], ds[1], rng.choice([1, 1, 2, 3]), None, None, None)
        if rng.random() < 0.3:
            r.count = rng.choice([1, 3, 10, 70])
        sh = rng.choice([Shift(0, 0), Shift(0, 0, keep=True), Shift(1, 0), Shift(0, 1), Shift(0, 1, keep=True), Shift(2, None),
                         Shift(0, 2), Shift(1, 1)])
        return ds, r, sh, None
    if rng.random() < 0.35:
        r = rfc5545.Rule("YEARLY")
        if rng.random() < 0.2:
            r.interval = rng.choice([2, 3, 4])
        easter = sorted(set(rng.choice([0, 1, -2, -3, 39, 49, 50, 60, -46, -47, rng.randint(-120, 120), rng.randint(-366, 366)])
                            for _ in range(rng.randint(1, 3))))
    else:
        freq = rng.choice(["YEARLY", "MONTHLY"])
        r = rfc5545.Rule(freq)
        if rng.random() < 0.25:
            r.interval = rng.choice([2, 3, 5])
        shape = rng.choice(["md", "md", "ndow", "mon+md", "mon+ndow", "plain", "neg-md", "ends"])
        if "mon" in shape or (freq == "YEARLY" and shape in ("md", "ndow", "neg-md") and rng.random() < 0.7):
            r.bymonth = sorted(set(rng.randint(1, 12) for _ in range(rng.randint(1, 3))))
        if "md" in shape:
            r.bymonthday = [rng.choice([1, 15, 28, 29, 30, 31, -1, -2, rng.randint(1, 31)]) for _ in range(rng.randint(1, 2))]
            r.bymonthday = sorted(set(r.bymonthday))
        if shape == "ends":
            # month ends and starts: their shifted dates meet on one business day
            r.bymonthday = sorted(set(rng.sample([1, 2, 3, -1, -2, -3, 28, 29, 30, 31], rng.randint(2, 4))))
            if freq == "YEARLY":
                m0 = rng.randint(1, 11)
                r.bymonth = [m0, m0 + 1]
        if "ndow" in shape:
            r.byday = [(rng.choice([1, 2, 3, 4, -1, -2]), rng.randint(0, 6))]
        if rng.random() < 0.15 and (r.bymonthday or r.byday):
            r.bysetpos = [rng.choice([1, -1, 2])]
    z = rng.random()
    if z < 0.3:
        r.count = rng.choice([1, 3, 10, 65, 130])
    elif z < 0.5:
        r.until = (min(2098, ds[0] + rng.randint(0, 30)), rng.randint(1, 12), rng.randint(1, 28), None, None, None)
    shift = gen_shift(rng) if (not easter or rng.random() < 0.4) else None
    return ds, r, shift, easter


def rule_text(r, shift, easter):
    t = r.text()
    if easter:
        t += ";BYEASTER=" + ",".join(map(str, easter))
    if shift:
        t += ";SHIFT=" + shift.text()
    return t


def far_shift(ds, r, shift, easter):
    """finding D64's class: a shift that can carry a date beyond the neighbouring year"""
    if not shift:
        return False
    span = abs(shift.days) + (0 if shift.b is None else (shift.b * 7) // 5 + 4)
    return span >= 366


def run(ctx):
    rng = ctx.rng
    thorough = ctx.tier == "thorough"
    exs = p_strm.build(ctx)
    objs, log = ctx.lib_objects(exclude=("evrrul.c",))
    exr, log2 = ctx.cc("hx_rrul", [os.path.join(common.HARNESS, "hx_rrul.c")] + objs)
    if exr is None:
        raise common.Broken("harness hx_rrul does not compile against the working tree:\n" + log2[-1500:])
    fails, corr = [], []
    known = collections.Counter()
    # ---- 1. inner functions: oracle and correspondence ------------------------------------------------------------
    ops = ["y.easter %d" % y for y in range(1901, 2100)]
    neaster = len(ops)
    for _ in range(2500 if thorough else 500):
        y = rng.randint(1902, 2098)
        c = sorted(set(rng.randint(0, 11) * 32 + rng.randint(1, rfc5545.mlen(y, 1 + 0)) for _ in range(1)))
        m = rng.randint(1, 12)
        c = [(m - 1) * 32 + rng.randint(1, rfc5545.mlen(y, m))]
        sh = gen_shift(rng)
        ops.append("y.shift %d %d %s" % (y, sh.packed(), ",".join(map(str, c))))
    nshift = len(ops)
    for _ in range(800 if thorough else 200):
        y = rng.randint(1901, 2099)
        o = [rng.randint(-366, 366) for _ in range(rng.randint(1, 3))]
        o = sorted(set(x for x in o if x >= 0)) + sorted(set(x for x in o if x < 0), reverse=True)
        ops.append("y.eastr %d %s | - | - | 0" % (y, ",".join(map(str, o))))
    for _ in range(400 if thorough else 100):
        ops.append("y.wday %d %d %d" % (rng.randint(1901, 2099), rng.randint(1, 12), rng.randint(1, 28)))
        ops.append("y.ydmd %d %d" % (rng.randint(1901, 2099), rng.randint(-365, 365)))
        c = sorted(set(rng.randint(1, 383) for _ in range(rng.randint(0, 12))))
        p = [x for x in (rng.choice([1, 2, 3, -1, -2, rng.randint(-14, 14)]) for _ in range(rng.randint(1, 4))) if x]
        p = sorted(set(x for x in p if x >= 0)) + sorted(set(x for x in p if x < 0), reverse=True)
        if p:
            ops.append("y.clrposs %s | %s" % (",".join(map(str, c)) or "-", ",".join(map(str, p))))
    impl, st, err = ctx.impl(exr, ops)
    model = ctx.model(ops)
    corr += common.diff_lines(ops, impl, model)
    for i, op in enumerate(ops):
        a = impl[i] if i < len(impl) else "<no answer>"
        w = op.split()
        if w[0] == "y.easter":
            y = int(w[1])
            want = (computus(y) - dt.date(y, 1, 1)).days + 1
            if a != str(want):
                fails.append((op, "easter_get_yday(%d) = %s, the computus gives day %d (%s)" % (y, a, want, computus(y))))
        elif w[0] == "y.shift":
            y, packed, c = int(w[1]), int(w[2]), int(w[3])
            d0 = dt.date(y, c // 32 + 1, c % 32)
            days = packed >> 16
            low = packed & 0xffff
            sh = Shift(days, (low >> 2) if low else None, bool(low & 1), bool(low & 2) and (low >> 2) != 0)
            want = sh.apply(d0)
            bucket = 0 if want.year == y else 1 if want.year < y else 2
            exp = ["-", "-", "-"]
            exp[bucket] = str((want.month - 1) * 32 + want.day)
            exp = "|".join(exp)
            if a != exp:
                fails.append((op, "shift() of %s by SHIFT=%s gives %s, expected %s (%s)" % (d0, sh.text(), a, exp, want)))
            elif abs(want.year - y) > 1:
                known["far-shift"] += 1
        elif w[0] == "y.eastr":
            y = int(w[1])
            want = []
            for o in w[2].split(","):
                d = computus(y) + dt.timedelta(days=int(o))
                if d.year == y:
                    want.append((d.month - 1) * 32 + d.day)
                else:
                    known["easter-leaves-year"] += 1
            exp = ",".join(map(str, sorted(set(want)))) or "-"
            if a != exp:
                fails.append((op, "fill_yly_eastr gives %s, expected %s" % (a, exp)))
    # SHIFT text
    txts = []
    for _ in range(600 if thorough else 150):
        sh = gen_shift(rng)
        txts.append((sh.text(), sh.packed()))
    txts += [("0B+", 2), ("0B-", 3), ("-0B", 3), ("0B", 2), ("3,-0B", (3 << 16) | 3)]
    ops2 = ["y.snarfshift " + t.encode().hex() for t, _ in txts]
    # malformed texts: model correspondence only
    junk = ["".join(rng.choice("0123456789-+B,b; x") for _ in range(rng.randint(1, 8))) for _ in range(200 if thorough else 60)]
    ops2 += ["y.snarfshift " + t.encode().hex() for t in junk if t]
    impl2, st2, err2 = ctx.impl(exs, ops2)
    model2 = ctx.model(ops2)
    corr += common.diff_lines(ops2, impl2, model2)
    for i, (t, want) in enumerate(txts):
        a = impl2[i] if i < len(impl2) else "<no answer>"
        if a != str(want if want < 2 ** 31 else want - 2 ** 32) and a != str(want):
            fails.append((ops2[i], "snarf_shift(%r) = %s, expected %d" % (t, a, want)))
    # ---- 2. whole rules through parser and stream ----------------------------------------------------------------
    ncases = 1500 if thorough else 300
    cases = [gen_case(rng) for _ in range(ncases)]
    for l in common.load_corpus("C17"):
        pass
    texts = [rule_text(r, sh, ea) for _, r, sh, ea in cases]
    structs, st3, err3 = ctx.impl(exs, ["r.parse " + t.encode().hex() for t in texts])
    npop = 140
    ops3 = ["r.strm %s | from=%s n=%d" % (structs[i], hex16(ds[0], ds[1], ds[2], 255, 0, 0, 0), npop) for i, (ds, r, sh, ea) in enumerate(cases)]
    impl3, st3, err3 = ctx.impl(exs, ops3, timeout=60)
    model3 = ctx.model(ops3)
    corr += [d for d in common.diff_lines(ops3, impl3, model3) if d[3] != "unmodelled"]
    unmodelled = sum(1 for m in model3 if m == "unmodelled")
    shapes = collections.Counter()
    for i, (ds, r, sh, ea) in enumerate(cases):
        shapes[("easter" if ea else r.freq[:3]) + ("+shiftB" if sh and sh.b is not None else "+shift" if sh else "")] += 1
        got, gend = p_rr.decode(impl3[i] if i < len(impl3) else "<no answer>")
        lit, dropped = expected(ds, r, sh, ea, npop)
        if isinstance(got, str):
            fails.append((ops3[i], "DTSTART:%s RRULE:%s : %s" % (rrgen.dtstart_text(ds), texts[i], got)))
            continue
        got = [t for t in got if t[0] <= p_rr.HORIZON]
        if got == lit:
            continue
        if ea and got == dropped:
            known["easter-leaves-year"] += 1
            continue
        if far_shift(ds, r, sh, ea):
            known["far-shift"] += 1
            continue
        j = next((j for j in range(min(len(got), len(lit))) if got[j] != lit[j]), min(len(got), len(lit)))
        if sh and r.interval > 1 and j >= 63:
            known["shift-interval-refill"] += 1          # finding D66: phase lost at a refill
            continue
        fails.append((ops3[i], "DTSTART:%s RRULE:%s : occurrence %d is %s, expected %s (lengths %d/%d)" % (
            rrgen.dtstart_text(ds), texts[i], j, got[j:j + 2], lit[j:j + 2], len(got), len(lit))))
    kl = common.load_known("C17")
    for k in kl:
        if k.get("status") == "known" and known.get(k.get("class"), 0):
            ctx.known(k["what"])
    unlisted = [c for c in known if c not in {k.get("class") for k in kl if k.get("status") == "known"}]
    if unlisted and not fails:
        fails.append(("-", "deviations of class %s seen, which is not a recorded finding" % unlisted))
    ctx.cov.update({
        "evaluations": len(ops) + len(ops2) + len(ops3),
        "distinct_nontrivial": len(set(ops)) + len(set(ops2)) + len(set(ops3)),
        "traces_validated_against_impl": len(ops) + len(ops2) + len(ops3) - len(corr) - unmodelled,
        "rule": "easter_get_yday for every year 1901-2099 against the anonymous Gregorian computus; shift() on random dates x "
                "(day shifts -366..366, business-day shifts 0..366 in all four sign/B+/B- variants, both parts together); "
                "fill_yly_eastr with offsets -366..366; snarf_shift on every generated SHIFT text plus junk; then whole rules "
                "(YEARLY/MONTHLY with BYMONTH, BYMONTHDAY incl. negative and month ends, n-th weekdays, BYSETPOS, INTERVAL, COUNT, "
                "UNTIL, BYEASTER lists) with SHIFT through the real parser and rule stream, %d occurrences each, compared with the "
                "RFC 5545 reference expansion shifted by date arithmetic and then cut by DTSTART/UNTIL/COUNT; non-trivial = all" % npop,
        "samples": [texts[i] for i in sorted(rng.sample(range(len(texts)), 4))],
        "easter_years_enumerated": neaster,
        "rule_shapes": dict(shapes),
        "known_class_hits": dict(known),
        "stream_ops_not_modelled": unmodelled,
        "impl_vs_spec_failures": len(fails),
        "impl_vs_model_differences": len(corr),
        "exhaustive": False,
    })
    ctx.assumptions += ["SHIFT=NB read as: the N-th business day after (before) the date; a weekend date's step onto the adjacent "
                        "business day is the first of the N in the plain form and extra in the B+/B- form (pinned by test rrul_50)",
                        "dates only (all-day DTSTART): time-of-day expansion is C01's subject"]
    if fails:
        op, why = fails[0]
        ctx.violation("property", why, {"op": op, "failures_total": len(fails), "more": [w for _, w in fails[1:6]]})
    elif corr:
        i, op, a, b = corr[0]
        ctx.violation("correspondence", "implementation and model differ in %d ops; first: %s -> impl %s, model %s" % (len(corr), op[:160], a[:120], b[:120]),
                      {"correspondence": "Echse.Model.Rrule vs evrrul.c/evical.c (easter_get_yday, shift, fill_yly_eastr, snarf_shift, clr_poss)",
                       "op": op, "impl": a, "model": b}, found_input=False)


def replay(ctx, rep):
    op = rep["data"].get("op", "")
    if not op or op == "-":
        print("replay names no input: %s" % rep.get("what"))
        return 1
    exs = p_strm.build(ctx)
    objs, log = ctx.lib_objects(exclude=("evrrul.c",))
    exr, _ = ctx.cc("hx_rrul", [os.path.join(common.HARNESS, "hx_rrul.c")] + objs)
    exe = exr if op.startswith("y.") and not op.startswith("y.snarf") else exs
    out, st, _ = ctx.impl(exe, [op])
    print("impl :", out[0] if out else st)
    print("model:", ctx.model([op])[0])
    print("was  :", rep.get("what"))
    return 1
