"""Reference expander for RFC 5545 section 3.3.10 recurrence rules (the language property C01 names), written
from the RFC's text and its expand/limit table, independent of echse's cache/filler design.

  Rule(freq, interval, count, until, bymonth, byweekno, byyearday, bymonthday, byday, byhour, byminute, bysecond, bysetpos)
  expand(dtstart, rule, n, horizon)  ->  first n occurrences as tuples (y, m, d, H, M, S); H is None for DATE values

Weeks start on Monday (WKST=MO, the only value echse knows).  Occurrences are the rule's instants at or after
DTSTART (for a DTSTART that is not itself an instance the RFC leaves the set undefined; we use, as dateutil and
echse do, the rule's instants from DTSTART on and count only those).
"""
import datetime as _dt
from dataclasses import dataclass, field

FREQS = ["YEARLY", "MONTHLY", "WEEKLY", "DAILY", "HOURLY", "MINUTELY", "SECONDLY"]
WD = ["MO", "TU", "WE", "TH", "FR", "SA", "SU"]          # Monday = 0 here (date.weekday())


@dataclass
class Rule:
    freq: str
    interval: int = 1
    count: int = None
    until: tuple = None                   # (y, m, d, H, M, S) or (y, m, d, None, ...) inclusive
    bymonth: list = field(default_factory=list)
    byweekno: list = field(default_factory=list)
    byyearday: list = field(default_factory=list)
    bymonthday: list = field(default_factory=list)
    byday: list = field(default_factory=list)          # (ordinal or 0, weekday 0..6)
    byhour: list = field(default_factory=list)
    byminute: list = field(default_factory=list)
    bysecond: list = field(default_factory=list)
    bysetpos: list = field(default_factory=list)

    def text(self):
        p = ["FREQ=%s" % self.freq]
        if self.interval != 1:
            p.append("INTERVAL=%d" % self.interval)
        if self.count is not None:
            p.append("COUNT=%d" % self.count)
        if self.until is not None:
            u = self.until
            p.append("UNTIL=%04d%02d%02d" % u[:3] + ("" if u[3] is None else "T%02d%02d%02dZ" % u[3:6]))
        for k, v in (("BYMONTH", self.bymonth), ("BYWEEKNO", self.byweekno), ("BYYEARDAY", self.byyearday),
                     ("BYMONTHDAY", self.bymonthday), ("BYHOUR", self.byhour), ("BYMINUTE", self.byminute),
                     ("BYSECOND", self.bysecond), ("BYSETPOS", self.bysetpos)):
            if v:
                p.append("%s=%s" % (k, ",".join(map(str, v))))
        if self.byday:
            p.append("BYDAY=" + ",".join(("%d" % o if o else "") + WD[w] for o, w in self.byday))
        return ";".join(p)


def isleap(y):
    return y % 4 == 0 and (y % 100 != 0 or y % 400 == 0)


def mlen(y, m):
    return [31, 29 if isleap(y) else 28, 31, 30, 31, 30, 31, 31, 30, 31, 30, 31][m - 1]


def ylen(y):
    return 366 if isleap(y) else 365


def iso_weeks(y):
    """number of ISO weeks of year y"""
    return _dt.date(y, 12, 28).isocalendar()[1]


def week1_monday(y):
    j4 = _dt.date(y, 1, 4)
    return j4 - _dt.timedelta(days=j4.weekday())


def _pick(n, total):
    """index (1-based) selected by a positive or negative ordinal, or None"""
    if n > 0 and n <= total:
        return n
    if n < 0 and -n <= total:
        return total + 1 + n
    return None


def _days_of_year(y, r, dtstart):
    """the set of dates of year y a YEARLY rule selects (before time expansion)"""
    d0 = _dt.date(y, 1, 1)
    alldays = [d0 + _dt.timedelta(days=i) for i in range(ylen(y))]
    have_by = r.bymonth or r.byweekno or r.byyearday or r.bymonthday or r.byday
    if not have_by:
        m, d = dtstart[1], dtstart[2]
        return [_dt.date(y, m, d)] if d <= mlen(y, m) else []
    days = None                                    # None = not yet restricted

    def restrict(cur, s):
        s = set(s)
        return [x for x in (alldays if cur is None else cur) if x in s]
    if r.bymonth:
        days = restrict(days, [x for x in alldays if x.month in r.bymonth])
    if r.byweekno:
        # the days of year y whose ISO week has one of the numbers: weeks of y itself and, for the days of a first week lying
        # in the December before and of a last week lying in the January after, of the neighbouring ISO years
        sel = set()
        for iy in (y - 1, y, y + 1):
            nw = iso_weeks(iy)
            for w in r.byweekno:
                k = _pick(w, nw)
                if k is None:
                    continue
                mon = week1_monday(iy) + _dt.timedelta(days=7 * (k - 1))
                for i in range(7):
                    x = mon + _dt.timedelta(days=i)
                    if x.year == y:
                        sel.add(x)
        days = restrict(days, sel)
    if r.byyearday:
        sel = set()
        for n in r.byyearday:
            k = _pick(n, ylen(y))
            if k is not None:
                sel.add(d0 + _dt.timedelta(days=k - 1))
        days = restrict(days, sel)
    if r.bymonthday:
        sel = set()
        for x in alldays:
            for n in r.bymonthday:
                if _pick(n, mlen(y, x.month)) == x.day:
                    sel.add(x)
        days = restrict(days, sel)
    if r.byday:
        if r.byyearday or r.bymonthday:
            # limit: a plain weekday admits every such day; a numbered one (RFC 5545 3.3.10, BYDAY) the n-th such weekday
            # of the month when BYMONTH is given, of the year otherwise
            sel = set()
            if r.bymonth:
                for m in range(1, 13):
                    sel |= _month_bydays(y, m, r.byday)
            else:
                for o, w in r.byday:
                    cands = [x for x in alldays if x.weekday() == w]
                    if o == 0:
                        sel |= set(cands)
                    else:
                        k = _pick(o, len(cands))
                        if k is not None:
                            sel.add(cands[k - 1])
            days = [x for x in days if x in sel]
        elif r.byweekno:
            days = [x for x in days if any(x.weekday() == w for _, w in r.byday)]
        elif r.bymonth:
            sel = set()
            for m in r.bymonth:
                sel |= _month_bydays(y, m, r.byday)
            days = restrict(days, sel)
        else:
            sel = set()
            for o, w in r.byday:
                cands = [x for x in alldays if x.weekday() == w]
                if o == 0:
                    sel |= set(cands)
                else:
                    k = _pick(o, len(cands))
                    if k is not None:
                        sel.add(cands[k - 1])
            days = restrict(days, sel)
    elif not (r.byweekno or r.byyearday or r.bymonthday):
        # only BYMONTH: the day of month comes from DTSTART
        days = [x for x in days if x.day == dtstart[2]]
    if r.byweekno and not r.byday and not r.bymonthday and not r.byyearday:
        # nothing picks the day within the week: the weekday comes from DTSTART
        wd = _dt.date(*dtstart[:3]).weekday()
        days = [x for x in days if x.weekday() == wd]
    return sorted(days)


def _month_bydays(y, m, byday):
    sel = set()
    for o, w in byday:
        cands = [_dt.date(y, m, d) for d in range(1, mlen(y, m) + 1) if _dt.date(y, m, d).weekday() == w]
        if o == 0:
            sel |= set(cands)
        else:
            k = _pick(o, len(cands))
            if k is not None:
                sel.add(cands[k - 1])
    return sel


def _days_of_month(y, m, r, dtstart):
    if r.bymonth and m not in r.bymonth:
        return []
    alld = [_dt.date(y, m, d) for d in range(1, mlen(y, m) + 1)]
    if not r.bymonthday and not r.byday:
        return [x for x in alld if x.day == dtstart[2]]
    days = alld
    if r.bymonthday:
        days = [x for x in days if any(_pick(n, mlen(y, m)) == x.day for n in r.bymonthday)]
        if r.byday:
            # limit; a numbered weekday means the n-th one of the month
            sel = _month_bydays(y, m, r.byday)
            days = [x for x in days if x in sel]
    else:
        sel = _month_bydays(y, m, r.byday)
        days = [x for x in days if x in sel]
    return days


def _date_limit_ok(x, r):
    """BYMONTH / BYYEARDAY / BYMONTHDAY / BYDAY as limits (DAILY and below)"""
    if r.bymonth and x.month not in r.bymonth:
        return False
    if r.byyearday:
        yd = x.timetuple().tm_yday
        if not any(_pick(n, ylen(x.year)) == yd for n in r.byyearday):
            return False
    if r.bymonthday and not any(_pick(n, mlen(x.year, x.month)) == x.day for n in r.bymonthday):
        return False
    if r.byday and not any(x.weekday() == w for _, w in r.byday):
        return False
    return True


def _times(r, dtstart):
    """time-of-day expansion for DAILY and above"""
    if dtstart[3] is None:
        return [(None, None, None)]
    hs = sorted(set(r.byhour)) or [dtstart[3]]
    ms = sorted(set(r.byminute)) or [dtstart[4]]
    ss = sorted(set(r.bysecond)) or [dtstart[5]]
    return [(h, m, s) for h in hs for m in ms for s in ss]


def _setpos(inst, r):
    if not r.bysetpos:
        return inst
    out = set()
    for p in r.bysetpos:
        k = _pick(p, len(inst))
        if k is not None:
            out.add(inst[k - 1])
    return sorted(out, key=_key)


def _key(t):
    return (t[0], t[1], t[2], -1 if t[3] is None else t[3], t[4] or 0, t[5] or 0)


def periods(dtstart, r, horizon):
    """yield the sorted instance list of every period of the rule, in order"""
    y0, m0, d0 = dtstart[:3]
    i = r.interval
    if r.freq == "YEARLY":
        y = y0
        while y <= horizon:
            days = _days_of_year(y, r, dtstart)
            yield [(x.year, x.month, x.day) + t for x in days for t in _times(r, dtstart)]
            y += i
    elif r.freq == "MONTHLY":
        k = y0 * 12 + m0 - 1
        while k // 12 <= horizon:
            y, m = k // 12, k % 12 + 1
            days = _days_of_month(y, m, r, dtstart)
            yield [(x.year, x.month, x.day) + t for x in days for t in _times(r, dtstart)]
            k += i
    elif r.freq == "WEEKLY":
        start = _dt.date(y0, m0, d0)
        mon = start - _dt.timedelta(days=start.weekday())
        wds = sorted(set(w for _, w in r.byday)) or [start.weekday()]
        while mon.year <= horizon:
            days = [mon + _dt.timedelta(days=w) for w in wds]
            days = [x for x in days if not r.bymonth or x.month in r.bymonth]
            yield [(x.year, x.month, x.day) + t for x in days for t in _times(r, dtstart)]
            mon += _dt.timedelta(days=7 * i)
    elif r.freq == "DAILY":
        x = _dt.date(y0, m0, d0)
        while x.year <= horizon:
            if _date_limit_ok(x, r):
                yield [(x.year, x.month, x.day) + t for t in _times(r, dtstart)]
            else:
                yield []
            x += _dt.timedelta(days=i)
    else:
        unit = {"HOURLY": 3600, "MINUTELY": 60, "SECONDLY": 1}[r.freq]
        H0, M0, S0 = (dtstart[3] or 0, dtstart[4] or 0, dtstart[5] or 0)
        base = _dt.datetime(y0, m0, d0, H0, M0, S0)
        step = unit * i
        k = 0
        endt = _dt.datetime(horizon + 1, 1, 1)
        while True:
            x = base + _dt.timedelta(seconds=k * step)
            if x >= endt:
                return
            # fast skipping over filtered days / hours / minutes
            if not _date_limit_ok(x.date(), r):
                nxt = _dt.datetime(x.year, x.month, x.day) + _dt.timedelta(days=1)
                k += max(1, -(-int((nxt - x).total_seconds()) // step))
                yield []
                continue
            if r.byhour and x.hour not in r.byhour:
                nxt = x.replace(minute=0, second=0) + _dt.timedelta(hours=1)
                k += max(1, -(-int((nxt - x).total_seconds()) // step))
                yield []
                continue
            if r.freq == "HOURLY":
                ms = sorted(set(r.byminute)) or [M0]
                ss = sorted(set(r.bysecond)) or [S0]
                yield [(x.year, x.month, x.day, x.hour, m, s) for m in ms for s in ss]
                k += 1
                continue
            if r.byminute and x.minute not in r.byminute:
                nxt = x.replace(second=0) + _dt.timedelta(minutes=1)
                k += max(1, -(-int((nxt - x).total_seconds()) // step))
                yield []
                continue
            if r.freq == "MINUTELY":
                ss = sorted(set(r.bysecond)) or [S0]
                yield [(x.year, x.month, x.day, x.hour, x.minute, s) for s in ss]
                k += 1
                continue
            if r.bysecond and x.second not in r.bysecond:
                yield []
                k += 1
                continue
            yield [(x.year, x.month, x.day, x.hour, x.minute, x.second)]
            k += 1


def expand(dtstart, r, n, horizon=2099, budget=400000):
    """first n occurrences and why the list ends: 'count', 'until' (the stream ends there), 'n' (cut at n), 'horizon' (no
    further occurrence up to the end of the horizon year), 'budget' (gave up looking)"""
    out = []
    ks = _key(dtstart)
    work = 0
    for inst in periods(dtstart, r, horizon):
        work += 1
        if work > budget:
            return out, 'budget'
        inst = _setpos(sorted(set(inst), key=_key), r)
        for t in inst:
            if _key(t) < ks:
                continue
            if t[0] > horizon:
                return out, 'horizon'
            if r.until is not None and _key(t) > _key(r.until if r.until[3] is not None or t[3] is None else r.until[:3] + (23, 59, 59)):
                return out, 'until'
            out.append(t)
            if r.count is not None and len(out) >= r.count:
                return out, 'count'
            if len(out) >= n:
                return out, 'n'
    return out, 'horizon'
