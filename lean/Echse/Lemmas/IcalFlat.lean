/-
  C10 lemmas: the four nested fuelled loops of the model (`pull`, `pullIns`, `pullEv`, `drain`) as ONE loop
  over rounds of `_ical_pull` (`flat`, `drain_flat`), and each loop with one round unfolded.
-/
import Echse.Lemmas.Ical6
namespace Echse.Ical

/-- the four nested loops of the model as ONE loop over rounds of `_ical_pull` -/
def flat : Nat → Parser → List Instr → Parser × List Instr
  | 0, p, acc => (p, acc)
  | f+1, p, acc =>
    match (round p).2 with
    | none => flat f (round p).1 acc
    | some .need => ((round p).1, acc)
    | some .eop => flat f (resetMeth (round p).1) acc
    | some (.ve ls) =>
      if verbOf (round p).1.comp.meth ls == "X" then flat f (round p).1 acc
      else flat f (round p).1 (acc ++ [mkInstr (round p).1 ls])

theorem round_mu_none (p : Parser) (h : (round p).2 = none) : mu (round p).1 < mu p :=
  round_mu p (by rw [h]; simp)

theorem round_mu_eop (p : Parser) (h : (round p).2 = some .eop) : mu (round p).1 < mu p :=
  round_mu p (by rw [h]; simp)

theorem round_mu_ve (p : Parser) (ls : List (List Byte)) (h : (round p).2 = some (.ve ls)) :
    mu (round p).1 < mu p :=
  round_mu p (by rw [h]; simp)

/-- `pull` with enough fuel, one round unfolded -/
theorem pull_round' (f : Nat) (p : Parser) (hf : mu p < f) :
    pull f p =
      match (round p).2 with
      | none => pull f (round p).1
      | some r => ((round p).1, r) := by
  cases f with
  | zero => omega
  | succ f' =>
    rw [pull_round]
    cases h : (round p).2 with
    | none =>
      rw [cont_none _ _ h]
      have := round_mu_none p h
      exact loop_fuel' pull_isLoop round_good f' (f'+1) _ (by omega) (by omega)
    | some r => rw [cont_some _ _ r h]

theorem insStep_round (p : Parser) :
    insStep p =
      match (round p).2 with
      | none => insStep (round p).1
      | some .need => ((round p).1, some .need)
      | some .eop => (resetMeth (round p).1, none)
      | some (.ve ls) => ((round p).1, some (.ve ls)) := by
  have e := pull_round' _ p (mu_lt_fuel p)
  cases h : (round p).2 with
  | none =>
    rw [h] at e
    dsimp only at e ⊢
    unfold insStep
    rw [round_buf, e]
  | some r =>
    rw [h] at e
    dsimp only at e
    unfold insStep
    rw [e]
    cases r <;> rfl

/-- `pullIns` with enough fuel, one round unfolded -/
theorem pullIns_round (f : Nat) (p : Parser) (hf : mu p < f) :
    pullIns f p =
      match (round p).2 with
      | none => pullIns f (round p).1
      | some .need => ((round p).1, .need)
      | some .eop => pullIns f (resetMeth (round p).1)
      | some (.ve ls) => ((round p).1, .ve ls) := by
  cases f with
  | zero => omega
  | succ f' =>
    rw [pullIns_step, insStep_round]
    cases h : (round p).2 with
    | none => dsimp only; rw [pullIns_step]
    | some r =>
      cases r with
      | need => rfl
      | eop =>
        dsimp only
        rw [cont_none _ _ rfl]
        have := round_mu_eop p h
        exact loop_fuel' pullIns_isLoop insStep_good f' (f'+1) _
          (by rw [mu_resetMeth]; omega) (by rw [mu_resetMeth]; omega)
      | ve ls => rfl

theorem resetMeth_buf (p : Parser) : (resetMeth p).buf = p.buf := rfl

theorem evStep_round (p : Parser) :
    evStep p =
      match (round p).2 with
      | none => evStep (round p).1
      | some .need => ((round p).1, some .need)
      | some .eop => evStep (resetMeth (round p).1)
      | some (.ve ls) =>
        if verbOf (round p).1.comp.meth ls == "X" then ((round p).1, none)
        else ((round p).1, some (.ve ls)) := by
  have e := pullIns_round _ p (mu_lt_fuel p)
  cases h : (round p).2 with
  | none =>
    rw [h] at e
    dsimp only at e ⊢
    unfold evStep
    rw [round_buf, e]
  | some r =>
    rw [h] at e
    cases r with
    | need =>
      dsimp only at e ⊢
      unfold evStep
      rw [e]
    | eop =>
      dsimp only at e ⊢
      unfold evStep
      rw [resetMeth_buf, round_buf, e]
    | ve ls =>
      dsimp only at e ⊢
      unfold evStep
      rw [e]

/-- `pullEv` with enough fuel, one round unfolded -/
theorem pullEv_round (f : Nat) (p : Parser) (hf : mu p < f) :
    pullEv f p =
      match (round p).2 with
      | none => pullEv f (round p).1
      | some .need => ((round p).1, .need)
      | some .eop => pullEv f (resetMeth (round p).1)
      | some (.ve ls) =>
        if verbOf (round p).1.comp.meth ls == "X" then pullEv f (round p).1 else ((round p).1, .ve ls) := by
  cases f with
  | zero => omega
  | succ f' =>
    rw [pullEv_step, evStep_round]
    cases h : (round p).2 with
    | none => dsimp only; rw [pullEv_step]
    | some r =>
      cases r with
      | need => rfl
      | eop => dsimp only; rw [pullEv_step]
      | ve ls =>
        dsimp only
        have := round_mu_ve p ls h
        split
        · rw [cont_none _ _ rfl]
          exact loop_fuel' pullEv_isLoop evStep_good f' (f'+1) (round p).1 (by omega) (by omega)
        · rfl

theorem drain_fuel' (f g : Nat) (p : Parser) (acc : List Instr) (hf : mu p < f) (hg : mu p < g) :
    drain f p acc = drain g p acc := by
  have h1 := drain_fuel (mu p + 1) (f - (mu p + 1)) p acc (by omega)
  have h2 := drain_fuel (mu p + 1) (g - (mu p + 1)) p acc (by omega)
  have e1 : mu p + 1 + (f - (mu p + 1)) = f := by omega
  have e2 : mu p + 1 + (g - (mu p + 1)) = g := by omega
  rw [e1] at h1; rw [e2] at h2
  rw [h1, h2]

/-- `drain` with enough fuel, one round unfolded -/
theorem drain_round (f : Nat) (p : Parser) (acc : List Instr) (hf : mu p < f) :
    drain f p acc =
      match (round p).2 with
      | none => drain f (round p).1 acc
      | some .need => ((round p).1, acc)
      | some .eop => drain f (resetMeth (round p).1) acc
      | some (.ve ls) =>
        if verbOf (round p).1.comp.meth ls == "X" then drain f (round p).1 acc
        else drain f (round p).1 (acc ++ [mkInstr (round p).1 ls]) := by
  cases f with
  | zero => omega
  | succ f' =>
    have e := pullEv_round _ p (mu_lt_fuel p)
    rw [drain_succ]
    cases h : (round p).2 with
    | none =>
      rw [h] at e
      dsimp only at e ⊢
      rw [drain_succ, round_buf, e]
    | some r =>
      rw [h] at e
      cases r with
      | need => dsimp only at e ⊢; rw [e]
      | eop =>
        dsimp only at e ⊢
        rw [drain_succ, resetMeth_buf, round_buf, e]
      | ve ls =>
        dsimp only at e ⊢
        have := round_mu_ve p ls h
        by_cases hx : (verbOf (round p).1.comp.meth ls == "X") = true
        · rw [if_pos hx] at e ⊢
          rw [drain_succ, round_buf, e]
        · rw [if_neg hx] at e ⊢
          rw [e]
          exact drain_fuel' f' (f'+1) (round p).1 _ (by omega) (by omega)

theorem flat_zero (p : Parser) (acc : List Instr) : flat 0 p acc = (p, acc) := by rw [flat]

theorem flat_succ (f : Nat) (p : Parser) (acc : List Instr) :
    flat (f+1) p acc =
      match (round p).2 with
      | none => flat f (round p).1 acc
      | some .need => ((round p).1, acc)
      | some .eop => flat f (resetMeth (round p).1) acc
      | some (.ve ls) =>
        if verbOf (round p).1.comp.meth ls == "X" then flat f (round p).1 acc
        else flat f (round p).1 (acc ++ [mkInstr (round p).1 ls]) := by
  rw [flat]

theorem drain_flat_aux : ∀ (f g : Nat) (p : Parser) (acc : List Instr), mu p < f → mu p < g →
    drain g p acc = flat f p acc
  | 0, g, p, acc, hf, hg => by omega
  | f+1, g, p, acc, hf, hg => by
    rw [drain_round g p acc hg, flat_succ]
    cases h : (round p).2 with
    | none =>
      have := round_mu_none p h
      exact drain_flat_aux f g _ acc (by omega) (by omega)
    | some r =>
      cases r with
      | need => rfl
      | eop =>
        have := round_mu_eop p h
        exact drain_flat_aux f g _ acc (by rw [mu_resetMeth]; omega) (by rw [mu_resetMeth]; omega)
      | ve ls =>
        have := round_mu_ve p ls h
        dsimp only
        rw [drain_flat_aux f g (round p).1 acc (by omega) (by omega),
          drain_flat_aux f g (round p).1 (acc ++ [mkInstr (round p).1 ls]) (by omega) (by omega)]

/-- the callers' loop with enough fuel is the flat loop over rounds (with enough fuel) -/
theorem drain_flat (f g : Nat) (p : Parser) (acc : List Instr) (hf : mu p < f) (hg : mu p < g) :
    drain g p acc = flat f p acc :=
  drain_flat_aux f g p acc hf hg

theorem drain_flat_std (p : Parser) (acc : List Instr) :
    drain (p.buf.length + 2) p acc = flat (mu p + 1) p acc :=
  drain_flat _ _ p acc (by omega) (mu_lt_fuel p)

end Echse.Ical
