/-
  Model of src/scale.c: Gregorian / arithmetic Hijri (Gent, types I-IV, astronomical and
  civil epoch) / table Hijri (Umm al-Qura, Diyanet) day-number conversions,
  `echs_scale_ndim`, `echs_scale_wday`, `echs_instant_rescale`.

  `unsigned int` values are `Nat`s reduced `% 2^32` where the C expression can wrap;
  the signed parts (`__fdiv`, Gent's k) are `Int`.  Tables come from the generated
  `Echse.Gen.Hijri`.  Hand transcription tied to the C code by vlib/p_C15.py (all
  days of 1901-2099 x 10 scales in the thorough tier).
-/
import Echse.Gen.Hijri
namespace Echse.Scale
open Echse.Gen

def W : Nat := 4294967296
def u32 (z : Int) : Nat := (z % (W : Int)).toNat
/-- value of an `unsigned int` reinterpreted as `int` -/
def s32 (n : Nat) : Int := if n % W < 2147483648 then (n % W : Nat) else (n % W : Nat) - (W : Int)

structure Ymd where
  y : Nat
  m : Nat
  d : Nat
deriving DecidableEq, Repr, Inhabited

/-- `__fdiv` : floor division for positive `den` -/
def fdiv (num den : Int) : Int := num.tdiv den - (if num.tmod den < 0 then 1 else 0)

/-- scales: 0 Gregorian, 1..8 arithmetic Hijri (type = (s-1)/2, epoch = (s-1)%2), 9 Umm al-Qura, 10 Diyanet -/
def scalTyp (s : Nat) : Nat := (s - 1) / 2
def scalEpo (s : Nat) : Nat := (s - 1) % 2
def tsh (t : Nat) : Int := s32 (scaleTsh.getD t 0)
def epo (e : Nat) : Nat := scaleEpo.getD e 0

/-- `g2mjd` -/
def g2mjd (g : Ymd) : Nat :=
  let b := u32 ((g.y : Int) + 100100 + ((g.m : Int) - 8).tdiv 6)
  let d := (b * 1461) % W / 4
  let d := (d + (153 * ((g.m + 9) % 12) + 2) / 5 + g.d) % W
  u32 ((d : Int) - ((b / 100 * 3) % W / 4 : Nat) + 752 - 34840408 - 2400000)

/-- `mjd2g` -/
def mjd2g (d0 : Nat) : Ymd :=
  let d := (d0 + 2400000) % W
  let j := (4 * d + 139361631) % W
  let j := u32 ((j : Int) + (((((4 * d + 183187720) % W) / 146097 * 3) % W / 4 * 4) % W : Nat) - 3908)
  let i := ((j % 1461) / 4) * 5 + 308
  let gd := (i % 153) / 5 + 1
  let gm := (i / 153) % 12 + 1
  let gy := u32 ((j / 1461 : Nat) - 100100 + (s32 (u32 (8 - (gm : Int)))).tdiv 6)
  ⟨gy, gm, gd⟩

/-- `hij2mjd` -/
def hij2mjd (t e : Nat) (h : Ymd) : Nat :=
  let doy := hijMonthStart.getD h.m 0 + h.d
  let cyc := h.y / 30
  let k : Int := (h.y % 30 : Nat)
  let z1 := u32 (((cyc * 10631) % W : Nat) + fdiv (k * 1063100 + tsh t) 3000 + doy)
  u32 ((z1 : Int) + epo e - 2400000)

/-- `mjd2hij` -/
def mjd2hij (t e : Nat) (j : Nat) : Ymd :=
  let z := u32 ((j : Int) + 2400000 - epo e)
  let cyc := z / 10631
  let z1 : Int := (z % 10631 : Nat)
  let k := fdiv (3000 * z1 - tsh t) 1063100
  let z2 := u32 (z1 - fdiv (k * 1063100 + tsh t) 3000)
  let y := u32 ((30 * cyc : Nat) + k)
  let m := if z2 < 355 then ((10000 * z2 + 285001) % W) / 295000 else 12
  let d := u32 ((z2 : Int) - ((u32 (295001 * (m : Int) - 290000)) / 10000 : Nat))
  ⟨y, m, d⟩

/-- table calendars: `cal = SM :: EM :: MT`, `nm = cal.length - 2` -/
def calSM (cal : List Nat) : Nat := cal.getD 0 0
def calMT (cal : List Nat) (i : Nat) : Nat := cal.getD (i + 2) 0
def calNM (cal : List Nat) : Nat := cal.length - 2

/-- `ht2mjd` (0 = outside the table) -/
def ht2mjd (cal : List Nat) (h : Ymd) : Nat :=
  let i := u32 (((h.y : Int) - 1) * 12 + ((h.m : Int) - 1) - calSM cal)
  if i + 1 ≥ calNM cal then 0 else (calMT cal i + u32 ((h.d : Int) - 1)) % W      -- `i >= nm - 1U`: the last entry is the table's end

/-- the scan `for (i = 0; i < nm && MT[i] <= d; i++);` over the transitions `mt`, counting from `i` -/
def htScan : List Nat → Nat → Nat → Nat
  | [], _, i => i
  | x :: xs, d, i => if x ≤ d then htScan xs d (i + 1) else i

/-- `mjd2ht` (`⟨0,0,0⟩` = nil) -/
def mjd2ht (cal : List Nat) (d : Nat) : Ymd :=
  let i := htScan (cal.drop 2) d 0
  if i = 0 ∨ i ≥ calNM cal then ⟨0, 0, 0⟩
  else
    let m := i + calSM cal
    ⟨(m - 1) / 12 + 1, (m - 1) % 12 + 1, d - calMT cal (i - 1) + 1⟩

def ndimHt (cal : List Nat) (y m : Nat) : Nat :=
  let i := u32 (((y : Int) - 1) * 12 + ((m : Int) - 1) - calSM cal)
  if i ≥ calNM cal - 1 then 0 else calMT cal (i + 1) - calMT cal i

def ndimGreg (y m : Nat) : Nat :=
  scaleMdays.getD m 0 + (if y % 4 = 0 ∧ m = 2 then 1 else 0)

def hijIntyP (t : Nat) (y : Nat) : Bool :=
  let k : Int := (y % 30 : Nat)
  fdiv ((k + 1) * 1063100 + tsh t) 3000 - fdiv (k * 1063100 + tsh t) 3000 == 355

def ndimHij (t : Nat) (y m : Nat) : Nat :=
  29 + m % 2 + (if m = 12 ∧ hijIntyP t y then 1 else 0)

/-- `__wday_greg` (Sakamoto); MON = 1 … SUN = 7 -/
def wdayGreg (y m d : Nat) : Nat :=
  let y := if m < 3 then u32 ((y : Int) - 1) else y
  let res := (y + y / 4 + W - y / 100 + y / 400) % W
  let res := (res + sakamotoT.getD (m - 1) 0 + d) % W
  if res % 7 = 0 then 7 else res % 7

def wdayOfMjd (j : Nat) : Nat := ((j + 1) % W) % 7 + 1

def tableOf (s : Nat) : List Nat := if s = 9 then datUmmulqura else datDiyanet

/-- `echs_scale_ndim` -/
def scaleNdim (s y m : Nat) : Nat :=
  if s = 0 then ndimGreg y m
  else if s ≤ 8 then ndimHij (scalTyp s) y m
  else if s ≤ 10 then ndimHt (tableOf s) y m
  else 0

/-- `echs_scale_wday` -/
def scaleWday (s y m d : Nat) : Nat :=
  if s = 0 then wdayGreg y m d
  else if s ≤ 8 then wdayOfMjd (hij2mjd (scalTyp s) (scalEpo s) ⟨y, m, d⟩)
  else if s ≤ 10 then
    let j := ht2mjd (tableOf s) ⟨y, m, d⟩
    if j = 0 then 0 else wdayOfMjd j          -- `MIR` for a date the table has not got
  else 0

/-- source half of `echs_instant_rescale`: date in scale `s` to MJD (`none` = goto nul) -/
def toMjd (s : Nat) (h : Ymd) : Option Nat :=
  if s = 0 then some (g2mjd h)
  else if s ≤ 8 then some (hij2mjd (scalTyp s) (scalEpo s) h)
  else if s ≤ 10 then
    let d := ht2mjd (tableOf s) h
    if d = 0 then none else some d
  else none

/-- target half: MJD to date in scale `s` (`none` = goto nul, i.e. year 0) -/
def ofMjd (s : Nat) (d : Nat) : Option Ymd :=
  let r := if s = 0 then mjd2g d
           else if s ≤ 8 then mjd2hij (scalTyp s) (scalEpo s) d
           else if s ≤ 10 then mjd2ht (tableOf s) d
           else ⟨0, 0, 0⟩
  if r.y = 0 ∨ s > 10 then none else some r

/-- `echs_instant_rescale` on the date part (time-of-day and zone bits are carried over unchanged);
the result's y, m, d are truncated to the instant's bit fields (12 / 4 / 6 bits below the scale and zone bits). -/
def rescale (src tgt : Nat) (h : Ymd) : Option Ymd :=
  if src = tgt then some h
  else match toMjd src h with
    | none => none
    | some d => ofMjd tgt d

end Echse.Scale
