/-
  Property C16: a recurrence rule's occurrences come out in strictly ascending order, none before DTSTART, none
  after UNTIL, at most COUNT of them -- for every prefix of the stream, across any number of refills.

  What is modelled (Echse/Model/Rr*.lean): the seven fillers `rrul_fill_{yly,mly,wly,dly,Hly,Mly,Sly}` of
  src/evrrul.c (`fillYly … fillSly`, dispatched by `fill`), and on top of them the rule stream of src/evical.c:
  `__make_evrrul` with `fix_rrul_dflts` (`mkStrm`, `fixDflts`), `refill` with the 64-entry cache, the occurrence
  held back as the seed of the next refill, the COUNT bookkeeping and the sort, and `next_evrrul` (`pop`);
  `pops n s` is the list of the first `n` occurrences and whether the stream ended.  SCALE=GREGORIAN, no zone.
  The specification is Echse/Spec/RrOk.lean (`WfRule`: what the parser can hand out; `WfInst`: a real date
  1601..2100 with a time of day or all-day; `FillOk`, `StreamOk`).

  Hypotheses, and why they are there:
  * (gone: `KindOk r ds` -- RFC 5545: no BYHOUR / BYMINUTE / BYSECOND when DTSTART is a DATE.  The yearly, monthly,
    weekly and daily filler used to expand these parts all the same and wrote instants with hour ALL_DAY and a minute.
    Since `make_enum` ignores them next to a DATE value (RFC 5545, 3.3.10: "MUST be ignored") the hypothesis is not
    needed for any frequency: `kind_not_needed`, `kind_not_needed_stream` are the former counterexample, now sane.
    The sub-daily fillers read a DATE seed as midnight and never needed it.)
  * `ShiftOk r` -- echse's SHIFT extension is absent, or moves by at most 365 calendar days (`SHIFT=n`), or by at
    most 250 business days (`SHIFT=nB`, `nB+`, `nB-`, `-nB`, …), so that a date stays within the neighbouring year.
    A far SHIFT writes dates that do not exist (`needs_shiftOk`: SHIFT=-672 yields 2021-02-29).  NOT covered: a
    SHIFT with both parts (`SHIFT=n,mB`) -- open.  (The SHIFT lemmas used here, RrAsm3/4/9, are about echse's own
    every-fourth-year calendar and hold for all years; C17's are against the Gregorian calendar, 1902..2098.)
  It is needed for "every occurrence is a sane instant" (`stream_sane`; `needs_shiftOk_stream`), i.e. for the `wf`
  part of the fillers' contract `FillOk`, on which the stream proof leans because what a filler writes last is the
  seed of the next filler call; whether order and bounds alone (`StreamOk`) can fail without it is not settled.
  Proofs: Echse/Lemmas/RrAsm1..12 (assembly), RrStrmOk (stream invariant), Rr{Yly,Mly,Wly,Dly,Hly,Mnly,Sly}Ok.
-/
import Echse.Lemmas.RrAsm8
import Echse.Props.C17
namespace C16
open Echse.Rrule Echse.Instant Echse.Spec.RrOk
open Echse.Lemmas.RrStrmOk Echse.Lemmas.RrAsm

/-! ### the hypothesis, spelt out -/

theorem shiftOk_def (r : Rule) :
    ShiftOk r ↔ (r.shift = 0 ∨ (∃ n : Int, r.shift = n * 65536 ∧ -365 ≤ n ∧ n ≤ 365) ∨
      (0 < r.shift ∧ r.shift < 65536 ∧ r.shift / 4 ≤ 250)) := Iff.rfl
/-- `n * 65536` is what the parser makes of `SHIFT=n` (C17 `snarf_days`) -/
theorem shiftOk_text (r : Rule) (n : Int) (hn : -365 ≤ n ∧ n ≤ 365) (h : r.shift = snarfShift (toString n)) : ShiftOk r :=
  Or.inr (Or.inl ⟨n, by rw [h, Echse.RuleExt.snarf_days n (by omega)], hn⟩)
/-- `mkShift 0 count back keep` is what the parser makes of `SHIFT=countB` (`back`: `-countB`, `keep`: the `B+` / `B-`
forms; C17 `snarf_bdays`, `snarf_bdays_keep_fwd`, …) -/
theorem shiftOk_bdays (r : Rule) (count : Nat) (back keep : Bool) (hc : 1 ≤ count ∧ count ≤ 250)
    (h : r.shift = C17.mkShift 0 count back keep) : ShiftOk r := by
  refine Or.inr (Or.inr ?_)
  rw [h]
  unfold BdayOnly C17.mkShift
  have hc0 : ¬ count = 0 := by omega
  cases back <;> cases keep <;> simp [hc0] <;> omega

/-! ### one filler call -/

/-- every filler call delivers at most `n` and at most COUNT sane instants, none before its seed, none after UNTIL,
strictly ascending -/
theorem fill_ok (r : Rule) (p : Inst) (n : Nat) (l : List Inst) (hr : WfRule r) (hp : WfInst p)
    (hs : ShiftOk r) (hn : n ≤ 64) (h : fill r p n = some l) : FillOk r p n l :=
  fill_contract r p n l hr hp hs hn h

/-- … and what it writes has the kind of its seed: an all-day instant only from an all-day seed (the sub-daily fillers
never write one) -/
theorem fill_keeps_kind (r : Rule) (p : Inst) (n : Nat) (l : List Inst) (hr : WfRule r) (hp : WfInst p)
    (h : fill r p n = some l) : ∀ x ∈ l, x.H = allDay → p.H = allDay :=
  fill_allDay_of_seed r p n l hr hp h

/-- … for the yearly, monthly, weekly and daily filler: all-day exactly if the seed is (BYHOUR is ignored next to a DATE) -/
theorem fill_same_kind (r : Rule) (p : Inst) (n : Nat) (l : List Inst) (hr : WfRule r) (hp : WfInst p)
    (hf : r.freq ≤ 4) (h : fill r p n = some l) : ∀ x ∈ l, (x.H = allDay ↔ p.H = allDay) :=
  Echse.Lemmas.RrAsm.fill_same_kind r p n l hr hp hf h

/-- (the former statement, kept: the RFC's "no BYHOUR / BYMINUTE / BYSECOND next to a DATE" goes from seed to seed) -/
theorem fill_hands_on_kind (r : Rule) (p : Inst) (n : Nat) (l : List Inst) (hr : WfRule r) (hp : WfInst p)
    (hk : p.H = allDay → r.H = [] ∧ r.M = [] ∧ r.S = []) (h : fill r p n = some l) :
    ∀ x ∈ l, x.H = allDay → r.H = [] ∧ r.M = [] ∧ r.S = [] :=
  fun x hx ha => hk (fill_keeps_kind r p n l hr hp h x hx ha)

/-! ### the stream -/

/-- every prefix of every stream is strictly ascending, not before DTSTART, not after UNTIL, at most COUNT long -/
theorem stream_ordered_bounded (r : Rule) (ds : Inst) (hr : WfRule r) (hd : WfInst ds)
    (hs : ShiftOk r) (n : Nat) (l : List Inst) (ended : Bool) (h : pops n (mkStrm r ds) = some (l, ended)) :
    StreamOk r ds l :=
  pops_ok_of strm_contract r ds hr hd (strmK_start r ds hs) n l ended h

/-- every occurrence handed out is a sane instant: a real date 1601..2100, all-day or with a proper time of day -/
theorem stream_sane (r : Rule) (ds : Inst) (hr : WfRule r) (hd : WfInst ds)
    (hs : ShiftOk r) (n : Nat) (l : List Inst) (ended : Bool) (h : pops n (mkStrm r ds) = some (l, ended)) :
    ∀ x ∈ l, WfInst x :=
  pops_wf_of strm_contract r ds hr hd (strmK_start r ds hs) n l ended h

/-- COUNT reached means end of stream: once COUNT occurrences are out, the next pop yields nothing -/
theorem stream_ends_after_count (r : Rule) (ds : Inst) (hr : WfRule r) (hd : WfInst ds)
    (hs : ShiftOk r) (hcnt : 0 < r.count) (n : Nat) (l : List Inst) (ended : Bool)
    (h : pops n (mkStrm r ds) = some (l, ended)) (hlen : (l.length : Int) = r.count) (l' : List Inst) (e' : Bool)
    (h' : pops (n + 1) (mkStrm r ds) = some (l', e')) : l' = l ∧ e' = true :=
  pops_count_ends_of strm_contract r ds hr hd (strmK_start r ds hs) hcnt n l ended h hlen l' e' h'

/-- the stream never gets stuck: every pop of every stream returns (an occurrence or end-of-stream) -/
theorem stream_defined (r : Rule) (ds : Inst) (hr : WfRule r) (hd : WfInst ds) (hs : ShiftOk r)
    (n : Nat) : (pops n (mkStrm r ds)).isSome :=
  pops_some strm_contract hr n [] (mkStrm r ds) (inv_mk r ds hd (strmK_start r ds hs))

/-! ### no hypothesis on the kind of DTSTART is needed -/

/-- FREQ=YEARLY;BYMINUTE=30 on the all-day DTSTART 2000-01-01 (RFC 5545 forbids the combination and has BYMINUTE
ignored): the filler writes the plain all-day instant -- before the repair of `make_enum` an instant with hour ALL_DAY
and minute 30 -- and the contract holds -/
def kR : Rule := { freq := 1, M := [30] }
def kD : Inst := { y := 2000, m := 1, d := 1, H := allDay, M := 0, S := 0, ms := 0 }
theorem kR_wf : WfRule kR := by constructor <;> simp [kR, Asc]
theorem kD_wf : WfInst kD := by constructor <;> decide

theorem kind_not_needed : WfRule kR ∧ WfInst kD ∧ ShiftOk kR ∧ ¬ (kD.H = allDay → kR.H = [] ∧ kR.M = [] ∧ kR.S = []) ∧
    fill kR kD 1 = some [kD] ∧ FillOk kR kD 1 [kD] := by
  have hf : fill kR kD 1 = some [kD] := by decide +kernel
  refine ⟨kR_wf, kD_wf, Or.inl rfl, fun h => ?_, hf, fill_ok kR kD 1 [kD] kR_wf kD_wf (Or.inl rfl) (by decide) hf⟩
  have := (h rfl).2.1; revert this; decide

/-- … and the stream hands out the DATE values year by year -/
theorem kind_not_needed_stream :
    pops 3 (mkStrm kR kD) = some ([kD, { kD with y := 2001 }, { kD with y := 2002 }], false) ∧
    ∀ x ∈ [kD, { kD with y := 2001 }, { kD with y := 2002 }], WfInst x := by
  have hp : pops 3 (mkStrm kR kD) = some ([kD, { kD with y := 2001 }, { kD with y := 2002 }], false) := by
    decide +kernel
  exact ⟨hp, stream_sane kR kD kR_wf kD_wf (Or.inl rfl) 3 _ false hp⟩

/-- FREQ=HOURLY;BYMINUTE=30 on the same DATE: the sub-daily fillers read the seed as midnight, BYMINUTE expands as
before -/
def hR : Rule := { freq := 5, M := [30] }
theorem hR_wf : WfRule hR := by constructor <;> simp [hR, Asc]
theorem kind_not_needed_hourly :
    pops 2 (mkStrm hR kD) = some ([{ kD with H := 0, M := 30 }, { kD with H := 1, M := 30 }], false) ∧
    StreamOk hR kD [{ kD with H := 0, M := 30 }, { kD with H := 1, M := 30 }] := by
  have hp : pops 2 (mkStrm hR kD) = some ([{ kD with H := 0, M := 30 }, { kD with H := 1, M := 30 }], false) := by
    decide +kernel
  exact ⟨hp, stream_ordered_bounded hR kD hR_wf kD_wf (Or.inl rfl) 2 _ false hp⟩

/-! ### the hypothesis on SHIFT is needed (for the fillers' contract) -/

/-- FREQ=YEARLY;BYMONTH=1;BYMONTHDAY=1;SHIFT=-672 from 2021-01-01: everything holds but `ShiftOk`, and the filler
writes 2021-02-29 (2022-01-01 less 672 days is 2020-02-29, filed under "the year before 2022") -/
def sR : Rule := { freq := 1, shift := -672 * 65536, mon := [1], dom := [1] }
def sD : Inst := { y := 2021, m := 1, d := 1, H := allDay, M := 0, S := 0, ms := 0 }
theorem sR_wf : WfRule sR := by constructor <;> simp [sR, Asc]
theorem sD_wf : WfInst sD := by constructor <;> decide

theorem needs_shiftOk : WfRule sR ∧ WfInst sD ∧ ¬ ShiftOk sR ∧
    ∃ l, fill sR sD 1 = some l ∧ ¬ FillOk sR sD 1 l := by
  refine ⟨sR_wf, sD_wf, fun h => ?_, [{ sD with m := 2, d := 29 }],
    by decide +kernel, fun h => ?_⟩
  · have e : sR.shift = -672 * 65536 := rfl
    rcases h with h | ⟨n, h, h1, h2⟩ | ⟨h, _⟩
    · revert h; decide
    · omega
    · omega
  · have := (h.wf _ List.mem_cons_self).day
    revert this; decide

/-- … and the stream hands it out: `stream_sane` fails without `ShiftOk` -/
theorem needs_shiftOk_stream : ∃ l e, pops 1 (mkStrm sR sD) = some (l, e) ∧ ¬ ∀ x ∈ l, WfInst x := by
  refine ⟨[{ sD with m := 2, d := 29 }], false, by decide +kernel, fun h => ?_⟩
  have := (h _ List.mem_cons_self).day
  revert this; decide

/-- the proviso of the yearly / monthly filler theorems fails for that SHIFT … -/
theorem far_shift_loses_dates : ¬ Echse.Lemmas.RrCandOk.ShiftKeepsDates (-672 * 65536) :=
  Echse.Lemmas.RrYlyOk.shiftKeepsDates_fails
/-- … and, as stated (all years from 0 on), for every backward SHIFT: year 0 has no year before it.  The assembly
(RrAsm4/5) therefore works with the years a filler call visits (`KeepsAt`). -/
theorem back_shift_year0 : ¬ Echse.Lemmas.RrCandOk.ShiftKeepsDates (-1 * 65536) := shiftKeepsDates_back_fails

/-! ### the theorems are not vacuous -/

/-- FREQ=DAILY;COUNT=70 from 2020-02-28T09:30:00: 70 occurrences, the last one 2020-05-07, across a refill (the cache
holds 63), then the end -/
def dR : Rule := { freq := 4, count := 70 }
def dD : Inst := { y := 2020, m := 2, d := 28, H := 9, M := 30, S := 0, ms := allSec }
theorem dR_wf : WfRule dR := by constructor <;> simp [dR, Asc]
theorem dD_wf : WfInst dD := by constructor <;> decide

def summary (o : Option (List Inst × Bool)) : Option (Nat × Option Inst × Option Inst × Bool) :=
  o.map fun le => (le.1.length, le.1.head?, le.1.getLast?, le.2)

theorem dR_pops : summary (pops 70 (mkStrm dR dD)) = some (70, some { dD with }, some { dD with m := 5, d := 7 }, false) ∧
    summary (pops 71 (mkStrm dR dD)) = some (70, some { dD with }, some { dD with m := 5, d := 7 }, true) := by
  decide +kernel

example : ∃ l, pops 70 (mkStrm dR dD) = some (l, false) ∧ l.length = 70 ∧ StreamOk dR dD l := by
  have h := dR_pops.1
  cases hp : pops 70 (mkStrm dR dD) with
  | none => rw [hp] at h; cases h
  | some le =>
    obtain ⟨l, e⟩ := le
    rw [hp] at h
    simp only [summary, Option.map_some, Option.some.injEq, Prod.mk.injEq] at h
    obtain ⟨h1, _, _, h4⟩ := h
    subst h4
    exact ⟨l, rfl, h1, stream_ordered_bounded dR dD dR_wf dD_wf (Or.inl rfl) 70 l false hp⟩

/-- FREQ=YEARLY;BYMONTH=1;BYMONTHDAY=1;SHIFT=-1;COUNT=3 from the DATE 2020-01-01: New Year's Eves -/
def yR : Rule := { freq := 1, count := 3, shift := -1 * 65536, mon := [1], dom := [1] }
def yD : Inst := { y := 2020, m := 1, d := 1, H := allDay, M := 0, S := 0, ms := allSec }
theorem yR_wf : WfRule yR := by constructor <;> simp [yR, Asc]
theorem yD_wf : WfInst yD := by constructor <;> decide
theorem yR_pops : pops 4 (mkStrm yR yD) =
    some ([{ yD with m := 12, d := 31 }, { yD with y := 2021, m := 12, d := 31 }, { yD with y := 2022, m := 12, d := 31 }], true) := by
  decide +kernel

example : StreamOk yR yD [{ yD with m := 12, d := 31 }, { yD with y := 2021, m := 12, d := 31 }, { yD with y := 2022, m := 12, d := 31 }] :=
  stream_ordered_bounded yR yD yR_wf yD_wf (Or.inr (Or.inl ⟨-1, rfl, by decide, by decide⟩)) 4 _ true yR_pops

/-- FREQ=MONTHLY;BYMONTHDAY=1;SHIFT=-1B;COUNT=3 from 2020-01-01T17:00:00: the last business day of each month
(`5 = 1 * 4 + 1`: one business day, backward) -/
def bR : Rule := { freq := 2, count := 3, shift := 5, dom := [1] }
def bD : Inst := { y := 2020, m := 1, d := 1, H := 17, M := 0, S := 0, ms := allSec }
theorem bR_wf : WfRule bR := by constructor <;> simp [bR, Asc]
theorem bD_wf : WfInst bD := by constructor <;> decide
theorem bR_pops : pops 3 (mkStrm bR bD) =
    some ([{ bD with d := 31 }, { bD with m := 2, d := 28 }, { bD with m := 3, d := 31 }], false) := by
  decide +kernel

example : StreamOk bR bD [{ bD with d := 31 }, { bD with m := 2, d := 28 }, { bD with m := 3, d := 31 }] :=
  stream_ordered_bounded bR bD bR_wf bD_wf
    (shiftOk_bdays bR 1 true false (by decide) rfl) 3 _ false bR_pops

end C16
