/-
  C01 for the YEARLY filler model, part 12: BYDAY as a limit counted within the year (`dlim_year`, the reading of
  `dow_limit_p` without `mp`).
-/
import Echse.Lemmas.RrCandRfc10
import Echse.Lemmas.RrCandRfc8
namespace Echse.Lemmas.RrCandRfc
open Echse.Rrule Echse.Instant Echse.Spec.RrOk Echse.Lemmas.RrCandOk Echse.Spec.Rfc Echse.Lemmas.RrRfc
open Echse.Spec.Cal Echse.Spec.RuleExt Echse.Lemmas.RrMlyRfc Echse.Lemmas.RrOkBase

theorem ydToMd_zero' (y : Nat) : (ydToMd y 0).m = 0 := by
  rw [ydToMd_class]; split <;> decide

/-- BYDAY as a limit within a year (`dow_limit_p` without `mp`): plain weekdays, or the n-th ones of the year -/
theorem dlim_year (r : Rule) (hr : WfRule r) (hord : ∀ t ∈ r.dow, -53 ≤ t / 8) (x : Inst) (hx : DateIn x) :
    DLimB r.dow (wdMaskOf r.dow) x.y x.m x.d (wdayOf (dayOf x)) false ↔ (r.dow = [] ∨ bydayInYear r x) := by
  have hv := hx.v
  have h31 := hv.d31
  have hm : 1 ≤ x.m ∧ x.m ≤ 12 := ⟨hv.1, hv.2.1⟩
  have hy : 1901 ≤ x.y ∧ x.y ≤ 2099 := ⟨hx.lo, hx.hi⟩
  have hl := leapN_le x.y
  have hwdr := wdayOf_range (dayOf x)
  unfold DLimB bydayInYear
  rw [dowLimitP_iff, mask_bit_iff r hr _ hwdr]
  simp only [Bool.false_eq_true, if_false]
  constructor
  · rintro (h | ⟨t, ht, h1, h2⟩ | ⟨_, t, ht, hc, hw, he1, he2⟩)
    · left
      apply Classical.byContradiction; intro c
      exact (wdMask_ne_zero r).2 c h
    · exact Or.inr ⟨t, ht, h2, Or.inl h1⟩
    · right
      have hwt := hr.dow t ht
      have ho := hord t ht
      generalize hyd : ycwGetYday x.y (t / 8) (t % 8).toNat = yd at *
      have hd0 : yd ≠ 0 := by
        intro e
        rw [e] at he1
        have : toS32 0 = 0 := by unfold toS32; simp
        rw [this, ydToMd_zero'] at he1
        omega
      have sp := (ycwGetYday_spec x.y (t / 8) (t % 8).toNat (by omega) (by omega) yd).1 ⟨hyd, hd0⟩
      rw [toS32_small yd (by omega)] at he1 he2
      obtain ⟨dv, de⟩ := ydToMd_date x.y yd hy sp.1 sp.2.1
      rw [he1, he2] at de
      have hdx : dayOf x = days x.y 1 1 + yd - 1 := de
      refine ⟨t, ht, ?_, Or.inr ((nth_year x hx _ yd hdx).2 ⟨sp.1, sp.2.1, sp.2.2.2⟩)⟩
      unfold wdOf; omega
  · rintro (h | ⟨t, ht, hwt, ho | hn⟩)
    · left; rw [h]; rfl
    · exact Or.inr (Or.inl ⟨t, ht, ho, hwt⟩)
    · right; right
      have hwf := hr.dow t ht
      have ho := hord t ht
      have hb := days_year_bounds hv
      generalize hyd : (dayOf x - days x.y 1 1 + 1).toNat = yd
      have hdx : dayOf x = days x.y 1 1 + yd - 1 := by
        have : days x.y 1 1 ≤ dayOf x := hb.1
        omega
      obtain ⟨n1, n2, n3⟩ := (nth_year x hx _ yd hdx).1 hn
      have hc0 : t / 8 ≠ 0 := by unfold ordOf at n3; omega
      have c : wdMaskOf r.dow % 2 = 1 := (wdMask_bit0 r.dow).2 ⟨t, ht, by omega⟩
      have e2 : dayOf x = days x.y 1 1 + ((yd - 1 : Nat) : Int) := by omega
      unfold wdOf at hwt
      unfold ordOf at n3
      have sp := (ycwGetYday_spec x.y (t / 8) (t % 8).toNat (by omega) (by omega) yd).2
        ⟨n1, n2, by rw [wdAdd_jan1 x.y hy, ← e2]; omega, n3⟩
      obtain ⟨dv, de⟩ := ydToMd_date x.y yd hy n1 n2
      have e := days_inj_year dv hv (by rw [de]; exact hdx.symm)
      refine ⟨c, t, ht, hc0, by omega, ?_, ?_⟩
      · rw [sp.1, toS32_small yd (by omega), e.1]
      · rw [sp.1, toS32_small yd (by omega), e.2]

end Echse.Lemmas.RrCandRfc
