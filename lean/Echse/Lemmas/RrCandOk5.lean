/-
  Order of what the YEARLY / MONTHLY fillers emit: the full enumeration of a period without SHIFT (candidate days
  ascending × times of day ascending) is strictly ascending by `ltP`.
-/
import Echse.Lemmas.RrCandOk4
namespace Echse.Lemmas.RrCandOk
open Echse.Rrule Echse.Instant Echse.Spec.RrOk

/-- the hour as `echs_instant_lt_p` sees it: all-day (255) sorts first -/
def hbv (h : Nat) : Nat := (h % 256 + 1) % 256

/-- order of the times of day as the comparison sees them -/
def TLt (a b : Nat × Nat × Nat) : Prop :=
  hbv a.1 < hbv b.1 ∨ (hbv a.1 = hbv b.1 ∧ (a.2.1 < b.2.1 ∨ (a.2.1 = b.2.1 ∧ a.2.2 < b.2.2)))

theorem ltP_mkX (k : FillCtx) (y1 yd1 y2 yd2 : Nat) (t1 t2 : Nat × Nat × Nat) (hy : y1 < 65536 ∧ y2 < 65536)
    (hyd : yd1 / 32 < 12 ∧ yd2 / 32 < 12) (h1 : t1.2.1 < 60 ∧ t1.2.2 < 60) (h2 : t2.2.1 < 60 ∧ t2.2.2 < 60)
    (h : y1 < y2 ∨ (y1 = y2 ∧ (yd1 < yd2 ∨ (yd1 = yd2 ∧ TLt t1 t2)))) :
    ltP (mkX k y1 yd1 t1) (mkX k y2 yd2 t2) = true := by
  unfold TLt hbv at h
  unfold ltP bump Inst.pack mkX mkInst
  simp only [decide_eq_true_eq, Nat.reducePow]
  omega
theorem enum_lists (r : Rule) (p : Inst) (hr : WfRule r) :
    (makeEnum p r).H.Pairwise (fun a b => hbv a < hbv b) ∧ (makeEnum p r).M.Pairwise (· < ·) ∧
      (makeEnum p r).S.Pairwise (· < ·) := by
  unfold makeEnum
  split
  · exact ⟨List.pairwise_singleton _ _, List.pairwise_singleton _ _, List.pairwise_singleton _ _⟩
  dsimp only
  refine ⟨?_, ?_, ?_⟩
  · split
    · exact List.pairwise_singleton _ _
    · refine List.pairwise_map.mpr (List.Pairwise.imp_of_mem ?_ hr.hours.1)
      intro a b ha hb hab
      have := hr.hours.2 a ha; have := hr.hours.2 b hb
      unfold hbv; omega
  · split
    · exact List.pairwise_singleton _ _
    · refine List.pairwise_map.mpr (List.Pairwise.imp_of_mem ?_ hr.mins.1)
      intro a b ha hb hab
      have := hr.mins.2 a ha; have := hr.mins.2 b hb
      omega
  · split
    · exact List.pairwise_singleton _ _
    · refine List.pairwise_map.mpr (List.Pairwise.imp_of_mem ?_ hr.secs.1)
      intro a b ha hb hab
      have := hr.secs.2 a ha; have := hr.secs.2 b hb
      omega

/-- the ENUM loop visits the times of day in ascending order -/
theorem times_sorted (e : Enum) (hH : e.H.Pairwise (fun a b => hbv a < hbv b)) (hM : e.M.Pairwise (· < ·))
    (hS : e.S.Pairwise (· < ·)) : e.times.Pairwise TLt := by
  unfold Enum.times
  refine List.pairwise_flatMap.mpr ⟨?_, ?_⟩
  · intro h _
    refine List.pairwise_flatMap.mpr ⟨?_, ?_⟩
    · intro m _
      refine List.pairwise_map.mpr (List.Pairwise.imp_of_mem ?_ hS)
      intro a b _ _ hab
      exact Or.inr ⟨rfl, Or.inr ⟨rfl, hab⟩⟩
    · refine List.Pairwise.imp_of_mem ?_ hM
      intro a b _ _ hab x hx y hy
      obtain ⟨s1, _, rfl⟩ := List.mem_map.mp hx
      obtain ⟨s2, _, rfl⟩ := List.mem_map.mp hy
      exact Or.inr ⟨rfl, Or.inl hab⟩
  · refine List.Pairwise.imp_of_mem ?_ hH
    intro a b _ _ hab x hx y hy
    obtain ⟨m1, _, hx⟩ := List.mem_flatMap.mp hx
    obtain ⟨s1, _, rfl⟩ := List.mem_map.mp hx
    obtain ⟨m2, _, hy⟩ := List.mem_flatMap.mp hy
    obtain ⟨s2, _, rfl⟩ := List.mem_map.mp hy
    exact Or.inl hab
/-- the enumeration of one candidate set (one year) is strictly ascending -/
theorem setE_sorted (k : FillCtx) (yy : Nat) (cs : List Nat) (hyy : yy < 65536) (hcs : Asc cs)
    (hb : ∀ c ∈ cs, c / 32 < 12) (ht : k.times.Pairwise TLt) (htok : ∀ t ∈ k.times, t.2.1 < 60 ∧ t.2.2 < 60) :
    (setE k yy cs).Pairwise (fun a b => ltP a b = true) := by
  unfold setE dayE
  refine List.pairwise_flatMap.mpr ⟨?_, ?_⟩
  · intro yd hyd
    refine List.pairwise_map.mpr (List.Pairwise.imp_of_mem ?_ ht)
    intro a b ha hb' hab
    exact ltP_mkX k yy yd yy yd a b ⟨hyy, hyy⟩ ⟨hb yd hyd, hb yd hyd⟩ (htok a ha) (htok b hb')
      (Or.inr ⟨rfl, Or.inr ⟨rfl, hab⟩⟩)
  · refine List.Pairwise.imp_of_mem ?_ hcs
    intro c1 c2 h1 h2 h12 x hx y hy
    obtain ⟨t1, ht1, rfl⟩ := List.mem_map.mp hx
    obtain ⟨t2, ht2, rfl⟩ := List.mem_map.mp hy
    exact ltP_mkX k yy c1 yy c2 t1 t2 ⟨hyy, hyy⟩ ⟨hb c1 h1, hb c2 h2⟩ (htok t1 ht1) (htok t2 ht2)
      (Or.inr ⟨rfl, Or.inl h12⟩)

/-- without a SHIFT a period enumerates the same-year set only -/
theorem finE_noshift (k : FillCtx) (y : Nat) (cand : List Nat) (hs : k.sh = 0) :
    finE k y cand = setE k y (if !k.tposp then clrPoss cand k.pos else cand) := by
  unfold finE periodE
  rw [hs]
  simp [shift, setE]

/-- a period whose enumeration is ascending and later than everything in the cache keeps the cache ordered -/
theorem Emits.desc_of_sorted {k : FillCtx} {E : List Inst} {st st' : FillSt} (he : Emits k E st st')
    (hE : E.Pairwise (fun a b => ltP a b = true)) (hprev : ∀ a ∈ st.out, ∀ x ∈ E, ltP a x = true)
    (hd : Desc st.out) : Desc st'.out := by
  obtain ⟨new, o1, _, s1, _, _, _⟩ := he
  unfold Desc at *
  rw [o1]
  refine List.pairwise_append.mpr ⟨?_, hd, ?_⟩
  · exact List.pairwise_reverse.mpr (List.Pairwise.sublist s1 hE)
  · intro a ha b hb
    exact hprev b hb a (s1.subset (List.mem_reverse.mp ha))

theorem ltP_of_year_lt (a x : Inst) (h : a.y % 65536 < x.y % 65536) : ltP a x = true := by
  unfold ltP bump Inst.pack
  simp only [decide_eq_true_eq, Nat.reducePow]
  omega

theorem ltP_of_month_lt (a x : Inst) (h : 12 * (a.y % 65536) + a.m % 256 < 12 * (x.y % 65536) + x.m % 256)
    (ha : 1 ≤ a.m % 256 ∧ a.m % 256 ≤ 12) (hx : 1 ≤ x.m % 256 ∧ x.m % 256 ≤ 12) : ltP a x = true := by
  unfold ltP bump Inst.pack
  simp only [decide_eq_true_eq, Nat.reducePow]
  omega

/-- minutes and seconds of the ENUM loop are below 60 -/
theorem times_lt60 (r : Rule) (p : Inst) (hr : WfRule r) (hp : WfInst p) :
    ∀ t ∈ (makeEnum p r).times, t.2.1 < 60 ∧ t.2.2 < 60 := by
  intro t ht
  obtain ⟨_, h2, h3⟩ := mem_times _ t ht
  have hpt := hp.time
  unfold makeEnum at h2 h3
  have hpM : p.M < 60 ∧ p.S < 60 := by
    rcases hpt with h | h <;> omega
  by_cases had : p.H = allDay
  · rw [if_pos had] at h2 h3
    simp only [List.mem_singleton] at h2 h3; omega
  rw [if_neg had] at h2 h3
  dsimp only at h2 h3
  constructor
  · split at h2
    · simp only [List.mem_singleton] at h2; omega
    · obtain ⟨m, hm, hmt⟩ := List.mem_map.mp h2
      have := hr.mins.2 m hm; omega
  · split at h3
    · simp only [List.mem_singleton] at h3; omega
    · obtain ⟨s, hs, hst⟩ := List.mem_map.mp h3
      have := hr.secs.2 s hs; omega

theorem mkFillCtx_times_sorted (r : Rule) (p : Inst) (nti : Nat) (hr : WfRule r) :
    (mkFillCtx r p nti).times.Pairwise TLt := by
  have h := enum_lists r p hr
  exact times_sorted _ h.1 h.2.1 h.2.2

/-- without a SHIFT the enumeration of a period is strictly ascending -/
theorem finE_sorted (r : Rule) (p : Inst) (nti y : Nat) (cand : List Nat) (hr : WfRule r) (hp : WfInst p)
    (hs : r.shift = 0) (hy : y < 65536) (hc : AllVC y cand) :
    (finE (mkFillCtx r p nti) y cand).Pairwise (fun a b => ltP a b = true) := by
  rw [finE_noshift _ _ _ hs]
  have hc0 : AllVC y (if !(mkFillCtx r p nti).tposp then clrPoss cand (mkFillCtx r p nti).pos else cand) := by
    split
    · exact ⟨fun c h => hc.1 c (clrPoss_subset cand _ c h), clrPoss_asc cand _ hc.2⟩
    · exact hc
  exact setE_sorted _ y _ hy hc0.2 (fun c h => (hc0.1 c h).1) (mkFillCtx_times_sorted r p nti hr)
    (times_lt60 r p hr hp)

end Echse.Lemmas.RrCandOk
