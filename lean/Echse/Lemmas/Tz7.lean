/-
  Lemmas for C07, part 7: a local time the clocks skipped (`utcVal_gap`), and zones whose transitions are
  farther apart than their offsets differ (`Spaced`): every preimage is next to the first guess, a local
  time in a gap has no preimage.
-/
import Echse.Lemmas.Tz6
namespace Echse.Tz

theorem tr_le_of_idx (z : Zone) (wf : WF z) (t i : Int) (h0 : 0 ≤ i) (h : i ≤ trIdx z t) : tr z i.toNat ≤ t := by
  rcases isIdx_trIdx z wf t with ⟨e, _⟩ | ⟨a, b, c, d⟩
  · omega
  · have := tr_mono_le z wf i.toNat (trIdx z t).toNat (by omega) (by omega); omega

theorem lt_tr_of_idx (z : Zone) (wf : WF z) (t i : Int) (h : trIdx z t < i) (h1 : i < z.ntr) : t < tr z i.toNat := by
  have := trIdx_range z t
  rcases isIdx_trIdx z wf t with ⟨e, hh⟩ | ⟨a, b, c, d⟩
  · rcases hh with hh | hh
    · omega
    · have := tr_mono_le z wf 0 i.toNat (by omega) (by omega); omega
  · have := d (by omega)
    have := tr_mono_le z wf (trIdx z t + 1).toNat i.toNat (by omega) (by omega); omega

/-! ### the search for the gap among the candidates -/

abbrev gapTest (t : Int) (ab : ZRng × ZRng) : Bool :=
  decide (t - ab.1.offs ≥ ab.1.next) && decide (t - ab.2.offs < ab.2.prev)

theorem find_PR (t : Int) (P R : ZRng) (X : List ZRng) (h1 : t - P.offs ≥ P.next) (h2 : t - R.offs < R.prev) :
    ((P :: R :: X).zip (P :: R :: X).tail).find? (gapTest t) = some (P, R) := by
  simp only [List.tail_cons, List.zip_cons_cons]
  rw [List.find?_cons_of_pos]
  simp [h1, h2]

theorem find_RN (t : Int) (R N : ZRng) (h1 : t - R.offs ≥ R.next) (h2 : t - N.offs < N.prev) :
    (([R, N]).zip ([R, N]).tail).find? (gapTest t) = some (R, N) := find_PR t R N [] h1 h2

theorem find_PRN (t : Int) (P R N : ZRng) (h0 : ¬ t - R.offs < R.prev) (h1 : t - R.offs ≥ R.next)
    (h2 : t - N.offs < N.prev) :
    (([P, R, N]).zip ([P, R, N]).tail).find? (gapTest t) = some (R, N) := by
  simp only [List.tail_cons, List.zip_cons_cons]
  rw [List.find?_cons_of_neg (by simp [h0])]
  exact find_PR t R N [] h1 h2

/-- (b) a local time in the gap of transition `i`, the guess in one of the two stretches at that transition,
no preimage next to the guess: the offset from before the gap -/
theorem utcVal_gap (z : Zone) (wf : WF z) (w : Int) (hr : Room w) (i : Int) (i0 : 0 ≤ i) (i1 : i < z.ntr)
    (hlo : tr z i.toNat + offAt z (i - 1) ≤ w) (hhi : w < tr z i.toNat + offAt z i)
    (hadj : guessIdx z w = i - 1 ∨ guessIdx z w = i)
    (hno : ∀ u, u + off z u = w → ¬ Near z w u) :
    utcVal z w = w - offAt z (i - 1) := by
  obtain ⟨k0, k1⟩ := trIdx_range z (w - off z w)
  obtain ⟨hw, hw'⟩ := room_I32 z wf w hr
  have eu : utcVal z w = pick w (rngAt z (guessIdx z w)) (candsAt z (guessIdx z w)) := rfl
  have hV : ∀ q ∈ candsAt z (guessIdx z w), q.holds (w - q.offs) = false := by
    intro q hq
    obtain ⟨j, rfl, j0, j1, j2, j3⟩ := of_mem_candsAt z _ k0 k1 q hq
    rw [Bool.eq_false_iff]
    intro hv
    rw [cand_valid_iff z wf w hr j j0 j1] at hv
    refine hno (w - offAt z j) ?_ ?_
    · unfold off; rw [hv]; omega
    · unfold Near; rw [hv]; exact ⟨j2, j3⟩
  have ba := offAt_bound z wf (i - 1)
  have bb := offAt_bound z wf i
  have hR := hr
  unfold Room intMin intMax at hR
  have hB := rngAt_bounds z wf _ hw'
  have eg : trIdx z (w - off z w) = guessIdx z w := rfl
  rw [eg] at k0 k1 hB
  simp only [intMin, intMax] at hB
  have key : ∀ ab, ((candsAt z (guessIdx z w)).zip (candsAt z (guessIdx z w)).tail).find? (gapTest w) = some ab →
      ab.1.offs = offAt z (i - 1) → utcVal z w = w - offAt z (i - 1) := by
    intro ab hf e
    rw [eu, pick_gap w _ _ ab hV hf, e]
  rcases hadj with hk | hk
  · -- the guess is before the transition: the pair (R, N)
    have ei : i = guessIdx z w + 1 := by omega
    have en : (rngAt z (guessIdx z w)).next = tr z i.toNat := by
      rw [rngAt_next_eq z _ k0 (by omega), ei]
    have hn : (rngAt z (guessIdx z w)).next < intMax := by rw [en]; unfold intMax; omega
    have t1 : w - (rngAt z (guessIdx z w)).offs ≥ (rngAt z (guessIdx z w)).next := by
      rw [en, rngAt_offs, hk]; omega
    have t2 : w - (rngAt z (guessIdx z w + 1)).offs < (rngAt z (guessIdx z w + 1)).prev := by
      rw [← ei, rngAt_prev_eq z i i0, rngAt_offs]; omega
    by_cases hp : (rngAt z (guessIdx z w)).prev > intMin
    · have ec : candsAt z (guessIdx z w) = [rngAt z (guessIdx z w - 1), rngAt z (guessIdx z w), rngAt z (guessIdx z w + 1)] := by
        unfold candsAt; rw [if_pos hp, if_pos hn]; rfl
      have h0 : ¬ w - (rngAt z (guessIdx z w)).offs < (rngAt z (guessIdx z w)).prev := by omega
      exact key _ (by rw [ec]; exact find_PRN w _ _ _ h0 t1 t2) (by rw [rngAt_offs, hk])
    · have ec : candsAt z (guessIdx z w) = [rngAt z (guessIdx z w), rngAt z (guessIdx z w + 1)] := by
        unfold candsAt; rw [if_neg hp, if_pos hn]; rfl
      exact key _ (by rw [ec]; exact find_RN w _ _ t1 t2) (by rw [rngAt_offs, hk])
  · -- the guess is after the transition: the pair (P, R)
    have ep : (rngAt z (guessIdx z w)).prev = tr z i.toNat := by rw [hk, rngAt_prev_eq z i i0]
    have hp : (rngAt z (guessIdx z w)).prev > intMin := by rw [ep]; unfold intMin; omega
    have t1 : w - (rngAt z (guessIdx z w - 1)).offs ≥ (rngAt z (guessIdx z w - 1)).next := by
      rw [hk, rngAt_next_eq z (i - 1) (by omega) (by omega), rngAt_offs]
      have : (i - 1 + 1).toNat = i.toNat := by congr 1; omega
      rw [this]; omega
    have t2 : w - (rngAt z (guessIdx z w)).offs < (rngAt z (guessIdx z w)).prev := by
      rw [ep, rngAt_offs, hk]; omega
    have ec : candsAt z (guessIdx z w) = rngAt z (guessIdx z w - 1) :: rngAt z (guessIdx z w) ::
        (if (rngAt z (guessIdx z w)).next < intMax then some (rngAt z (guessIdx z w + 1)) else none).toList := by
      unfold candsAt; rw [if_pos hp]; rfl
    exact key _ (by rw [ec]; exact find_PR w _ _ _ t1 t2) (by rw [rngAt_offs, hk])

end Echse.Tz
