"""C11 — queue is a per-user map by UID; users cannot touch others' tasks."""
from . import p_echsd

RULE = ("random histories on echsd.c (virtual-time loop): add / replace / cancel requests from 4 known users and an unknown "
        "peer over a small pool of UIDs (so that replacing, cancelling and foreign access happen constantly), X-ECHS-OWNER "
        "fields naming the peer or someone else, interleaved with clock advances, child exits, table dumps and GET [/u/<uid>]/sched[?tuid=] requests from every user and root (own uid, another uid, bit-supersets such as 1023/2047, none); root and "
        "per-user daemons; the reference is the abstract map UID -> (owner, task): one reply per instruction, 2.0 iff the "
        "map changed as requested, no effect on other users' entries.")


def run(ctx):
    p_echsd.run_checks(ctx, "C11", {"steps": 26, "nusers": 4, "p_cancel": 0.35, "chk": False, "http": True, "httpq": True, "conns": True}, 500, 6000, RULE,
                       me_choices=(0, 0, 0, 1001))


replay = p_echsd.replay
