import Echse.Model.Tz
import Driver.Instant
open Echse.Tz Echse.Instant
namespace Driver

/-- `z.seq ZONE NTR t… ty… NTY o… # u:HEX l:HEX o:HEX …` -/
def runTz (args : List String) : String :=
  match args with
  | zone :: ntr :: rest =>
    match ntr.toNat? with
    | none => "bad-op"
    | some ntr =>
      let trs := (rest.take ntr).filterMap String.toInt?
      let tys := ((rest.drop ntr).take ntr).filterMap String.toNat?
      let rest := rest.drop (2 * ntr)
      match rest with
      | nty :: rest =>
        match nty.toNat? with
        | none => "bad-op"
        | some nty =>
          let offs := (rest.take nty).filterMap String.toInt?
          let ops := (rest.drop nty).dropWhile (· ≠ "#") |>.drop 1
          if trs.length ≠ ntr ∨ tys.length ≠ ntr ∨ offs.length ≠ nty then "bad-op" else
          let z : Zone := { trs := trs, tys := tys, offs := offs, utc := zone == "UTC" }
          let (outs, _) := ops.foldl (fun (acc : List String × ZRng) (o : String) =>
            let (outs, c) := acc
            let h := (o.drop 2).toString
            match inst? h with
            | none => ("bad" :: outs, c)
            | some i =>
              if o.startsWith "u:" then
                match instantUtc z c i with
                | some (r, c') => (showInst r :: outs, c')
                | none => ("<loop>" :: outs, c)
              else if o.startsWith "l:" then
                match instantLoc z c i with
                | some (r, c') => (showInst r :: outs, c')
                | none => ("<loop>" :: outs, c)
              else
                match tzobOffs z i with
                | some x => (toString x :: outs, c)
                | none => ("<loop>" :: outs, c)) ([], ZRng.fresh)
          joinWith " " outs.reverse
      | _ => "bad-op"
  | _ => "bad-op"

end Driver
