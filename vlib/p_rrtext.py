"""Text layer of the rule serialiser and parser (send_rrul / snarf_rrule) against Echse.Model.RrText: the same rule
texts (well-formed, hostile, mutated) are parsed by both, the structs obtained are printed by both, and the real
code's print-then-parse is the identity on them.  Generators by the C05 text-layer worker (tools/rrtextprobe.py)."""
import re

from . import common, rrgen
from .p_C09 import hostile_rule
from .p_C16 import gen_ext

KEYS = ["FREQ", "COUNT", "UNTIL", "INTERVAL", "WKST", "SCALE", "SHIFT", "BYSECOND", "BYMINUTE", "BYHOUR", "BYDAY", "BYMONTHDAY",
        "BYYEARDAY", "BYWEEKNO", "BYMONTH", "BYSETPOS", "BYPOS", "BYEASTER", "BYFOO", "byday", "X"]
ALPHA = ";;;===,,,+--0123456789BYMOTUWEHFRSADILNC .ZTb\t\n"
SCALES = ["GREGORIAN", "HIJRI", "HIJRI.IA", "HIJRI.IC", "HIJRI.IIA", "HIJRI.IIC", "HIJRI.IIIA", "HIJRI.IIIC", "HIJRI.IVA",
          "HIJRI.IVC", "HIJRI.UMMULQURA", "HIJRI.DIYANET", "HIJRI.X", "H", "HIJRI.I", "HIJRI.V", "HIJRI.VV", "HIJRI.IVVC", "G", "HIJR"]
NUMS = ["0", "-0", "+0", "1", "-1", "+1", "007", "12", "13", "23", "24", "31", "32", "-31", "-32", "53", "54", "-53", "-54", "59", "60",
        "366", "367", "-366", "-367", "2147483647", "2147483648", "-2147483648", "4294967295", "4294967296", "9223372036854775807",
        "9223372036854775808", "-9223372036854775808", "-9223372036854775809", "18446744073709551615", "18446744073709551616",
        "-18446744073709551615", "-18446744073709551604", "-18446744073709551593", "99999999999999999999999", " 5", "\t7", "5 ", "--5", "+-5", "-+5", "", "x", "5x",
        "0x10", "1e3"]
SHIFTS = ["1", "-1", "0", "-0", "1B", "-1B", "0B", "-0B", "+0B", "0B-", "0B+", "1B+", "-1B-", "1B-", "-1B+", "2,3B", "-2,-3B-", "3,+4B+",
          "1,2", "1,2,3B", "1B,2B", "1B,2", "1b", "B", "+B", "-B", ",", "1,", "1B,", "1B+-", "1B++", "1Bx", "1x", "x", "", "40000", "-40000",
          "1,20000B", "70000B", "4294967296B", "2147483648B", "-2147483648B", "9223372036854775807,1", "99999999999999999999B-", "4294967295,1B", "-4294967297B+", "32767", "32768", "-32768", "16383B", "16384B"]
UNTILS = ["20991231T235959Z", "19020101", "21000101T000000Z", "20200230", "00000000", "99999999T999999Z", "20240229T120000Z", "2024", "x",
          "20240229T120000", "2024-02-29", "2024-02-29T12:00:00Z", "20240229T1200", "20240229T12", "20240229T120060Z", "20240229 120000",
          "20240229T120000.123Z", "20240229T250000Z", "20241301", "20240132", "20240140", "2024022", "", "20240229Z", "20240229T"]
WD = ["MO", "TU", "WE", "TH", "FR", "SA", "SU", "M", "T", "S", "R", "A", "XX", "mo", "TH1", ""]




def gen_texts(rng, n, noscale=False):
    def rnd_field():
        k = rng.choice(KEYS)
        z = rng.random()
        if k == "SCALE" and z < 0.8:
            v = rng.choice(SCALES)
        elif k == "SHIFT" and z < 0.8:
            v = rng.choice(SHIFTS)
        elif k == "UNTIL" and z < 0.8:
            v = rng.choice(UNTILS)
        elif k == "FREQ" and z < 0.8:
            v = rng.choice(["YEARLY", "MONTHLY", "WEEKLY", "DAILY", "HOURLY", "MINUTELY", "SECONDLY", "YEARLYX", "MIN", "M", "", "daily", "NONE"])
        elif k == "BYDAY" and z < 0.8:
            v = ",".join(rng.choice(NUMS[:24] + ["", "", ""]) + rng.choice(WD) for _ in range(rng.randint(0, 4)))
        else:
            v = ",".join(rng.choice(NUMS) if rng.random() < 0.5 else str(rng.randint(-70, 70)) for _ in range(rng.randint(0, 5)))
        sep = rng.choice(["=", "=", "=", "=", "=", "=", "", "==", ":"])
        return k + sep + v


    def mutate(t):
        z = rng.random()
        if z < 0.15 and t:
            i = rng.randrange(len(t)); return t[:i] + t[i + 1:]
        if z < 0.35:
            i = rng.randrange(len(t) + 1); return t[:i] + rng.choice(ALPHA) + t[i:]
        if z < 0.45 and t:
            i = rng.randrange(len(t)); return t[:i]
        if z < 0.7:
            parts = t.split(";"); parts.insert(rng.randrange(len(parts) + 1), rnd_field()); return ";".join(parts)
        if z < 0.8:
            parts = t.split(";"); rng.shuffle(parts); return ";".join(parts)
        if z < 0.9:
            parts = t.split(";"); i = rng.randrange(len(parts)); parts.insert(i, parts[rng.randrange(len(parts))]); return ";".join(parts)
        return t + ";" + rnd_field()



    texts = []
    for i in range(n):
        z = rng.random()
        if z < 0.3:
            ds = rrgen.gen_dtstart(rng)
            r = rrgen.gen_rule(rng, ds, big_times=(i % 12 == 11))
            ext, _ = gen_ext(rng, r, ds)
            t = r.text() + ext
        elif z < 0.55:
            t = hostile_rule(rng)
        elif z < 0.7:
            t = ";".join(rnd_field() for _ in range(rng.randint(1, 6)))
        else:
            ds = rrgen.gen_dtstart(rng)
            t = rng.choice([hostile_rule(rng), rrgen.gen_rule(rng, ds).text() + gen_ext(rng, rrgen.gen_rule(rng, ds), ds)[0]])
            for _ in range(rng.randint(1, 4)):
                t = mutate(t)
        t = t.replace("\n", " ")
        if noscale and "SCALE=H" in t:
            continue
        if t:
            texts.append(t)

    return texts


def run_layer(ctx, exe, rng, n):
    """-> dict(parse_ops, print_ops, diffs (list), ub (list), changed (list))"""
    texts = gen_texts(rng, n)
    ops = ["r.parse " + t.encode("latin-1").hex() for t in texts]
    a, st, err = ctx.impl(exe, ops)
    b = ctx.model(ops)
    d0 = common.diff_lines(ops, a, b)
    ub = [x for x in d0 if x[2].startswith("<crash: runtime error")]
    d = [x for x in d0 if not x[2].startswith("<crash: runtime error")]
    structs = sorted(set(x for x in a if x.startswith("freq=")))
    ops2 = ["r.print %s | ccnt=%d exc=%d" % (s, c, e) for s in structs for c, e in ((0, 0), (7, 1), (7, 0), (0, 1))]
    a2, st2, err2 = ctx.impl(exe, ops2)
    b2 = ctx.model(ops2)
    d += common.diff_lines(ops2, a2, b2)
    rt_ops = []
    for s, x in zip(structs, a2[0::4]):
        try:
            body = bytes.fromhex(x)
            body = body[body.index(b":") + 1:-1]
        except ValueError:
            body = b""
        rt_ops.append("r.parse " + body.hex())
    a3, st3, _ = ctx.impl(exe, rt_ops)
    def until_ok(s):
        # iCalendar writes DATE or DATE-TIME values without fractions of a second; an UNTIL with milliseconds (dt_strp reads
        # `.123' as an extension) has no text of its own and is outside the round trip (Lean: UntilOk)
        m = re.search(r"until=([0-9a-f]{16})", s)
        if not m:
            return False
        u = int(m.group(1), 16)
        return u != 0 and (((u >> 24) & 0xff) == 0xff or (u & 0x3ff) == 0x3ff)
    changed = [(s, bytes.fromhex(o.split()[1]).decode("latin-1"), y) for s, o, y in zip(structs, rt_ops, a3)
               if s != y and until_ok(s) and " count=0 " not in s]
    return {"parse_ops": len(ops), "print_ops": len(ops2), "diffs": d, "ub": ub, "changed": changed, "texts": texts,
            "status": (st, st2, st3)}
