import Echse.Model.Instant
namespace C08
open Echse.Instant

/-- smoke (replaced by the real statements below as they are proved) -/
theorem add_one_day_over_leap :
    add ⟨2020, 2, 28, 10, 30, 0, 0⟩ 86400000 = ⟨2020, 2, 29, 10, 30, 0, 0⟩ := by decide

end C08
