/-
  C10 lemmas, part 11: parser states and automaton states in relation (`Rel`); `_ical_proc` with the
  bookkeeping of the outer loops (`bookProc`) is `procA`.
-/
import Echse.Lemmas.IcalFlat
import Echse.Lemmas.Ical10
namespace Echse.Ical

/-- the part of the buffer not looked at yet -/
def rest (p : Parser) : List Byte := p.buf.drop p.bix

/-- the automaton keeps the unfolded line in full, and so does the parser in its stash (which grows); the
mark `skip` (allocation failure in the C code) is never set -/
structure Rel (p : Parser) (A : Abs) : Prop where
  skip : p.skip = false
  stash : p.stash = A.cur
  comp : p.comp = A.comp
  log : p.log = A.log
  mark : p.eolp = true ↔ A.sc.pend = true

/-- `_ical_proc` on the stash of `q0` and what the loops around `_ical_pull` do with its result -/
def bookProc (q0 : Parser) (acc : List Instr) : Parser × List Instr :=
  match (doProc q0).2 with
  | .none => ((doProc q0).1, acc)
  | .eop => (resetMeth (doProc q0).1, acc)
  | .ve =>
    if verbOf (doProc q0).1.comp.meth (doProc q0).1.comp.cur == "X" then ((doProc q0).1, acc)
    else ((doProc q0).1, acc ++ [mkInstr (doProc q0).1 (doProc q0).1.comp.cur])

/-- what the loops around `_ical_pull` do with the outcome of one round -/
def book (x : Parser × Option PullRes) (acc : List Instr) : Option (Parser × List Instr) :=
  match x.2 with
  | none => some (x.1, acc)
  | some .need => none
  | some .eop => some (resetMeth x.1, acc)
  | some (.ve ls) =>
    if verbOf x.1.comp.meth ls == "X" then some (x.1, acc) else some (x.1, acc ++ [mkInstr x.1 ls])

/-- one round of `flat` -/
def flatNext (p : Parser) (acc : List Instr) : Option (Parser × List Instr) := book (round p) acc

theorem flatNext_eq (p : Parser) (acc : List Instr) : flatNext p acc = book (round p) acc := rfl

theorem flat_next (f : Nat) (p : Parser) (acc : List Instr) :
    flat (f+1) p acc =
      match flatNext p acc with
      | none => ((round p).1, acc)
      | some x => flat f x.1 x.2 := by
  rw [flat_succ]
  unfold flatNext book
  cases h : (round p).2 with
  | none => rfl
  | some r =>
    cases r with
    | need => rfl
    | eop => rfl
    | ve ls =>
      dsimp only
      split <;> rfl

theorem book_proc (q0 : Parser) (acc : List Instr) :
    book (procRes (doProc q0)) acc = some (bookProc q0 acc) := by
  unfold book bookProc procRes
  cases hr : (doProc q0).2 with
  | none => rfl
  | eop => rfl
  | ve =>
    dsimp only
    split <;> rfl

/-- a non-empty line, of whatever length, is acted upon -/
theorem flushA_of_ne (A : Abs) (h : A.cur ≠ []) :
    flushA A = { (procA A) with sc := {} } := by
  unfold flushA; rw [if_neg h]

theorem flushA_of_nil (A : Abs) (h : A.cur = []) : flushA A = { A with sc := {} } := by
  unfold flushA; rw [if_pos h]

theorem doProc_snd (q0 : Parser) : (doProc q0).2 = (procLine q0.comp q0.stash).2 := rfl
theorem doProc_comp (q0 : Parser) : (doProc q0).1.comp = (procLine q0.comp q0.stash).1 := rfl
theorem doProc_log (q0 : Parser) :
    (doProc q0).1.log = q0.log ++ [q0.stash.takeWhile (· ≠ 0)] := rfl

/-- `_ical_proc` plus bookkeeping is `procA` -/
theorem bookProc_spec (q0 : Parser) (A : Abs) (hs : q0.stash = A.cur) (hc : q0.comp = A.comp)
    (hl : q0.log = A.log) (hne : A.cur ≠ []) (hk : q0.skip = false)
    (he : q0.eolp = false) :
    Rel (bookProc q0 A.ins).1 (flushA A) ∧ (bookProc q0 A.ins).2 = (flushA A).ins ∧
      (bookProc q0 A.ins).1.buf = q0.buf ∧ (bookProc q0 A.ins).1.bix = q0.bix := by
  have hmk : q0.eolp = true ↔ ({} : Sc).pend = true := by rw [he]
  rw [flushA_of_ne A hne]
  unfold bookProc procA
  rw [doProc_snd, doProc_comp, hs, hc]
  cases hr : (procLine A.comp A.cur).2 with
  | none =>
    simp only [hr]
    refine ⟨⟨hk, rfl, ?_, ?_, hmk⟩, trivial, rfl, rfl⟩
    · rw [doProc_comp, hs, hc]
    · rw [doProc_log, hs, hl]
  | eop =>
    simp only [hr]
    refine ⟨⟨hk, rfl, ?_, ?_, hmk⟩, trivial, rfl, rfl⟩
    · show ({ (doProc q0).1.comp with meth := none } : Comp) = _
      rw [doProc_comp, hs, hc]
    · show (doProc q0).1.log = _
      rw [doProc_log, hs, hl]
  | ve =>
    simp only [hr]
    split
    · refine ⟨⟨hk, rfl, ?_, ?_, hmk⟩, rfl, rfl, rfl⟩
      · rw [doProc_comp, hs, hc]
      · rw [doProc_log, hs, hl]
    · refine ⟨⟨hk, rfl, ?_, ?_, hmk⟩, ?_, rfl, rfl⟩
      · rw [doProc_comp, hs, hc]
      · rw [doProc_log, hs, hl]
      · unfold mkInstr; rw [doProc_comp, hs, hc]

/-- the label `proc:` in terms of the automaton: the pending line is flushed -/
theorem procStep_spec (q : Parser) (A : Abs)
    (hk : q.skip = false) (hs : q.stash = A.cur)
    (hc : q.comp = A.comp) (hl : q.log = A.log) (he : q.eolp = false) :
    ∃ q', book (procStep q) A.ins = some (q', (flushA A).ins) ∧ Rel q' (flushA A) ∧
      q'.buf = q.buf ∧ q'.bix = q.bix := by
  have hmk : q.eolp = true ↔ ({} : Sc).pend = true := by rw [he]
  unfold procStep
  rw [if_neg (by rw [hk]; simp)]
  by_cases hne : q.stash.length ≠ 0
  · rw [if_pos hne, book_proc]
    have hcur : A.cur ≠ [] := by
      rw [← hs]; intro hx; rw [hx] at hne; exact hne rfl
    have hb := bookProc_spec q A hs hc hl hcur hk he
    exact ⟨(bookProc q A.ins).1, by rw [← hb.2.1], hb.1, hb.2.2.1, hb.2.2.2⟩
  · rw [if_neg hne]
    have hcur : A.cur = [] := by
      rw [← hs]; exact List.eq_nil_of_length_eq_zero (by omega)
    rw [flushA_of_nil A hcur]
    exact ⟨q, rfl, ⟨hk, hs, hc, hl, hmk⟩, rfl, rfl⟩

end Echse.Ical
