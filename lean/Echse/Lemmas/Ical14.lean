/-
  C10 lemmas, part 14: `chop_more` when a complete line is in the buffer, in terms of the automaton.
-/
import Echse.Lemmas.Ical13
namespace Echse.Ical

theorem chopR_line (p : Parser) (e : Nat) (he : eolR (rest p) = some e) (hlt : e < (rest p).length) :
    chopR p = procStep (takeLine p e) := by
  unfold rest at he hlt
  unfold chopR
  rw [he]
  dsimp only
  rw [if_neg (by omega)]

theorem chopR_stash0 (p : Parser) (he : eolR (rest p) = none) :
    chopR p = ((stashRest p false).1, some .need) := by
  unfold rest at he
  unfold chopR
  rw [he]

theorem chopR_stash1 (p : Parser) (e : Nat) (he : eolR (rest p) = some e) (hge : e ≥ (rest p).length) :
    chopR p = ((stashRest p true).1, some .need) := by
  unfold rest at he hge
  unfold chopR
  rw [he]
  dsimp only
  rw [if_pos hge]

theorem rest_takeLine (p : Parser) (e : Nat) : rest (takeLine p e) = (rest p).drop e := by
  unfold rest
  rw [takeLine_buf, takeLine_bix, List.drop_drop]

/-- a complete line in the buffer: it is processed, the automaton's
pending line is flushed -/
theorem line_spec (p : Parser) (A : Abs) (h : Pre p A) (hp : A.sc.pend = false) (e : Nat)
    (he : eolR (rest p) = some e) (hlt : e < (rest p).length) :
    ∃ q acc' A', book (chopR p) A.ins = some (q, acc') ∧ Pre q A' ∧ rest q ≠ [] ∧ acc' = A'.ins ∧
      runA A (rest p) = runA A' (rest q) := by
  have hs := eolR_some _ _ _ (Nat.le_refl _) he
  have hsplit : (rest p).take e ++ (rest p).drop e = rest p := List.take_append_drop e (rest p)
  cases hd : (rest p).drop e with
  | nil =>
    have : ((rest p).drop e).length = 0 := by rw [hd]; rfl
    simp at this; omega
  | cons d r' =>
    have hfd : isFold d = false := hs.2 d r' hd
    rw [hd] at hsplit
    have hnb : ∀ c ∈ (rest p).take e, c ≠ BSL := fun c hc => h.nobsl c (List.mem_of_mem_take hc)
    have hrun := seg_runA _ ((rest p).take e) A true (Nat.le_refl _) hs.1 hnb hp
    have hsc := seg_runSc _ ((rest p).take e) A.sc true (Nat.le_refl _) hs.1 hp
    have hu : (takeLine p e).eolp = false := by
      rw [takeLine_eolp]; exact rel_unmarked p A h.rel hp
    have hrq : rest (takeLine p e) = d :: r' := by rw [rest_takeLine, hd]
    have hpend2 : (runA A ((rest p).take e)).sc.pend = true := by rw [runA_sc]; exact hsc.1
    have hins2 : (runA A ((rest p).take e)).ins = A.ins := by rw [hrun]
    have hrunall : runA A (rest p) = runA (flushA (runA A ((rest p).take e))) (d :: r') := by
      have : runA A (rest p) = runA A ((rest p).take e ++ d :: r') := by rw [hsplit]
      rw [this, runA_append]; exact runA_flush _ d r' hpend2 hfd
    have hnb3 : ∀ c ∈ d :: r', c ≠ BSL := fun c hc => h.nobsl c (by rw [← hsplit]; simp [hc])
    have tl := takeLine_spec p A h.rel e
    obtain ⟨q', hbook, hrel, hbuf, hbix⟩ := procStep_spec (takeLine p e) (runA A ((rest p).take e))
      tl.1 (by rw [hrun]; exact tl.2)
      (by rw [hrun, takeLine_comp]; exact h.rel.comp) (by rw [hrun, takeLine_log]; exact h.rel.log) hu
    have hrest : rest q' = d :: r' := by
      unfold rest; rw [hbuf, hbix]; exact hrq
    rw [chopR_line p e he hlt]
    refine ⟨q', _, flushA (runA A ((rest p).take e)), by rw [← hins2]; exact hbook,
      ⟨hrel, flushA_inv _, by rw [hrest]; exact hnb3⟩, by rw [hrest]; simp, rfl, by rw [hrest]; exact hrunall⟩

end Echse.Ical
