/-
  FREQ=MONTHLY filler model (Echse.Model.RrMly): properties C09 / C16 of one call `fillMly r proto nti`.
-/
import Echse.Lemmas.RrCandOk5
namespace Echse.Lemmas.RrMlyOk
open Echse.Rrule Echse.Instant Echse.Spec.RrOk
open Echse.Lemmas.RrCandOk

/-- the set-up of `rrul_fill_mly` -/
def mlyCtxOf (r : Rule) (proto : Inst) (nti : Nat) : MlyCtx :=
    let ymdp := r.dow.isEmpty ∧ r.dom.isEmpty
    let k := mkFillCtx r proto nti
    let ds := r.dom.take 62
    let ds := if ds.isEmpty ∧ ymdp ∧ proto.d ≠ 0 then [(proto.d : Int)] else ds
    let wdMask := wdMaskOf r.dow
    { k := k, r := r, ds := ds, wdMask := wdMask }

/-- the days a SHIFT can reach forward, which decide how far the loop starts back -/
def mlyTmp (r : Rule) : Int :=
    let tmp : Int := shDvalue r.shift + tdiv (shBvalue r.shift * 7) 5
    if shBdayP r.shift ∧ !shNegP r.shift then tmp + 3 else tmp

/-- the month the loop would start with, before "get m on track" -/
def mlyBack (r : Rule) (proto : Inst) : Nat × Int :=
    let tmp := mlyTmp r
    let y := proto.y
    let m : Int := proto.m
      if tmp > 0 ∧ r.inter ≤ (12 * y) % u32 then
        let back := toU32 (tdiv (tmp - 1) 28 + 1)
        let back := (back + r.inter + u32 - 1) % u32
        let back := back - back % r.inter
        let y := (y + u32 - back / 12) % u32
        let m : Int := toS32 (toU32 m + u32 - back % 12)
        if m ≤ 0 then ((y + u32 - 1) % u32, m + 12) else (y, m)
      else (y, m)

def mlyStart (r : Rule) (proto : Inst) : Option (Nat × Int) :=
  if !r.mon.isEmpty then mlyTrack r.mon r.inter 13 0 (mlyBack r proto).1 (mlyBack r proto).2 else some (mlyBack r proto)

theorem fillMly_eq (r : Rule) (proto : Inst) (n : Nat) : fillMly r proto n =
    if r.scale ≠ 0 ∨ proto.y ≥ 4096 then none else
    match capNti r n with
    | none => some []
    | some nti =>
      if proto.m = 0 ∨ proto.m > 12 then some [] else
      if mlyTmp r > 0 ∧ r.inter ≤ (12 * proto.y) % u32 ∧ r.inter = 0 then none else
      match mlyStart r proto with
      | none => some []
      | some (y, m) =>
        some (mlyLoop (mlyCtxOf r proto nti) (mlyTries * (nti + 1) + 12 * 2100 + 1) y m mlyTries {}).out.reverse := by
  unfold fillMly mlyStart mlyBack mlyTmp
  rfl

/-- induction over the month loop: an invariant kept by every period holds at the end -/
theorem mlyLoop_ind (c : MlyCtx) (J : Nat → Int → FillSt → Prop)
    (hstep : ∀ y m st, y ≤ maxYear → J y m st →
      J (mlyNext c.r.mon c.r.inter 12 y m).1 (mlyNext c.r.mon c.r.inter 12 y m).2
        (finishPeriod c.k y (mlyCand c y (toU32 m)) st)) :
    ∀ fuel y m tries st, J y m st → ∃ y' m', J y' m' (mlyLoop c fuel y m tries st) := by
  intro fuel
  induction fuel with
  | zero => intro y m _ st h; exact ⟨y, m, h⟩
  | succ fuel ih =>
    intro y m tries st h
    unfold mlyLoop
    split
    · exact ⟨y, m, h⟩
    simp only []
    split
    · exact ⟨y, m, h⟩
    split
    · exact ⟨y, m, h⟩
    rename_i hy
    have h' := hstep y m st (by omega) h
    split
    · exact ⟨_, _, h'⟩
    · exact ih _ _ _ _ h'

theorem mlyCtxOf_k (r : Rule) (p : Inst) (nti : Nat) : (mlyCtxOf r p nti).k = mkFillCtx r p nti := rfl
theorem mlyCtxOf_r (r : Rule) (p : Inst) (nti : Nat) : (mlyCtxOf r p nti).r = r := rfl

/-- the loop keeps `res` = number written ≤ `nti`, and everything written passed the UNTIL and the seed test -/
theorem mlyLoop_base (c : MlyCtx) (fuel y : Nat) (m : Int) (tries : Nat) (st : FillSt) (hb : Base c.k st)
    (hg : ∀ x ∈ st.out, ltP c.k.untl x = false ∧ ltP x c.k.proto = false) :
    Base c.k (mlyLoop c fuel y m tries st) ∧
      ∀ x ∈ (mlyLoop c fuel y m tries st).out, ltP c.k.untl x = false ∧ ltP x c.k.proto = false := by
  obtain ⟨_, _, h⟩ := mlyLoop_ind c
    (fun _ _ st => Base c.k st ∧ ∀ x ∈ st.out, ltP c.k.untl x = false ∧ ltP x c.k.proto = false)
    (fun y m st _ h => by
      have he := finishPeriod_emits c.k y (mlyCand c y (toU32 m)) st
      exact ⟨he.base h.1, he.inv (fun x _ h1 h2 => ⟨h1, h2⟩) h.2⟩)
    fuel y m tries st ⟨hb, hg⟩
  exact h

/-- what `fillMly` returns: nothing, or the cache of the month loop -/
theorem fillMly_some (r : Rule) (p : Inst) (n : Nat) (l : List Inst) (h : fillMly r p n = some l) :
    l = [] ∨ ∃ nti y m, capNti r n = some nti ∧ mlyStart r p = some (y, m) ∧ 1 ≤ p.m ∧ p.m ≤ 12 ∧
      l = (mlyLoop (mlyCtxOf r p nti) (mlyTries * (nti + 1) + 12 * 2100 + 1) y m mlyTries {}).out.reverse := by
  rw [fillMly_eq] at h
  split at h
  · cases h
  split at h
  · injection h with h; exact Or.inl h.symm
  · rename_i nti hc
    split at h
    · injection h with h; exact Or.inl h.symm
    rename_i hm
    split at h
    · cases h
    split at h
    · injection h with h; exact Or.inl h.symm
    · rename_i y m hs
      injection h with h
      exact Or.inr ⟨nti, y, m, hc, hs, by omega, by omega, h.symm⟩

/-- C09 / C16: at most `nti` and at most COUNT instants are written -/
theorem fillMly_len (r : Rule) (p : Inst) (n : Nat) (l : List Inst) (hr : WfRule r) (h : fillMly r p n = some l) :
    l.length ≤ n ∧ (0 ≤ r.count → (l.length : Int) ≤ r.count) := by
  rcases fillMly_some r p n l h with rfl | ⟨nti, y, m, hc, _, _, _, rfl⟩
  · exact ⟨Nat.zero_le _, fun h => h⟩
  · have hb := (mlyLoop_base (mlyCtxOf r p nti) (mlyTries * (nti + 1) + 12 * 2100 + 1) y m mlyTries {} (Base.init _)
      (fun x hx => nomatch hx)).1
    have hcap := capNti_le r n nti hr hc
    have hl : (mlyLoop (mlyCtxOf r p nti) (mlyTries * (nti + 1) + 12 * 2100 + 1) y m mlyTries {}).out.length ≤ nti := by
      have := hb.le; rw [hb.len] at this; exact this
    rw [List.length_reverse]
    refine ⟨by omega, fun h0 => ?_⟩
    have := hcap.2 h0
    omega

/-- C16: nothing before the seed, nothing after UNTIL -/
theorem fillMly_bounds (r : Rule) (p : Inst) (n : Nat) (l : List Inst) (h : fillMly r p n = some l) :
    (∀ x ∈ l, ltP x p = false) ∧ (∀ x ∈ l, ltP r.untl x = false) := by
  rcases fillMly_some r p n l h with rfl | ⟨nti, y, m, hc, _, _, _, rfl⟩
  · exact ⟨fun x hx => (nomatch hx), fun x hx => (nomatch hx)⟩
  · have hb := (mlyLoop_base (mlyCtxOf r p nti) (mlyTries * (nti + 1) + 12 * 2100 + 1) y m mlyTries {} (Base.init _)
      (fun x hx => nomatch hx)).2
    exact ⟨fun x hx => (hb x (List.mem_reverse.mp hx)).2, fun x hx => (hb x (List.mem_reverse.mp hx)).1⟩
/-- one step of the month counter moves a proper month `inter` months on -/
theorem mlyStep_spec (inter y : Nat) (m : Int) (hi : 1 ≤ inter ∧ inter < 2147483648) (hy : y ≤ 2099)
    (hm : 1 ≤ m ∧ m ≤ 12) :
    1 ≤ (mlyStep inter y m).2 ∧ (mlyStep inter y m).2 ≤ 12 ∧
      (12 * (mlyStep inter y m).1 : Int) + (mlyStep inter y m).2 = 12 * y + m + inter := by
  have hu : u32 = 4294967296 := rfl
  have h1 : toS32 (toU32 m + inter % 12) = m + (inter % 12 : Nat) := by
    unfold toS32 toU32; simp only [hu]; split <;> omega
  have h2 : (y + inter / 12) % u32 = y + inter / 12 := by rw [hu]; omega
  have h3 : (y + inter / 12 + 1) % u32 = y + inter / 12 + 1 := by rw [hu]; omega
  unfold mlyStep
  simp only [h1, h2, h3]
  by_cases h : m + (inter % 12 : Nat) > 12
  · rw [if_pos h]; simp only []; omega
  · rw [if_neg h]; simp only []; omega

theorem mlyNext_spec (mon : List Nat) (inter : Nat) (hi : 1 ≤ inter ∧ inter < 2147483648) :
    ∀ fuel y m, 0 < fuel → y ≤ 2099 → 1 ≤ m ∧ m ≤ 12 →
    1 ≤ (mlyNext mon inter fuel y m).2 ∧ (mlyNext mon inter fuel y m).2 ≤ 12 ∧
      (12 * y + m : Int) < 12 * (mlyNext mon inter fuel y m).1 + (mlyNext mon inter fuel y m).2 := by
  intro fuel
  induction fuel with
  | zero => intro _ _ h; omega
  | succ fuel ih =>
    intro y m _ hy hm
    unfold mlyNext
    have hs := mlyStep_spec inter y m hi hy hm
    generalize mlyStep inter y m = ym at hs
    obtain ⟨y1, m1⟩ := ym
    simp only [] at hs ⊢
    split
    · rename_i hc
      cases fuel with
      | zero => unfold mlyNext; simp only []; omega
      | succ fuel =>
        have := ih y1 m1 (by omega) (by unfold maxYear at hc; omega) ⟨hs.1, hs.2.1⟩
        omega
    · simp only []; omega
/-- beyond the supported range the loop does nothing -/
theorem mlyLoop_beyond (c : MlyCtx) (f y : Nat) (m : Int) (tries : Nat) (st : FillSt) (hy : maxYear < y) :
    mlyLoop c f y m tries st = st := by
  cases f with
  | zero => rfl
  | succ f =>
    unfold mlyLoop
    split
    · rfl
    simp only []
    split
    · rfl
    first
      | rfl
      | (split
         · rfl
         · omega)

/-- C09: the fuel never runs out — the month count `12 y + m` grows every round and the loop ends beyond 2099 -/
theorem mlyLoop_fuel (c : MlyCtx) (hi : 1 ≤ c.r.inter ∧ c.r.inter < 2147483648) :
    ∀ f f' y m tries st, 1 ≤ m ∧ m ≤ 12 → 25201 < 12 * y + m.toNat + f → 25201 < 12 * y + m.toNat + f' →
      mlyLoop c f y m tries st = mlyLoop c f' y m tries st := by
  intro f
  induction f with
  | zero =>
    intro f' y m tries st hm h _
    rw [mlyLoop_beyond c 0 y m tries st (by unfold maxYear; omega), mlyLoop_beyond c f' y m tries st (by unfold maxYear; omega)]
  | succ f ih =>
    intro f' y m tries st hm h h'
    cases f' with
    | zero => rw [mlyLoop_beyond c _ y m tries st (by unfold maxYear; omega), mlyLoop_beyond c 0 y m tries st (by unfold maxYear; omega)]
    | succ f' =>
      unfold mlyLoop
      split
      · rfl
      simp only []
      split
      · rfl
      split
      · rfl
      rename_i hy
      split
      · rfl
      · unfold maxYear at hy
        have hs := mlyNext_spec c.r.mon c.r.inter hi 12 y m (by omega) (by omega) hm
        apply ih _ _ _ _ _ ⟨hs.1, hs.2.1⟩ <;> omega
theorem mlyBack_m (r : Rule) (p : Inst) (hm : 1 ≤ p.m ∧ p.m ≤ 12) : 1 ≤ (mlyBack r p).2 ∧ (mlyBack r p).2 ≤ 12 := by
  unfold mlyBack
  simp only []
  split
  · generalize ((toU32 (tdiv (mlyTmp r - 1) 28 + 1) + r.inter + u32 - 1) % u32 -
      (toU32 (tdiv (mlyTmp r - 1) 28 + 1) + r.inter + u32 - 1) % u32 % r.inter) = b
    have hu : u32 = 4294967296 := rfl
    have h1 : toS32 (toU32 (p.m : Int) + u32 - b % 12) = (p.m : Int) - (b % 12 : Nat) := by
      unfold toS32 toU32; simp only [hu]; split <;> omega
    rw [h1]
    split <;> simp only [] <;> omega
  · simp only []; omega

theorem mlyTrack_m (mon : List Nat) (inter : Nat) (hmon : ∀ m ∈ mon, 1 ≤ m ∧ m ≤ 12) :
    ∀ fuel i y m y' m', mlyTrack mon inter fuel i y m = some (y', m') → 1 ≤ m' ∧ m' ≤ 12 := by
  intro fuel
  induction fuel with
  | zero => intro i y m y' m' h; cases h
  | succ fuel ih =>
    intro i y m y' m' h
    unfold mlyTrack at h
    split at h
    · rename_i hh
      injection h with h; injection h with h1 h2
      subst h2
      unfold monHas at hh
      simp only [Bool.decide_and, Bool.and_eq_true, decide_eq_true_eq, List.contains_eq_mem] at hh
      have := hmon _ hh.2
      omega
    split at h
    · cases h
    · exact ih _ _ _ _ _ h

theorem mlyStart_m (r : Rule) (p : Inst) (hr : WfRule r) (hm : 1 ≤ p.m ∧ p.m ≤ 12) (y : Nat) (m : Int)
    (h : mlyStart r p = some (y, m)) : 1 ≤ m ∧ m ≤ 12 := by
  unfold mlyStart at h
  split at h
  · exact mlyTrack_m r.mon r.inter hr.mon.2 _ _ _ _ _ _ h
  · injection h with h
    have := mlyBack_m r p hm
    rw [h] at this
    exact this

theorem fillMly_total (r : Rule) (p : Inst) (n : Nat) (hr : WfRule r) (hp : WfInst p) (_hn : n ≤ 64) :
    (fillMly r p n).isSome := by
  rw [fillMly_eq]
  have h1 := hr.scale
  have h2 := hp.year
  have h3 := hr.inter
  rw [if_neg (by omega)]
  split
  · rfl
  split
  · rfl
  rw [if_neg (by omega)]
  split <;> rfl

/-- `fillMly_total` says little, as the model returns the cache also when its fuel is used up; this is the content:
the fuel `fillMly` gives the loop is enough — any larger amount leads to the same run -/
theorem fillMly_fuel_enough (r : Rule) (p : Inst) (nti F y : Nat) (m : Int) (hr : WfRule r) (hm : 1 ≤ p.m ∧ p.m ≤ 12)
    (hs : mlyStart r p = some (y, m)) (hF : mlyTries * (nti + 1) + 12 * 2100 + 1 ≤ F) :
    mlyLoop (mlyCtxOf r p nti) F y m mlyTries {} =
      mlyLoop (mlyCtxOf r p nti) (mlyTries * (nti + 1) + 12 * 2100 + 1) y m mlyTries {} := by
  have h := mlyStart_m r p hr hm y m hs
  exact mlyLoop_fuel _ hr.inter _ _ _ _ _ _ h (by omega) (by omega)

/-- every candidate of a month is a real date of its year -/
theorem mlyCand_ok (c : MlyCtx) (y m : Nat) (hm : 1 ≤ m ∧ m ≤ 12) (hds : ∀ d ∈ c.ds, -31 ≤ d ∧ d ≤ 31)
    (hdow : ∀ t ∈ c.r.dow, -431 ≤ t ∧ t ≤ 431 ∧ t % 8 ≠ 0) : AllVC y (mlyCand c y m) := by
  unfold mlyCand
  dsimp only
  have h0 : AllVC y (if c.wdMask ≠ 0 ∧ c.ds.length ≠ 0 then []
      else if c.wdMask ≠ 0 then
        fillMlyYmdAllD (if c.wdMask % 2 = 1 then fillMlyYmcw [] y m c.r.dow else []) y m c.wdMask
      else []) := by
    split
    · exact AllVC.nil y
    split
    · refine fillMlyYmdAllD_ok _ _ _ _ ?_ hm
      split
      · exact fillMlyYmcw_ok _ _ _ _ (AllVC.nil y) hm hdow
      · exact AllVC.nil y
    · exact AllVC.nil y
  by_cases hnd : c.ds.length ≠ 0
  · rw [if_pos hnd]; exact fillMlyYmd_ok _ _ _ _ _ _ h0 hm hds
  · rw [if_neg hnd]; exact h0

theorem mem_take {α : Type} (l : List α) (n : Nat) (x : α) (h : x ∈ l.take n) : x ∈ l :=
  (List.take_sublist n l).subset h

theorem mlyCtxOf_ds (r : Rule) (p : Inst) (nti : Nat) (hr : WfRule r) (hp : WfInst p) :
    ∀ d ∈ (mlyCtxOf r p nti).ds, -31 ≤ d ∧ d ≤ 31 := by
  intro d hd
  unfold mlyCtxOf at hd
  dsimp only at hd
  split at hd
  · simp only [List.mem_singleton] at hd
    have := hp.day; have := getNdom_le p.y p.m
    omega
  · have := hr.dom d (mem_take _ _ _ hd); omega

theorem toU32_month (m : Int) (hm : 1 ≤ m ∧ m ≤ 12) : 1 ≤ toU32 m ∧ toU32 m ≤ 12 := by
  unfold toU32; have hu : u32 = 4294967296 := rfl; rw [hu]; omega

/-- C16 (sane instants), as far as it holds; see `fillYly_wf` for the proviso -/
theorem fillMly_wf (r : Rule) (p : Inst) (n : Nat) (l : List Inst) (hr : WfRule r) (hp : WfInst p)
    (hs : ShiftKeepsDates r.shift) (h : fillMly r p n = some l) : ∀ x ∈ l, WfInst x := by
  rcases fillMly_some r p n l h with rfl | ⟨nti, y0, m0, _, hst, hpm1, hpm2, rfl⟩
  · exact fun x hx => (nomatch hx)
  · have hc : ∀ y (m : Int), 1 ≤ m ∧ m ≤ 12 → AllVC y (mlyCand (mlyCtxOf r p nti) y (toU32 m)) := fun y m hm =>
      mlyCand_ok _ y _ (toU32_month m hm) (mlyCtxOf_ds r p nti hr hp)
        (fun t ht => by have := hr.dow t ht; exact ⟨this.2.1, this.2.2.1, this.2.2.2⟩)
    obtain ⟨_, _, hJ⟩ := mlyLoop_ind (mlyCtxOf r p nti) (fun _ m st => (1 ≤ m ∧ m ≤ 12) ∧ ∀ x ∈ st.out, WfInst x)
      (fun y m st hy hJ => by
        have he := finishPeriod_emits (mlyCtxOf r p nti).k y (mlyCand (mlyCtxOf r p nti) y (toU32 m)) st
        have hn := mlyNext_spec r.mon r.inter hr.inter 12 y m (by omega) (by unfold maxYear at hy; omega) hJ.1
        refine ⟨⟨hn.1, hn.2.1⟩, he.inv (fun x hx _ h2 => ?_) hJ.2⟩
        exact finE_wf _ y _ hy (hc y m hJ.1) hs (times_ok r p hr hp) hp.year x hx h2)
      (mlyTries * (nti + 1) + 12 * 2100 + 1) y0 m0 mlyTries {}
      ⟨mlyStart_m r p hr ⟨hpm1, hpm2⟩ y0 m0 hst, fun x hx => nomatch hx⟩
    exact fun x hx => hJ.2 x (List.mem_reverse.mp hx)

end Echse.Lemmas.RrMlyOk
