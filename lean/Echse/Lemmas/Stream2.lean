/-
  Stream layer, part 2: `next_evmux` on the level of the lists the sources stand for.
  `lscan` / `lstep` are `scan` / `muxNext` with every sub-stream replaced by its list; all
  properties of the merge are proved here, `Stream3` ties `muxNext` to `lstep`.
-/
import Echse.Lemmas.Stream
namespace Echse.Stream

/-! ### definitions -/

/-- `scan` on lists: a source is its list, its cached event the head -/
def lscan : List (List Event) → Nat → Event → Nat → List (List Event) × Event × Nat
  | [], _, best, bi => ([], best, bi)
  | [] :: rest, i, best, bi =>
      ([] :: (lscan rest (i+1) best bi).1, (lscan rest (i+1) best bi).2)
  | (h :: t) :: rest, i, best, bi =>
      if evLt h best then ((h :: t) :: (lscan rest (i+1) h i).1, (lscan rest (i+1) h i).2)
      else if evEq h best then (t :: (lscan rest (i+1) best bi).1, (lscan rest (i+1) best bi).2)
      else ((h :: t) :: (lscan rest (i+1) best bi).1, (lscan rest (i+1) best bi).2)

/-- index of the first non-empty list -/
def lfirst : List (List Event) → Nat → Option Nat
  | [], _ => none
  | l :: ls, i => if l.isEmpty then lfirst ls (i+1) else some i

/-- pop the `n`-th list -/
def popAt : Nat → List (List Event) → List (List Event)
  | _, [] => []
  | 0, l :: ls => l.tail :: ls
  | n+1, l :: ls => l :: popAt n ls

/-- `muxNext` on lists -/
def lstep (ls : List (List Event)) (popp : Bool) : Event × List (List Event) :=
  match lfirst ls 0 with
  | none => (Event.nul, [])
  | some i0 =>
    let r := lscan (ls.drop (i0+1)) (i0+1) (hd (ls.getD i0 [])) i0
    (r.2.1, if popp then popAt r.2.2 (ls.take (i0+1) ++ r.1) else ls.take (i0+1) ++ r.1)

/-- the merge as a stream over the lists of lists -/
def lOps : Ops (List (List Event)) where
  peek := fun ls => lstep ls false
  pop := fun ls => lstep ls true

@[simp] theorem call_lOps (ls : List (List Event)) (b : Bool) : call lOps ls b = lstep ls b := by
  cases b <;> rfl

/-- number of events in all lists -/
def total : List (List Event) → Nat
  | [] => 0
  | l :: ls => l.length + total ls

/-- all sources are sorted lists of non-nul events -/
def Valid (ls : List (List Event)) : Prop := ∀ l ∈ ls, NonNul l ∧ Sorted l

/-- pointwise suffix (or dropped altogether, as at the end of the stream) -/
inductive LSuf : List (List Event) → List (List Event) → Prop
  | nil (ls : List (List Event)) : LSuf [] ls
  | cons {l' l : List Event} {ls' ls : List (List Event)} : l' <:+ l → LSuf ls' ls → LSuf (l' :: ls') (l :: ls)

/-! ### `LSuf`, `total`, `popAt` -/

theorem LSuf.refl : ∀ ls, LSuf ls ls
  | [] => LSuf.nil _
  | l :: ls => LSuf.cons (List.suffix_refl l) (LSuf.refl ls)

theorem LSuf.trans {a b c : List (List Event)} (h1 : LSuf a b) (h2 : LSuf b c) : LSuf a c := by
  induction h1 generalizing c with
  | nil _ => exact LSuf.nil _
  | cons s _ ih =>
    cases h2 with
    | cons s2 r2 => exact LSuf.cons (s.trans s2) (ih r2)

theorem LSuf.mem {ls' ls : List (List Event)} (h : LSuf ls' ls) :
    ∀ l' ∈ ls', ∃ l ∈ ls, l' <:+ l := by
  induction h with
  | nil _ => intro l' hl'; cases hl'
  | cons s _ ih =>
    intro l0 hl0
    rcases List.mem_cons.mp hl0 with rfl | hl0
    · exact ⟨_, List.mem_cons_self, s⟩
    · obtain ⟨l, hl, hs⟩ := ih l0 hl0
      exact ⟨l, List.mem_cons_of_mem _ hl, hs⟩

theorem LSuf.append_left (A : List (List Event)) {B' B : List (List Event)} (h : LSuf B' B) :
    LSuf (A ++ B') (A ++ B) := by
  induction A with
  | nil => exact h
  | cons a A ih => exact LSuf.cons (List.suffix_refl a) ih

theorem LSuf.total_le {ls' ls : List (List Event)} (h : LSuf ls' ls) : total ls' ≤ total ls := by
  induction h with
  | nil _ => simp [total]
  | cons s _ ih =>
    have := s.length_le
    simp only [total]; omega

theorem LSuf.valid {ls' ls : List (List Event)} (h : LSuf ls' ls) (hv : Valid ls) : Valid ls' := by
  intro l' hl'
  obtain ⟨l, hl, hs⟩ := h.mem l' hl'
  exact ⟨(hv l hl).1.suffix hs, (hv l hl).2.suffix hs⟩

theorem LSuf.pairwise {R : List Event → List Event → Prop}
    (hR : ∀ a b a' b', R a b → a' <:+ a → b' <:+ b → R a' b')
    {ls' ls : List (List Event)} (h : LSuf ls' ls) (hp : ls.Pairwise R) : ls'.Pairwise R := by
  induction h with
  | nil _ => exact List.Pairwise.nil
  | cons s r ih =>
    rw [List.pairwise_cons] at hp ⊢
    refine ⟨?_, ih hp.2⟩
    intro b' hb'
    obtain ⟨b, hb, hs⟩ := r.mem b' hb'
    exact hR _ _ _ _ (hp.1 b hb) s hs

theorem popAt_suf : ∀ (n : Nat) (ls : List (List Event)), LSuf (popAt n ls) ls
  | n, [] => by cases n <;> exact LSuf.nil _
  | 0, l :: ls => LSuf.cons (List.tail_suffix l) (LSuf.refl ls)
  | n+1, l :: ls => LSuf.cons (List.suffix_refl l) (popAt_suf n ls)

theorem popAt_length_append (A : List (List Event)) (l : List Event) (B : List (List Event)) :
    popAt A.length (A ++ l :: B) = A ++ l.tail :: B := by
  induction A with
  | nil => rfl
  | cons a A ih => simp only [List.length_cons, List.cons_append, popAt, ih]

theorem total_append (A B : List (List Event)) : total (A ++ B) = total A + total B := by
  induction A with
  | nil => simp [total]
  | cons a A ih => simp only [List.cons_append, total, ih]; omega

theorem total_eq_zero {ls : List (List Event)} : total ls = 0 ↔ ∀ l ∈ ls, l = [] := by
  induction ls with
  | nil => simp [total]
  | cons a A ih =>
    simp only [total, List.mem_cons, forall_eq_or_imp]
    rw [← ih, ← List.length_eq_zero_iff]; omega

/-! ### `lscan` -/

theorem lscan_suf : ∀ (rest : List (List Event)) (i : Nat) (best : Event) (bi : Nat),
    LSuf (lscan rest i best bi).1 rest := by
  intro rest
  induction rest with
  | nil => intro i best bi; exact LSuf.nil _
  | cons l rest ih =>
    intro i best bi
    cases l with
    | nil => exact LSuf.cons (List.suffix_refl _) (ih _ _ _)
    | cons h t =>
      simp only [lscan]
      split
      · exact LSuf.cons (List.suffix_refl _) (ih _ _ _)
      · split
        · exact LSuf.cons (List.suffix_cons h t) (ih _ _ _)
        · exact LSuf.cons (List.suffix_refl _) (ih _ _ _)

/-- the result of the scan is the old best, or the head of an (unchanged) scanned list -/
theorem lscan_cases : ∀ (rest : List (List Event)) (i : Nat) (best : Event) (bi : Nat),
    (lscan rest i best bi).2 = (best, bi) ∨
    ∃ pre t post, (lscan rest i best bi).1 = pre ++ ((lscan rest i best bi).2.1 :: t) :: post ∧
      (lscan rest i best bi).2.2 = i + pre.length := by
  intro rest
  induction rest with
  | nil => intro i best bi; exact Or.inl rfl
  | cons l rest ih =>
    intro i best bi
    have lift : ∀ (x : List Event) (b : Event) (k : Nat),
        (∃ pre t post, (lscan rest (i+1) b k).1 = pre ++ ((lscan rest (i+1) b k).2.1 :: t) :: post ∧
          (lscan rest (i+1) b k).2.2 = i + 1 + pre.length) →
        ∃ pre t post, x :: (lscan rest (i+1) b k).1 = pre ++ ((lscan rest (i+1) b k).2.1 :: t) :: post ∧
          (lscan rest (i+1) b k).2.2 = i + pre.length := by
      intro x b k ⟨pre, t, post, h1, h2⟩
      refine ⟨x :: pre, t, post, ?_, ?_⟩
      · rw [h1]; rfl
      · rw [h2, List.length_cons]; omega
    cases l with
    | nil =>
      simp only [lscan]
      rcases ih (i+1) best bi with h | h
      · exact Or.inl h
      · exact Or.inr (lift _ _ _ h)
    | cons h t =>
      simp only [lscan]
      split
      · right
        rcases ih (i+1) h i with h' | h'
        · refine ⟨[], t, (lscan rest (i+1) h i).1, ?_, ?_⟩
          · rw [h']; rfl
          · rw [h']; rfl
        · exact lift _ _ _ h'
      · split
        · rcases ih (i+1) best bi with h' | h'
          · exact Or.inl h'
          · exact Or.inr (lift _ _ _ h')
        · rcases ih (i+1) best bi with h' | h'
          · exact Or.inl h'
          · exact Or.inr (lift _ _ _ h')

/-- the scan's best is at most the old best and at most every scanned event -/
theorem lscan_min : ∀ (rest : List (List Event)) (i : Nat) (best : Event) (bi : Nat),
    (∀ l ∈ rest, Sorted l) →
    evLt best (lscan rest i best bi).2.1 = false ∧
    ∀ l ∈ rest, ∀ x ∈ l, evLt x (lscan rest i best bi).2.1 = false := by
  intro rest
  induction rest with
  | nil => intro i best bi _; exact ⟨evLt_irrefl _, fun l hl => by cases hl⟩
  | cons l rest ih =>
    intro i best bi hs
    have hs' : ∀ l ∈ rest, Sorted l := fun l hl => hs l (List.mem_cons_of_mem _ hl)
    cases l with
    | nil =>
      simp only [lscan]
      obtain ⟨h1, h2⟩ := ih (i+1) best bi hs'
      refine ⟨h1, ?_⟩
      intro l hl x hx
      rcases List.mem_cons.mp hl with rfl | hl
      · cases hx
      · exact h2 l hl x hx
    | cons h t =>
      have hht := (hs _ List.mem_cons_self).head_le
      simp only [lscan]
      split
      · rename_i hlt
        obtain ⟨h1, h2⟩ := ih (i+1) h i hs'
        refine ⟨?_, ?_⟩
        · exact evLt_asymm (lt_of_le_of_lt h1 hlt)
        · intro l hl x hx
          rcases List.mem_cons.mp hl with rfl | hl
          · exact le_trans' h1 (hht x hx)
          · exact h2 l hl x hx
      · rename_i hlt
        have hlt : evLt h best = false := by simpa using hlt
        have key : evLt best (lscan rest (i+1) best bi).2.1 = false ∧
            ∀ l ∈ (h :: t) :: rest, ∀ x ∈ l, evLt x (lscan rest (i+1) best bi).2.1 = false := by
          obtain ⟨h1, h2⟩ := ih (i+1) best bi hs'
          refine ⟨h1, ?_⟩
          intro l hl x hx
          rcases List.mem_cons.mp hl with rfl | hl
          · exact le_trans' h1 (le_trans' hlt (hht x hx))
          · exact h2 l hl x hx
        split <;> exact key

/-- nothing is lost in a scan: a dropped head is identical to the then-best, which stays -/
theorem lscan_keep : ∀ (rest : List (List Event)) (i : Nat) (best : Event) (bi : Nat),
    ∀ l ∈ rest, ∀ x ∈ l,
      (∃ l' ∈ (lscan rest i best bi).1, ∃ x' ∈ l', evEq x' x = true) ∨ evEq best x = true := by
  intro rest
  induction rest with
  | nil => intro i best bi l hl; cases hl
  | cons l0 rest ih =>
    intro i best bi l hl x hx
    have shift : ∀ (y : List Event) (b : Event) (k : Nat),
        (∃ l' ∈ (lscan rest (i+1) b k).1, ∃ x' ∈ l', evEq x' x = true) →
        ∃ l' ∈ y :: (lscan rest (i+1) b k).1, ∃ x' ∈ l', evEq x' x = true := by
      intro y b k ⟨l', h1, h2⟩
      exact ⟨l', List.mem_cons_of_mem _ h1, h2⟩
    cases l0 with
    | nil =>
      simp only [lscan]
      rcases List.mem_cons.mp hl with rfl | hl
      · cases hx
      · rcases ih (i+1) best bi l hl x hx with h | h
        · exact Or.inl (shift _ _ _ h)
        · exact Or.inr h
    | cons h t =>
      simp only [lscan]
      split
      · left
        rcases List.mem_cons.mp hl with rfl | hl
        · exact ⟨h :: t, List.mem_cons_self, x, hx, evEq_refl x⟩
        · rcases ih (i+1) h i l hl x hx with h' | h'
          · exact shift _ _ _ h'
          · exact ⟨h :: t, List.mem_cons_self, h, List.mem_cons_self, h'⟩
      · split
        · rename_i heq
          rcases List.mem_cons.mp hl with rfl | hl
          · rcases List.mem_cons.mp hx with rfl | hx
            · exact Or.inr (evEq_symm heq)
            · exact Or.inl ⟨t, List.mem_cons_self, x, hx, evEq_refl x⟩
          · rcases ih (i+1) best bi l hl x hx with h' | h'
            · exact Or.inl (shift _ _ _ h')
            · exact Or.inr h'
        · rcases List.mem_cons.mp hl with rfl | hl
          · exact Or.inl ⟨h :: t, List.mem_cons_self, x, hx, evEq_refl x⟩
          · rcases ih (i+1) best bi l hl x hx with h' | h'
            · exact Or.inl (shift _ _ _ h')
            · exact Or.inr h'

/-- scanning the scanned lists again finds the same best -/
theorem lscan_again_best : ∀ (rest : List (List Event)) (i : Nat) (best : Event) (bi : Nat),
    (∀ l ∈ rest, Sorted l) →
    (lscan (lscan rest i best bi).1 i best bi).2 = (lscan rest i best bi).2 := by
  intro rest
  induction rest with
  | nil => intro i best bi _; rfl
  | cons l rest ih =>
    intro i best bi hs
    have hs' : ∀ l ∈ rest, Sorted l := fun l hl => hs l (List.mem_cons_of_mem _ hl)
    cases l with
    | nil => simp only [lscan]; exact ih _ _ _ hs'
    | cons h t =>
      have hht := (hs _ List.mem_cons_self).head_le
      by_cases hlt : evLt h best = true
      · simp only [lscan, hlt, if_true]; exact ih _ _ _ hs'
      · by_cases heq : evEq h best = true
        · simp only [lscan, hlt, heq, if_true, if_false, Bool.false_eq_true]
          cases t with
          | nil => simp only [lscan]; exact ih _ _ _ hs'
          | cons h' t' =>
            have hlt' : evLt h' best = false :=
              le_trans' (by simpa using hlt) (hht h' (List.mem_cons_of_mem _ List.mem_cons_self))
            simp only [lscan, hlt', Bool.false_eq_true, if_false]
            split <;> exact ih _ _ _ hs'
        · simp only [lscan, hlt, heq, if_false, Bool.false_eq_true]; exact ih _ _ _ hs'

/-- … and, if no source lists an event twice, changes nothing -/
theorem lscan_again : ∀ (rest : List (List Event)) (i : Nat) (best : Event) (bi : Nat),
    (∀ l ∈ rest, Sorted l) → (∀ l ∈ rest, NoTwin l) →
    lscan (lscan rest i best bi).1 i best bi = lscan rest i best bi := by
  intro rest
  induction rest with
  | nil => intro i best bi _ _; rfl
  | cons l rest ih =>
    intro i best bi hs hn
    have hs' : ∀ l ∈ rest, Sorted l := fun l hl => hs l (List.mem_cons_of_mem _ hl)
    have hn' : ∀ l ∈ rest, NoTwin l := fun l hl => hn l (List.mem_cons_of_mem _ hl)
    cases l with
    | nil => simp only [lscan]; rw [ih _ _ _ hs' hn']
    | cons h t =>
      have hht := (hs _ List.mem_cons_self).head_le
      have hnt := List.pairwise_cons.mp (hn _ List.mem_cons_self)
      by_cases hlt : evLt h best = true
      · simp only [lscan, hlt, if_true]; rw [ih _ _ _ hs' hn']
      · by_cases heq : evEq h best = true
        · simp only [lscan, hlt, heq, if_true, if_false, Bool.false_eq_true]
          cases t with
          | nil => simp only [lscan]; rw [ih _ _ _ hs' hn']
          | cons h' t' =>
            have hlt' : evLt h' best = false :=
              le_trans' (by simpa using hlt) (hht h' (List.mem_cons_of_mem _ List.mem_cons_self))
            have heq' : evEq h' best = false := by
              cases hq : evEq h' best
              · rfl
              · have := hnt.1 h' List.mem_cons_self
                rw [evEq_trans heq (evEq_symm hq)] at this; cases this
            simp only [lscan, hlt', heq', Bool.false_eq_true, if_false]
            rw [ih _ _ _ hs' hn']
        · simp only [lscan, hlt, heq, if_false, Bool.false_eq_true]; rw [ih _ _ _ hs' hn']

end Echse.Stream
