/-
  Lemmas for C07, part 8: `Spaced` zones — consecutive transitions are farther apart than any two offsets of
  the table differ.  Then every preimage of a local time lies next to the first guess, and a local time in
  the gap of a transition has no preimage and a guess at that transition.
-/
import Echse.Lemmas.Tz7
namespace Echse.Tz

/-- consecutive transitions are farther apart than any two offsets differ -/
def Spaced (z : Zone) : Prop :=
  ∀ i, i < z.ntr - 1 → ∀ o1 ∈ z.offs, ∀ o2 ∈ z.offs, o1 - o2 < tr z (i + 1) - tr z i

instance (z : Zone) : Decidable (Spaced z) := by unfold Spaced; infer_instance

theorem offAt_mem (z : Zone) (wf : WF z) (hn : z.ntr ≠ 0) (k : Int) (hk : k < z.ntr) : offAt z k ∈ z.offs := by
  obtain ⟨_, _, hl, hty, _⟩ := wf
  have key : ∀ j, j < z.tys.length → z.offs.getD (z.tys.getD j 0) 0 ∈ z.offs := by
    intro j hj
    have h1 : z.tys.getD j 0 < z.offs.length := by
      rw [getD_of_lt _ _ _ hj]; exact hty _ (List.getElem_mem hj)
    rw [getD_of_lt _ _ _ h1]; exact List.getElem_mem h1
  unfold Zone.ntr at hn hk
  unfold offAt
  split
  · have h0 : 0 < z.offs.length := by
      have : z.tys.getD 0 0 < z.offs.length := by
        rw [getD_of_lt _ _ _ (by omega)]; exact hty _ (List.getElem_mem (by omega))
      omega
    rw [getD_of_lt _ _ _ h0]; exact List.getElem_mem h0
  · exact key _ (by omega)

theorem offAt_diff_lt (z : Zone) (wf : WF z) (sp : Spaced z) (j1 j2 : Int) (h1 : j1 < z.ntr) (h2 : j2 < z.ntr)
    (i : Nat) (hi : i + 1 < z.ntr) : offAt z j1 - offAt z j2 < tr z (i + 1) - tr z i :=
  sp i (by omega) _ (offAt_mem z wf (by omega) j1 h1) _ (offAt_mem z wf (by omega) j2 h2)

/-- in a `Spaced` zone every UTC time showing `w` lies in the stretch of the guess or next to it -/
theorem spaced_near (z : Zone) (wf : WF z) (sp : Spaced z) (w u : Int) (hu : u + off z u = w) : Near z w u := by
  obtain ⟨j0, j1⟩ := trIdx_range z u
  obtain ⟨k0, k1⟩ := trIdx_range z (w - off z w)
  obtain ⟨_, w1⟩ := trIdx_range z w
  have eu : off z u = offAt z (trIdx z u) := rfl
  have ew : off z w = offAt z (trIdx z w) := rfl
  unfold Near guessIdx
  refine ⟨?_, ?_⟩
  · apply Int.not_lt.1; intro h
    have a := tr_le_of_idx z wf (w - off z w) (trIdx z u + 2) (by omega) (by omega)
    have b := lt_tr_of_idx z wf u (trIdx z u + 1) (by omega) (by omega)
    have c := offAt_diff_lt z wf sp (trIdx z u) (trIdx z w) j1 w1 (trIdx z u + 1).toNat (by omega)
    have : (trIdx z u + 2).toNat = (trIdx z u + 1).toNat + 1 := by omega
    rw [this] at a
    omega
  · apply Int.not_lt.1; intro h
    have a := tr_le_of_idx z wf u (trIdx z (w - off z w) + 2) (by omega) (by omega)
    have b := lt_tr_of_idx z wf (w - off z w) (trIdx z (w - off z w) + 1) (by omega) (by omega)
    have c := offAt_diff_lt z wf sp (trIdx z w) (trIdx z u) w1 j1 (trIdx z (w - off z w) + 1).toNat (by omega)
    have : (trIdx z (w - off z w) + 2).toNat = (trIdx z (w - off z w) + 1).toNat + 1 := by omega
    rw [this] at a
    omega

/-- in a `Spaced` zone a local time in the gap of transition `i` has no preimage, and the first guess lands in
one of the two stretches at that transition -/
theorem spaced_gap (z : Zone) (wf : WF z) (sp : Spaced z) (w i : Int) (i0 : 0 ≤ i) (i1 : i < z.ntr)
    (hlo : tr z i.toNat + offAt z (i - 1) ≤ w) (hhi : w < tr z i.toNat + offAt z i) :
    (guessIdx z w = i - 1 ∨ guessIdx z w = i) ∧ ∀ u, u + off z u = w → False := by
  obtain ⟨_, w1⟩ := trIdx_range z w
  have ew : off z w = offAt z (trIdx z w) := rfl
  have e1 : (i - 1).toNat + 1 = i.toNat ∨ i = 0 := by omega
  have e2 : (i + 1).toNat = i.toNat + 1 := by omega
  refine ⟨?_, ?_⟩
  · obtain ⟨k0, k1⟩ := trIdx_range z (w - off z w)
    unfold guessIdx
    have hA : trIdx z (w - off z w) ≤ i := by
      apply Int.not_lt.1; intro h
      have a := tr_le_of_idx z wf (w - off z w) (i + 1) (by omega) (by omega)
      have c := offAt_diff_lt z wf sp i (trIdx z w) i1 w1 i.toNat (by omega)
      rw [e2] at a
      omega
    have hB : i - 1 ≤ trIdx z (w - off z w) := by
      apply Int.not_lt.1; intro h
      have b := lt_tr_of_idx z wf (w - off z w) (i - 1) (by omega) (by omega)
      have c := offAt_diff_lt z wf sp (trIdx z w) (i - 1) w1 (by omega) (i - 1).toNat (by omega)
      rcases e1 with e1 | e1
      · rw [e1] at c; omega
      · omega
    omega
  · intro u hu
    obtain ⟨j0, j1⟩ := trIdx_range z u
    have eu : off z u = offAt z (trIdx z u) := rfl
    by_cases c1 : i + 1 ≤ trIdx z u
    · have a := tr_le_of_idx z wf u (i + 1) (by omega) c1
      have c := offAt_diff_lt z wf sp i (trIdx z u) i1 j1 i.toNat (by omega)
      rw [e2] at a
      omega
    by_cases c2 : trIdx z u = i
    · have a := tr_le_of_idx z wf u i i0 (by omega)
      rw [c2] at eu; omega
    by_cases c3 : trIdx z u = i - 1
    · have b := lt_tr_of_idx z wf u i (by omega) i1
      rw [c3] at eu; omega
    · have b := lt_tr_of_idx z wf u (i - 1) (by omega) (by omega)
      have c := offAt_diff_lt z wf sp (trIdx z u) (i - 1) j1 (by omega) (i - 1).toNat (by omega)
      rcases e1 with e1 | e1
      · rw [e1] at c; omega
      · omega

/-- the offsets on the two sides of transition `k` -/
theorem off_before (z : Zone) (wf : WF z) (k : Nat) (hk : k < z.ntr) :
    off z (tr z k - 1) = offAt z ((k : Int) - 1) := by
  have := trIdx_pred z wf k (by omega) (by omega)
  rw [Int.toNat_natCast] at this
  unfold off; rw [this]

theorem off_at_tr (z : Zone) (wf : WF z) (k : Nat) (hk : k < z.ntr) : off z (tr z k) = offAt z (k : Int) := by
  have := trIdx_succ z wf ((k : Int) - 1) (by omega) (by omega)
  have e : ((k : Int) - 1 + 1).toNat = k := by omega
  rw [e] at this
  unfold off; rw [this]; congr 1; omega

end Echse.Tz
