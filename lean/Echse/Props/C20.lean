/-
  C20 — `WikiSort` as instantiated in instant.c / event.c is a stable sort.

  The comparison is induced by a key, `lt a b = decide (key a < key b)` (a strict weak order;
  for instants the key is the position in the calendar order, for events that of `.from`).

    S  the specification `stableSort` is a permutation, sorted, keeps the order of elements with
       equal keys, and is the only list with these properties;
    A  `InsertionSortBinary` (level-0 ranges) computes it;
    B  `MergeExternal` of two sorted runs is the stable merge; the "already in order" shortcut of
       the level loop gives the same result;
    C  the fixed-point range iterator: at every level the range lengths sum to `size`, there is a
       power of two of them, the ranges of the next level are the unions of adjacent pairs, and
       `nextLevel` reports the end exactly when two ranges are left;
    D  `wikiSortCache` (every level in the cache branch) returns the stable sort whenever it
       returns, and it does return for every array shorter than 1024 elements.

  Arrays of 1024 elements and more take the in-place branch, which is not transcribed
  (`wikiSortCache = none`; see Model/Sort.lean).  Statements only; lemmas live in
  Echse/Lemmas/Sort1..3.
-/
import Echse.Lemmas.Sort3
namespace C20
open Echse.Sort

variable {α : Type} (lt : α → α → Bool) (key : α → Nat)

/-! ### S: the specification -/

/-- S(i) -/
theorem stableSort_perm (hlt : ∀ a b, lt a b = decide (key a < key b)) (xs : List α) :
    (stableSort lt xs).Perm xs :=
  Echse.Sort.stableSort_perm lt key hlt xs

/-- S(ii) -/
theorem stableSort_sorted (hlt : ∀ a b, lt a b = decide (key a < key b)) (xs : List α) :
    (stableSort lt xs).Pairwise (fun a b => key a ≤ key b) :=
  Echse.Sort.stableSort_sorted lt key hlt xs

/-- S(iii): elements that compare equal keep their relative order -/
theorem stableSort_stable (hlt : ∀ a b, lt a b = decide (key a < key b)) (xs : List α) (k : Nat) :
    (stableSort lt xs).filter (fun a => key a == k) = xs.filter (fun a => key a == k) :=
  Echse.Sort.stableSort_stable lt key hlt xs k

/-- S(iv): a sorted list with the same per-key subsequences as `xs` is `stableSort lt xs` -/
theorem stableSort_unique (hlt : ∀ a b, lt a b = decide (key a < key b)) (xs l : List α)
    (hs : l.Pairwise (fun a b => key a ≤ key b))
    (hf : ∀ k, l.filter (fun a => key a == k) = xs.filter (fun a => key a == k)) :
    l = stableSort lt xs :=
  eq_stableSort lt key hlt xs l hs hf

/-! ### A: binary insertion sort -/

theorem insertionSortBinary_stableSort [Inhabited α] (hlt : ∀ a b, lt a b = decide (key a < key b))
    (xs : List α) : insertionSortBinary lt xs = stableSort lt xs :=
  insertionSortBinary_eq lt key hlt xs

/-- what `BinaryLast` finds in a sorted list: the cut between the elements not greater than `t`
and the greater ones -/
theorem binaryLast_cut [Inhabited α] (hlt : ∀ a b, lt a b = decide (key a < key b))
    (pre : List α) (t : α) (hs : pre.Pairwise (fun a b => key a ≤ key b)) :
    (∀ x ∈ pre.take (binaryLast lt pre t), key x ≤ key t) ∧
    (∀ x ∈ pre.drop (binaryLast lt pre t), key t < key x) :=
  binaryLast_spec lt key hlt pre t hs

/-! ### B: the external merge -/

theorem mergeExternal_sorted (hlt : ∀ a b, lt a b = decide (key a < key b)) (a b : List α)
    (ha : a.Pairwise (fun x y => key x ≤ key y)) (hb : b.Pairwise (fun x y => key x ≤ key y)) :
    (mergeExternal lt a b).Pairwise (fun x y => key x ≤ key y) :=
  Echse.Sort.mergeExternal_sorted lt key hlt a b ha hb

/-- stable merge: on ties the elements of `a` come first -/
theorem mergeExternal_stable (hlt : ∀ a b, lt a b = decide (key a < key b)) (a b : List α)
    (ha : a.Pairwise (fun x y => key x ≤ key y)) (k : Nat) :
    (mergeExternal lt a b).filter (fun x => key x == k)
      = a.filter (fun x => key x == k) ++ b.filter (fun x => key x == k) :=
  mergeExternal_fk lt key hlt k a b ha

theorem mergeExternal_perm (a b : List α) : (mergeExternal lt a b).Perm (a ++ b) :=
  Echse.Sort.mergeExternal_perm lt a b

theorem mergeExternal_stableSort (hlt : ∀ a b, lt a b = decide (key a < key b)) (xs ys : List α) :
    mergeExternal lt (stableSort lt xs) (stableSort lt ys) = stableSort lt (xs ++ ys) :=
  Echse.Sort.mergeExternal_stableSort lt key hlt xs ys

/-- the shortcut of the level loop: no merge when `!compare(B[0], A[last])` -/
theorem mergeLevel_shortcut [Inhabited α] (hlt : ∀ a b, lt a b = decide (key a < key b))
    (xs ys : List α)
    (h : lt ((stableSort lt ys).headD default) ((stableSort lt xs).getLastD default) = false) :
    stableSort lt xs ++ stableSort lt ys = stableSort lt (xs ++ ys) :=
  append_stableSort_of_not_lt lt key hlt xs ys h

/-- one level of the cache branch on sorted runs: the runs stay sorted, their lengths are the
sums of adjacent pairs, elements with equal keys keep their order -/
theorem mergeLevel_runs [Inhabited α] (hlt : ∀ a b, lt a b = decide (key a < key b))
    (cs : List (List α)) (h : ∀ c ∈ cs, c.Pairwise (fun x y => key x ≤ key y)) :
    (∀ c ∈ mergeLevel lt cs, c.Pairwise (fun x y => key x ≤ key y)) ∧
    (mergeLevel lt cs).map List.length = pairSums (cs.map List.length) ∧
    ∀ k, (mergeLevel lt cs).flatten.filter (fun x => key x == k)
      = cs.flatten.filter (fun x => key x == k) :=
  mergeLevel_spec lt key hlt cs h

/-! ### C: the range iterator -/

/-- All levels of `WikiIterator_new(size, 8)`, `size > 32`.  With `e + 1` the number of levels
(`2 ≤ e + 1 ≤ 61`), level `l ≤ e` (the iterator after `l` calls of `nextLevel`) has `2^(e+1-l)`
ranges (so level 0 has a power of two `≥ 4` of them), their lengths sum to `size`, each is
`decimalStep` or `decimalStep + 1`, the ranges of the next level are the unions of adjacent pairs,
and `nextLevel` returns `false` exactly at level `e`, where two ranges are left. -/
theorem iter_levels (size : Nat) (h : 32 < size) :
    ∃ e, 1 ≤ e ∧ e ≤ 60 ∧ ∀ l, l ≤ e →
      let it := iterLevel l (WikiIter.new size 8)
      let L := it.lengths (size + 1) 0 0
      it.size = size ∧ L.length = 2 ^ (e + 1 - l) ∧ L.sum = size ∧
      (∀ x ∈ L, x = it.decimalStep ∨ x = it.decimalStep + 1) ∧
      it.nextLevel.1.lengths (size + 1) 0 0 = pairSums L ∧
      it.nextLevel.2 = decide (l < e) :=
  Echse.Sort.iter_levels size h

/-- cutting into ranges and gluing back is the identity as soon as the lengths cover the array -/
theorem chunks_roundtrip (L : List Nat) (xs : List α) (h : xs.length ≤ L.sum) :
    (chunks L xs).flatten = xs :=
  chunks_flatten L xs h

/-- range boundaries in closed form: a level with `c` ranges cuts at `i * size / c` -/
theorem iter_closed_form (it : WikiIter) (c w : Nat) (L : Lvl it c w) :
    it.lengths (it.size + 1) 0 0
      = (List.range' 0 c).map (fun i => (i + 1) * it.size / c - i * it.size / c) :=
  lengths_level it c w L

/-! ### D: the sort -/

/-- whenever every level takes the cache branch, the result is the stable sort -/
theorem wikiSortCache_spec [Inhabited α] (hlt : ∀ a b, lt a b = decide (key a < key b))
    (xs : List α) (r : List α) (h : wikiSortCache lt xs = some r) : r = stableSort lt xs :=
  wikiSortCache_eq lt key hlt xs r h

/-- below 1024 elements every level takes the cache branch (and the model's fuel suffices);
this needs nothing about `lt` -/
theorem wikiSortCache_covers [Inhabited α] (xs : List α) (h : xs.length < 1024) :
    (wikiSortCache lt xs).isSome :=
  wikiSortCache_isSome lt xs h

theorem wikiSort_small [Inhabited α] (hlt : ∀ a b, lt a b = decide (key a < key b))
    (xs : List α) (h : xs.length < 1024) :
    wikiSortCache lt xs = some (stableSort lt xs) ∧
    wikiSort lt xs = stableSort lt xs ∧
    (wikiSort lt xs).Perm xs ∧
    (wikiSort lt xs).Pairwise (fun a b => key a ≤ key b) ∧
    ∀ k, (wikiSort lt xs).filter (fun a => key a == k) = xs.filter (fun a => key a == k) := by
  have hc := wikiSortCache_covers lt xs h
  obtain ⟨r, hr⟩ := Option.isSome_iff_exists.mp hc
  have e := wikiSortCache_spec lt key hlt xs r hr
  subst e
  have hw : wikiSort lt xs = stableSort lt xs := by
    unfold wikiSort; rw [hr]; rfl
  refine ⟨hr, hw, ?_, ?_, ?_⟩
  · rw [hw]; exact stableSort_perm lt key hlt xs
  · rw [hw]; exact stableSort_sorted lt key hlt xs
  · intro k; rw [hw]; exact stableSort_stable lt key hlt xs k

/-- the fallback of `wikiSort` makes the equation hold for every length; for 1024 elements and
more this says nothing about the C code (in-place branch not transcribed) -/
theorem wikiSort_eq [Inhabited α] (hlt : ∀ a b, lt a b = decide (key a < key b)) (xs : List α) :
    wikiSort lt xs = stableSort lt xs := by
  unfold wikiSort
  cases h : wikiSortCache lt xs with
  | none => rfl
  | some r => exact wikiSortCache_spec lt key hlt xs r h

/-! ### E: the hypotheses are satisfiable; concrete runs with ties -/

/-- comparison of pairs on the first component (the second records the original position) -/
def ltFst : Nat × Nat → Nat × Nat → Bool := fun a b => decide (a.1 < b.1)

theorem ltFst_key : ∀ a b, ltFst a b = decide ((fun p : Nat × Nat => p.1) a < (fun p : Nat × Nat => p.1) b) :=
  fun _ _ => rfl

theorem wikiSort_ltFst (xs : List (Nat × Nat)) (h : xs.length < 1024) :
    wikiSort ltFst xs = stableSort ltFst xs ∧ (wikiSort ltFst xs).Perm xs ∧
    (wikiSort ltFst xs).Pairwise (fun a b => a.1 ≤ b.1) ∧
    ∀ k, (wikiSort ltFst xs).filter (fun a => a.1 == k) = xs.filter (fun a => a.1 == k) :=
  (wikiSort_small ltFst (fun p => p.1) ltFst_key xs h).2

-- insertion sort only (at most 32 elements)
example : wikiSort ltFst [(2, 0), (1, 1), (2, 2), (1, 3), (0, 4), (2, 5)]
    = [(0, 4), (1, 1), (1, 3), (2, 0), (2, 2), (2, 5)] := by decide

-- 44 elements: four level-0 ranges of 11 (binary insertion sort), then two merge levels
example : (WikiIter.new 44 8).lengths 45 0 0 = [11, 11, 11, 11] := by decide

example : wikiSortCache ltFst
    [(3, 0), (1, 1), (3, 2), (4, 3), (2, 4), (4, 5), (0, 6), (3, 7), (5, 8), (1, 9), (4, 10),
     (1, 11), (2, 12), (5, 13), (2, 14), (3, 15), (1, 16), (3, 17), (4, 18), (2, 19), (4, 20), (0, 21),
     (3, 22), (5, 23), (1, 24), (4, 25), (1, 26), (2, 27), (5, 28), (2, 29), (3, 30), (1, 31), (3, 32),
     (4, 33), (2, 34), (4, 35), (0, 36), (3, 37), (5, 38), (1, 39), (4, 40), (1, 41), (2, 42), (5, 43)]
  = some
    [(0, 6), (0, 21), (0, 36), (1, 1), (1, 9), (1, 11), (1, 16), (1, 24), (1, 26), (1, 31), (1, 39),
     (1, 41), (2, 4), (2, 12), (2, 14), (2, 19), (2, 27), (2, 29), (2, 34), (2, 42), (3, 0), (3, 2),
     (3, 7), (3, 15), (3, 17), (3, 22), (3, 30), (3, 32), (3, 37), (4, 3), (4, 5), (4, 10), (4, 18),
     (4, 20), (4, 25), (4, 33), (4, 35), (4, 40), (5, 8), (5, 13), (5, 23), (5, 28), (5, 38), (5, 43)] := by
  decide +kernel

end C20
