/* harness for the daemon: echsd.c of the scratch copy is #included unmodified (main renamed),
 * compiled against the virtual-time <ev.h> stand-in in harness/fakeev, with posix_spawn, getpwuid/getpwnam
 * replaced and the file-system calls of the checkpoint interposed (crash / fault at the k-th call).
 *
 * protocol: one history per line
 *   d.hist MEUID ; OP ; OP ; …
 * OPs:  T <t>            clock := t, run one loop iteration (due periodic watchers)
 *       A <peer> <hex>   client request (iCalendar text, hex) from peer uid <peer>
 *       X <k> <status>   exit of the k-th supervised child (0-based, in spawn order)
 *       Q                dump the task table
 *       H <peer> <hex>   HTTP request line from peer (HQ: the same, GET …/queue; the model tells them apart)
 *       C                checkpoint timer fires
 *       K <k>            die at the k-th interposed file-system call from now on
 *       F <k> <errno>    the k-th interposed file-system call from now on fails with errno
 *       R                clean shutdown (final checkpoint) and start of a new daemon on the same spool
 *       L                list spool files (name: UIDs)
 *       N <k> [i…]       k clients connect, those listed hang up, as many connect again: the connection slots handed out
 * every OP answers with one `[…]` group; a died process is reported as `[CRASH]` and a new daemon is
 * started on the same spool directory for the remaining OPs. */
#define _GNU_SOURCE
#include <stdarg.h>
#include <stdio.h>
#include <stdlib.h>
#include <string.h>
#include <unistd.h>
#include <errno.h>
#include <fcntl.h>
#include <pwd.h>
#include <spawn.h>
#include <dirent.h>
#include <sys/stat.h>
#include <sys/syscall.h>
#include <sys/wait.h>
#include <sys/types.h>

#if defined VERIF_GCOV
/* development aid: the daemon processes leave through exit_group(2), hand the line counters over first */
extern void __gcov_dump(void);
# define HX_GCOV_DUMP()	__gcov_dump()
#else
# define HX_GCOV_DUMP()	((void)0)
#endif

/* ---------------------------------------------------------------- output of the current op */
static char obuf[1 << 20];
static size_t on;
static void out(const char *fmt, ...) __attribute__((format(printf, 1, 2)));
static void out(const char *fmt, ...)
{
	va_list ap;
	va_start(ap, fmt);
	int k = vsnprintf(obuf + on, sizeof(obuf) - on, fmt, ap);
	va_end(ap);
	if (k > 0 && on + k < sizeof(obuf)) on += k;
}

/* ---------------------------------------------------------------- interposed file-system calls */
/* crash / fault points are named by the user whose queue file is being written and the call:
 * o(penat of the dot-file) w(first write) c(lose) r(enameat, before it happens) a(fter the rename) */
static int fs_armed;        /* only while a checkpoint / shutdown runs */
static long cut_uid = -1, flt_uid = -1;
static char cut_kind, flt_kind;
static int flt_errno;
static long fd_uid[1024];
static char fs_trace[4096];

static long dot_uid(const char *fn)
{
	return (fn && !strncmp(fn, ".echsq_", 7)) ? atol(fn + 7) : -1;
}

static int fs_gate(long uid, char kind)
{
	if (!fs_armed || uid < 0) return 0;
	size_t tl = strlen(fs_trace);
	if (tl + 2 < sizeof(fs_trace) && !(kind == 'w' && tl && fs_trace[tl - 1] == 'w')) { fs_trace[tl] = kind; fs_trace[tl + 1] = 0; }
	if (uid == cut_uid && kind == cut_kind) {
		HX_GCOV_DUMP(), syscall(SYS_exit_group, 77);
	}
	if (uid == flt_uid && kind == flt_kind) {
		flt_uid = -1;
		errno = flt_errno;
		return -1;
	}
	return 0;
}

int openat(int dfd, const char *fn, int fl, ...)
{
	mode_t m = 0;
	if (fl & O_CREAT) { va_list ap; va_start(ap, fl); m = (mode_t)va_arg(ap, int); va_end(ap); }
	long u = dot_uid(fn);
	if ((fl & (O_WRONLY | O_RDWR)) && fs_gate(u, 'o') < 0) return -1;
	int fd = syscall(SYS_openat, dfd, fn, fl, m);
	if (fd >= 0 && fd < 1024) fd_uid[fd] = (fl & (O_WRONLY | O_RDWR)) ? u : -1;
	return fd;
}
ssize_t write(int fd, const void *b, size_t n)
{
	if (fd > 2 && fd < 1024 && fs_gate(fd_uid[fd], 'w') < 0) return -1;
	return syscall(SYS_write, fd, b, n);
}
int close(int fd)
{
	if (fd > 2 && fd < 1024) {
		long u = fd_uid[fd];
		fd_uid[fd] = -1;
		if (fs_gate(u, 'c') < 0) { syscall(SYS_close, fd); return -1; }
	}
	return syscall(SYS_close, fd);
}
int renameat(int od, const char *o, int nd, const char *n)
{
	long u = dot_uid(o);
	if (fs_gate(u, 'r') < 0) return -1;
	int rc = syscall(SYS_renameat, od, o, nd, n);
	if (rc == 0) (void)fs_gate(u, 'a');
	return rc;
}
int unlinkat(int d, const char *f, int fl)
{
	return syscall(SYS_unlinkat, d, f, fl);
}

/* ---------------------------------------------------------------- users */
static struct passwd pwtab[] = {
	{"root", "x", 0, 0, "", "/root", "/bin/sh"},
	{"alice", "x", 1001, 1001, "", "/home/alice", "/bin/sh"},
	{"bob", "x", 1002, 1002, "", "/home/bob", "/bin/bash"},
	{"carol", "x", 1003, 1003, "", "/home/carol", "/bin/sh"},
	{"dave", "x", 1004, 1004, "", "/home/dave", "/bin/zsh"},
};
/* a crowd of further known users, uids 2001..2040 (names u2001..), for histories with more owners than the
 * daemon's fixed-size lists hold */
static struct passwd *hx_crowd(uid_t u)
{
	static struct passwd pw;
	static char nm[16], hm[32];
	if (u < 2001 || u > 2040) return NULL;
	snprintf(nm, sizeof(nm), "u%u", (unsigned)u);
	snprintf(hm, sizeof(hm), "/home/u%u", (unsigned)u);
	pw = (struct passwd){nm, "x", u, u, "", hm, "/bin/sh"};
	return &pw;
}
static struct passwd *hx_getpwuid(uid_t u)
{
	for (size_t i = 0; i < sizeof(pwtab) / sizeof(*pwtab); i++) if (pwtab[i].pw_uid == u) return pwtab + i;
	return hx_crowd(u);
}
static struct passwd *hx_getpwnam(const char *n)
{
	for (size_t i = 0; i < sizeof(pwtab) / sizeof(*pwtab); i++) if (!strcmp(pwtab[i].pw_name, n)) return pwtab + i;
	if (n[0] == 'u' && n[1] >= '0' && n[1] <= '9') return hx_crowd((uid_t)atol(n + 1));
	return NULL;
}
#define getpwuid hx_getpwuid
#define getpwnam hx_getpwnam

/* ---------------------------------------------------------------- spawn recorder */
static int spawn_stdin = -1;
static int next_pid = 1000;
static struct { int pid; char nd; int infd; } spawns[4096];
static int nspawns;
static int hx_spawn_fail;

static int hx_fa_adddup2(posix_spawn_file_actions_t *fa, int fd, int newfd)
{
	(void)fa;
	if (newfd == STDIN_FILENO) spawn_stdin = dup(fd);
	return 0;
}
static int hx_posix_spawn(pid_t *pid, const char *path, const posix_spawn_file_actions_t *fa,
			  const posix_spawnattr_t *at, char *const argv[], char *const envp[])
{
	(void)path; (void)fa; (void)at; (void)envp;
	/* posix_spawn() returns the error number (positive) and leaves errno and *pid alone */
	if (hx_spawn_fail) { spawn_stdin = -1; return EAGAIN; }
	int nd = 0;
	for (int i = 0; argv[i]; i++) if (!strcmp(argv[i], "-nd") || !strcmp(argv[i], "--no-run")) nd = 1;
	*pid = next_pid++;
	spawns[nspawns].pid = *pid;
	spawns[nspawns].nd = nd;
	spawns[nspawns].infd = spawn_stdin;
	nspawns++;
	spawn_stdin = -1;
	return 0;
}
#define posix_spawn hx_posix_spawn
#define posix_spawn_file_actions_adddup2 hx_fa_adddup2

#define main echsd_main
#include "echsd.c"

/* obint_name() answers generated uids from one static buffer: keep copies (freed with the process) */
static const char *hx_name(echs_toid_t o)
{
	const char *s = obint_name(o);
	return s ? strdup(s) : "?";
}

#undef main

/* ---------------------------------------------------------------- the stand-in event loop */
static struct ev_loop the_loop;
static ev_periodic *pers[4096];
static int npers;
static unsigned long perseq;
static ev_child *chlds[4096];
static int chld_pid[4096];
static int nchlds;        /* in start order, never compacted: X k addresses the k-th started (by its pid: the
                           * watcher objects are pooled and reused by echsd) */

struct ev_loop *ev_default_loop(unsigned int f) { (void)f; return &the_loop; }
void ev_loop_destroy(EV_P) { (void)loop; }
/* libev 4.31 and later keep a timerfd next to the periodics; ev_loop_fork() makes the next iteration re-create it and
 * feed its watcher, whose callback (invoked after the callbacks fed by periodics_reify) reads the clock afresh and runs
 * periodics_reschedule(): every periodic's reschedule_cb is called with the time the iteration's callbacks ended */
static int hx_postfork;
void ev_loop_fork(EV_P) { (void)loop; hx_postfork = 1; }
void ev_break(EV_P_ int how) { (void)how; loop->broken = 1; }
int ev_loop(EV_P_ int flags) { (void)loop; (void)flags; return 0; }
void ev_timer_start(EV_P_ ev_timer *w) { (void)loop; w->active = 1; }
void ev_io_start(EV_P_ ev_io *w) { (void)loop; w->active = 1; }
void ev_io_stop(EV_P_ ev_io *w) { (void)loop; w->active = 0; }
void ev_signal_start(EV_P_ ev_signal *w) { (void)loop; w->active = 1; }

void ev_periodic_start(EV_P_ ev_periodic *w)
{
	if (w->active) return;
	if (w->reschedule_cb) w->at = w->reschedule_cb(w, loop->now);
	else w->at = w->offset;
	w->active = 1;
	w->seq = perseq++;
	pers[npers++] = w;
}
void ev_periodic_stop(EV_P_ ev_periodic *w)
{
	(void)loop;
	w->pending = 0;        /* ev_clear_pending */
	if (!w->active) return;
	w->active = 0;
	for (int i = 0; i < npers; i++) if (pers[i] == w) { pers[i] = pers[--npers]; break; }
}
void ev_child_start(EV_P_ ev_child *w) { (void)loop; w->active = 1; chld_pid[nchlds] = w->pid; chlds[nchlds++] = w; }
void ev_child_stop(EV_P_ ev_child *w) { (void)loop; w->active = 0; }

static void child_exit(int k, int status);

static void periodics_reschedule(ev_tstamp now)
{
/* libev: after a jump of the wall clock, and from the timerfd callback */
	for (int i = 0; i < npers; i++) {
		if (pers[i]->reschedule_cb) pers[i]->at = pers[i]->reschedule_cb(pers[i], now);
	}
}

static ev_tstamp hx_busy;	/* how long the callbacks of the coming iteration take on the wall clock (TB) */

static void loop_iteration(ev_tstamp now, int exit_k)
{
	const int forked = hx_postfork;
	hx_postfork = 0;
/* libev 4.33 periodics_reify + invoke_pending: due watchers (at < now) are re-armed through
 * reschedule_cb (or stopped) in heap order, then their callbacks run in the same order */
	static ev_periodic *pend[4096];
	int npend = 0;
	the_loop.now = now;
	for (;;) {
		ev_periodic *top = NULL;
		for (int i = 0; i < npers; i++) {
			if (pers[i]->at < now && (!top || pers[i]->at < top->at || (pers[i]->at == top->at && pers[i]->seq < top->seq))) {
				int dup = 0;
				for (int j = 0; j < npend; j++) if (pend[j] == pers[i]) dup = 1;
				if (!dup) top = pers[i];
			}
		}
		if (!top || npend >= 4096) break;
		if (top->reschedule_cb) {
			top->at = top->reschedule_cb(top, now);
		} else {
			ev_periodic_stop(&the_loop, top);
		}
		top->pending = 1;
		pend[npend++] = top;
	}
	/* a child that was reaped in this iteration: its watcher is fed after the periodics and therefore
	 * invoked before them (libev invokes the pending array from its end) */
	if (exit_k >= 0) child_exit(exit_k, 0);
	for (int i = 0; i < npend; i++) {
		if (!pend[i]->pending) continue;        /* stopped meanwhile: ev_clear_pending */
		pend[i]->pending = 0;
		pend[i]->cb(&the_loop, pend[i], 0);
	}
	if (forked) {
		/* the timerfd watcher was fed first and is invoked last */
		the_loop.now = now + hx_busy;
		periodics_reschedule(now + hx_busy);
	}
	hx_busy = 0;
}

/* ---------------------------------------------------------------- helpers */
static size_t unhex(const char *h, char *o, size_t max)
{
	size_t n = 0;
	for (; h[0] && h[1] && n + 1 < max; h += 2) { unsigned v; sscanf(h, "%2x", &v); o[n++] = (char)v; }
	o[n] = 0;
	return n;
}

static void drain_spawns(int from)
{
	/* report the spawns made since `from`: the VTODO handed to echsx is read back from the pipe */
	for (int i = from; i < nspawns; i++) {
		char vt[16384]; ssize_t n = 0;
		if (spawns[i].infd >= 0) {
			ssize_t k;
			while ((k = read(spawns[i].infd, vt + n, sizeof(vt) - 1 - n)) > 0) n += k;
			syscall(SYS_close, spawns[i].infd);
			spawns[i].infd = -1;
		}
		vt[n > 0 ? n : 0] = 0;
		char uid[256] = "?", dur[64] = "-", su[32] = "-", um[32] = "-";
		for (char *l = strtok(vt, "\n"); l; l = strtok(NULL, "\n")) {
			if (!strncmp(l, "UID:", 4)) snprintf(uid, sizeof(uid), "%s", l + 4);
			else if (!strncmp(l, "DURATION:", 9)) snprintf(dur, sizeof(dur), "%s", l + 9);
			else if (!strncmp(l, "X-ECHS-SETUID:", 14)) snprintf(su, sizeof(su), "%s", l + 14);
			else if (!strncmp(l, "X-ECHS-UMASK:", 13)) snprintf(um, sizeof(um), "%s", l + 13);
		}
		out("%ssp(%s,nd=%d,dur=%s,as=%s)", on ? "," : "", uid, spawns[i].nd, dur, su);
	}
}

static void list_spool(void)
{
	/* name: sorted UIDs found in the file, `!` if the file is not a complete calendar */
	DIR *d = fdopendir(dup(qdirfd));
	char *names[256]; int nn = 0;
	rewinddir(d);
	for (struct dirent *e; (e = readdir(d));) if (!strncmp(e->d_name, "echsq_", 6) && nn < 256) names[nn++] = strdup(e->d_name);
	closedir(d);
	for (int i = 0; i < nn; i++) for (int j = i + 1; j < nn; j++) if (strcmp(names[i], names[j]) > 0) { char *t = names[i]; names[i] = names[j]; names[j] = t; }
	for (int i = 0; i < nn; i++) {
		int fd = syscall(SYS_openat, qdirfd, names[i], O_RDONLY, 0);
		static char b[1 << 20]; ssize_t n = 0, k;
		while (fd >= 0 && (k = read(fd, b + n, sizeof(b) - 1 - n)) > 0) n += k;
		if (fd >= 0) syscall(SYS_close, fd);
		b[n] = 0;
		int complete = n >= 28 && !strncmp(b, "BEGIN:VCALENDAR", 15) && strstr(b, "END:VCALENDAR\n") && !strcmp(b + n - 14, "END:VCALENDAR\n");
		int nb = 0, ne = 0;
		char *uids[1024]; int nu = 0;
		for (char *l = strtok(b, "\n"); l; l = strtok(NULL, "\n")) {
			if (!strcmp(l, "BEGIN:VEVENT")) nb++;
			else if (!strcmp(l, "END:VEVENT")) ne++;
			else if (!strncmp(l, "UID:", 4) && nu < 1024) uids[nu++] = l + 4;
		}
		for (int x = 0; x < nu; x++) for (int y = x + 1; y < nu; y++) if (strcmp(uids[x], uids[y]) > 0) { char *t = uids[x]; uids[x] = uids[y]; uids[y] = t; }
		out("%s%s%s:", on ? "," : "", names[i], (complete && nb == ne) ? "" : "!");
		for (int x = 0; x < nu; x++) out("%s%s", x ? "+" : "", uids[x]);
		free(names[i]);
	}
}

static struct _echsd_s *ctx;
static const char *spool;

static double start_now;
static void start_daemon(uid_t me)
{
	the_loop.now = start_now;
	meself.uid = me; meself.gid = me;
	snprintf(hname, sizeof(hname), "hx"); hnamez = 2;
	echsx = "/nonexistent/echsx";
	qdirfd = open(spool, O_RDONLY);
	echs_log = echs_errlog;
	ctx = make_echsd();
	echsd_inject_queues(ctx, spool);
}

static void child_exit(int k, int status)
{
	if (k >= 0 && k < nchlds && chlds[k]->active && chlds[k]->pid == chld_pid[k]) {
		ev_child *c = chlds[k];
		c->rpid = c->pid; c->rstatus = status;
		c->cb(&the_loop, c, 0);
		out("x");
	} else out("nochild");
}

static void do_op(char *op)
{
	char *a[8]; int n = 0;
	for (char *p = strtok(op, " "); p && n < 8; p = strtok(NULL, " ")) a[n++] = p;
	on = 0; obuf[0] = 0;
	int sp0 = nspawns;
	if (n == 0) return;
	if (!strcmp(a[0], "T") && n >= 2) {
		loop_iteration(strtod(a[1], NULL), -1);
		drain_spawns(sp0);
	} else if (!strcmp(a[0], "TB") && n >= 3) {
		/* TB now busy: an iteration whose callbacks take `busy` seconds of wall clock */
		hx_busy = strtod(a[2], NULL);
		loop_iteration(strtod(a[1], NULL), -1);
		drain_spawns(sp0);
	} else if (!strcmp(a[0], "J") && n >= 2) {
		/* J now: the wall clock is stepped to `now` (NTP step, resume): libev's time_update() notices the jump against
		 * the monotonic clock and runs periodics_reschedule() before the timers of the iteration are looked at */
		the_loop.now = strtod(a[1], NULL);
		periodics_reschedule(the_loop.now);
		loop_iteration(the_loop.now, -1);
		drain_spawns(sp0);
	} else if (!strcmp(a[0], "TX") && n >= 3) {
		/* a loop iteration in which the k-th child is reaped as well */
		loop_iteration(strtod(a[1], NULL), atoi(a[2]));
		drain_spawns(sp0);
	} else if (!strcmp(a[0], "A") && n >= 3) {
		static char txt[1 << 18];
		size_t len = unhex(a[2], txt, sizeof(txt));
		struct echs_cmdparam_s cmd[1]; memset(cmd, 0, sizeof(cmd));
		int p[2]; if (pipe(p) < 0) { out("pipe"); return; }
		fcntl(p[0], F_SETFL, O_NONBLOCK);
		ncred_t cred = compl_uid((uid_t)strtoul(a[1], NULL, 10));
		if (cred.u == NOT_A_UID) cred.u = (uid_t)strtoul(a[1], NULL, 10);
		/* the text arrives in 4096 byte reads like on the socket */
		for (size_t off = 0; off < len || (off == 0 && len == 0);) {
			size_t c = len - off > 4096 ? 4096 : len - off;
			if (feed_cmd(cmd, txt + off, c) == ECHS_CMD_ICAL) (void)cmd_ical(&the_loop, p[1], &cmd->ical, cred);
			off += c;
			if (!c) break;
		}
		shut_cmd(cmd);
		syscall(SYS_close, p[1]);
		static char rp[1 << 18]; ssize_t m = 0, k;
		while ((k = read(p[0], rp + m, sizeof(rp) - 1 - m)) > 0) m += k;
		syscall(SYS_close, p[0]);
		rp[m] = 0;
		char uid[256] = "?";
		for (char *l = strtok(rp, "\n"); l; l = strtok(NULL, "\n")) {
			if (!strncmp(l, "UID:", 4)) snprintf(uid, sizeof(uid), "%s", l + 4);
			else if (!strncmp(l, "REQUEST-STATUS:", 15)) { char st[8] = {0}; memcpy(st, l + 15, 3); out("%srp(%s=%s)", on ? "," : "", uid, st); }
		}
		drain_spawns(sp0);
	} else if (!strcmp(a[0], "X") && n >= 3) {
		child_exit(atoi(a[1]), atoi(a[2]));
		drain_spawns(sp0);
	} else if (!strcmp(a[0], "QZ")) {
		/* the size of the table of tasks and the number of tasks in it (probe only, not modelled) */
		size_t k = 0;
		for (size_t i = 0; i < ztask_ht; i++) k += task_ht[i].oid != 0;
		out("%zu/%zu", k, ztask_ht);
	} else if (!strcmp(a[0], "QM")) {
		/* the table with the tasks' limits: uid:owner:max_simul */
		struct { const char *uid; unsigned owner; int ms; } r[4096]; int nr = 0;
		for (size_t i = 0; i < ztask_ht && nr < 4096; i++) if (task_ht[i].oid) {
			_task_t t = task_ht[i].t;
			r[nr].uid = hx_name(task_ht[i].oid); r[nr].owner = echs_task_owner(t->t); r[nr].ms = t->t->max_simul; nr++;
		}
		for (int i = 0; i < nr; i++) for (int j = i + 1; j < nr; j++) if (strcmp(r[i].uid, r[j].uid) > 0) { __typeof(r[0]) x = r[i]; r[i] = r[j]; r[j] = x; }
		for (int i = 0; i < nr; i++) out("%s%s:%u:%d", i ? "," : "", r[i].uid, r[i].owner, r[i].ms);
	} else if (!strcmp(a[0], "Q")) {
		struct { const char *uid; unsigned owner; uint64_t cur; size_t nrun, nsim; } r[4096]; int nr = 0;
		for (size_t i = 0; i < ztask_ht && nr < 4096; i++) if (task_ht[i].oid) {
			_task_t t = task_ht[i].t;
			r[nr].uid = hx_name(task_ht[i].oid); r[nr].owner = echs_task_owner(t->t);
			r[nr].cur = t->cur.u; r[nr].nrun = t->nrun; r[nr].nsim = t->nsim; nr++;
		}
		for (int i = 0; i < nr; i++) for (int j = i + 1; j < nr; j++) if (strcmp(r[i].uid, r[j].uid) > 0) { __typeof(r[0]) t = r[i]; r[i] = r[j]; r[j] = t; }
		for (int i = 0; i < nr; i++) out("%s%s:%u:%016llx:%zu", i ? "," : "", r[i].uid, r[i].owner, (unsigned long long)r[i].cur, r[i].nsim);
	} else if ((!strcmp(a[0], "H") || !strcmp(a[0], "HQ")) && n >= 3) {
		static char txt[8192];
		size_t len = unhex(a[2], txt, sizeof(txt));
		struct echs_cmdparam_s cmd[1]; memset(cmd, 0, sizeof(cmd));
		char fn[] = "/tmp/hxhttpXXXXXX"; int fd = mkstemp(fn); unlink(fn);
		ncred_t cred = compl_uid((uid_t)strtoul(a[1], NULL, 10));
		if (cred.u == NOT_A_UID) cred.u = (uid_t)strtoul(a[1], NULL, 10);
		if (feed_cmd(cmd, txt, len) == ECHS_CMD_HTTP) (void)cmd_http(&the_loop, fd, &cmd->http, cred);
		static char rp[1 << 18]; ssize_t m = pread(fd, rp, sizeof(rp) - 1, 0);
		syscall(SYS_close, fd);
		rp[m > 0 ? m : 0] = 0;
		/* status code, then the UIDs / sched lines of the body, sorted */
		char *body = strstr(rp, "\r\n\r\n");
		out("%.3s", m > 9 ? rp + 9 : "???");
		if (body) {
			char *ls[1024]; int nl = 0;
			for (char *l = strtok(body + 4, "\n"); l && nl < 1024; l = strtok(NULL, "\n")) {
				if (!strncmp(l, "UID:", 4)) ls[nl++] = l + 4;
				else if (strchr(l, '\t')) { *strchr(l, '\t') = 0; ls[nl++] = l; }
			}
			for (int i = 0; i < nl; i++) for (int j = i + 1; j < nl; j++) if (strcmp(ls[i], ls[j]) > 0) { char *t = ls[i]; ls[i] = ls[j]; ls[j] = t; }
			for (int i = 0; i < nl; i++) out("%s%s", i ? "+" : ":", ls[i]);
		}
	} else if (!strcmp(a[0], "C")) {
		fs_armed = 1; fs_trace[0] = 0;
		cptim_cb(&the_loop, &ctx->cptim, 0);
		fs_armed = 0;
		out("c");
		cut_uid = -1; flt_uid = -1;
	} else if (!strcmp(a[0], "N") && n >= 2) {
		/* N k[,free,...] : k clients connect (make_conn), then the listed ones (by order of connecting, 0-based) hang
		 * up (free_conn) and as many connect again; answer: per connection the slot it got, `-' for none,
		 * `!' appended when that slot was in use at the time */
		static struct echs_conn_s *got[256];
		static char used[MAX_CONNS];
		int k = atoi(a[1]), ng = 0;
		memset(used, 0, sizeof(used));
		for (int i = 0; i < k && ng < 256; i++) {
			struct echs_conn_s *c = make_conn();
			got[ng++] = c;
			if (c == NULL) { out("%s-", i ? "," : ""); continue; }
			out("%s%d%s", i ? "," : "", (int)(c - conns), used[c - conns] ? "!" : "");
			used[c - conns] = 1;
		}
		int nfree = 0;
		for (int j = 2; j < n; j++) {
			int x = atoi(a[j]);
			if (x >= 0 && x < ng && got[x] != NULL && used[got[x] - conns]) {
				used[got[x] - conns] = 0; free_conn(got[x]); got[x] = NULL; nfree++;
			}
		}
		for (int i = 0; i < nfree && ng < 256; i++) {
			struct echs_conn_s *c = make_conn();
			got[ng++] = c;
			if (c == NULL) { out(",-"); continue; }
			out(",%d%s", (int)(c - conns), used[c - conns] ? "!" : "");
			used[c - conns] = 1;
		}
		/* hang up all */
		for (int i = 0; i < ng; i++) if (got[i] != NULL && used[got[i] - conns]) { used[got[i] - conns] = 0; free_conn(got[i]); }
	} else if (!strcmp(a[0], "Ctrace")) {
		/* checkpoint and report the shape of the interposed calls (not compared with the model) */
		fs_armed = 1; fs_trace[0] = 0;
		cptim_cb(&the_loop, &ctx->cptim, 0);
		fs_armed = 0;
		out("c:%s", fs_trace);
	} else if (!strcmp(a[0], "K") && n >= 3) {
		cut_uid = atol(a[1]); cut_kind = a[2][0]; out("k");
	} else if (!strcmp(a[0], "F") && n >= 4) {
		flt_uid = atol(a[1]); flt_kind = a[2][0]; flt_errno = atoi(a[3]); out("f");
	} else if (!strcmp(a[0], "P") && n >= 2) {
		hx_spawn_fail = atoi(a[1]); out("p");
	} else if (!strcmp(a[0], "L")) {
		list_spool();
	} else if (!strcmp(a[0], "R")) {
		fs_armed = 1;
		chkpnt();          /* what free_echsd() does first */
		fs_armed = 0;
		printf("[r]"); fflush(stdout);
		HX_GCOV_DUMP(), syscall(SYS_exit_group, 78);
	} else {
		out("bad-op");
	}
}

int main(int argc, char **argv)
{
	static char line[1 << 22];
	setvbuf(stdout, NULL, _IOLBF, 0);
	(void)argc; (void)argv;
	while (fgets(line, sizeof(line), stdin)) {
		line[strcspn(line, "\r\n")] = 0;
		if (strncmp(line, "d.hist ", 7)) { puts("bad-op"); continue; }
		/* split the ops */
		static char *ops[65536]; int nops = 0;
		char *rest = line + 7;
		uid_t me = (uid_t)strtoul(rest, &rest, 10);
		for (char *p = strstr(rest, " ; "); p; ) {
			char *q = strstr(p + 3, " ; ");
			if (q) *q = 0;
			ops[nops++] = p + 3;
			p = q;
		}
		char dir[] = "/tmp/hxspoolXXXXXX";
		char *base = getenv("TMPDIR");
		char dirbuf[4096];
		snprintf(dirbuf, sizeof(dirbuf), "%s/hxspoolXXXXXX", base ? base : "/tmp");
		(void)dir;
		if (!mkdtemp(dirbuf)) { puts("bad-spool"); continue; }
		spool = dirbuf;
		int next = 0;
		int guard = 0;
		while (next < nops && guard++ < 64) {
			/* a restarted daemon starts at the time of the last clock op */
			start_now = 0;
			for (int i = 0; i < next; i++) if (!strncmp(ops[i], "T ", 2) || !strncmp(ops[i], "TX ", 3)) start_now = strtod(strchr(ops[i], ' ') + 1, NULL);
			int pfd[2]; if (pipe(pfd) < 0) break;
			fflush(stdout);
			pid_t c = fork();
			if (c == 0) {
				/* the daemon process: answers go to the pipe, one group per op */
				syscall(SYS_close, pfd[0]);
				dup2(pfd[1], 1);
				setvbuf(stdout, NULL, _IONBF, 0);
				alarm(60);
				start_daemon(me);
				for (int i = next; i < nops; i++) {
					char tmp[8]; snprintf(tmp, sizeof(tmp), "%.1s", ops[i]);
					do_op(ops[i]);
					if (tmp[0] != 'R') { printf("[%s]", obuf); }
				}
				fflush(stdout);
				HX_GCOV_DUMP(), syscall(SYS_exit_group, 0);
			}
			syscall(SYS_close, pfd[1]);
			static char got[1 << 21]; ssize_t m = 0, k;
			while ((k = read(pfd[0], got + m, sizeof(got) - 1 - m)) > 0) m += k;
			syscall(SYS_close, pfd[0]);
			got[m] = 0;
			int st = 0; waitpid(c, &st, 0);
			fputs(got, stdout);
			int done = 0;
			for (char *p = got; (p = strchr(p, ']')); p++) done++;
			next += done;
			if (WIFEXITED(st) && WEXITSTATUS(st) == 0) break;
			if (WIFEXITED(st) && WEXITSTATUS(st) == 78) continue;              /* clean restart: [r] already counted */
			if (WIFEXITED(st) && WEXITSTATUS(st) == 77) { fputs("[CRASH]", stdout); next++; continue; }
			if (WIFSIGNALED(st) && WTERMSIG(st) == SIGALRM) { fputs("[TIMEOUT]", stdout); next++; continue; }
			fprintf(stdout, "[DIED:%d]", WIFSIGNALED(st) ? WTERMSIG(st) : WEXITSTATUS(st)); next++;
		}
		putchar('\n');
		/* remove the spool */
		char cmd[4200]; snprintf(cmd, sizeof(cmd), "rm -rf '%s'", dirbuf);
		if (system(cmd)) {}
	}
	return 0;
}
