/-
  C17 lemmas, part 15: SHIFT=N (calendar days): `shiftDays` on one candidate.
-/
import Echse.Lemmas.RuleExt5
import Echse.Lemmas.RuleExt7
import Echse.Lemmas.RuleExt10
namespace Echse.RuleExt
open Echse.Rrule Echse.Spec.Cal Echse.Instant

theorem pack_eq (m d : Nat) (h1 : 1 ≤ m) (h2 : m ≤ 12) (hd : d ≤ 31) : packCand m d = (m - 1) * 32 + d := by
  unfold packCand u32; omega

theorem unpack_pack (m d : Nat) (h1 : 1 ≤ m) (h2 : m ≤ 12) (hd : d ≤ 31) : unpackCand (packCand m d) = ⟨m, d⟩ := by
  rw [pack_eq m d h1 h2 hd]; unfold unpackCand
  congr 1 <;> omega

/-- a packed candidate that is a real date of year y (C17's `ValidCand`) -/
def VCand (y c : Nat) : Prop :=
  1 ≤ (unpackCand c).m ∧ (unpackCand c).m ≤ 12 ∧ 1 ≤ (unpackCand c).d ∧ (unpackCand c).d ≤ monthLen y (unpackCand c).m

theorem year_len (y : Nat) : days y 1 1 + 365 ≤ days (y + 1) 1 1 ∧ days (y + 1) 1 1 ≤ days y 1 1 + 366 := by
  simp [days]; omega

theorem days_in_year (y m d : Nat) (h1 : 1 ≤ m) (h2 : m ≤ 12) (hd1 : 1 ≤ d) (hd : d ≤ monthLen y m) :
    days y 1 1 ≤ days y m d ∧ days y m d < days (y + 1) 1 1 := by
  constructor
  · have := days_month_mono y 1 m (by omega) h1 h2
    have := days_d y m d
    omega
  · exact days_lt_of_lex y m d (y + 1) 1 1 h1 h2 hd (by omega) (by omega) (by omega) (Or.inl (by omega))

theorem days_1902 : days 1902 1 1 = 694631 := by decide
theorem days_2099 : days 2099 1 1 = 766585 := by decide

theorem days_range (y m d : Nat) (hy1 : 1902 ≤ y) (hy2 : y ≤ 2098) (h1 : 1 ≤ m) (h2 : m ≤ 12) (hd1 : 1 ≤ d)
    (hd : d ≤ monthLen y m) : 694631 ≤ days y m d ∧ days y m d < 766585 := by
  have a := days_in_year y m d h1 h2 hd1 hd
  have b := days_year_mono 1902 y hy1
  have c := days_year_mono (y + 1) 2099 (by omega)
  rw [days_1902] at b; rw [days_2099] at c
  omega

theorem shiftDays_single (y c : Nat) (d : Int) :
    shiftDays { same := [c] } y d = Cand3.ass {} (dayF y d c).1 (dayF y d c).2 := rfl

theorem fuel_ok (d : Int) :
    -28 * ((reassessFuel d : Nat) : Int) < d ∧ d ≤ 28 * ((reassessFuel d : Nat) : Int) + 28 := by
  unfold reassessFuel; omega

/-- `dayF` lands on the real date `n` days away -/
theorem dayF_spec (y c : Nat) (n : Int) (hy : 1902 ≤ y ∧ y ≤ 2098) (hc : VCand y c) (hn : -366 ≤ n ∧ n ≤ 366) :
    ∃ ny nm nd : Nat, 1 ≤ nm ∧ nm ≤ 12 ∧ 1 ≤ nd ∧ nd ≤ monthLen ny nm ∧
      days ny nm nd = days y (unpackCand c).m (unpackCand c).d + n ∧
      dayF y n c = (bucket y ny, packCand nm nd) := by
  obtain ⟨h1, h2, h3, h4⟩ := hc
  have hr := days_range y _ _ hy.1 hy.2 h1 h2 h3 h4
  have hdd := days_d y (unpackCand c).m (unpackCand c).d
  have hok : OkYM y (unpackCand c).m := by unfold OkYM; omega
  obtain ⟨ny, nm, nd, e, v1, v2, v3, v4, v5, _, _⟩ :=
    reassess_spec (reassessFuel (((unpackCand c).d : Int) + n)) y (unpackCand c).m (((unpackCand c).d : Int) + n) hok
      (Or.inr (fuel_ok _)) (by rw [dLO_eq]; omega) (by rw [dHI_eq]; omega)
  refine ⟨ny, nm, nd, v1, v2, v3, v4, by omega, ?_⟩
  unfold dayF
  simp only [e, Int.toNat_natCast]

theorem shift_days_one (y c : Nat) (n : Int) (hy : 1902 ≤ y ∧ y ≤ 2098) (hc : VCand y c)
    (hn : n ≠ 0 ∧ -366 ≤ n ∧ n ≤ 366) :
    ∃ ny nm nd : Nat, 1 ≤ nm ∧ nm ≤ 12 ∧ 1 ≤ nd ∧ nd ≤ monthLen ny nm ∧
      days ny nm nd = days y (unpackCand c).m (unpackCand c).d + n ∧
      shift { same := [c] } y (n * 65536) = Cand3.ass {} (bucket y ny) (packCand nm nd) := by
  obtain ⟨ny, nm, nd, v1, v2, v3, v4, v5, e⟩ := dayF_spec y c n hy hc hn.2
  refine ⟨ny, nm, nd, v1, v2, v3, v4, v5, ?_⟩
  have s0 : n * 65536 ≠ 0 := by omega
  have s1 : shDvalue (n * 65536) = n := by unfold shDvalue; omega
  have s2 : shBdayP (n * 65536) = false := by
    have : shLow (n * 65536) = 0 := by unfold shLow; omega
    simp [shBdayP, this]
  unfold shift
  rw [if_neg s0, s1]
  simp only [s2, ne_eq, hn.1, not_false_eq_true, if_true, Bool.false_eq_true, if_false]
  rw [shiftDays_single, e]

/-- up to 365 days away is at most one year away -/
theorem shift_days_year (y m d : Nat) (n : Int) (h1 : 1 ≤ m) (h2 : m ≤ 12) (hd1 : 1 ≤ d) (hd : d ≤ monthLen y m)
    (hy : 1 ≤ y) (hn : -365 ≤ n ∧ n ≤ 365) (ny nm nd : Nat)
    (hv : 1 ≤ nm ∧ nm ≤ 12 ∧ 1 ≤ nd ∧ nd ≤ monthLen ny nm) (hdd : days ny nm nd = days y m d + n) :
    y - 1 ≤ ny ∧ ny ≤ y + 1 := by
  have a := days_in_year y m d h1 h2 hd1 hd
  have b := days_in_year ny nm nd hv.1 hv.2.1 hv.2.2.1 hv.2.2.2
  have l1 := year_len (y - 1)
  have l2 := year_len (y + 1)
  have e : y - 1 + 1 = y := by omega
  rw [e] at l1
  constructor
  · by_cases c : ny + 1 ≤ y - 1
    · have := days_year_mono (ny + 1) (y - 1) c; omega
    · omega
  · by_cases c : y + 1 + 1 ≤ ny
    · have := days_year_mono (y + 1 + 1) ny c; omega
    · omega
end Echse.RuleExt
