/-
  C01 for the weekly filler, part 6: a day the week loop looks at, in a month of BYMONTH and with a time of the
  enumeration, is an instance of the rule (`wly_inst`), and every instance is such a day and time (`wly_inst_conv`).
-/
import Echse.Lemmas.RrWlyRfc5
import Echse.Lemmas.RrRfcBase6
namespace Echse.Lemmas.RrRfc
open Echse.Rrule Echse.Instant Echse.Spec.RrOk Echse.Spec.Cal Echse.Spec.RuleExt Echse.Spec.Rfc
open Echse.Lemmas.RrOkBase

theorem week_shift (n a : Int) : wdayOf (n + 7 * a) = wdayOf n ∧ weekStart (n + 7 * a) = weekStart n + 7 * a := by
  unfold weekStart wdayOf; omega

theorem week_off (n a : Int) (o : Nat) (ho : o ≤ 6) :
    wdayOf (weekStart n + 7 * a + o) = o + 1 ∧ weekStart (weekStart n + 7 * a + o) = weekStart n + 7 * a := by
  unfold weekStart wdayOf; omega

theorem wk_cast (r : Rule) (p : Inst) (nti incs k : Nat) :
    ((k * wk (mkCtx r p nti incs) : Nat) : Int) = 7 * ((k : Int) * (r.inter : Int)) := by
  show ((k * (r.inter * 7) : Nat) : Int) = _
  rw [Int.natCast_mul, Int.natCast_mul]
  generalize (k : Int) = a
  generalize (r.inter : Int) = b
  rw [Int.mul_comm b, Int.mul_left_comm]
  rfl

/-- the day number of the day the week loop starts on, seen from the seed -/
theorem wly_base {r : Rule} {p : Inst} {y0 m0 d0 : Nat} (hy2 : p.y ≤ 2099) (hv0 : VD y0 m0 d0)
    (hl0 : LowOk y0 m0) (hback : Carry y0 m0 (d0 + wlyBack r p) p.y p.m p.d) :
    days y0 m0 1 + d0 - 1 = (if plainDays r = [] then dayOf p else weekStart (dayOf p)) := by
  have h := carry_days hback hv0.1 hv0.2.1 (by have := hv0.2.2.1; omega) hl0 hy2
  rw [wlyBack_eq] at h
  have hw := wdayOf_range (dayOf p)
  unfold weekStart
  unfold dayOf at *
  split
  · rename_i c; rw [if_pos c] at h; omega
  · rename_i c; rw [if_neg c] at h; omega

/-- the week and the weekday of a day the week loop looks at (up to January 2100) -/
theorem wly_days (r : Rule) (p : Inst) (nti : Nat) (hy2 : p.y ≤ 2099) {y0 m0 d0 : Nat} (hv0 : VD y0 m0 d0)
    (hl0 : LowOk y0 m0) (hback : Carry y0 m0 (d0 + wlyBack r p) p.y p.m p.d)
    (j o ty tm td : Nat) (ho : o ∈ offs 8 (wlyIncs r) 0)
    (hc : Carry y0 m0 (d0 + j * wk (mkCtx r p nti (wlyIncs r)) + o) ty tm td) (hty : ty * 12 + tm ≤ 25201) :
    weekStart (days ty tm td) = weekStart (dayOf p) + 7 * (j : Int) * (r.inter : Int) ∧
    (if plainDays r = [] then wdayOf (days ty tm td) = wdayOf (dayOf p) else (wdayOf (days ty tm td) : Int) ∈ plainDays r) ∧
    days ty tm td = days y0 m0 1 + d0 - 1 + 7 * ((j : Int) * (r.inter : Int)) + (o : Nat) := by
  have hd0 := hv0.2.2.1
  have hbase := wly_base hy2 hv0 hl0 hback
  have hD : 1 ≤ d0 + j * wk (mkCtx r p nti (wlyIncs r)) + o := by omega
  have hdays := carry_days' hc hv0.1 hv0.2.1 hD hl0 hty
  have hcast := wk_cast r p nti (wlyIncs r) j
  rw [Int.natCast_add, Int.natCast_add, hcast] at hdays
  have ho' := (wly_offs r o).1 ho
  refine ⟨?_, ?_, by omega⟩
  · rw [Int.mul_assoc]
    by_cases c : plainDays r = []
    · rw [if_pos c] at hbase ho'
      subst ho'
      have e : days ty tm td = dayOf p + 7 * ((j : Int) * (r.inter : Int)) := by omega
      rw [e]; exact (week_shift _ _).2
    · rw [if_neg c] at hbase ho'
      have e : days ty tm td = weekStart (dayOf p) + 7 * ((j : Int) * (r.inter : Int)) + (o : Nat) := by omega
      rw [e]; exact (week_off _ _ o ho'.1).2
  · by_cases c : plainDays r = []
    · rw [if_pos c] at hbase ho' ⊢
      subst ho'
      have e : days ty tm td = dayOf p + 7 * ((j : Int) * (r.inter : Int)) := by omega
      rw [e]; exact (week_shift _ _).1
    · rw [if_neg c] at hbase ho' ⊢
      have e : days ty tm td = weekStart (dayOf p) + 7 * ((j : Int) * (r.inter : Int)) + (o : Nat) := by omega
      rw [e, (week_off _ _ o ho'.1).1]; exact ho'.2

/-- what the week loop looks at is an instance of the rule -/
theorem wly_inst (r : Rule) (p : Inst) (nti : Nat) (hr : WfRule r) (hp : WfInst p)
    (hy2 : p.y ≤ 2099) {y0 m0 d0 : Nat} (hv0 : VD y0 m0 d0) (hl0 : LowOk y0 m0)
    (hback : Carry y0 m0 (d0 + wlyBack r p) p.y p.m p.d)
    (j o ty tm td : Nat) (ho : o ∈ offs 8 (wlyIncs r) 0)
    (hc : Carry y0 m0 (d0 + j * wk (mkCtx r p nti (wlyIncs r)) + o) ty tm td) (hty : ty * 12 + tm ≤ 25201)
    (hbit : bit (monMask r.mon) tm = true) (t : Tix) (ht : t ∈ (makeEnum p r).timesIx) :
    WeeklyInst r p ⟨ty, tm, td, t.2.1, t.2.2.1, t.2.2.2, p.ms⟩ := by
  have hd0 := hv0.2.2.1
  have hD : 1 ≤ d0 + j * wk (mkCtx r p nti (wlyIncs r)) + o := by omega
  obtain ⟨hv, -, -, -⟩ := hc.props hv0.1 hv0.2.1 hD
  have hnd := ndom_eq' hv.1 hv.2.1 (lowOk_carry hc hv0.1 hv0.2.1 hD hl0) hty
  obtain ⟨m1, m2, m3⟩ := mem_timesIx ht
  obtain ⟨hk, hte⟩ := exp_of_enum (x := ⟨ty, tm, td, t.2.1, t.2.2.1, t.2.2.2, p.ms⟩) hr hp m1 m2 m3
  have hmon := (monMask_bit r.mon hr.mon.2 tm hv.1 hv.2.1).1 hbit
  obtain ⟨w1, w2, -⟩ := wly_days r p nti hy2 hv0 hl0 hback j o ty tm td ho hc hty
  exact ⟨⟨hv.1, hv.2.1, hv.2.2.1, by rw [← hnd]; exact hv.2.2.2, rfl, hk⟩, ⟨j, w1⟩, w2, hmon, hte⟩

theorem week_split (n : Int) : n = weekStart n + ((wdayOf n - 1 : Nat) : Int) := by
  unfold weekStart wdayOf; omega

/-- every instance is a day the week loop looks at, in a month of BYMONTH, with a time of the enumeration -/
theorem wly_inst_conv (r : Rule) (p : Inst) (nti : Nat) (hr : WfRule r) (hp : WfInst p)
    (hy2 : p.y ≤ 2099) {y0 m0 d0 : Nat} (hv0 : VD y0 m0 d0) (hl0 : LowOk y0 m0) (hy0 : y0 ≤ 2099)
    (hback : Carry y0 m0 (d0 + wlyBack r p) p.y p.m p.d) (x : Inst) (hx : WeeklyInst r p x)
    (hxy : x.y * 12 + x.m ≤ 25201) :
    ∃ k o, o ∈ offs 8 (wlyIncs r) 0 ∧ Carry y0 m0 (d0 + k * wk (mkCtx r p nti (wlyIncs r)) + o) x.y x.m x.d ∧
      bit (monMask r.mon) x.m = true ∧
      weekStart (dayOf x) = weekStart (dayOf p) + 7 * (k : Int) * (r.inter : Int) ∧ ∃ ix, (ix, x.H, x.M, x.S) ∈ (makeEnum p r).timesIx := by
  obtain ⟨⟨s1, s2, s3, s4, s5, s6⟩, ⟨k, hk⟩, hwd, hmon, hte⟩ := hx
  have hd0 := hv0.2.2.1
  have hd31 := hv0.d31
  have hm12 := hv0.2.1
  have hbase := wly_base hy2 hv0 hl0 hback
  have hxv : VDs x.y x.m x.d := ⟨s1, s2, s3, s4⟩
  have hlt := days_lt_2100_2 hxv hxy
  rw [days_2100_2] at hlt
  have hk0 := hk
  have hge : 693960 ≤ days y0 m0 1 := by
    unfold LowOk at hl0
    rcases hl0 with a | ⟨a, b⟩
    · have := days_ge_1901 (show 1901 ≤ y0 by omega) hv0.1 hv0.2.1 (Nat.le_refl 1); omega
    · subst a
      have := days_month_mono 1900 3 m0 (by omega) b hv0.2.1
      rw [days_1900_3'] at this; exact this
  rw [Int.mul_assoc] at hk
  -- the offset into the week
  have hoff : ∃ o, o ∈ offs 8 (wlyIncs r) 0 ∧
      dayOf x = days y0 m0 1 + d0 - 1 + 7 * ((k : Int) * (r.inter : Int)) + (o : Nat) := by
    have hsx := week_split (dayOf x)
    have hsp := week_split (dayOf p)
    have hwx := wdayOf_range (dayOf x)
    by_cases c : plainDays r = []
    · rw [if_pos c] at hbase hwd
      refine ⟨0, (wly_offs r 0).2 (by rw [if_pos c]), ?_⟩
      rw [hwd] at hsx
      omega
    · rw [if_neg c] at hbase hwd
      refine ⟨wdayOf (dayOf x) - 1, (wly_offs r _).2 (by
        rw [if_neg c]
        refine ⟨by omega, ?_⟩
        have e : wdayOf (dayOf x) - 1 + 1 = wdayOf (dayOf x) := by omega
        rw [e]; exact hwd), ?_⟩
      omega
  obtain ⟨o, ho, hday⟩ := hoff
  have hcast := wk_cast r p nti (wlyIncs r) k
  unfold dayOf at hday
  have hD : 1 ≤ d0 + k * wk (mkCtx r p nti (wlyIncs r)) + o := by omega
  obtain ⟨y2, m2, d2, -, hc⟩ := carryMon_spec (d0 + k * wk (mkCtx r p nti (wlyIncs r)) + o + 1) y0 m0
    (d0 + k * wk (mkCtx r p nti (wlyIncs r)) + o) hv0.1 hv0.2.1 (by omega) (by unfold pot; omega)
  obtain ⟨e1, e2, e3⟩ := carry_of_days' hc x.y x.m x.d hxv hxy hv0.1 hv0.2.1 hD hl0
    (by rw [hday, Int.natCast_add, Int.natCast_add, hcast]; omega)
  subst e1 e2 e3
  refine ⟨k, o, ho, hc, (monMask_bit r.mon hr.mon.2 _ s1 s2).2 hmon, hk0, ?_⟩
  obtain ⟨a, b, c⟩ := enum_of_exp hp s6 hte
  obtain ⟨iH, aH⟩ := mem_getElem? a
  obtain ⟨iM, aM⟩ := mem_getElem? b
  obtain ⟨iS, aS⟩ := mem_getElem? c
  exact ⟨(iH, iM, iS), (mem_timesIx_iff _ _ _ _ _ _ _).2 ⟨aH, aM, aS⟩⟩

end Echse.Lemmas.RrRfc
