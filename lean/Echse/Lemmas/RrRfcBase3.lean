/-
  Shared base of the C01 proofs for the daily and the weekly filler, part 3: the BYMONTHDAY masks, and the time
  enumeration `make_enum` read as the specification's `TimeExp`.
-/
import Echse.Lemmas.RrRfcBase2
namespace Echse.Lemmas.RrRfc
open Echse.Rrule Echse.Instant Echse.Spec.RrOk Echse.Spec.Cal Echse.Spec.RuleExt Echse.Spec.Rfc
open Echse.Lemmas.RrOkBase

/-! ### BYMONTHDAY -/

def domF (pn : Nat × Nat) (t : Int) : Nat × Nat :=
  if t > 0 then (pn.1 ||| ((1 <<< t.toNat) % u32), pn.2)
  else if t < 0 then (pn.1, pn.2 ||| ((1 <<< (-(t + 1)).toNat) % u32))
  else pn

theorem domMasks_eq (dom : List Int) :
    domMasks dom = (if (dom.foldl domF (0, 0)).1 = 0 ∧ (dom.foldl domF (0, 0)).2 = 0 then (u32 - 1, u32 - 1)
      else dom.foldl domF (0, 0)) := rfl

theorem domFold_bit (l : List Int) (hl : ∀ t ∈ l, -31 ≤ t ∧ t ≤ 31) (P N k : Nat) :
    bit (l.foldl domF (P, N)).1 k = (bit P k || decide (1 ≤ k ∧ (k : Int) ∈ l)) ∧
    bit (l.foldl domF (P, N)).2 k = (bit N k || decide (-(k : Int) - 1 ∈ l)) := by
  induction l generalizing P N with
  | nil => simp
  | cons t ts ih =>
    have hl' : ∀ t ∈ ts, -31 ≤ t ∧ t ≤ 31 := fun t ht => hl t (List.mem_cons_of_mem _ ht)
    have ht := hl t List.mem_cons_self
    rw [List.foldl_cons]
    by_cases c1 : t > 0
    · have st : domF (P, N) t = (P ||| ((1 <<< t.toNat) % u32), N) := by simp only [domF, if_pos c1]
      rw [st]
      obtain ⟨i1, i2⟩ := ih hl' (P ||| ((1 <<< t.toNat) % u32)) N
      rw [i1, i2, shl_mod_u32 _ (by omega), bit_or, bit_shl]
      have e2 : ¬ (-(k : Int) - 1 = t) := by omega
      by_cases e : t.toNat = k
      · subst e
        have e' : ((t.toNat : Nat) : Int) = t := by omega
        have e3 : ¬ (-t - 1 = t) := by omega
        have hk : 1 ≤ t.toNat := by omega
        simp [e', hk, e3]
      · have : ¬ (k : Int) = t := by omega
        simp [e, this, e2]
    · by_cases c2 : t < 0
      · have st : domF (P, N) t = (P, N ||| ((1 <<< (-(t + 1)).toNat) % u32)) := by
          simp only [domF, if_neg c1, if_pos c2]
        rw [st]
        obtain ⟨i1, i2⟩ := ih hl' P (N ||| ((1 <<< (-(t + 1)).toNat) % u32))
        rw [i1, i2, shl_mod_u32 _ (by omega), bit_or, bit_shl]
        have e2 : ¬ ((k : Int) = t) := by omega
        by_cases e : (-(t + 1)).toNat = k
        · have : -(k : Int) - 1 = t := by omega
          have e3 : ¬ ((k : Int) = -(k : Int) - 1) := by omega
          simp [← this, e3]
        · have : ¬ (-(k : Int) - 1 = t) := by omega
          simp [e, this, e2]
      · have st : domF (P, N) t = (P, N) := by simp only [domF, if_neg c1, if_neg c2]
        rw [st]
        obtain ⟨i1, i2⟩ := ih hl' P N
        rw [i1, i2]
        have e1 : ¬ ((k : Int) = t) ∨ ¬ 1 ≤ k := by omega
        have e2 : ¬ (-(k : Int) - 1 = t) := by omega
        rcases e1 with e1 | e1 <;> simp [e1, e2]

theorem bit_allOnes : ∀ k < 32, bit (u32 - 1) k = true := by decide

/-- the two day-of-month masks are BYMONTHDAY as a limit on the day `d` of a month of `maxd` days -/
theorem domMasks_pass (dom : List Int) (hd : ∀ t ∈ dom, t ≠ 0 ∧ -31 ≤ t ∧ t ≤ 31) (d maxd : Nat) (h1 : 1 ≤ d)
    (h2 : d ≤ maxd) (h3 : maxd ≤ 31) :
    (bit (domMasks dom).1 d = true ∨ bit (domMasks dom).2 (maxd - d) = true) ↔
      (dom = [] ∨ ∃ n ∈ dom, (0 < n ∧ n = (d : Int)) ∨ (n < 0 ∧ (maxd : Int) + 1 + n = d)) := by
  have hl : ∀ t ∈ dom, -31 ≤ t ∧ t ≤ 31 := fun t ht => (hd t ht).2
  rw [domMasks_eq]
  cases dom with
  | nil =>
    simp only [List.foldl_nil, and_self, if_true, true_or, iff_true]
    exact Or.inl (bit_allOnes d (by omega))
  | cons t ts =>
    have hne : ¬ ((List.foldl domF (0, 0) (t :: ts)).1 = 0 ∧ (List.foldl domF (0, 0) (t :: ts)).2 = 0) := by
      intro ⟨z1, z2⟩
      have ht := hd t List.mem_cons_self
      by_cases c : 0 < t
      · have := (domFold_bit (t :: ts) hl 0 0 t.toNat).1
        rw [z1, bit_zero] at this
        have e : ((t.toNat : Nat) : Int) = t := by omega
        have e1 : 1 ≤ t.toNat := by omega
        simp [e, e1] at this
      · have hq : ∃ q : Nat, -(q : Int) - 1 = t := ⟨(-(t + 1)).toNat, by omega⟩
        obtain ⟨q, e⟩ := hq
        have := (domFold_bit (t :: ts) hl 0 0 q).2
        rw [z2, bit_zero, e] at this
        simp at this
    rw [if_neg hne]
    obtain ⟨i1, -⟩ := domFold_bit (t :: ts) hl 0 0 d
    obtain ⟨-, i2⟩ := domFold_bit (t :: ts) hl 0 0 (maxd - d)
    rw [i1, i2, bit_zero, bit_zero]
    simp only [Bool.false_or, decide_eq_true_eq, reduceCtorEq, false_or]
    constructor
    · rintro (⟨_, h⟩ | h)
      · exact ⟨d, h, Or.inl ⟨by omega, rfl⟩⟩
      · exact ⟨_, h, Or.inr ⟨by omega, by omega⟩⟩
    · rintro ⟨n, hn, ⟨a, b⟩ | ⟨a, b⟩⟩
      · left; rw [← b]; exact ⟨by omega, hn⟩
      · right
        have : -((maxd - d : Nat) : Int) - 1 = n := by omega
        rw [this]; exact hn

/-! ### the time enumeration -/

theorem mem_timesIx_iff (e : Enum) (iH iM iS h mi s : Nat) :
    ((iH, iM, iS), (h, mi, s)) ∈ e.timesIx ↔ e.H[iH]? = some h ∧ e.M[iM]? = some mi ∧ e.S[iS]? = some s := by
  unfold Enum.timesIx
  simp only [List.mem_flatMap, List.mem_map, Prod.exists, List.mem_zipIdx_iff_getElem?, Prod.mk.injEq]
  constructor
  · rintro ⟨a, b, hab, c, d, hcd, e1, f, hef, ⟨rfl, rfl, rfl⟩, rfl, rfl, rfl⟩
    exact ⟨hab, hcd, hef⟩
  · rintro ⟨h1, h2, h3⟩
    exact ⟨h, iH, h1, mi, iM, h2, s, iS, h3, ⟨rfl, rfl, rfl⟩, rfl, rfl, rfl⟩

/-- the time-of-day part of `SameKind` -/
def KindOk (p x : Inst) : Prop :=
  (p.H = allDay ∧ x.H = allDay ∧ x.M = p.M ∧ x.S = p.S) ∨ (p.H ≠ allDay ∧ x.H < 24 ∧ x.M < 60 ∧ x.S < 60)

theorem sel_mem_nil (a : Nat) : a % 256 ∈ sel [] a := by
  rw [sel_nil]; exact List.mem_singleton.2 rfl

theorem sel_mem_of {l : List Nat} {b : Nat} (a : Nat) (h : b ∈ l) : b % 256 ∈ sel l a := by
  unfold sel
  cases l with
  | nil => cases h
  | cons c cs =>
    simp only [List.isEmpty_cons, Bool.false_eq_true, if_false]
    exact List.mem_map.2 ⟨b, h, rfl⟩

/-- what `TimeExp` allows is in the enumeration (next to a DATE seed both sides ignore BYHOUR / BYMINUTE / BYSECOND) -/
theorem enum_of_exp {r : Rule} {p x : Inst} (hp : WfInst p) (hk : KindOk p x)
    (ht : TimeExp r p x) :
    x.H ∈ (makeEnum p r).H ∧ x.M ∈ (makeEnum p r).M ∧ x.S ∈ (makeEnum p r).S := by
  have hpt := hp.time
  unfold allDay at hpt
  rcases hk with ⟨k1, k2, k3, k4⟩ | ⟨k1, k2, k3, k4⟩
  · rw [makeEnum_allDay p r k1, k2, k3, k4]
    have a1 : p.H % 256 = allDay := by rw [k1]; rfl
    have a2 : p.M % 256 = p.M := by omega
    have a3 : p.S % 256 = p.S := by omega
    rw [a1, a2, a3]
    exact ⟨List.mem_singleton.2 rfl, List.mem_singleton.2 rfl, List.mem_singleton.2 rfl⟩
  · rw [makeEnum_timed p r k1]
    show x.H ∈ sel r.H p.H ∧ x.M ∈ sel r.M p.M ∧ x.S ∈ sel r.S p.S
    rcases ht with ht | ⟨t1, t2, t3⟩
    · exact absurd ht k1
    · unfold allDay at k1
      have key : ∀ (l : List Nat) (a v : Nat), a < 256 → v < 256 → (if l = [] then v = a else v ∈ l) → v ∈ sel l a := by
        intro l a v ha hv h
        by_cases c : l = []
        · rw [if_pos c] at h; rw [c, h]
          have := sel_mem_nil a
          rw [Nat.mod_eq_of_lt ha] at this; exact this
        · rw [if_neg c] at h
          have := sel_mem_of a h
          rw [Nat.mod_eq_of_lt hv] at this; exact this
      exact ⟨key r.H p.H x.H (by omega) (by omega) t1, key r.M p.M x.M (by omega) (by omega) t2,
        key r.S p.S x.S (by omega) (by omega) t3⟩

/-- what is in the enumeration is a time `TimeExp` allows -/
theorem exp_of_enum {r : Rule} {p x : Inst} (hr : WfRule r) (hp : WfInst p)
    (h1 : x.H ∈ (makeEnum p r).H) (h2 : x.M ∈ (makeEnum p r).M) (h3 : x.S ∈ (makeEnum p r).S) :
    KindOk p x ∧ TimeExp r p x := by
  have hpt := hp.time
  by_cases c : p.H = allDay
  · rw [makeEnum_allDay p r c] at h1 h2 h3
    simp only [List.mem_singleton] at h1 h2 h3
    unfold allDay at hpt c
    refine ⟨Or.inl ⟨c, ?_, by omega, by omega⟩, Or.inl c⟩
    unfold allDay; omega
  · rw [makeEnum_timed p r c] at h1 h2 h3
    have h1 : x.H ∈ sel r.H p.H := h1
    have h2 : x.M ∈ sel r.M p.M := h2
    have h3 : x.S ∈ sel r.S p.S := h3
    unfold allDay at hpt c
    have key : ∀ (l : List Nat) (a v b : Nat), a < b → b ≤ 256 → (∀ t ∈ l, t < b) → v ∈ sel l a →
        v < b ∧ (if l = [] then v = a else v ∈ l) := by
      intro l a v b ha hb hl hv
      rcases mem_sel hv with ⟨e, h⟩ | ⟨t, ht, h⟩
      · rw [if_pos e]; omega
      · have := hl t ht
        have hne : l ≠ [] := by intro e; rw [e] at ht; cases ht
        rw [if_neg hne]
        have : v = t := by omega
        rw [this]; exact ⟨by omega, ht⟩
    obtain ⟨a1, a2⟩ := key r.H p.H x.H 24 (by omega) (by omega) hr.hours.2 h1
    obtain ⟨b1, b2⟩ := key r.M p.M x.M 60 (by omega) (by omega) hr.mins.2 h2
    obtain ⟨c1, c2⟩ := key r.S p.S x.S 60 (by omega) (by omega) hr.secs.2 h3
    exact ⟨Or.inr ⟨c, a1, b1, c1⟩, Or.inr ⟨a2, b2, c2⟩⟩

end Echse.Lemmas.RrRfc
