/-
  C10 lemmas, part 3: one round of `_ical_pull` restated over `eolR` (`pull_succ`).
-/
import Echse.Lemmas.Ical2
namespace Echse.Ical

/-- the stash ends where a newline was (`eolp`): the bytes to come may turn that newline into a fold -/
def Marked (p : Parser) : Prop := p.eolp = true
instance (p : Parser) : Decidable (Marked p) := by unfold Marked; infer_instance

/-- the mark taken off -/
def unmark (p : Parser) : Parser := { p with eolp := false }

def Fold (c : Byte) : Prop := c = SP ∨ c = TAB
instance (c : Byte) : Decidable (Fold c) := by unfold Fold; infer_instance

def bpOf (p : Parser) : Byte := p.buf.getD p.bix 0

/-- what happens with the result of `_ical_proc` -/
def afterProc (k : Parser → Parser × PullRes) (q : Parser × PRes) : Parser × PullRes :=
  match q.2 with
  | .none => k q.1
  | .eop => (q.1, .eop)
  | .ve => (q.1, .ve q.1.comp.cur)

/-- stash what is left of the buffer (no complete line in it); `s`: the buffer ends behind a newline -/
def stashRest (p : Parser) (s : Bool) : Parser × PullRes :=
  let b := p.buf.drop p.bix
  let room := stashSize - p.stash.length
  if b.length ≥ room then ({ p with stash := [] }, .need)
  else match (esccpy room b).1 with
    | some o => ({ p with stash := p.stash ++ o, sentinel := 0, eolp := p.eolp || s, bix := p.buf.length }, .need)
    | none => ({ p with sentinel := 0, eolp := p.eolp || s, bix := p.buf.length }, .need)

/-- the parser after copying the complete line of raw length `e` to the stash -/
def takeLine (p : Parser) (e : Nat) : Parser :=
  match (esccpy (stashSize - p.stash.length) ((p.buf.drop p.bix).take e)).1 with
  | some o => { p with bix := p.bix + e, stash := p.stash ++ o, sentinel := 0 }
  | none => { p with bix := p.bix + e, sentinel := 0 }

/-- the `chop_more` part of one round -/
def chop (k : Parser → Parser × PullRes) (p : Parser) : Parser × PullRes :=
  match eolR (p.buf.drop p.bix) with
  | none => stashRest p false
  | some e =>
    if e ≥ (p.buf.drop p.bix).length then stashRest p true
    else
      let q := takeLine p e
      if q.stash.length ≠ 0 then afterProc k (doProc q) else k q

/-- the parser entering `chop_more` -/
def preChop (p : Parser) : Parser :=
  if Marked p then { p with eolp := false, bix := p.bix + 1 } else p

theorem chop_eq (f : Nat) (p : Parser) :
    (have b := List.drop p.bix p.buf;
      have bz := b.length;
      have six := p.stash.length;
      have eol := findEol b (bz + 1) 0;
      have noEol :=
        match eol with
        | none => true
        | some e => decide (e ≥ bz);
      if (noEol && decide (bz ≥ stashSize - six)) = true then
        (({ p with stash := [] } : Parser), PullRes.need)
      else
        if noEol = true then
          match esccpy (stashSize - six) b with
          | (r, sent) =>
            have stash' :=
              match r with
              | some o => p.stash ++ o
              | none => p.stash;
            have sent :=
              match r with
              | some _ => 0
              | none => sent;
            (({ p with stash := stash', sentinel := sent, eolp := p.eolp || eol.isSome,
                       bix := p.buf.length } : Parser),
              PullRes.need)
        else
          have llen := eol.getD 0;
          match esccpy (stashSize - six) (List.take llen b) with
          | (r, sent) =>
            have p : Parser := { p with bix := p.bix + llen };
            have p : Parser :=
              match r with
              | some o => { p with stash := p.stash ++ o, sentinel := 0 }
              | none => { p with sentinel := sent };
            if p.stash.length ≠ 0 then
              match doProc p with
              | (p, r) =>
                match r with
                | PRes.none => pull f p
                | PRes.eop => (p, PullRes.eop)
                | PRes.ve => (p, PullRes.ve p.comp.cur)
            else pull f p) = chop (pull f) p := by
  dsimp only
  rw [findEol_pull]
  unfold chop
  cases he : eolR (List.drop p.bix p.buf) with
  | none =>
    simp only [Bool.true_and, decide_eq_true_eq, Option.isSome_none]
    unfold stashRest
    dsimp only
    split
    · rfl
    · have hs := esccpy_snd (stashSize - p.stash.length) (List.drop p.bix p.buf)
      rcases hx : esccpy (stashSize - p.stash.length) (List.drop p.bix p.buf) with ⟨r, sent⟩
      rw [hx] at hs; simp only at hs; subst hs
      cases r <;> rfl
  | some e =>
    simp only [Option.isSome_some, Option.getD_some]
    by_cases hge : e ≥ (List.drop p.bix p.buf).length
    · simp only [hge, decide_true, Bool.true_and, decide_eq_true_eq, if_true]
      unfold stashRest
      dsimp only
      split
      · rfl
      · have hs := esccpy_snd (stashSize - p.stash.length) (List.drop p.bix p.buf)
        rcases hx : esccpy (stashSize - p.stash.length) (List.drop p.bix p.buf) with ⟨r, sent⟩
        rw [hx] at hs; simp only at hs; subst hs
        cases r <;> rfl
    · simp only [hge, decide_false, Bool.false_and, Bool.false_eq_true, if_false]
      unfold takeLine
      have hs := esccpy_snd (stashSize - p.stash.length) (List.take e (List.drop p.bix p.buf))
      rcases hx : esccpy (stashSize - p.stash.length) (List.take e (List.drop p.bix p.buf)) with ⟨r, sent⟩
      rw [hx] at hs; simp only at hs; subst hs
      cases r with
      | none =>
        dsimp only
        split
        · unfold afterProc
          rcases hd : doProc _ with ⟨q, r⟩
          cases r <;> rfl
        · rfl
      | some o =>
        dsimp only
        split
        · unfold afterProc
          rcases hd : doProc _ with ⟨q, r⟩
          cases r <;> rfl
        · rfl

theorem pull_zero (p : Parser) : pull 0 p = (p, .need) := by rw [pull]

/-- one round of `_ical_pull` -/
theorem pull_succ (f : Nat) (p : Parser) :
    pull (f+1) p =
      if Marked p ∧ ¬ Fold (bpOf p) then
        (if p.stash.length ≠ 0 then afterProc (pull f) (doProc (unmark p)) else pull f (unmark p))
      else chop (pull f) (preChop p) := by
  rw [pull.eq_2]
  have hfold : (p.buf.getD p.bix 0 ≠ SP ∧ p.buf.getD p.bix 0 ≠ TAB) ↔ ¬ Fold (bpOf p) := by
    unfold Fold bpOf
    constructor
    · intro h1 h2; cases h2 with
      | inl h => exact h1.1 h
      | inr h => exact h1.2 h
    · intro h; exact ⟨fun h' => h (Or.inl h'), fun h' => h (Or.inr h')⟩
  simp only [hfold]
  by_cases hc : Marked p ∧ ¬ Fold (bpOf p)
  · have hc' : p.eolp = true ∧ ¬ Fold (bpOf p) := hc
    rw [if_pos hc, if_pos hc', if_pos hc'.1]
    show (if p.stash.length ≠ 0 then _ else _) = _
    by_cases hs : p.stash.length ≠ 0
    · rw [if_pos hs, if_pos hs]
      unfold afterProc unmark
      rcases hd : doProc _ with ⟨q, r⟩
      cases r <;> rfl
    · rw [if_neg hs, if_neg hs]; rfl
  · have hc' : ¬ (p.eolp = true ∧ ¬ Fold (bpOf p)) := hc
    rw [if_neg hc, if_neg hc']
    by_cases hm : Marked p
    · have hm' : p.eolp = true := hm
      have e : preChop p = { p with eolp := false, bix := p.bix + 1 } := by
        unfold preChop; rw [if_pos hm]
      rw [e]
      simp -zeta only [hm', if_true]
      exact chop_eq f { p with eolp := false, bix := p.bix + 1 }
    · have hm' : ¬ (p.eolp = true) := hm
      have e : preChop p = p := by
        unfold preChop; rw [if_neg hm]
      rw [e]
      simp -zeta only [hm']
      exact chop_eq f p

/-! ### one round as a function: `(q, none)` = go round again with `q`, `(q, some r)` = return -/

def procRes (q : Parser × PRes) : Parser × Option PullRes :=
  match q.2 with
  | .none => (q.1, none)
  | .eop => (q.1, some .eop)
  | .ve => (q.1, some (.ve q.1.comp.cur))

def chopR (p : Parser) : Parser × Option PullRes :=
  match eolR (p.buf.drop p.bix) with
  | none => ((stashRest p false).1, some .need)
  | some e =>
    if e ≥ (p.buf.drop p.bix).length then ((stashRest p true).1, some .need)
    else
      let q := takeLine p e
      if q.stash.length ≠ 0 then procRes (doProc q) else (q, none)

def round (p : Parser) : Parser × Option PullRes :=
  if Marked p ∧ ¬ Fold (bpOf p) then
    (if p.stash.length ≠ 0 then procRes (doProc (unmark p)) else (unmark p, none))
  else chopR (preChop p)

def cont (k : Parser → Parser × PullRes) (x : Parser × Option PullRes) : Parser × PullRes :=
  match x.2 with
  | none => k x.1
  | some r => (x.1, r)

theorem afterProc_eq (k : Parser → Parser × PullRes) (q : Parser × PRes) :
    afterProc k q = cont k (procRes q) := by
  unfold afterProc cont procRes
  rcases q with ⟨q, r⟩
  cases r <;> rfl

theorem stashRest_snd (p : Parser) (s : Bool) : (stashRest p s).2 = .need := by
  unfold stashRest
  dsimp only
  split
  · rfl
  · split <;> rfl

theorem chop_eq_cont (k : Parser → Parser × PullRes) (p : Parser) : chop k p = cont k (chopR p) := by
  unfold chop chopR
  split
  · unfold cont; dsimp only; rw [← stashRest_snd p false]
  · split
    · unfold cont; dsimp only; rw [← stashRest_snd p true]
    · dsimp only
      split
      · exact afterProc_eq _ _
      · rfl

theorem pull_round (f : Nat) (p : Parser) : pull (f+1) p = cont (pull f) (round p) := by
  rw [pull_succ]
  unfold round
  split
  · split
    · exact afterProc_eq _ _
    · rfl
  · exact chop_eq_cont _ _

end Echse.Ical
