"""C18 — date-time and duration text forms round-trip.

Two passes on the implementation (harness hx_cal): print, then parse what was printed; plus
independently spelled texts.  Oracle: the identity / the value the spelling denotes (Python).
Correspondence: Echse.Model.Strpf on the same op lines.
"""
import os

from . import common
from .common import hex16, unhex16
from . import p_C08

MSD = 86400000


def hx(s):
    return s.encode("latin-1").hex()


def iso_spellings(rng, t):
    """texts that denote instant t (second resolution or date-only) in iCalendar / ISO form"""
    y, m, d, H, M, S, ms = t
    out = []
    for dsep in ("-", ""):
        date = "%04d%s%02d%s%02d" % (y, dsep, m, dsep, d)
        if H == 255:
            out.append(date)
            continue
        for tsep in (":", ""):
            for T in ("T", " "):
                for z in ("", "Z"):
                    out.append("%s%s%02d%s%02d%s%02d%s" % (date, T, H, tsep, M, tsep, S, z))
    return out


def dur_spelling(rng):
    """(text, value in ms) for a random legal RFC 5545 / ISO 8601 duration spelling"""
    parts = []
    val = 0
    big = rng.random() < 0.3
    if rng.random() < 0.35:
        w = rng.randint(0, 300 if big else 9)
        parts.append("%dW" % w); val += w * 7 * MSD
    if rng.random() < 0.6:
        d = rng.randint(0, 4000 if big else 40)
        parts.append("%dD" % d); val += d * MSD
    tparts = []
    if rng.random() < 0.6:
        h = rng.randint(0, 5000 if big else 30)
        tparts.append("%dH" % h); val += h * 3600000
    if rng.random() < 0.6:
        mi = rng.randint(0, 100000 if big else 90)
        tparts.append("%dM" % mi); val += mi * 60000
    if rng.random() < 0.6:
        s = rng.randint(0, 4000000 if big else 90)
        if rng.random() < 0.3:
            # a decimal fraction of the seconds: milliseconds
            f = rng.choice(["5", "05", "005", "123", "999", "50", "500", "1", "%03d" % rng.randint(0, 999)])
            tparts.append("%d.%sS" % (s, f)); val += s * 1000 + int((f + "00")[:3])
        else:
            tparts.append("%dS" % s); val += s * 1000
    if not parts and not tparts:
        parts.append("0D")
    txt = "P" + "".join(parts) + ("T" + "".join(tparts) if tparts else "")
    if rng.random() < 0.1:
        txt = txt.replace("P", "P0", 1) if txt[1].isdigit() else txt    # leading zero
    sign = rng.choice(["", "", "+", "-"])
    if sign == "-":
        val = -val
    return sign + txt, val


MALFORMED = ["", "P", "PT", "T1H", "P1", "1D", "PD", "P1X", "PT1X", "P1DT1D", "P1H", "PT1H2H", "P-1D", "P1D2D",
             "--P1D", "+-P1D", "P1W1W", "PT5M3H", "P 1D", "P1.5D", "P99999999999D"]
MALFORMED_DT = ["", "2020", "2020-13-01", "2020-00-10", "20200230", "2020-02-30T25:00:00", "2020-02-10T24:00:00",
                "2020-02-10T23:60:00", "2020-02-10T23:59:60", "2020-02-10T23:59:61", "202002", "2020-2-10",
                "2020-02-1", "x0200210", "2020-02-10T", "2020-02-10T1", "2020-02-10T10", "2020-02-10T10:3",
                "2020-02-10T10:30", "2020-02-10T10:30:5", "2020-02-10T10:30:59.", "2020-02-10T10:30:59.1",
                "2020-02-10T10:30:59.12", "2020-02-10T10:30:59.1234", "2020-02-10 10:30:59", "2020-02-40", "20200210T103059ZZ"]


def build(ctx):
    return p_C08.build(ctx)


def run(ctx):
    exe = build(ctx)
    rng = ctx.rng
    thorough = ctx.tier == "thorough"
    n = 60000 if thorough else 6000
    # ---------------- pass 1: print
    insts = [p_C08.rand_inst(rng) for _ in range(n)]
    durs = []
    for _ in range(n):
        r = rng.random()
        if r < 0.3:
            v = rng.randint(0, 200000) * 1000
        elif r < 0.6:
            v = rng.randint(0, 5 * 366) * MSD + rng.choice([0, 1000, 3600000, 86399000, rng.randint(0, 86399) * 1000])
        elif r < 0.8:
            v = rng.randint(0, 2 ** 33) * 1000                 # far beyond 2^32 ms
        else:
            v = rng.choice([0, 1000, 59000, 60000, 3599000, 3600000, MSD - 1000, MSD, MSD + 1000, 2 ** 32 // 1000 * 1000,
                            (2 ** 32 // 1000 + 1) * 1000, 49 * MSD, 50 * MSD, 9 * MSD, 10 * MSD, 99 * MSD, 100 * MSD,
                            999 * MSD, 1000 * MSD])
        if rng.random() < 0.4:
            v += rng.choice([1, 5, 50, 500, 999, rng.randint(1, 999)])       # milliseconds
        if rng.random() < 0.15:
            v = -v
        durs.append(v)
    ops1 = []
    for t in insts:
        ops1.append("s.dtstrf %s" % hex16(*t))
        ops1.append("s.dtstrfical %s" % hex16(*t))
    for v in durs:
        ops1.append("s.idiffstrf %d" % v)
    out1, st1, err1 = ctx.impl(exe, ops1)
    # ---------------- pass 2: parse the printed texts, the spellings, the malformed
    ops2, chk2 = [], []
    k = 0
    for t in insts:
        iso = out1[k] if k < len(out1) else ""
        ical = out1[k + 1] if k + 1 < len(out1) else ""
        k += 2
        want_ical = t if t[3] == 255 else t[:6] + (1023,)
        for txt, want in ((iso, t), (ical, want_ical)):
            ln = len(txt) // 2
            for L in (0, ln):
                ops2.append(("s.dtstrp %s %d" % (txt, L)) if txt else "s.dtstrp %d" % L)
                chk2.append(("dt", want, ln, "printed form of %s" % (t,)))
    for v in durs:
        txt = out1[k] if k < len(out1) else ""
        k += 1
        ops2.append("s.idiffstrp %s" % txt)
        chk2.append(("dur", v, "printed form of %d ms" % v))
    for t in insts[: n // 3]:
        if t[6] not in (1023, 0) and t[3] != 255:
            t = t[:6] + (1023,)
        if t[3] != 255 and t[6] == 0:
            t = t[:6] + (1023,)
        for txt in iso_spellings(rng, t):
            ops2.append("s.dtstrp %s 0" % hx(txt))
            chk2.append(("dt", t, len(txt), "spelling %r" % txt))
            ops2.append("s.dtstrp %s %d" % (hx(txt), len(txt)))
            chk2.append(("dt", t, len(txt), "spelling %r" % txt))
    for _ in range(n):
        txt, val = dur_spelling(rng)
        ops2.append("s.idiffstrp %s" % hx(txt))
        chk2.append(("dur", val, "spelling %r" % txt))
    for txt in MALFORMED:
        ops2.append(("s.idiffstrp %s" % hx(txt)).strip()); chk2.append(None)
    for txt in MALFORMED_DT:
        ops2.append(("s.dtstrp %s 0" % hx(txt)) if txt else "s.dtstrp 0"); chk2.append(None)
        if txt:
            ops2.append("s.dtstrp %s %d" % (hx(txt), len(txt))); chk2.append(None)
    for l in common.load_corpus("C18"):
        ops2.append(l); chk2.append(None)
    out2, st2, err2 = ctx.impl(exe, ops2)
    # ---------------- oracle
    fails = []
    for i, chk in enumerate(chk2):
        if chk is None:
            continue
        ans = out2[i] if i < len(out2) else "<no answer: %s>" % st2
        try:
            if chk[0] == "dt":
                _, want, ln, what = chk
                if ans == "nul":
                    ok, why = False, "%s does not parse" % what
                else:
                    h, on = ans.split()
                    got = unhex16(h)
                    ok = got == want and int(on) == ln
                    why = "%s parses to %s (consumed %s of %d), expected %s" % (what, got, on, ln, want)
            else:
                _, want, what = chk
                got = int(ans.split()[0])
                ok = got == want
                why = "%s parses to %d ms, expected %d" % (what, got, want)
        except Exception as e:
            ok, why = False, "unusable answer %r (%s)" % (ans, e)
        if not ok:
            fails.append((i, why))
    ops = ops1 + ops2
    impl = out1 + out2
    model = ctx.model(ops)
    corr = common.diff_lines(ops, impl, model)
    ctx.cov.update({
        "evaluations": len(ops),
        "distinct_nontrivial": len(set(ops2)),
        "traces_validated_against_impl": len(ops) - len(corr),
        "rule": "pass 1 prints random normal instants 1901-2099 (ms / second / all-day; month ends, leap days) in ISO "
                "and iCalendar form and durations (0..200000 s; up to 5 years in days+seconds; up to 2^33 s; boundary "
                "values around 2^32 ms and digit-count changes; 15% negative); pass 2 parses every printed text "
                "(len 0 and exact len) and checks identity, parses 8-16 spellings per instant (separators, T/space, Z) "
                "and random W/D/H/M/S duration spellings with optional sign against their value, and feeds malformed "
                "texts (correspondence only). non-trivial = every pass-2 parse; distinct = distinct op lines",
        "samples": [ops2[i] + "  =>  " + (out2[i] if i < len(out2) else "?") for i in
                    sorted(rng.sample(range(len(ops2)), min(8, len(ops2))))],
        "harness_status": [st1, st2],
        "impl_vs_spec_failures": len(fails),
        "impl_vs_model_differences": len(corr),
        "exhaustive": False,
    })
    ctx.assumptions += ["the iCalendar form of an instant has second resolution: milliseconds are not expected to survive it"]
    if (st1 != "ok" or st2 != "ok") and not fails and not corr:
        ctx.violation("correspondence", "harness ended with %s/%s: %s" % (st1, st2, (err1 + err2)[-400:]),
                      {"stderr": err1 + err2}, found_input=False)
    if fails:
        i, why = fails[0]
        ctx.violation("property", why, {"op": ops2[i], "impl": out2[i] if i < len(out2) else None,
                                        "model": model[len(ops1) + i], "failures_total": len(fails),
                                        "more": [w for _, w in fails[1:6]]})
    elif corr:
        i, op, a, b = corr[0]
        ctx.violation("correspondence",
                      "implementation and model differ on %d ops, no round trip fails; first: %s impl=%s model=%s"
                      % (len(corr), op, a, b),
                      {"correspondence": "Echse.Model.Strpf vs dt-strpf.c", "op": op, "impl": a, "model": b,
                       "n": len(corr)}, found_input=False)


def replay(ctx, rep):
    exe = build(ctx)
    op = rep["data"].get("op")
    if not op:
        print("replay names no input: %s" % rep.get("what"))
        return 1
    out, st, _ = ctx.impl(exe, [op])
    print("op: %s\nimpl: %s\nmodel: %s\nwas: %s" % (op, out[0] if out else st, ctx.model([op])[0], rep.get("what")))
    return 1 if (out and out[0] == rep["data"].get("impl")) else 0
