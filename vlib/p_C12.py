"""C12 — X-ECHS-MAX-SIMUL bounds concurrent runs of a task, and only of that task."""
from . import p_echsd

RULE = ("random histories on echsd.c (virtual-time loop) with limits N in {unset, 0, 1, 2, 3}: tasks whose runs overlap (child "
        "exits arrive late or never), several tasks per daemon, replacements changing the limit while children run; the "
        "reference counts running executions per task: a due occurrence is a real run iff fewer than N are running, "
        "otherwise a --no-run spawn; counts of other tasks never matter.")


def run(ctx):
    p_echsd.run_checks(ctx, "C12", {"steps": 30, "limits": [None, 0, 1, 1, 2, 2, 3], "p_cancel": 0.1, "chk": False,
                                    "durs": [0]}, 500, 6000, RULE)


replay = p_echsd.replay
