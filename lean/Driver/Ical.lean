import Echse.Model.Ical
import Driver.Util
open Echse.Ical
namespace Driver

def unhexBytes? (h : String) : Option (List Nat) :=
  let cs := h.toList
  if cs.length % 2 ≠ 0 then none else
  let rec go : List Char → Option (List Nat)
    | a :: b :: rest => do
      let x ← hexDigit? a
      let y ← hexDigit? b
      let r ← go rest
      pure ((x * 16 + y) :: r)
    | [] => some []
    | _ => none
  go cs

def hexBytes (bs : List Nat) : String :=
  String.ofList (bs.flatMap fun c => [hexChar (c / 16 % 16), hexChar (c % 16)])

def uidOf (ls : List (List Nat)) : String :=
  match ls.find? fun l => l.take 4 == [85, 73, 68, 58] with        -- "UID:"
  | some l => bytesToString (l.drop 4)
  | none => "~"

/-- `p.lines HEX | chunk sizes…` : verbs+UIDs of the instructions, then the log of unfolded lines -/
def runIcal (args : List String) : String :=
  match args with
  | h :: rest =>
    match unhexBytes? h with
    | none => "bad-op"
    | some bytes =>
      let sizes := (rest.dropWhile (· ≠ "|")).drop 1 |>.filterMap String.toNat?
      let rec cut (fuel : Nat) (b : List Nat) (sz : List Nat) : List (List Nat) :=
        match fuel with
        | 0 => []
        | fuel+1 =>
          if b.isEmpty then [] else
          match sz with
          | [] => [b]
          | c :: cs =>
            let c := if c = 0 ∨ c > b.length then b.length else c
            b.take c :: cut fuel (b.drop c) cs
      -- a trailing `e`: an empty push behind the data, the daemon's way of saying end of input (`recv()` = 0)
      let chunks := cut (bytes.length + 1) bytes sizes ++ (if rest.getLast? == some "e" then [[]] else [])
      let (ins, log) := feed chunks
      let is := if ins.isEmpty then "none" else joinWith " " (ins.map fun i => s!"{i.verb}:{uidOf i.lines}")
      s!"{is} # " ++ String.join (log.map fun l => hexBytes l ++ ",")
  | _ => "bad-op"

end Driver
