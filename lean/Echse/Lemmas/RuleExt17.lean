/-
  C17 lemmas, part 17: SHIFT=NB and SHIFT=n,NB on one candidate.
-/
import Echse.Lemmas.RuleExt16
namespace Echse.RuleExt
open Echse.Rrule Echse.Spec.Cal Echse.Spec.RuleExt Echse.Instant

theorem shiftBdays_single (y k x : Nat) (sh : Int) (hk : k < 3) :
    shiftBdays (Cand3.ass {} k x) y sh = Cand3.ass {} (bdF y sh k x).1 (bdF y sh k x).2 := by
  have : k = 0 ∨ k = 1 ∨ k = 2 := by omega
  rcases this with rfl|rfl|rfl <;> rfl

theorem same_eq_ass (c : Nat) : ({ same := [c] } : Cand3) = Cand3.ass {} 0 c := rfl

theorem bucket_lt (y : Nat) (ny : Int) : bucket y ny < 3 := by unfold bucket; split <;> (try split) <;> omega

theorem cyOf_bucket (y ny : Nat) (h : y - 1 ≤ ny ∧ ny ≤ y + 1) (hy : 1 ≤ y) : cyOf y (bucket y ny) = ny := by
  unfold cyOf bucket
  split <;> (try split) <;> (try simp) <;> omega

/-- day-number limit: up to here `reassess` never meets echse's false February 29th, 2100 -/
theorem lim_of_year (cy m d : Nat) (count : Nat) (back keep : Bool) (hc : count ≤ 366) (hcy : cy ≤ 2097)
    (h1 : 1 ≤ m) (h2 : m ≤ 12) (hd1 : 1 ≤ d) (hd : d ≤ monthLen cy m) :
    shiftB (days cy m d) count back keep ≤ dHI := by
  have a := days_in_year cy m d h1 h2 hd1 hd
  have b := days_year_mono (cy + 1) 2098 (by omega)
  have c : days 2098 1 1 = 766220 := by decide
  have e := shiftB_bound (days cy m d) count back keep hc
  rw [dHI_eq]; omega

theorem shift_bdays_one (y c count : Nat) (back keep : Bool) (hy : 1902 ≤ y ∧ y ≤ 2098) (hc : VCand y c)
    (hcount : count ≤ 366)
    (hlim : y ≤ 2097 ∨ shiftB (days y (unpackCand c).m (unpackCand c).d) count back keep ≤ days 2100 2 28) :
    ∃ ny nm nd : Nat, 1 ≤ nm ∧ nm ≤ 12 ∧ 1 ≤ nd ∧ nd ≤ monthLen ny nm ∧
      days ny nm nd = shiftB (days y (unpackCand c).m (unpackCand c).d) count back keep ∧
      shift { same := [c] } y (mkSh 0 count back keep) = Cand3.ass {} (bucket y ny) (packCand nm nd) := by
  obtain ⟨f0, f1, f2, f3, f4, f5⟩ := mkSh_fields 0 count back keep hcount
  have hl : shiftB (days y (unpackCand c).m (unpackCand c).d) count back keep ≤ dHI := by
    rcases hlim with h | h
    · exact lim_of_year y _ _ count back keep hcount h hc.1 hc.2.1 hc.2.2.1 hc.2.2.2
    · exact h
  have hcy : cyOf y 0 = y := rfl
  obtain ⟨ny, nm, nd, v1, v2, v3, v4, v5, e⟩ :=
    bdF_spec y 0 c (mkSh 0 count back keep) count back keep hcount f3 f4 f5 (by rw [hcy]; exact hy) (by omega)
      (by rw [hcy]; exact hc) (by rw [hcy]; exact hl)
  rw [hcy] at v5
  refine ⟨ny, nm, nd, v1, v2, v3, v4, v5, ?_⟩
  unfold shift
  rw [if_neg f0, f1, f2]
  simp only [ne_eq, not_true_eq_false, if_false, if_true]
  rw [same_eq_ass, shiftBdays_single y 0 c _ (by omega), e]

theorem shift_both_one (y c count : Nat) (n : Int) (back keep : Bool) (hy : 1903 ≤ y ∧ y ≤ 2097) (hc : VCand y c)
    (hn : n ≠ 0 ∧ -365 ≤ n ∧ n ≤ 365) (hcount : count ≤ 366)
    (hlim : y ≤ 2096 ∨
      shiftB (days y (unpackCand c).m (unpackCand c).d + n) count back keep ≤ days 2100 2 28) :
    ∃ ny nm nd : Nat, 1 ≤ nm ∧ nm ≤ 12 ∧ 1 ≤ nd ∧ nd ≤ monthLen ny nm ∧
      days ny nm nd = shiftB (days y (unpackCand c).m (unpackCand c).d + n) count back keep ∧
      shift { same := [c] } y (mkSh n count back keep) = Cand3.ass {} (bucket y ny) (packCand nm nd) := by
  obtain ⟨f0, f1, f2, f3, f4, f5⟩ := mkSh_fields n count back keep hcount
  obtain ⟨ny1, nm1, nd1, w1, w2, w3, w4, w5, e1⟩ := dayF_spec y c n (by omega) hc (by omega)
  have hyr := shift_days_year y _ _ n hc.1 hc.2.1 hc.2.2.1 hc.2.2.2 (by omega) hn.2 ny1 nm1 nd1 ⟨w1, w2, w3, w4⟩ w5
  have hcy := cyOf_bucket y ny1 hyr (by omega)
  have hml := monthLen_pos ny1 nm1 w1 w2
  have hup := unpack_pack nm1 nd1 w1 w2 (by omega)
  have hl : shiftB (days ny1 nm1 nd1) count back keep ≤ dHI := by
    rcases hlim with h | h
    · exact lim_of_year ny1 nm1 nd1 count back keep hcount (by omega) w1 w2 w3 w4
    · rw [w5]; exact h
  obtain ⟨ny, nm, nd, v1, v2, v3, v4, v5, e⟩ :=
    bdF_spec y (bucket y ny1) (packCand nm1 nd1) (mkSh n count back keep) count back keep hcount f3 f4 f5
      (by rw [hcy]; omega) (by omega)
      (by rw [hcy]; unfold VCand; rw [hup]; exact ⟨w1, w2, w3, w4⟩)
      (by rw [hcy, hup]; exact hl)
  rw [hcy, hup] at v5
  refine ⟨ny, nm, nd, v1, v2, v3, v4, by rw [v5, w5], ?_⟩
  unfold shift
  rw [if_neg f0, f1, f2]
  simp only [ne_eq, hn.1, not_false_eq_true, if_true]
  rw [shiftDays_single, e1, shiftBdays_single y _ _ _ (bucket_lt y ny1), e]
end Echse.RuleExt
