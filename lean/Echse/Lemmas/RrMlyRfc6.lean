/-
  C01 for the monthly filler, part 6: where the loop starts (`mlyStart_spec`), the month loop as the abstract loop
  (`mlyLoop_aLoop`), and that what a month's period offers is an instance of the rule (`mE_inst`).
-/
import Echse.Lemmas.RrMlyRfc5
namespace Echse.Lemmas.RrMlyRfc
open Echse.Rrule Echse.Instant Echse.Spec.RrOk Echse.Lemmas.RrCandOk Echse.Spec.Rfc Echse.Lemmas.RrRfc
open Echse.Lemmas.RrCandRfc Echse.Lemmas.RrMlyOk Echse.Spec.Cal Echse.Spec.RuleExt Echse.Lemmas.RrOkBase

theorem mlyTmp_zero (r : Rule) (hsh : r.shift = 0) : mlyTmp r = 0 := by
  unfold mlyTmp; rw [hsh]; decide

theorem mlyBack_noshift (r : Rule) (p : Inst) (hsh : r.shift = 0) : mlyBack r p = (p.y, (p.m : Int)) := by
  unfold mlyBack
  rw [mlyTmp_zero r hsh]
  simp

theorem moy_mod (a k n : Nat) : moy ((a + k * n : Nat) : Int) = moy ((a + (k % 12) * n : Nat) : Int) := by
  have e : k * n = 12 * ((k / 12) * n) + (k % 12) * n := by
    rw [← Nat.mul_assoc, ← Nat.add_mul, Nat.div_add_mod]
  rw [e]
  generalize (k / 12) * n = A
  generalize (k % 12) * n = B
  unfold moy; omega

/-- where the loop starts: on the grid, in BYMONTH, with no wanted instant before; or there is no wanted instant -/
theorem mlyStart_spec (r : Rule) (p : Inst) (hr : WfRule r) (hp : WfInst p) (hsh : r.shift = 0) :
    match mlyStart r p with
    | some q => mReach r p q ∧ ∀ x, mTarget r p x → ¬ mGi r p x < mG r p q
    | none => ∀ x, ¬ mTarget r p x := by
  have hi := hr.inter
  have hpm := hp.month
  unfold mlyStart
  rw [mlyBack_noshift r p hsh]
  dsimp only
  by_cases c : (!r.mon.isEmpty) = true
  · rw [if_pos c]
    have hne : r.mon ≠ [] := by intro e; rw [e] at c; exact absurd c (by decide)
    have hspec := mlyTrack_spec r.mon r.inter hr.inter 13 0 p.y p.m rfl (by omega) (by omega)
    have hmoy : ∀ x, mTarget r p x → ∀ k, pIdx x = pIdx p + k * r.inter → moy ((pIdx p + k * r.inter : Nat) : Int) ∈ r.mon := by
      intro x hx k hk
      obtain ⟨_, _, _, hm1, hm2, hmon⟩ := mTarget_facts r p x (by omega) hx
      rw [← hk]
      have : moy ((pIdx x : Nat) : Int) = x.m := by unfold moy pIdx; omega
      rw [this]
      rcases hmon with h | h
      · exact absurd h hne
      · exact h
    have hcast : ∀ i' : Nat, (12 * (p.y : Int) + (p.m : Int) + (i' : Int) * r.inter) = ((pIdx p + i' * r.inter : Nat) : Int) := by
      intro i'
      unfold pIdx
      have : ((i' * r.inter : Nat) : Int) = (i' : Int) * r.inter := by simp
      omega
    cases hres : mlyTrack r.mon r.inter 13 0 p.y p.m with
    | some q =>
      rw [hres] at hspec
      obtain ⟨j, j0, j1, j2, j3, j4, j5⟩ := hspec
      dsimp only
      have hg : qIdx q = pIdx p + j * r.inter := by
        unfold qIdx pIdx
        have : ((j * r.inter : Nat) : Int) = (j : Int) * r.inter := by simp
        omega
      have hpos : 0 ≤ j * r.inter := Nat.zero_le _
      refine ⟨⟨j1, j2, by unfold qIdx pIdx at hg; omega, ⟨j, hg⟩, fun _ => Or.inr j3⟩, ?_⟩
      intro x hx hlt
      obtain ⟨k, hk, hgk, _⟩ := mTarget_facts r p x (by omega) hx
      rw [hgk, mG_of r p q j (by omega) hg] at hlt
      have := j5 k hlt
      rw [hcast] at this
      exact this (hmoy x hx k hk)
    | none =>
      rw [hres] at hspec
      obtain ⟨j, j1, j2⟩ := hspec
      dsimp only
      intro x hx
      obtain ⟨k, hk, hgk, hm1, hm2, _⟩ := mTarget_facts r p x (by omega) hx
      have hin := hmoy x hx k hk
      rcases j2 with j2 | j2
      · rw [moy_mod] at hin
        have := j1 (k % 12) (by omega)
        rw [hcast] at this
        exact this hin
      · by_cases ckj : k ≤ j
        · have := j1 k ckj
          rw [hcast] at this
          exact this hin
        · have h1 := (grid_lt (pIdx p) j k r.inter (by omega)).2 (by omega)
          rw [← hk] at h1
          rw [hcast] at j2
          have := hx.2.2.2
          unfold pIdx at h1 j2; omega
  · rw [if_neg c]
    dsimp only
    have he : r.mon = [] := by
      cases hm : r.mon with
      | nil => rfl
      | cons a l => rw [hm] at c; exact absurd rfl c
    have hg : qIdx (p.y, (p.m : Int)) = pIdx p + 0 * r.inter := by unfold qIdx pIdx; simp
    refine ⟨⟨by simp; omega, by simp; omega, Nat.le_refl _, ⟨0, hg⟩, fun _ => Or.inl he⟩, ?_⟩
    intro x _ hlt
    rw [mG_of r p _ 0 (by omega) hg] at hlt
    omega

theorem mkFillCtx_nopos (r : Rule) (p : Inst) (nti : Nat) (hsh : r.shift = 0) (hpos : r.pos = []) :
    (mkFillCtx r p nti).sh = 0 ∧ (mkFillCtx r p nti).tposp = false ∧ (mkFillCtx r p nti).pos = [] := by
  unfold mkFillCtx
  simp [hsh, hpos]

theorem clrPoss_nil (cand : List Nat) : clrPoss cand [] = cand := by
  unfold clrPoss; rfl

/-- without SHIFT and BYSETPOS the month loop is the abstract loop over the months' lists -/
theorem mlyLoop_aLoop (r : Rule) (p : Inst) (nti : Nat) (hsh : r.shift = 0) (hpos : r.pos = []) (fuel : Nat)
    (q : Nat × Int) :
    Sim (mlyLoop (mlyCtxOf r p nti) fuel q.1 q.2 mlyTries {})
      (aLoop (mkFillCtx r p nti) mlyTries (fun q : Nat × Int => q.1) (mE r p nti)
        (fun q => mlyNext r.mon r.inter 12 q.1 q.2) fuel q mlyTries {}) := by
  obtain ⟨k1, k2, k3⟩ := mkFillCtx_nopos r p nti hsh hpos
  have h := mlyLoop_sim (mlyCtxOf r p nti) (mE r p nti) (by
    intro y m a b hab
    rw [mlyCtxOf_k, finishPeriod_pstep _ y _ a k1 k2, k3, clrPoss_nil]
    exact foldl_pstep_sim _ _ ⟨hab.1, hab.2.1, rfl, hab.2.2.2⟩) fuel q.1 q.2 mlyTries {} {} (Sim.rfl' _)
  exact h

/-- what a month's period offers is an instance of the rule -/
theorem mE_inst (r : Rule) (p : Inst) (nti : Nat) (hr : WfRule r) (hp : WfInst p) (hsup : MlySup r)
    (hy : 1901 ≤ p.y) (q : Nat × Int) (hq : mReach r p q) (hq2 : q.1 ≤ 2099) (z : Inst) (hz : z ∈ mE r p nti q) :
    MonthlyInst r p z := by
  obtain ⟨h1, h2, h3, ⟨j, h4⟩, h5⟩ := hq
  obtain ⟨e1, e2, e3, e4, e5, e6, e7, e8, e9⟩ :=
    (mem_mE_iff r p nti hr hp hsup q.1 q.2 ⟨by omega, hq2⟩ ⟨h1, h2⟩ z).1 hz
  obtain ⟨t1, t2⟩ := exp_of_enum hr hp e7 e8 e9
  refine (mlyInst_iff r p z).2 ⟨⟨by omega, by omega, e3, e4, e6, t1⟩, ⟨j, ?_⟩, ?_, e5, t2⟩
  · rw [← h4]; unfold pIdx qIdx; rw [e1, e2]
  · unfold monthOk
    rw [e2]; exact h5 hq2

end Echse.Lemmas.RrMlyRfc
