/-
  C10 lemmas, part 2: `findEol` (the memchr loop of `_ical_pull`) equals a structurally recursive scan `eolR`.
-/
import Echse.Lemmas.Ical1
namespace Echse.Ical

/-- end of the folded line at the head of `b`: index just behind the first NL that is not followed
by SP/TAB (or that ends `b`); `none` if the last fold segment has no NL -/
def eolR : List Byte → Option Nat
  | [] => none
  | c :: r =>
    if c = NL then
      match r with
      | [] => some 1
      | d :: _ => if d = SP ∨ d = TAB then (eolR r).map (· + 1) else some 1
    else (eolR r).map (· + 1)

theorem eolR_nil : eolR [] = none := by simp [eolR]

theorem eolR_cons_ne (c : Byte) (r : List Byte) (h : c ≠ NL) :
    eolR (c :: r) = (eolR r).map (· + 1) := by
  simp [eolR, h]

theorem eolR_nl_nil : eolR [NL] = some 1 := by simp [eolR]

theorem eolR_nl_cons (d : Byte) (r : List Byte) :
    eolR (NL :: d :: r) = if d = SP ∨ d = TAB then (eolR (d :: r)).map (· + 1) else some 1 := by
  simp [eolR]

theorem eolR_append (x y : List Byte) (h : ∀ c ∈ x, c ≠ NL) :
    eolR (x ++ y) = (eolR y).map (· + x.length) := by
  induction x with
  | nil => simp
  | cons c x ih =>
    have hc : c ≠ NL := h c (by simp)
    have := ih (fun d hd => h d (by simp [hd]))
    rw [List.cons_append, eolR_cons_ne _ _ hc, this]
    cases eolR y <;> simp; omega

theorem getD_eq_headD_drop (l : List Byte) (n : Nat) (d : Byte) : l.getD n d = (l.drop n).headD d := by
  induction l generalizing n with
  | nil => simp
  | cons a l ih =>
    cases n with
    | zero => simp
    | succ n => simp

theorem dropWhile_head_nl (l r : List Byte) (d : Byte)
    (h : l.dropWhile (fun x => decide (x ≠ NL)) = d :: r) : d = NL := by
  induction l with
  | nil => simp at h
  | cons a l ih =>
    rw [List.dropWhile_cons] at h
    by_cases ha : a = NL
    · simp [ha] at h; exact h.1.symm
    · simp only [ne_eq, ha, not_false_eq_true, decide_true, if_true] at h; exact ih h

theorem takeWhile_ne_nl (l : List Byte) : ∀ c ∈ l.takeWhile (fun x => decide (x ≠ NL)), c ≠ NL := by
  induction l with
  | nil => simp
  | cons a l ih =>
    intro c hc
    rw [List.takeWhile_cons] at hc
    by_cases ha : a = NL
    · simp [ha] at hc
    · simp only [ne_eq, ha, not_false_eq_true, decide_true, if_true, List.mem_cons] at hc
      cases hc with
      | inl h => rw [h]; exact ha
      | inr h => exact ih c h

theorem findEol_eq (b : List Byte) : ∀ (fuel tmp : Nat), tmp ≤ b.length → b.length - tmp < fuel →
    findEol b fuel tmp = (eolR (b.drop tmp)).map (· + tmp)
  | 0, tmp, _, hf => by omega
  | fuel+1, tmp, ht, hf => by
    rw [findEol]
    have hsplit := List.takeWhile_append_dropWhile (p := fun x => decide (x ≠ NL)) (l := b.drop tmp)
    generalize htw : (b.drop tmp).takeWhile (fun x => decide (x ≠ NL)) = tw at hsplit
    generalize hdw : (b.drop tmp).dropWhile (fun x => decide (x ≠ NL)) = dw at hsplit
    have htwnl : ∀ c ∈ tw, c ≠ NL := by
      intro c hc; rw [← htw] at hc
      exact takeWhile_ne_nl _ c hc
    have hlen : (b.drop tmp).length = tw.length + dw.length := by rw [← hsplit]; simp
    cases dw with
    | nil =>
      have : tw.length = (b.drop tmp).length := by rw [hlen]; simp
      rw [if_pos this, ← hsplit, eolR_append _ _ htwnl, eolR_nil]; rfl
    | cons d0 r =>
      have hd0 : d0 = NL := dropWhile_head_nl _ _ _ hdw
      subst hd0
      have : ¬ tw.length = (b.drop tmp).length := by rw [hlen]; simp
      rw [if_neg this]
      have hdrop : b.drop (tmp + tw.length + 1) = r := by
        have : b.drop (tmp + tw.length + 1) = (b.drop tmp).drop (tw.length + 1) := by
          rw [List.drop_drop]; rfl
        rw [this, ← hsplit, List.drop_append]
        have e : tw.length + 1 - tw.length = 1 := by omega
        rw [e, List.drop_eq_nil_of_le (by omega)]
        simp
      have hbl : b.length = tmp + tw.length + 1 + r.length := by
        have : (b.drop tmp).length = b.length - tmp := by simp
        simp only [List.length_cons] at hlen; omega
      dsimp only
      rw [getD_eq_headD_drop, hdrop]
      rw [← hsplit, eolR_append _ _ htwnl]
      cases r with
      | nil =>
        have : ¬ (tmp + tw.length + 1 < b.length) := by simp at hbl; omega
        simp [this, eolR_nl_nil]; omega
      | cons d r' =>
        have hlt : tmp + tw.length + 1 < b.length := by simp at hbl; omega
        rw [eolR_nl_cons]
        by_cases hf : d = SP ∨ d = TAB
        · rw [if_pos ⟨hlt, by simpa using hf⟩, if_pos hf]
          rw [findEol_eq b fuel (tmp + tw.length + 1) (by omega) (by omega), hdrop]
          cases eolR (d :: r') <;> simp; omega
        · rw [if_neg (by simpa using fun _ => hf), if_neg hf]
          simp; omega

theorem eolR_bounds : ∀ (b : List Byte) (e : Nat), eolR b = some e → 1 ≤ e ∧ e ≤ b.length
  | [], e, h => by simp [eolR] at h
  | c :: r, e, h => by
    by_cases hc : c = NL
    · subst hc
      cases r with
      | nil => rw [eolR_nl_nil] at h; cases h; simp
      | cons d r' =>
        rw [eolR_nl_cons] at h
        split at h
        · cases h' : eolR (d :: r') with
          | none => simp [h'] at h
          | some e' =>
            have := eolR_bounds (d :: r') e' h'
            simp [h'] at h; subst h; simp at this ⊢; omega
        · cases h; simp
    · rw [eolR_cons_ne _ _ hc] at h
      cases h' : eolR r with
      | none => simp [h'] at h
      | some e' =>
        have := eolR_bounds r e' h'
        simp [h'] at h; subst h; simp; omega

/-- the call in `_ical_pull` -/
theorem findEol_pull (b : List Byte) : findEol b (b.length + 1) 0 = eolR b := by
  rw [findEol_eq b _ 0 (by omega) (by omega), List.drop_zero]
  cases eolR b <;> simp

end Echse.Ical
