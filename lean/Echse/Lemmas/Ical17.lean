/-
  C10 lemmas, part 17: the last pull (`echs_evical_last_pull`) in terms of the automaton's final state.
-/
import Echse.Lemmas.Ical16
namespace Echse.Ical

/-- the verb `echs_evical_last_pull` hands back: `L` for a task, `LU` for a cancel, `LR` for a reply -/
def lastVerb (v : String) : String := if v == "S" then "L" else "L" ++ v

/-- what `feed` makes of the last pull -/
def lastRes (x : Parser × PullRes) (ins : List Instr) : List Instr × List (List Byte) :=
  match x.2 with
  | .ve ls => (ins ++ [{ verb := lastVerb (verbOf x.1.comp.meth ls), lines := ls }], x.1.log)
  | _ => (ins, x.1.log)

/-- the same from the automaton: a pending last line is complete, whatever its length;
an event it completes is handed back unless its METHOD gives no verb (`echs_evical_pull` passes those over) -/
def finish (A : Abs) (ins : List Instr) : List Instr × List (List Byte) :=
  if A.sc.pend = true ∧ A.cur ≠ [] then
    (match (procLine A.comp A.cur).2 with
      | .ve =>
        if verbOf (procLine A.comp A.cur).1.meth (procLine A.comp A.cur).1.cur == "X" then ins
        else ins ++ [{ verb := lastVerb (verbOf (procLine A.comp A.cur).1.meth (procLine A.comp A.cur).1.cur),
                       lines := (procLine A.comp A.cur).1.cur }]
      | _ => ins,
     A.log ++ [A.cur.takeWhile (· ≠ 0)])
  else (ins, A.log)

theorem stashRest_log (p : Parser) (s : Bool) : (stashRest p s).1.log = p.log := copyRest_log p

theorem chopR_noline (p : Parser) (h : NoLine (rest p)) :
    (chopR p).2 = some .need ∧ (chopR p).1.log = p.log := by
  cases h with
  | inl h => rw [chopR_stash0 p h]; exact ⟨rfl, stashRest_log p false⟩
  | inr h =>
    obtain ⟨e, he, hge⟩ := h
    rw [chopR_stash1 p e he hge]; exact ⟨rfl, stashRest_log p true⟩

/-- nothing marked and no complete line in the buffer: `need more data`, nothing logged -/
theorem pullEv_noline (f : Nat) (p : Parser) (hf : mu p < f) (hm : ¬ Marked p) (h : NoLine (rest p)) :
    (pullEv f p).2.isNeed = true ∧ (pullEv f p).1.log = p.log := by
  have hr : round p = chopR p := by
    rw [round_chop p (fun hc => hm hc.1)]
    unfold preChop; rw [if_neg hm]
  have hc := chopR_noline p h
  rw [pullEv_round f p hf, hr, hc.1]
  exact ⟨rfl, hc.2⟩

theorem lastRes_need (x : Parser × PullRes) (ins : List Instr) (h : x.2.isNeed = true) :
    lastRes x ins = (ins, x.1.log) := by
  unfold lastRes
  cases hx : x.2 with
  | need => rfl
  | eop => rfl
  | ve ls => rw [hx] at h; cases h

theorem not_marked_of_eolp (p : Parser) (h : p.eolp = false) : ¬ Marked p := by
  unfold Marked; rw [h]; simp

theorem x_not_s (v : String) (h : (v == "X") = true) : (v == "S") = false := by
  have : v = "X" := by simpa using h
  subst this; decide

theorem post_noline (q : Parser) (A : Abs) (hpost : Post q A) : NoLine (rest q) := by
  rw [hpost.done]; exact noLine_nil

/-- behind a used-up buffer the pre-examination of the mark reads 0: no fold -/
theorem post_not_fold (q : Parser) (A : Abs) (hpost : Post q A) : ¬ Fold (bpOf q) := by
  rw [bpOf_eq, hpost.done]; decide

/-- the last pull -/
theorem last_spec (q : Parser) (A : Abs) (hpost : Post q A) (ins : List Instr) :
    lastRes (pullEv (q.buf.length + 2) q) ins = finish A ins := by
  have hnl := post_noline q A hpost
  have hnf := post_not_fold q A hpost
  by_cases hm : Marked q
  · have hpend : A.sc.pend = true := hpost.rel.mark.1 hm
    have hk := hpost.rel.skip
    have hst := hpost.rel.stash
    by_cases hs : q.stash.length ≠ 0
    · have hcur : A.cur ≠ [] := by
        rw [← hst]; intro hx; rw [hx] at hs; exact hs rfl
      have hround := round_marked q ⟨hm, hnf⟩ hk hs
      have hq1 : ¬ Marked (doProc (unmark q)).1 := not_marked_of_eolp _ rfl
      have hq2 : ¬ Marked (resetMeth (doProc (unmark q)).1) := not_marked_of_eolp _ rfl
      have hn1 := pullEv_noline (q.buf.length + 2) _ (mu_lt_fuel (doProc (unmark q)).1) hq1 hnl
      have hn2 := pullEv_noline (q.buf.length + 2) _
        (mu_lt_fuel (resetMeth (doProc (unmark q)).1)) hq2 hnl
      have hsnd : (doProc (unmark q)).2 = (procLine A.comp A.cur).2 := by
        rw [doProc_snd]; show (procLine q.comp q.stash).2 = _; rw [hpost.rel.comp, hst]
      have hcomp : (doProc (unmark q)).1.comp = (procLine A.comp A.cur).1 := by
        rw [doProc_comp]; show (procLine q.comp q.stash).1 = _; rw [hpost.rel.comp, hst]
      have hlog : (doProc (unmark q)).1.log = A.log ++ [A.cur.takeWhile (· ≠ 0)] := by
        rw [doProc_log]; show q.log ++ [q.stash.takeWhile (· ≠ 0)] = _
        rw [hpost.rel.log, hst]
      rw [pullEv_round _ q (mu_lt_fuel q), hround]
      unfold finish
      rw [if_pos ⟨hpend, hcur⟩]
      unfold procRes
      cases hr : (procLine A.comp A.cur).2 with
      | none =>
        rw [hr] at hsnd; simp only [hsnd]
        rw [lastRes_need _ _ hn1.1, hn1.2, hlog]
      | eop =>
        rw [hr] at hsnd; simp only [hsnd]
        rw [lastRes_need _ _ hn2.1, hn2.2]
        show (ins, (doProc (unmark q)).1.log) = _
        rw [hlog]
      | ve =>
        rw [hr] at hsnd; simp only [hsnd]
        split
        · rename_i hx
          rw [lastRes_need _ _ hn1.1, hn1.2, hlog]
          rw [hcomp] at hx
          rw [if_pos hx]
        · rename_i hx
          rw [hcomp] at hx
          rw [if_neg hx]
          unfold lastRes
          dsimp only
          rw [hcomp, hlog]
    · -- the input ends in an empty line: the mark comes off, nothing is processed
      have hcur : A.cur = [] := by
        rw [← hst]; exact List.eq_nil_of_length_eq_zero (by omega)
      have hround := round_marked_empty q ⟨hm, hnf⟩ hk hs
      have hq1 : ¬ Marked (unmark q) := not_marked_of_eolp _ rfl
      have hn := pullEv_noline (q.buf.length + 2) (unmark q) (mu_lt_fuel (unmark q)) hq1 hnl
      rw [pullEv_round _ q (mu_lt_fuel q), hround]
      dsimp only
      rw [lastRes_need _ _ hn.1, hn.2]
      unfold finish
      rw [if_neg (fun hx => hx.2 hcur)]
      show (ins, q.log) = _
      rw [hpost.rel.log]
  · have hn := pullEv_noline (q.buf.length + 2) q (mu_lt_fuel q) hm hnl
    rw [lastRes_need _ _ hn.1, hn.2]
    unfold finish
    rw [if_neg, hpost.rel.log]
    intro hx
    exact hm (hpost.rel.mark.2 hx.1)

end Echse.Ical
