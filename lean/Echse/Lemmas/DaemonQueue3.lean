/-
  Daemon model: what root (peer 0) is shown by `GET [/u/<uid>]/queue` and `GET [/u/<uid>]/sched`: without a uid in
  the URL its own queue / tasks, with one those of that user.  `queueView s u` is the answer built from the queue
  file of `u` after the conditional checkpoint.  Continues DaemonQueue2.lean.  Used by C11 (section 5).
-/
import Echse.Lemmas.DaemonQueue2
namespace Echse.Daemon

/-- the user root is shown: the one the URL names, root itself when it names none -/
def rootView (urlUid : Option Nat) : Nat :=
  if urlUid.getD notAUid = notAUid then 0 else urlUid.getD notAUid

theorem rootView_none : rootView none = 0 := rfl

theorem rootView_some {v : Nat} (hv : v ≠ notAUid) : rootView (some v) = v := by
  unfold rootView
  simp only [Option.getD_some]
  rw [if_neg hv]

/-- the answer of `GET /queue` built from the queue file of `u`: the checkpoint first if `u` has changes the spool
does not show, then 200 and the uids in `u`'s file, 404 when there is none -/
def queueView (s : St) (u : Nat) : St × Nat × List String :=
  match (queueSt s u).files.find? (·.1 == u) with
  | some f => (queueSt s u, 200, f.2.map (·.uid))
  | none => (queueSt s u, 404, [])

theorem httpQueue_passed_view {s : St} {p : Nat} (hk : Known s p) (hp : p ≠ 0) {urlUid : Option Nat}
    (hg : p &&& urlUid.getD notAUid = p) : httpQueue s p urlUid = queueView s p :=
  httpQueue_passed hk hp hg

/-- root passes the gate whatever the URL says, and is shown the queue of `rootView urlUid` -/
theorem httpQueue_root {s : St} (hk : Known s 0) (urlUid : Option Nat) :
    httpQueue s 0 urlUid = queueView s (rootView urlUid) := by
  unfold httpQueue queueView queueSt rootView
  simp only [complUid_known hk, if_neg hk.1, Nat.zero_and, ne_eq, not_true_eq_false, if_false]
  rfl

/-- the file shown lists only tasks the table holds for `u` -/
theorem queueView_own {s : St} (h : Inv s) (hf : Fresh s) (u : Nat) :
    ((queueView s u).2.1 = 200 ∨ (queueView s u).2.1 = 404) ∧
    ∀ uid ∈ (queueView s u).2.2, absMap s uid = some u := by
  unfold queueView
  obtain ⟨_, hA, _⟩ := queueSt_fresh hf u
  cases hfind : (queueSt s u).files.find? (·.1 == u) with
  | none => exact ⟨Or.inr rfl, fun _ hm => nomatch hm⟩
  | some f =>
    refine ⟨Or.inl rfl, ?_⟩
    intro uid hm
    simp only [List.mem_map] at hm
    obtain ⟨t, ht, rfl⟩ := hm
    have hfm := List.mem_of_find?_eq_some hfind
    have hfu : f.1 = u := by simpa using List.find?_some hfind
    obtain ⟨t', ht', hi, hu, ho⟩ := hA f hfm hfu t ht
    exact (absMap_eq_some_iff h).mpr ⟨t', ht', hi, hu, ho⟩

/-- … and every task of `u` that is still to run -/
theorem queueView_all {s : St} (hf : Fresh s) (u : Nat) :
    (∀ t ∈ tasksOf s u, t.uid ∈ (queueView s u).2.2) ∧
    (tasksOf s u ≠ [] → (queueView s u).2.1 = 200) := by
  unfold queueView
  obtain ⟨hkeys, _, hB⟩ := queueSt_fresh hf u
  have key : ∀ t ∈ tasksOf s u, ∃ g, (queueSt s u).files.find? (·.1 == u) = some g ∧ t.uid ∈ g.2.map (·.uid) := by
    intro t ht
    obtain ⟨f, hfm, hfu, hmem⟩ := hB t ht
    have h3 := fileOf_of_mem hkeys hfm
    rw [hfu] at h3
    unfold fileOf at h3
    rw [Option.map_eq_some_iff] at h3
    obtain ⟨g, hg1, hg2⟩ := h3
    exact ⟨g, hg1, by rw [hg2]; exact hmem⟩
  constructor
  · intro t ht
    obtain ⟨g, hg1, hg2⟩ := key t ht
    rw [hg1]; exact hg2
  · intro hne
    cases hl : tasksOf s u with
    | nil => exact absurd hl hne
    | cons t r =>
      obtain ⟨g, hg1, _⟩ := key t (by rw [hl]; exact List.mem_cons_self)
      rw [hg1]

/-! ### `GET /sched` -/

/-- the uids of the in-table tasks of `u`, all of them or those among `tuids` -/
def schedView (s : St) (u : Nat) (tuids : List String) : List String :=
  if tuids.isEmpty then (s.tasks.filter fun t => t.inTable && t.owner == u).map (·.uid)
  else tuids.filter (((s.tasks.filter fun t => t.inTable && t.owner == u).map (·.uid)).contains ·)

/-- a known peer other than root that passes the gate is shown its own tasks -/
theorem httpSched_passed {s : St} {p : Nat} (hk : Known s p) (hp : p ≠ 0) {urlUid : Option Nat}
    (hg : p &&& urlUid.getD notAUid = p) (tuids : List String) :
    httpSched s p urlUid tuids = (200, schedView s p tuids) := by
  unfold httpSched schedView
  simp only [complUid_known hk, if_neg hk.1]
  rw [if_neg (fun c => c hg)]
  simp only [hg, ne_eq, hp, not_false_eq_true, if_true]

/-- root is never refused and is shown the tasks of `rootView urlUid` -/
theorem httpSched_root {s : St} (hk : Known s 0) (urlUid : Option Nat) (tuids : List String) :
    httpSched s 0 urlUid tuids = (200, schedView s (rootView urlUid) tuids) := by
  unfold httpSched schedView rootView
  simp only [complUid_known hk, if_neg hk.1, Nat.zero_and, ne_eq, not_true_eq_false, if_false]

theorem mem_schedView {s : St} (h : Inv s) {u : Nat} {tuids : List String} {uid : String}
    (hm : uid ∈ schedView s u tuids) : absMap s uid = some u := by
  have hmine : ∀ uid ∈ (s.tasks.filter fun t => t.inTable && t.owner == u).map (·.uid), absMap s uid = some u := by
    intro uid hm
    rw [List.mem_map] at hm
    obtain ⟨t, ht, rfl⟩ := hm
    rw [List.mem_filter] at ht
    simp only [Bool.and_eq_true, beq_iff_eq] at ht
    exact (absMap_eq_some_iff h).mpr ⟨t, ht.1, ht.2.1, rfl, ht.2.2⟩
  unfold schedView at hm
  split at hm
  · exact hmine uid hm
  · rw [List.mem_filter] at hm
    exact hmine uid (by simpa using hm.2)

/-- without `tuid=` parameters every in-table task of `u` is listed -/
theorem schedView_all {s : St} (h : Inv s) {u : Nat} {uid : String} (hm : absMap s uid = some u) :
    uid ∈ schedView s u [] := by
  obtain ⟨t, ht, hi, hu, ho⟩ := (absMap_eq_some_iff h).mp hm
  unfold schedView
  simp only [List.isEmpty_nil, if_true, List.mem_map, List.mem_filter, Bool.and_eq_true, beq_iff_eq]
  exact ⟨t, ⟨ht, hi, ho⟩, hu⟩

end Echse.Daemon
