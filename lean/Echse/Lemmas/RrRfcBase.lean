/-
  Shared base of the C01 proofs for the daily and the weekly filler (RrDlyRfc, RrWlyRfc), part 1:
  the order of instants (`ltP`, `ikey`) against the specification's `absOf`, and the month carry `Carry` against the
  day numbers `days`.
-/
import Echse.Spec.Rfc5545
import Echse.Lemmas.RrDlyOk
import Echse.Lemmas.RuleExt9
import Echse.Lemmas.RuleExt11
namespace Echse.Lemmas.RrRfc
open Echse.Rrule Echse.Instant Echse.Spec.RrOk Echse.Spec.Cal Echse.Spec.RuleExt Echse.Spec.Rfc
open Echse.Lemmas.RrOkBase

/-! ### order -/

theorem pack_bump (a : Inst) (ha : InR a) : (bump a).pack = 1024 * ikey a + (a.ms + 1) % 1024 := by
  obtain ⟨h1, h2, h3, h4, h5, h6, h7⟩ := ha
  simp only [bump, Inst.pack, ikey, dkey, tkey]
  omega

/-- `ltP u a` is inherited by anything not before `a` (no assumption on `u`: UNTIL may be any word) -/
theorem ltP_mono_right (u a b : Inst) (ha : InR a) (hb : InR b) (hms : a.ms = b.ms)
    (h : ltP u a = true) (hk : ikey a ≤ ikey b) : ltP u b = true := by
  simp only [ltP, decide_eq_true_eq] at h ⊢
  rw [pack_bump a ha] at h
  rw [pack_bump b hb, ← hms]
  omega

/-- an instant not after `u` has a year not after `u`'s -/
theorem year_le_of_not_lt (u a : Inst) (ha : InR a) (h : ltP u a = false) : a.y ≤ u.y := by
  obtain ⟨h1, h2, h3, h4, h5, h6, h7⟩ := ha
  have h' : ¬ ((bump u).pack < (bump a).pack) := by
    intro hc; simp only [ltP, hc, decide_true] at h; cases h
  simp only [bump, Inst.pack] at h'
  omega

theorem ikey_date_le {a b : Inst} (ha : InR a) (hb : InR b) (h : ikey a ≤ ikey b) :
    dkey a.y a.m a.d ≤ dkey b.y b.m b.d := by
  obtain ⟨h1, h2, h3, h4, h5, h6, h7⟩ := ha
  obtain ⟨g1, g2, g3, g4, g5, g6, g7⟩ := hb
  have t1 : tkey a.H a.M a.S < 4194304 := by unfold tkey; omega
  have t2 : tkey b.H b.M b.S < 4194304 := by unfold tkey; omega
  unfold ikey at h
  omega

/-- a calendar date in the specification's sense -/
def VDs (y m d : Nat) : Prop := 1 ≤ m ∧ m ≤ 12 ∧ 1 ≤ d ∧ d ≤ monthLen y m

theorem VDs.d31 {y m d : Nat} (h : VDs y m d) : d ≤ 31 := by
  have := monthLen_pos y m h.1 h.2.1
  have := h.2.2.2
  omega

theorem days_lt_of_dkey {y m d y' m' d' : Nat} (h : VDs y m d) (h' : VDs y' m' d')
    (hk : dkey y m d < dkey y' m' d') : days y m d < days y' m' d' := by
  have a := h.d31
  have b := h'.d31
  refine days_lt_of_lex y m d y' m' d' h.1 h.2.1 h.2.2.2 h'.1 h'.2.1 h'.2.2.1 ?_
  obtain ⟨a1, a2, a3, a4⟩ := h
  obtain ⟨b1, b2, b3, b4⟩ := h'
  unfold dkey at hk
  omega

theorem dkey_le_of_days {y m d y' m' d' : Nat} (h : VDs y m d) (h' : VDs y' m' d')
    (hk : days y m d ≤ days y' m' d') : dkey y m d ≤ dkey y' m' d' := by
  by_cases c : dkey y' m' d' < dkey y m d
  · have := days_lt_of_dkey h' h c; omega
  · omega

/-- the two kinds of time of day the fillers deal with -/
def KindT (a b : Inst) : Prop :=
  (a.H = allDay ∧ b.H = allDay ∧ b.M = a.M ∧ b.S = a.S ∧ a.M < 60 ∧ a.S < 60) ∨ (a.H < 24 ∧ a.M < 60 ∧ a.S < 60 ∧ b.H < 24 ∧ b.M < 60 ∧ b.S < 60)

/-- the specification's order implies the code's -/
theorem ikey_le_of_abs {a b : Inst} (ha : VDs a.y a.m a.d) (hb : VDs b.y b.m b.d) (hk : KindT a b)
    (h : absOf a ≤ absOf b) : ikey a ≤ ikey b := by
  have a31 := ha.d31
  have b31 := hb.d31
  by_cases c : dkey b.y b.m b.d < dkey a.y a.m a.d
  · have hd := days_lt_of_dkey hb ha c
    exfalso
    unfold absOf secOf dayOf allDay at h
    unfold KindT allDay at hk
    rcases hk with ⟨k1, k2, k3, k4, k7, k8⟩ | ⟨k1, k2, k3, k4, k5, k6⟩
    · rw [if_pos k1, if_pos k2] at h; omega
    · rw [if_neg (by omega), if_neg (by omega)] at h; omega
  · by_cases c2 : dkey a.y a.m a.d < dkey b.y b.m b.d
    · have k1 : tkey a.H a.M a.S < 4194304 := by
        unfold tkey; unfold KindT allDay at hk
        rcases hk with ⟨k1, k2, k3, k4, k7, k8⟩ | ⟨k1, k2, k3, k4, k5, k6⟩ <;> omega
      unfold ikey; omega
    · have e : dkey a.y a.m a.d = dkey b.y b.m b.d := by omega
      have hm := ha.2.1; have hm' := hb.2.1
      have e3 : a.y = b.y ∧ a.m = b.m ∧ a.d = b.d := by unfold dkey at e; omega
      unfold absOf secOf dayOf allDay at h
      unfold KindT allDay at hk
      unfold ikey tkey
      rw [e3.1, e3.2.1, e3.2.2] at h ⊢
      rcases hk with ⟨k1, k2, k3, k4, k7, k8⟩ | ⟨k1, k2, k3, k4, k5, k6⟩
      · rw [k1, k2, k3, k4]; omega
      · rw [if_neg (by omega), if_neg (by omega)] at h; omega

/-! ### the month carry and day numbers -/

/-- months from March 1900 on: `getNdom` is the Gregorian month length up to 2099 -/
def LowOk (y m : Nat) : Prop := 1900 < y ∨ (y = 1900 ∧ 3 ≤ m)

theorem ndom_eq {y m : Nat} (h1 : 1 ≤ m) (h2 : m ≤ 12) (hl : LowOk y m) (hy : y ≤ 2099) : getNdom y m = monthLen y m :=
  Echse.RuleExt.getNdom_eq y m ⟨h1, h2, hl, Or.inl (by omega)⟩ (by omega)

theorem days_nx {y m : Nat} (h1 : 1 ≤ m) (h2 : m ≤ 12) : days (nxY y m) (nxM m) 1 = days y m 1 + monthLen y m := by
  have := Echse.RuleExt.days_nextYM y m h1 h2
  unfold Echse.RuleExt.nextYM at this
  unfold nxY nxM
  by_cases c : m = 12
  · rw [if_pos c] at this; rw [if_pos (by omega), if_pos (by omega)]; exact this
  · rw [if_neg c] at this; rw [if_neg (by omega), if_neg (by omega)]; exact this

theorem lowOk_nx {y m : Nat} (hl : LowOk y m) : LowOk (nxY y m) (nxM m) := by
  unfold LowOk nxY nxM at *
  split <;> omega

theorem days_ge_2100 {y m : Nat} (hy : 2100 ≤ y) (h1 : 1 ≤ m) (h2 : m ≤ 12) : days 2100 1 1 ≤ days y m 1 := by
  have a := days_year_mono 2100 y hy
  have b := days_month_mono y 1 m (by omega) h1 h2
  omega

theorem days_lt_2100 {y m d : Nat} (h : VDs y m d) (hy : y ≤ 2099) : days y m d < days 2100 1 1 :=
  days_lt_of_lex y m d 2100 1 1 h.1 h.2.1 h.2.2.2 (by omega) (by omega) (by omega) (Or.inl (by omega))

/-- the carry keeps the day number (as long as the calendar of the code is the Gregorian one) -/
theorem carry_days {y m D y2 m2 d2 : Nat} (hc : Carry y m D y2 m2 d2) :
    1 ≤ m → m ≤ 12 → 1 ≤ D → LowOk y m → y2 ≤ 2099 → days y2 m2 d2 = days y m 1 + D - 1 := by
  induction hc with
  | @done y m d h => intro _ _ _ _ _; exact days_d y m d
  | @step y m d y2 m2 d2 hd hc ih =>
    intro h1 h2 h3 hl hy
    have hn := nxM_range m h1 h2
    have hb := ndom_bounds y m h1 h2
    obtain ⟨hv, -, -, hor⟩ := hc.props hn.1 hn.2 (by omega)
    have hyy : y ≤ y2 := by
      have : y ≤ nxY y m := by unfold nxY; split <;> omega
      have := hv.2.1
      rcases hor with ⟨e, _, _⟩ | ⟨_, h⟩ <;> omega
    rw [ih hn.1 hn.2 (by omega) (lowOk_nx hl) hy, days_nx h1 h2, ← ndom_eq h1 h2 hl (by omega)]
    omega

/-- … and finds every date up to 2099 -/
theorem carry_of_days {y m D y2 m2 d2 : Nat} (hc : Carry y m D y2 m2 d2) (yx mx dx : Nat) (hx : VDs yx mx dx)
    (hyx : yx ≤ 2099) :
    1 ≤ m → m ≤ 12 → 1 ≤ D → LowOk y m → days yx mx dx = days y m 1 + D - 1 → y2 = yx ∧ m2 = mx ∧ d2 = dx := by
  have hlt := days_lt_2100 hx hyx
  induction hc with
  | @done y m d h =>
    intro h1 h2 h3 hl he
    have hy : y ≤ 2099 := by
      by_cases c : y ≤ 2099
      · exact c
      · have := days_ge_2100 (show 2100 ≤ y by omega) h1 h2; omega
    rw [ndom_eq h1 h2 hl hy] at h
    rw [← days_d] at he
    obtain ⟨e1, e2, e3⟩ := days_inj yx mx dx y m d hx.1 hx.2.1 hx.2.2.1 hx.2.2.2 h1 h2 h3 h he
    exact ⟨e1.symm, e2.symm, e3.symm⟩
  | @step y m d y2 m2 d2 hd hc ih =>
    intro h1 h2 h3 hl he
    have hn := nxM_range m h1 h2
    have hb := ndom_bounds y m h1 h2
    have hy : y ≤ 2099 := by
      by_cases c : y ≤ 2099
      · exact c
      · have := days_ge_2100 (show 2100 ≤ y by omega) h1 h2; omega
    refine ih hn.1 hn.2 (by omega) (lowOk_nx hl) ?_
    rw [days_nx h1 h2, ← ndom_eq h1 h2 hl hy]
    omega

end Echse.Lemmas.RrRfc
