import Echse.Model.Daemon
import Echse.Model.Strpf
namespace C14
open Echse.Daemon Echse.Strpf

/-- what echsd writes into the execution request for a limit of `ms` milliseconds (`vtodoify`) -/
def vtodoDuration (ms : Nat) : List Char := "PT".toList ++ tostr (durSecs ms) ++ ['S']

/-- what echsx passes to alarm(2) for a parsed timeout of `ms` milliseconds -/
def alarmArg (ms : Int) : Int := ms / 1000 + (if ms % 1000 ≠ 0 then 1 else 0)

/-- smoke (general statement replaces this): a 1.5 s limit arms a 2 s alarm -/
theorem limit_1500ms : alarmArg (idiffStrp (vtodoDuration 1500) (vtodoDuration 1500).length).1 = 2 := by decide

end C14
