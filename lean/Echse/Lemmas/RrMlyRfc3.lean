/-
  C01 for the monthly filler, part 3: what the period of a month offers (`mE`) — exactly the instants of that month on
  a day the rule allows, at a time of the enumeration (`mem_mE_iff`).
-/
import Echse.Lemmas.RrMlyRfc2
import Echse.Lemmas.RrRfcBase3
namespace Echse.Lemmas.RrMlyRfc
open Echse.Rrule Echse.Instant Echse.Spec.RrOk Echse.Lemmas.RrCandOk Echse.Spec.Rfc Echse.Lemmas.RrRfc
open Echse.Lemmas.RrCandRfc Echse.Lemmas.RrMlyOk Echse.Spec.Cal Echse.Spec.RuleExt Echse.Lemmas.RrOkBase

theorem mem_times_iff (e : Enum) (h mi s : Nat) : (h, mi, s) ∈ e.times ↔ h ∈ e.H ∧ mi ∈ e.M ∧ s ∈ e.S := by
  constructor
  · intro hh; exact mem_times e _ hh
  · rintro ⟨h1, h2, h3⟩
    unfold Enum.times
    exact List.mem_flatMap.mpr ⟨h, h1, List.mem_flatMap.mpr ⟨mi, h2, List.mem_map.mpr ⟨s, h3, rfl⟩⟩⟩

/-- the values of the enumeration fit their bit fields -/
theorem enum_bounds (r : Rule) (p : Inst) (hr : WfRule r) (hp : WfInst p) (t : Nat × Nat × Nat)
    (ht : t ∈ (makeEnum p r).times) : t.1 < 256 ∧ t.2.1 < 60 ∧ t.2.2 < 60 := by
  have h60 := times_lt60 r p hr hp t ht
  refine ⟨?_, h60.1, h60.2⟩
  have h1 := (mem_times _ t ht).1
  unfold makeEnum at h1
  split at h1
  · simp only [List.mem_singleton] at h1; omega
  dsimp only at h1
  split at h1
  · simp only [List.mem_singleton] at h1; omega
  · obtain ⟨a, _, e⟩ := List.mem_map.mp h1; omega

/-- what the ENUM loop forms for a real day and a time of the enumeration -/
theorem mkX_fields (r : Rule) (p : Inst) (nti : Nat) (hr : WfRule r) (hp : WfInst p) (y m d : Nat) (t : Nat × Nat × Nat)
    (hy : y ≤ 2099) (hm : 1 ≤ m ∧ m ≤ 12) (hd : d ≤ 31) (ht : t ∈ (makeEnum p r).times) :
    mkX (mkFillCtx r p nti) y (packCand m d) t =
      { y := y, m := m, d := d, H := t.1, M := t.2.1, S := t.2.2, ms := p.ms } := by
  obtain ⟨b1, b2, b3⟩ := enum_bounds r p hr hp t ht
  have hu := packCand_unpack m d hm hd
  have hms := hp.ms
  unfold mkX mkInst
  rw [hu.1, hu.2]
  rw [Nat.mod_eq_of_lt (by omega : y < 65536), Nat.mod_eq_of_lt (by omega : m < 256),
    Nat.mod_eq_of_lt (by omega : d < 256), Nat.mod_eq_of_lt b1, Nat.mod_eq_of_lt (by omega : t.2.1 < 256),
    Nat.mod_eq_of_lt (by omega : t.2.2 < 64)]
  show ({ y := y, m := m, d := d, H := t.fst, M := t.snd.fst, S := t.snd.snd, ms := p.ms % 1024 } : Inst) = _
  rw [Nat.mod_eq_of_lt hms]

/-- what the period of month `y-m` offers -/
def mE (r : Rule) (p : Inst) (nti : Nat) (q : Nat × Int) : List Inst :=
  setE (mkFillCtx r p nti) q.1 (mlyCand (mlyCtxOf r p nti) q.1 (toU32 q.2))

/-- the month's list holds exactly the instants of that month on a day the rule allows at a time of the enumeration -/
theorem mem_mE_iff (r : Rule) (p : Inst) (nti : Nat) (hr : WfRule r) (hp : WfInst p) (hs : MlySup r)
    (y : Nat) (m : Int) (hy : 1901 ≤ y ∧ y ≤ 2099) (hm : 1 ≤ m ∧ m ≤ 12) (z : Inst) :
    z ∈ mE r p nti (y, m) ↔ z.y = y ∧ z.m = m.toNat ∧ 1 ≤ z.d ∧ z.d ≤ monthLen z.y z.m ∧ MlyDate r p z ∧
      z.ms = p.ms ∧ z.H ∈ (makeEnum p r).H ∧ z.M ∈ (makeEnum p r).M ∧ z.S ∈ (makeEnum p r).S := by
  have hmu : toU32 m = m.toNat := by unfold toU32 u32; omega
  have hm' : 1 ≤ m.toNat ∧ m.toNat ≤ 12 := by omega
  unfold mE
  dsimp only
  rw [hmu]
  constructor
  · intro h
    obtain ⟨c, hc, t, ht, e⟩ := mem_setE _ _ _ _ h
    obtain ⟨s1, s2, s3⟩ := mlyCand_shape r p nti hr hp y m.toNat hm' c hc
    have hd31 : c % 32 ≤ 31 := by omega
    rw [s1, mkX_fields r p nti hr hp y m.toNat (c % 32) t hy.2 hm' hd31 ht] at e
    have hmt := mem_times _ t ht
    have hx : DateIn z := by
      rw [e]
      refine ⟨⟨hm'.1, hm'.2, s2, ?_⟩, hy.1, hy.2⟩
      show c % 32 ≤ monthLen y m.toNat
      rw [← ndom_eq hm'.1 hm'.2 (Or.inl (by omega)) hy.2]; exact s3
    have hiff := mlyCand_iff r p nti hr hp hs z hx
    rw [e] at hiff ⊢
    dsimp only at hiff ⊢
    rw [← s1] at hiff
    refine ⟨rfl, rfl, s2, ?_, hiff.1 hc, rfl, hmt.1, hmt.2.1, hmt.2.2⟩
    rw [← ndom_eq hm'.1 hm'.2 (Or.inl (by omega)) hy.2]; exact s3
  · rintro ⟨e1, e2, e3, e4, e5, e6, e7, e8, e9⟩
    have hx : DateIn z := ⟨⟨by omega, by omega, e3, e4⟩, by omega, by omega⟩
    have hc := (mlyCand_iff r p nti hr hp hs z hx).2 e5
    rw [e1, e2] at hc
    have ht : (z.H, z.M, z.S) ∈ (makeEnum p r).times := (mem_times_iff _ _ _ _).2 ⟨e7, e8, e9⟩
    unfold setE dayE
    refine List.mem_flatMap.mpr ⟨_, hc, List.mem_map.mpr ⟨(z.H, z.M, z.S), ht, ?_⟩⟩
    rw [mkX_fields r p nti hr hp y m.toNat z.d _ hy.2 hm' hx.v.d31 ht, ← e1, ← e2, ← e6]

end Echse.Lemmas.RrMlyRfc
