/-
  Lemmas for C07, part 5: the value `utcVal` that `zif_utc_time` computes (`utcTime_eq'`), the choice `pick`
  among the candidate stretches.
-/
import Echse.Lemmas.Tz4
namespace Echse.Tz

/-- the stretch `k` of the first guess and its neighbours, as `zif_utc_time` collects them -/
def candsAt (z : Zone) (k : Int) : List ZRng :=
  (if (rngAt z k).prev > intMin then some (rngAt z (k - 1)) else none).toList ++ [rngAt z k] ++
  (if (rngAt z k).next < intMax then some (rngAt z (k + 1)) else none).toList

/-- the choice among the candidates: the smallest valid answer, else the offset from before the gap, else the guess -/
def pick (t : Int) (r : ZRng) (cand : List ZRng) : Int :=
  match (cand.filter fun q => q.holds (t - q.offs)).map fun q => t - q.offs with
  | u :: us => us.foldl min u
  | [] =>
    match (cand.zip cand.tail).find? fun ab => decide (t - ab.1.offs ≥ ab.1.next) && decide (t - ab.2.offs < ab.2.prev) with
    | some ab => t - ab.1.offs
    | none => t - r.offs

/-- what `zif_utc_time` answers for the local time `w` -/
def utcVal (z : Zone) (w : Int) : Int :=
  pick w (rngAt z (trIdx z (w - off z w))) (candsAt z (trIdx z (w - off z w)))

theorem pick_eq (t : Int) (r : ZRng) (cand : List ZRng) :
    (match (cand.filter fun q => q.holds (t - q.offs)).map fun q => t - q.offs with
      | u :: us => some (us.foldl min u, r)
      | [] =>
        match (cand.zip cand.tail).find? fun ab => decide (t - ab.1.offs ≥ ab.1.next) && decide (t - ab.2.offs < ab.2.prev) with
        | some ab => some (t - ab.1.offs, r)
        | none => some (t - r.offs, r)) = some (pick t r cand, r) := by
  unfold pick
  split
  · rfl
  · split <;> rfl

theorem utcTime_eq' (z : Zone) (wf : WF z) (c : ZRng) (hc : CacheRng z c) (w : Int) (hw : I32 w)
    (hw' : I32 (w - off z w)) :
    utcTime z c w = some (utcVal z w, rngAt z (trIdx z (w - off z w))) := by
  have hb := off_bound z wf w
  have e : wrap32 (off z w) = off z w := wrap32_of_I32 _ (by unfold I32 intMin intMax; omega)
  unfold utcTime
  rw [wf.2.2.2.2.2.2, offsC_rng z wf c hc w hw]
  simp only [Bool.false_eq_true, if_false]
  rw [e, offsC_rng z wf _ (cacheRng_rngAt z w hw) _ hw']
  simp only []
  generalize hk : trIdx z (w - off z w) = k
  have hkr := trIdx_range z (w - off z w)
  rw [hk] at hkr
  have hB := rngAt_bounds z wf _ hw'
  rw [hk] at hB
  have pvE : (if (rngAt z k).prev > intMin then Option.map some (findZrng z (clamp32 ((rngAt z k).prev - 1))) else some none)
      = some (if (rngAt z k).prev > intMin then some (rngAt z (k - 1)) else none) := by
    by_cases h : (rngAt z k).prev > intMin
    · rw [if_pos h, if_pos h]
      have k0 : 0 ≤ k := by
        apply Int.not_lt.1; intro hn; rw [rngAt_neg z k hn] at h; simp at h
      have ep : (rngAt z k).prev = tr z k.toNat := by rw [rngAt_nonneg z k k0]
      have hi : I32 ((rngAt z k).prev - 1) := by
        have := (I32_iff _).1 hw'
        rw [I32_iff]; unfold intMin at h; omega
      rw [clamp32_of_I32 _ hi, findZrng_eq z wf _ hi, ep, trIdx_pred z wf k k0 hkr.2]; rfl
    · rw [if_neg h, if_neg h]
  have nxE : (if (rngAt z k).next < intMax then Option.map some (findZrng z (clamp32 (rngAt z k).next)) else some none)
      = some (if (rngAt z k).next < intMax then some (rngAt z (k + 1)) else none) := by
    by_cases h : (rngAt z k).next < intMax
    · rw [if_pos h, if_pos h]
      have k1 : k + 1 < z.ntr := by
        apply Int.not_le.1; intro hn
        by_cases hneg : k < 0
        · rw [rngAt_neg z k hneg] at h
          have : z.ntr = 0 := by omega
          simp [this] at h
        · rw [rngAt_nonneg z k (by omega), if_neg (by omega)] at h; simp at h
      have en : (rngAt z k).next = tr z (k + 1).toNat := by
        by_cases hneg : k < 0
        · have : k = -1 := by omega
          subst this
          rw [rngAt_neg z _ hneg, if_pos (by omega)]; rfl
        · rw [rngAt_nonneg z k (by omega), if_pos k1]
      have hi : I32 (rngAt z k).next := by rw [en]; exact tr_I32 z wf _ (by omega)
      rw [clamp32_of_I32 _ hi, findZrng_eq z wf _ hi, en, trIdx_succ z wf k hkr.1 k1]; rfl
    · rw [if_neg h, if_neg h]
  rw [pvE, nxE]
  simp only []
  unfold utcVal candsAt
  rw [hk]
  exact pick_eq w _ _

/-! ### the choice -/

theorem foldl_min_spec (us : List Int) :
    ∀ u, (us.foldl min u ∈ u :: us) ∧ ∀ x ∈ u :: us, us.foldl min u ≤ x := by
  induction us with
  | nil => intro u; simp
  | cons a us ih =>
    intro u
    obtain ⟨m1, m2⟩ := ih (min u a)
    simp only [List.foldl_cons]
    constructor
    · rcases List.mem_cons.1 m1 with h | h
      · rw [h]
        have : min u a = u ∨ min u a = a := by omega
        rcases this with e | e <;> rw [e] <;> simp
      · exact List.mem_cons_of_mem _ (List.mem_cons_of_mem _ h)
    · intro x hx
      have hm := m2 (min u a) (by simp)
      rcases List.mem_cons.1 hx with rfl | hx
      · omega
      · rcases List.mem_cons.1 hx with rfl | hx
        · omega
        · exact m2 x (List.mem_cons_of_mem _ hx)

/-- some candidate is valid: the smallest valid answer -/
theorem pick_valid (t : Int) (r : ZRng) (cand : List ZRng) (q0 : ZRng) (h0 : q0 ∈ cand)
    (hv : q0.holds (t - q0.offs) = true) :
    (∃ q ∈ cand, q.holds (t - q.offs) = true ∧ pick t r cand = t - q.offs) ∧
    ∀ q ∈ cand, q.holds (t - q.offs) = true → pick t r cand ≤ t - q.offs := by
  have mem : ∀ x, x ∈ (cand.filter fun q => q.holds (t - q.offs)).map (fun q => t - q.offs) ↔
      ∃ q ∈ cand, q.holds (t - q.offs) = true ∧ x = t - q.offs := by
    intro x
    simp only [List.mem_map, List.mem_filter]
    constructor
    · rintro ⟨q, ⟨a, b⟩, rfl⟩; exact ⟨q, a, b, rfl⟩
    · rintro ⟨q, a, b, rfl⟩; exact ⟨q, ⟨a, b⟩, rfl⟩
  unfold pick
  split
  · rename_i u us hV
    rw [hV] at mem
    obtain ⟨m1, m2⟩ := foldl_min_spec us u
    refine ⟨?_, ?_⟩
    · obtain ⟨q, a, b, e⟩ := (mem _).1 m1
      exact ⟨q, a, b, e⟩
    · intro q a b
      exact m2 _ ((mem _).2 ⟨q, a, b, rfl⟩)
  · rename_i hV
    rw [hV] at mem
    exact absurd ((mem _).2 ⟨q0, h0, hv, rfl⟩) (by simp)

/-- no candidate is valid, a pair around a gap is found: the offset of its first member -/
theorem pick_gap (t : Int) (r : ZRng) (cand : List ZRng) (ab : ZRng × ZRng)
    (hV : ∀ q ∈ cand, q.holds (t - q.offs) = false)
    (hf : (cand.zip cand.tail).find? (fun ab => decide (t - ab.1.offs ≥ ab.1.next) && decide (t - ab.2.offs < ab.2.prev)) = some ab) :
    pick t r cand = t - ab.1.offs := by
  have e : (cand.filter fun q => q.holds (t - q.offs)) = [] := by
    rw [List.filter_eq_nil_iff]
    intro q hq; rw [hV q hq]; simp
  unfold pick
  rw [e, hf]
  rfl

/-- in any case the answer is `t` less the offset of a candidate -/
theorem pick_off (t : Int) (r : ZRng) (cand : List ZRng) (hr : r ∈ cand) :
    ∃ q ∈ cand, pick t r cand = t - q.offs := by
  unfold pick
  split
  · rename_i u us hV
    obtain ⟨m1, _⟩ := foldl_min_spec us u
    rw [← hV] at m1
    simp only [List.mem_map, List.mem_filter] at m1
    obtain ⟨q, ⟨a, _⟩, e⟩ := m1
    exact ⟨q, a, e.symm⟩
  · split
    · rename_i ab hf
      have := List.mem_of_find?_eq_some hf
      exact ⟨ab.1, (List.of_mem_zip this).1, rfl⟩
    · exact ⟨r, hr, rfl⟩

end Echse.Tz
