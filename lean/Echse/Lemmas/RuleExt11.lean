/-
  C17 lemmas, part 11: `ymd_get_wday` (Sakamoto) is the weekday of the day number, 1900..2100.
-/
import Echse.Model.Rrule
import Echse.Spec.RuleExt
import Echse.Lemmas.Instant1
namespace Echse.RuleExt
open Echse.Rrule Echse.Spec.Cal Echse.Spec.RuleExt Echse.Instant

/-- Sakamoto's sum without the unsigned wrap-around -/
theorem sak_nowrap (Y t d : Nat) (hY : Y ≤ 2100) (ht : t ≤ 6) (hd : d ≤ 31) :
    (Y + Y / 4 + (u32 - Y / 100) + Y / 400 + t + d) % u32 = Y + Y / 4 - Y / 100 + Y / 400 + t + d := by
  unfold u32; omega

theorem ym1 (y : Nat) (h : 1 ≤ y) (h2 : y ≤ 2100) : (y + u32 - 1) % u32 = y - 1 := by unfold u32; omega

/-- `ymd_get_wday` in plain arithmetic -/
theorem wday_plain (y m d : Nat) (hy1 : 1900 ≤ y) (hy2 : y ≤ 2100) (h1 : 1 ≤ m) (h2 : m ≤ 12) (hd : d ≤ 31) :
    ymdGetWday y m d =
      (let Y := if m < 3 then y - 1 else y
       let t := [0, 3, 2, 5, 0, 3, 5, 1, 4, 6, 2, 4].getD (m - 1) 0
       let r := (Y + Y / 4 - Y / 100 + Y / 400 + t + d) % 7
       if r = 0 then 7 else r) := by
  unfold ymdGetWday
  have ht : [0, 3, 2, 5, 0, 3, 5, 1, 4, 6, 2, 4].getD (m - 1) 0 ≤ 6 := by
    rcases month_cases m h1 h2 with e|e|e|e|e|e|e|e|e|e|e|e <;> subst e <;> decide
  dsimp only
  by_cases hm : m < 3
  · simp only [if_pos hm]
    rw [ym1 y (by omega) hy2, sak_nowrap (y - 1) _ d (by omega) ht hd]
  · simp only [if_neg hm]
    rw [sak_nowrap y _ d (by omega) ht hd]

theorem wd_core (Y A B C t o d k : Nat) (h : B ≤ A) (hk : o + 2 = t + 7 * k) :
    (if (Y + A - B + C + t + d) % 7 = 0 then 7 else (Y + A - B + C + t + d) % 7) =
      ((365 * (Y : Int) + A - B + C + o + d - 1 + 2) % 7).toNat + 1 := by
  split <;> omega

theorem wday_eq (y m d : Nat) (hy1 : 1900 ≤ y) (hy2 : y ≤ 2100) (h1 : 1 ≤ m) (h2 : m ≤ 12) (hd : d ≤ 31) :
    ymdGetWday y m d = wdayOf (days y m d) := by
  rw [wday_plain y m d hy1 hy2 h1 h2 hd]
  have k4 : (y : Int) - 1 = ((y - 1 : Nat) : Int) := by omega
  have l1 : (y - 1) / 100 ≤ (y - 1) / 4 := by omega
  have l2 : y / 100 ≤ y / 4 := by omega
  rcases month_cases m h1 h2 with e|e|e|e|e|e|e|e|e|e|e|e <;> subst e
  · have := wd_core (y - 1) ((y - 1) / 4) ((y - 1) / 100) ((y - 1) / 400) 0 306 d 44 l1 (by omega)
    simp [wdayOf, days, k4] at this ⊢
    exact this
  · have := wd_core (y - 1) ((y - 1) / 4) ((y - 1) / 100) ((y - 1) / 400) 3 337 d 48 l1 (by omega)
    simp [wdayOf, days, k4] at this ⊢
    exact this
  · have := wd_core y (y / 4) (y / 100) (y / 400) 2 0 d 0 l2 (by omega)
    simp [wdayOf, days] at this ⊢
    exact this
  · have := wd_core y (y / 4) (y / 100) (y / 400) 5 31 d 4 l2 (by omega)
    simp [wdayOf, days] at this ⊢
    exact this
  · have := wd_core y (y / 4) (y / 100) (y / 400) 0 61 d 9 l2 (by omega)
    simp [wdayOf, days] at this ⊢
    exact this
  · have := wd_core y (y / 4) (y / 100) (y / 400) 3 92 d 13 l2 (by omega)
    simp [wdayOf, days] at this ⊢
    exact this
  · have := wd_core y (y / 4) (y / 100) (y / 400) 5 122 d 17 l2 (by omega)
    simp [wdayOf, days] at this ⊢
    exact this
  · have := wd_core y (y / 4) (y / 100) (y / 400) 1 153 d 22 l2 (by omega)
    simp [wdayOf, days] at this ⊢
    exact this
  · have := wd_core y (y / 4) (y / 100) (y / 400) 4 184 d 26 l2 (by omega)
    simp [wdayOf, days] at this ⊢
    exact this
  · have := wd_core y (y / 4) (y / 100) (y / 400) 6 214 d 30 l2 (by omega)
    simp [wdayOf, days] at this ⊢
    exact this
  · have := wd_core y (y / 4) (y / 100) (y / 400) 2 245 d 35 l2 (by omega)
    simp [wdayOf, days] at this ⊢
    exact this
  · have := wd_core y (y / 4) (y / 100) (y / 400) 4 275 d 39 l2 (by omega)
    simp [wdayOf, days] at this ⊢
    exact this
end Echse.RuleExt
