/-
  C01 for the YEARLY / MONTHLY filler models, part 9: the candidate builders of the yearly filler that rest on the
  monthly ones, read for a date `x`: BYMONTH × BYMONTHDAY (`mem_yly_ymd_date`), BYMONTHDAY in every month
  (`mem_yly_ymdAllM_date`), all days of given months on given weekdays (`mem_yly_ymdAllD_date`, `mem_yly_mdAll_date`),
  counted weekdays within given months (`mem_yly_ymcw_date`).
-/
import Echse.Lemmas.RrMlyRfc1
namespace Echse.Lemmas.RrCandRfc
open Echse.Rrule Echse.Instant Echse.Spec.RrOk Echse.Lemmas.RrCandOk Echse.Spec.Rfc Echse.Lemmas.RrRfc
open Echse.Spec.Cal Echse.Spec.RuleExt Echse.Lemmas.RrMlyRfc

/-- BYMONTHDAY day selection for the date `x` -/
def MdaySel (ds : List Int) (x : Inst) : Prop :=
  ∃ n ∈ ds, (0 < n ∧ n = x.d) ∨ (n < 0 ∧ (monthLen x.y x.m : Int) + 1 + n = x.d)

theorem mem_fillMlyYmd_split (cand : List Nat) (y mo : Nat) (ds : List Int) (dow : List Int) (wdMask c : Nat) :
    c ∈ fillMlyYmd cand y mo ds dow wdMask ↔ c ∈ cand ∨ c ∈ fillMlyYmd [] y mo ds dow wdMask := by
  rw [mem_fillMlyYmd, mem_fillMlyYmd]
  simp

/-- the month of a packed value a month's BYMONTHDAY builder adds -/
theorem fillMlyYmd_month (y mo : Nat) (ds : List Int) (dow : List Int) (wdMask : Nat) (hm : 1 ≤ mo ∧ mo ≤ 12)
    (hds : ∀ dd ∈ ds, -31 ≤ dd ∧ dd ≤ 31) (x : Inst) (hx : DateIn x)
    (h : packCand x.m x.d ∈ fillMlyYmd [] y mo ds dow wdMask) : mo = x.m := by
  rw [mem_fillMlyYmd] at h
  rcases h with h | ⟨dd0, hdd, d, hp, _, he⟩
  · cases h
  · have hd := pickDom_ok dd0 _ d (hds dd0 hdd) (getNdom_le _ _) hp
    have hd31 : d ≤ 31 := by have := getNdom_le y mo; omega
    exact ((packCand_inj ⟨hx.v.1, hx.v.2.1⟩ hx.v.d31 hm hd31 he).1).symm

/-- BYMONTH × BYMONTHDAY (`fill_yly_ymd`) for a date -/
theorem mem_yly_ymd_date (cand : List Nat) (ms : List Nat) (ds : List Int) (dow : List Int) (wdMask : Nat) (x : Inst)
    (hx : DateIn x) (hms : ∀ m ∈ ms, 1 ≤ m ∧ m ≤ 12) (hds : ∀ dd ∈ ds, -31 ≤ dd ∧ dd ≤ 31) :
    packCand x.m x.d ∈ fillYlyYmd cand x.y ms ds dow wdMask ↔ packCand x.m x.d ∈ cand ∨
      (x.m ∈ ms ∧ MdaySel ds x ∧ DLimB dow wdMask x.y x.m x.d (wdayOf (dayOf x)) true) := by
  unfold fillYlyYmd
  rw [mem_foldl_nest _ (fun m c => c ∈ fillMlyYmd [] x.y m ds dow wdMask)
    (fun c m z => mem_fillMlyYmd_split c x.y m ds dow wdMask z)]
  apply or_congr Iff.rfl
  constructor
  · rintro ⟨m, hm, h⟩
    have e := fillMlyYmd_month x.y m ds dow wdMask (hms m hm) hds x hx h
    subst e
    exact ⟨hm, (mem_ymd_date ds dow wdMask x hx hds).1 h⟩
  · rintro ⟨hm, h⟩
    exact ⟨x.m, hm, (mem_ymd_date ds dow wdMask x hx hds).2 h⟩

/-- the selection `fill_yly_ymd_all_m` makes for one month and one BYMONTHDAY value -/
def ymdSelM (dow : List Int) (y m wdMask : Nat) (dd0 : Int) : Option Nat :=
  match pickDom dd0 (getNdom y m) with
  | none => none
  | some dd =>
    if wdMask ≠ 0 ∧ !dowLimitP dow wdMask y m dd (ymdGetWday y m dd) false then none else some (packCand m dd)

theorem fillYlyYmdAllM_eq (cand : List Nat) (y : Nat) (ds : List Int) (dow : List Int) (wdMask : Nat) :
    fillYlyYmdAllM cand y ds dow wdMask =
      (List.range 12).foldl (fun cand i => ds.foldl (fun cand a => assO cand (ymdSelM dow y (i + 1) wdMask a)) cand) cand := by
  unfold fillYlyYmdAllM
  congr 1
  funext cand i
  dsimp only
  congr 1
  funext cand dd0
  unfold ymdSelM
  cases pickDom dd0 (getNdom y (i + 1)) with
  | none => rfl
  | some dd =>
    dsimp only
    split <;> rfl

theorem ymdSelM_some (dow : List Int) (y m wdMask : Nat) (dd0 : Int) (c : Nat) :
    ymdSelM dow y m wdMask dd0 = some c ↔ ∃ d, pickDom dd0 (getNdom y m) = some d ∧
      DLimB dow wdMask y m d (ymdGetWday y m d) false ∧ c = packCand m d := by
  unfold ymdSelM
  cases pickDom dd0 (getNdom y m) with
  | none => simp
  | some dd =>
    dsimp only
    by_cases h : wdMask ≠ 0 ∧ (!dowLimitP dow wdMask y m dd (ymdGetWday y m dd) false) = true
    · rw [if_pos h]
      simp only [reduceCtorEq, Option.some.injEq, false_iff]
      rintro ⟨d, rfl, h1, _⟩
      exact (dlimB_neg _ _ _ _ _ _ _).2 h1 h
    · rw [if_neg h]
      simp only [Option.some.injEq]
      constructor
      · intro e
        exact ⟨dd, rfl, (dlimB_neg _ _ _ _ _ _ _).1 h, e.symm⟩
      · rintro ⟨d, rfl, _, e⟩; exact e.symm

/-- BYMONTHDAY in all twelve months (`fill_yly_ymd_all_m`) for a date -/
theorem mem_yly_ymdAllM_date (cand : List Nat) (ds : List Int) (dow : List Int) (wdMask : Nat) (x : Inst) (hx : DateIn x)
    (hds : ∀ dd ∈ ds, -31 ≤ dd ∧ dd ≤ 31) :
    packCand x.m x.d ∈ fillYlyYmdAllM cand x.y ds dow wdMask ↔ packCand x.m x.d ∈ cand ∨
      (MdaySel ds x ∧ DLimB dow wdMask x.y x.m x.d (wdayOf (dayOf x)) false) := by
  have hv := hx.v
  have h31 := hv.d31
  have hwd : ymdGetWday x.y x.m x.d = wdayOf (dayOf x) := hx.wd x.d h31
  have hml : monthLen x.y x.m ≤ 31 := by have := getNdom_le x.y x.m; rw [hx.ndom] at this; exact this
  have hm1 := hv.1
  have hm2 := hv.2.1
  rw [fillYlyYmdAllM_eq]
  rw [mem_foldl_nest _ (fun i c => ∃ a ∈ ds, ymdSelM dow x.y (i + 1) wdMask a = some c)
    (fun c i z => mem_foldl_assO (ymdSelM dow x.y (i + 1) wdMask) ds c z)]
  apply or_congr Iff.rfl
  constructor
  · rintro ⟨i, hi, dd0, hdd, hs⟩
    obtain ⟨d, hp, hw, he⟩ := (ymdSelM_some _ _ _ _ _ _).1 hs
    have hi' : i < 12 := List.mem_range.mp hi
    have hd := pickDom_ok dd0 _ d (hds dd0 hdd) (getNdom_le _ _) hp
    have hd31 : d ≤ 31 := by have := getNdom_le x.y (i + 1); omega
    obtain ⟨e1, e2⟩ := packCand_inj ⟨hv.1, hv.2.1⟩ h31 (by omega : 1 ≤ i + 1 ∧ i + 1 ≤ 12) hd31 he
    rw [← e1, ← e2] at hp hw
    rw [hwd] at hw
    rw [hx.ndom] at hp
    exact ⟨⟨dd0, hdd, ((pickDom_spec dd0 _ x.d (hds dd0 hdd) hml).1 hp).2.2⟩, hw⟩
  · rintro ⟨⟨n, hn, hc⟩, hw⟩
    refine ⟨x.m - 1, List.mem_range.mpr (by omega), n, hn, ?_⟩
    have e : x.m - 1 + 1 = x.m := by omega
    rw [e]
    refine (ymdSelM_some _ _ _ _ _ _).2 ⟨x.d, ?_, by rw [hwd]; exact hw, rfl⟩
    rw [hx.ndom]
    exact (pickDom_spec n _ x.d (hds n hn) hml).2 ⟨hv.2.2.1, hv.2.2.2, hc⟩

theorem mem_fillMlyYmdAllD_split (cand : List Nat) (y mo wdMask c : Nat) :
    c ∈ fillMlyYmdAllD cand y mo wdMask ↔ c ∈ cand ∨ c ∈ fillMlyYmdAllD [] y mo wdMask := by
  rw [mem_fillMlyYmdAllD, mem_fillMlyYmdAllD]
  simp

/-- all days of month `mo` on the weekdays of `wdMask` (`fill_mly_ymd_all_d`) for a date -/
theorem mem_alld_date (mo wdMask : Nat) (hm : 1 ≤ mo ∧ mo ≤ 12) (x : Inst) (hx : DateIn x) :
    packCand x.m x.d ∈ fillMlyYmdAllD [] x.y mo wdMask ↔
      (mo = x.m ∧ (wdMask = 0 ∨ bit wdMask (wdayOf (dayOf x)) = true)) := by
  have hv := hx.v
  have h31 := hv.d31
  have hm1 := hv.1
  have hm2 := hv.2.1
  have hwdx : wdAdd (ymdGetWday x.y x.m 1) (x.d - 1) = wdayOf (dayOf x) := by rw [hx.wdAdd, hx.dayOf]
  rw [mem_fillMlyYmdAllD]
  constructor
  · rintro (h | ⟨i, hi, hb, he⟩)
    · cases h
    · have hi31 : i + 1 ≤ 31 := by have := getNdom_le x.y mo; omega
      obtain ⟨e1, e2⟩ := packCand_inj ⟨hm1, hm2⟩ h31 hm hi31 he
      subst e1
      have e' : i = x.d - 1 := by omega
      rw [e', hwdx] at hb
      exact ⟨rfl, hb⟩
  · rintro ⟨e, hb⟩
    subst e
    right
    refine ⟨x.d - 1, by rw [hx.ndom]; have := hv.2.2.1; have := hv.2.2.2; omega, by rw [hwdx]; exact hb, ?_⟩
    have := hv.2.2.1
    have e : x.d - 1 + 1 = x.d := by omega
    rw [e]

/-- all days of the months `ms` on the weekdays of `wdMask` (`fill_yly_ymd_all_d`) for a date -/
theorem mem_yly_ymdAllD_date (cand : List Nat) (ms : List Nat) (wdMask : Nat) (x : Inst) (hx : DateIn x)
    (hms : ∀ m ∈ ms, 1 ≤ m ∧ m ≤ 12) :
    packCand x.m x.d ∈ fillYlyYmdAllD cand x.y ms wdMask ↔ packCand x.m x.d ∈ cand ∨
      (x.m ∈ ms ∧ (wdMask = 0 ∨ bit wdMask (wdayOf (dayOf x)) = true)) := by
  unfold fillYlyYmdAllD
  rw [mem_foldl_nest _ (fun m c => c ∈ fillMlyYmdAllD [] x.y m wdMask)
    (fun c m z => mem_fillMlyYmdAllD_split c x.y m wdMask z)]
  apply or_congr Iff.rfl
  constructor
  · rintro ⟨m, hm, h⟩
    obtain ⟨e, hb⟩ := (mem_alld_date m wdMask (hms m hm) x hx).1 h
    subst e
    exact ⟨hm, hb⟩
  · rintro ⟨hm, hb⟩
    exact ⟨x.m, hm, (mem_alld_date x.m wdMask (hms x.m hm) x hx).2 ⟨rfl, hb⟩⟩

/-- `fill_yly_md_all` is `fill_yly_ymd_all_d` when there are plain weekdays -/
theorem fillYlyMdAll_eq (c : List Nat) (y : Nat) (ms : List Nat) (wdMask : Nat) :
    fillYlyMdAll c y ms wdMask = if wdMask >>> 1 = 0 then c else fillYlyYmdAllD c y ms wdMask := by
  unfold fillYlyMdAll
  by_cases h : wdMask >>> 1 = 0
  · rw [if_pos h, if_pos h]
  · rw [if_neg h, if_neg h]
    have hw : wdMask ≠ 0 := by intro e; rw [e] at h; exact h rfl
    unfold fillYlyYmdAllD
    congr 1
    funext c m
    unfold fillMlyYmdAllD
    dsimp only
    congr 2
    funext st i
    obtain ⟨c', w⟩ := st
    dsimp only
    cases hb : bit wdMask w with
    | true => simp
    | false => simp [hw]

theorem mem_yly_mdAll_date (cand : List Nat) (ms : List Nat) (wdMask : Nat) (x : Inst) (hx : DateIn x)
    (hms : ∀ m ∈ ms, 1 ≤ m ∧ m ≤ 12) :
    packCand x.m x.d ∈ fillYlyMdAll cand x.y ms wdMask ↔ packCand x.m x.d ∈ cand ∨
      (wdMask >>> 1 ≠ 0 ∧ x.m ∈ ms ∧ bit wdMask (wdayOf (dayOf x)) = true) := by
  rw [fillYlyMdAll_eq]
  by_cases h : wdMask >>> 1 = 0
  · rw [if_pos h]; simp [h]
  · rw [if_neg h, mem_yly_ymdAllD_date cand ms wdMask x hx hms]
    have hw : wdMask ≠ 0 := by intro e; rw [e] at h; exact h rfl
    apply or_congr Iff.rfl
    constructor
    · rintro ⟨h1, h2 | h2⟩
      · exact absurd h2 hw
      · exact ⟨h, h1, h2⟩
    · rintro ⟨_, h1, h2⟩; exact ⟨h1, Or.inr h2⟩

theorem mem_fillMlyYmcw_split (cand : List Nat) (y m : Nat) (dow : List Int) (c : Nat) :
    c ∈ fillMlyYmcw cand y m dow ↔ c ∈ cand ∨ c ∈ fillMlyYmcw [] y m dow := by
  rw [mem_fillMlyYmcw, mem_fillMlyYmcw]
  simp

/-- the counted weekdays of month `mo` (`fill_mly_ymcw`) for a date -/
theorem mem_ymcw_date (mo : Nat) (hmo : 1 ≤ mo ∧ mo ≤ 12) (dow : List Int)
    (hdow : ∀ t ∈ dow, t ≠ 0 ∧ -431 ≤ t ∧ t ≤ 431 ∧ t % 8 ≠ 0) (x : Inst) (hx : DateIn x) :
    packCand x.m x.d ∈ fillMlyYmcw [] x.y mo dow ↔ (mo = x.m ∧ ∃ t ∈ dow, ordOf t ≠ 0 ∧ wdOf t = wdayOf (dayOf x) ∧
      NthWeekday (ordOf t) (days x.y x.m 1) (days x.y x.m (monthLen x.y x.m)) (dayOf x)) := by
  have hv := hx.v
  have h31 := hv.d31
  have hm : 1 ≤ x.m ∧ x.m ≤ 12 := ⟨hv.1, hv.2.1⟩
  have hwdr := wdayOf_range (dayOf x)
  have hwdx : wdAdd (ymdGetWday x.y x.m 1) (x.d - 1) = wdayOf (dayOf x) := by rw [hx.wdAdd, hx.dayOf]
  rw [mem_fillMlyYmcw]
  constructor
  · rintro (h | ⟨t, ht, hc, hd0, he⟩)
    · cases h
    · have hwt := hdow t ht
      have hd := ymcwGetDom_ok x.y mo (t / 8) (t % 8).toNat hmo (by omega) (by omega)
      have hd31 : ymcwGetDom x.y mo (t / 8) (t % 8).toNat ≤ 31 := by have := getNdom_le x.y mo; omega
      obtain ⟨e1, e⟩ := packCand_inj hm h31 hmo hd31 he
      subst e1
      have sp := (ymcwGetDom_spec x.y x.m (t / 8) (t % 8).toNat hm (by omega) (by omega) x.d).1
        ⟨e.symm, by omega⟩
      rw [hwdx, hx.ndom] at sp
      refine ⟨rfl, t, ht, hc, ?_, (nth_month x hx _).2 sp.2.2.2⟩
      unfold wdOf; omega
  · rintro ⟨e, t, ht, hc0, hwt, hn⟩
    subst e
    right
    have hwf := hdow t ht
    have hn' := (nth_month x hx _).1 hn
    have hc0' : t / 8 ≠ 0 := hc0
    have sp := (ymcwGetDom_spec x.y x.m (t / 8) (t % 8).toNat hm (by omega) (by omega) x.d).2 (by
      rw [hwdx, hx.ndom]
      refine ⟨hv.2.2.1, hv.2.2.2, ?_, hn'⟩
      unfold wdOf at hwt; omega)
    exact ⟨t, ht, hc0, by rw [sp.1]; exact sp.2, by rw [sp.1]⟩

/-- the counted weekdays within the months `ms` (`fill_yly_ymcw`) for a date -/
theorem mem_yly_ymcw_date (cand : List Nat) (ms : List Nat) (dow : List Int) (x : Inst) (hx : DateIn x)
    (hms : ∀ m ∈ ms, 1 ≤ m ∧ m ≤ 12) (hdow : ∀ t ∈ dow, t ≠ 0 ∧ -431 ≤ t ∧ t ≤ 431 ∧ t % 8 ≠ 0) :
    packCand x.m x.d ∈ fillYlyYmcw cand x.y dow ms ↔ packCand x.m x.d ∈ cand ∨
      (x.m ∈ ms ∧ ∃ t ∈ dow, ordOf t ≠ 0 ∧ wdOf t = wdayOf (dayOf x) ∧
        NthWeekday (ordOf t) (days x.y x.m 1) (days x.y x.m (monthLen x.y x.m)) (dayOf x)) := by
  unfold fillYlyYmcw
  rw [mem_foldl_nest _ (fun m c => c ∈ fillMlyYmcw [] x.y m dow)
    (fun c m z => mem_fillMlyYmcw_split c x.y m dow z)]
  apply or_congr Iff.rfl
  constructor
  · rintro ⟨m, hm, h⟩
    obtain ⟨e, hb⟩ := (mem_ymcw_date m (hms m hm) dow hdow x hx).1 h
    subst e
    exact ⟨hm, hb⟩
  · rintro ⟨hm, hb⟩
    exact ⟨x.m, hm, (mem_ymcw_date x.m (hms x.m hm) dow hdow x hx).2 ⟨rfl, hb⟩⟩

end Echse.Lemmas.RrCandRfc
