/-
  C01 for the yearly filler, part 1 (layer L2): the date conditions of `YearlyInst` (`YlyDate`), the rules covered
  (`YlySup`), what the filler sets up (`ylyCtx_fields`), and the year's candidate set for a date, taken apart along
  the code's cascade (`ylyCand0_mem`, `ylyCand1_mem`, and `lim_cand` on top: `ylyCand_lim`).
-/
import Echse.Lemmas.RrCandRfc10
import Echse.Lemmas.RrCandRfc7
import Echse.Lemmas.RrCandRfc8
import Echse.Lemmas.RrCandRfc13
namespace Echse.Lemmas.RrYlyRfc
open Echse.Rrule Echse.Instant Echse.Spec.RrOk Echse.Lemmas.RrCandOk Echse.Spec.Rfc Echse.Lemmas.RrRfc
open Echse.Lemmas.RrCandRfc Echse.Lemmas.RrYlyOk Echse.Spec.Cal Echse.Spec.RuleExt Echse.Lemmas.RrMlyRfc

/-- the date conditions of `YearlyInst` -/
def YlyDate (r : Rule) (ds x : Inst) : Prop :=
  monthOk r x ∧ (r.wk = [] ∨ weeknoOk r x) ∧ ydayOk r x ∧ mdayOk r x ∧
  (if r.dow ≠ [] then
     (if r.doy ≠ [] ∨ r.dom ≠ [] then (if r.mon ≠ [] then bydayInMonth r x else bydayInYear r x)
      else if r.wk ≠ [] then bydayLimit r x
      else if r.mon ≠ [] then bydayInMonth r x
      else bydayInYear r x)
   else if r.wk ≠ [] ∧ r.doy = [] ∧ r.dom = [] then wdayOf (dayOf x) = wdayOf (dayOf ds)
   else if r.doy = [] ∧ r.dom = [] ∧ r.wk = [] then (x.d = ds.d ∧ (r.mon ≠ [] ∨ x.m = ds.m))
   else True)

/-- BYDAY has plain weekdays only -/
def Plain (r : Rule) : Prop := ∀ t ∈ r.dow, 1 ≤ t ∧ t ≤ 7

/-- the YEARLY rules covered: no BYEASTER (not in RFC 5545); BYMONTHDAY and BYMONTH as the parser's bit sets hand them
out; ordinals of BYDAY from -53 on (`ycw_get_yday` wraps around at -54); and BYDAY next to BYWEEKNO (without
BYYEARDAY / BYMONTHDAY) has plain weekdays only — RFC 5545 forbids numbered BYDAY entries with BYWEEKNO, the code
skips them there while the specification reads them as plain weekdays -/
structure YlySup (r : Rule) : Prop where
  easter : r.easter = []
  domLen : r.dom.length ≤ 62
  monLen : r.mon.length ≤ 12
  ord : ∀ t ∈ r.dow, -53 ≤ t / 8
  wkPlain : r.wk ≠ [] → r.doy = [] → r.dom = [] → Plain r

theorem isEmpty_iff {α : Type} (l : List α) : l.isEmpty = true ↔ l = [] := List.isEmpty_iff

/-- what the filler sets up -/
theorem ylyCtx_fields (r : Rule) (p : Inst) (nti : Nat) (hs : YlySup r) (hp : WfInst p) :
    (ylyCtxOf r p nti).r = r ∧ (ylyCtxOf r p nti).wdMask = wdMaskOf r.dow ∧
    (ylyCtxOf r p nti).ms = (if r.mon = [] ∧ r.wk = [] ∧ r.dow = [] ∧ r.doy = [] ∧ r.dom = [] then [p.m] else r.mon) ∧
    (ylyCtxOf r p nti).ds = (if r.dom = [] ∧ r.wk = [] ∧ r.dow = [] ∧ r.doy = [] then [(p.d : Int)] else r.dom) ∧
    (ylyCtxOf r p nti).pdow = (if r.dow = [] ∧ r.wk ≠ [] ∧ r.dom = [] ∧ r.doy = [] then
      [(ymdGetWday p.y p.m p.d : Int)] else []) := by
  have hm := hp.month
  have hd := hp.day.1
  have he := hs.easter
  have hwm : wdMaskOf r.dow = 0 ↔ r.dow = [] := by
    constructor
    · intro h; by_cases c : r.dow = []
      · exact c
      · exact absurd h ((wdMask_ne_zero r).2 c)
    · intro h; rw [h]; rfl
  unfold ylyCtxOf
  dsimp only
  rw [List.take_of_length_le hs.domLen, List.take_of_length_le hs.monLen]
  refine ⟨rfl, rfl, ?_, ?_, ?_⟩
  · by_cases c : r.mon = [] ∧ r.wk = [] ∧ r.dow = [] ∧ r.doy = [] ∧ r.dom = []
    · obtain ⟨c1, c2, c3, c4, c5⟩ := c
      simp [c1, c2, c3, c4, c5, he]; omega
    · rw [if_neg c]
      by_cases c1 : r.mon = []
      · have : ¬ (r.wk = [] ∧ r.dow = [] ∧ r.doy = [] ∧ r.dom = []) := fun h => c ⟨c1, h⟩
        simp only [c1, List.isEmpty_nil, List.isEmpty_iff, he, true_and, ne_eq]
        rw [if_neg]; intro h; exact this ⟨h.1.1, h.1.2.1, h.1.2.2.1, h.1.2.2.2⟩
      · simp [c1]
  · by_cases c : r.dom = [] ∧ r.wk = [] ∧ r.dow = [] ∧ r.doy = []
    · obtain ⟨c1, c2, c3, c4⟩ := c
      simp [c1, c2, c3, c4, he]; omega
    · rw [if_neg c]
      by_cases c1 : r.dom = []
      · have : ¬ (r.wk = [] ∧ r.dow = [] ∧ r.doy = []) := fun h => c ⟨c1, h⟩
        simp only [c1, List.isEmpty_nil, List.isEmpty_iff, he, true_and, and_true, ne_eq]
        rw [if_neg]; intro h; exact this ⟨h.1.1, h.1.2.1, h.1.2.2⟩
      · simp [c1]
  · by_cases c : r.dow = [] ∧ r.wk ≠ [] ∧ r.dom = [] ∧ r.doy = []
    · obtain ⟨c1, c2, c4, c5⟩ := c
      have h0 : wdMaskOf ([] : List Int) = 0 := rfl
      simp [c1, c2, c4, c5, he, h0]; omega
    · rw [if_neg c]
      rw [if_neg]
      intro h
      apply c
      obtain ⟨h1, h2, h4, h5, _, _⟩ := h
      have hwk : r.wk ≠ [] := by
        intro e; rw [e] at h2; exact absurd h2 (by decide)
      have hdoy : r.doy = [] := List.isEmpty_iff.mp h5
      have hdow := hwm.1 h1
      by_cases cd : r.dom = []
      · exact ⟨hdow, hwk, cd, hdoy⟩
      · exfalso
        simp [cd] at h4

/-- the BYDAY limit the BYMONTHDAY / BYYEARDAY builders apply (`dow_limit_p`), for the date `x` -/
def DLim (r : Rule) (wdMask : Nat) (x : Inst) (mp : Bool) : Prop :=
  DLimB r.dow wdMask x.y x.m x.d (wdayOf (dayOf x)) mp
/-- … and the one `fill_yly_ymd_all_d` applies (the plain weekdays of `wd_mask`) -/
def WLim0 (wdMask : Nat) (x : Inst) : Prop := wdMask = 0 ∨ bit wdMask (wdayOf (dayOf x)) = true

/-- the year's candidates before `lim_cand`: the first part, the BYYEARDAY part, the BYMONTH / BYMONTHDAY part -/
theorem ylyCand1_mem (c : YlyCtx) (he : c.r.easter = []) (x : Inst) (hx : DateIn x)
    (hms : ∀ m ∈ c.ms, 1 ≤ m ∧ m ≤ 12) (hds : ∀ dd ∈ c.ds, -31 ≤ dd ∧ dd ≤ 31)
    (hdoy : ∀ n ∈ c.r.doy, n ≠ 0 ∧ -366 ≤ n ∧ n ≤ 366) :
    packCand x.m x.d ∈ ylyCand1 c x.y ↔
      (packCand x.m x.d ∈ ylyCand0 c x.y ∨ (YdaySel c.r.doy x ∧ DLim c.r c.wdMask x (decide (c.ms.length > 0)))) ∨
      (if c.ms.length = 0 ∧ c.ds.length = 0 then False
       else if c.ms.length = 0 then MdaySel c.ds x ∧ DLim c.r c.wdMask x false
       else if c.ds.length = 0 then x.m ∈ c.ms ∧ WLim0 c.wdMask x
       else x.m ∈ c.ms ∧ MdaySel c.ds x ∧ DLim c.r c.wdMask x true) := by
  unfold ylyCand1
  dsimp only
  have hee : ¬ ((!c.r.easter.isEmpty) = true) := by rw [he]; decide
  rw [if_neg hee]
  have hyd := mem_yly_yd_date (ylyCand0 c x.y) c.r.doy c.r.dow c.wdMask (decide (c.ms.length > 0)) x hx hdoy
  by_cases c1 : c.ms.length = 0 ∧ c.ds.length = 0
  · rw [if_pos c1, if_pos c1, hyd]; simp [DLim]
  rw [if_neg c1, if_neg c1]
  by_cases c2 : c.ms.length = 0
  · rw [if_pos c2, if_pos c2, mem_yly_ymdAllM_date _ c.ds c.r.dow c.wdMask x hx hds, hyd]; rfl
  rw [if_neg c2, if_neg c2]
  by_cases c3 : c.ds.length = 0
  · rw [if_pos c3, if_pos c3, mem_yly_ymdAllD_date _ c.ms c.wdMask x hx hms, hyd]; rfl
  rw [if_neg c3, if_neg c3, mem_yly_ymd_date _ c.ms c.ds c.r.dow c.wdMask x hx hms hds, hyd]; rfl

/-- the year's candidates: `lim_cand` on top when BYWEEKNO or BYYEARDAY is there -/
theorem ylyCand_lim (c : YlyCtx) (he : c.r.easter = []) (x : Inst) (hx : DateIn x)
    (hwk : ∀ w ∈ c.r.wk, w ≠ 0 ∧ -53 ≤ w ∧ w ≤ 53) :
    packCand x.m x.d ∈ ylyCand c x.y ↔
      (if c.r.wk ≠ [] ∨ c.r.doy ≠ [] then
        packCand x.m x.d ∈ ylyCand1 c x.y ∧ (c.r.mon = [] ∨ x.m ∈ c.r.mon) ∧ (c.r.dom = [] ∨ MdaySel c.r.dom x) ∧
          (c.r.doy = [] ∨ YdaySel c.r.doy x) ∧ (c.r.wk = [] ∨ (PdowOk c.pdow x ∧ weeknoOk { wk := c.r.wk } x))
       else packCand x.m x.d ∈ ylyCand1 c x.y) := by
  rw [ylyCand_eq]
  have e : (c.r.easter.isEmpty = true ∧ ((!c.r.wk.isEmpty) = true ∨ (!c.r.doy.isEmpty) = true)) ↔
      (c.r.wk ≠ [] ∨ c.r.doy ≠ []) := by
    rw [he]
    cases c.r.wk <;> cases c.r.doy <;> simp
  by_cases cc : c.r.wk ≠ [] ∨ c.r.doy ≠ []
  · rw [if_pos (e.2 cc), if_pos cc, limCand_mem _ _ _ _ _ _ x hx hwk]
  · rw [if_neg (fun h => cc (e.1 h)), if_neg cc]

theorem weeknoOk_wk (r : Rule) (x : Inst) : weeknoOk { wk := r.wk } x ↔ weeknoOk r x := Iff.rfl

/-- the plain weekdays of BYDAY, as the builders test them -/
theorem plain_part (r : Rule) (hr : WfRule r) (x : Inst) :
    (wdMaskOf r.dow >>> 1 ≠ 0 ∧ bit (wdMaskOf r.dow) (wdayOf (dayOf x)) = true) ↔
      ∃ t ∈ r.dow, ordOf t = 0 ∧ wdOf t = wdayOf (dayOf x) := by
  have hwdr := wdayOf_range (dayOf x)
  rw [mask_bit_iff r hr _ hwdr]
  constructor
  · intro h; exact h.2
  · intro h
    refine ⟨?_, h⟩
    intro h0
    have hp := (wdMask_shr r).1 h0
    obtain ⟨t, ht, h1, h2⟩ := h
    have hw := hr.dow t ht
    have : t ∈ plainDays r := (mem_plainDays r t).2 ⟨ht, by unfold ordOf at h1; omega, by unfold ordOf at h1; omega⟩
    rw [hp] at this; cases this

theorem plain_and (r : Rule) (hr : WfRule r) (x : Inst) (P : Prop) :
    (wdMaskOf r.dow >>> 1 ≠ 0 ∧ P ∧ bit (wdMaskOf r.dow) (wdayOf (dayOf x)) = true) ↔
      (P ∧ ∃ t ∈ r.dow, ordOf t = 0 ∧ wdOf t = wdayOf (dayOf x)) := by
  rw [← plain_part r hr x]
  constructor
  · rintro ⟨a, b, c⟩; exact ⟨b, a, c⟩
  · rintro ⟨b, a, c⟩; exact ⟨a, b, c⟩

/-- an entry with an ordinal sets bit 0 of the mask -/
theorem counted_bit0 (r : Rule) (_hr : WfRule r) (t : Int) (ht : t ∈ r.dow) (ho : ordOf t ≠ 0) :
    wdMaskOf r.dow % 2 = 1 := by
  apply (wdMask_bit0 r.dow).2
  refine ⟨t, ht, ?_⟩
  unfold ordOf at ho; omega

/-- the first part of the year's candidates (note 2 on page 44 of RFC 5545) for a date -/
theorem ylyCand0_mem (c : YlyCtx) (x : Inst) (hx : DateIn x) (hr : WfRule c.r) (hord : ∀ t ∈ c.r.dow, -53 ≤ t / 8)
    (hms : ∀ m ∈ c.ms, 1 ≤ m ∧ m ≤ 12) (hwm : c.wdMask = wdMaskOf c.r.dow) :
    packCand x.m x.d ∈ ylyCand0 c x.y ↔
      (if c.wdMask ≠ 0 ∧ (c.ds.length ≠ 0 ∨ (!c.r.doy.isEmpty) = true) then False
       else if c.wdMask ≠ 0 ∧ (!c.r.wk.isEmpty) = true then packCand x.m x.d ∈ fillYlyYwd [] x.y c.r.wk c.r.dow
       else if (!c.pdow.isEmpty) = true then packCand x.m x.d ∈ fillYlyYwd [] x.y c.r.wk c.pdow
       else if c.wdMask ≠ 0 ∧ c.ms.length ≠ 0 then x.m ∈ c.ms ∧ bydayInMonth c.r x
       else if c.wdMask ≠ 0 then bydayInYear c.r x
       else False) := by
  have hdow : ∀ t ∈ c.r.dow, t ≠ 0 ∧ -431 ≤ t ∧ t ≤ 431 ∧ t % 8 ≠ 0 := hr.dow
  unfold ylyCand0
  dsimp only
  by_cases c1 : c.wdMask ≠ 0 ∧ (c.ds.length ≠ 0 ∨ (!c.r.doy.isEmpty) = true)
  · rw [if_pos c1, if_pos c1]; simp
  rw [if_neg c1, if_neg c1]
  by_cases c2 : c.wdMask ≠ 0 ∧ (!c.r.wk.isEmpty) = true
  · rw [if_pos c2, if_pos c2]
  rw [if_neg c2, if_neg c2]
  by_cases c3 : (!c.pdow.isEmpty) = true
  · rw [if_pos c3, if_pos c3]
  rw [if_neg c3, if_neg c3]
  by_cases c4 : c.wdMask ≠ 0 ∧ c.ms.length ≠ 0
  · rw [if_pos c4, if_pos c4, mem_yly_mdAll_date _ c.ms c.wdMask x hx hms, hwm, plain_and c.r hr x]
    unfold bydayInMonth
    constructor
    · rintro (h | ⟨hm, t, ht, h1, h2⟩)
      · by_cases cb : wdMaskOf c.r.dow % 2 = 1
        · rw [if_pos cb, mem_yly_ymcw_date [] c.ms c.r.dow x hx hms hdow] at h
          rcases h with h | ⟨hm, t, ht, h1, h2, h3⟩
          · cases h
          · exact ⟨hm, t, ht, h2, Or.inr h3⟩
        · rw [if_neg cb] at h; cases h
      · exact ⟨hm, t, ht, h2, Or.inl h1⟩
    · rintro ⟨hm, t, ht, h2, h1 | h3⟩
      · exact Or.inr ⟨hm, t, ht, h1, h2⟩
      · left
        have ho : ordOf t ≠ 0 := by
          intro e; rw [e] at h3; unfold NthWeekday at h3; omega
        rw [if_pos (counted_bit0 c.r hr t ht ho), mem_yly_ymcw_date [] c.ms c.r.dow x hx hms hdow]
        exact Or.inr ⟨hm, t, ht, ho, h2, h3⟩
  rw [if_neg c4, if_neg c4]
  by_cases c5 : c.wdMask ≠ 0
  · rw [if_pos c5, if_pos c5, mem_ydall_date _ c.wdMask x hx, hwm, plain_part c.r hr x]
    unfold bydayInYear
    constructor
    · rintro (h | ⟨t, ht, h1, h2⟩)
      · by_cases cb : wdMaskOf c.r.dow % 2 = 1
        · rw [if_pos cb, mem_ycw_date c.r hr hord x hx] at h
          obtain ⟨t, ht, h1, h2, h3⟩ := h
          exact ⟨t, ht, h2, Or.inr h3⟩
        · rw [if_neg cb] at h; cases h
      · exact ⟨t, ht, h2, Or.inl h1⟩
    · rintro ⟨t, ht, h2, h1 | h3⟩
      · exact Or.inr ⟨t, ht, h1, h2⟩
      · left
        have ho : ordOf t ≠ 0 := by
          intro e; rw [e] at h3; unfold NthWeekday at h3; omega
        rw [if_pos (counted_bit0 c.r hr t ht ho), mem_ycw_date c.r hr hord x hx]
        exact ⟨t, ht, ho, h2, h3⟩
  · rw [if_neg c5, if_neg c5]; simp

/-! ### the limits in the specification's words -/

theorem dlim_iff (r : Rule) (hr : WfRule r) (hord : ∀ t ∈ r.dow, -53 ≤ t / 8) (x : Inst) (hx : DateIn x) (mp : Bool) :
    DLim r (wdMaskOf r.dow) x mp ↔ (r.dow = [] ∨ (if mp = true then bydayInMonth r x else bydayInYear r x)) := by
  unfold DLim
  cases mp with
  | true => simp only [if_true]; exact dlim_month r hr x hx
  | false => simp only [Bool.false_eq_true, if_false]; exact dlim_year r hr hord x hx

/-- the plain weekdays as a limit within a month -/
theorem wlim0_month (r : Rule) (hr : WfRule r) (x : Inst) (h : WLim0 (wdMaskOf r.dow) x) :
    r.dow = [] ∨ bydayInMonth r x := by
  have hwdr := wdayOf_range (dayOf x)
  rcases h with h | h
  · left
    apply Classical.byContradiction; intro c
    exact (wdMask_ne_zero r).2 c h
  · obtain ⟨t, ht, a1, a2⟩ := (mask_bit_iff r hr _ hwdr).1 h
    exact Or.inr ⟨t, ht, a2, Or.inl a1⟩

theorem wlim0_plain (r : Rule) (hr : WfRule r) (hpl : Plain r) (x : Inst) :
    WLim0 (wdMaskOf r.dow) x ↔ (r.dow = [] ∨ bydayLimit r x) := by
  have hwdr := wdayOf_range (dayOf x)
  unfold WLim0 bydayLimit
  rw [mask_bit_iff r hr _ hwdr]
  constructor
  · rintro (h | ⟨t, ht, _, h2⟩)
    · left
      apply Classical.byContradiction; intro c
      exact (wdMask_ne_zero r).2 c h
    · exact Or.inr ⟨t, ht, h2⟩
  · rintro (h | ⟨t, ht, h2⟩)
    · left; rw [h]; rfl
    · right
      have := hpl t ht
      exact ⟨t, ht, by unfold ordOf; omega, h2⟩

theorem mdaySel_iff (r : Rule) (x : Inst) (h : r.dom ≠ []) : MdaySel r.dom x ↔ mdayOk r x := by
  unfold MdaySel mdayOk; simp [h]

theorem ydaySel_iff (r : Rule) (x : Inst) (h : r.doy ≠ []) : YdaySel r.doy x ↔ ydayOk r x := by
  unfold YdaySel ydayOk; simp [h]

theorem mdaySel_seed (p x : Inst) (hp : 1 ≤ p.d) : MdaySel [(p.d : Int)] x ↔ x.d = p.d := by
  unfold MdaySel
  simp only [List.mem_singleton, exists_eq_left]
  omega

theorem ydaySel_nil (x : Inst) : ¬ YdaySel [] x := by
  unfold YdaySel; simp

/-- BYDAY as a limit with plain weekdays only, as `fill_yly_ywd` reads it -/
theorem ywd_limit (r : Rule) (hpl : Plain r) (x : Inst) :
    (∃ dc ∈ r.dow, 1 ≤ dc ∧ dc ≤ 7 ∧ (wdayOf (dayOf x) : Int) = dc) ↔ bydayLimit r x := by
  unfold bydayLimit wdOf
  constructor
  · rintro ⟨t, ht, h1, h2, h3⟩; exact ⟨t, ht, by omega⟩
  · rintro ⟨t, ht, h⟩
    have := hpl t ht
    exact ⟨t, ht, this.1, this.2, by omega⟩

end Echse.Lemmas.RrYlyRfc
