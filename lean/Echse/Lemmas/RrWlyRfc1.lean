/-
  C01 for the weekly filler, part 1: the week loop `wlyWeek` walks the day offsets `offs` (the partial sums of the
  nibbles of `wd_incs`); what it writes (`wlyWeek_sound`).
-/
import Echse.Lemmas.RrRfcBase5
namespace Echse.Lemmas.RrRfc
open Echse.Rrule Echse.Instant Echse.Spec.RrOk Echse.Spec.Cal Echse.Spec.RuleExt Echse.Spec.Rfc
open Echse.Lemmas.RrOkBase

/-- the day offsets the week loop visits from offset `D` on, by the nibbles of `incs` -/
def offs : Nat → Nat → Nat → List Nat
  | 0, _, _ => []
  | f+1, incs, D => (D + incs % 16) :: (if incs / 16 ≠ 0 then offs f (incs / 16) (D + incs % 16) else [])

theorem offs_wdIncs : ∀ w < 128, 1 ≤ w → offs 8 (wdIncsLoop 8 w 0 0 0) 0 = (List.range 7).filter (fun i => bit w i) := by
  decide

theorem offs_zero : offs 8 0 0 = [0] := by decide

/-- the month of the day `D` counted from the start of the month `y-m` (at most one month on) -/
def monOf (y m D : Nat) : Nat := if D > getNdom y m then nxM m else m

theorem monOf_carry {y m D y2 m2 d2 : Nat} (hc : Carry y m D y2 m2 d2) (h1 : 1 ≤ m) (h2 : m ≤ 12)
    (hD : D ≤ getNdom y m + 28) : m2 = monOf y m D := by
  unfold monOf
  cases hc with
  | done h => rw [if_neg (by omega)]
  | step hd hc' =>
    rw [if_pos hd]
    have hn := nxM_range m h1 h2
    have hb := ndom_bounds (nxY y m) (nxM m) hn.1 hn.2
    cases hc' with
    | done _ => rfl
    | step hd' _ => omega

/-- is the day `D` of the week in a month of BYMONTH -/
def selD (c : WlyCtx) (y m D : Nat) : Bool := bit c.mMask (monOf y m D)

/-- the number of days of `l` up to `D` that are in a month of BYMONTH: the loop's `nday` when it works on day `D` -/
def ndAt (c : WlyCtx) (y m : Nat) (l : List Nat) (D : Nat) : Nat := l.countP (fun b => decide (b ≤ D) && selD c y m b)

theorem ndAt_cons_head (c : WlyCtx) (y m Dc : Nat) (rest : List Nat) (h : ∀ b ∈ rest, Dc < b) :
    ndAt c y m (Dc :: rest) Dc = (if selD c y m Dc then 1 else 0) := by
  unfold ndAt
  rw [List.countP_cons]
  have : rest.countP (fun b => decide (b ≤ Dc) && selD c y m b) = 0 := by
    rw [List.countP_eq_zero]
    intro b hb
    have := h b hb
    simp only [Bool.and_eq_true, decide_eq_true_eq, not_and]
    intro hle; omega
  rw [this]
  simp

theorem ndAt_cons_tail (c : WlyCtx) (y m Dc D : Nat) (rest : List Nat) (h : Dc ≤ D) :
    ndAt c y m (Dc :: rest) D = (if selD c y m Dc then 1 else 0) + ndAt c y m rest D := by
  unfold ndAt
  rw [List.countP_cons]
  simp only [h, decide_true, Bool.true_and]
  omega
theorem offs_ge : ∀ (f incs D D' : Nat), D' ∈ offs f incs D → D + incs % 16 ≤ D' := by
  intro f
  induction f with
  | zero => intro incs D D' h; cases h
  | succ f ih =>
    intro incs D D' h
    unfold offs at h
    rcases List.mem_cons.1 h with h | h
    · omega
    · split at h
      · have := ih _ _ _ h; omega
      · cases h

theorem nday_step (b : Bool) (nday : Nat) : (if b = true then nday + 1 else nday) = nday + (if b = true then 1 else 0) := by
  cases b <;> simp

/-- the bookkeeping of `nday` along the nibbles: at the day the loop works on, and for the days still to come -/
theorem ndAt_offs (c : WlyCtx) {y m d : Nat} (hv : VD y m d) (f incs D b nday y2 m2 d2 : Nat)
    (hnib : nibOk (f + 1) incs b = true) (hDb : D + b ≤ d + 6)
    (hc3 : Carry y m (D + incs % 16) y2 m2 d2) :
    (if bit c.mMask m2 = true then nday + 1 else nday) = nday + ndAt c y m (offs (f + 1) incs D) (D + incs % 16) ∧
    (incs / 16 ≠ 0 → ∀ D' ∈ offs f (incs / 16) (D + incs % 16),
      (if bit c.mMask m2 = true then nday + 1 else nday) + ndAt c y m (offs f (incs / 16) (D + incs % 16)) D' =
        nday + ndAt c y m (offs (f + 1) incs D) D') := by
  obtain ⟨hn1, hn2⟩ := nibOk_succ hnib
  have hd := hv.2.2.2
  have hm2 : m2 = monOf y m (D + incs % 16) := monOf_carry hc3 hv.1 hv.2.1 (by omega)
  have hsel : selD c y m (D + incs % 16) = bit c.mMask m2 := by unfold selD; rw [hm2]
  rw [nday_step]
  constructor
  · unfold offs
    rw [ndAt_cons_head, hsel]
    intro b' hb'
    split at hb'
    · rename_i c0
      have := offs_ge _ _ _ _ hb'
      have := (hn2 c0).1
      omega
    · cases hb'
  · intro c0 D' hD'
    have hge := offs_ge _ _ _ _ hD'
    rw [show offs (f + 1) incs D = (D + incs % 16) :: offs f (incs / 16) (D + incs % 16) by
      rw [offs]; rw [if_pos c0]]
    rw [ndAt_cons_tail c y m _ D' _ (by omega), hsel]
    omega

def wlyDay (c : WlyCtx) (nset nday ty tm td : Nat) (res : List Inst) : List Inst × Bool :=
  genEnum c.r c.proto c.nti (!bit c.mMask tm) (wlySkip c nset (if bit c.mMask tm then nday + 1 else nday)) ty tm td
    c.e.timesIx res

theorem wlyWeek_succ (c : WlyCtx) (nset fuel incs ty tm td tmaxd nday : Nat) (res : List Inst) :
    wlyWeek c nset (fuel + 1) incs ty tm td tmaxd nday res =
      match carryMon ((td + incs % 16) % u32 + 1) ty tm ((td + incs % 16) % u32) tmaxd with
      | none => none
      | some none => some (res, true)
      | some (some (ty, tm, td, tmaxd)) =>
        if ty > wlyDlyMaxYear then some (res, true) else
        if (wlyDay c nset nday ty tm td res).2 then some ((wlyDay c nset nday ty tm td res).1, true) else
        if incs / 16 ≠ 0 ∧ (wlyDay c nset nday ty tm td res).1.length < c.nti then
          wlyWeek c nset fuel (incs / 16) ty tm td tmaxd (if bit c.mMask tm then nday + 1 else nday)
            (wlyDay c nset nday ty tm td res).1
        else some ((wlyDay c nset nday ty tm td res).1, false) := by
  unfold wlyDay
  simp only [← wlyEnum_eq]
  rfl

theorem wlyWeek_subset (c : WlyCtx) (nset : Nat) : ∀ (fuel incs ty tm td tmaxd nday : Nat) (res : List Inst)
    (out : List Inst × Bool), wlyWeek c nset fuel incs ty tm td tmaxd nday res = some out → ∀ z ∈ res, z ∈ out.1 := by
  intro fuel
  induction fuel with
  | zero => intro incs ty tm td tmaxd nday res out h; cases h
  | succ f ih =>
    intro incs ty tm td tmaxd nday res out h z hz
    rw [wlyWeek_succ] at h
    split at h
    · cases h
    · cases h; exact hz
    · rename_i ty2 tm2 td2 tmaxd2 _
      have hz' : z ∈ (wlyDay c nset nday ty2 tm2 td2 res).1 := genEnum_subset _ _ _ _ _ _ _ _ _ _ z hz
      split at h
      · cases h; exact hz
      · split at h
        · cases h; exact hz'
        · split at h
          · exact ih _ _ _ _ _ _ _ _ h z hz'
          · cases h; exact hz'

/-- what one week writes: every member is of a day `D ∈ offs …` (an offset into the month `y-m`), whose month is in
BYMONTH, and of a time of the enumeration that was not skipped -/
theorem wlyWeek_sound (c : WlyCtx) (hp : WfInst c.proto) (he : EnumOk c.e) (nset : Nat) (Q : Inst → Prop) {y m d : Nat}
    (hv : VD y m d) (hy : y ≤ 13000000) :
    ∀ (fuel incs D ty tm td nday : Nat) (res : List Inst) (b : Nat) (out : List Inst × Bool),
      nibOk fuel incs b = true → D + b ≤ d + 6 → d ≤ D → Carry y m D ty tm td →
      (∀ D' ∈ offs fuel incs D, ∀ (ty tm td : Nat), Carry y m D' ty tm td → ty ≤ 2099 → bit c.mMask tm = true →
        ∀ t ∈ c.e.timesIx, wlySkip c nset (nday + ndAt c y m (offs fuel incs D) D') t.1 = false →
        ltP ⟨ty, tm, td, t.2.1, t.2.2.1, t.2.2.2, c.proto.ms⟩ c.proto = false →
        ltP c.r.untl ⟨ty, tm, td, t.2.1, t.2.2.1, t.2.2.2, c.proto.ms⟩ = false →
        Q ⟨ty, tm, td, t.2.1, t.2.2.1, t.2.2.2, c.proto.ms⟩) →
      (∀ z ∈ res, Q z) → wlyWeek c nset fuel incs ty tm td (getNdom ty tm) nday res = some out → ∀ z ∈ out.1, Q z := by
  intro fuel
  induction fuel with
  | zero => intro incs D ty tm td nday res b out h; simp [nibOk] at h
  | succ f ih =>
    intro incs D ty tm td nday res b out hnib hDb hdD hc hQ hres h
    obtain ⟨hn1, hn2⟩ := nibOk_succ hnib
    have hd31 := hv.d31
    have hm12 := hv.2.1
    have hd1 := hv.2.2.1
    obtain ⟨hvt, hpot, -, -⟩ := hc.props hv.1 hv.2.1 (by omega)
    have ht31 := hvt.d31
    have htm := hvt.2.1
    rw [wlyWeek_succ] at h
    have e1 : (td + incs % 16) % u32 = td + incs % 16 := by unfold u32; omega
    rw [e1] at h
    obtain ⟨y2, m2, d2, hcm, hc2⟩ := carryMon_spec (td + incs % 16 + 1) ty tm (td + incs % 16) hvt.1 hvt.2.1
      (by omega) (by unfold pot at hpot ⊢; omega)
    rw [hcm] at h
    simp only at h
    have hc3 := hc.comp (incs % 16) y2 m2 d2 hc2
    obtain ⟨hv2, -, -, -⟩ := hc3.props hv.1 hv.2.1 (by omega)
    obtain ⟨hnd1, hnd2⟩ := ndAt_offs c hv f incs D b nday y2 m2 d2 hnib hDb hc3
    split at h
    · cases h; exact hres
    · rename_i c1
      have hy99 : y2 ≤ 2099 := by unfold wlyDlyMaxYear at c1; omega
      have hmem0 : D + incs % 16 ∈ offs (f + 1) incs D := by unfold offs; exact List.mem_cons_self
      have hday : ∀ z ∈ (wlyDay c nset nday y2 m2 d2 res).1, Q z := by
        intro z hz
        rcases genEnum_mem c.r c.proto c.nti _ _ hp hv2 hy99 c.e.timesIx res (fun t ht => timesIx_good he ht) z hz
          with a | ⟨hb, t, ht, hs, hz, hge, hle⟩
        · exact hres z a
        · rw [hz] at hge hle ⊢
          rw [hnd1] at hs
          exact hQ _ hmem0 y2 m2 d2 hc3 hy99 (by simpa using hb) t ht hs hge hle
      split at h
      · cases h; exact hday
      · split at h
        · rename_i c3
          obtain ⟨hn3, hn4⟩ := hn2 c3.1
          refine ih (incs / 16) (D + incs % 16) y2 m2 d2 _ _ (b - incs % 16) out hn4 (by omega) (by omega) hc3 ?_ hday h
          intro D' hD' ty' tm' td' hcd hty' hbit' t ht hsk
          rw [hnd2 c3.1 D' hD'] at hsk
          refine hQ D' ?_ ty' tm' td' hcd hty' hbit' t ht hsk
          unfold offs
          rw [if_pos c3.1]
          exact List.mem_cons_of_mem _ hD'
        · cases h; exact hday

end Echse.Lemmas.RrRfc
