/-
  C01, sub-daily fillers: the ENUM loops of the hourly and minutely fillers in one shape (`gEnum`): what they write,
  and that they miss nothing.
-/
import Echse.Lemmas.RrSubRfc4
namespace Echse.Lemmas.RrSubRfc
open Echse.Rrule Echse.Instant Echse.Spec.RrOk Echse.Lemmas.RrSubOk Echse.Spec.Rfc Echse.Spec.Cal Echse.Spec.RuleExt

/-! ### the ENUM loops of the hourly and minutely fillers, in one shape -/

/-- `for (ENUM…; res < nti && …; …) { x = …; if (x < proto) continue; if (until < x) goto fin; if (!pos_pick_p(…)) continue;
tgt[res++] = x; }` over the entries `ts`, with `mk t` the instant of entry `t` and `pick t` its BYSETPOS test -/
def gEnum {α : Type} (nti : Nat) (proto untl : Inst) (mk : α → Inst) (pick : α → Bool) :
    List α → Nat → List Inst → Nat × List Inst × Bool
  | [], cnt, acc => (cnt, acc, false)
  | t :: rest, cnt, acc =>
    if ¬ cnt < nti then (cnt, acc, false) else
    if ltP (mk t) proto then gEnum nti proto untl mk pick rest cnt acc
    else if ltP untl (mk t) then (cnt, acc, true)
    else if !pick t then gEnum nti proto untl mk pick rest cnt acc
    else gEnum nti proto untl mk pick rest (cnt + 1) (mk t :: acc)

section
variable {α : Type} (nti : Nat) (proto untl : Inst) (mk : α → Inst) (pick : α → Bool)

theorem gEnum_mono : ∀ (ts : List α) (cnt : Nat) (acc : List Inst),
    ∀ z ∈ acc, z ∈ (gEnum nti proto untl mk pick ts cnt acc).2.1 := by
  intro ts
  induction ts with
  | nil => intro cnt acc z hz; exact hz
  | cons t rest ih =>
    intro cnt acc z hz
    simp only [gEnum]
    split
    · exact hz
    split
    · exact ih _ _ z hz
    split
    · exact hz
    split
    · exact ih _ _ z hz
    · exact ih _ _ z (List.mem_cons_of_mem _ hz)

/-- what is written comes from an entry at or after the seed that BYSETPOS picks -/
theorem gEnum_sound : ∀ (ts : List α) (cnt : Nat) (acc : List Inst),
    ∀ z ∈ (gEnum nti proto untl mk pick ts cnt acc).2.1,
      z ∈ acc ∨ ∃ t ∈ ts, z = mk t ∧ ltP z proto = false ∧ pick t = true := by
  intro ts
  induction ts with
  | nil => intro cnt acc z hz; exact Or.inl hz
  | cons t rest ih =>
    intro cnt acc z hz
    simp only [gEnum] at hz
    have lift : (z ∈ acc ∨ ∃ u ∈ rest, z = mk u ∧ ltP z proto = false ∧ pick u = true) →
        (z ∈ acc ∨ ∃ u ∈ t :: rest, z = mk u ∧ ltP z proto = false ∧ pick u = true) := by
      rintro (h | ⟨u, hu, h⟩)
      · exact Or.inl h
      · exact Or.inr ⟨u, List.mem_cons_of_mem _ hu, h⟩
    split at hz
    · exact Or.inl hz
    split at hz
    · exact lift (ih _ _ z hz)
    split at hz
    · exact Or.inl hz
    split at hz
    · exact lift (ih _ _ z hz)
    · rename_i h1 _ h3
      rcases ih _ _ z hz with h | ⟨u, hu, h⟩
      · rcases List.mem_cons.mp h with e | e
        · exact Or.inr ⟨t, by simp, e, by rw [e]; simpa using h1, by simpa using h3⟩
        · exact Or.inl e
      · exact Or.inr ⟨u, List.mem_cons_of_mem _ hu, h⟩

/-- none missing: entries come in ascending order of `key`; the instant looked for has key `sx` (or lies beyond all
entries, `B ≤ sx`) -/
theorem gEnum_complete (key : α → Nat) (B sx : Nat) (x : Inst) (hxu : ltP untl x = false) (hxp : ltP x proto = false) :
    ∀ (ts : List α) (cnt : Nat) (acc : List Inst), ts.Pairwise (fun a b => key a < key b) →
      (∀ t ∈ ts, key t < B) → (∀ t ∈ ts, key t < sx → bk (mk t) < bk x) →
      (∀ t ∈ ts, key t = sx → mk t = x ∧ pick t = true) → (B ≤ sx ∨ ∃ t ∈ ts, key t = sx) →
      acc.length = cnt → cnt ≤ nti → (∀ z ∈ acc, ltP z x = true) →
      x ∈ (gEnum nti proto untl mk pick ts cnt acc).2.1 ∨
      ((gEnum nti proto untl mk pick ts cnt acc).2.2 = false ∧
        (gEnum nti proto untl mk pick ts cnt acc).2.1.length = (gEnum nti proto untl mk pick ts cnt acc).1 ∧
        (gEnum nti proto untl mk pick ts cnt acc).1 ≤ nti ∧
        (∀ z ∈ (gEnum nti proto untl mk pick ts cnt acc).2.1, ltP z x = true) ∧
        ((gEnum nti proto untl mk pick ts cnt acc).1 = nti ∨ B ≤ sx)) := by
  intro ts
  induction ts with
  | nil =>
    intro cnt acc _ _ _ _ hin hlen hcnt hbef
    rcases hin with h | ⟨t, ht, _⟩
    · exact Or.inr ⟨rfl, hlen, hcnt, hbef, Or.inr h⟩
    · cases ht
  | cons t rest ih =>
    intro cnt acc hpw hB hlt heq hin hlen hcnt hbef
    have hpw' := List.pairwise_cons.mp hpw
    simp only [gEnum]
    by_cases h0 : ¬ cnt < nti
    · rw [if_pos h0]
      exact Or.inr ⟨rfl, hlen, hcnt, hbef, Or.inl (by omega)⟩
    rw [if_neg h0]
    have hB' : ∀ u ∈ rest, key u < B := fun u hu => hB u (List.mem_cons_of_mem _ hu)
    have hlt' : ∀ u ∈ rest, key u < sx → bk (mk u) < bk x := fun u hu => hlt u (List.mem_cons_of_mem _ hu)
    have heq' : ∀ u ∈ rest, key u = sx → mk u = x ∧ pick u = true := fun u hu => heq u (List.mem_cons_of_mem _ hu)
    have htB := hB t (by simp)
    -- where the head stands
    by_cases hk : key t = sx
    · obtain ⟨e, hp⟩ := heq t (by simp) hk
      rw [e, hxp, hxu, hp]
      simp only [Bool.false_eq_true, if_false, Bool.not_true]
      exact Or.inl (gEnum_mono nti proto untl mk pick rest _ _ x (by simp))
    · have hin' : B ≤ sx ∨ ∃ u ∈ rest, key u = sx := by
        rcases hin with h | ⟨u, hu, hue⟩
        · exact Or.inl h
        · rcases List.mem_cons.mp hu with e | e
          · rw [e] at hue; exact absurd hue hk
          · exact Or.inr ⟨u, e, hue⟩
      have hks : key t < sx := by
        rcases hin' with h | ⟨u, hu, hue⟩
        · omega
        · have := hpw'.1 u hu; omega
      have hb := hlt t (by simp) hks
      by_cases h1 : ltP (mk t) proto = true
      · rw [if_pos h1]; exact ih cnt acc hpw'.2 hB' hlt' heq' hin' hlen hcnt hbef
      rw [if_neg h1]
      by_cases h2 : ltP untl (mk t) = true
      · exfalso
        rw [ltP_eq] at h2 hxu
        have a1 := of_decide_eq_true h2
        have a2 := of_decide_eq_false hxu
        omega
      rw [if_neg h2]
      by_cases h3 : (!pick t) = true
      · rw [if_pos h3]; exact ih cnt acc hpw'.2 hB' hlt' heq' hin' hlen hcnt hbef
      rw [if_neg h3]
      refine ih (cnt + 1) (mk t :: acc) hpw'.2 hB' hlt' heq' hin' (by simp [hlen]) (by omega) ?_
      intro z hz
      rcases List.mem_cons.mp hz with e | e
      · rw [e, ltP_eq]; exact decide_eq_true hb
      · exact hbef z e

end

/-! ### more on the seed -/

theorem seedT_MS (p : Inst) (hp : WfInst p) : (seedT p).M = p.M ∧ (seedT p).S = p.S := by
  by_cases h : p.H = allDay
  · have e : seedT p = { p with H := 0, M := 0, S := 0 } := if_pos h
    rw [e]
    rcases hp.time with ⟨_, h2, h3⟩ | ⟨h1, _, _⟩
    · exact ⟨h2.symm, h3.symm⟩
    · simp only [allDay] at h; omega
  · have e : seedT p = p := if_neg h
    rw [e]; exact ⟨rfl, rfl⟩

/-- an instant at or after the seed (read as 00:00:00 if all-day) is not before it in the fillers' comparison -/
theorem ge_seed (p x : Inst) (hp : WfInst p) (hy1 : 1901 ≤ p.y) (hy2 : p.y ≤ 2099) (hx : VT x) (hms : x.ms = p.ms)
    (h : absOf (seedT p) ≤ absOf x) : ltP x p = false := by
  obtain ⟨hv, tms, ty, tm, td⟩ := seedT_props p hp hy1 hy2
  have h1 := abs_le_bk (seedT p) x hv hx (by rw [tms, hms]) h
  have h2 : bk p ≤ bk (seedT p) := by
    rw [bk_vt _ hv, tms, ty, tm, td]
    rcases bk_wf p hp with ⟨_, e⟩ | ⟨hH, e⟩
    · rw [e]; simp only [ck]; omega
    · have : p.H ≠ allDay := by simp only [allDay]; omega
      rw [seedT_timed p this, e]; exact Nat.le_refl _
  rw [ltP_eq]
  exact decide_eq_false (by omega)

/-- the seconds the minutely and hourly fillers enumerate -/
theorem enum_S (r : Rule) (p : Inst) (hr : WfRule r) (hp : WfInst p) :
    (subEnum p r).S = if r.S = [] then [(seedT p).S] else r.S := by
  have hs := wf_S_lt p hp
  rw [(subEnum_eq r p).2]
  by_cases h : r.S = []
  · rw [if_pos h, h, (seedT_MS p hp).2]
    have : p.S % 256 = p.S := Nat.mod_eq_of_lt (by omega)
    simp [this]
  · rw [if_neg h]
    have : r.S.isEmpty = false := by simpa using h
    rw [this]
    simp only [Bool.false_eq_true, if_false]
    exact map_mod_id r.S hr.secs.2

theorem secExp_iff (r : Rule) (p : Inst) (hr : WfRule r) (hp : WfInst p) (x : Inst) :
    secExp r (seedT p) x ↔ x.S ∈ (subEnum p r).S := by
  rw [enum_S r p hr hp]
  unfold secExp
  by_cases h : r.S = []
  · simp [h]
  · simp [h]

/-- some position is picked if the position of some enumerated entry is -/
theorem posAny_of (poss : List Int) (i n : Nat) (hi : i < n) (h : posPickP poss i n = true) :
    posPickAnyP poss n = true := by
  unfold posPickAnyP
  exact List.any_eq_true.mpr ⟨i, List.mem_range.mpr hi, h⟩

theorem posPick_nil (i n : Nat) : posPickP [] i n = true := rfl

end Echse.Lemmas.RrSubRfc
