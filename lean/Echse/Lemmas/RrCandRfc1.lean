/-
  C01 for the YEARLY / MONTHLY filler models, part 1: the emission of one period read as a fold of a simple step
  (`pstep`) over the list of instants the period offers, and both period loops read as one abstract loop (`aLoop`)
  over such lists.  States are compared up to the position counter `inst` (`Sim`).
-/
import Echse.Lemmas.RrYlyOk
import Echse.Lemmas.RrMlyOk
namespace Echse.Lemmas.RrCandRfc
open Echse.Rrule Echse.Instant Echse.Spec.RrOk Echse.Lemmas.RrCandOk

/-- what the emission does with one instant offered (no SHIFT): nothing once finished or full; UNTIL passed: finish;
before the seed: skip; else write -/
def pstep (k : FillCtx) (st : FillSt) (x : Inst) : FillSt :=
  if st.fin ∨ !(st.res < k.nti) then st
  else if ltP k.untl x then { st with fin := true }
  else if ltP x k.proto then st
  else { st with hit := true, out := x :: st.out, res := st.res + 1 }

/-- equal up to the position counter -/
def Sim (a b : FillSt) : Prop := a.out = b.out ∧ a.res = b.res ∧ a.hit = b.hit ∧ a.fin = b.fin

theorem Sim.rfl' (a : FillSt) : Sim a a := ⟨rfl, rfl, rfl, rfl⟩

theorem Sim.trans {a b c : FillSt} (h1 : Sim a b) (h2 : Sim b c) : Sim a c :=
  ⟨h1.1.trans h2.1, h1.2.1.trans h2.2.1, h1.2.2.1.trans h2.2.2.1, h1.2.2.2.trans h2.2.2.2⟩

theorem Sim.symm {a b : FillSt} (h : Sim a b) : Sim b a := ⟨h.1.symm, h.2.1.symm, h.2.2.1.symm, h.2.2.2.symm⟩

theorem pstep_stop (k : FillCtx) (st : FillSt) (x : Inst) (h : st.fin ∨ !(st.res < k.nti)) : pstep k st x = st := by
  unfold pstep
  exact if_pos h

theorem pstep_sim (k : FillCtx) {a b : FillSt} (h : Sim a b) (x : Inst) : Sim (pstep k a x) (pstep k b x) := by
  obtain ⟨h1, h2, h3, h4⟩ := h
  unfold pstep
  by_cases c1 : a.fin ∨ !(a.res < k.nti)
  · have c1' : b.fin ∨ !(b.res < k.nti) := by rw [← h2, ← h4]; exact c1
    rw [if_pos c1, if_pos c1']; exact ⟨h1, h2, h3, h4⟩
  · have c1' : ¬ (b.fin ∨ !(b.res < k.nti)) := by rw [← h2, ← h4]; exact c1
    rw [if_neg c1, if_neg c1']
    by_cases c2 : ltP k.untl x = true
    · rw [if_pos c2, if_pos c2]; exact ⟨h1, h2, h3, rfl⟩
    · rw [if_neg c2, if_neg c2]
      by_cases c3 : ltP x k.proto = true
      · rw [if_pos c3, if_pos c3]; exact ⟨h1, h2, h3, h4⟩
      · rw [if_neg c3, if_neg c3]
        refine ⟨?_, ?_, rfl, h4⟩
        · show x :: a.out = x :: b.out
          rw [h1]
        · show a.res + 1 = b.res + 1
          rw [h2]

theorem foldl_pstep_sim (k : FillCtx) (E : List Inst) {a b : FillSt} (h : Sim a b) :
    Sim (E.foldl (pstep k) a) (E.foldl (pstep k) b) := by
  induction E generalizing a b with
  | nil => exact h
  | cons x E ih => exact ih (pstep_sim k h x)

/-- once finished or full nothing changes -/
theorem foldl_pstep_stop (k : FillCtx) (E : List Inst) (st : FillSt) (h : st.fin ∨ !(st.res < k.nti)) :
    E.foldl (pstep k) st = st := by
  induction E with
  | nil => rfl
  | cons x E ih =>
    rw [List.foldl_cons, pstep_stop k st x h]; exact ih

/-- without SHIFT and without position counting the ENUM round is `pstep` -/
theorem emitStep_pstep (k : FillCtx) (ninst yy yd : Nat) (st : FillSt) (t : Nat × Nat × Nat) (hs : k.sh = 0)
    (ht : k.tposp = false) : emitStep k ninst yy yd st t = pstep k st (mkX k yy yd t) := by
  unfold emitStep pstep mkX
  by_cases c1 : st.fin ∨ !(st.res < k.nti)
  · rw [if_pos c1, if_pos c1]
  · rw [if_neg c1, if_neg c1]
    dsimp only
    rw [ht]
    have e : (if false = true then { out := st.out, res := st.res, inst := st.inst + 1, hit := st.hit, fin := st.fin } else st) = st := if_neg (by decide)
    rw [e]
    have e2 : ¬ (false = true ∧ (!possSelP k.pos st.inst st.inst ninst) = true) := fun h => Bool.false_ne_true h.1
    rw [if_neg e2]
    generalize mkInst yy (yd / 32 + 1) (yd % 32) t.1 t.2.1 t.2.2 k.proto.ms = x
    by_cases c2 : ltP k.untl x = true
    · rw [if_pos c2, if_pos c2]
    · rw [if_neg c2, if_neg c2]
      by_cases c3 : ltP x k.proto = true
      · rw [if_pos c3, if_pos c3]
      · rw [if_neg c3, if_neg c3]
        have c4 : ∀ prev : Inst, ¬ (st.res ≠ 0 ∧ k.sh ≠ 0 ∧ (!ltP prev x) = true) := by
          intro prev h; exact h.2.1 hs
        cases ho : st.out with
        | nil => rfl
        | cons prev rest => 
          show (if st.res ≠ 0 ∧ k.sh ≠ 0 ∧ (!ltP prev x) = true then _ else _) = _
          rw [if_neg (c4 prev)]

theorem emitDay_pstep (k : FillCtx) (ninst yy yd : Nat) (st : FillSt) (hs : k.sh = 0) (ht : k.tposp = false) :
    emitDay k ninst yy yd st = (dayE k yy yd).foldl (pstep k) st := by
  rw [emitDay_eq]
  unfold dayE
  rw [List.foldl_map]
  congr 1
  funext st t
  exact emitStep_pstep k ninst yy yd st t hs ht

theorem emitSet_pstep (k : FillCtx) (ninst yy : Nat) (cs : List Nat) (st : FillSt) (hs : k.sh = 0)
    (ht : k.tposp = false) :
    cs.foldl (fun st yd =>
        if st.fin ∨ !(st.res < k.nti) then st
        else if k.tposp ∧ !possSelP k.pos (st.inst + 1) (st.inst + k.nT) ninst then
          { st with inst := st.inst + k.nT }
        else emitDay k ninst yy yd st) st = (setE k yy cs).foldl (pstep k) st := by
  induction cs generalizing st with
  | nil => rfl
  | cons c cs ih =>
    simp only [List.foldl_cons, setE, List.flatMap_cons, List.foldl_append]
    have h1 : (if st.fin ∨ !(st.res < k.nti) then st
        else if k.tposp ∧ !possSelP k.pos (st.inst + 1) (st.inst + k.nT) ninst then
          { st with inst := st.inst + k.nT }
        else emitDay k ninst yy c st) = (dayE k yy c).foldl (pstep k) st := by
      split
      · rename_i h; rw [foldl_pstep_stop k _ st h]
      · have e2 : ¬ (k.tposp = true ∧ (!possSelP k.pos (st.inst + 1) (st.inst + k.nT) ninst) = true) := by
          intro h; rw [ht] at h; exact Bool.false_ne_true h.1
        rw [if_neg e2]
        exact emitDay_pstep k ninst yy c st hs ht
    rw [h1]
    exact ih _

/-- the period's tail without SHIFT and without position counting: BYSETPOS on the days, then a fold of `pstep` -/
theorem finishPeriod_pstep (k : FillCtx) (y : Nat) (cand : List Nat) (st : FillSt) (hs : k.sh = 0)
    (ht : k.tposp = false) :
    finishPeriod k y cand st = (setE k y (clrPoss cand k.pos)).foldl (pstep k) { st with hit := false } := by
  unfold finishPeriod emitPeriod
  have e1 : (if !k.tposp then clrPoss cand k.pos else cand) = clrPoss cand k.pos := by rw [ht]; rfl
  have e2 : (if k.tposp then { st with inst := 0 } else st) = st := by rw [ht]; rfl
  have e3 : shift { same := clrPoss cand k.pos } y k.sh = { same := clrPoss cand k.pos } := by rw [hs]; rfl
  dsimp only
  rw [e1, e2, e3]
  rw [List.foldl_cons, List.foldl_cons, List.foldl_cons, List.foldl_nil]
  show List.foldl _ (List.foldl _ (List.foldl _ _ []) _) [] = _
  rw [List.foldl_nil, List.foldl_nil]
  rw [emitSet_pstep k _ y _ _ hs ht]

/-- the two period loops as one: positions `P`, the period's year, what the period offers, the next position;
`T` is what `tries` is set back to after a hit -/
def aLoop {P : Type} (k : FillCtx) (T : Nat) (yr : P → Nat) (E : P → List Inst) (next : P → P) :
    Nat → P → Nat → FillSt → FillSt
  | 0, _, _, st => st
  | fuel+1, p, tries, st =>
    if !(st.res < k.nti) then st else
    if tries - 1 = 0 then st else
    if yr p > maxYear then st else
    if ((E p).foldl (pstep k) { st with hit := false }).fin then (E p).foldl (pstep k) { st with hit := false } else
    aLoop k T yr E next fuel (next p)
      (if ((E p).foldl (pstep k) { st with hit := false }).hit then T else tries - 1)
      ((E p).foldl (pstep k) { st with hit := false })

theorem mlyLoop_sim (c : MlyCtx) (E : Nat × Int → List Inst)
    (hE : ∀ (y : Nat) (m : Int) (a b : FillSt), Sim a b →
      Sim (finishPeriod c.k y (mlyCand c y (toU32 m)) a) ((E (y, m)).foldl (pstep c.k) { b with hit := false })) :
    ∀ (fuel y : Nat) (m : Int) (tries : Nat) (a b : FillSt), Sim a b →
      Sim (mlyLoop c fuel y m tries a)
        (aLoop c.k mlyTries (fun p => p.1) E (fun p => mlyNext c.r.mon c.r.inter 12 p.1 p.2) fuel (y, m) tries b) := by
  intro fuel
  induction fuel with
  | zero => intro y m tries a b h; exact h
  | succ fuel ih =>
    intro y m tries a b h
    unfold mlyLoop aLoop
    have hres : a.res = b.res := h.2.1
    rw [hres]
    by_cases c1 : (!decide (b.res < c.k.nti)) = true
    · rw [if_pos c1, if_pos c1]; exact h
    rw [if_neg c1, if_neg c1]
    dsimp only
    by_cases c2 : tries - 1 = 0
    · rw [if_pos c2, if_pos c2]; exact h
    rw [if_neg c2, if_neg c2]
    by_cases c3 : y > maxYear
    · rw [if_pos c3, if_pos c3]; exact h
    rw [if_neg c3, if_neg c3]
    have hs := hE y m a b h
    generalize finishPeriod c.k y (mlyCand c y (toU32 m)) a = a' at hs
    generalize (E (y, m)).foldl (pstep c.k) { b with hit := false } = b' at hs
    have hfin : a'.fin = b'.fin := hs.2.2.2
    have hhit : a'.hit = b'.hit := hs.2.2.1
    rw [hfin, hhit]
    by_cases c4 : b'.fin = true
    · rw [if_pos c4, if_pos c4]; exact hs
    rw [if_neg c4, if_neg c4]
    exact ih _ _ _ _ _ hs

theorem ylyLoop_sim (c : YlyCtx) (E : Nat → List Inst)
    (hE : ∀ (y : Nat) (a b : FillSt), Sim a b →
      Sim (finishPeriod c.k y (ylyCand c y) a) ((E y).foldl (pstep c.k) { b with hit := false })) :
    ∀ (fuel y : Nat) (tries : Nat) (a b : FillSt), Sim a b →
      Sim (ylyLoop c fuel y tries a)
        (aLoop c.k 64 (fun p => p) E (fun p => (p + c.r.inter) % u32) fuel y tries b) := by
  intro fuel
  induction fuel with
  | zero => intro y tries a b h; exact h
  | succ fuel ih =>
    intro y tries a b h
    unfold ylyLoop aLoop
    have hres : a.res = b.res := h.2.1
    rw [hres]
    by_cases c1 : (!decide (b.res < c.k.nti)) = true
    · rw [if_pos c1, if_pos c1]; exact h
    rw [if_neg c1, if_neg c1]
    dsimp only
    by_cases c2 : tries - 1 = 0
    · rw [if_pos c2, if_pos c2]; exact h
    rw [if_neg c2, if_neg c2]
    by_cases c3 : y > maxYear
    · rw [if_pos c3, if_pos c3]; exact h
    rw [if_neg c3, if_neg c3]
    have hs := hE y a b h
    generalize finishPeriod c.k y (ylyCand c y) a = a' at hs
    generalize (E y).foldl (pstep c.k) { b with hit := false } = b' at hs
    have hfin : a'.fin = b'.fin := hs.2.2.2
    have hhit : a'.hit = b'.hit := hs.2.2.1
    rw [hfin, hhit]
    by_cases c4 : b'.fin = true
    · rw [if_pos c4, if_pos c4]; exact hs
    rw [if_neg c4, if_neg c4]
    exact ih _ _ _ _ hs

end Echse.Lemmas.RrCandRfc
