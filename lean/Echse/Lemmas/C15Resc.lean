/-
  C15: unfolding `scaleWday`, `succDate`, `toMjd`, `ofMjd`, `rescale` for the scale classes
  (0 Gregorian, 1..8 arithmetic Hijri, 9..10 table Hijri).
-/
import Echse.Lemmas.C15Enum
import Echse.Lemmas.C15Tab
namespace Echse.Scale

theorem scaleWday_hij (s : Nat) (h1 : 1 ≤ s) (h8 : s ≤ 8) (y m d : Nat) :
    scaleWday s y m d = wdayOfMjd (hij2mjd (scalTyp s) (scalEpo s) ⟨y, m, d⟩) := by
  have a : ¬ s = 0 := by omega
  simp [scaleWday, a, h8]

theorem succDate_tab (s : Nat) (hs : s = 9 ∨ s = 10) (h : Ymd) :
    succDate s h = succHt (tableOf s) h := by
  simp only [succDate, succHt, scaleNdim_tab s hs]

theorem rescale_from_greg (s : Nat) (h1 : 1 ≤ s) (g : Ymd) : rescale 0 s g = ofMjd s (g2mjd g) := by
  have a : ¬ 0 = s := by omega
  simp [rescale, toMjd, a]

theorem ofMjd_greg (d : Nat) (h : (mjd2g d).y ≠ 0) : ofMjd 0 d = some (mjd2g d) := by
  simp [ofMjd, h]

theorem ofMjd_hij (s : Nat) (h1 : 1 ≤ s) (h8 : s ≤ 8) (d : Nat)
    (h : (mjd2hij (scalTyp s) (scalEpo s) d).y ≠ 0) :
    ofMjd s d = some (mjd2hij (scalTyp s) (scalEpo s) d) := by
  have a : ¬ s = 0 := by omega
  have b : ¬ 10 < s := by omega
  simp [ofMjd, a, b, h8, h]

theorem ofMjd_tab (s : Nat) (hs : s = 9 ∨ s = 10) (d : Nat) :
    ofMjd s d = if (mjd2ht (tableOf s) d).y = 0 then none else some (mjd2ht (tableOf s) d) := by
  rcases hs with h | h <;> subst h <;> simp [ofMjd]

theorem rescale_hij_to_greg (s : Nat) (h1 : 1 ≤ s) (h8 : s ≤ 8) (h : Ymd) :
    rescale s 0 h = ofMjd 0 (hij2mjd (scalTyp s) (scalEpo s) h) := by
  have a : ¬ s = 0 := by omega
  simp [rescale, toMjd, a, h8]

theorem rescale_tab_to_greg (s : Nat) (hs : s = 9 ∨ s = 10) (h : Ymd)
    (hd : ht2mjd (tableOf s) h ≠ 0) : rescale s 0 h = ofMjd 0 (ht2mjd (tableOf s) h) := by
  rcases hs with e | e <;> subst e <;> simp [rescale, toMjd, hd]

end Echse.Scale
