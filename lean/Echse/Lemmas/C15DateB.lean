/-
  C15 enumeration part (written once by a loop, then static): Gregorian scale, per date index,
  chunks 36..71 of 1024 points and the final 300 points.
  One theorem per chunk: each is checked by the kernel on its own (bounded memory and heartbeats).
-/
import Echse.Lemmas.C15Enum
namespace Echse.Scale

theorem dateB_c0 : allFrom (chkD) (0 + 1024 * (36 + 0)) 1024 = true := by decide +kernel
theorem dateB_c1 : allFrom (chkD) (0 + 1024 * (36 + 1)) 1024 = true := by decide +kernel
theorem dateB_c2 : allFrom (chkD) (0 + 1024 * (36 + 2)) 1024 = true := by decide +kernel
theorem dateB_c3 : allFrom (chkD) (0 + 1024 * (36 + 3)) 1024 = true := by decide +kernel
theorem dateB_c4 : allFrom (chkD) (0 + 1024 * (36 + 4)) 1024 = true := by decide +kernel
theorem dateB_c5 : allFrom (chkD) (0 + 1024 * (36 + 5)) 1024 = true := by decide +kernel
theorem dateB_c6 : allFrom (chkD) (0 + 1024 * (36 + 6)) 1024 = true := by decide +kernel
theorem dateB_c7 : allFrom (chkD) (0 + 1024 * (36 + 7)) 1024 = true := by decide +kernel
theorem dateB_c8 : allFrom (chkD) (0 + 1024 * (36 + 8)) 1024 = true := by decide +kernel
theorem dateB_c9 : allFrom (chkD) (0 + 1024 * (36 + 9)) 1024 = true := by decide +kernel
theorem dateB_c10 : allFrom (chkD) (0 + 1024 * (36 + 10)) 1024 = true := by decide +kernel
theorem dateB_c11 : allFrom (chkD) (0 + 1024 * (36 + 11)) 1024 = true := by decide +kernel
theorem dateB_c12 : allFrom (chkD) (0 + 1024 * (36 + 12)) 1024 = true := by decide +kernel
theorem dateB_c13 : allFrom (chkD) (0 + 1024 * (36 + 13)) 1024 = true := by decide +kernel
theorem dateB_c14 : allFrom (chkD) (0 + 1024 * (36 + 14)) 1024 = true := by decide +kernel
theorem dateB_c15 : allFrom (chkD) (0 + 1024 * (36 + 15)) 1024 = true := by decide +kernel
theorem dateB_c16 : allFrom (chkD) (0 + 1024 * (36 + 16)) 1024 = true := by decide +kernel
theorem dateB_c17 : allFrom (chkD) (0 + 1024 * (36 + 17)) 1024 = true := by decide +kernel
theorem dateB_c18 : allFrom (chkD) (0 + 1024 * (36 + 18)) 1024 = true := by decide +kernel
theorem dateB_c19 : allFrom (chkD) (0 + 1024 * (36 + 19)) 1024 = true := by decide +kernel
theorem dateB_c20 : allFrom (chkD) (0 + 1024 * (36 + 20)) 1024 = true := by decide +kernel
theorem dateB_c21 : allFrom (chkD) (0 + 1024 * (36 + 21)) 1024 = true := by decide +kernel
theorem dateB_c22 : allFrom (chkD) (0 + 1024 * (36 + 22)) 1024 = true := by decide +kernel
theorem dateB_c23 : allFrom (chkD) (0 + 1024 * (36 + 23)) 1024 = true := by decide +kernel
theorem dateB_c24 : allFrom (chkD) (0 + 1024 * (36 + 24)) 1024 = true := by decide +kernel
theorem dateB_c25 : allFrom (chkD) (0 + 1024 * (36 + 25)) 1024 = true := by decide +kernel
theorem dateB_c26 : allFrom (chkD) (0 + 1024 * (36 + 26)) 1024 = true := by decide +kernel
theorem dateB_c27 : allFrom (chkD) (0 + 1024 * (36 + 27)) 1024 = true := by decide +kernel
theorem dateB_c28 : allFrom (chkD) (0 + 1024 * (36 + 28)) 1024 = true := by decide +kernel
theorem dateB_c29 : allFrom (chkD) (0 + 1024 * (36 + 29)) 1024 = true := by decide +kernel
theorem dateB_c30 : allFrom (chkD) (0 + 1024 * (36 + 30)) 1024 = true := by decide +kernel
theorem dateB_c31 : allFrom (chkD) (0 + 1024 * (36 + 31)) 1024 = true := by decide +kernel
theorem dateB_c32 : allFrom (chkD) (0 + 1024 * (36 + 32)) 1024 = true := by decide +kernel
theorem dateB_c33 : allFrom (chkD) (0 + 1024 * (36 + 33)) 1024 = true := by decide +kernel
theorem dateB_c34 : allFrom (chkD) (0 + 1024 * (36 + 34)) 1024 = true := by decide +kernel
theorem dateB_c35 : allFrom (chkD) (0 + 1024 * (36 + 35)) 1024 = true := by decide +kernel

theorem dateB_chunks : ∀ c, c < 36 → allFrom (chkD) (0 + 1024 * (36 + c)) 1024 = true
  | 0, _ => dateB_c0
  | 1, _ => dateB_c1
  | 2, _ => dateB_c2
  | 3, _ => dateB_c3
  | 4, _ => dateB_c4
  | 5, _ => dateB_c5
  | 6, _ => dateB_c6
  | 7, _ => dateB_c7
  | 8, _ => dateB_c8
  | 9, _ => dateB_c9
  | 10, _ => dateB_c10
  | 11, _ => dateB_c11
  | 12, _ => dateB_c12
  | 13, _ => dateB_c13
  | 14, _ => dateB_c14
  | 15, _ => dateB_c15
  | 16, _ => dateB_c16
  | 17, _ => dateB_c17
  | 18, _ => dateB_c18
  | 19, _ => dateB_c19
  | 20, _ => dateB_c20
  | 21, _ => dateB_c21
  | 22, _ => dateB_c22
  | 23, _ => dateB_c23
  | 24, _ => dateB_c24
  | 25, _ => dateB_c25
  | 26, _ => dateB_c26
  | 27, _ => dateB_c27
  | 28, _ => dateB_c28
  | 29, _ => dateB_c29
  | 30, _ => dateB_c30
  | 31, _ => dateB_c31
  | 32, _ => dateB_c32
  | 33, _ => dateB_c33
  | 34, _ => dateB_c34
  | 35, _ => dateB_c35
  | n + 36, h => absurd h (by omega)

theorem dateB : ∀ k, 0 + 1024 * 36 ≤ k → k < 0 + 1024 * (36 + 36) → chkD k = true :=
  allFrom_chunks _ _ _ _ _ dateB_chunks

theorem dateB_tail : allFrom (chkD) (0 + 1024 * 72) 300 = true := by decide +kernel

end Echse.Scale
