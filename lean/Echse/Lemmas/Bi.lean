/-
  Signed containers `bitint31_t` / `bitint63_t`: the canonical iteration order `canonS`,
  facts about the arithmetic shift `sar`, representation invariant `BiR`, its
  preservation by `assBi`, and what iteration / membership yield under it.
-/
import Echse.Lemmas.Bits
namespace Echse.Bitint

/-! ### the container order and the canonical result list -/

/-- order of iteration: 0, then positives ascending, then negatives by increasing magnitude -/
def canonS (m : Nat) (xs : List Int) : List Int :=
  (if (0:Int) ∈ xs then [0] else []) ++
  ((List.range' 1 m).filter (fun (j : Nat) => decide ((j:Int) ∈ xs))).map (fun (j : Nat) => (j:Int)) ++
  ((List.range' 1 m).filter (fun (j : Nat) => decide (-(j:Int) ∈ xs))).map (fun (j : Nat) => -(j:Int))

/-- `a` comes strictly before `b` in the container order (this is the test in `assInt`) -/
def sLt (a b : Int) : Prop := if b ≥ 0 then a ≥ 0 ∧ a < b else a > b

theorem sLt_irrefl (a : Int) : ¬ sLt a a := by unfold sLt; split <;> omega
theorem sLt_asymm (a b : Int) : sLt a b → ¬ sLt b a := by unfold sLt; split <;> split <;> omega
theorem sLt_trans (a b c : Int) : sLt a b → sLt b c → sLt a c := by
  unfold sLt; split <;> split <;> omega

/-- two strictly sorted lists with the same members are equal -/
theorem sorted_ext : ∀ (l1 l2 : List Int), l1.Pairwise sLt → l2.Pairwise sLt →
    (∀ v, v ∈ l1 ↔ v ∈ l2) → l1 = l2 := by
  intro l1
  induction l1 with
  | nil =>
    intro l2 _ _ h
    cases l2 with
    | nil => rfl
    | cons b u => exact absurd ((h b).mpr (by simp)) (by simp)
  | cons a t ih =>
    intro l2 h1 h2 h
    cases l2 with
    | nil => exact absurd ((h a).mp (by simp)) (by simp)
    | cons b u =>
      rw [List.pairwise_cons] at h1 h2
      have hab : a = b := by
        rcases List.mem_cons.mp ((h a).mp (by simp)) with e | e
        · exact e
        · rcases List.mem_cons.mp ((h b).mpr (by simp)) with e' | e'
          · exact e'.symm
          · exact absurd (h1.1 b e') (sLt_asymm _ _ (h2.1 a e))
      subst hab
      congr 1
      apply ih u h1.2 h2.2
      intro v
      constructor
      · intro hv
        rcases List.mem_cons.mp ((h v).mp (by simp [hv])) with e | e
        · subst e; exact absurd (h1.1 v hv) (sLt_irrefl v)
        · exact e
      · intro hv
        rcases List.mem_cons.mp ((h v).mpr (by simp [hv])) with e | e
        · subst e; exact absurd (h2.1 v hv) (sLt_irrefl v)
        · exact e

theorem canonS_sorted (m : Nat) (xs : List Int) : (canonS m xs).Pairwise sLt := by
  unfold canonS
  have hr := List.pairwise_lt_range' (s := 1) (n := m) 1
  rw [List.pairwise_append, List.pairwise_append]
  refine ⟨⟨?_, ?_, ?_⟩, ?_, ?_⟩
  · split <;> simp
  · rw [List.pairwise_map]
    apply List.Pairwise.filter
    exact hr.imp (by intro a b hab; unfold sLt; split <;> omega)
  · intro a ha b hb
    simp only [List.mem_map, List.mem_filter, List.mem_range'_1] at hb
    obtain ⟨j, ⟨hj, _⟩, rfl⟩ := hb
    have : a = 0 := by split at ha <;> simp at ha; exact ha
    subst this
    unfold sLt; split <;> omega
  · rw [List.pairwise_map]
    apply List.Pairwise.filter
    exact hr.imp (by intro a b hab; unfold sLt; split <;> omega)
  · intro a ha b hb
    simp only [List.mem_map, List.mem_filter, List.mem_range'_1] at hb
    obtain ⟨j, ⟨hj, _⟩, rfl⟩ := hb
    have ha0 : 0 ≤ a := by
      rcases List.mem_append.mp ha with ha | ha
      · split at ha <;> simp at ha; omega
      · simp only [List.mem_map] at ha
        obtain ⟨i, _, rfl⟩ := ha; omega
    unfold sLt; split <;> omega

theorem mem_canonS (m : Nat) (xs : List Int) (h : ∀ v ∈ xs, -(m:Int) ≤ v ∧ v ≤ m) (x : Int) :
    x ∈ canonS m xs ↔ x ∈ xs := by
  unfold canonS
  simp only [List.mem_append, List.mem_map, List.mem_filter, List.mem_range'_1, decide_eq_true_eq]
  constructor
  · rintro ((h0 | ⟨j, ⟨_, hj⟩, rfl⟩) | ⟨j, ⟨_, hj⟩, rfl⟩)
    · split at h0 <;> simp at h0
      subst h0; assumption
    · exact hj
    · exact hj
  · intro hx
    have hr := h x hx
    rcases Int.lt_trichotomy x 0 with hc | hc | hc
    · right
      refine ⟨(-x).toNat, ⟨by omega, ?_⟩, by omega⟩
      rw [show -(((-x).toNat : Nat) : Int) = x by omega]; exact hx
    · subst hc; left; left; simp [hx]
    · left; right
      refine ⟨x.toNat, ⟨by omega, ?_⟩, by omega⟩
      rw [show ((x.toNat : Nat) : Int) = x by omega]; exact hx

theorem canonS_nodup (m : Nat) (xs : List Int) : (canonS m xs).Nodup :=
  (canonS_sorted m xs).imp (by intro a b hab e; subst e; exact sLt_irrefl a hab)

/-- a strictly sorted list with the members of `xs` is the canonical list -/
theorem eq_canonS (m : Nat) (xs vals : List Int) (h : ∀ v ∈ xs, -(m:Int) ≤ v ∧ v ≤ m)
    (hs : vals.Pairwise sLt) (hm : ∀ v, v ∈ vals ↔ v ∈ xs) : vals = canonS m xs :=
  sorted_ext _ _ hs (canonS_sorted m xs) (fun v => (hm v).trans (mem_canonS m xs h v).symm)

/-- set bits `1..m` of two words, read as positives resp. negatives, give `canonS` -/
theorem setBits_eq_canonS (m P N : Nat) (xs : List Int)
    (hP : ∀ j, 1 ≤ j → P.testBit j = decide ((j:Int) ∈ xs))
    (hN : ∀ j, N.testBit j = decide (-(j:Int) ∈ xs)) :
    (if N % 2 = 1 then [(0:Int)] else []) ++ (setBits P 1 (m+1)).map (fun (j : Nat) => (j:Int)) ++
      (setBits N 1 (m+1)).map (fun (j : Nat) => -(j:Int)) = canonS m xs := by
  unfold canonS setBits
  rw [show m + 1 - 1 = m by omega]
  congr 1
  · congr 1
    · have := hN 0
      rw [Nat.testBit, Nat.shiftRight_zero, Nat.one_and_eq_mod_two] at this
      by_cases h0 : (0:Int) ∈ xs
      · simp [h0] at this; simp [h0, this]
      · simp [h0] at this; simp [h0, this]
    · congr 1
      apply List.filter_congr
      intro j hj
      rw [List.mem_range'_1] at hj
      exact hP j hj.1
  · congr 1
    apply List.filter_congr
    intro j _
    exact hN j

/-! ### `toU` / `toS` -/

theorem lt_two_pow_pred (w : Nat) : w - 1 < 2^(w-1) := Nat.lt_two_pow_self

theorem two_pow_pred (w : Nat) (hw : 1 ≤ w) : 2^w = 2 * 2^(w-1) := by
  rw [show w = (w - 1) + 1 by omega, Nat.pow_succ]; simp; omega

theorem toU_lt (w : Nat) (z : Int) : toU w z < 2^w := by
  unfold toU
  have hp : (0:Int) < 2^w := Int.pow_pos (by omega)
  have h1 := Int.emod_lt_of_pos z hp
  have h2 := Int.emod_nonneg z (Int.ne_of_gt hp)
  have : ((2^w : Nat) : Int) = (2:Int)^w := by simp
  omega

theorem toS_toU (w : Nat) (hw : 1 ≤ w) (v : Int) (h1 : -(2^(w-1) : Nat) ≤ v) (h2 : v < (2^(w-1) : Nat)) :
    toS w (toU w v) = v := by
  have hp := two_pow_pred w hw
  have hc : ((2:Int)^w) = ((2^w : Nat) : Int) := by simp
  have hc' : ((2:Int)^(w-1)) = ((2^(w-1) : Nat) : Int) := by simp
  unfold toS toU
  rw [hc]
  by_cases hv : 0 ≤ v
  · rw [Int.emod_eq_of_lt hv (by omega)]
    have : v.toNat < 2^(w-1) := by omega
    simp only [this, if_true]; omega
  · have : v % ((2^w : Nat) : Int) = v + ((2^w : Nat) : Int) := by
      rw [← Int.add_emod_right, Int.emod_eq_of_lt (by omega) (by omega)]
    rw [this]
    have : ¬ ((v + ((2^w : Nat) : Int)).toNat < 2^(w-1)) := by omega
    simp only [this, if_false]; omega

/-! ### the arithmetic shift agrees with the logical one below the sign extension -/

theorem sar_testBit (w n k j : Nat) (h : j + k < w) : (sar w n k).testBit j = n.testBit (j + k) := by
  unfold sar
  split
  · rw [Nat.testBit_shiftRight, Nat.add_comm]
  · rw [Nat.testBit_or, Nat.testBit_shiftRight, Nat.testBit_shiftLeft, Nat.add_comm]
    have : ¬ (j ≥ w - k) := by omega
    simp [this]

theorem sar_lt (w n k : Nat) (hk : k ≤ w) (hn : n < 2^w) : sar w n k < 2^w := by
  apply Nat.lt_pow_two_of_testBit
  intro i hi
  have hn' : (n >>> k).testBit i = false := by
    rw [Nat.testBit_shiftRight]
    exact Nat.testBit_lt_two_pow (Nat.lt_of_lt_of_le hn (Nat.pow_le_pow_right (by omega) (by omega)))
  unfold sar
  split
  · exact hn'
  · rw [Nat.testBit_or, hn', Nat.testBit_shiftLeft, Nat.testBit_two_pow_sub_one]
    have : ¬ (i - (w - k) < k) := by omega
    simp [this]

theorem ne_zero_of_testBit (b j : Nat) (h : b.testBit j = true) : b ≠ 0 := by
  intro hz; rw [hz] at h; simp at h

theorem ctz_unique (fuel b r : Nat) (hlt : b < 2^fuel) (hr : b.testBit r = true)
    (hlow : ∀ j, j < r → b.testBit j = false) : ctz fuel b = r := by
  obtain ⟨a1, a2⟩ := ctz_spec fuel b (ne_zero_of_testBit b r hr) hlt
  rcases Nat.lt_trichotomy (ctz fuel b) r with hc | hc | hc
  · rw [hlow _ hc] at a1; exact absurd a1 (by simp)
  · exact hc
  · rw [a2 _ hc] at hr; exact absurd hr (by simp)

/-- when a bit at or above `k` exists, `sar` is non-zero and has the same lowest set bit -/
theorem sar_nsb (w n k : Nat) (hk : k < w) (hn : n < 2^w) (h : n >>> k ≠ 0) :
    sar w n k ≠ 0 ∧ ctz w (sar w n k) = ctz w (n >>> k) := by
  obtain ⟨a1, _, a3, a4⟩ := nsb_spec w n k hn h
  have hc : ctz w (n >>> k) + k < w := by omega
  have hb : (sar w n k).testBit (ctz w (n >>> k)) = true := by
    rw [sar_testBit w n k _ hc, Nat.add_comm]; exact a1
  refine ⟨ne_zero_of_testBit _ _ hb, ?_⟩
  apply ctz_unique w _ _ (sar_lt w n k (by omega) hn) hb
  intro j hj
  rw [sar_testBit w n k j (by omega), Nat.add_comm]
  exact a4 (k + j) (by omega) (by omega)

theorem sar_zero (w n k : Nat) (hw : 1 ≤ w) (hk : k < w) (h : n >>> k = 0) : sar w n k = 0 := by
  unfold sar
  split
  · exact h
  · rename_i hge
    exfalso
    have := (shr_eq_zero_iff n k).mp h
    have hlt : n < 2^(w-1) := by
      apply Nat.lt_pow_two_of_testBit
      intro i hi; exact this i (by omega)
    exact hge hlt

/-! ### representation invariant -/

def BiBits (w : Nat) (xs : List Int) (bi : Bi) : Prop :=
  bi.pos % 2 = 0 ∧ bi.pos < 2^w ∧ bi.neg < 2^w ∧
  (∀ j : Nat, 1 ≤ j → bi.pos.testBit j = decide ((j:Int) ∈ xs)) ∧
  (∀ j : Nat, bi.neg.testBit j = decide (-(j:Int) ∈ xs))

/-- the last stage of `assBi`: set the bit for `x` -/
def insBits (w : Nat) (bi : Bi) (x : Int) : Bi :=
  if x > 0 then { bi with pos := (bi.pos ||| (1 <<< x.toNat)) % 2^w }
  else { bi with neg := (bi.neg ||| (1 <<< (-x).toNat)) % 2^w }

/-- the middle stage of `assBi`: a singleton becomes a bitset -/
def ofSingle (w : Nat) (v : Int) : Bi :=
  if v > 0 then { pos := (1 <<< v.toNat) % 2^w, neg := 0 }
  else { pos := 0, neg := (1 <<< (-v).toNat) % 2^w }

theorem assBi_eq (w : Nat) (bi : Bi) (x : Int) :
    assBi w bi x = if bi.pos = 0 ∧ bi.neg = 0 then { pos := 1, neg := toU w x }
      else insBits w (if bi.pos % 2 = 1 then ofSingle w (toS w bi.neg) else bi) x := rfl

theorem ofSingle_eq (w : Nat) (v : Int) : ofSingle w v = insBits w ⟨0, 0⟩ v := by
  unfold ofSingle insBits
  split <;> simp

theorem insBits_ok (w : Nat) (xs : List Int) (bi : Bi) (x : Int)
    (hx : -((w:Int) - 1) ≤ x ∧ x ≤ (w:Int) - 1) (h : BiBits w xs bi) :
    BiBits w (xs ++ [x]) (insBits w bi x) := by
  obtain ⟨h1, h2, h3, h4, h5⟩ := h
  unfold insBits
  by_cases hp : x > 0
  · have hpx : 2^x.toNat < 2^w := two_pow_lt _ _ (by omega)
    have hev : 2^x.toNat % 2 = 0 := by
      rw [show x.toNat = (x.toNat - 1) + 1 by omega, Nat.pow_succ]; omega
    simp only [hp, if_true, Nat.one_shiftLeft]
    rw [Nat.mod_eq_of_lt (Nat.or_lt_two_pow h2 hpx)]
    refine ⟨or_even _ _ h1 hev, Nat.or_lt_two_pow h2 hpx, h3, ?_, ?_⟩
    · intro j hj
      simp only [Nat.testBit_or, Nat.testBit_two_pow, h4 j hj, List.mem_append, List.mem_singleton]
      by_cases a : (j:Int) ∈ xs <;> by_cases b : (j:Int) = x <;> simp [a, b] <;> omega
    · intro j
      simp only [h5 j, List.mem_append, List.mem_singleton]
      have b : ¬ (-(j:Int) = x) := by omega
      simp [b]
  · have hpx : 2^(-x).toNat < 2^w := two_pow_lt _ _ (by omega)
    simp only [hp, if_false, Nat.one_shiftLeft]
    rw [Nat.mod_eq_of_lt (Nat.or_lt_two_pow h3 hpx)]
    refine ⟨h1, h2, Nat.or_lt_two_pow h3 hpx, ?_, ?_⟩
    · intro j hj
      simp only [h4 j hj, List.mem_append, List.mem_singleton]
      have b : ¬ ((j:Int) = x) := by omega
      simp [b]
    · intro j
      simp only [Nat.testBit_or, Nat.testBit_two_pow, h5 j, List.mem_append, List.mem_singleton]
      by_cases a : -(j:Int) ∈ xs <;> by_cases b : -(j:Int) = x <;> simp [a, b] <;> omega

theorem BiBits_nil (w : Nat) : BiBits w [] ⟨0, 0⟩ := by
  refine ⟨rfl, Nat.two_pow_pos w, Nat.two_pow_pos w, ?_, ?_⟩ <;> simp

theorem BiBits_ne (w : Nat) (xs : List Int) (bi : Bi) (v : Int) (hv : v ∈ xs) (h : BiBits w xs bi) :
    ¬ (bi.pos = 0 ∧ bi.neg = 0) := by
  obtain ⟨_, _, _, h4, h5⟩ := h
  rintro ⟨hp, hn⟩
  by_cases hc : v > 0
  · have := h4 v.toNat (by omega)
    rw [hp, show ((v.toNat : Nat) : Int) = v by omega] at this
    simp [hv] at this
  · have := h5 (-v).toNat
    rw [hn, show -(((-v).toNat : Nat) : Int) = v by omega] at this
    simp [hv] at this

def BiR (w : Nat) (xs : List Int) (bi : Bi) : Prop :=
  (xs = [] ∧ bi = ⟨0, 0⟩) ∨ (∃ v, xs = [v] ∧ bi = ⟨1, toU w v⟩) ∨
  (2 ≤ xs.length ∧ BiBits w xs bi)

theorem BiR_step (w : Nat) (hw : 2 ≤ w) (xs : List Int) (bi : Bi) (x : Int)
    (hx : -((w:Int) - 1) ≤ x ∧ x ≤ (w:Int) - 1)
    (hxs : ∀ v ∈ xs, -((w:Int) - 1) ≤ v ∧ v ≤ (w:Int) - 1) (h : BiR w xs bi) :
    BiR w (xs ++ [x]) (assBi w bi x) := by
  rw [assBi_eq]
  rcases h with ⟨h1, h2⟩ | ⟨v, h1, h2⟩ | ⟨h1, h2⟩
  · subst h1 h2
    right; left
    exact ⟨x, rfl, by simp⟩
  · subst h1 h2
    have hv := hxs v (by simp)
    have hlt := lt_two_pow_pred w
    have hts : toS w (toU w v) = v := toS_toU w (by omega) v (by omega) (by omega)
    right; right
    refine ⟨by simp, ?_⟩
    simp only [hts]
    rw [if_neg (by simp), if_pos (by simp), ofSingle_eq]
    exact insBits_ok w [v] _ x hx (by simpa using insBits_ok w [] _ v hv (BiBits_nil w))
  · right; right
    obtain ⟨v, hv⟩ : ∃ v, v ∈ xs := by
      cases xs with
      | nil => simp at h1
      | cons a _ => exact ⟨a, by simp⟩
    have hodd : ¬ (bi.pos % 2 = 1) := by have := h2.1; omega
    rw [if_neg (BiBits_ne w xs bi v hv h2), if_neg hodd]
    exact ⟨by simp; omega, insBits_ok w xs bi x hx h2⟩

theorem BiR_foldl (w : Nat) (hw : 2 ≤ w) :
    ∀ (ys xs : List Int) (bi : Bi), (∀ v ∈ xs, -((w:Int) - 1) ≤ v ∧ v ≤ (w:Int) - 1) →
      (∀ v ∈ ys, -((w:Int) - 1) ≤ v ∧ v ≤ (w:Int) - 1) → BiR w xs bi →
      BiR w (xs ++ ys) (ys.foldl (assBi w) bi) := by
  intro ys
  induction ys with
  | nil => intro xs bi _ _ h; simpa using h
  | cons y ys ih =>
    intro xs bi hxs hys h
    have := ih (xs ++ [y]) (assBi w bi y)
      (by intro v hv; rcases List.mem_append.mp hv with a | a
          · exact hxs v a
          · simp at a; subst a; exact hys _ (by simp))
      (fun v hv => hys v (by simp [hv]))
      (BiR_step w hw xs bi y (hys y (by simp)) hxs h)
    simpa using this

theorem BiR_insertAll (w : Nat) (hw : 2 ≤ w) (xs : List Int)
    (hxs : ∀ v ∈ xs, -((w:Int) - 1) ≤ v ∧ v ≤ (w:Int) - 1) :
    BiR w xs (xs.foldl (assBi w) ⟨0, 0⟩) := by
  have := BiR_foldl w hw xs [] ⟨0, 0⟩ (by simp) hxs (Or.inl ⟨rfl, rfl⟩)
  simpa using this

/-! ### one call of `biNext` in bitset mode, case by case -/

theorem biIterate_succ (w : Nat) (bi : Bi) (f iter : Nat) :
    biIterate w bi (f+1) iter =
      if (biNext w iter bi).2 = 0 then some []
      else (biIterate w bi f (biNext w iter bi).2).map ((biNext w iter bi).1 :: ·) := rfl

theorem biNext_zero (w : Nat) (bi : Bi) (hev : bi.pos % 2 = 0) (h0 : bi.neg % 2 = 1) :
    biNext w 0 bi = (0, 1) := by
  unfold biNext
  rw [if_neg (by omega), if_pos ⟨rfl, h0⟩]

theorem biNext_neg_none (w : Nat) (bi : Bi) (hev : bi.pos % 2 = 0) (m : Nat) (hm : 1 ≤ m)
    (h : w ≤ m ∨ bi.neg >>> m = 0) : biNext w (w + m) bi = (0, 0) := by
  unfold biNext
  rw [if_neg (by omega), if_neg (by omega)]
  simp only []
  rw [(if_neg (by omega) : (if w + m < w ∧ bi.pos >>> (w + m) = 0 then w + 1 else w + m) = w + m)]
  rw [if_neg (by omega)]
  rcases Nat.lt_or_ge m w with hc | hc
  · have hz : bi.neg >>> m = 0 := by rcases h with h | h; omega; exact h
    rw [if_neg]
    rw [show w + m - w = m by omega, sar_zero w _ m (by omega) hc hz]
    simp
  · rw [if_neg (by omega)]

theorem biNext_neg_some (w : Nat) (bi : Bi) (hev : bi.pos % 2 = 0) (hN : bi.neg < 2^w) (m : Nat)
    (hm : 1 ≤ m) (hmw : m < w) (h : bi.neg >>> m ≠ 0) :
    biNext w (w + m) bi =
      (-((m + ctz w (bi.neg >>> m) : Nat) : Int), w + (m + ctz w (bi.neg >>> m) + 1)) := by
  obtain ⟨s1, s2⟩ := sar_nsb w bi.neg m hmw hN h
  unfold biNext
  rw [if_neg (by omega), if_neg (by omega)]
  simp only []
  rw [(if_neg (by omega) : (if w + m < w ∧ bi.pos >>> (w + m) = 0 then w + 1 else w + m) = w + m)]
  rw [if_neg (by omega)]
  rw [show w + m - w = m by omega, if_pos ⟨by omega, by omega, s1⟩, s2]
  congr 1
  · omega
  · omega

theorem biNext_congr (w : Nat) (bi : Bi) (hev : bi.pos % 2 = 0) (i1 i2 : Nat)
    (h1 : ¬ (i1 = 0 ∧ bi.neg % 2 = 1)) (h2 : ¬ (i2 = 0 ∧ bi.neg % 2 = 1))
    (h : (if i1 < w ∧ bi.pos >>> i1 = 0 then w + 1 else i1) =
         (if i2 < w ∧ bi.pos >>> i2 = 0 then w + 1 else i2)) :
    biNext w i1 bi = biNext w i2 bi := by
  have hodd : ¬ (bi.pos % 2 = 1) := by omega
  unfold biNext
  rw [if_neg hodd, if_neg hodd, if_neg h1, if_neg h2]
  simp only []
  rw [h]

theorem biNext_pos_none (w : Nat) (bi : Bi) (hev : bi.pos % 2 = 0) (iter : Nat) (hi : iter < w)
    (h0 : iter = 0 → bi.neg % 2 = 0) (h : bi.pos >>> iter = 0) :
    biNext w iter bi = biNext w (w + 1) bi := by
  apply biNext_congr w bi hev _ _ (by omega) (by omega)
  rw [if_pos ⟨hi, h⟩, if_neg (by omega)]

theorem biNext_pos_some (w : Nat) (bi : Bi) (hev : bi.pos % 2 = 0) (iter : Nat) (hi : iter < w)
    (h0 : iter = 0 → bi.neg % 2 = 0) (h : bi.pos >>> iter ≠ 0) :
    biNext w iter bi =
      (((iter + ctz w (bi.pos >>> iter) : Nat) : Int),
        if bi.pos >>> (iter + ctz w (bi.pos >>> iter) + 1) ≠ 0
        then iter + ctz w (bi.pos >>> iter) + 1 else w + 1) := by
  unfold biNext
  rw [if_neg (by omega), if_neg (by omega)]
  simp only []
  rw [(if_neg (by omega) : (if iter < w ∧ bi.pos >>> iter = 0 then w + 1 else iter) = iter)]
  rw [if_pos ⟨hi, h⟩]
  congr 1
  rw [← Nat.shiftRight_add, Nat.shiftRight_add _ _ 1, Nat.shiftRight_eq_div_pow _ 1]
  generalize bi.pos >>> (iter + ctz w (bi.pos >>> iter)) = q
  by_cases hc : q / 2 ^ 1 ≠ 0
  · rw [if_pos hc, if_pos (by omega)]
  · rw [if_neg hc, if_neg (by omega)]

/-! ### iteration in bitset mode -/

theorem biIterate_neg (w : Nat) (bi : Bi) (hev : bi.pos % 2 = 0) (hN : bi.neg < 2^w) :
    ∀ fuel m, 1 ≤ m → m ≤ w → (w - m) + 1 ≤ fuel →
      biIterate w bi fuel (w + m) = some ((setBits bi.neg m w).map (fun (j : Nat) => -(j:Int))) := by
  intro fuel
  induction fuel with
  | zero => intro m _ _ h; omega
  | succ f ih =>
    intro m hm hmw hf
    rw [biIterate_succ]
    by_cases hz : w ≤ m ∨ bi.neg >>> m = 0
    · rw [biNext_neg_none w bi hev m hm hz]
      simp only [if_true]
      rcases hz with hz | hz
      · rw [setBits_nil_of_ge _ _ _ hz]; rfl
      · rw [setBits_none _ _ _ ((shr_eq_zero_iff _ _).mp hz)]; rfl
    · have hmw' : m < w := by omega
      have hnz : bi.neg >>> m ≠ 0 := fun e => hz (Or.inr e)
      obtain ⟨a1, a2, a3, a4⟩ := nsb_spec w bi.neg m hN hnz
      rw [biNext_neg_some w bi hev hN m hm hmw' hnz]
      simp only []
      rw [if_neg (by omega), ih _ (by omega) (by omega) (by omega), setBits_next _ m _ _ a2 a3 a1 a4]
      rfl

theorem biIterate_pos (w : Nat) (bi : Bi) (hev : bi.pos % 2 = 0) (hP : bi.pos < 2^w) (hN : bi.neg < 2^w) :
    ∀ fuel iter, iter < w → (iter = 0 → bi.neg % 2 = 0) → (w - iter) + w + 1 ≤ fuel →
      biIterate w bi fuel iter = some ((setBits bi.pos iter w).map (fun (j : Nat) => (j:Int)) ++
        (setBits bi.neg 1 w).map (fun (j : Nat) => -(j:Int))) := by
  intro fuel
  induction fuel with
  | zero => intro iter _ _ h; omega
  | succ f ih =>
    intro iter hi h0 hf
    by_cases hz : bi.pos >>> iter = 0
    · have : biIterate w bi (f+1) iter = biIterate w bi (f+1) (w+1) := by
        rw [biIterate_succ, biIterate_succ, biNext_pos_none w bi hev iter hi h0 hz]
      rw [this, biIterate_neg w bi hev hN (f+1) 1 (by omega) (by omega) (by omega),
        setBits_none _ _ _ ((shr_eq_zero_iff _ _).mp hz)]
      rfl
    · obtain ⟨a1, a2, a3, a4⟩ := nsb_spec w bi.pos iter hP hz
      rw [biIterate_succ, biNext_pos_some w bi hev iter hi h0 hz]
      simp only []
      rw [setBits_next _ iter _ _ a2 a3 a1 a4]
      by_cases hz2 : bi.pos >>> (iter + ctz w (bi.pos >>> iter) + 1) = 0
      · rw [if_neg (by simp [hz2]), if_neg (by omega),
          biIterate_neg w bi hev hN f 1 (by omega) (by omega) (by omega),
          setBits_none _ _ _ ((shr_eq_zero_iff _ _).mp hz2)]
        rfl
      · obtain ⟨_, b2, b3, _⟩ := nsb_spec w bi.pos _ hP hz2
        rw [if_pos hz2, if_neg (by omega), ih _ (by omega) (by omega) (by omega)]
        rfl

theorem biIterate_bits (w : Nat) (hw : 2 ≤ w) (bi : Bi) (hev : bi.pos % 2 = 0) (hP : bi.pos < 2^w)
    (hN : bi.neg < 2^w) (fuel : Nat) (hf : 2 * w + 1 ≤ fuel) :
    biIterate w bi fuel 0 = some ((if bi.neg % 2 = 1 then [(0:Int)] else []) ++
      (setBits bi.pos 1 w).map (fun (j : Nat) => (j:Int)) ++
      (setBits bi.neg 1 w).map (fun (j : Nat) => -(j:Int))) := by
  by_cases h0 : bi.neg % 2 = 1
  · obtain ⟨f, rfl⟩ : ∃ f, fuel = f + 1 := ⟨fuel - 1, by omega⟩
    rw [biIterate_succ, biNext_zero w bi hev h0]
    simp only []
    rw [if_neg (by omega), biIterate_pos w bi hev hP hN f 1 (by omega) (by omega) (by omega), if_pos h0]
    rfl
  · rw [biIterate_pos w bi hev hP hN fuel 0 (by omega) (by omega) (by omega), if_neg h0,
      setBits_skip bi.pos 0 1 w (by omega) (by omega)
        (by intro j _ hj
            rw [show j = 0 by omega, Nat.testBit, Nat.shiftRight_zero, Nat.one_and_eq_mod_two]
            simp [hev])]
    rfl

/-! ### iteration and membership under the invariant -/

theorem biIterate_of_bits (w : Nat) (hw : 2 ≤ w) (xs : List Int) (bi : Bi) (h : BiBits w xs bi)
    (fuel : Nat) (hf : 2 * w + 1 ≤ fuel) : biIterate w bi fuel 0 = some (canonS (w - 1) xs) := by
  obtain ⟨h1, h2, h3, h4, h5⟩ := h
  rw [biIterate_bits w hw bi h1 h2 h3 fuel hf]
  have := setBits_eq_canonS (w - 1) bi.pos bi.neg xs h4 h5
  rw [show w - 1 + 1 = w by omega] at this
  rw [this]

theorem canonS_single (m : Nat) (v : Int) (h : -(m:Int) ≤ v ∧ v ≤ m) : canonS m [v] = [v] :=
  (eq_canonS m [v] [v] (by simpa using h) (by simp) (fun _ => Iff.rfl)).symm

theorem biIterate_of_R (w : Nat) (hw : 2 ≤ w) (xs : List Int) (bi : Bi)
    (hxs : ∀ v ∈ xs, -((w:Int) - 1) ≤ v ∧ v ≤ (w:Int) - 1) (h : BiR w xs bi)
    (fuel : Nat) (hf : 2 * w + 1 ≤ fuel) : biIterate w bi fuel 0 = some (canonS (w - 1) xs) := by
  rcases h with ⟨h1, h2⟩ | ⟨v, h1, h2⟩ | ⟨_, h2⟩
  · subst h1 h2
    exact biIterate_of_bits w hw [] _ (BiBits_nil w) fuel hf
  · subst h1 h2
    have hv := hxs v (by simp)
    have hlt := lt_two_pow_pred w
    have hts : toS w (toU w v) = v := toS_toU w (by omega) v (by omega) (by omega)
    rw [canonS_single (w - 1) v (by omega)]
    obtain ⟨f, rfl⟩ : ∃ f, fuel = f + 2 := ⟨fuel - 2, by omega⟩
    simp [biIterate, biNext, hts]
  · exact biIterate_of_bits w hw xs bi h2 fuel hf

theorem biHasBit_of_R (w : Nat) (hw : 2 ≤ w) (xs : List Int) (bi : Bi) (x : Int)
    (hxs : ∀ v ∈ xs, -((w:Int) - 1) ≤ v ∧ v ≤ (w:Int) - 1)
    (hx : -((w:Int) - 1) ≤ x ∧ x ≤ (w:Int) - 1) (h : BiR w xs bi) :
    biHasBit w bi x = decide (x ∈ xs) := by
  have hbits : ∀ (xs : List Int) (bi : Bi), BiBits w xs bi → biHasBit w bi x = decide (x ∈ xs) := by
    intro xs bi ⟨h1, _, _, h4, h5⟩
    have hodd : ¬ (bi.pos % 2 = 1) := by omega
    unfold biHasBit
    rw [if_neg hodd]
    by_cases hp : x > 0
    · rw [if_pos hp]
      have := h4 x.toNat (by omega)
      rw [show ((x.toNat : Nat) : Int) = x by omega] at this
      rw [← this, Nat.testBit, Nat.one_and_eq_mod_two]
      simp
    · rw [if_neg hp]
      have := h5 (-x).toNat
      rw [show -(((-x).toNat : Nat) : Int) = x by omega] at this
      have hs := sar_testBit w bi.neg (-x).toNat 0 (by omega)
      rw [Nat.zero_add] at hs
      rw [← this, ← hs, Nat.testBit, Nat.shiftRight_zero, Nat.one_and_eq_mod_two]
      simp
  rcases h with ⟨h1, h2⟩ | ⟨v, h1, h2⟩ | ⟨_, h2⟩
  · subst h1 h2
    exact hbits [] _ (BiBits_nil w)
  · subst h1 h2
    have hv := hxs v (by simp)
    have hlt := lt_two_pow_pred w
    have hts : toS w (toU w v) = v := toS_toU w (by omega) v (by omega) (by omega)
    simp only [biHasBit, hts, if_true, List.mem_singleton]
    by_cases e : v = x
    · subst e; simp
    · have e' : ¬ x = v := fun h => e h.symm
      simp [e, e']
  · exact hbits xs bi h2

end Echse.Bitint
