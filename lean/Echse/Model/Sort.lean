/-
  Model of src/wikisort.c as instantiated in instant.c (`T = echs_instant_t`,
  `compare = echs_instant_lt_p`) and event.c (`T = echs_event_t`, compare on `.from`).

  Covered by transcription: `InsertionSort`, `BinaryLast`, `InsertionSortBinary`,
  `FloorPowerOfTwo`, the `WikiIterator` (fixed-point range arithmetic), `MergeExternal`
  and the driver loop of `WikiSort` as long as every level takes the cache branch
  (`WikiIterator_length < 512`), which is the case for every array shorter than 1024.
  The array is represented by the list of its consecutive iterator ranges ("chunks");
  every comparison the C code makes is made here, in the same order.

  NOT transcribed: the in-place block-merge branch (levels with ranges of 512 elements or
  more, arrays of 1024 elements and up).  `wikiSort` falls back to the specification
  sort there; see DESIGN.md §5 C20 for what is claimed about those lengths.
-/
namespace Echse.Sort

variable {α : Type}

/-- `InsertionSort`: insert `temp` into the sorted prefix, scanning from the right while
`compare(temp, array[j-1])`.  `revPre` is the prefix reversed. -/
def insertRight (lt : α → α → Bool) (temp : α) : List α → List α
  | [] => [temp]
  | x :: revPre => if lt temp x then x :: insertRight lt temp revPre else temp :: x :: revPre

/-- `InsertionSort(array, range)` on the list of the range's elements -/
def insertionSort (lt : α → α → Bool) (xs : List α) : List α :=
  (xs.foldl (fun revPre t => insertRight lt t revPre) []).reverse

/-- `BinaryLast(array, value, [0, n))` on a list: index behind the last element not greater than
`value` (upper bound), with the C loop's exact probing order. -/
def binaryLastLoop (lt : α → α → Bool) (arr : List α) (value : α) [Inhabited α] : Nat → Nat → Nat → Nat
  | 0, start, _ => start
  | fuel+1, start, stop =>
    if start < stop then
      let mid := start + (stop - start) / 2
      if !lt value (arr.getD mid default) then binaryLastLoop lt arr value fuel (mid + 1) stop
      else binaryLastLoop lt arr value fuel start mid
    else start

def binaryLast (lt : α → α → Bool) [Inhabited α] (arr : List α) (value : α) : Nat :=
  let n := arr.length
  if n = 0 then 0 else
  let start := binaryLastLoop lt arr value (n + 1) 0 (n - 1)
  if start = n - 1 ∧ !lt value (arr.getD start default) then start + 1 else start

/-- `InsertionSortBinary(array, range)` -/
def insertionSortBinary (lt : α → α → Bool) [Inhabited α] (xs : List α) : List α :=
  xs.foldl (fun pre t => let k := binaryLast lt pre t; pre.take k ++ t :: pre.drop k) []

/-- `MergeExternal`: `a` (copied to the cache) and `b`, taking from `a` unless `compare(*B, *A)` -/
def mergeExternal (lt : α → α → Bool) : List α → List α → List α
  | [], b => b
  | a, [] => a
  | x :: a, y :: b =>
    if !lt y x then x :: mergeExternal lt a (y :: b) else y :: mergeExternal lt (x :: a) b
termination_by a b => a.length + b.length

/-- `FloorPowerOfTwo` -/
def floorPow2 : Nat → Nat → Nat
  | 0, _ => 1
  | fuel+1, n => if n < 2 then n else 2 * floorPow2 fuel (n / 2)

structure WikiIter where
  size : Nat
  fractionalBase : Nat
  decimalStep : Nat
  fractionalStep : Nat
deriving Repr

/-- `WikiIterator_new(size, 8)` -/
def WikiIter.new (size minLevel : Nat) : WikiIter :=
  let p := floorPow2 64 size
  let fb := p / minLevel
  { size := size, fractionalBase := fb, fractionalStep := size % fb, decimalStep := size / fb }

/-- all ranges of one level: `begin; while (!finished) nextRange` — as a list of lengths -/
def WikiIter.lengths (it : WikiIter) : Nat → Nat → Nat → List Nat
  | 0, _, _ => []
  | fuel+1, decimal, fractional =>
    if decimal ≥ it.size then []
    else
      let d := decimal + it.decimalStep
      let f := fractional + it.fractionalStep
      let (d, f) := if f ≥ it.fractionalBase then (d + 1, f - it.fractionalBase) else (d, f)
      (d - decimal) :: it.lengths fuel d f

/-- `WikiIterator_nextLevel` -/
def WikiIter.nextLevel (it : WikiIter) : WikiIter × Bool :=
  let ds := it.decimalStep + it.decimalStep
  let fs := it.fractionalStep + it.fractionalStep
  let (ds, fs) := if fs ≥ it.fractionalBase then (ds + 1, fs - it.fractionalBase) else (ds, fs)
  ({ it with decimalStep := ds, fractionalStep := fs }, ds < it.size)

/-- cut a list into consecutive chunks of the given lengths -/
def chunks : List Nat → List α → List (List α)
  | [], _ => []
  | n :: ns, xs => xs.take n :: chunks ns (xs.drop n)

/-- one level of the cache branch: adjacent ranges A, B are merged when `compare(B[0], A[last])` -/
def mergeLevel (lt : α → α → Bool) [Inhabited α] : List (List α) → List (List α)
  | a :: b :: rest =>
    (if lt (b.headD default) (a.getLastD default) then mergeExternal lt a b else a ++ b) :: mergeLevel lt rest
  | rest => rest

/-- the level loop while `WikiIterator_length < 512`; the ranges of every level are recomputed from
the iterator, as the C code does -/
def levels (lt : α → α → Bool) [Inhabited α] : Nat → WikiIter → List α → Option (List α)
  | 0, _, _ => none
  | fuel+1, it, arr =>
    if it.decimalStep < 512 then
      let cs := chunks (it.lengths (it.size + 1) 0 0) arr
      let arr := (mergeLevel lt cs).flatten
      let (it', more) := it.nextLevel
      if more then levels lt fuel it' arr else some arr
    else none                                  -- in-place branch: not transcribed

/-- `WikiSort(array, size)`; `none` when a level would take the in-place branch -/
def wikiSortCache (lt : α → α → Bool) [Inhabited α] (xs : List α) : Option (List α) :=
  let size := xs.length
  if size ≤ 32 then some (insertionSort lt xs) else
  let it := WikiIter.new size 8
  let arr := ((chunks (it.lengths (size + 1) 0 0) xs).map (insertionSortBinary lt)).flatten
  levels lt 70 it arr

/-- specification: the stable sort (insertion of each element behind its equals) -/
def stableSort (lt : α → α → Bool) (xs : List α) : List α := insertionSort lt xs

def wikiSort (lt : α → α → Bool) [Inhabited α] (xs : List α) : List α :=
  (wikiSortCache lt xs).getD (stableSort lt xs)

end Echse.Sort
