"""shared by C03 (mux) and C02 (filter): stream trees, their reference semantics, harness build."""
import os

from . import common
from .common import hex16
from . import p_C08


def build(ctx):
    objs, log = ctx.lib_objects(exclude=("evical.c",))
    if objs is None:
        raise common.Broken("library does not compile: " + log[-1500:])
    exe, log = ctx.cc("hx_strm", [os.path.join(common.HARNESS, "hx_strm.c")] + objs, extra=common.HOOKS)
    if exe is None:
        raise common.Broken("harness hx_strm does not compile against the working tree:\n" + log[-1500:])
    return exe


def key(ev):
    return p_C08.okey(common.unhex16(ev[0]))


def tok(ev):
    return "%s:%d:%d" % ev


def render(tree):
    t = tree[0]
    if t == "L":
        return "L %d %s" % (len(tree[1]), " ".join(tok(e) for e in tree[1]))
    if t == "M":
        return "M %d %s" % (len(tree[1]), " ".join(render(s) for s in tree[1]))
    return "F %s %s" % (render(tree[1]), render(tree[2]))


def ref_list(tree):
    """reference output of a stream tree: k-way merge (ties: lower source first) with an identical
    (oid, from) at the head of another source collapsed; filter = drop events whose start equals an exception start."""
    t = tree[0]
    if t == "L":
        return list(tree[1])
    if t == "M":
        srcs = [ref_list(s) for s in tree[1]]
        srcs = [s for s in srcs if s is not None]
        out = []
        while any(srcs):
            cand = [(key(s[0]), i) for i, s in enumerate(srcs) if s]
            _, bi = min(cand)
            e = srcs[bi][0]
            out.append(e)
            for i, s in enumerate(srcs):
                if s and (s[0][0], s[0][1]) == (e[0], e[1]):
                    s.pop(0)
        return out
    es = ref_list(tree[1])
    xs = ref_list(tree[2])
    xset = {x[0] for x in xs}
    return [e for e in es if e[0] not in xset]


def leaves(tree):
    if tree[0] == "L":
        return [tree[1]]
    if tree[0] == "M":
        return sum((leaves(s) for s in tree[1]), [])
    return leaves(tree[1]) + leaves(tree[2])


def run_script(lst, script):
    out, i = [], 0
    for c in script:
        out.append("-" if i >= len(lst) else "%s:%d" % (lst[i][0], lst[i][1]))
        if c == "p" and i < len(lst):
            i += 1
    return out
