/-
  C01, `fillHly` (FREQ=HOURLY) against RFC 5545, part 4: BYSETPOS and the theorems `fillHly_sound_*`,
  `fillHly_complete_*` against `Echse.Spec.Rfc.HourlyInst`.
-/
import Echse.Lemmas.RrHlyRfc3
namespace Echse.Lemmas.RrHlyRfc
open Echse.Rrule Echse.Instant Echse.Spec.RrOk Echse.Lemmas.RrSubOk Echse.Spec.Rfc Echse.Spec.Cal Echse.Spec.RuleExt
open Echse.Lemmas.RrHlyOk Echse.Lemmas.RrSubRfc

/-! ### positions in `timesMS` -/

theorem flat_get (S : List Nat) (iS s : Nat) (h2 : S[iS]? = some s) : ∀ (Ms : List Nat) (k iM mi : Nat),
    Ms[iM]? = some mi →
    ((Ms.zipIdx k).flatMap fun (x : Nat × Nat) => S.zipIdx.map fun (y : Nat × Nat) => (x.2, y.2, x.1, y.1))[
      iM * S.length + iS]? = some (k + iM, iS, mi, s) := by
  have hiS : iS < S.length := by
    by_cases c : iS < S.length
    · exact c
    · rw [List.getElem?_eq_none (by omega)] at h2; cases h2
  intro Ms
  induction Ms with
  | nil => intro k iM mi h; simp at h
  | cons a Ms' ih =>
    intro k iM mi h1
    simp only [List.zipIdx_cons, List.flatMap_cons]
    cases iM with
    | zero =>
      simp only [List.getElem?_cons_zero, Option.some.injEq] at h1
      subst h1
      rw [Nat.zero_mul, Nat.zero_add, List.getElem?_append_left (by simpa using hiS)]
      simp [List.getElem?_map, List.getElem?_zipIdx, h2]
    | succ iM =>
      simp only [List.getElem?_cons_succ] at h1
      have e : (iM + 1) * S.length + iS = S.length + (iM * S.length + iS) := by
        rw [Nat.succ_mul]; omega
      rw [e, List.getElem?_append_right (by simp)]
      simp only [List.length_map, List.length_zipIdx, Nat.add_sub_cancel_left]
      rw [ih (k + 1) iM mi h1]
      congr 2
      omega

theorem timesMS_get (e : Enum) (iM iS mi s : Nat) (h1 : e.M[iM]? = some mi) (h2 : e.S[iS]? = some s) :
    e.timesMS[iM * e.S.length + iS]? = some (iM, iS, mi, s) := by
  have := flat_get e.S iS s h2 e.M 0 iM mi h1
  rw [Nat.zero_add] at this
  exact this

theorem timesMS_length (e : Enum) : e.timesMS.length = e.M.length * e.S.length := by
  unfold Enum.timesMS
  have : ∀ (Ms : List (Nat × Nat)), (Ms.flatMap fun (x : Nat × Nat) =>
      e.S.zipIdx.map fun (y : Nat × Nat) => (x.2, y.2, x.1, y.1)).length = Ms.length * e.S.length := by
    intro Ms
    induction Ms with
    | nil => simp
    | cons a t ih =>
      simp only [List.flatMap_cons, List.length_append, ih, List.length_map, List.length_zipIdx, List.length_cons]
      rw [Nat.succ_mul]; omega
  have h := this e.M.zipIdx
  rw [List.length_zipIdx] at h
  exact h

/-! ### BYSETPOS: the instances of an hour are its enumerated minutes and seconds -/

theorem hour_insts (r : Rule) (p : Inst) (hr : WfRule r) (hp : WfInst p) (hf : r.freq = 5) (x : Inst)
    (hx : HourlyInst r (seedT p) x) (y : Inst) :
    (Instance r (seedT p) y ∧ periodOf r.freq y = periodOf r.freq x) ↔
      ∃ t ∈ (subEnum p r).timesMS, y = { x with M := t.2.2.1, S := t.2.2.2 } := by
  have hI : Instance r (seedT p) y = HourlyInst r (seedT p) y := by unfold Instance; rw [hf]; rfl
  have hP : ∀ z, periodOf r.freq z = habsOf z := by intro z; rw [hf]; rfl
  rw [hI, hP, hP]
  obtain ⟨t1, _, _, _⟩ := seedT_time p hp
  have hne : (seedT p).H ≠ allDay := by simp only [allDay]; omega
  have hT := (timesMS_sorted (subEnum p r) (subEnum_M r p hr hp) (subEnum_S r p hr hp)).2
  obtain ⟨⟨a1, a2, a3, a4, a5, a6⟩, xne, xk, l1, l2, l3, l4, l5⟩ := hx
  rcases a6 with ⟨c, _⟩ | ⟨_, aH, aM, aS⟩
  · exact absurd c hne
  constructor
  · rintro ⟨⟨⟨b1, b2, b3, b4, b5, b6⟩, yne, _, _, _, _, m4, m5⟩, hper⟩
    rcases b6 with ⟨c, _⟩ | ⟨_, bH, bM, bS⟩
    · exact absurd c hne
    rw [if_neg hne] at m4 m5
    obtain ⟨iM, iS, hent, _, _⟩ := entry_of (subEnum p r) y.M y.S ((minExp_iff r p hr hp y).mp m4)
      ((secExp_iff r p hr hp y).mp m5)
    refine ⟨_, hent, ?_⟩
    simp only [habsOf, dayOf] at hper
    have he : days y.y y.m y.d = days x.y x.m x.d := by omega
    obtain ⟨e1, e2, e3⟩ := days_inj _ _ _ _ _ _ b1 b2 b3 b4 a1 a2 a3 a4 he
    rw [he] at hper
    have e4 : y.H = x.H := by omega
    have e6 : y.ms = x.ms := by rw [b5, a5]
    cases y; cases x; simp_all
  · rintro ⟨t, ht, rfl⟩
    obtain ⟨hm60, hs60⟩ := hT t ht
    obtain ⟨m1, m2⟩ := (mem_timesMS _ t).mp ht
    refine ⟨⟨⟨a1, a2, a3, a4, a5, Or.inr ⟨hne, aH, hm60, hs60⟩⟩, xne, xk, l1, l2, l3, ?_, ?_⟩, rfl⟩
    · rw [if_neg hne, minExp_iff r p hr hp]
      exact List.fst_mem_of_mem_zipIdx (x := (t.2.2.1, t.1)) m1
    · rw [if_neg hne, secExp_iff r p hr hp]
      exact List.fst_mem_of_mem_zipIdx (x := (t.2.2.2, t.2.1)) m2

theorem setpos_hly (r : Rule) (p : Inst) (hr : WfRule r) (hp : WfInst p) (hf : r.freq = 5) (x : Inst)
    (hx : HourlyInst r (seedT p) x) (t : Nat × Nat × Nat × Nat) (ht : t ∈ (subEnum p r).timesMS)
    (eM : t.2.2.1 = x.M) (eS : t.2.2.2 = x.S) :
    SetposOk r (seedT p) x ↔ pickH r p t = true := by
  have hxne : x.H ≠ allDay := hx.2.1
  have hT := timesMS_sorted (subEnum p r) (subEnum_M r p hr hp) (subEnum_S r p hr hp)
  obtain ⟨m1, m2⟩ := (mem_timesMS _ t).mp ht
  have hget := timesMS_get (subEnum p r) t.1 t.2.1 t.2.2.1 t.2.2.2 (List.mem_zipIdx_iff_getElem?.mp m1)
    (List.mem_zipIdx_iff_getElem?.mp m2)
  have hasc : (subEnum p r).timesMS.Pairwise (fun a b => 60 * a.2.2.1 + a.2.2.2 < 60 * b.2.2.1 + b.2.2.2) := by
    refine List.Pairwise.imp_of_mem ?_ hT.1
    intro a b ha hb hab
    have := hT.2 a ha
    have := hT.2 b hb
    simp only [tk] at hab
    omega
  have := setpos_generic r (seedT p) x (subEnum p r).timesMS (fun a => 60 * a.2.2.1 + a.2.2.2)
    (fun a => { x with M := a.2.2.1, S := a.2.2.2 }) (t.1 * (subEnum p r).S.length + t.2.1) t hasc hget
    (by show ({ x with M := t.2.2.1, S := t.2.2.2 } : Inst) = x; rw [eM, eS])
    (hour_insts r p hr hp hf x hx) (by
      intro a b
      simp only [absOf, dayOf, secOf, if_neg hxne]
      omega)
  rw [this, timesMS_length]
  rfl

/-! ### the theorems -/

/-- none extra, general seed: every instant written is an instance of the rule anchored at the seed -/
theorem fillHly_sound_gen (r : Rule) (p : Inst) (n : Nat) (l : List Inst) (hr : WfRule r) (hp : WfInst p)
    (hy : 1901 ≤ p.y) (h : fillHly r p n = some l) : ∀ x ∈ l, HourlyInst r (seedT p) x :=
  fun x hx => good_inst r p hr hp x (fillHly_good r p n l hr hp hy h x hx)

/-- BYSETPOS, general seed: what is written is one of the chosen positions of its hour -/
theorem fillHly_setpos_gen (r : Rule) (p : Inst) (n : Nat) (l : List Inst) (hr : WfRule r) (hp : WfInst p)
    (hy : 1901 ≤ p.y) (hf : r.freq = 5) (h : fillHly r p n = some l) : ∀ x ∈ l, SetposOk r (seedT p) x := by
  intro x hx
  have hg := fillHly_good r p n l hr hp hy h x hx
  have hinst := good_inst r p hr hp x hg
  obtain ⟨_, _, _, _, ⟨t, ht, e1, e2, hpk⟩, _⟩ := hg
  exact (setpos_hly r p hr hp hf x hinst t ht e1 e2).mpr hpk

/-- none missing, general seed, no BYSETPOS -/
theorem fillHly_complete_gen (r : Rule) (p : Inst) (n cap : Nat) (l : List Inst) (hr : WfRule r) (hp : WfInst p)
    (hy : 1901 ≤ p.y) (hpos : r.pos = []) (hcap : capNti r n = some cap) (h : fillHly r p n = some l)
    (x : Inst) (hx : HourlyInst r (seedT p) x) (hge : absOf (seedT p) ≤ absOf x)
    (hu : ltP r.untl x = false) (hxy : x.y ≤ 2099) :
    x ∈ l ∨ (l.length = cap ∧ ∀ z ∈ l, ltP z x = true) :=
  fillHly_complete_pick r p n cap l hr hp hy hcap h x hx (fun t _ _ _ => by unfold pickH; rw [hpos]; rfl) hge hu hxy

/-- none missing, general seed, with BYSETPOS -/
theorem fillHly_complete_pos_gen (r : Rule) (p : Inst) (n cap : Nat) (l : List Inst) (hr : WfRule r) (hp : WfInst p)
    (hy : 1901 ≤ p.y) (hf : r.freq = 5) (hcap : capNti r n = some cap) (h : fillHly r p n = some l)
    (x : Inst) (hx : HourlyInst r (seedT p) x) (hsp : SetposOk r (seedT p) x) (hge : absOf (seedT p) ≤ absOf x)
    (hu : ltP r.untl x = false) (hxy : x.y ≤ 2099) :
    x ∈ l ∨ (l.length = cap ∧ ∀ z ∈ l, ltP z x = true) :=
  fillHly_complete_pick r p n cap l hr hp hy hcap h x hx
    (fun t ht e1 e2 => (setpos_hly r p hr hp hf x hx t ht e1 e2).mp hsp) hge hu hxy

/-- none extra (timed seed): every instant written is an instance of the rule anchored at the seed, at one of the
positions BYSETPOS asks for -/
theorem fillHly_sound_partial (r : Rule) (p : Inst) (n : Nat) (l : List Inst) (hr : WfRule r) (hp : WfInst p)
    (hy : 1901 ≤ p.y) (hH : p.H ≠ allDay) (hf : r.freq = 5) (h : fillHly r p n = some l) :
    ∀ x ∈ l, HourlyInst r p x ∧ SetposOk r p x := by
  intro x hx
  have h1 := fillHly_sound_gen r p n l hr hp hy h x hx
  have h2 := fillHly_setpos_gen r p n l hr hp hy hf h x hx
  rw [seedT_timed p hH] at h1 h2
  exact ⟨h1, h2⟩

/-- none missing (timed seed): an instance at one of the chosen positions, at or after the seed, not after UNTIL and
not after 2099, is in the list, or the list is full (`cap` = what `capNti` allows: `n`, or COUNT if smaller) and ends
before it -/
theorem fillHly_complete_partial (r : Rule) (p : Inst) (n cap : Nat) (l : List Inst) (hr : WfRule r) (hp : WfInst p)
    (hy : 1901 ≤ p.y) (hH : p.H ≠ allDay) (hf : r.freq = 5) (hcap : capNti r n = some cap)
    (h : fillHly r p n = some l) (x : Inst) (hx : HourlyInst r p x) (hsp : SetposOk r p x)
    (hge : absOf p ≤ absOf x) (hu : ltP r.untl x = false) (hxy : x.y ≤ 2099) :
    x ∈ l ∨ (l.length = cap ∧ ∀ z ∈ l, ltP z x = true) := by
  have := fillHly_complete_pos_gen r p n cap l hr hp hy hf hcap h x
  rw [seedT_timed p hH] at this
  exact this hx hsp hge hu hxy

end Echse.Lemmas.RrHlyRfc
