/-
  C01 for the monthly filler, part 1 (layer L1): the candidate set of a month is exactly the set of days the
  specification's `MonthlyInst` allows (`mlyCand_iff`), for the rules `MlySup` covers.
-/
import Echse.Lemmas.RrCandRfc5
import Echse.Lemmas.RrRfcBase6
namespace Echse.Lemmas.RrMlyRfc
open Echse.Rrule Echse.Instant Echse.Spec.RrOk Echse.Lemmas.RrCandOk Echse.Spec.Rfc Echse.Lemmas.RrRfc
open Echse.Lemmas.RrCandRfc Echse.Lemmas.RrMlyOk Echse.Spec.Cal Echse.Spec.RuleExt

/-- the date condition of `MonthlyInst` -/
def MlyDate (r : Rule) (ds x : Inst) : Prop :=
  if r.dom ≠ [] then mdayOk r x ∧ (r.dow = [] ∨ bydayInMonth r x)
  else if r.dow ≠ [] then bydayInMonth r x
  else x.d = ds.d

/-- the MONTHLY rules covered: BYMONTHDAY as the parser's bit set hands it out (at most 62 values) -/
structure MlySup (r : Rule) : Prop where
  domLen : r.dom.length ≤ 62

/-- a date of the supported range -/
structure DateIn (x : Inst) : Prop where
  v : VDs x.y x.m x.d
  lo : 1901 ≤ x.y
  hi : x.y ≤ 2099

theorem DateIn.ndom {x : Inst} (h : DateIn x) : getNdom x.y x.m = monthLen x.y x.m :=
  ndom_eq h.v.1 h.v.2.1 (Or.inl (by have := h.lo; omega)) h.hi

theorem DateIn.wd {x : Inst} (h : DateIn x) (d : Nat) (hd : d ≤ 31) :
    ymdGetWday x.y x.m d = wdayOf (days x.y x.m d) :=
  Echse.RuleExt.wday_eq x.y x.m d (by have := h.lo; omega) (by have := h.hi; omega) h.v.1 h.v.2.1 hd

theorem DateIn.wdAdd {x : Inst} (h : DateIn x) (i : Nat) :
    wdAdd (ymdGetWday x.y x.m 1) i = wdayOf (days x.y x.m 1 + i) := by
  rw [h.wd 1 (by omega), wdayOf_add]

theorem DateIn.dayOf {x : Inst} (_h : DateIn x) : dayOf x = days x.y x.m 1 + ((x.d - 1 : Nat) : Int) := by
  unfold Echse.Spec.Rfc.dayOf
  have := _h.v.2.2.1
  rw [Echse.Instant.days_d]; omega

/-- a bit of the BYDAY mask: a plain entry with that weekday -/
theorem mask_bit_iff (r : Rule) (hr : WfRule r) (wd : Nat) (h : 1 ≤ wd ∧ wd ≤ 7) :
    bit (wdMaskOf r.dow) wd = true ↔ ∃ t ∈ r.dow, ordOf t = 0 ∧ wdOf t = wd := by
  rw [wdMaskOf_bit r wd h.1 h.2, mem_plainDays]
  unfold ordOf wdOf
  constructor
  · intro ⟨h1, h2, h3⟩; exact ⟨wd, h1, by omega, by omega⟩
  · rintro ⟨t, ht, h1, h2⟩
    have := hr.dow t ht
    have e : t = wd := by omega
    rw [← e]; exact ⟨ht, by omega, by omega⟩

/-- the ds list the filler sets up -/
theorem mlyCtx_ds (r : Rule) (p : Inst) (nti : Nat) (hs : MlySup r) (hp : WfInst p) :
    (mlyCtxOf r p nti).ds = if r.dom = [] ∧ r.dow = [] then [(p.d : Int)] else r.dom := by
  unfold mlyCtxOf
  dsimp only
  rw [List.take_of_length_le hs.domLen]
  have hd := hp.day.1
  by_cases c1 : r.dom = []
  · by_cases c2 : r.dow = []
    · simp [c1, c2]; omega
    · simp [c1, c2]
  · simp [c1]

theorem mlyCtx_wd (r : Rule) (p : Inst) (nti : Nat) : (mlyCtxOf r p nti).wdMask = wdMaskOf r.dow := rfl

theorem mlyCand_A (c : MlyCtx) (y m : Nat) (h : c.ds ≠ []) : mlyCand c y m = fillMlyYmd [] y m c.ds c.r.dow c.wdMask := by
  have hn : c.ds.length ≠ 0 := by
    intro e; exact h (List.length_eq_zero_iff.mp e)
  unfold mlyCand
  dsimp only
  rw [if_pos hn]
  by_cases c1 : c.wdMask ≠ 0
  · rw [if_pos ⟨c1, hn⟩]
  · rw [if_neg (fun h => c1 h.1), if_neg c1]

theorem mlyCand_B (c : MlyCtx) (y m : Nat) (h : c.ds = []) (hw : c.wdMask ≠ 0) :
    mlyCand c y m =
      fillMlyYmdAllD (if c.wdMask % 2 = 1 then fillMlyYmcw [] y m c.r.dow else []) y m c.wdMask := by
  have hn : ¬ c.ds.length ≠ 0 := by rw [h]; simp
  unfold mlyCand
  dsimp only
  rw [if_neg hn, if_neg (fun h => hn h.2), if_pos hw]

/-- BYMONTHDAY values `ds` with the BYDAY limit, for a date `x` -/
theorem mem_ymd_date (ds : List Int) (dow : List Int) (wdMask : Nat) (x : Inst) (hx : DateIn x)
    (hds : ∀ dd ∈ ds, -31 ≤ dd ∧ dd ≤ 31) :
    packCand x.m x.d ∈ fillMlyYmd [] x.y x.m ds dow wdMask ↔
      (∃ n ∈ ds, (0 < n ∧ n = x.d) ∨ (n < 0 ∧ (monthLen x.y x.m : Int) + 1 + n = x.d)) ∧
      DLimB dow wdMask x.y x.m x.d (wdayOf (dayOf x)) true := by
  have hv := hx.v
  have h31 := hv.d31
  have hwd : ymdGetWday x.y x.m x.d = wdayOf (dayOf x) := hx.wd x.d h31
  rw [mem_fillMlyYmd]
  constructor
  · rintro (h | ⟨dd0, hdd, d, hp, hw, he⟩)
    · cases h
    · have hd := pickDom_ok dd0 _ d (hds dd0 hdd) (getNdom_le _ _) hp
      have hd31 : d ≤ 31 := by have := getNdom_le x.y x.m; omega
      have e := (packCand_inj ⟨hv.1, hv.2.1⟩ h31 ⟨hv.1, hv.2.1⟩ hd31 he).2
      subst e
      rw [hwd] at hw
      rw [hx.ndom] at hp
      have := (pickDom_spec dd0 _ x.d (hds dd0 hdd) (by have := hv.2.2.2; have := getNdom_le x.y x.m; rw [hx.ndom] at this; omega)).1 hp
      exact ⟨⟨dd0, hdd, this.2.2⟩, hw⟩
  · rintro ⟨⟨n, hn, hc⟩, hw⟩
    right
    refine ⟨n, hn, x.d, ?_, ?_, rfl⟩
    · rw [hx.ndom]
      have hml : monthLen x.y x.m ≤ 31 := by have := getNdom_le x.y x.m; rw [hx.ndom] at this; exact this
      exact (pickDom_spec n _ x.d (hds n hn) hml).2 ⟨hv.2.2.1, hv.2.2.2, hc⟩
    · rw [hwd]; exact hw

/-- the n-th weekday within its month, in terms of the day of the month -/
theorem nth_month (x : Inst) (hx : DateIn x) (n : Int) :
    NthWeekday n (days x.y x.m 1) (days x.y x.m (monthLen x.y x.m)) (dayOf x) ↔
      ((0 < n ∧ ((x.d : Int) - 1) / 7 + 1 = n) ∨ (n < 0 ∧ ((monthLen x.y x.m : Int) - x.d) / 7 + 1 = -n)) := by
  have hv := hx.v
  have e1 := hx.dayOf
  have e2 : days x.y x.m (monthLen x.y x.m) = days x.y x.m 1 + monthLen x.y x.m - 1 := Echse.Instant.days_d _ _ _
  unfold NthWeekday
  rw [e1, e2]
  have := hv.2.2.1; have := hv.2.2.2
  generalize days x.y x.m 1 = lo
  constructor
  · rintro ⟨_, _, h | h⟩
    · left; refine ⟨h.1, ?_⟩; rw [← h.2]; congr 2; omega
    · right; refine ⟨h.1, ?_⟩; rw [← h.2]; congr 2; omega
  · rintro (h | h)
    · refine ⟨by omega, by omega, Or.inl ⟨h.1, ?_⟩⟩; rw [← h.2]; congr 2; omega
    · refine ⟨by omega, by omega, Or.inr ⟨h.1, ?_⟩⟩; rw [← h.2]; congr 2; omega

/-- BYDAY within a month (no BYMONTHDAY): counted and plain weekdays -/
theorem mem_cw_date (r : Rule) (hr : WfRule r) (x : Inst) (hx : DateIn x) (hw : wdMaskOf r.dow ≠ 0) :
    packCand x.m x.d ∈ fillMlyYmdAllD (if wdMaskOf r.dow % 2 = 1 then fillMlyYmcw [] x.y x.m r.dow else [])
      x.y x.m (wdMaskOf r.dow) ↔ bydayInMonth r x := by
  have hv := hx.v
  have h31 := hv.d31
  have hm : 1 ≤ x.m ∧ x.m ≤ 12 := ⟨hv.1, hv.2.1⟩
  have hwdr := wdayOf_range (dayOf x)
  have hwdx : wdAdd (ymdGetWday x.y x.m 1) (x.d - 1) = wdayOf (dayOf x) := by rw [hx.wdAdd, hx.dayOf]
  rw [mem_fillMlyYmdAllD]
  unfold bydayInMonth
  constructor
  · rintro (h | ⟨i, hi, hb, he⟩)
    · by_cases c : wdMaskOf r.dow % 2 = 1
      · rw [if_pos c, mem_fillMlyYmcw] at h
        rcases h with h | ⟨t, ht, hc, hd0, he⟩
        · cases h
        · have hwt := hr.dow t ht
          have hd := ymcwGetDom_ok x.y x.m (t / 8) (t % 8).toNat hm (by omega) (by omega)
          have hd31 : ymcwGetDom x.y x.m (t / 8) (t % 8).toNat ≤ 31 := by have := getNdom_le x.y x.m; omega
          have e := (packCand_inj hm h31 hm hd31 he).2
          have sp := (ymcwGetDom_spec x.y x.m (t / 8) (t % 8).toNat hm (by omega) (by omega) x.d).1
            ⟨e.symm, by omega⟩
          rw [hwdx, hx.ndom] at sp
          refine ⟨t, ht, ?_, Or.inr ((nth_month x hx _).2 sp.2.2.2)⟩
          unfold wdOf; omega
      · rw [if_neg c] at h; cases h
    · have hi31 : i + 1 ≤ 31 := by have := getNdom_le x.y x.m; omega
      have e := (packCand_inj hm h31 hm hi31 he).2
      have e' : i = x.d - 1 := by omega
      rw [e', hwdx] at hb
      rcases hb with hb | hb
      · exact absurd hb hw
      · obtain ⟨t, ht, h1, h2⟩ := (mask_bit_iff r hr _ hwdr).1 hb
        exact ⟨t, ht, h2, Or.inl h1⟩
  · rintro ⟨t, ht, hwt, ho | hn⟩
    · right
      refine ⟨x.d - 1, by rw [hx.ndom]; have := hv.2.2.1; have := hv.2.2.2; omega, Or.inr ?_, ?_⟩
      · rw [hwdx]; exact (mask_bit_iff r hr _ hwdr).2 ⟨t, ht, ho, hwt⟩
      · have := hv.2.2.1
        have e : x.d - 1 + 1 = x.d := by omega
        rw [e]
    · left
      have hwf := hr.dow t ht
      have hn' := (nth_month x hx _).1 hn
      have hc0 : t / 8 ≠ 0 := by unfold ordOf at hn'; omega
      have c : wdMaskOf r.dow % 2 = 1 := (wdMask_bit0 r.dow).2 ⟨t, ht, by omega⟩
      rw [if_pos c, mem_fillMlyYmcw]
      right
      have sp := (ymcwGetDom_spec x.y x.m (t / 8) (t % 8).toNat hm (by omega) (by omega) x.d).2 (by
        rw [hwdx, hx.ndom]
        refine ⟨hv.2.2.1, hv.2.2.2, ?_, hn'⟩
        unfold wdOf at hwt; omega)
      exact ⟨t, ht, hc0, by rw [sp.1]; exact sp.2, by rw [sp.1]⟩

/-- BYDAY as a limit within a month (`dow_limit_p` with `mp`): plain weekdays, or the n-th ones of the month -/
theorem dlim_month (r : Rule) (hr : WfRule r) (x : Inst) (hx : DateIn x) :
    DLimB r.dow (wdMaskOf r.dow) x.y x.m x.d (wdayOf (dayOf x)) true ↔ (r.dow = [] ∨ bydayInMonth r x) := by
  have hv := hx.v
  have hm : 1 ≤ x.m ∧ x.m ≤ 12 := ⟨hv.1, hv.2.1⟩
  have hwdr := wdayOf_range (dayOf x)
  have hwdx : wdAdd (ymdGetWday x.y x.m 1) (x.d - 1) = wdayOf (dayOf x) := by rw [hx.wdAdd, hx.dayOf]
  unfold DLimB
  rw [dowLimitP_iff, mask_bit_iff r hr _ hwdr]
  simp only [if_true]
  constructor
  · rintro (h | ⟨t, ht, h1, h2⟩ | ⟨_, t, ht, h1, h2, h3⟩)
    · left
      apply Classical.byContradiction; intro c
      exact (wdMask_ne_zero r).2 c h
    · exact Or.inr ⟨t, ht, h2, Or.inl h1⟩
    · right
      have hwt := hr.dow t ht
      have sp := (ymcwGetDom_spec x.y x.m (t / 8) (t % 8).toNat hm (by omega) (by omega) x.d).1
        ⟨h3, by have := hv.2.2.1; omega⟩
      rw [hwdx, hx.ndom] at sp
      refine ⟨t, ht, ?_, Or.inr ((nth_month x hx _).2 sp.2.2.2)⟩
      unfold wdOf; omega
  · rintro (h | ⟨t, ht, hwt, ho | hn⟩)
    · left; rw [h]; rfl
    · exact Or.inr (Or.inl ⟨t, ht, ho, hwt⟩)
    · right; right
      have hwf := hr.dow t ht
      have hn' := (nth_month x hx _).1 hn
      have hc0 : t / 8 ≠ 0 := by unfold ordOf at hn'; omega
      have c : wdMaskOf r.dow % 2 = 1 := (wdMask_bit0 r.dow).2 ⟨t, ht, by omega⟩
      have sp := (ymcwGetDom_spec x.y x.m (t / 8) (t % 8).toNat hm (by omega) (by omega) x.d).2 (by
        rw [hwdx, hx.ndom]
        refine ⟨hv.2.2.1, hv.2.2.2, ?_, hn'⟩
        unfold wdOf at hwt; omega)
      refine ⟨c, t, ht, hc0, ?_, sp.1⟩
      unfold wdOf at hwt; omega

/-- L1: the candidate set of a month is the set of days the specification allows -/
theorem mlyCand_iff (r : Rule) (p : Inst) (nti : Nat) (hr : WfRule r) (hp : WfInst p) (hs : MlySup r)
    (x : Inst) (hx : DateIn x) :
    packCand x.m x.d ∈ mlyCand (mlyCtxOf r p nti) x.y x.m ↔ MlyDate r p x := by
  have hds := mlyCtx_ds r p nti hs hp
  have hwm := mlyCtx_wd r p nti
  have hrr : (mlyCtxOf r p nti).r = r := rfl
  unfold MlyDate
  by_cases c1 : r.dom = []
  · rw [if_neg (by simp [c1])]
    by_cases c2 : r.dow = []
    · -- DTSTART's day of the month
      rw [if_neg (by simp [c2])]
      rw [if_pos ⟨c1, c2⟩] at hds
      rw [mlyCand_A _ _ _ (by rw [hds]; simp), hds, hwm, hrr]
      have hpd := hp.day
      have hpd31 : p.d ≤ 31 := by have := getNdom_le p.y p.m; omega
      rw [mem_ymd_date _ _ _ x hx (by intro dd hdd; simp at hdd; omega)]
      have hw0 : wdMaskOf r.dow = 0 := by rw [c2]; rfl
      constructor
      · rintro ⟨⟨n, hn, hc⟩, _⟩
        simp at hn; omega
      · intro e
        exact ⟨⟨p.d, by simp, Or.inl ⟨by omega, by omega⟩⟩, Or.inl hw0⟩
    · -- BYDAY within the month
      rw [if_pos c2]
      rw [if_neg (fun h => c2 h.2)] at hds
      have hw : wdMaskOf r.dow ≠ 0 := (wdMask_ne_zero r).2 c2
      rw [mlyCand_B _ _ _ (by rw [hds, c1]) (by rw [hwm]; exact hw), hwm]
      exact mem_cw_date r hr x hx hw
  · -- BYMONTHDAY, BYDAY limits
    rw [if_pos c1]
    rw [if_neg (fun h => c1 h.1)] at hds
    rw [mlyCand_A _ _ _ (by rw [hds]; exact c1), hds, hwm, hrr]
    rw [mem_ymd_date _ _ _ x hx (fun dd hdd => by have := hr.dom dd hdd; omega)]
    apply and_congr
    · unfold mdayOk; simp [c1]
    · exact dlim_month r hr x hx

/-- every candidate of a month is a real day of that month -/
theorem mlyCand_shape (r : Rule) (p : Inst) (nti : Nat) (hr : WfRule r) (hp : WfInst p) (y m : Nat)
    (hm : 1 ≤ m ∧ m ≤ 12) (c : Nat) (hc : c ∈ mlyCand (mlyCtxOf r p nti) y m) :
    c = packCand m (c % 32) ∧ 1 ≤ c % 32 ∧ c % 32 ≤ getNdom y m := by
  have hds := mlyCtxOf_ds r p nti hr hp
  have hdow : ∀ t ∈ (mlyCtxOf r p nti).r.dow, -431 ≤ t ∧ t ≤ 431 ∧ t % 8 ≠ 0 := by
    intro t ht; have := hr.dow t ht; omega
  have h1 := (mlyCand_ok (mlyCtxOf r p nti) y m hm hds hdow).1 c hc
  have h2 := mlyCand_mon (mlyCtxOf r p nti) y m hm hds hdow c hc
  have h3 := VC_unpack y c h1
  unfold VC at h1
  rw [h2] at h3 h1
  exact ⟨h3, h1.2.1, h1.2.2⟩

end Echse.Lemmas.RrMlyRfc
