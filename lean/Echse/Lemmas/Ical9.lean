/-
  C10 lemmas, part 9: the automaton over a piece of one logical line does what `esccpy` does.
-/
import Echse.Lemmas.Ical8
namespace Echse.Ical

theorem nl_ne_cr : NL ≠ CR := by decide

theorem stepSc_not_pend (s : Sc) (c : Byte) (h : s.pend = false) : stepSc s c = plainSc s c := by
  unfold stepSc; simp [h]

theorem stepSc_pend_fold (s : Sc) (c : Byte) (h : s.pend = true) (hf : isFold c = true) :
    stepSc s c = { s with raw := s.raw + 1, pend := false } := by
  unfold stepSc; simp [h, hf]

theorem stepSc_pend_nofold (s : Sc) (c : Byte) (h : s.pend = true) (hf : isFold c = false) :
    stepSc s c = plainSc {} c := by
  unfold stepSc; simp [h, hf]

theorem plainSc_nl (s : Sc) : plainSc s NL = { s with raw := s.raw + 1, pend := true } := by
  unfold plainSc; simp [nl_ne_cr]

theorem plainSc_raw (s : Sc) (c : Byte) : (plainSc s c).raw = s.raw + 1 := by
  unfold plainSc; split
  · rfl
  · split <;> rfl

theorem plainSc_pend_ne (s : Sc) (c : Byte) (h : c ≠ NL) : (plainSc s c).pend = s.pend := by
  unfold plainSc; rw [if_neg h]; split <;> rfl

theorem plainSc_sp_mono (s : Sc) (c : Byte) (h : s.sp = true) : (plainSc s c).sp = true := by
  unfold plainSc; split
  · exact h
  · split
    · exact h
    · simp [h]

theorem plainSc_sp_fold (s : Sc) (c : Byte) (h : isFold c = true) : (plainSc s c).sp = true := by
  have h1 : c ≠ NL := isFold_ne_nl c h
  have h2 : c ≠ CR := by
    intro hc; subst hc; rw [isFold_iff] at h
    cases h with
    | inl h => exact absurd h (by decide)
    | inr h => exact absurd h (by decide)
  unfold plainSc; rw [if_neg h2, if_neg h1]; simp [h]

/-- the skeleton over a piece of one logical line, started outside a pending NL -/
theorem seg_runSc : ∀ (n : Nat) (seg : List Byte) (s : Sc) (b : Bool), seg.length ≤ n →
    lineEnd seg = some b → s.pend = false →
    (runSc s seg).pend = b ∧ (runSc s seg).raw = s.raw + seg.length ∧
      (s.sp = true → (runSc s seg).sp = true)
  | _, [], s, b, _, hl, hp => by
    rw [lineEnd_nil] at hl; cases hl
    exact ⟨hp, by simp [runSc_nil], fun h => h⟩
  | 0, c :: r, _, _, hn, _, _ => by simp at hn
  | n+1, c :: r, s, b, hn, hl, hp => by
    have hn' : r.length ≤ n := by simp at hn; omega
    rw [runSc_cons, stepSc_not_pend s c hp]
    by_cases hc : c = NL
    · subst hc
      cases r with
      | nil =>
        rw [lineEnd_nl] at hl; cases hl
        rw [runSc_nil, plainSc_nl]
        exact ⟨rfl, by simp, fun h => h⟩
      | cons d r' =>
        rw [lineEnd_nl_cons] at hl
        cases hf : isFold d with
        | false => rw [hf] at hl; simp at hl
        | true =>
          rw [hf, if_pos rfl] at hl
          rw [runSc_cons, plainSc_nl, stepSc_pend_fold _ d rfl hf]
          have ih := seg_runSc n r' { s with raw := s.raw + 1 + 1, pend := false } b
            (by simp at hn'; omega) hl rfl
          refine ⟨ih.1, ?_, ih.2.2⟩
          rw [ih.2.1]; simp; omega
    · have ih := seg_runSc n r (plainSc s c) b hn' (by rw [← hl, lineEnd_cons_ne _ _ hc])
        (by rw [plainSc_pend_ne _ _ hc]; exact hp)
      refine ⟨ih.1, ?_, fun h => ih.2.2 (plainSc_sp_mono s c h)⟩
      rw [ih.2.1, plainSc_raw]; simp; omega

theorem stepA_not_pend (A : Abs) (c : Byte) (h : A.sc.pend = false) : stepA A c = plainA A c := by
  unfold stepA; simp [h]

theorem stepA_pend_fold (A : Abs) (c : Byte) (h : A.sc.pend = true) (hf : isFold c = true) :
    stepA A c = { A with sc := stepSc A.sc c } := by
  unfold stepA; simp [h, hf]

theorem stepA_pend_nofold (A : Abs) (c : Byte) (h : A.sc.pend = true) (hf : isFold c = false) :
    stepA A c = plainA (flushA A) c := by
  unfold stepA; simp [h, hf]

/-- the automaton over a piece of one logical line, started outside a pending NL: only the line grows -/
theorem seg_runA : ∀ (n : Nat) (seg : List Byte) (A : Abs) (b : Bool), seg.length ≤ n →
    lineEnd seg = some b → (∀ c ∈ seg, c ≠ BSL) → A.sc.pend = false →
    runA A seg = { A with cur := A.cur ++ unesc seg, sc := runSc A.sc seg }
  | _, [], A, b, _, _, _, _ => by simp [runA_nil, runSc_nil, unesc_nil]
  | 0, c :: r, _, _, hn, _, _, _ => by simp at hn
  | n+1, c :: r, A, b, hn, hl, hb, hp => by
    have hn' : r.length ≤ n := by simp at hn; omega
    have hcb : c ≠ BSL := hb c (by simp)
    have hrb : ∀ d ∈ r, d ≠ BSL := fun d hd => hb d (by simp [hd])
    rw [runA_cons, runSc_cons, stepA_not_pend A c hp, stepSc_not_pend A.sc c hp, unesc_cons]
    by_cases hc : c = NL
    · subst hc
      rw [if_neg nl_ne_cr, if_pos rfl]
      cases r with
      | nil => simp [runA_nil, runSc_nil, unesc_nil, plainA]
      | cons d r' =>
        rw [lineEnd_nl_cons] at hl
        cases hf : isFold d with
        | false => rw [hf] at hl; simp at hl
        | true =>
          rw [hf, if_pos rfl] at hl
          have hp1 : (plainA A NL).sc.pend = true := by simp [plainA, plainSc_nl]
          rw [runA_cons, runSc_cons, stepA_pend_fold _ d hp1 hf]
          have ih := seg_runA n r' { plainA A NL with sc := stepSc (plainA A NL).sc d } b
            (by simp at hn'; omega) hl (fun x hx => hrb x (by simp [hx]))
            (by show (stepSc (plainA A NL).sc d).pend = false
                rw [stepSc_pend_fold _ d hp1 hf])
          rw [ih]
          simp [plainA]
    · have ih := seg_runA n r (plainA A c) b hn' (by rw [← hl, lineEnd_cons_ne _ _ hc]) hrb
        (by simp only [plainA]; rw [plainSc_pend_ne _ _ hc]; exact hp)
      rw [ih, if_neg hc, if_neg hcb]
      by_cases hcr : c = CR
      · simp [plainA, hcr]
      · simp [plainA, hcr, hc]

end Echse.Ical
