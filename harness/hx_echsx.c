/* the executor under test: echsx.c of the scratch copy, unmodified, with one interposition:
 * the mailer path /usr/sbin/sendmail is replaced by the recorder named in $HX_SENDMAIL. */
#define _GNU_SOURCE
#include <spawn.h>
#include <stdlib.h>
#include <string.h>

static int hx_posix_spawn(pid_t *pid, const char *path, const posix_spawn_file_actions_t *fa,
			  const posix_spawnattr_t *at, char *const argv[], char *const envp[])
{
	const char *rec = getenv("HX_SENDMAIL");
	if (rec && !strcmp(path, "/usr/sbin/sendmail")) path = rec;
	return (posix_spawn)(pid, path, fa, at, argv, envp);
}
#define posix_spawn hx_posix_spawn
#include "echsx.c"
