/-
  Property C01 for the yearly filler `rrul_fill_yly` (model `fillYly`) against the RFC 5545 specification
  `Echse.Spec.Rfc.YearlyInst`, layer L2: no SHIFT, no BYSETPOS, no BYEASTER.

    fillYly_sound     every instant written is an instance of the rule anchored at the seed
    fillYly_complete  none missing: an instance `x` at or after the seed, not after UNTIL and not after 2099 is in the
                      result `l`, or `l` is full (`capOf r n` elements: `n`, or COUNT if smaller) and all of `l` comes
                      before `x`

  Hypothesis added to the brief's (`SeedOk r p`, a DATE seed has no BYHOUR/BYMINUTE/BYSECOND, is gone: `make_enum`
  ignores these parts next to a DATE seed, as the specification's `TimeExp` does): `YlySup r`
  (`RrYlyRfc1`): no BYEASTER; BYMONTHDAY / BYMONTH at most 62 / 12 values (the parser's bit sets); BYDAY ordinals
  within -53..53 (ordinal -54, which `WfRule` admits, wraps around in `ycw_get_yday`); and BYDAY next to BYWEEKNO
  (without BYYEARDAY / BYMONTHDAY) has plain weekdays only (RFC 5545 forbids ordinals there; the code skips such
  entries, the specification's `bydayLimit` reads them as plain weekdays).
  All combinations of BYMONTH / BYWEEKNO / BYYEARDAY / BYMONTHDAY / BYDAY are covered (`ylyCand_iff`, RrYlyRfc2b): the
  builders expand each part on its own account, `lim_cand` then keeps what passes every part present, and BYDAY next
  to BYMONTHDAY / BYYEARDAY limits through `dow_limit_p` (ordinals counted within the month with BYMONTH, within the
  year without).
  Unlike the monthly filler no "first occurrence" hypothesis is needed: the calendar repeats after 28 periods at most,
  the loop allows 63 without a hit.
-/
import Echse.Lemmas.RrYlyRfc4
import Echse.Lemmas.RrMlyRfc6
import Echse.Lemmas.RrRfcBase5
namespace Echse.Lemmas.RrYlyRfc
open Echse.Rrule Echse.Instant Echse.Spec.RrOk Echse.Lemmas.RrCandOk Echse.Spec.Rfc Echse.Lemmas.RrRfc
open Echse.Lemmas.RrCandRfc Echse.Lemmas.RrYlyOk Echse.Spec.Cal Echse.Spec.RuleExt Echse.Lemmas.RrMlyRfc
open Echse.Lemmas.RrOkBase

theorem ylyStart_noshift (r : Rule) (p : Inst) (hsh : r.shift = 0) : ylyStart r p = p.y := by
  unfold ylyStart
  rw [hsh]
  have : ¬ ((shDvalue 0 > 0 ∨ (shBdayP 0 = true ∧ (!shNegP 0) = true)) ∧ r.inter ≤ p.y) := by
    intro h
    have : ¬ (shDvalue 0 > 0 ∨ (shBdayP 0 = true ∧ (!shNegP 0) = true)) := by decide
    exact this h.1
  dsimp only
  rw [if_neg this]

/-- without SHIFT and BYSETPOS the year loop is the abstract loop over the years' lists -/
theorem ylyLoop_aLoop (r : Rule) (p : Inst) (nti : Nat) (hsh : r.shift = 0) (hpos : r.pos = []) (fuel y : Nat) :
    Sim (ylyLoop (ylyCtxOf r p nti) fuel y 64 {})
      (aLoop (mkFillCtx r p nti) 64 (fun y : Nat => y) (yE r p nti) (fun y => (y + r.inter) % u32) fuel y 64 {}) := by
  obtain ⟨k1, k2, k3⟩ := mkFillCtx_nopos r p nti hsh hpos
  have h := ylyLoop_sim (ylyCtxOf r p nti) (yE r p nti) (by
    intro y a b hab
    rw [ylyCtxOf_k, finishPeriod_pstep _ y _ a k1 k2, k3, clrPoss_nil]
    exact foldl_pstep_sim _ _ ⟨hab.1, hab.2.1, rfl, hab.2.2.2⟩) fuel y 64 {} {} (Sim.rfl' _)
  exact h

/-- what a year's period offers is an instance of the rule -/
theorem yE_inst (r : Rule) (p : Inst) (nti : Nat) (hr : WfRule r) (hp : WfInst p) (hsup : YlySup r)
    (hy : 1901 ≤ p.y) (y : Nat) (hq : yReach r p y) (hy2 : y ≤ 2099) (z : Inst) (hz : z ∈ yE r p nti y) :
    YearlyInst r p z := by
  obtain ⟨j, hj⟩ := hq
  have : 0 ≤ j * r.inter := Nat.zero_le _
  obtain ⟨e1, e2, e2', e3, e4, e5, e6, e7, e8, e9⟩ :=
    (mem_yE_iff r p nti hr hp hsup hy y ⟨by omega, hy2⟩ z).1 hz
  obtain ⟨t1, t2⟩ := exp_of_enum hr hp e7 e8 e9
  exact (ylyInst_iff r p z).2 ⟨⟨e2, e2', e3, e4, e6, t1⟩, ⟨j, by rw [e1]; exact hj⟩, e5, t2⟩

def ylyFuel (nti : Nat) : Nat := 64 * (nti + 1) + 2101

/-- the ways a call can go (no SHIFT) -/
theorem fillYly_cases (r : Rule) (p : Inst) (n : Nat) (l : List Inst) (hr : WfRule r) (hp : WfInst p)
    (hsh : r.shift = 0) (h : fillYly r p n = some l) :
    (capNti r n = none ∧ l = []) ∨ ∃ nti, capNti r n = some nti ∧
      l = (ylyLoop (ylyCtxOf r p nti) (ylyFuel nti) p.y 64 {}).out.reverse := by
  rw [fillYly_eq] at h
  have h1 := hr.scale
  have h2 := hp.year
  have h3 := hp.month
  have h4 : p.d ≤ 31 := by have := hp.day.2; have := getNdom_le p.y p.m; omega
  rw [if_neg (by omega)] at h
  cases hc : capNti r n with
  | none => rw [hc] at h; injection h with h; exact Or.inl ⟨rfl, h.symm⟩
  | some nti =>
    rw [hc] at h
    dsimp only at h
    rw [if_neg (by omega), ylyStart_noshift r p hsh] at h
    injection h with h
    exact Or.inr ⟨nti, rfl, h.symm⟩

/-- C01, soundness of the yearly filler (no SHIFT, no BYSETPOS, no BYEASTER): every instant written is an instance of
the rule anchored at the seed -/
theorem fillYly_sound (r : Rule) (p : Inst) (n : Nat) (l : List Inst) (hr : WfRule r) (hp : WfInst p)
    (_hn : n ≤ 64) (hy : 1901 ≤ p.y) (hsup : YlySup r) (hsh : r.shift = 0) (hpos : r.pos = [])
    (h : fillYly r p n = some l) : ∀ x ∈ l, YearlyInst r p x ∧ SetposOk r p x := by
  intro x hx
  refine ⟨?_, Or.inl hpos⟩
  rcases fillYly_cases r p n l hr hp hsh h with ⟨_, e⟩ | ⟨nti, _, e⟩
  · rw [e] at hx; cases hx
  · rw [e] at hx
    have hx := List.mem_reverse.mp hx
    rw [(ylyLoop_aLoop r p nti hsh hpos (ylyFuel nti) p.y).1] at hx
    rcases aLoop_mem (mkFillCtx r p nti) 64 _ _ _ (yly_loopHyp r p nti hr hp hsup hy) (ylyFuel nti) p.y 64 {}
      ⟨0, by simp⟩ x hx with h | ⟨q', r1, r2, r3, _⟩
    · cases h
    · exact yE_inst r p nti hr hp hsup hy q' r1 r2 x r3

/-- C01, completeness of the yearly filler (no SHIFT, no BYSETPOS, no BYEASTER): an instance `x` at or after the seed,
not after UNTIL and not after 2099 is in the result `l`, or `l` is full (`capOf r n` elements) and all of it comes
before `x` -/
theorem fillYly_complete (r : Rule) (p : Inst) (n : Nat) (l : List Inst) (hr : WfRule r) (hp : WfInst p)
    (_hn : n ≤ 64) (hy : 1901 ≤ p.y) (hsup : YlySup r) (hsh : r.shift = 0) (hpos : r.pos = [])
    (h : fillYly r p n = some l)
    (x : Inst) (hx : YearlyInst r p x) (hge : absOf p ≤ absOf x) (hle : ltP r.untl x = false) (hxy : x.y ≤ 2099) :
    x ∈ l ∨ (l.length = capOf r n ∧ ∀ z ∈ l, ltP z x = true) := by
  have hT : yTarget r p x := ⟨hx, (ge_seed hp hy hx.1 hxy hge).1, hle, hxy⟩
  have hi := hr.inter
  rcases fillYly_cases r p n l hr hp hsh h with ⟨hc, e⟩ | ⟨nti, hc, e⟩
  · right; rw [e]; unfold capOf; rw [hc]; exact ⟨rfl, fun z hz => by cases hz⟩
  · have hsim := ylyLoop_aLoop r p nti hsh hpos (ylyFuel nti) p.y
    have hg0 : yG r p p.y = 0 := yG_of r p p.y 0 (by omega) (by simp)
    have hI : CInv (mkFillCtx r p nti) 64 (fun y : Nat => y) (yE r p nti) (yReach r p) (yG r p)
        (yTarget r p) (yGi r p) p.y 64 {} := by
      refine ⟨⟨0, by simp⟩, ⟨rfl, Nat.zero_le _⟩, rfl, ?_, ?_, ?_⟩
      · intro w _ hlt; rw [hg0] at hlt; omega
      · intro z hz; cases hz
      · intro h _ _; omega
    have hB : 2099 < p.y + ylyFuel nti := by unfold ylyFuel; omega
    have hcomp := aLoop_complete (mkFillCtx r p nti) 64 _ _ _ (yly_loopHyp r p nti hr hp hsup hy)
      (yly_targetHyp r p nti hr hp hsup hy) (by decide) (ylyFuel nti) p.y 64 {} hI hB x hT
    have hbase := aLoop_base (mkFillCtx r p nti) 64 (fun y : Nat => y) (yE r p nti)
      (fun y => (y + r.inter) % u32) (ylyFuel nti) p.y 64 {} rfl (Nat.zero_le _)
    rw [← hsim.1, ← hsim.2.1] at hcomp
    rw [← hsim.1, ← hsim.2.1] at hbase
    have hcap : capOf r n = nti := by unfold capOf; rw [hc]; rfl
    rw [e, hcap]
    rcases hcomp with h1 | ⟨h1, h2⟩
    · exact Or.inl (List.mem_reverse.mpr h1)
    · right
      refine ⟨?_, fun z hz => h2 z (List.mem_reverse.mp hz)⟩
      rw [List.length_reverse, ← hbase.1]
      have hk : (mkFillCtx r p nti).nti = nti := rfl
      rw [hk] at h1 hbase
      have : ¬ (ylyLoop (ylyCtxOf r p nti) (ylyFuel nti) p.y 64 {}).res < nti := by
        intro hlt; rw [decide_eq_true hlt] at h1; cases h1
      omega

end Echse.Lemmas.RrYlyRfc
