/-
  FREQ=MONTHLY filler model (Echse.Model.RrMly), continued from RrMlyOk1: the order of what is written, and
  properties C09 / C16 of one call `fillMly r proto nti` put together (`fillMly_ok_partial`).
-/
import Echse.Lemmas.RrMlyOk1
namespace Echse.Lemmas.RrMlyOk
open Echse.Rrule Echse.Instant Echse.Spec.RrOk
open Echse.Lemmas.RrCandOk

/-- all candidates lie in month `mo` -/
def MonP (mo : Nat) (l : List Nat) : Prop := ∀ c ∈ l, c / 32 + 1 = mo

theorem MonP.nil (mo : Nat) : MonP mo [] := fun _ h => nomatch h

theorem MonP.assC {mo : Nat} {l : List Nat} {d : Nat} (hl : MonP mo l) (hm : 1 ≤ mo ∧ mo ≤ 12) (hd : d ≤ 31) :
    MonP mo (assC l (packCand mo d)) := by
  intro c hc
  rcases mem_assC l _ c hc with h | h
  · exact hl c h
  · have hu : u32 = 4294967296 := rfl
    rw [h]; unfold packCand; rw [hu]; omega

theorem fillMlyYmd_mon (cand : List Nat) (y mo : Nat) (ds : List Int) (dow : List Int) (wdMask : Nat) (hc : MonP mo cand)
    (hm : 1 ≤ mo ∧ mo ≤ 12) (hds : ∀ d ∈ ds, -31 ≤ d ∧ d ≤ 31) : MonP mo (fillMlyYmd cand y mo ds dow wdMask) := by
  unfold fillMlyYmd
  refine foldl_inv (MonP mo) _ ds cand hc ?_
  intro b dd0 hdd hb
  try dsimp only
  split
  · exact hb
  · rename_i dd hp
    split
    · exact hb
    · have := pickDom_ok dd0 _ dd (hds dd0 hdd) (getNdom_le y mo) hp
      have := getNdom_le y mo
      exact hb.assC hm (by omega)

theorem fillMlyYmdAllD_mon (cand : List Nat) (y mo : Nat) (wdMask : Nat) (hc : MonP mo cand)
    (hm : 1 ≤ mo ∧ mo ≤ 12) : MonP mo (fillMlyYmdAllD cand y mo wdMask) := by
  unfold fillMlyYmdAllD
  try dsimp only
  refine foldl_inv (fun (st : List Nat × Nat) => MonP mo st.1) _ _ (cand, ymdGetWday y mo 1) hc ?_
  intro b i hi hb
  have hi' : i < getNdom y mo := List.mem_range.mp hi
  have := getNdom_le y mo
  obtain ⟨c, w⟩ := b
  try dsimp only
  split
  · exact hb
  · exact MonP.assC hb hm (by omega)

theorem fillMlyYmcw_mon (cand : List Nat) (y m : Nat) (dow : List Int) (hc : MonP m cand) (hm : 1 ≤ m ∧ m ≤ 12)
    (hdow : ∀ t ∈ dow, -431 ≤ t ∧ t ≤ 431 ∧ t % 8 ≠ 0) : MonP m (fillMlyYmcw cand y m dow) := by
  unfold fillMlyYmcw
  refine foldl_inv (MonP m) _ dow cand hc ?_
  intro b t ht hb
  have := hdow t ht
  unfold unpackCd
  try dsimp only
  split
  · exact hb
  rename_i hcnt
  split
  · exact hb
  have h := ymcwGetDom_ok y m (t / 8) (t % 8).toNat hm (by omega) (by omega)
  have := getNdom_le y m
  exact hb.assC hm (by omega)

/-- every candidate of a month lies in that month -/
theorem mlyCand_mon (c : MlyCtx) (y m : Nat) (hm : 1 ≤ m ∧ m ≤ 12) (hds : ∀ d ∈ c.ds, -31 ≤ d ∧ d ≤ 31)
    (hdow : ∀ t ∈ c.r.dow, -431 ≤ t ∧ t ≤ 431 ∧ t % 8 ≠ 0) : MonP m (mlyCand c y m) := by
  unfold mlyCand
  try dsimp only
  have h0 : MonP m (if c.wdMask ≠ 0 ∧ c.ds.length ≠ 0 then []
      else if c.wdMask ≠ 0 then
        fillMlyYmdAllD (if c.wdMask % 2 = 1 then fillMlyYmcw [] y m c.r.dow else []) y m c.wdMask
      else []) := by
    split
    · exact MonP.nil m
    split
    · refine fillMlyYmdAllD_mon _ _ _ _ ?_ hm
      split
      · exact fillMlyYmcw_mon _ _ _ _ (MonP.nil m) hm hdow
      · exact MonP.nil m
    · exact MonP.nil m
  by_cases hnd : c.ds.length ≠ 0
  · rw [if_pos hnd]; exact fillMlyYmd_mon _ _ _ _ _ _ h0 hm hds
  · rw [if_neg hnd]; exact h0
/-- C16 (ordered): what is written is strictly ascending (see `fillYly_asc`) -/
theorem fillMly_asc (r : Rule) (p : Inst) (n : Nat) (l : List Inst) (hr : WfRule r) (hp : WfInst p)
    (h : fillMly r p n = some l) : l.Pairwise (fun a b => ltP a b = true) := by
  rcases fillMly_some r p n l h with rfl | ⟨nti, y0, m0, _, hst, hpm1, hpm2, rfl⟩
  · exact List.Pairwise.nil
  refine List.pairwise_reverse.mpr ?_
  change Desc _
  have hm0 := mlyStart_m r p hr ⟨hpm1, hpm2⟩ y0 m0 hst
  by_cases hs : r.shift = 0
  · -- no SHIFT
    have hdow : ∀ t ∈ (mlyCtxOf r p nti).r.dow, -431 ≤ t ∧ t ≤ 431 ∧ t % 8 ≠ 0 :=
      fun t ht => by have := hr.dow t ht; exact ⟨this.2.1, this.2.2.1, this.2.2.2⟩
    obtain ⟨_, _, hJ⟩ := mlyLoop_ind (mlyCtxOf r p nti)
      (fun y m st => (1 ≤ m ∧ m ≤ 12) ∧ Desc st.out ∧ ∀ a ∈ st.out, (1 ≤ a.m % 256 ∧ a.m % 256 ≤ 12) ∧
        12 * ((a.y % 65536 : Nat) : Int) + ((a.m % 256 : Nat) : Int) < 12 * (y : Int) + m)
      (fun y m st hy hJ => by
        unfold maxYear at hy
        obtain ⟨hm, hd, hout⟩ := hJ
        have hmu := toU32_month m hm
        have hmu' : (toU32 m : Int) = m := by unfold toU32; have hu : u32 = 4294967296 := rfl; rw [hu]; omega
        have hn := mlyNext_spec r.mon r.inter hr.inter 12 y m (by omega) (by omega) hm
        rw [mlyCtxOf_r]
        generalize mlyNext r.mon r.inter 12 y m = ym' at hn ⊢
        obtain ⟨y', m'⟩ := ym'
        dsimp only at hn ⊢
        have hcv := mlyCand_ok (mlyCtxOf r p nti) y (toU32 m) hmu (mlyCtxOf_ds r p nti hr hp) hdow
        have hcm := mlyCand_mon (mlyCtxOf r p nti) y (toU32 m) hmu (mlyCtxOf_ds r p nti hr hp) hdow
        have he := finishPeriod_emits (mlyCtxOf r p nti).k y (mlyCand (mlyCtxOf r p nti) y (toU32 m)) st
        have hE : ∀ x ∈ finE (mlyCtxOf r p nti).k y (mlyCand (mlyCtxOf r p nti) y (toU32 m)),
            x.y % 65536 = y ∧ x.m % 256 = toU32 m := by
          intro x hx
          rw [finE_noshift _ _ _ hs] at hx
          obtain ⟨yd, hyd, t, _, rfl⟩ := mem_setE _ _ _ x hx
          have hyd' : yd ∈ mlyCand (mlyCtxOf r p nti) y (toU32 m) := by
            split at hyd
            · exact clrPoss_subset _ _ yd hyd
            · exact hyd
          have := hcm yd hyd'
          constructor
          · show y % 65536 % 65536 = y
            omega
          · show (yd / 32 + 1) % 256 % 256 = toU32 m
            omega
        refine ⟨⟨hn.1, hn.2.1⟩, he.desc_of_sorted (finE_sorted r p nti y _ hr hp hs (by omega) hcv) ?_ hd, ?_⟩
        · intro a ha x hx
          have h1 := hout a ha
          have h2 := hE x hx
          exact ltP_of_month_lt a x (by omega) h1.1 (by omega)
        · refine he.inv (fun x hx _ _ => ?_) (fun a ha => ?_)
          · have h2 := hE x hx
            exact ⟨by omega, by omega⟩
          · have h1 := hout a ha
            exact ⟨h1.1, by omega⟩)
      (mlyTries * (nti + 1) + 12 * 2100 + 1) y0 m0 mlyTries {}
      ⟨hm0, List.Pairwise.nil, fun a ha => nomatch ha⟩
    exact hJ.2.1
  · -- SHIFT: ordered by construction
    obtain ⟨_, _, hJ⟩ := mlyLoop_ind (mlyCtxOf r p nti) (fun _ _ st => Base (mlyCtxOf r p nti).k st ∧ Desc st.out)
      (fun y m st _ hJ => by
        have he := finishPeriod_emits (mlyCtxOf r p nti).k y (mlyCand (mlyCtxOf r p nti) y (toU32 m)) st
        exact ⟨he.base hJ.1, he.desc hs hJ.1 hJ.2⟩)
      (mlyTries * (nti + 1) + 12 * 2100 + 1) y0 m0 mlyTries {} ⟨Base.init _, List.Pairwise.nil⟩
    exact hJ.2
/-- C16 / C09 for one call of the monthly filler, under the proviso of `fillMly_wf` (needed for `wf` only):
* `hs : ShiftKeepsDates r.shift` — `shift()` maps real dates of a year ≤ 2099 to real dates of the year their set is
  emitted under (true for SHIFT absent, `shiftKeepsDates_zero`). -/
theorem fillMly_ok_partial (r : Rule) (p : Inst) (n : Nat) (l : List Inst) (hr : WfRule r) (hp : WfInst p) (_hn : n ≤ 64)
    (hs : ShiftKeepsDates r.shift) (h : fillMly r p n = some l) : FillOk r p n l :=
  { len_nti := (fillMly_len r p n l hr h).1
    len_count := (fillMly_len r p n l hr h).2
    wf := fillMly_wf r p n l hr hp hs h
    ge_proto := (fillMly_bounds r p n l h).1
    le_until := (fillMly_bounds r p n l h).2
    ascending := fillMly_asc r p n l hr hp h }

/-- the full statement for rules without SHIFT -/
theorem fillMly_ok_noshift (r : Rule) (p : Inst) (n : Nat) (l : List Inst) (hr : WfRule r) (hp : WfInst p) (hn : n ≤ 64)
    (hs : r.shift = 0) (h : fillMly r p n = some l) : FillOk r p n l :=
  fillMly_ok_partial r p n l hr hp hn (hs ▸ shiftKeepsDates_zero) h

/-- FREQ=MONTHLY;BYMINUTE=30 on an all-day seed: BYMINUTE is ignored next to a DATE value (RFC 5545, 3.3.10), the
filler writes the plain all-day instant (before the repair of `make_enum`: hour 255 with minute 30) -/
theorem fillMly_allDay_byminute :
    fillMly { freq := 2, M := [30] } { y := 2000, m := 1, d := 1, H := 255, M := 0, S := 0, ms := 0 } 1 =
    some [{ y := 2000, m := 1, d := 1, H := 255, M := 0, S := 0, ms := 0 }] := by decide +kernel

/-- `fillMly_ok` as first stated (without the proviso) is false: FREQ=MONTHLY;BYMONTHDAY=1;SHIFT=-672 from
2021-01-01 writes 2021-02-29 -/
theorem fillMly_ok_counterexample :
    ¬ ∀ (r : Rule) (p : Inst) (n : Nat) (l : List Inst), WfRule r → WfInst p → n ≤ 64 → fillMly r p n = some l →
      FillOk r p n l := by
  intro hall
  have hr : WfRule { freq := 2, shift := -672 * 65536, dom := [1] } := by
    constructor <;> simp [Asc]
  have hp : WfInst { y := 2021, m := 1, d := 1, H := 255, M := 0, S := 0, ms := 0 } :=
    { year := by decide, month := by decide, day := by decide, time := by decide, ms := by decide }
  have h := hall _ _ 1 [{ y := 2021, m := 2, d := 29, H := 255, M := 0, S := 0, ms := 0 }] hr hp (by decide)
    (by decide +kernel)
  have := (h.wf _ List.mem_cons_self).day
  revert this
  decide
end Echse.Lemmas.RrMlyOk
