/-
  Lemmas for C07 — time-zone table look-ups (`Echse.Model.Tz`), part 1:
  specification vocabulary (`WF`, `I32`, `trIdx`, `off`, `CacheOK`), the bisection
  (termination within the fuel, characterisation of the result), the enclosing range,
  the one-entry cache.
-/
import Echse.Model.Tz
namespace Echse.Tz

/-! ### vocabulary -/

/-- the value fits the `int32_t` parameter of the C functions -/
def I32 (t : Int) : Prop := intMin ≤ t ∧ t ≤ intMax

/-- a well-formed zone table -/
def WF (z : Zone) : Prop :=
  z.trs.Pairwise (· < ·) ∧ (∀ t ∈ z.trs, I32 t) ∧ z.tys.length = z.trs.length ∧
  (∀ ty ∈ z.tys, ty < z.offs.length) ∧ z.trs.length < 256 ∧
  (∀ o ∈ z.offs, -86400 ≤ o ∧ o ≤ 86400) ∧ z.utc = false

instance (t : Int) : Decidable (I32 t) := by unfold I32; infer_instance
instance (z : Zone) : Decidable (WF z) := by unfold WF; infer_instance

/-- the `i`-th transition time -/
def tr (z : Zone) (i : Nat) : Int := z.trs.getD i 0

/-- index of the last transition at or before `t` (`-1`: there is none): the number of
transitions `≤ t`, less one. -/
def trIdx (z : Zone) (t : Int) : Int := (z.trs.countP (· ≤ t) : Nat) - 1

/-- the offset of the `k`-th range (`k = -1`: before the first transition, time type 0) -/
def offAt (z : Zone) (k : Int) : Int :=
  if k < 0 then z.offs.getD 0 0 else z.offs.getD (z.tys.getD k.toNat 0) 0

/-- the UTC offset in force at `t` — the uncached specification -/
def off (z : Zone) (t : Int) : Int := offAt z (trIdx z t)

/-- `k` is the last transition at or before `t` -/
def IsIdx (z : Zone) (t : Int) (k : Int) : Prop :=
  (k = -1 ∧ (z.ntr = 0 ∨ t < tr z 0)) ∨
  (0 ≤ k ∧ k < z.ntr ∧ tr z k.toNat ≤ t ∧ (k + 1 < z.ntr → t < tr z (k + 1).toNat))

/-- the range a look-up that lands in slot `k` reports -/
def rngAt (z : Zone) (k : Int) : ZRng :=
  if k < 0 then
    { trno := 0, prev := intMin, next := if z.ntr ≠ 0 then tr z 0 else intMax, offs := z.offs.getD 0 0 }
  else
    { trno := k.toNat, prev := tr z k.toNat,
      next := if k + 1 < z.ntr then tr z (k + 1).toNat else intMax,
      offs := z.offs.getD (z.tys.getD k.toNat 0) 0 }

/-- what a cache may contain: nothing (fresh object) or a range on which the offset is constant -/
def CacheOK (z : Zone) (c : ZRng) : Prop :=
  c = ZRng.fresh ∨ (∀ t', c.prev ≤ t' → t' < c.next → off z t' = c.offs)

/-! ### basics -/

theorem wrap32_of_I32 (t : Int) (h : I32 t) : wrap32 t = t := by
  unfold I32 intMin intMax at h; unfold wrap32; omega

theorem clamp32_of_I32 (t : Int) (h : I32 t) : clamp32 t = t := by
  unfold I32 at h; unfold clamp32
  rw [if_neg (by omega), if_neg (by omega)]

theorem clamp32_I32 (t : Int) : I32 (clamp32 t) := by
  unfold I32 clamp32
  by_cases h1 : t > intMax
  · rw [if_pos h1]; decide
  · rw [if_neg h1]
    by_cases h2 : t < intMin
    · rw [if_pos h2]; decide
    · rw [if_neg h2]; omega

theorem clamp32_idem (t : Int) : clamp32 (clamp32 t) = clamp32 t :=
  clamp32_of_I32 _ (clamp32_I32 t)

theorem getD_of_lt {α} (l : List α) (i : Nat) (d : α) (h : i < l.length) : l.getD i d = l[i] := by
  rw [List.getD_eq_getElem?_getD, List.getElem?_eq_getElem h, Option.getD_some]

theorem tr_mem (z : Zone) (i : Nat) (h : i < z.ntr) : tr z i ∈ z.trs := by
  unfold tr; rw [getD_of_lt _ _ _ h]; exact List.getElem_mem h

theorem tr_mono (z : Zone) (wf : WF z) (i j : Nat) (hij : i < j) (hj : j < z.ntr) : tr z i < tr z j := by
  have hs := wf.1
  rw [List.pairwise_iff_getElem] at hs
  have hi : i < z.trs.length := by unfold Zone.ntr at hj; omega
  unfold tr; rw [getD_of_lt _ _ _ hi, getD_of_lt _ _ _ hj]
  exact hs i j hi hj hij

theorem tr_mono_le (z : Zone) (wf : WF z) (i j : Nat) (hij : i ≤ j) (hj : j < z.ntr) : tr z i ≤ tr z j := by
  rcases Nat.lt_or_eq_of_le hij with h | h
  · exact Int.le_of_lt (tr_mono z wf i j h hj)
  · subst h; exact Int.le_refl _

theorem tr_I32 (z : Zone) (wf : WF z) (i : Nat) (h : i < z.ntr) : I32 (tr z i) :=
  wf.2.1 _ (tr_mem z i h)

theorem zifTrans_lt (z : Zone) (n : Int) (h0 : 0 ≤ n) (h1 : n < z.ntr) : zifTrans z n = tr z n.toNat := by
  unfold zifTrans tr
  have : ¬ (z.ntr = 0 ∨ n < 0) := by omega
  rw [if_neg this, if_neg (by omega)]

theorem zifTrans_ge (z : Zone) (n : Int) (hn : z.ntr ≠ 0) (h1 : n ≥ z.ntr) : zifTrans z n = tr z (z.ntr - 1) := by
  unfold zifTrans tr
  have : ¬ (z.ntr = 0 ∨ n < 0) := by omega
  rw [if_neg this, if_pos h1]

theorem zifTrans_succ_le (z : Zone) (wf : WF z) (n : Int) (h0 : 0 ≤ n) : zifTrans z n ≤ zifTrans z (n + 1) := by
  by_cases hz : z.ntr = 0
  · unfold zifTrans; simp [hz]
  by_cases h1 : n + 1 < z.ntr
  · rw [zifTrans_lt z n h0 (by omega), zifTrans_lt z (n + 1) (by omega) h1]
    exact tr_mono_le z wf _ _ (by omega) (by omega)
  · rw [zifTrans_ge z (n + 1) hz (by omega)]
    by_cases h2 : n < z.ntr
    · rw [zifTrans_lt z n h0 h2]
      have : n.toNat = z.ntr - 1 := by omega
      rw [this]; exact Int.le_refl _
    · rw [zifTrans_ge z n hz (by omega)]; exact Int.le_refl _

/-! ### the bisection -/

/-- The loop ends within `k + 1` rounds when the interval is at most `2^k` wide: each round
either returns or replaces `max − min` by at most its half, rounded up; an interval of
width 1 returns at once. -/
theorem bisect_spec (z : Zone) (wf : WF z) (t : Int) :
    ∀ (fuel k : Nat) (min max : Int), 0 ≤ min → min < max → max ≤ z.ntr → max - min ≤ (2 ^ k : Nat) → k < fuel →
      zifTrans z min ≤ t → t < zifTrans z max →
      ∃ r, bisect z t fuel min max = some r ∧ min ≤ r ∧ r < max ∧ zifTrans z r ≤ t ∧ t < zifTrans z (r + 1) := by
  intro fuel
  induction fuel with
  | zero => intro k _ _ _ _ _ _ hk; omega
  | succ fuel ih =>
    intro k min max h0 hlt hmax hw hk hlo hhi
    unfold bisect
    simp only []
    by_cases c1 : t ≥ zifTrans z ((min + max) / 2) ∧ t < zifTrans z ((min + max) / 2 + 1)
    · rw [if_pos c1]
      exact ⟨_, rfl, by omega, by omega, c1.1, c1.2⟩
    · rw [if_neg c1]
      -- the interval is wider than 1
      have hk1 : 1 ≤ k := by
        rcases Nat.eq_zero_or_pos k with hk0 | hk0
        · exfalso
          subst hk0
          have e1 : (min + max) / 2 = min := by simp at hw; omega
          have e2 : min + 1 = max := by simp at hw; omega
          rw [e1, e2] at c1
          exact c1 ⟨hlo, hhi⟩
        · exact hk0
      obtain ⟨k', rfl⟩ : ∃ k', k = k' + 1 := ⟨k - 1, by omega⟩
      have hp : (2 ^ (k' + 1) : Nat) = 2 * (2 ^ k' : Nat) := by rw [Nat.pow_succ]; omega
      rw [hp] at hw
      by_cases c2 : t ≥ zifTrans z ((min + max) / 2 + 1)
      · rw [if_pos c2]
        have hm := zifTrans_succ_le z wf ((min + max) / 2) (by omega)
        obtain ⟨r, e, a, b, c, d⟩ := ih k' ((min + max) / 2) max (by omega) (by omega) hmax
          (by push_cast at hw ⊢; omega) (by omega) (by omega) hhi
        exact ⟨r, e, by omega, b, c, d⟩
      · rw [if_neg c2]
        have hlt' : t < zifTrans z ((min + max) / 2) := by omega
        have hne : min ≠ (min + max) / 2 := by
          intro e; rw [← e] at hlt'; omega
        obtain ⟨r, e, a, b, c, d⟩ := ih k' min ((min + max) / 2) h0 (by omega) (by omega)
          (by push_cast at hw ⊢; omega) (by omega) hlo hlt'
        exact ⟨r, e, a, by omega, c, d⟩

/-- `__find_trno(z, t, 0, ntrans)` ends (fuel 64 is ample for fewer than 256 transitions —
9 rounds suffice) and finds the last transition at or before `t`. -/
theorem findTrno_spec (z : Zone) (wf : WF z) (t : Int) :
    ∃ k, findTrno z t 0 z.ntr = some k ∧ IsIdx z t k := by
  unfold findTrno
  by_cases h0 : (z.ntr : Int) = 0
  · rw [if_pos h0]
    exact ⟨-1, rfl, Or.inl ⟨rfl, Or.inl (by omega)⟩⟩
  rw [if_neg h0]
  have hz : z.ntr ≠ 0 := by omega
  rw [zifTrans_lt z 0 (by omega) (by omega), zifTrans_ge z z.ntr hz (by omega)]
  by_cases h1 : t < tr z (0 : Int).toNat
  · rw [if_pos h1]
    exact ⟨-1, rfl, Or.inl ⟨rfl, Or.inr h1⟩⟩
  rw [if_neg h1]
  by_cases h2 : t ≥ tr z (z.ntr - 1)
  · rw [if_pos h2]
    refine ⟨_, rfl, Or.inr ⟨by omega, by omega, ?_, by omega⟩⟩
    have : ((z.ntr : Int) - 1).toNat = z.ntr - 1 := by omega
    rw [this]; exact h2
  rw [if_neg h2]
  have hn := wf.2.2.2.2.1
  obtain ⟨r, e, a, b, c, d⟩ := bisect_spec z wf t 64 8 0 z.ntr (by omega) (by omega) (by omega)
    (by unfold Zone.ntr; simp; omega) (by omega)
    (by rw [zifTrans_lt z 0 (by omega) (by omega)]; omega)
    (by rw [zifTrans_ge z z.ntr hz (by omega)]; omega)
  refine ⟨r, e, Or.inr ⟨a, b, ?_, ?_⟩⟩
  · rw [← zifTrans_lt z r a b]; exact c
  · intro h; rw [← zifTrans_lt z (r + 1) (by omega) h]; exact d

/-! ### `IsIdx` determines the index -/

theorem countP_split (l : List Int) (t : Int) (m : Nat) (hm : m ≤ l.length)
    (h1 : ∀ i (h : i < l.length), i < m → l[i] ≤ t) (h2 : ∀ i (h : i < l.length), m ≤ i → t < l[i]) :
    l.countP (· ≤ t) = m := by
  conv => lhs; rw [← List.take_append_drop m l]
  rw [List.countP_append]
  have e1 : (l.take m).countP (· ≤ t) = (l.take m).length := by
    rw [List.countP_eq_length]
    intro a ha
    rw [List.mem_take_iff_getElem] at ha
    obtain ⟨j, hj, rfl⟩ := ha
    simp only [decide_eq_true_eq]
    exact h1 j (by omega) (by omega)
  have e2 : (l.drop m).countP (· ≤ t) = 0 := by
    rw [List.countP_eq_zero]
    intro a ha
    rw [List.mem_drop_iff_getElem] at ha
    obtain ⟨j, hj, rfl⟩ := ha
    simp only [decide_eq_true_eq]
    have := h2 (m + j) (by omega) (by omega)
    omega
  rw [e1, e2, List.length_take]; omega

theorem isIdx_unique (z : Zone) (wf : WF z) (t k : Int) (h : IsIdx z t k) : trIdx z t = k := by
  unfold trIdx
  rcases h with ⟨rfl, h⟩ | ⟨h0, h1, h2, h3⟩
  · have : z.trs.countP (· ≤ t) = 0 := by
      apply countP_split z.trs t 0 (by omega)
      · intro i _ hi; omega
      · intro i hi _
        rcases h with h | h
        · unfold Zone.ntr at h; omega
        · have := tr_mono_le z wf 0 i (by omega) hi
          unfold tr at this h; rw [getD_of_lt _ _ _ hi] at this; omega
    rw [this]; rfl
  · have : z.trs.countP (· ≤ t) = k.toNat + 1 := by
      apply countP_split z.trs t (k.toNat + 1) (by unfold Zone.ntr at h1; omega)
      · intro i hi hik
        have := tr_mono_le z wf i k.toNat (by omega) (by omega)
        unfold tr at this h2; rw [getD_of_lt _ _ _ hi] at this; omega
      · intro i hi hik
        have h3' := h3 (by unfold Zone.ntr; omega)
        have e : (k + 1).toNat = k.toNat + 1 := by omega
        rw [e] at h3'
        have := tr_mono_le z wf (k.toNat + 1) i hik hi
        unfold tr at this h3'; rw [getD_of_lt _ _ _ hi] at this; omega
    rw [this]; omega

/-- the specification index is the last transition at or before `t` -/
theorem isIdx_trIdx (z : Zone) (wf : WF z) (t : Int) : IsIdx z t (trIdx z t) := by
  obtain ⟨k, _, h⟩ := findTrno_spec z wf t
  rw [isIdx_unique z wf t k h]; exact h

theorem findTrno_eq (z : Zone) (wf : WF z) (t : Int) : findTrno z t 0 z.ntr = some (trIdx z t) := by
  obtain ⟨k, e, h⟩ := findTrno_spec z wf t
  rw [isIdx_unique z wf t k h]; exact e

theorem trIdx_range (z : Zone) (t : Int) : -1 ≤ trIdx z t ∧ trIdx z t < z.ntr := by
  unfold trIdx Zone.ntr
  have := @List.countP_le_length _ (fun x => decide (x ≤ t)) z.trs
  omega

end Echse.Tz
