/-
  C17 lemmas, part 13: the arithmetic of `bdayMove` in closed form.
-/
import Echse.Model.Rrule
import Echse.Lemmas.RuleExt12
namespace Echse.RuleExt
open Echse.Rrule Echse.Spec.Cal Echse.Spec.RuleExt

/-- the arithmetic of `bdayMove` after the weekend adjustment -/
def bdTail (d : Int) (w : Nat) (nb : Int) : Int :=
  let u5 := (((w : Int) + 35839 + nb) % (u32 : Int)).toNat % 5
  let nb := tdiv nb 5 * 7 + tmod nb 5
  let u7 := (((w : Int) + 35839 + nb) % (u32 : Int)).toNat % 7
  let d := d + nb
  let d := d + ((u5 : Int) - (u7 : Int))
  d + (if nb > 0 ∧ u5 < u7 then 7 else 0)

theorem tdiv_nonneg (k : Nat) : tdiv (k : Int) 5 = ((k / 5 : Nat) : Int) ∧ tmod (k : Int) 5 = ((k % 5 : Nat) : Int) := by
  unfold tdiv tmod
  rw [Int.tdiv_eq_ediv_of_nonneg (by omega), Int.tmod_eq_emod_of_nonneg (by omega)]
  omega

theorem tdiv_neg (k : Nat) : tdiv (-(k : Int)) 5 = -((k / 5 : Nat) : Int) ∧ tmod (-(k : Int)) 5 = -((k % 5 : Nat) : Int) := by
  unfold tdiv tmod
  rw [Int.neg_tdiv, Int.neg_tmod, Int.tdiv_eq_ediv_of_nonneg (by omega), Int.tmod_eq_emod_of_nonneg (by omega)]
  omega

theorem wrap_id (x : Int) (h0 : 0 ≤ x) (h1 : x < 4294967296) : (x % (u32 : Int)).toNat = x.toNat := by
  unfold u32; omega

theorem bdTail_fwd (d : Int) (w k : Nat) (hw : 1 ≤ w ∧ w ≤ 5) (hk : k ≤ 366) :
    bdTail d w (k : Int) = d + 7 * (k / 5 : Nat) + (k % 5 : Nat) + (if w + k % 5 > 5 then 2 else 0) := by
  unfold bdTail
  simp only [(tdiv_nonneg k).1, (tdiv_nonneg k).2]
  rw [wrap_id _ (by omega) (by omega), wrap_id _ (by omega) (by omega)]
  have hq : k = 5 * (k / 5) + k % 5 := by omega
  have hr : k % 5 < 5 := by omega
  generalize k / 5 = q at *
  generalize k % 5 = r at *
  subst hq
  split <;> split <;> omega

theorem bdTail_back (d : Int) (w k : Nat) (hw : 1 ≤ w ∧ w ≤ 5) (hk : k ≤ 366) :
    bdTail d w (-(k : Int)) = d - 7 * (k / 5 : Nat) - (k % 5 : Nat) - (if w ≤ k % 5 then 2 else 0) := by
  unfold bdTail
  simp only [(tdiv_neg k).1, (tdiv_neg k).2]
  rw [wrap_id _ (by omega) (by omega), wrap_id _ (by omega) (by omega)]
  have hq : k = 5 * (k / 5) + k % 5 := by omega
  have hr : k % 5 < 5 := by omega
  generalize k / 5 = q at *
  generalize k % 5 = r at *
  subst hq
  split <;> split <;> omega

theorem bdayMove_eq (w0 : Nat) (d0 sh : Int) :
    bdayMove w0 d0 sh =
      (if w0 ≥ 6 then
        (if !shNegP sh then bdTail (d0 + (8 - (w0 : Int))) 1 (shBvalue sh - (if shBvalue sh ≠ 0 ∧ !shInvP sh then 1 else 0))
         else bdTail (d0 - ((w0 : Int) - 5)) 5 (shBvalue sh + (if shBvalue sh ≠ 0 ∧ !shInvP sh then 1 else 0)))
       else bdTail d0 w0 (shBvalue sh)) := by
  unfold bdayMove bdTail
  split <;> (try split) <;> rfl
end Echse.RuleExt
