/-
  The day loop of `rrul_fill_dly` (`dlyLoop`): it ends within the fuel `wlyDlyFuel` grants and leaves a sane accumulator.
-/
import Echse.Lemmas.RrOkAcc
namespace Echse.Lemmas.RrOkBase
open Echse.Rrule Echse.Instant Echse.Spec.RrOk

/-- `dlyEnum` is the generic ENUM loop -/
def dlySkip (c : DlyCtx) (ix : Nat × Nat × Nat) : Bool :=
  c.posp && !posMatchP c.r.pos
    ((ix.1 * c.e.M.length + ix.2.1) * c.e.S.length + ix.2.2 + 1) (c.e.H.length * c.e.M.length * c.e.S.length)

theorem dlyEnum_eq (c : DlyCtx) (y m d : Nat) : ∀ (l : List Tix) (res : List Inst),
    dlyEnum c y m d l res = genEnum c.r c.proto c.nti false (dlySkip c) y m d l res := by
  intro l
  induction l with
  | nil => intro res; rfl
  | cons t rest ih =>
    obtain ⟨⟨iH, iM, iS⟩, h, mi, s⟩ := t
    intro res
    unfold dlyEnum genEnum
    simp only [ih, dlySkip, Bool.false_eq_true, if_false]
    rfl

/-- the fuel is enough for the rounds the day (or week) loop may still need: one if the year is beyond 2099, else the
days left until then (`768602 = 2100 * 366 + 2`) -/
def Enough (fuel y m d : Nat) : Prop := if y > 2099 then 1 ≤ fuel else 768602 ≤ fuel + dayNo y m d

theorem enough_start (y m d nti : Nat) (hv : VD y m d) : Enough (wlyDlyFuel y nti) y m d := by
  unfold Enough wlyDlyFuel dayNo
  have := hv.2.2.1
  split <;> omega

/-- after a carry from a date with `y ≤ 2099` that moved forward by at least a day, one round less is needed -/
theorem enough_step {y m d k y2 m2 d2 fuel : Nat} (hv : VD y m d) (hy : y ≤ 2099) (hk : 1 ≤ k)
    (hc : Carry y m (d + k) y2 m2 d2) (hn : Enough (fuel + 1) y m d) : Enough fuel y2 m2 d2 := by
  obtain ⟨-, -, hdn, -⟩ := hc.props hv.1 hv.2.1 (by omega)
  have hcum := (cum_le m hv.1 hv.2.1).1
  have hd := hv.d31
  unfold Enough at hn ⊢
  unfold dayNo at hn hdn ⊢
  rw [if_neg (by omega)] at hn
  split <;> omega

theorem enough_pos {fuel y m d : Nat} (hv : VD y m d) (h : Enough fuel y m d) : 1 ≤ fuel := by
  have hcum := (cum_le m hv.1 hv.2.1).1
  have hd := hv.d31
  unfold Enough dayNo at h
  split at h <;> omega

/-- the ENUM loop of one day, `D - d` days after the loop's current date -/
theorem day_step (r : Rule) (p : Inst) (nti : Nat) (brk : Bool) (skip : Nat × Nat × Nat → Bool) (hp : WfInst p)
    {e : Enum} (he : EnumOk e) {y m D ty tm td : Nat} {res : List Inst}
    (hc : Carry y m D ty tm td) (h1 : 1 ≤ m) (h2 : m ≤ 12) (hD : 1 ≤ D) (hty : ty ≤ 2099)
    (hacc : Acc r p nti res) (hb : Below res y m D) :
    Acc r p nti (genEnum r p nti brk skip ty tm td e.timesIx res).1 ∧
    Below (genEnum r p nti brk skip ty tm td e.timesIx res).1 y m (D + 1) := by
  have hv := (hc.props h1 h2 hD).1
  have hz : ∀ z ∈ res, ikey z < dkey ty tm td * 4194304 := fun z hz => hb z hz D ty tm td (Nat.le_refl _) hc
  obtain ⟨ha, hd⟩ := genEnum_spec r p nti brk skip ty tm td hp hv hty e.timesIx res
    (fun t ht => timesIx_good he ht) (timesIx_asc he) hacc
    (fun z h t _ => Nat.lt_of_lt_of_le (hz z h) (Nat.le_add_right _ _))
    (fun z h => Nat.lt_of_lt_of_le (hz z h) (Nat.mul_le_mul_right _ (Nat.le_add_right _ _)))
  exact ⟨ha, below_of_done hc h1 h2 hD hd⟩

/-- the day loop ends within its fuel; when the enumeration is sane (`EnumOk`) it keeps the accumulator sane -/
theorem dlyLoop_spec (c : DlyCtx) (hr : WfRule c.r) (hp : WfInst c.proto) :
    ∀ (fuel y m d w : Nat) (res : List Inst), VD y m d → y ≤ 13000000 →
      (EnumOk c.e → Acc c.r c.proto c.nti res ∧ Below res y m d) → Enough fuel y m d →
      ∃ l, dlyLoop c fuel y m d w (getNdom y m) res = some l ∧ (EnumOk c.e → Acc c.r c.proto c.nti l) := by
  intro fuel
  induction fuel with
  | zero => intro y m d w res hv _ _ hn; have := enough_pos hv hn; omega
  | succ f ih =>
    intro y m d w res hv hy hab hn
    unfold dlyLoop
    by_cases c1 : res.length < c.nti
    · rw [if_neg (fun h => h c1)]
      by_cases c2 : y > wlyDlyMaxYear ∨ y > c.r.untl.y
      · rw [if_pos c2]; exact ⟨res, rfl, fun he => (hab he).1⟩
      · rw [if_neg c2]
        have hy99 : y ≤ 2099 := by unfold wlyDlyMaxYear at c2; omega
        have hd31 := hv.d31
        have hm12 := hv.2.1
        -- the day's instants
        have hday : ∀ sk : Bool, EnumOk c.e →
            Acc c.r c.proto c.nti (if sk = true then (res, false) else dlyEnum c y m d c.e.timesIx res).1 ∧
            Below (if sk = true then (res, false) else dlyEnum c y m d c.e.timesIx res).1 y m (d + 1) := by
          intro sk he
          obtain ⟨hacc, hb⟩ := hab he
          cases sk
          · rw [if_neg (by simp), dlyEnum_eq]
            exact day_step c.r c.proto c.nti false (dlySkip c) hp he (Carry.done hv.2.2.2) hv.1 hv.2.1 hv.2.2.1 hy99
              hacc hb
          · rw [if_pos rfl]; exact ⟨hacc, hb.mono (by omega)⟩
        generalize hsk : (!bit c.wdMask w || !bit c.mMask m ||
          (c.posdMask &&& shl1 d == 0 && c.negdMask &&& shl1 ((getNdom y m + u32 - d) % u32) == 0)) = sk
        have hday' := hday sk
        have hout : ∃ out, out = (if sk = true then (res, false) else dlyEnum c y m d c.e.timesIx res) := ⟨_, rfl⟩
        obtain ⟨out, hout⟩ := hout
        rw [← hout] at hday'
        simp only [← hout]
        obtain ⟨res', fin⟩ := out
        by_cases c3 : fin = true
        · rw [if_pos c3]; exact ⟨res', rfl, fun he => (hday' he).1⟩
        · rw [if_neg c3]
          have hi := hr.inter
          have e1 : (d + c.r.inter % u32) % u32 = d + c.r.inter := by unfold u32; omega
          rw [e1]
          obtain ⟨y2, m2, d2, hcm, hc⟩ := carryMon_spec (d + c.r.inter + 1) y m (d + c.r.inter) hv.1 hv.2.1
            (by omega) (by unfold pot; omega)
          rw [hcm]
          simp only
          obtain ⟨hv2, hpot, -, -⟩ := hc.props hv.1 hv.2.1 (by omega)
          refine ih y2 m2 d2 _ res' hv2 ?_
            (fun he => ⟨(hday' he).1, ((hday' he).2.mono (by omega)).rebase hc⟩) (enough_step hv hy99 hi.1 hc hn)
          unfold pot at hpot
          have := hv.2.1
          omega
    · rw [if_pos (by omega)]; exact ⟨res, rfl, fun he => (hab he).1⟩

end Echse.Lemmas.RrOkBase
