/-
  C15 — calendar scale conversions (`scale.c`): Gregorian, the eight arithmetic Hijri scales
  (types I..IV × astronomical/civil epoch, s = 1..8) and the two table Hijri scales
  (9 Umm al-Qura, 10 Diyanet), for EVERY day of the Gregorian years 1901..2099
  (day numbers `lo` .. `hi`, 72 684 days; day number = JDN − 2400000).

    1. Gregorian: `mjd2g` / `g2mjd` are mutually inverse between the day numbers `lo..hi` and the
       valid dates of 1901..2099, agree with the calendar spec `Spec.Cal.days` (up to the constant
       678880) and with the Sakamoto weekday `wdayGreg`.
    2. s = 1..8: round trip, valid date, consecutive days map to consecutive dates with the month
       lengths `scaleNdim` reports (`succDate`), weekday commutes.
    3. s = 9, 10: every day number outside the table's span is rejected (nil date), inside the span
       round trip / valid date / successor / weekday hold; months outside the table — the end marker
       (the table's last entry) among them — give 0: no day number, no weekday, no length.
    4. the same as statements about `rescale`.

  Parts 1, 2 are complete kernel enumerations (Echse/Lemmas/C15Greg*, C15Date*, C15Hij*; no sampling);
  part 3 is a general theorem on the linear scan over any table with increasing month starts
  (Echse/Lemmas/C15Tab) plus a kernel check of that property over the two generated tables.
  Statements only; `ValidG`, `succDate`, `dLo`, `dHi`, `dayOff` are in Echse/Lemmas/C15Enum,
  `GoodCal` in Echse/Lemmas/C15Tab.
-/
import Echse.Lemmas.C15All
import Echse.Lemmas.C15Tab
import Echse.Lemmas.C15Resc
namespace C15
open Echse.Scale Echse.Spec.Cal Echse.Gen

/-- first and last day number covered: 1901-01-01 and 2099-12-31 -/
def lo : Nat := g2mjd ⟨1901, 1, 1⟩
def hi : Nat := g2mjd ⟨2099, 12, 31⟩

theorem lo_eq : lo = 15386 := by decide
theorem hi_eq : hi = 88069 := by decide
/-- the range has 72 684 days -/
theorem range_size : hi + 1 - lo = 72684 := by decide

/-! ### 1. Gregorian -/

/-- every day number of the range is a valid date of 1901..2099 that converts back, sits at the
spec's day count `Spec.Cal.days` minus 678880, and has the weekday Sakamoto's formula gives. -/
theorem greg_of_mjd (j : Nat) (h1 : lo ≤ j) (h2 : j ≤ hi) :
    let g := mjd2g j
    g2mjd g = j ∧
    1901 ≤ g.y ∧ g.y ≤ 2099 ∧ 1 ≤ g.m ∧ g.m ≤ 12 ∧ 1 ≤ g.d ∧ g.d ≤ monthLen g.y g.m ∧
    days g.y g.m g.d = (j : Int) + 678880 ∧
    wdayGreg g.y g.m g.d = wdayOfMjd j := by
  rw [lo_eq] at h1; rw [hi_eq] at h2
  obtain ⟨a, b, c, d⟩ := chkG_spec j (chkG_all j h1 h2)
  exact ⟨a, b.1, b.2.1, b.2.2.1, b.2.2.2.1, b.2.2.2.2.1, b.2.2.2.2.2, c, d.symm⟩

/-- every valid date of 1901..2099 has its day number in the range and converts back. -/
theorem greg_to_mjd (g : Ymd) (hy1 : 1901 ≤ g.y) (hy2 : g.y ≤ 2099) (hm1 : 1 ≤ g.m) (hm2 : g.m ≤ 12)
    (hd1 : 1 ≤ g.d) (hd2 : g.d ≤ monthLen g.y g.m) :
    lo ≤ g2mjd g ∧ g2mjd g ≤ hi ∧ mjd2g (g2mjd g) = g := by
  rw [lo_eq, hi_eq]
  have hv : ValidG g := ⟨hy1, hy2, hm1, hm2, hd1, hd2⟩
  exact chkD_spec g hv (chkD_all _ (chkD_index g hv))

/-- the model's day number is the spec's day count, shifted -/
theorem greg_days (g : Ymd) (hy1 : 1901 ≤ g.y) (hy2 : g.y ≤ 2099) (hm1 : 1 ≤ g.m) (hm2 : g.m ≤ 12)
    (hd1 : 1 ≤ g.d) (hd2 : g.d ≤ monthLen g.y g.m) :
    days g.y g.m g.d = (g2mjd g : Int) + 678880 := by
  obtain ⟨a, b, c⟩ := greg_to_mjd g hy1 hy2 hm1 hm2 hd1 hd2
  have := (greg_of_mjd (g2mjd g) a b).2.2.2.2.2.2.2.1
  rwa [c] at this

/-- consecutive calendar days ↔ consecutive day numbers -/
theorem greg_consecutive (g g' : Ymd) (hg : ValidG g) (hg' : ValidG g') :
    days g'.y g'.m g'.d = days g.y g.m g.d + 1 ↔ g2mjd g' = g2mjd g + 1 := by
  obtain ⟨a1, a2, a3, a4, a5, a6⟩ := hg
  obtain ⟨b1, b2, b3, b4, b5, b6⟩ := hg'
  rw [greg_days g a1 a2 a3 a4 a5 a6, greg_days g' b1 b2 b3 b4 b5 b6]
  omega

/-! ### 2. arithmetic Hijri scales 1..8 -/

/-- for every day of the range and every arithmetic Hijri scale: round trip, valid date,
the next day number is the next date by the reported month lengths, weekday commutes. -/
theorem hijri_of_mjd (s : Nat) (hs1 : 1 ≤ s) (hs8 : s ≤ 8) (j : Nat) (h1 : lo ≤ j) (h2 : j ≤ hi) :
    let t := scalTyp s
    let e := scalEpo s
    let h := mjd2hij t e j
    let g := mjd2g j
    hij2mjd t e h = j ∧
    1 ≤ h.y ∧ 1 ≤ h.m ∧ h.m ≤ 12 ∧ 1 ≤ h.d ∧ h.d ≤ scaleNdim s h.y h.m ∧
    mjd2hij t e (j + 1) = succDate s h ∧
    scaleWday s h.y h.m h.d = wdayGreg g.y g.m g.d := by
  intro t e h g
  have hg := (greg_of_mjd j h1 h2).2.2.2.2.2.2.2.2
  rw [lo_eq] at h1; rw [hi_eq] at h2
  obtain ⟨a1, a2, a3, a4, a5, a6, a7⟩ := chkH_spec s j (chkH_all s hs1 hs8 j h1 h2)
  refine ⟨a1, a2, a3, a4, a5, a6, a7, ?_⟩
  rw [scaleWday_hij s hs1 hs8]
  show wdayOfMjd (hij2mjd t e h) = _
  rw [a1]; exact hg.symm

/-! ### 3. table Hijri scales 9, 10 -/

/-- first covered day number of the table of scale `s` and the first one after its last month -/
def first (s : Nat) : Nat := calMT (tableOf s) 0
def last (s : Nat) : Nat := calMT (tableOf s) (calNM (tableOf s) - 1)

/-- both generated tables: month starts positive, below 2^32, increasing by 28..30 days
(Umm al-Qura) resp. 29..30 days (Diyanet). -/
theorem tables_good : GoodCal 28 datUmmulqura ∧ GoodCal 29 datDiyanet :=
  ⟨goodCal_ummulqura, goodCal_diyanet⟩

/-- ANY day number outside the table's span is rejected (never mapped to a wrong day). -/
theorem table_reject (s : Nat) (_hs : s = 9 ∨ s = 10) (j : Nat) (h : j < first s ∨ last s ≤ j) :
    mjd2ht (tableOf s) j = ⟨0, 0, 0⟩ :=
  (goodCal_tableOf s).mjd2ht_reject j h

/-- inside the span: non-nil, round trip, valid date, weekday, successor. -/
theorem table_of_mjd (s : Nat) (hs : s = 9 ∨ s = 10) (j : Nat) (h1 : first s ≤ j) (h2 : j < last s) :
    let h := mjd2ht (tableOf s) j
    1 ≤ h.y ∧ ht2mjd (tableOf s) h = j ∧
    1 ≤ h.m ∧ h.m ≤ 12 ∧ 1 ≤ h.d ∧ h.d ≤ ndimHt (tableOf s) h.y h.m ∧
    scaleNdim s h.y h.m = ndimHt (tableOf s) h.y h.m ∧
    scaleWday s h.y h.m h.d = wdayOfMjd j ∧
    (j + 1 < last s → mjd2ht (tableOf s) (j + 1) = succDate s h) := by
  intro h
  have gc := goodCal_tableOf s
  unfold first at h1; unfold last at h2
  obtain ⟨n, n1, n2, n3, n4⟩ := gc.bracket_exists j h1 h2
  have e : h = htDate (tableOf s) n j := gc.mjd2ht_bracket j n n1 n2 n3 n4
  have rt : ht2mjd (tableOf s) h = j := by rw [e]; exact gc.ht2mjd_htDate j n n1 n2 n3 n4
  have nd := gc.ndimHt_htDate j n n1 n2
  refine ⟨?_, rt, ?_, ?_, ?_, ?_, scaleNdim_tab s hs _ _, ?_, ?_⟩
  · rw [e]; show 1 ≤ (n + calSM (tableOf s) - 1) / 12 + 1; omega
  · rw [e]; show 1 ≤ (n + calSM (tableOf s) - 1) % 12 + 1; omega
  · rw [e]; show (n + calSM (tableOf s) - 1) % 12 + 1 ≤ 12; omega
  · rw [e]; show 1 ≤ j - calMT (tableOf s) (n - 1) + 1; omega
  · rw [e, nd]; show j - calMT (tableOf s) (n - 1) + 1 ≤ _; omega
  · have j0 : ht2mjd (tableOf s) ⟨h.y, h.m, h.d⟩ ≠ 0 := by
      show ht2mjd (tableOf s) h ≠ 0
      have := gc.first_pos
      rw [rt]; omega
    rw [scaleWday_tab_pos s hs _ _ _ j0]
    show wdayOfMjd (ht2mjd (tableOf s) h) = _
    rw [rt]
  · intro h5
    rw [succDate_tab s hs, e]
    exact gc.succ_htDate j n n1 n2 n3 n4 h5

/-- the table weekday is the Gregorian weekday (days of 1901..2099) -/
theorem table_wday_greg (j : Nat) (h1 : lo ≤ j) (h2 : j ≤ hi) :
    wdayOfMjd j = wdayGreg (mjd2g j).y (mjd2g j).m (mjd2g j).d :=
  ((greg_of_mjd j h1 h2).2.2.2.2.2.2.2.2).symm

/-- months in the table have 28..30 days (Diyanet: 29..30) -/
theorem table_ndim_range (s : Nat) (_hs : s = 9 ∨ s = 10) (y m : Nat)
    (h0 : 0 ≤ ((y : Int) - 1) * 12 + ((m : Int) - 1) - calSM (tableOf s))
    (h1 : ((y : Int) - 1) * 12 + ((m : Int) - 1) - calSM (tableOf s) < (calNM (tableOf s) : Int) - 1) :
    (if s = 9 then 28 else 29) ≤ ndimHt (tableOf s) y m ∧ ndimHt (tableOf s) y m ≤ 30 := by
  unfold tableOf at *
  split
  · rename_i e; simp only [e, if_true] at h0 h1 ⊢
    exact goodCal_ummulqura.ndimHt_inside y m h0 h1
  · rename_i e; simp only [e, if_false] at h0 h1 ⊢
    exact goodCal_diyanet.ndimHt_inside y m h0 h1

/-- months outside the table (`y ≤ 4095`, `m ≤ 15`: the instant's bit fields), the END MARKER among them — the
table's last entry (index `calNM − 1`) closes the last month and is no month itself —: `ht2mjd` gives 0 … -/
theorem table_ht2mjd_outside (s : Nat) (_hs : s = 9 ∨ s = 10) (h : Ymd) (hy : h.y ≤ 4095) (hm : h.m ≤ 15)
    (ho : ((h.y : Int) - 1) * 12 + ((h.m : Int) - 1) - calSM (tableOf s) < 0 ∨
          (calNM (tableOf s) : Int) - 1 ≤ ((h.y : Int) - 1) * 12 + ((h.m : Int) - 1) - calSM (tableOf s)) :
    ht2mjd (tableOf s) h = 0 :=
  (goodCal_tableOf s).ht2mjd_outside h hy hm ho

/-- … hence such a date has no day number (`echs_instant_rescale` answers nil), whatever the target scale, … -/
theorem table_toMjd_outside (s : Nat) (hs : s = 9 ∨ s = 10) (h : Ymd) (hy : h.y ≤ 4095) (hm : h.m ≤ 15)
    (ho : ((h.y : Int) - 1) * 12 + ((h.m : Int) - 1) - calSM (tableOf s) < 0 ∨
          (calNM (tableOf s) : Int) - 1 ≤ ((h.y : Int) - 1) * 12 + ((h.m : Int) - 1) - calSM (tableOf s)) :
    toMjd s h = none ∧ ∀ t, t ≠ s → rescale s t h = none := by
  have z := table_ht2mjd_outside s hs h hy hm ho
  have e : toMjd s h = none := by rw [toMjd_tab s hs, if_pos z]
  refine ⟨e, ?_⟩
  intro t ht
  have : ¬ s = t := fun c => ht c.symm
  simp [rescale, this, e]

/-- … and no weekday (`MIR` = 0, not the weekday of day number 0), … -/
theorem table_wday_outside (s : Nat) (hs : s = 9 ∨ s = 10) (y m d : Nat) (hy : y ≤ 4095) (hm : m ≤ 15)
    (ho : ((y : Int) - 1) * 12 + ((m : Int) - 1) - calSM (tableOf s) < 0 ∨
          (calNM (tableOf s) : Int) - 1 ≤ ((y : Int) - 1) * 12 + ((m : Int) - 1) - calSM (tableOf s)) :
    scaleWday s y m d = 0 :=
  scaleWday_tab_zero s hs y m d (table_ht2mjd_outside s hs ⟨y, m, d⟩ hy hm ho)

/-- the weekday of a table scale is 0 exactly for the dates `ht2mjd` has not got, 1..7 otherwise -/
theorem table_wday_zero_iff (s : Nat) (hs : s = 9 ∨ s = 10) (y m d : Nat) :
    scaleWday s y m d = 0 ↔ ht2mjd (tableOf s) ⟨y, m, d⟩ = 0 := by
  rw [scaleWday_tab s hs]
  by_cases c : ht2mjd (tableOf s) ⟨y, m, d⟩ = 0
  · simp [c]
  · simp only [c, if_false, iff_false]; unfold wdayOfMjd; omega

/-- … and `ndimHt` (hence `scaleNdim`) gives 0 (the last transition only closes the last month). -/
theorem table_ndim_outside (s : Nat) (hs : s = 9 ∨ s = 10) (y m : Nat) (hy : y ≤ 4095) (hm : m ≤ 15)
    (ho : ((y : Int) - 1) * 12 + ((m : Int) - 1) - calSM (tableOf s) < 0 ∨
          (calNM (tableOf s) : Int) - 1 ≤ ((y : Int) - 1) * 12 + ((m : Int) - 1) - calSM (tableOf s)) :
    scaleNdim s y m = 0 := by
  rw [scaleNdim_tab s hs]
  exact (goodCal_tableOf s).ndimHt_outside y m hy hm ho

/-! ### 4. `rescale` -/

/-- Gregorian → arithmetic Hijri → Gregorian is the identity on the valid dates of 1901..2099. -/
theorem rescale_hijri (s : Nat) (hs1 : 1 ≤ s) (hs8 : s ≤ 8) (g : Ymd) (hg : ValidG g) :
    ∃ h, rescale 0 s g = some h ∧ rescale s 0 h = some g := by
  obtain ⟨a1, a2, a3, a4, a5, a6⟩ := hg
  obtain ⟨b1, b2, b3⟩ := greg_to_mjd g a1 a2 a3 a4 a5 a6
  obtain ⟨c1, c2, _⟩ := hijri_of_mjd s hs1 hs8 (g2mjd g) b1 b2
  refine ⟨mjd2hij (scalTyp s) (scalEpo s) (g2mjd g), ?_, ?_⟩
  · rw [rescale_from_greg s hs1, ofMjd_hij s hs1 hs8 _ (by omega)]
  · rw [rescale_hij_to_greg s hs1 hs8, c1, ofMjd_greg _ (by rw [b3]; omega), b3]

/-- Gregorian → table Hijri → Gregorian is the identity where the table covers the day … -/
theorem rescale_table (s : Nat) (hs : s = 9 ∨ s = 10) (g : Ymd) (hg : ValidG g)
    (h1 : first s ≤ g2mjd g) (h2 : g2mjd g < last s) :
    ∃ h, rescale 0 s g = some h ∧ rescale s 0 h = some g := by
  obtain ⟨a1, a2, a3, a4, a5, a6⟩ := hg
  obtain ⟨b1, b2, b3⟩ := greg_to_mjd g a1 a2 a3 a4 a5 a6
  obtain ⟨c1, c2, _⟩ := table_of_mjd s hs (g2mjd g) h1 h2
  have hlo : lo ≤ g2mjd g := b1
  rw [lo_eq] at hlo
  refine ⟨mjd2ht (tableOf s) (g2mjd g), ?_, ?_⟩
  · rw [rescale_from_greg s (by omega), ofMjd_tab s hs, if_neg (by omega)]
  · rw [rescale_tab_to_greg s hs _ (by rw [c2]; omega), c2, ofMjd_greg _ (by rw [b3]; omega), b3]

/-- … and fails (no date, never a wrong one) where it does not. -/
theorem rescale_table_none (s : Nat) (hs : s = 9 ∨ s = 10) (g : Ymd)
    (h : g2mjd g < first s ∨ last s ≤ g2mjd g) : rescale 0 s g = none := by
  rw [rescale_from_greg s (by omega), ofMjd_tab s hs, table_reject s hs _ h]
  rfl

/-! ### concrete instances -/

example : rescale 7 0 ⟨1440, 1, 1⟩ = some ⟨2018, 9, 11⟩ := by decide
example : rescale 0 7 ⟨2018, 9, 11⟩ = some ⟨1440, 1, 1⟩ := by decide
example : rescale 0 8 ⟨2018, 9, 11⟩ = some ⟨1440, 1, 2⟩ := by decide
example : succDate 7 ⟨1439, 12, 29⟩ = ⟨1440, 1, 1⟩ ∧ succDate 7 ⟨1440, 1, 30⟩ = ⟨1440, 2, 1⟩ := by decide
example : rescale 0 1 ⟨1901, 1, 1⟩ = some ⟨1318, 9, 10⟩ := by decide
example : rescale 0 2 ⟨2099, 12, 31⟩ = some ⟨1523, 10, 19⟩ := by decide
-- the hypotheses of `greg_to_mjd` are inhabited by leap days, and exclude 1900-02-29
example : ValidG ⟨2000, 2, 29⟩ ∧ ¬ ValidG ⟨1900, 2, 29⟩ ∧ ¬ ValidG ⟨2001, 2, 29⟩ := by decide
-- Umm al-Qura / Diyanet coverage and a day outside it
example : (first 9, last 9) = (28607, 79990) ∧ (first 10, last 10) = (15141, 59938) := by decide +kernel
example : rescale 0 9 ⟨2018, 9, 11⟩ = some ⟨1440, 1, 1⟩ := by decide +kernel
example : rescale 9 0 ⟨1440, 1, 1⟩ = some ⟨2018, 9, 11⟩ := by decide +kernel
example : rescale 0 10 ⟨2018, 9, 11⟩ = some ⟨1440, 1, 1⟩ := by decide +kernel
example : mjd2g 28606 = ⟨1937, 3, 13⟩ ∧ rescale 0 9 ⟨1937, 3, 13⟩ = none ∧
    rescale 0 9 ⟨1937, 3, 14⟩ = some ⟨1356, 1, 1⟩ := by decide +kernel
example : rescale 0 9 ⟨2077, 11, 17⟩ = none := by decide +kernel
example : rescale 9 0 ⟨1355, 12, 1⟩ = none ∧ rescale 9 0 ⟨1501, 2, 1⟩ = none := by decide +kernel
-- the closing transition (index nm-1: Umm al-Qura 1501-01, Diyanet 1444-06) is no month: `ht2mjd` answers 0, there is no
-- day number, no weekday and no month length, as `mjd2ht` rejects its days (before D195 `ht2mjd` took it for a month)
example : calNM (tableOf 9) - 1 + calSM (tableOf 9) = (1501 - 1) * 12 + (1 - 1) ∧
    calNM (tableOf 10) - 1 + calSM (tableOf 10) = (1444 - 1) * 12 + (6 - 1) := by decide +kernel
example : ht2mjd (tableOf 9) ⟨1501, 1, 1⟩ = 0 ∧ toMjd 9 ⟨1501, 1, 1⟩ = none ∧ rescale 9 0 ⟨1501, 1, 1⟩ = none ∧
    scaleWday 9 1501 1 1 = 0 ∧ scaleNdim 9 1501 1 = 0 ∧ rescale 0 9 ⟨2077, 11, 17⟩ = none := by decide +kernel
example : ht2mjd (tableOf 10) ⟨1444, 6, 1⟩ = 0 ∧ toMjd 10 ⟨1444, 6, 1⟩ = none ∧ rescale 10 0 ⟨1444, 6, 1⟩ = none ∧
    scaleWday 10 1444 6 1 = 0 ∧ scaleNdim 10 1444 6 = 0 ∧ mjd2ht (tableOf 10) (last 10) = ⟨0, 0, 0⟩ := by decide +kernel
-- the month before it is the last one: its last day is the day before `last s`
example : rescale 9 0 ⟨1500, 12, 30⟩ = some ⟨2077, 11, 16⟩ ∧ scaleNdim 9 1500 12 = 30 ∧
    ht2mjd (tableOf 9) ⟨1500, 12, 30⟩ + 1 = last 9 ∧ scaleWday 9 1500 12 30 = 2 ∧ wdayGreg 2077 11 16 = 2 := by decide +kernel
example : ht2mjd (tableOf 10) ⟨1444, 5, 1⟩ + scaleNdim 10 1444 5 = last 10 ∧ 1 ≤ scaleWday 10 1444 5 1 := by decide +kernel
-- a month before the table: no weekday either (was `wdayOfMjd 0` = 2)
example : scaleWday 9 1355 12 1 = 0 ∧ scaleWday 10 1300 1 1 = 0 ∧ wdayOfMjd 0 = 2 := by decide +kernel
-- the bounds `y ≤ 4095`, `m ≤ 15` in `table_ht2mjd_outside` are needed: the `unsigned` month index
-- wraps, so an absurd year far outside the table lands on its first month
example : ht2mjd (tableOf 9) ⟨357915297, 5, 1⟩ = first 9 := by decide +kernel

end C15
