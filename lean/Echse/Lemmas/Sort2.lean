/-
  Sorting, part 2: chunk bookkeeping, one merge level, and the arithmetic of the
  fixed-point range iterator (`WikiIter`).

  A level of the iterator with `c` ranges over `size` elements has the range boundaries
  `i * size / c` (`i = 0..c`); `nextLevel` halves `c`, so that the ranges of the next level are
  the unions of adjacent pairs.
-/
import Echse.Lemmas.Sort1
namespace Echse.Sort

variable {α : Type}

/-! ### chunks -/

/-- lengths after merging adjacent pairs -/
def pairSums : List Nat → List Nat
  | a :: b :: rest => (a + b) :: pairSums rest
  | rest => rest

theorem pairSums_sum (L : List Nat) : (pairSums L).sum = L.sum := by
  fun_induction pairSums L with
  | case1 a b rest ih => simp [ih]; omega
  | case2 rest h => rfl

theorem chunks_map_length : ∀ (L : List Nat) (xs : List α), L.sum ≤ xs.length →
    (chunks L xs).map List.length = L := by
  intro L
  induction L with
  | nil => intro xs _; rfl
  | cons n ns ih =>
    intro xs h
    simp only [List.sum_cons] at h
    simp only [chunks, List.map_cons, List.length_take]
    rw [ih (xs.drop n) (by rw [List.length_drop]; omega)]
    congr 1
    omega

theorem chunks_flatten : ∀ (L : List Nat) (xs : List α), xs.length ≤ L.sum →
    (chunks L xs).flatten = xs := by
  intro L
  induction L with
  | nil =>
    intro xs h
    simp only [List.sum_nil, Nat.le_zero, List.length_eq_zero_iff] at h
    subst h; rfl
  | cons n ns ih =>
    intro xs h
    simp only [List.sum_cons] at h
    simp only [chunks, List.flatten_cons]
    rw [ih (xs.drop n) (by rw [List.length_drop]; omega), List.take_append_drop]

theorem chunks_of_flatten : ∀ (cs : List (List α)), chunks (cs.map List.length) cs.flatten = cs := by
  intro cs
  induction cs with
  | nil => rfl
  | cons c cs ih =>
    simp only [List.map_cons, List.flatten_cons, chunks]
    rw [List.take_left', List.drop_left', ih] <;> rfl

/-! ### one merge level -/

section
variable (lt : α → α → Bool) (key : α → Nat) (hlt : ∀ a b, lt a b = decide (key a < key b))
include hlt
variable [Inhabited α]

theorem mergeLevel_spec (cs : List (List α)) : (∀ c ∈ cs, SortedK key c) →
    (∀ c ∈ mergeLevel lt cs, SortedK key c) ∧
    (mergeLevel lt cs).map List.length = pairSums (cs.map List.length) ∧
    ∀ k, fk key k (mergeLevel lt cs).flatten = fk key k cs.flatten := by
  fun_induction mergeLevel lt cs with
  | case1 a b rest ih =>
    intro h
    have ha := h a (by simp)
    have hb := h b (by simp)
    obtain ⟨i1, i2, i3⟩ := ih (fun c hc => h c (by simp [hc]))
    obtain ⟨m1, m2, m3⟩ := mergeStep_spec lt key hlt a b ha hb
    refine ⟨?_, ?_, ?_⟩
    · intro c hc
      rcases List.mem_cons.mp hc with e | m
      · rw [e]; exact m1
      · exact i1 c m
    · simp only [List.map_cons, pairSums]
      rw [i2]
      congr 1
    · intro k
      have := i3 k
      simp only [fk, List.flatten_cons, List.filter_append] at this ⊢
      rw [this]
      have := m3 k
      simp only [fk] at this
      rw [this, List.append_assoc]
  | case2 rest hne =>
    intro h
    refine ⟨h, ?_, fun _ => rfl⟩
    match rest, hne with
    | [], _ => rfl
    | [a], _ => rfl
    | a :: b :: r, hne => exact absurd rfl (hne a b r)

omit [Inhabited α] in
theorem fk_flatten_map_stableSort (k : Nat) (cs : List (List α)) :
    fk key k ((cs.map (stableSort lt)).flatten) = fk key k cs.flatten := by
  induction cs with
  | nil => rfl
  | cons c cs ih =>
    simp only [fk, List.map_cons, List.flatten_cons, List.filter_append] at ih ⊢
    rw [ih]
    have := stableSort_stable lt key hlt c k
    simp only [fk] at this
    rw [this]

end

/-! ### C: iterator arithmetic -/

/-- `floorPow2` yields a power of two, below its argument, not smaller than any power of two
below the argument (as far as the fuel reaches) -/
theorem floorPow2_spec : ∀ fuel n, 1 ≤ n →
    ∃ p, p ≤ fuel ∧ floorPow2 fuel n = 2 ^ p ∧ 2 ^ p ≤ n ∧ ∀ q, q ≤ fuel → 2 ^ q ≤ n → q ≤ p := by
  intro fuel
  induction fuel with
  | zero =>
    intro n hn
    exact ⟨0, Nat.le_refl _, rfl, hn, fun q hq _ => hq⟩
  | succ f ih =>
    intro n hn
    unfold floorPow2
    by_cases c : n < 2
    · simp only [c, if_true]
      have : n = 1 := by omega
      subst this
      refine ⟨0, by omega, rfl, by omega, ?_⟩
      intro q _ h
      rcases Nat.eq_zero_or_pos q with z | p
      · omega
      · have := Nat.pow_le_pow_right (n := 2) (by omega) p
        omega
    · simp only [c, if_false]
      obtain ⟨p, hp, e, le, mx⟩ := ih (n / 2) (by omega)
      refine ⟨p + 1, by omega, by rw [e, Nat.pow_succ, Nat.mul_comm], ?_, ?_⟩
      · rw [Nat.pow_succ]; omega
      · intro q hq h
        cases q with
        | zero => omega
        | succ q =>
          rw [Nat.pow_succ] at h
          have := mx q (by omega) (by omega)
          omega

/-- the state of a level with `c` ranges; `w` is the scale `fractionalBase / c` -/
structure Lvl (it : WikiIter) (c w : Nat) : Prop where
  hc : 0 < c
  hw : 0 < w
  hcs : c ≤ it.size
  hfb : it.fractionalBase = c * w
  hS : it.decimalStep * it.fractionalBase + it.fractionalStep = w * it.size
  hfs : it.fractionalStep < it.fractionalBase

/-- `i`-th range boundary of a level with `c` ranges -/
def bnd (size c i : Nat) : Nat := i * size / c

/-- the range lengths `j, …, j+n-1` of a level with `c` ranges -/
def lens (size c j n : Nat) : List Nat :=
  (List.range' j n).map (fun i => bnd size c (i + 1) - bnd size c i)

theorem bnd_mono (size c i : Nat) : bnd size c i ≤ bnd size c (i + 1) :=
  Nat.div_le_div_right (Nat.mul_le_mul_right _ (Nat.le_succ i))

theorem bnd_full (size c : Nat) (hc : 0 < c) : bnd size c c = size := by
  unfold bnd; rw [Nat.mul_comm]; exact Nat.mul_div_cancel _ hc

theorem bnd_zero (size c : Nat) : bnd size c 0 = 0 := by simp [bnd]

theorem bnd_double (size c i : Nat) : bnd size (2 * c) (2 * i) = bnd size c i := by
  unfold bnd
  rw [Nat.mul_assoc]
  exact Nat.mul_div_mul_left _ _ (by omega)

theorem sum_diffs (B : Nat → Nat) (hB : ∀ i, B i ≤ B (i + 1)) : ∀ n j,
    ((List.range' j n).map (fun i => B (i + 1) - B i)).sum + B j = B (j + n) := by
  intro n
  induction n with
  | zero => intro j; simp
  | succ n ih =>
    intro j
    have := ih (j + 1)
    have := hB j
    simp only [List.range'_succ, List.map_cons, List.sum_cons]
    rw [show j + (n + 1) = j + 1 + n by omega]
    omega

theorem pairSums_diffs (B : Nat → Nat) (hB : ∀ i, B i ≤ B (i + 1)) : ∀ n j,
    pairSums ((List.range' (2 * j) (2 * n)).map (fun i => B (i + 1) - B i))
      = (List.range' j n).map (fun i => B (2 * (i + 1)) - B (2 * i)) := by
  intro n
  induction n with
  | zero => intro j; rfl
  | succ n ih =>
    intro j
    have := ih (j + 1)
    rw [show 2 * (n + 1) = (2 * n + 1) + 1 by omega]
    simp only [List.range'_succ, List.map_cons, pairSums]
    rw [show 2 * j + 1 + 1 = 2 * (j + 1) by omega, this]
    congr 1
    have h1 := hB (2 * j)
    have h2 := hB (2 * j + 1)
    rw [show 2 * (j + 1) = 2 * j + 1 + 1 by omega]
    omega

theorem lens_sum (size c : Nat) (hc : 0 < c) : (lens size c 0 c).sum = size := by
  have := sum_diffs (bnd size c) (bnd_mono size c) c 0
  rw [bnd_zero, Nat.zero_add, bnd_full size c hc] at this
  exact this

theorem pairSums_lens (size c : Nat) : pairSums (lens size (2 * c) 0 (2 * c)) = lens size c 0 c := by
  have := pairSums_diffs (bnd size (2 * c)) (bnd_mono size (2 * c)) c 0
  unfold lens
  rw [Nat.mul_zero] at this
  rw [this]
  apply List.map_congr_left
  intro i _
  rw [bnd_double, bnd_double]

/-- the iterator state after `j` ranges determines the boundary -/
theorem state_bnd (d f j w c size : Nat) (hw : 0 < w) (_hc : 0 < c)
    (h : d * (c * w) + f = j * (w * size)) (hf : f < c * w) : d = bnd size c j := by
  unfold bnd
  rw [← Nat.mul_div_mul_right (j * size) c hw]
  have e : j * size * w = d * (c * w) + f := by
    rw [h, Nat.mul_assoc, Nat.mul_comm size w]
  rw [e]
  generalize c * w = m at *
  symm
  apply Nat.div_eq_of_lt_le
  · omega
  · rw [Nat.succ_mul]; omega

theorem Lvl.size_pos {it : WikiIter} {c w : Nat} (L : Lvl it c w) : 0 < it.size :=
  Nat.lt_of_lt_of_le L.hc L.hcs

theorem Lvl.decimalStep_eq {it : WikiIter} {c w : Nat} (L : Lvl it c w) :
    it.decimalStep = it.size / c := by
  have := state_bnd it.decimalStep it.fractionalStep 1 w c it.size L.hw L.hc
    (by rw [← L.hfb, L.hS, Nat.one_mul]) (by rw [← L.hfb]; exact L.hfs)
  simpa [bnd] using this

/-- C: the ranges of a level, in closed form -/
theorem lengths_eq (it : WikiIter) (c w : Nat) (L : Lvl it c w) : ∀ fuel j d f, c - j < fuel → j ≤ c →
    d * it.fractionalBase + f = j * (w * it.size) → f < it.fractionalBase →
    it.lengths fuel d f = lens it.size c j (c - j) := by
  intro fuel
  induction fuel with
  | zero => intro j d f h; omega
  | succ fuel ih =>
    intro j d f hfuel hj hst hf
    have hd : d = bnd it.size c j :=
      state_bnd d f j w c it.size L.hw L.hc (by rw [← L.hfb]; exact hst) (by rw [← L.hfb]; exact hf)
    unfold WikiIter.lengths
    rcases Nat.eq_or_lt_of_le hj with e | hlt
    · subst e
      rw [bnd_full _ _ L.hc] at hd
      have : d ≥ it.size := by omega
      simp only [this, if_true, Nat.sub_self, lens, List.range'_zero, List.map_nil]
    · have hds : ¬ d ≥ it.size := by
        rw [hd]; unfold bnd
        apply Nat.not_le_of_lt
        rw [Nat.div_lt_iff_lt_mul L.hc]
        rw [Nat.mul_comm it.size c]
        exact (Nat.mul_lt_mul_right L.size_pos).mpr hlt
      simp only [hds, if_false]
      have hS := L.hS
      have hfs := L.hfs
      have e1 : (d + it.decimalStep) * it.fractionalBase
          = d * it.fractionalBase + it.decimalStep * it.fractionalBase := Nat.add_mul _ _ _
      have e2 : (d + it.decimalStep + 1) * it.fractionalBase
          = d * it.fractionalBase + it.decimalStep * it.fractionalBase + it.fractionalBase := by
        rw [Nat.add_mul, Nat.add_mul, Nat.one_mul]
      have e3 : (j + 1) * (w * it.size) = j * (w * it.size) + w * it.size := Nat.succ_mul _ _
      have hlens : lens it.size c j (c - j) =
          (bnd it.size c (j + 1) - bnd it.size c j) :: lens it.size c (j + 1) (c - (j + 1)) := by
        unfold lens
        rw [show c - j = (c - (j + 1)) + 1 by omega, List.range'_succ, List.map_cons]
      rw [hlens]
      by_cases cf : f + it.fractionalStep ≥ it.fractionalBase
      · simp only [cf, if_true]
        have hst' : (d + it.decimalStep + 1) * it.fractionalBase + (f + it.fractionalStep - it.fractionalBase)
            = (j + 1) * (w * it.size) := by omega
        have hd' := state_bnd _ _ (j + 1) w c it.size L.hw L.hc (by rw [← L.hfb]; exact hst')
          (by rw [← L.hfb]; omega)
        rw [ih (j + 1) _ _ (by omega) (by omega) hst' (by omega), ← hd', ← hd]
      · simp only [cf, if_false]
        have hst' : (d + it.decimalStep) * it.fractionalBase + (f + it.fractionalStep)
            = (j + 1) * (w * it.size) := by omega
        have hd' := state_bnd _ _ (j + 1) w c it.size L.hw L.hc (by rw [← L.hfb]; exact hst')
          (by rw [← L.hfb]; omega)
        rw [ih (j + 1) _ _ (by omega) (by omega) hst' (by omega), ← hd', ← hd]

/-- all ranges of a level as the driver computes them -/
theorem lengths_level (it : WikiIter) (c w : Nat) (L : Lvl it c w) :
    it.lengths (it.size + 1) 0 0 = lens it.size c 0 c := by
  have := lengths_eq it c w L (it.size + 1) 0 0 0 (by have := L.hcs; omega) (by omega) (by simp)
    (Nat.lt_of_le_of_lt (Nat.zero_le _) L.hfs)
  simpa using this

/-- C: level 0 of `WikiIterator_new(size, 8)` has `2^(e+1)` ranges, `e+1 ≤ 61` -/
theorem Lvl_new (size : Nat) (h : 32 < size) :
    ∃ e, e ≤ 60 ∧ Lvl (WikiIter.new size 8) (2 * 2 ^ e) 1 ∧ (WikiIter.new size 8).size = size := by
  obtain ⟨p, hp, e, le, mx⟩ := floorPow2_spec 64 size (by omega)
  have h5 : 5 ≤ p := mx 5 (by omega) (by omega)
  have hfb : 2 ^ p / 8 = 2 * 2 ^ (p - 4) := by
    have : p = (p - 4) + 1 + 3 := by omega
    rw [this, Nat.pow_add, Nat.pow_succ]
    simp
    omega
  have hpos : 0 < 2 ^ (p - 4) := Nat.pow_pos (by omega)
  refine ⟨p - 4, by omega, ?_, rfl⟩
  have hfbv : (WikiIter.new size 8).fractionalBase = 2 * 2 ^ (p - 4) := by
    show floorPow2 64 size / 8 = _
    rw [e, hfb]
  have hds : (WikiIter.new size 8).decimalStep = size / (WikiIter.new size 8).fractionalBase := rfl
  have hfs : (WikiIter.new size 8).fractionalStep = size % (WikiIter.new size 8).fractionalBase := rfl
  have hsz : (WikiIter.new size 8).size = size := rfl
  refine ⟨by omega, by omega, ?_, by rw [hfbv, Nat.mul_one], ?_, ?_⟩
  · rw [hsz]
    have : 2 ^ p / 8 ≤ 2 ^ p := Nat.div_le_self _ _
    omega
  · rw [hds, hfs, hsz, Nat.one_mul, Nat.mul_comm]
    exact Nat.div_add_mod _ _
  · rw [hfs]
    exact Nat.mod_lt _ (by rw [hfbv]; omega)

/-- C: `nextLevel` halves the number of ranges and stops when one range would cover everything -/
theorem nextLevel_spec (it : WikiIter) (c w : Nat) (L : Lvl it (2 * c) w) (hc : 0 < c) :
    Lvl it.nextLevel.1 c (2 * w) ∧ it.nextLevel.1.size = it.size ∧ it.nextLevel.2 = decide (1 < c) := by
  have hS := L.hS
  have hfs := L.hfs
  have hw := L.hw
  have hcs := L.hcs
  have hfb : it.fractionalBase = c * (2 * w) := by
    rw [L.hfb, Nat.mul_comm 2 c, Nat.mul_assoc]
  have e2 : (it.decimalStep + it.decimalStep + 1) * it.fractionalBase
      = it.decimalStep * it.fractionalBase + it.decimalStep * it.fractionalBase + it.fractionalBase := by
    rw [Nat.add_mul, Nat.add_mul, Nat.one_mul]
  have e1 : (it.decimalStep + it.decimalStep) * it.fractionalBase
      = it.decimalStep * it.fractionalBase + it.decimalStep * it.fractionalBase := Nat.add_mul _ _ _
  have e3 : 2 * w * it.size = w * it.size + w * it.size := by
    rw [Nat.mul_assoc, Nat.two_mul]
  have key : ∀ (p : WikiIter × Bool) (L' : Lvl p.1 c (2 * w)), p.1.size = it.size →
      p.2 = decide (p.1.decimalStep < it.size) →
      Lvl p.1 c (2 * w) ∧ p.1.size = it.size ∧ p.2 = decide (1 < c) := by
    intro p L' hsz hm
    refine ⟨L', hsz, ?_⟩
    rw [hm, L'.decimalStep_eq, hsz]
    congr 1
    apply propext
    constructor
    · intro h
      rcases Nat.lt_or_ge 1 c with h1 | h1
      · exact h1
      · have : c = 1 := by omega
        subst this
        simp at h
    · intro h
      exact Nat.div_lt_self L.size_pos h
  by_cases cf : it.fractionalStep + it.fractionalStep ≥ it.fractionalBase
  · have hn : it.nextLevel = (⟨it.size, it.fractionalBase, it.decimalStep + it.decimalStep + 1,
        it.fractionalStep + it.fractionalStep - it.fractionalBase⟩,
        decide (it.decimalStep + it.decimalStep + 1 < it.size)) := by
      simp only [WikiIter.nextLevel, cf, if_true]
    rw [hn]
    refine key _ ⟨hc, by omega, by show c ≤ it.size; omega, hfb, ?_, ?_⟩ rfl rfl
    · show (it.decimalStep + it.decimalStep + 1) * it.fractionalBase
        + (it.fractionalStep + it.fractionalStep - it.fractionalBase) = 2 * w * it.size
      omega
    · show it.fractionalStep + it.fractionalStep - it.fractionalBase < it.fractionalBase
      omega
  · have hn : it.nextLevel = (⟨it.size, it.fractionalBase, it.decimalStep + it.decimalStep,
        it.fractionalStep + it.fractionalStep⟩,
        decide (it.decimalStep + it.decimalStep < it.size)) := by
      simp only [WikiIter.nextLevel, cf, if_false]
    rw [hn]
    refine key _ ⟨hc, by omega, by show c ≤ it.size; omega, hfb, ?_, ?_⟩ rfl rfl
    · show (it.decimalStep + it.decimalStep) * it.fractionalBase
        + (it.fractionalStep + it.fractionalStep) = 2 * w * it.size
      omega
    · show it.fractionalStep + it.fractionalStep < it.fractionalBase
      omega

end Echse.Sort
