/-
  C15 enumeration part (written once by a loop, then static): arithmetic Hijri scale 8, per day number,
  chunks 36..53 of 1024 points.
  One theorem per chunk: each is checked by the kernel on its own (bounded memory and heartbeats).
-/
import Echse.Lemmas.C15Enum
namespace Echse.Scale

theorem hij8C_c0 : allFrom (chkH 8) (dLo + 1024 * (36 + 0)) 1024 = true := by decide +kernel
theorem hij8C_c1 : allFrom (chkH 8) (dLo + 1024 * (36 + 1)) 1024 = true := by decide +kernel
theorem hij8C_c2 : allFrom (chkH 8) (dLo + 1024 * (36 + 2)) 1024 = true := by decide +kernel
theorem hij8C_c3 : allFrom (chkH 8) (dLo + 1024 * (36 + 3)) 1024 = true := by decide +kernel
theorem hij8C_c4 : allFrom (chkH 8) (dLo + 1024 * (36 + 4)) 1024 = true := by decide +kernel
theorem hij8C_c5 : allFrom (chkH 8) (dLo + 1024 * (36 + 5)) 1024 = true := by decide +kernel
theorem hij8C_c6 : allFrom (chkH 8) (dLo + 1024 * (36 + 6)) 1024 = true := by decide +kernel
theorem hij8C_c7 : allFrom (chkH 8) (dLo + 1024 * (36 + 7)) 1024 = true := by decide +kernel
theorem hij8C_c8 : allFrom (chkH 8) (dLo + 1024 * (36 + 8)) 1024 = true := by decide +kernel
theorem hij8C_c9 : allFrom (chkH 8) (dLo + 1024 * (36 + 9)) 1024 = true := by decide +kernel
theorem hij8C_c10 : allFrom (chkH 8) (dLo + 1024 * (36 + 10)) 1024 = true := by decide +kernel
theorem hij8C_c11 : allFrom (chkH 8) (dLo + 1024 * (36 + 11)) 1024 = true := by decide +kernel
theorem hij8C_c12 : allFrom (chkH 8) (dLo + 1024 * (36 + 12)) 1024 = true := by decide +kernel
theorem hij8C_c13 : allFrom (chkH 8) (dLo + 1024 * (36 + 13)) 1024 = true := by decide +kernel
theorem hij8C_c14 : allFrom (chkH 8) (dLo + 1024 * (36 + 14)) 1024 = true := by decide +kernel
theorem hij8C_c15 : allFrom (chkH 8) (dLo + 1024 * (36 + 15)) 1024 = true := by decide +kernel
theorem hij8C_c16 : allFrom (chkH 8) (dLo + 1024 * (36 + 16)) 1024 = true := by decide +kernel
theorem hij8C_c17 : allFrom (chkH 8) (dLo + 1024 * (36 + 17)) 1024 = true := by decide +kernel

theorem hij8C_chunks : ∀ c, c < 18 → allFrom (chkH 8) (dLo + 1024 * (36 + c)) 1024 = true
  | 0, _ => hij8C_c0
  | 1, _ => hij8C_c1
  | 2, _ => hij8C_c2
  | 3, _ => hij8C_c3
  | 4, _ => hij8C_c4
  | 5, _ => hij8C_c5
  | 6, _ => hij8C_c6
  | 7, _ => hij8C_c7
  | 8, _ => hij8C_c8
  | 9, _ => hij8C_c9
  | 10, _ => hij8C_c10
  | 11, _ => hij8C_c11
  | 12, _ => hij8C_c12
  | 13, _ => hij8C_c13
  | 14, _ => hij8C_c14
  | 15, _ => hij8C_c15
  | 16, _ => hij8C_c16
  | 17, _ => hij8C_c17
  | n + 18, h => absurd h (by omega)

theorem hij8C : ∀ k, dLo + 1024 * 36 ≤ k → k < dLo + 1024 * (36 + 18) → chkH 8 k = true :=
  allFrom_chunks _ _ _ _ _ hij8C_chunks

end Echse.Scale
