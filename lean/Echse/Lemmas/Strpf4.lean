/-
  Helper lemmas for C18, part 4: the duration parser `idiffStrp` on every spelling
  `[+-]P[nW][nD][T[nH][nM][n[.f]S]]` (digit strings with leading zeros allowed, values below 2^32,
  the seconds with an optional decimal fraction: milliseconds, further digits read over).
  What `idiffStrf` prints and the round trip are in Strpf5.lean.
-/
import Echse.Lemmas.Strpf3
namespace Echse.Strpf
open Echse.Instant Echse.Spec.Cal

/-! ### G. durations -/

/-- the `switch` of the `more_time:` loop -/
def timeSw (s : List Char) (len f i val step : Nat) (msd : Int) : Nat × Int :=
  let c := if (chr s i).toNat < 128 then (chr s i).toNat ||| step else 0
  if c = 72 then idiffTime s len f (i + 1) (step ||| 0x1) (msd + (val : Int) * 3600000)
  else if c = 77 then idiffTime s len f (i + 1) (step ||| 0x11) (msd + (val : Int) * 60000)
  else if c = 83 then idiffTime s len f (i + 1) (step ||| 0x21) (msd + (val : Int) * 1000)
  else (i + 1, msd)

theorem idiffTime_succ (s : List Char) (len f i step : Nat) (msd : Int) :
    idiffTime s len (f+1) i step msd =
      (let r := numLoop s len (len + 1) i 0
       if r.1 < len ∧ chr s r.1 = '.' then
         (let q := fracLoop s len (len + 1) (r.1 + 1) 100 0
          if q.1 ≥ len ∨ chr s q.1 ≠ 'S' then (q.1, msd) else timeSw s len f q.1 r.2 step (msd + (q.2 : Int)))
       else timeSw s len f r.1 r.2 step msd) := by
  rw [idiffTime]
  simp only [timeSw]
  by_cases hdot : (numLoop s len (len + 1) i 0).1 < len ∧ chr s (numLoop s len (len + 1) i 0).1 = '.'
  · by_cases hS : (fracLoop s len (len + 1) ((numLoop s len (len + 1) i 0).1 + 1) 100 0).1 ≥ len ∨
        chr s (fracLoop s len (len + 1) ((numLoop s len (len + 1) i 0).1 + 1) 100 0).1 ≠ 'S'
    · simp only [hdot, hS, and_self, if_true]
    · simp only [hdot, hS, and_self, if_true, if_false]
  · simp only [hdot, if_false]

theorem idiffDate_succ (s : List Char) (len f i : Nat) (sw sd : Bool) (dd : Int) :
    idiffDate s len (f+1) i sw sd dd =
      (let r := numLoop s len (len + 1) i 0
       let c := chr s r.1
       if c = 'T' then (let t := idiffTime s len 5 (r.1 + 1) 0 0; (t.1, dd, t.2))
       else if c = 'W' then
         (if sw then (r.1 + 1, dd, 0) else idiffDate s len f (r.1 + 1) true sd (dd + (r.2 : Int) * 7))
       else if c = 'D' then
         (if sd then (r.1 + 1, dd, 0) else idiffDate s len f (r.1 + 1) sw true (dd + (r.2 : Int)))
       else (r.1 + 1, dd, 0)) := by
  rw [idiffDate]

theorem chr_length (s : List Char) : chr s s.length = '\x00' := by simp [chr]

theorem idiffTime_end (s : List Char) (i : Nat) (hi : i = s.length) (f step : Nat) (msd : Int)
    (h : step ≠ 72 ∧ step ≠ 77 ∧ step ≠ 83) :
    idiffTime s s.length (f+1) i step msd = (i + 1, msd) := by
  subst hi
  rw [idiffTime_succ, numLoop_end]
  simp [timeSw, chr_length, h]

theorem idiffDate_end (s : List Char) (i : Nat) (hi : i = s.length) (f : Nat) (sw sd : Bool) (dd : Int) :
    idiffDate s s.length (f+1) i sw sd dd = (i + 1, dd, 0) := by
  subst hi
  rw [idiffDate_succ, numLoop_end]
  simp [chr_length]

theorem tok_facts (s pre ds : List Char) (ch : Char) (rest : List Char) (hs : s = pre ++ ds ++ ch :: rest)
    (hd : ∀ x ∈ ds, isDig x) (hv : digitsVal ds < 2^32) (hc : ¬ isDig ch) :
    numLoop s s.length (s.length + 1) pre.length 0 = (pre.length + ds.length, digitsVal ds) ∧
    chr s (pre.length + ds.length) = ch := by
  subst hs
  refine ⟨numLoop_token pre ds ch rest _ _ hd hv hc (by simp; omega) (by simp), ?_⟩
  rw [← List.length_append, chr_append_right0]; rfl

theorem idiffTime_step (s pre ds : List Char) (ch : Char) (rest : List Char) (hs : s = pre ++ ds ++ ch :: rest)
    (f step : Nat) (msd : Int)
    (hd : ∀ x ∈ ds, isDig x) (hv : digitsVal ds < 2^32) (hc : ¬ isDig ch) (h128 : ch.toNat < 128)
    (hdot : ch ≠ '.') :
    idiffTime s s.length (f+1) pre.length step msd =
      if ch.toNat ||| step = 72 then
        idiffTime s s.length f (pre.length + ds.length + 1) (step ||| 0x1) (msd + (digitsVal ds : Int) * 3600000)
      else if ch.toNat ||| step = 77 then
        idiffTime s s.length f (pre.length + ds.length + 1) (step ||| 0x11) (msd + (digitsVal ds : Int) * 60000)
      else if ch.toNat ||| step = 83 then
        idiffTime s s.length f (pre.length + ds.length + 1) (step ||| 0x21) (msd + (digitsVal ds : Int) * 1000)
      else (pre.length + ds.length + 1, msd) := by
  obtain ⟨h1, h2⟩ := tok_facts s pre ds ch rest hs hd hv hc
  rw [idiffTime_succ, h1]
  simp only [h2, hdot, and_false, if_false, timeSw, h128, if_true]

theorem idiffDate_step (s pre ds : List Char) (ch : Char) (rest : List Char) (hs : s = pre ++ ds ++ ch :: rest)
    (f : Nat) (sw sd : Bool) (dd : Int)
    (hd : ∀ x ∈ ds, isDig x) (hv : digitsVal ds < 2^32) (hc : ¬ isDig ch) :
    idiffDate s s.length (f+1) pre.length sw sd dd =
      if ch = 'T' then
        (let t := idiffTime s s.length 5 (pre.length + ds.length + 1) 0 0; (t.1, dd, t.2))
      else if ch = 'W' then
        (if sw then (pre.length + ds.length + 1, dd, 0)
         else idiffDate s s.length f (pre.length + ds.length + 1) true sd (dd + (digitsVal ds : Int) * 7))
      else if ch = 'D' then
        (if sd then (pre.length + ds.length + 1, dd, 0)
         else idiffDate s s.length f (pre.length + ds.length + 1) sw true (dd + (digitsVal ds : Int)))
      else (pre.length + ds.length + 1, dd, 0) := by
  obtain ⟨h1, h2⟩ := tok_facts s pre ds ch rest hs hd hv hc
  rw [idiffDate_succ, h1]
  simp only [h2]

/-! ### the decimal fraction of the seconds -/

/-- digits weighted `mul`, `mul / 10`, … -/
def fracW : Nat → List Char → Nat
  | _, [] => 0
  | mul, d :: ds => (d.toNat - 48) * mul + fracW (mul / 10) ds

/-- the milliseconds a fraction `.fs` denotes: three digits count, the rest is read over -/
def fracVal (fs : List Char) : Nat := fracW 100 fs

theorem fracW_zero : ∀ fs, fracW 0 fs = 0 := by
  intro fs; induction fs with
  | nil => rfl
  | cons d ds ih => simp [fracW, ih]

/-- pad with zeros to three digits or cut after the third: the number so written -/
theorem fracVal_pad (fs : List Char) : fracVal fs = digitsVal ((fs ++ ['0', '0', '0']).take 3) := by
  unfold fracVal
  match fs with
  | [] => decide
  | [a] => simp [fracW, digitsVal, digStep]; omega
  | [a, b] => simp [fracW, digitsVal, digStep]; omega
  | a :: b :: c :: r => simp [fracW, fracW_zero, digitsVal, digStep]; omega

/-- one to three digits: the number, scaled -/
theorem fracVal_short (fs : List Char) (h : fs.length ≤ 3) : fracVal fs = digitsVal fs * 10 ^ (3 - fs.length) := by
  unfold fracVal
  match fs, h with
  | [], _ => decide
  | [a], _ => simp [fracW, digitsVal, digStep]
  | [a, b], _ => simp [fracW, digitsVal, digStep]; omega
  | [a, b, c], _ => simp [fracW, digitsVal, digStep]; omega

/-- more digits do not matter -/
theorem fracVal_over (a b c : Char) (r : List Char) : fracVal (a :: b :: c :: r) = fracVal [a, b, c] := by
  simp [fracVal, fracW, fracW_zero]

theorem fracVal_lt (fs : List Char) (hd : ∀ c ∈ fs, isDig c) : fracVal fs < 1000 := by
  unfold fracVal
  match fs, hd with
  | [], _ => decide
  | [a], hd =>
    have := (hd a (by simp)).2
    simp [fracW]; omega
  | [a, b], hd =>
    have := (hd a (by simp)).2; have := (hd b (by simp)).2
    simp [fracW]; omega
  | a :: b :: c :: r, hd =>
    have := (hd a (by simp)).2; have := (hd b (by simp)).2; have := (hd c (by simp)).2
    simp [fracW, fracW_zero]; omega

theorem fracLoop_digits : ∀ (ds pre rest : List Char) (mul frac fuel len : Nat),
    (∀ c ∈ ds, isDig c) → ds.length < fuel →
    pre.length + ds.length ≤ len → (len ≤ pre.length + ds.length ∨ ¬ isDig (chr rest 0)) →
    fracLoop (pre ++ ds ++ rest) len fuel pre.length mul frac = (pre.length + ds.length, frac + fracW mul ds) := by
  intro ds
  induction ds with
  | nil =>
    intro pre rest mul frac fuel len _ hf hlen hstop
    obtain ⟨f, rfl⟩ : ∃ f, fuel = f + 1 := ⟨fuel - 1, by simp at hf; omega⟩
    simp only [List.append_nil, List.length_nil, Nat.add_zero, fracW] at *
    unfold fracLoop
    rw [chr_append_right0, if_neg]
    rintro ⟨c1, c2, c3⟩
    rcases hstop with h | h
    · omega
    · exact h (xor48_nondig _ c2 c3)
  | cons d ds ih =>
    intro pre rest mul frac fuel len hd hf hlen hstop
    obtain ⟨f, rfl⟩ : ∃ f, fuel = f + 1 := ⟨fuel - 1, by simp at hf; omega⟩
    simp only [List.length_cons] at *
    have hdd : isDig d := hd d (by simp)
    have hx : d.toNat ^^^ 48 = d.toNat - 48 := xor48_dig _ hdd.1 hdd.2
    unfold fracLoop
    have hc : chr (pre ++ d :: ds ++ rest) pre.length = d := by
      rw [List.append_assoc, chr_append_right0]; rfl
    rw [hc, if_pos ⟨by omega, by have := hdd.2; omega, by rw [hx]; have := hdd.2; omega⟩, hx]
    have := ih (pre ++ [d]) rest (mul / 10) (frac + (d.toNat - 48) * mul) f len
      (fun c hc => hd c (by simp [hc])) (by omega)
      (by simp; omega) (by simpa [Nat.add_assoc, Nat.add_comm 1] using hstop)
    simp only [List.length_append, List.length_cons, List.length_nil, List.append_assoc, List.cons_append,
      List.nil_append, Nat.zero_add] at this
    rw [List.append_assoc, List.cons_append, this]
    simp only [fracW]
    congr 1 <;> omega

end Echse.Strpf
