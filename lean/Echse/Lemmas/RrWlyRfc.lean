/-
  Property C01 for the weekly filler `rrul_fill_wly` (model `fillWly`) against the RFC 5545 specification
  `Echse.Spec.Rfc.WeeklyInst`:

    fillWly_sound     every instant written is an instance of the rule anchored at the seed (with or without BYSETPOS)
    fillWly_complete  (without BYSETPOS) none missing: an instance `x` at or after the seed, not after UNTIL and not after
                      2099 is in the result `l`, or `l` is full (`capOf r n` elements: `n`, or COUNT if smaller) and all of
                      `l` comes before `x`.  With `FillOk` (ascending, `fillWly_ok_partial`) this says: `l` is the first
                      `capOf r n` elements of the recurrence set from the seed on.

  Hypothesis added to the brief's: `SeedOk r p` (a DATE seed has no BYHOUR/BYMINUTE/BYSECOND), stronger than `TimeOk`:
  FALSE without it, e.g. r = { freq := 3, H := [9] }, p = 2020-01-01 (all day): fillWly r p 2 = 2020-01-01T09:00:00,
  2020-01-08T09:00:00, timed instants, which are not of the seed's kind (`SameKind`); RFC 5545 says BYHOUR is to be
  ignored there, the code does not ignore it.
-/
import Echse.Lemmas.RrWlyRfc6
namespace Echse.Lemmas.RrWlyRfc
open Echse.Rrule Echse.Instant Echse.Spec.RrOk Echse.Spec.Cal Echse.Spec.RuleExt Echse.Spec.Rfc
open Echse.Lemmas.RrOkBase Echse.Lemmas.RrRfc

theorem wly_start0 (c : WlyCtx) (y0 m0 d0 : Nat) (hv0 : VD y0 m0 d0) : Carry y0 m0 (d0 + 0 * wk c) y0 m0 d0 := by
  rw [Nat.zero_mul]; exact Carry.done hv0.2.2.2

/-- soundness, with two more facts about the instants written (used for the daily filler's hand-over) -/
theorem fillWly_sound' (r : Rule) (p : Inst) (n : Nat) (l : List Inst) (hr : WfRule r) (hp : WfInst p)
    (hs : SeedOk r p) (hy : 1901 ≤ p.y) (h : fillWly r p n = some l) :
    ∀ x ∈ l, WeeklyInst r p x ∧ x.y ≤ 2099 ∧ ltP x p = false := by
  cases hcap : capNti r n with
  | none =>
    rw [fillWly_none r p n hr hp hcap] at h
    cases h; intro x hx; cases hx
  | some nti =>
    obtain ⟨y0, m0, d0, hv0, hl0, hy0, hback, he⟩ := fillWly_start r p n nti hr hp hy hcap
    rw [he] at h
    obtain ⟨l', hl, rfl⟩ := Option.map_eq_some_iff.1 h
    have hen : EnumOk (mkCtx r p nti (wlyIncs r)).e := makeEnum_ok r p hr hp hs.timeOk
    have hpy := hp.year
    intro x hx
    refine wlyLoop_sound (mkCtx r p nti (wlyIncs r)) hr hp hen (wlyIncs_nib r)
      (fun z => WeeklyInst r p z ∧ z.y ≤ 2099 ∧ ltP z p = false) y0 m0 d0 hv0 ?_ _ 0
      y0 m0 d0 [] l' (wly_start0 _ y0 m0 d0 hv0) (by omega) (fun z hz => by cases hz) hl x (List.mem_reverse.1 hx)
    intro j y m d o ty tm td hcw ho hc hty hbit t ht _ hge _
    have hy2 : p.y ≤ 2099 := by
      have := year_le_of_not_lt _ p (inR_of_wf hp) hge
      exact Nat.le_trans this hty
    have htm : tm ≤ 12 := by
      have hd0 := hv0.2.2.1
      exact ((hcw.comp o _ _ _ hc).props hv0.1 hv0.2.1 (by omega)).1.2.1
    exact ⟨wly_inst r p nti hr hp hs hy2 hv0 hl0 hback j o ty tm td ho (hcw.comp o _ _ _ hc) (by omega) hbit t ht, hty, hge⟩

theorem fillWly_sound (r : Rule) (p : Inst) (n : Nat) (l : List Inst) (hr : WfRule r) (hp : WfInst p)
    (hs : SeedOk r p) (_hn : n ≤ 64) (hy : 1901 ≤ p.y) (h : fillWly r p n = some l) :
    ∀ x ∈ l, WeeklyInst r p x := fun x hx => (fillWly_sound' r p n l hr hp hs hy h x hx).1

theorem fillWly_complete (r : Rule) (p : Inst) (n : Nat) (l : List Inst) (hr : WfRule r) (hp : WfInst p)
    (hs : SeedOk r p) (_hn : n ≤ 64) (hy : 1901 ≤ p.y) (hpos : r.pos = []) (h : fillWly r p n = some l)
    (x : Inst) (hx : WeeklyInst r p x) (hge : absOf p ≤ absOf x) (hle : ltP r.untl x = false) (hxy : x.y ≤ 2099) :
    x ∈ l ∨ (l.length = capOf r n ∧ ∀ z ∈ l, ltP z x = true) := by
  unfold capOf
  cases hcap : capNti r n with
  | none =>
    rw [fillWly_none r p n hr hp hcap] at h
    cases h
    exact Or.inr ⟨rfl, fun z hz => by cases hz⟩
  | some nti =>
    obtain ⟨hgeP, hxin, hy2⟩ := ge_seed hp hy hx.1 hxy hge
    obtain ⟨y0, m0, d0, hv0, hl0, hy0, hback, he⟩ := fillWly_start r p n nti hr hp hy hcap
    rw [he] at h
    obtain ⟨l', hl, rfl⟩ := Option.map_eq_some_iff.1 h
    have hen : EnumOk (mkCtx r p nti (wlyIncs r)).e := makeEnum_ok r p hr hp hs.timeOk
    obtain ⟨l2, hl2, hacc⟩ := wlyLoop_spec (mkCtx r p nti (wlyIncs r)) hr hp (wlyIncs_nib r) (wlyDlyFuel y0 nti) y0 m0 d0 []
      hv0 (by omega) (fun _ => ⟨Acc.nil _ _ _, Below.nil _ _ _⟩) (enough_start y0 m0 d0 nti hv0)
    rw [hl] at hl2
    cases hl2
    have hacc := hacc hen
    obtain ⟨k, o, ho, hc, hmon, -, ix, hix⟩ := wly_inst_conv r p nti hr hp hs hy2 hv0 hl0 (by omega) hback x hx
      (by have := hx.1.2.1; omega)
    have hskip : ∀ y m d, VD y m d → Carry y m (d + o) x.y x.m x.d →
        wlySkip (mkCtx r p nti (wlyIncs r)) (wlyNset (mkCtx r p nti (wlyIncs r)) m d (getNdom y m))
          (ndAt (mkCtx r p nti (wlyIncs r)) y m (offs 8 (mkCtx r p nti (wlyIncs r)).wdIncs d) (d + o)) ix = false := by
      intro y m d _ _
      unfold wlySkip
      show ((!r.pos.isEmpty) && _) = false
      rw [hpos]; rfl
    rcases wlyLoop_complete (mkCtx r p nti (wlyIncs r)) hr hp hen (wlyIncs_nib r) x o ho hxy hx.1.2.2.2.2.1 ix hix hskip
      hmon hgeP hle _ k y0 m0 d0 [] l' hv0 hl0 hc (Acc.nil _ _ _) (Below.nil _ _ _) hl with a | ⟨b1, b2⟩
    · exact Or.inl (List.mem_reverse.2 a)
    · refine Or.inr ⟨by rw [List.length_reverse]; exact b1, ?_⟩
      intro z hz
      exact acc_ltP hacc hxin hx.1.2.2.2.2.1 b2 z (List.mem_reverse.1 hz)

end Echse.Lemmas.RrWlyRfc
