/-
  C05, rule text round trip — part 1: numerals.  `strtol` / `strtolC` / `strtoulC` read back what `%d` / `%u` print,
  whatever follows, as long as it does not start with a digit.
-/
import Echse.Model.RrText
import Echse.Lemmas.RuleExt2
namespace Echse.RrText
open Echse.Rrule Echse.RuleExt

/-- what may follow a numeral: anything that does not start with a digit -/
def NoDig (t : List Char) : Prop := ∀ x ∈ t.head?, Char.isDigit x = false

theorem noDig_nil : NoDig [] := by simp [NoDig]
theorem noDig_cons (c : Char) (t : List Char) (h : c.isDigit = false) : NoDig (c :: t) := by
  simp [NoDig, h]

/-- what follows a part of the rule text: the end of the text or the `;` of the next part -/
def Term (t : List Char) : Prop := t = [] ∨ ∃ r, t = ';' :: r

theorem Term.noDig {t : List Char} (h : Term t) : NoDig t := by
  rcases h with h | ⟨r, h⟩ <;> subst h
  · exact noDig_nil
  · exact noDig_cons _ _ (by decide)

theorem Term.noComma {t : List Char} (h : Term t) (r : List Char) : t ≠ ',' :: r := by
  rcases h with h | ⟨r', h⟩ <;> subst h
  · simp
  · intro h; injection h with h1 _; exact absurd h1 (by decide)

theorem numVal_eq (ds : List Char) (a : Nat) :
    ds.foldl (fun a c => a * 10 + (c.toNat - 48)) a = Nat.ofDigitChars 10 ds a := by
  induction ds generalizing a with
  | nil => rfl
  | cons c cs ih =>
    rw [List.foldl_cons, ih, Nat.ofDigitChars_cons]
    have : '0'.toNat = 48 := rfl
    rw [this, Nat.mul_comm]

theorem numVal_toDigits (n : Nat) : numVal (Nat.toDigits 10 n) = n := by
  unfold numVal
  rw [numVal_eq, Nat.ofDigitChars_toDigits (by omega) (by omega)]

theorem toDigits_shape (n : Nat) :
    ∃ c ds, Nat.toDigits 10 n = c :: ds ∧ c.isDigit = true ∧ ds.all Char.isDigit = true ∧ numVal (c :: ds) = n := by
  have hv := numVal_toDigits n
  have hd : ∀ c ∈ Nat.toDigits 10 n, c.isDigit = true :=
    fun c hc => Nat.isDigit_of_mem_toDigits (by omega) (by omega) hc
  match h : Nat.toDigits 10 n with
  | [] => exact absurd h Nat.toDigits_ne_nil
  | c :: ds =>
    rw [h] at hv hd
    refine ⟨c, ds, rfl, hd c (by simp), ?_, hv⟩
    rw [List.all_eq_true]
    intro x hx
    exact hd x (by simp [hx])

theorem strtol_u (n : Nat) (t : List Char) (ht : NoDig t) : strtol (Nat.toDigits 10 n ++ t) = ((n : Int), t) := by
  obtain ⟨c, ds, e, hc, hds, hv⟩ := toDigits_shape n
  rw [e, strtol_pos c ds t hc hds ht, hv]

theorem strtol_neg_u (n : Nat) (t : List Char) (ht : NoDig t) :
    strtol ('-' :: Nat.toDigits 10 n ++ t) = (-(n : Int), t) := by
  obtain ⟨c, ds, e, hc, hds, hv⟩ := toDigits_shape n
  rw [e, strtol_neg c ds t hc hds ht, hv]

theorem strtol_d (z : Int) (t : List Char) (ht : NoDig t) : strtol (fmtD z ++ t) = (z, t) := by
  unfold fmtD
  split
  · rw [strtol_neg_u _ t ht]; congr 1; omega
  · rw [strtol_u _ t ht]; congr 1; omega

/-- a leading plus sign is read and dropped -/
theorem strtol_plus_u (n : Nat) (t : List Char) (ht : NoDig t) :
    strtol ('+' :: Nat.toDigits 10 n ++ t) = ((n : Int), t) := by
  obtain ⟨c, ds, e, hc, hds, hv⟩ := toDigits_shape n
  have tw := takeWhile_digits (c :: ds) t (by simp [hc]; simpa using hds) ht
  rw [e]
  unfold strtol
  simp only [List.cons_append] at tw ⊢
  rw [List.dropWhile_cons_of_neg (by decide)]
  simp only [tw]
  rw [← hv]
  simp [numVal]

/-- nothing to read: the value is 0 and `on` stays where it was -/
theorem strtol_none (c : Char) (t : List Char)
    (hsp : ¬ (c = ' ' ∨ c = '\t' ∨ c = '\n' ∨ c = '\r' ∨ c.toNat = 11 ∨ c.toNat = 12))
    (hm : c ≠ '-') (hp : c ≠ '+') (hd : c.isDigit = false) : strtol (c :: t) = (0, c :: t) := by
  unfold strtol
  rw [List.dropWhile_cons_of_neg (by simpa using hsp)]
  dsimp only
  split
  · next h => simp at h; exact absurd h.1 hm
  · next h => simp at h; exact absurd h.1 hp
  · simp [hd]

theorem strtol_nil : strtol [] = (0, []) := by
  simp [strtol]

/-! ### the clamped readers -/

theorem strtolC_d (z : Int) (t : List Char) (ht : NoDig t) (hz : -(2^63) ≤ z ∧ z ≤ 2^63 - 1) :
    strtolC (fmtD z ++ t) = (z, t) := by
  unfold strtolC
  rw [strtol_d z t ht]
  simp only
  congr 1
  split
  · omega
  · split <;> omega

theorem strtolC_u (n : Nat) (t : List Char) (ht : NoDig t) (hn : (n : Int) ≤ 2^63 - 1) :
    strtolC (Nat.toDigits 10 n ++ t) = ((n : Int), t) := by
  unfold strtolC
  rw [strtol_u n t ht]
  simp only
  congr 1
  split
  · omega
  · split <;> omega

theorem strtoulC_u (n : Nat) (t : List Char) (ht : NoDig t) (hn : n < 2^64) :
    strtoulC (fmtU n ++ t) = (n, t) := by
  unfold strtoulC fmtU
  rw [strtol_u n t ht]
  simp only
  congr 1
  split
  · omega
  · split <;> omega

/-- `on` is always a position inside the text -/
theorem strtolC_snd (s : List Char) : (strtolC s).2 = (strtol s).2 := by
  unfold strtolC; rfl

end Echse.RrText
