/-
  C14 — a job with a time limit is armed with alarm(⌈limit / 1 s⌉).

  The pipeline, as functions: the user's DURATION text → `idiffStrp` → the task's duration in
  milliseconds → (echsd, `vtodoify`) the text `PT<n>S` with `n = durSecs ms` → (echsx) `idiffStrp`
  → milliseconds → `alarmArg` → the argument of alarm(2).
    * `durSecs_ceil`: `durSecs` is the ceiling of ms / 1000;
    * `vtodo_roundtrip`: what echsd writes is read back by echsx as exactly `durSecs ms` seconds;
    * `alarm_pipeline`: for every limit of at least one second the alarm is `⌈limit / 1 s⌉ ≥ 1`
      (0 would mean "no timeout");
    * `user_forms`: for every ISO spelling of a positive whole number `n` of seconds the alarm is `n`;
    * `due_decision`: the DUE branch refuses an overdue job and otherwise arms `alarm(due − now)`.
  The bound `durSecs ms < 2^32` is the range of `ui32tostr`.
  Uses the duration theorems of Echse/Props/C18.lean (`idiff_spellings_nat`).
-/
import Echse.Model.Daemon
import Echse.Model.Strpf
import Echse.Props.C18
namespace C14
open Echse.Daemon Echse.Strpf

/-- what echsd writes into the execution request for a limit of `ms` milliseconds (`vtodoify`) -/
def vtodoDuration (ms : Nat) : List Char := "PT".toList ++ tostr (durSecs ms) ++ ['S']

/-- what echsx passes to alarm(2) for a parsed timeout of `ms` milliseconds -/
def alarmArg (ms : Int) : Int := ms / 1000 + (if ms % 1000 ≠ 0 then 1 else 0)

/-! ### 1. seconds from milliseconds -/

theorem durSecs_ceil (ms : Nat) :
    durSecs ms = (ms + 999) / 1000 ∧
    (0 < ms → durSecs ms * 1000 ≥ ms ∧ (durSecs ms - 1) * 1000 < ms) := by
  unfold durSecs
  split <;> omega

theorem durSecs_pos (ms : Nat) (h : 0 < ms) : 1 ≤ durSecs ms := by
  unfold durSecs
  split <;> omega

/-- a whole number of seconds is kept -/
theorem durSecs_whole (n : Nat) : durSecs (n * 1000) = n := by
  unfold durSecs
  split <;> omega

/-! ### 2. echsd → echsx -/

/-- the text is the spelling `PT<n>S` of C18 -/
theorem vtodoDuration_spelling (ms : Nat) :
    vtodoDuration ms =
      [] ++ 'P' :: durBody (Option.map tostr none) (Option.map tostr none) (Option.map tostr none)
        (Option.map tostr none) (Option.map tostr (some (durSecs ms))) := by
  simp [vtodoDuration, durBody, tpart, part]

theorem vtodo_roundtrip (ms : Nat) (h : durSecs ms < 2^32) :
    (idiffStrp (vtodoDuration ms) (vtodoDuration ms).length).1 = (durSecs ms : Int) * 1000 := by
  have hs := C18.idiff_spellings_nat [] none none none none (some (durSecs ms))
    (by simp) (by simp) (by simp) (by simp) (by intro v hv; cases hv; exact h) (Or.inl rfl)
  rw [vtodoDuration_spelling]
  simpa using hs

/-! ### 3. the alarm -/

/-- whole seconds are passed on unchanged -/
theorem alarmArg_whole (n : Int) : alarmArg (n * 1000) = n := by
  unfold alarmArg
  split <;> omega

/-- `alarmArg` is the ceiling as well -/
theorem alarmArg_ceil (ms : Int) : alarmArg ms = (ms + 999) / 1000 := by
  unfold alarmArg
  split <;> omega

theorem alarm_pipeline (ms : Nat) (h1 : 1000 ≤ ms) (h : durSecs ms < 2^32) :
    alarmArg (idiffStrp (vtodoDuration ms) (vtodoDuration ms).length).1 = durSecs ms ∧
    1 ≤ durSecs ms ∧ durSecs ms = (ms + 999) / 1000 := by
  rw [vtodo_roundtrip ms h, alarmArg_whole]
  exact ⟨rfl, durSecs_pos ms (by omega), (durSecs_ceil ms).1⟩

/-- in fact every positive limit (also below one second) is armed with at least 1 -/
theorem alarm_never_zero (ms : Nat) (h1 : 0 < ms) (h : durSecs ms < 2^32) :
    1 ≤ alarmArg (idiffStrp (vtodoDuration ms) (vtodoDuration ms).length).1 := by
  rw [vtodo_roundtrip ms h, alarmArg_whole]
  have := durSecs_pos ms h1
  omega

/-! ### 4. user-supplied forms -/

/-- A DURATION `[+]P[wW][dD][T[hH][mM][sS]]` (every part optional, numbers below 2^32 printed
canonically) denoting `n ≥ 1` seconds in total: the daemon-side duration is `n · 1000` ms, and the
executor arms `alarm(n)`. -/
theorem user_forms (sign : List Char) (w d h mi s : Option Nat)
    (hw : ∀ v, w = some v → v < 2^32) (hd : ∀ v, d = some v → v < 2^32) (hh : ∀ v, h = some v → v < 2^32)
    (hm : ∀ v, mi = some v → v < 2^32) (hs : ∀ v, s = some v → v < 2^32)
    (hsign : sign = [] ∨ sign = ['+'])
    (n : Nat) (hn : n = (w.getD 0 * 7 + d.getD 0) * 86400 + h.getD 0 * 3600 + mi.getD 0 * 60 + s.getD 0)
    (h1 : 1 ≤ n) (h32 : n < 2^32) :
    let text := sign ++ 'P' :: durBody (w.map tostr) (d.map tostr) (h.map tostr) (mi.map tostr) (s.map tostr)
    let dur := (idiffStrp text text.length).1            -- the task's duration in echsd, milliseconds
    dur = (n : Int) * 1000 ∧
    alarmArg (idiffStrp (vtodoDuration dur.toNat) (vtodoDuration dur.toNat).length).1 = n := by
  intro text dur
  have hs := C18.idiff_spellings_nat sign w d h mi s hw hd hh hm hs
    (by rcases hsign with r | r <;> simp [r])
  have hne : sign ≠ ['-'] := by rcases hsign with r | r <;> simp [r]
  have hdur : dur = (n : Int) * 1000 := by
    show (idiffStrp text text.length).1 = _
    rw [hs, if_neg hne, hn]
    omega
  refine ⟨hdur, ?_⟩
  have hnat : dur.toNat = n * 1000 := by omega
  rw [hnat]
  have hds : durSecs (n * 1000) = n := durSecs_whole n
  have := (alarm_pipeline (n * 1000) (by omega) (by rw [hds]; exact h32)).1
  rw [this, hds]

/-! ### 5. the DUE branch -/

/-- the executor's DUE branch: refuse when overdue, else arm `alarm(due − now)` -/
def dueDecision (due now : Int) : Option Int := if now ≥ due then none else some (due - now)

theorem due_decision (due now : Int) :
    (dueDecision due now = none ↔ now ≥ due) ∧
    (∀ a, dueDecision due now = some a → 0 < a ∧ now + a = due) := by
  unfold dueDecision
  constructor
  · split <;> simp_all
  · intro a
    split
    · simp
    · intro h
      cases h
      omega

/-- not overdue: armed with exactly the remaining time -/
theorem due_armed (due now : Int) (h : now < due) : dueDecision due now = some (due - now) := by
  unfold dueDecision
  rw [if_neg (by omega)]

-- concrete instances
example : vtodoDuration 1500 = ['P', 'T', '2', 'S'] := by decide
example : alarmArg (idiffStrp (vtodoDuration 1000) (vtodoDuration 1000).length).1 = 1 := by decide
/-- a 1.5 s limit arms a 2 s alarm; name referenced by evidence/C14.json -/
theorem limit_1500ms : alarmArg (idiffStrp (vtodoDuration 1500) (vtodoDuration 1500).length).1 = 2 := by decide
example : alarmArg (idiffStrp (vtodoDuration 61000) (vtodoDuration 61000).length).1 = 61 := by decide
example : (idiffStrp ['P', 'T', '1', 'M', '1', 'S'] 6).1 = 61000 := by decide
example : dueDecision 100 100 = none ∧ dueDecision 100 130 = none ∧ dueDecision 100 97 = some 3 := by decide

end C14
