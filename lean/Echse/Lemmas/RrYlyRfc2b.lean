/-
  C01 for the yearly filler, part 2b (layer L2): the combinations where BYWEEKNO or BYYEARDAY meet other parts and
  `lim_cand` intersects what was expanded (`ylyCand_iff_G`, `ylyCand_iff_H`), and all branches put together
  (`ylyCand_iff`).
-/
import Echse.Lemmas.RrYlyRfc2
set_option linter.unusedSimpArgs false
namespace Echse.Lemmas.RrYlyRfc
open Echse.Rrule Echse.Instant Echse.Spec.RrOk Echse.Lemmas.RrCandOk Echse.Spec.Rfc Echse.Lemmas.RrRfc
open Echse.Lemmas.RrCandRfc Echse.Lemmas.RrYlyOk Echse.Spec.Cal Echse.Spec.RuleExt Echse.Lemmas.RrMlyRfc

theorem nonempty_bang {α : Type} (l : List α) (h : l ≠ []) : (!l.isEmpty) = true := by
  cases l with
  | nil => exact absurd rfl h
  | cons a t => rfl

theorem len_pos_iff {α : Type} (l : List α) : decide (l.length > 0) = true ↔ l ≠ [] := by
  cases l <;> simp

/-- BYYEARDAY or BYMONTHDAY present, and BYWEEKNO or BYYEARDAY: every part limits, BYDAY (if any) counts within the
month with BYMONTH, within the year without -/
theorem ylyCand_iff_G (r : Rule) (p : Inst) (nti : Nat) (hr : WfRule r) (hp : WfInst p) (hs : YlySup r)
    (x : Inst) (hx : DateIn x) (g1 : r.doy ≠ [] ∨ r.dom ≠ []) (g2 : r.wk ≠ [] ∨ r.doy ≠ []) :
    packCand x.m x.d ∈ ylyCand (ylyCtxOf r p nti) x.y ↔ YlyDate r p x := by
  have hnd : ¬ (r.dom = [] ∧ r.doy = []) := by
    rintro ⟨a, b⟩; rcases g1 with g | g
    · exact g b
    · exact g a
  rw [ylyCand_date r p nti hr hp hs x hx [] (if_neg (fun h => hnd ⟨h.2.2.1, h.2.2.2⟩)).symm, if_pos g2,
    ylyCand1_date r p nti hr hp hs x hx r.mon r.dom []
      (if_neg (fun h => hnd ⟨h.2.2.2.2, h.2.2.2.1⟩)).symm (if_neg (fun h => hnd ⟨h.1, h.2.2.2⟩)).symm
      (if_neg (fun h => hnd ⟨h.2.2.1, h.2.2.2⟩)).symm]
  -- the first part contributes nothing
  have hM0 : ¬ (if wdMaskOf r.dow ≠ 0 ∧ (r.dom.length ≠ 0 ∨ (!r.doy.isEmpty) = true) then False
         else if wdMaskOf r.dow ≠ 0 ∧ (!r.wk.isEmpty) = true then packCand x.m x.d ∈ fillYlyYwd [] x.y r.wk r.dow
         else if (!([] : List Int).isEmpty) = true then packCand x.m x.d ∈ fillYlyYwd [] x.y r.wk []
         else if wdMaskOf r.dow ≠ 0 ∧ r.mon.length ≠ 0 then x.m ∈ r.mon ∧ bydayInMonth r x
         else if wdMaskOf r.dow ≠ 0 then bydayInYear r x
         else False) := by
    by_cases cw : wdMaskOf r.dow ≠ 0
    · rw [if_pos]
      · exact fun h => h
      · refine ⟨cw, ?_⟩
        rcases g1 with g | g
        · exact Or.inr (nonempty_bang _ g)
        · exact Or.inl (len_ne _ g)
    · rw [if_neg (fun h => cw h.1), if_neg (fun h => cw h.1), if_neg (by decide), if_neg (fun h => cw h.1), if_neg cw]
      exact fun h => h
  -- the BYDAY limit in the specification's words
  have kL : ∀ mp : Bool, (mp = true ↔ r.mon ≠ []) → (DLim r (wdMaskOf r.dow) x mp ↔
      (r.dow = [] ∨ (if r.mon ≠ [] then bydayInMonth r x else bydayInYear r x))) := by
    intro mp hmp
    rw [dlim_iff r hr hs.ord x hx]
    by_cases cm : r.mon ≠ []
    · rw [if_pos cm, if_pos (hmp.2 cm)]
    · rw [if_neg cm, if_neg (fun h => cm (hmp.1 h))]
  have hBY : (if r.dow ≠ [] then
       (if r.doy ≠ [] ∨ r.dom ≠ [] then (if r.mon ≠ [] then bydayInMonth r x else bydayInYear r x)
        else if r.wk ≠ [] then bydayLimit r x
        else if r.mon ≠ [] then bydayInMonth r x
        else bydayInYear r x)
     else if r.wk ≠ [] ∧ r.doy = [] ∧ r.dom = [] then wdayOf (dayOf x) = wdayOf (dayOf p)
     else if r.doy = [] ∧ r.dom = [] ∧ r.wk = [] then (x.d = p.d ∧ (r.mon ≠ [] ∨ x.m = p.m))
     else True) ↔ (r.dow = [] ∨ (if r.mon ≠ [] then bydayInMonth r x else bydayInYear r x)) := by
    by_cases cd : r.dow = []
    · rw [if_neg (fun h => h cd), if_neg (fun h => hnd ⟨h.2.2, h.2.1⟩), if_neg (fun h => hnd ⟨h.2.1, h.1⟩)]
      simp [cd]
    · rw [if_pos cd, if_pos g1]
      simp [cd]
  unfold YlyDate
  rw [hBY]
  generalize (if r.mon ≠ [] then bydayInMonth r x else bydayInYear r x) = L at kL ⊢
  have hpd : PdowOk [] x := by intro k h; cases h
  constructor
  · rintro ⟨hM, hmon, hdom, hdoy, hwk⟩
    refine ⟨hmon, hwk.imp id (fun h => h.2), ?_, ?_, ?_⟩
    · unfold ydayOk; exact hdoy
    · unfold mdayOk; exact hdom
    · rcases hM with (h | ⟨_, h⟩) | h
      · exact absurd h hM0
      · exact (kL _ (len_pos_iff r.mon)).1 h
      · by_cases c1 : r.mon.length = 0 ∧ r.dom.length = 0
        · rw [if_pos c1] at h; exact h.elim
        rw [if_neg c1] at h
        by_cases c2 : r.mon.length = 0
        · rw [if_pos c2] at h
          have cm : r.mon = [] := List.length_eq_zero_iff.mp c2
          exact (kL false (by simp [cm])).1 h.2
        rw [if_neg c2] at h
        have cm : r.mon ≠ [] := fun e => c2 (by rw [e]; rfl)
        by_cases c3 : r.dom.length = 0
        · rw [if_pos c3] at h
          rcases wlim0_month r hr x h.2 with h' | h'
          · exact Or.inl h'
          · exact (kL true (by simp [cm])).1 ((dlim_iff r hr hs.ord x hx true).2 (Or.inr h'))
        · rw [if_neg c3] at h
          exact (kL true (by simp [cm])).1 h.2.2
  · rintro ⟨hmon, hwk, hdoy, hdom, hL⟩
    refine ⟨?_, hmon, hdom, hdoy, hwk.imp id (fun h => ⟨hpd, h⟩)⟩
    by_cases cy : r.doy = []
    · -- BYMONTHDAY (and BYWEEKNO)
      have cdm : r.dom ≠ [] := fun e => hnd ⟨e, cy⟩
      have hms : MdaySel r.dom x := hdom.resolve_left cdm
      right
      rw [if_neg (fun h => len_ne _ cdm h.2)]
      by_cases c2 : r.mon.length = 0
      · rw [if_pos c2]
        have cm : r.mon = [] := List.length_eq_zero_iff.mp c2
        exact ⟨hms, (kL false (by simp [cm])).2 hL⟩
      · rw [if_neg c2, if_neg (len_ne _ cdm)]
        have cm : r.mon ≠ [] := fun e => c2 (by rw [e]; rfl)
        exact ⟨hmon.resolve_left cm, hms, (kL true (by simp [cm])).2 hL⟩
    · left; right
      exact ⟨hdoy.resolve_left cy, (kL _ (len_pos_iff r.mon)).2 hL⟩

theorem pdowOk_single (k : Int) (x : Inst) : PdowOk [k] x ↔ k = (wdayOf (dayOf x) : Int) := by
  unfold PdowOk
  simp

/-- BYWEEKNO without BYYEARDAY / BYMONTHDAY: with BYDAY (plain weekdays) or else DTSTART's weekday; BYMONTH limits -/
theorem ylyCand_iff_H (r : Rule) (p : Inst) (nti : Nat) (hr : WfRule r) (hp : WfInst p) (hs : YlySup r)
    (hy : 1901 ≤ p.y) (x : Inst) (hx : DateIn x) (h1 : r.wk ≠ []) (h2 : r.doy = []) (h4 : r.dom = []) :
    packCand x.m x.d ∈ ylyCand (ylyCtxOf r p nti) x.y ↔ YlyDate r p x := by
  have hpl := hs.wkPlain h1 h2 h4
  have hwk := nonempty_bang _ h1
  have hpy := hp.year
  have hpd : p.d ≤ 31 := by have := hp.day.2; have := getNdom_le p.y p.m; omega
  have hwp : ymdGetWday p.y p.m p.d = wdayOf (dayOf p) :=
    Echse.RuleExt.wday_eq p.y p.m p.d (by omega) (by omega) hp.month.1 hp.month.2 hpd
  have hwdr := wdayOf_range (dayOf x)
  have hwdp := wdayOf_range (dayOf p)
  unfold YlyDate
  by_cases c3 : r.dow = []
  · rw [ylyCand_date r p nti hr hp hs x hx [(ymdGetWday p.y p.m p.d : Int)] (by simp [c3, h1, h2, h4]),
      if_pos (Or.inl h1), ylyCand1_date r p nti hr hp hs x hx r.mon [] [(ymdGetWday p.y p.m p.d : Int)]
      (by simp [h1]) (by simp [h1, h4]) (by simp [c3, h1, h2, h4])]
    simp only [c3, wm_nil, h2, h4, h1, hwk, ne_eq, not_true_eq_false, not_false_eq_true, false_and, if_false,
      List.isEmpty_cons, Bool.not_false, if_true, ydaySel_nil, or_false, List.length_nil, and_self, false_or,
      and_true, true_and, mdayOk, ydayOk, true_or, pdowOk_single, WLim0,
      mem_ywd_date_rule r x hx _ (fun w hw => hr.wk w hw)]
    rw [hwp]
    constructor
    · rintro ⟨_, hm, e, hw⟩
      exact ⟨hm, hw, by omega⟩
    · rintro ⟨hm, hw, e⟩
      refine ⟨Or.inl ⟨⟨_, List.mem_singleton.mpr rfl, by omega, by omega, by omega⟩, hw⟩, hm, by omega, hw⟩
  · have cw : wdMaskOf r.dow ≠ 0 := (wdMask_ne_zero r).2 c3
    have hpdn : PdowOk [] x := by intro k h; cases h
    rw [ylyCand_date r p nti hr hp hs x hx [] (by simp [c3]),
      if_pos (Or.inl h1), ylyCand1_date r p nti hr hp hs x hx r.mon [] []
      (by simp [h1]) (by simp [h1, h4]) (by simp [c3])]
    by_cases cm : r.mon.length = 0
    · simp only [c3, cw, h2, h4, h1, hwk, hpdn, cm, ne_eq, not_true_eq_false, not_false_eq_true, false_and, if_false,
        List.isEmpty_nil, Bool.not_true, Bool.false_eq_true, or_self, and_false, and_true, if_true, ydaySel_nil,
        or_false, List.length_nil, and_self, false_or, true_and, mdayOk, ydayOk, true_or,
        mem_ywd_date_rule r x hx _ (fun w hw => hr.wk w hw), ywd_limit r hpl x, wlim0_plain r hr hpl x]
      constructor
      · rintro ⟨hM, hm, hw⟩; exact ⟨hm, hw, hM.1⟩
      · rintro ⟨hm, hw, hb⟩; exact ⟨⟨hb, hw⟩, hm, hw⟩
    · simp only [c3, cw, h2, h4, h1, hwk, hpdn, cm, ne_eq, not_true_eq_false, not_false_eq_true, false_and, if_false,
        List.isEmpty_nil, Bool.not_true, Bool.false_eq_true, or_self, and_false, and_true, if_true, ydaySel_nil,
        or_false, List.length_nil, and_self, false_or, true_and, mdayOk, ydayOk, true_or,
        mem_ywd_date_rule r x hx _ (fun w hw => hr.wk w hw), ywd_limit r hpl x, wlim0_plain r hr hpl x]
      constructor
      · rintro ⟨hM, hm, hw⟩
        refine ⟨hm, hw, ?_⟩
        rcases hM with h | h
        · exact h.1
        · exact h.2
      · rintro ⟨hm, hw, hb⟩
        exact ⟨Or.inl ⟨hb, hw⟩, hm, hw⟩

/-- L2: the candidate set of a year is the set of days the specification allows, for the rules `YlySup` covers -/
theorem ylyCand_iff (r : Rule) (p : Inst) (nti : Nat) (hr : WfRule r) (hp : WfInst p) (hs : YlySup r) (hy : 1901 ≤ p.y)
    (x : Inst) (hx : DateIn x) :
    packCand x.m x.d ∈ ylyCand (ylyCtxOf r p nti) x.y ↔ YlyDate r p x := by
  by_cases cy : r.doy = []
  · by_cases cd : r.dom = []
    · by_cases cw : r.wk = []
      · by_cases co : r.dow = []
        · exact ylyCand_iff_A r p nti hr hp hs x hx cw cy co cd
        · exact ylyCand_iff_D r p nti hr hp hs x hx cw cy cd co
      · exact ylyCand_iff_H r p nti hr hp hs hy x hx cw cy cd
    · by_cases cw : r.wk = []
      · exact ylyCand_iff_B r p nti hr hp hs x hx cw cy cd
      · exact ylyCand_iff_G r p nti hr hp hs x hx (Or.inr cd) (Or.inl cw)
  · exact ylyCand_iff_G r p nti hr hp hs x hx (Or.inl cy) (Or.inr cy)

end Echse.Lemmas.RrYlyRfc
