/* line-protocol harness for the bitint containers (property C19).
 * built from the scratch copy of /repo/src on every run. */
#include <stdio.h>
#include <stdlib.h>
#include <string.h>
#include "bitint.c"

#define CAP 200

static int toks(char *line, long *v, int max)
{
	int n = 0;
	for (char *p = strtok(line, " \t\r\n"); p && n < max; p = strtok(NULL, " \t\r\n")) {
		v[n++] = strtol(p, NULL, 10);
	}
	return n;
}

int main(void)
{
	static char line[65536];
	setvbuf(stdout, NULL, _IOLBF, 0);
	static long v[8192];

	while (fgets(line, sizeof(line), stdin)) {
		char *sp = strchr(line, ' ');
		char op[32] = {0};
		int n = 0;
		size_t ol = sp ? (size_t)(sp - line) : strcspn(line, "\r\n");
		if (ol >= sizeof(op)) ol = sizeof(op) - 1;
		memcpy(op, line, ol);
		if (sp) n = toks(sp + 1, v, 8192);

		if (!strcmp(op, "bui31")) {
			bituint31_t b = 0; unsigned r; int c = 0, first = 1;
			for (int i = 0; i < n; i++) b = ass_bui31(b, (unsigned)v[i]);
			printf("it=");
			for (bitint_iter_t it = 0; (r = bui31_next(&it, b), it) && c < CAP; c++) { printf("%s%u", first ? "" : ",", r); first = 0; }
			if (c >= CAP) printf("!");
			printf(" has=");
			for (unsigned x = 0; x < 31; x++) putchar(bui31_has_bit_p(b, x) ? '1' : '0');
			putchar('\n');
		} else if (!strcmp(op, "bui63")) {
			bituint63_t b = 0; unsigned r; int c = 0, first = 1;
			for (int i = 0; i < n; i++) b = ass_bui63(b, (unsigned)v[i]);
			printf("it=");
			for (bitint_iter_t it = 0; (r = bui63_next(&it, b), it) && c < CAP; c++) { printf("%s%u", first ? "" : ",", r); first = 0; }
			if (c >= CAP) printf("!");
			printf(" has=");
			/* there is no bui63_has_bit_p in bitint.h: membership of the 63 container is
			 * observed through iteration only; print the same field from the iteration */
			{
				char has[64]; memset(has, '0', 63); has[63] = 0;
				c = 0;
				for (bitint_iter_t it = 0; (r = bui63_next(&it, b), it) && c < CAP; c++) if (r < 63) has[r] = '1';
				fputs(has, stdout);
			}
			putchar('\n');
		} else if (!strcmp(op, "bi31")) {
			bitint31_t b = {0, 0}; int r; int c = 0, first = 1;
			for (int i = 0; i < n; i++) b = ass_bi31(b, (int)v[i]);
			printf("it=");
			for (bitint_iter_t it = 0; (r = bi31_next(&it, b), it) && c < CAP; c++) { printf("%s%d", first ? "" : ",", r); first = 0; }
			if (c >= CAP) printf("!");
			printf(" has=");
			for (int x = -31; x <= 31; x++) putchar(bi31_has_bit_p(b, x) ? '1' : '0');
			putchar('\n');
		} else if (!strcmp(op, "bi63")) {
			bitint63_t b = {0, 0}; int r; int c = 0, first = 1;
			for (int i = 0; i < n; i++) b = ass_bi63(b, (int)v[i]);
			printf("it=");
			for (bitint_iter_t it = 0; (r = bi63_next(&it, b), it) && c < CAP; c++) { printf("%s%d", first ? "" : ",", r); first = 0; }
			if (c >= CAP) printf("!");
			printf(" has=");
			{
				char has[128]; memset(has, '0', 127); has[127] = 0;
				c = 0;
				for (bitint_iter_t it = 0; (r = bi63_next(&it, b), it) && c < CAP; c++) if (r >= -63 && r <= 63) has[r + 63] = '1';
				fputs(has, stdout);
			}
			putchar('\n');
		} else if (!strcmp(op, "bi383")) {
			bitint383_t b; int r; int c = 0, first = 1;
			memset(&b, 0, sizeof(b));
			for (int i = 0; i < n; i++) ass_bi383(&b, (int)v[i]);
			printf("it=");
			for (bitint_iter_t it = 0; (r = bi383_next(&it, &b), it) && c < 1000; c++) { printf("%s%d", first ? "" : ",", r); first = 0; }
			if (c >= 1000) printf("!");
			putchar('\n');
		} else if (!strcmp(op, "bi447")) {
			bitint447_t b; int r; int c = 0, first = 1;
			memset(&b, 0, sizeof(b));
			for (int i = 0; i < n; i++) ass_bi447(&b, (int)v[i]);
			printf("it=");
			for (bitint_iter_t it = 0; (r = bi447_next(&it, &b), it) && c < 1000; c++) { printf("%s%d", first ? "" : ",", r); first = 0; }
			if (c >= 1000) printf("!");
			putchar('\n');
		} else {
			puts("bad-op");
		}
	}
	return 0;
}
