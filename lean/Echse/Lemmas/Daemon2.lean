/-
  Daemon model: the well-formedness invariant `Inv` of reachable states and its preservation by
  every operation (`Inv_step`, `Inv_run`).
-/
import Echse.Lemmas.Daemon
namespace Echse.Daemon

/-- number of live children of the task `sid` -/
def liveCount (l : List Child) (sid : Nat) : Nat := (l.filter (fun c => c.live && c.sid == sid)).length

/-- per-task well-formedness; `s` supplies the clock, the counters and the user list.  `p = true`: the
periodic callback of the task is pending in the current loop iteration (then the task may be waiting for
nothing else: `wait` is suspended until the callback has run) -/
structure TInvP (p : Bool) (s : St) (t : DTask) : Prop where
  sid_lt : t.sid < s.nextSid
  seq_lt : t.seq < s.perseq
  owner_ok : t.owner ≠ notAUid ∧ s.users.contains t.owner = true
  sorted : t.occ.Pairwise (· ≤ ·)
  /-- an armed watcher waits for the head of the stream, which is not in the past -/
  armed : t.resched = true → t.inTable = true ∧ t.active = true ∧ t.cbUnsched = false ∧
    t.due = some t.cur ∧ t.occ.head? = some t.cur ∧ s.now ≤ t.cur ∧ 1 ≤ t.nrun
  done : t.resched = false → t.inTable = true → t.occ = [] ∧ t.cur = 0
  act_tab : t.active = true → t.inTable = true
  drain : t.active = true → t.resched = false → t.cbUnsched = false → t.due = none
  /-- loaded without a future occurrence: `unsched` is queued for the next iteration -/
  pend : t.active = true → t.cbUnsched = true → t.nrun = 0 ∧ ∃ a, t.due = some a ∧ a ≤ s.now
  /-- a task without a watcher to wait for is waiting for its children -/
  wait : p = false → (t.active = false ∨ (t.resched = false ∧ t.cbUnsched = false)) → t.nsim ≠ 0
  ptab : p = true → t.inTable = true

/-- per-task well-formedness between loop iterations -/
abbrev TInv (s : St) (t : DTask) : Prop := TInvP false s t

/-- well-formedness of a daemon state; `pend` = the watchers whose callback is pending -/
structure InvP (pend : List Nat) (s : St) : Prop where
  sidU : SidU s.tasks
  uidU : ∀ a ∈ s.tasks, ∀ b ∈ s.tasks, a.inTable = true → b.inTable = true → a.uid = b.uid → a = b
  seqU : ∀ a ∈ s.tasks, ∀ b ∈ s.tasks, a.seq = b.seq → a = b
  /-- every record has a usable UID (`_inject_task1` turns down `!t->oid`) -/
  uidNe : ∀ t ∈ s.tasks, t.uid ≠ ""
  tinv : ∀ t ∈ s.tasks, TInvP (pend.contains t.sid) s t
  kids : ∀ c ∈ s.children, c.live = true → ∃ t ∈ s.tasks, t.sid = c.sid
  count : ∀ t ∈ s.tasks, t.nsim = liveCount s.children t.sid

/-- well-formedness of a daemon state between loop iterations -/
abbrev Inv (s : St) : Prop := InvP [] s

theorem Inv.tinv' {s : St} (h : Inv s) {t : DTask} (ht : t ∈ s.tasks) : TInv s t := by
  have := h.tinv t ht
  simpa using this

theorem TInvP.mono {p : Bool} {s s' : St} {t : DTask} (h : TInvP p s t) (h1 : s.nextSid ≤ s'.nextSid)
    (h2 : s.perseq ≤ s'.perseq) (h3 : s'.users = s.users) (h4 : s'.now = s.now) : TInvP p s' t where
  sid_lt := Nat.lt_of_lt_of_le h.sid_lt h1
  seq_lt := Nat.lt_of_lt_of_le h.seq_lt h2
  owner_ok := by rw [h3]; exact h.owner_ok
  sorted := h.sorted
  armed := by rw [h4]; exact h.armed
  done := h.done
  act_tab := h.act_tab
  drain := h.drain
  pend := by rw [h4]; exact h.pend
  wait := h.wait
  ptab := h.ptab

theorem TInvP.frame {p : Bool} {s s' : St} {t : DTask} (h : TInvP p s t) (hf : Frame s s') : TInvP p s' t :=
  h.mono (Nat.le_of_eq hf.nextSid.symm) (Nat.le_of_eq hf.perseq.symm) hf.users hf.now

theorem Inv_init (m : Nat) : Inv { me := m } where
  sidU := by simp [SidU]
  uidU := by intro a h; cases h
  seqU := by intro a h; cases h
  uidNe := by intro a h; cases h
  tinv := by intro a h; cases h
  kids := by intro a h; cases h
  count := by intro a h; cases h

/-- same table and children, counters not smaller, same clock and users -/
theorem InvP_frame {pend : List Nat} {s s' : St} (h : InvP pend s) (ht : s'.tasks = s.tasks)
    (hc : s'.children = s.children)
    (h1 : s.nextSid ≤ s'.nextSid) (h2 : s.perseq ≤ s'.perseq) (h3 : s'.users = s.users)
    (h4 : s'.now = s.now) : InvP pend s' where
  sidU := by rw [ht]; exact h.sidU
  uidU := by rw [ht]; exact h.uidU
  seqU := by rw [ht]; exact h.seqU
  uidNe := by rw [ht]; exact h.uidNe
  tinv := by rw [ht]; intro t hm; exact (h.tinv t hm).mono h1 h2 h3 h4
  kids := by rw [ht, hc]; exact h.kids
  count := by rw [ht, hc]; exact h.count

/-! ### uniqueness under `filterMap` -/

theorem uniq_filterMap {κ} (key : DTask → κ) (P : DTask → Prop) {l : List DTask} (g : DTask → Option DTask)
    (hg : ∀ x ∈ l, ∀ y, g x = some y → key y = key x ∧ (P y → P x))
    (h : ∀ a ∈ l, ∀ b ∈ l, P a → P b → key a = key b → a = b) :
    ∀ a ∈ l.filterMap g, ∀ b ∈ l.filterMap g, P a → P b → key a = key b → a = b := by
  intro a ha b hb pa pb hk
  rw [List.mem_filterMap] at ha hb
  obtain ⟨x, hx, hgx⟩ := ha
  obtain ⟨y, hy, hgy⟩ := hb
  have h1 := hg x hx a hgx
  have h2 := hg y hy b hgy
  have : x = y := h x hx y hy (h1.2 pa) (h2.2 pb) (by rw [← h1.1, ← h2.1, hk])
  subst this
  rw [hgx] at hgy
  exact Option.some.inj hgy

/-! ### children -/

theorem kill_eq_set (l : List Child) (k : Nat) (c : Child) (h : l[k]? = some c) :
    kill l k = l.set k { c with live := false } := by
  apply List.ext_getElem?
  intro i
  unfold kill
  rw [List.getElem?_map, List.getElem?_zipIdx, List.getElem?_set]
  have hk : k < l.length := by
    rcases List.getElem?_eq_some_iff.mp h with ⟨hk, _⟩; exact hk
  by_cases hik : k = i
  · subst hik
    obtain ⟨_, hc⟩ := List.getElem?_eq_some_iff.mp h
    simp [hk, hc]
  · have : ¬ i = k := fun e => hik e.symm
    cases hi : l[i]? <;> simp [hik, this]

theorem kill_split (l : List Child) (k : Nat) (c : Child) (h : l[k]? = some c) :
    l = l.take k ++ c :: l.drop (k+1) ∧ kill l k = l.take k ++ { c with live := false } :: l.drop (k+1) := by
  obtain ⟨hk, hc⟩ := List.getElem?_eq_some_iff.mp h
  refine ⟨?_, ?_⟩
  · conv => lhs; rw [← List.take_append_drop k l, List.drop_eq_getElem_cons hk, hc]
  · rw [kill_eq_set l k c h, List.set_eq_take_append_cons_drop]
    simp [hk]

theorem liveCount_kill (l : List Child) (k : Nat) (c : Child) (h : l[k]? = some c) (hl : c.live = true)
    (x : Nat) : liveCount l x = liveCount (kill l k) x + (if c.sid = x then 1 else 0) := by
  obtain ⟨h1, h2⟩ := kill_split l k c h
  rw [h2]
  conv => lhs; rw [h1]
  unfold liveCount
  simp only [List.filter_append, List.filter_cons, List.length_append, hl, Bool.true_and, Bool.false_and,
    Bool.false_eq_true, if_false]
  by_cases hx : c.sid = x
  · simp [hx]; omega
  · simp [hx]

theorem mem_kill_live {l : List Child} {k : Nat} {c' : Child} (hm : c' ∈ kill l k) (hl : c'.live = true) :
    c' ∈ l := by
  unfold kill at hm
  rw [List.mem_map] at hm
  obtain ⟨⟨c, i⟩, hci, he⟩ := hm
  have hc : c ∈ l := by
    have := List.mem_zipIdx hci
    simp at this
    rw [this.2]; exact List.getElem_mem _
  simp only at he
  split at he
  · rw [← he] at hl; cases hl
  · rw [← he]; exact hc

theorem liveCount_pos {l : List Child} {c : Child} (hm : c ∈ l) (hl : c.live = true) :
    1 ≤ liveCount l c.sid := by
  unfold liveCount
  apply List.length_pos_of_mem (a := c)
  rw [List.mem_filter]
  exact ⟨hm, by simp [hl]⟩

theorem liveCount_zero {l : List Child} {x : Nat} (h : liveCount l x = 0) :
    ∀ c ∈ l, c.live = true → c.sid ≠ x := by
  intro c hc hl he
  have := liveCount_pos hc hl
  rw [he] at this; omega

theorem liveCount_append (l l' : List Child) (x : Nat) :
    liveCount (l ++ l') x = liveCount l x + liveCount l' x := by
  simp [liveCount, List.filter_append]

/-! ### a general preservation lemma: the table is transformed record by record -/

theorem sidU_filterMap' {l : List DTask} (g : DTask → Option DTask)
    (hg : ∀ x ∈ l, ∀ y, g x = some y → y.sid = x.sid) (h : SidU l) : SidU (l.filterMap g) := by
  unfold SidU at *
  induction l with
  | nil => simp
  | cons a l ih =>
    rw [List.map_cons, List.nodup_cons] at h
    rw [List.filterMap_cons]
    have ih' := ih (fun x hx => hg x (List.mem_cons_of_mem _ hx)) h.2
    cases hga : g a with
    | none => exact ih'
    | some y =>
      simp only [List.map_cons, List.nodup_cons]
      refine ⟨?_, ih'⟩
      intro hm
      rw [List.mem_map] at hm
      obtain ⟨z, hz, hzs⟩ := hm
      rw [List.mem_filterMap] at hz
      obtain ⟨w, hw, hgw⟩ := hz
      apply h.1
      rw [List.mem_map]
      exact ⟨w, hw, by rw [← hg w (List.mem_cons_of_mem _ hw) z hgw, hzs, hg a List.mem_cons_self y hga]⟩

theorem InvP_of {s s' : St} {pend pend' : List Nat} (h : InvP pend s) (g : DTask → Option DTask)
    (htasks : s'.tasks = s.tasks.filterMap g)
    (hg : ∀ x ∈ s.tasks, ∀ y, g x = some y →
      y.sid = x.sid ∧ y.uid = x.uid ∧ (y.inTable = true → x.inTable = true) ∧
      TInvP (pend'.contains x.sid) s' y ∧ y.nsim = liveCount s'.children x.sid)
    (hseq : ∀ a ∈ s'.tasks, ∀ b ∈ s'.tasks, a.seq = b.seq → a = b)
    (hk : ∀ c ∈ s'.children, c.live = true → ∃ x ∈ s.tasks, x.sid = c.sid ∧ g x ≠ none) : InvP pend' s' where
  sidU := by
    rw [htasks]
    exact sidU_filterMap' g (fun x hx y hxy => (hg x hx y hxy).1) h.sidU
  uidU := by
    rw [htasks]
    exact uniq_filterMap (fun t => t.uid) (fun t => t.inTable = true) g
      (fun x hx y hy => ⟨(hg x hx y hy).2.1, (hg x hx y hy).2.2.1⟩)
      (fun a ha b hb pa pb hk => h.uidU a ha b hb pa pb hk)
  seqU := hseq
  uidNe := by
    rw [htasks]
    intro y hy
    rw [List.mem_filterMap] at hy
    obtain ⟨x, hx, hgx⟩ := hy
    rw [(hg x hx y hgx).2.1]
    exact h.uidNe x hx
  tinv := by
    rw [htasks]
    intro y hy
    rw [List.mem_filterMap] at hy
    obtain ⟨x, hx, hgx⟩ := hy
    rw [(hg x hx y hgx).1]
    exact (hg x hx y hgx).2.2.2.1
  kids := by
    intro c hc hl
    obtain ⟨x, hx, hs, hne⟩ := hk c hc hl
    cases hgx : g x with
    | none => exact absurd hgx hne
    | some y =>
      refine ⟨y, ?_, ?_⟩
      · rw [htasks, List.mem_filterMap]; exact ⟨x, hx, hgx⟩
      · rw [(hg x hx y hgx).1, hs]
  count := by
    rw [htasks]
    intro y hy
    rw [List.mem_filterMap] at hy
    obtain ⟨x, hx, hgx⟩ := hy
    rw [(hg x hx y hgx).2.2.2.2, (hg x hx y hgx).1]

/-- `seq` kept by the transformation -/
theorem seqU_keep {l : List DTask} (g : DTask → Option DTask)
    (hg : ∀ x ∈ l, ∀ y, g x = some y → y.seq = x.seq)
    (h : ∀ a ∈ l, ∀ b ∈ l, a.seq = b.seq → a = b) :
    ∀ a ∈ l.filterMap g, ∀ b ∈ l.filterMap g, a.seq = b.seq → a = b := by
  intro a ha b hb hab
  exact uniq_filterMap (fun t => t.seq) (fun _ => True) g (fun x hx y hy => ⟨hg x hx y hy, fun _ => trivial⟩)
    (fun a ha b hb _ _ hk => h a ha b hb hk) a ha b hb trivial trivial hab

/-! ### the three stages of a loop iteration on one record -/

theorem isDue_iff {now : Nat} {t : DTask} :
    isDue now t = true ↔ t.active = true ∧ ∃ a, t.due = some a ∧ a < now := by
  unfold isDue
  cases hd : t.due with
  | none => simp
  | some a => simp

/-- re-arming a due watcher -/
theorem TInvP_rearm {s s' : St} {now : Nat} {x : DTask} (h : TInvP false s x) (hd : isDue now x = true)
    (h1 : s.nextSid ≤ s'.nextSid) (h2 : s.perseq ≤ s'.perseq) (h3 : s'.users = s.users)
    (h4 : s'.now = now) : TInvP true s' (rearm now x) := by
  obtain ⟨hact, a, hdue, halt⟩ := isDue_iff.mp hd
  unfold rearm
  by_cases hr : x.resched = true
  · obtain ⟨a1, a2, a3, a4, a5, a6, a7⟩ := h.armed hr
    simp only [hr, if_true]
    cases hdw : x.occ.dropWhile (· < now) with
    | nil =>
      rw [resched_nil hdw]
      have : ¬ x.nrun = 0 := by omega
      rw [if_neg this]
      exact {
        sid_lt := Nat.lt_of_lt_of_le h.sid_lt h1
        seq_lt := Nat.lt_of_lt_of_le h.seq_lt h2
        owner_ok := by rw [h3]; exact h.owner_ok
        sorted := List.Pairwise.nil
        armed := by intro hh; cases hh
        done := fun _ _ => ⟨rfl, rfl⟩
        act_tab := h.act_tab
        drain := fun _ _ _ => rfl
        pend := by intro _ hh; rw [a3] at hh; cases hh
        wait := by intro hh; cases hh
        ptab := fun _ => a1 }
    | cons e r =>
      rw [resched_cons hdw]
      have he := dropWhile_head_not _ _ _ _ hdw
      simp at he
      exact {
        sid_lt := Nat.lt_of_lt_of_le h.sid_lt h1
        seq_lt := Nat.lt_of_lt_of_le h.seq_lt h2
        owner_ok := by rw [h3]; exact h.owner_ok
        sorted := by
          have := List.Pairwise.sublist (List.dropWhile_sublist (fun o => decide (o < now))) h.sorted
          rw [hdw] at this; exact this
        armed := fun _ => ⟨a1, a2, a3, rfl, rfl, by rw [h4]; exact he, Nat.le_add_left 1 _⟩
        done := by intro hh; rw [hr] at hh; cases hh
        act_tab := h.act_tab
        drain := by intro _ hh; rw [hr] at hh; cases hh
        pend := by intro _ hh; rw [a3] at hh; cases hh
        wait := by intro hh; cases hh
        ptab := fun _ => a1 }
  · have hr' : x.resched = false := by simpa using hr
    rw [if_neg hr]
    exact {
      sid_lt := Nat.lt_of_lt_of_le h.sid_lt h1
      seq_lt := Nat.lt_of_lt_of_le h.seq_lt h2
      owner_ok := by rw [h3]; exact h.owner_ok
      sorted := h.sorted
      armed := by intro hh; rw [hr'] at hh; cases hh
      done := h.done
      act_tab := by intro hh; cases hh
      drain := by intro hh; cases hh
      pend := by intro hh; cases hh
      wait := by intro hh; cases hh
      ptab := fun _ => h.act_tab hact }

/-- a watcher that is not due stays well-formed when the clock advances -/
theorem TInvP_notDue {s s' : St} {now : Nat} {x : DTask} (h : TInvP false s x) (hd : isDue now x = false)
    (h1 : s.nextSid ≤ s'.nextSid) (h2 : s.perseq ≤ s'.perseq) (h3 : s'.users = s.users)
    (h4 : s'.now = now) (hnow : s.now ≤ now) : TInvP false s' x where
  sid_lt := Nat.lt_of_lt_of_le h.sid_lt h1
  seq_lt := Nat.lt_of_lt_of_le h.seq_lt h2
  owner_ok := by rw [h3]; exact h.owner_ok
  sorted := h.sorted
  armed := by
    intro hr
    obtain ⟨a1, a2, a3, a4, a5, a6, a7⟩ := h.armed hr
    refine ⟨a1, a2, a3, a4, a5, ?_, a7⟩
    rw [h4]
    rcases Nat.lt_or_ge x.cur now with hlt | hge
    · have : isDue now x = true := isDue_iff.mpr ⟨a2, x.cur, a4, hlt⟩
      rw [this] at hd; cases hd
    · exact hge
  done := h.done
  act_tab := h.act_tab
  drain := h.drain
  pend := by
    intro ha hc
    obtain ⟨b1, a, b2, b3⟩ := h.pend ha hc
    exact ⟨b1, a, b2, by rw [h4]; omega⟩
  wait := h.wait
  ptab := by intro hh; cases hh

/-- the pending callback has run -/
theorem TInvP_cbTask {s : St} {fail : Bool} {x y : DTask} (h : TInvP true s x) (hy : cbTask fail x = some y) :
    TInvP false s y := by
  have hit := h.ptab rfl
  unfold cbTask at hy
  rw [if_neg (by simp [hit])] at hy
  split at hy
  · rename_i hcb
    split at hy
    · rename_i hn
      cases hy
      exact {
        sid_lt := h.sid_lt, seq_lt := h.seq_lt, owner_ok := h.owner_ok, sorted := h.sorted
        armed := by intro hr; have := (h.armed hr).2.2.1; rw [hcb] at this; cases this
        done := h.done
        act_tab := by intro hh; cases hh
        drain := by intro hh; cases hh
        pend := by intro hh; cases hh
        wait := fun _ _ => hn
        ptab := by intro hh; cases hh }
    · cases hy
  · split at hy
    · cases hy
      exact {
        sid_lt := h.sid_lt, seq_lt := h.seq_lt, owner_ok := h.owner_ok, sorted := h.sorted
        armed := h.armed, done := h.done, act_tab := h.act_tab, drain := h.drain, pend := h.pend
        wait := fun _ _ => Nat.succ_ne_zero _
        ptab := by intro hh; cases hh }
    · split at hy
      · cases hy
      · rename_i hz
        cases hy
        exact {
          sid_lt := h.sid_lt, seq_lt := h.seq_lt, owner_ok := h.owner_ok, sorted := h.sorted
          armed := h.armed, done := h.done, act_tab := h.act_tab, drain := h.drain, pend := h.pend
          wait := by
            intro _ hc hn
            simp only [Bool.and_eq_true, Bool.not_eq_eq_eq_not, Bool.not_true, beq_iff_eq, not_and] at hz
            by_cases hr : x.resched = true
            · have := (h.armed hr).2.1
              rcases hc with hc | hc
              · rw [this] at hc; cases hc
              · rw [hr] at hc; cases hc.1
            · exact hz (by simpa using hr) hn
          ptab := by intro hh; cases hh }

/-! ### the stages on the state -/

theorem mem_contains_iff {L : List Nat} {x : Nat} : L.contains x = true ↔ x ∈ L := by simp

/-- `periodics_reify` -/
theorem InvP_reify {s : St} {now : Nat} (h : Inv s) (hnow : s.now ≤ now) :
    ∃ s1 L, reify now (s.tasks.length + 1) { s with now := now } [] = (s1, L) ∧ L.Nodup ∧ InvP L s1 ∧
      Frame { s with now := now } s1 ∧ s1.children = s.children := by
  have hu0 : SidU ({ s with now := now } : St).tasks := h.sidU
  obtain ⟨L, hr, hnd, hmem⟩ := reify_spec now (s.tasks.length + 1) { s with now := now } [] hu0
    (by intro t _ h; cases h)
    (by have := List.length_filter_le (isDue now) s.tasks; simp only []; omega)
  refine ⟨{ s with now := now, tasks := s.tasks.map (fun t => if isDue now t then rearm now t else t) }, L,
    by rw [hr]; rfl, hnd, ?_, ⟨rfl, rfl, rfl, rfl, rfl, rfl, rfl⟩, rfl⟩
  have hcont : ∀ x ∈ s.tasks, L.contains x.sid = isDue now x := by
    intro x hx
    cases hd : isDue now x with
    | true => exact mem_contains_iff.mpr ((hmem _).mpr ⟨x, hx, hd, rfl⟩)
    | false =>
      cases hc : L.contains x.sid with
      | false => rfl
      | true =>
        obtain ⟨t, ht, hdt, hs⟩ := (hmem _).mp (mem_contains_iff.mp hc)
        rw [h.sidU.inj ht hx hs, hd] at hdt; cases hdt
  apply InvP_of h (fun t => some (if isDue now t then rearm now t else t))
  · simp only []; rw [List.filterMap_eq_map']
  · intro x hx y hy
    simp only [Option.some.injEq] at hy
    have hx' := h.tinv' hx
    rw [hcont x hx]
    by_cases hd : isDue now x = true
    · rw [if_pos hd] at hy; subst hy
      rw [hd]
      have hact := (isDue_iff.mp hd).1
      refine ⟨rearm_sid _ _, ?_, ?_, TInvP_rearm hx' hd (Nat.le_refl _) (Nat.le_refl _) rfl rfl, ?_⟩
      · unfold rearm; split
        · cases hdw : x.occ.dropWhile (· < now) with
          | nil => rw [resched_nil hdw]; split <;> rfl
          | cons e r => rw [resched_cons hdw]
        · rfl
      · intro _; exact hx'.act_tab hact
      · have : (rearm now x).nsim = x.nsim := by
          unfold rearm; split
          · cases hdw : x.occ.dropWhile (· < now) with
            | nil => rw [resched_nil hdw]; split <;> rfl
            | cons e r => rw [resched_cons hdw]
          · rfl
        rw [this]; exact h.count x hx
    · have hd' : isDue now x = false := by simpa using hd
      rw [if_neg hd] at hy; subst hy
      rw [hd']
      exact ⟨rfl, rfl, id, TInvP_notDue hx' hd' (Nat.le_refl _) (Nat.le_refl _) rfl rfl hnow, h.count x hx⟩
  · simp only []
    rw [← List.filterMap_eq_map']
    apply seqU_keep _ _ h.seqU
    intro x hx y hy
    simp only [Option.some.injEq] at hy
    subst hy
    split
    · unfold rearm; split
      · cases hdw : x.occ.dropWhile (· < now) with
        | nil => rw [resched_nil hdw]; split <;> rfl
        | cons e r => rw [resched_cons hdw]
      · rfl
    · rfl
  · intro c hc hl
    obtain ⟨t, ht, hs⟩ := h.kids c hc hl
    exact ⟨t, ht, hs, by simp⟩

/-- `chld_cb`, possibly while callbacks are pending -/
theorem InvP_exit {s : St} {pend : List Nat} (k : Nat) (h : InvP pend s) :
    InvP pend (childExitPending s k pend).1 := by
  cases hc : s.children[k]? with
  | none => rw [exit_none s k pend (by intro c hc'; rw [hc] at hc'; cases hc')]; exact h
  | some c =>
    by_cases hl : ¬ c.live = true
    · rw [exit_none s k pend (by intro c' hc'; rw [hc] at hc'; cases hc'; simpa using hl)]; exact h
    have hl : c.live = true := by simpa using hl
    obtain ⟨ht, hch, hf⟩ := exit_spec s k pend h.sidU c hc hl
    have hcm : c ∈ s.children := List.mem_of_getElem? hc
    apply InvP_of h _ ht
    · intro x hx y hy
      have hx' := h.tinv x hx
      have hcnt := liveCount_kill s.children k c hc hl x.sid
      rw [hch]
      by_cases hxs : x.sid = c.sid
      · have hb : (x.sid == c.sid) = true := by simpa using hxs
        have hcount := h.count x hx
        rw [if_pos hxs.symm] at hcnt
        unfold exitTask at hy
        rw [if_pos hb] at hy
        have key : ∀ (hw : pend.contains x.sid = false →
              (x.active = false ∨ (x.resched = false ∧ x.cbUnsched = false)) → x.nsim - 1 ≠ 0),
            y = { x with nsim := x.nsim - 1 } →
            y.sid = x.sid ∧ y.uid = x.uid ∧ (y.inTable = true → x.inTable = true) ∧
              TInvP (pend.contains x.sid) (childExitPending s k pend).1 y ∧
              y.nsim = liveCount (kill s.children k) x.sid := by
          intro hw hyx
          subst hyx
          refine ⟨rfl, rfl, id, ?_, by simp only []; omega⟩
          exact TInvP.frame {
            sid_lt := hx'.sid_lt, seq_lt := hx'.seq_lt, owner_ok := hx'.owner_ok, sorted := hx'.sorted
            armed := hx'.armed, done := hx'.done, act_tab := hx'.act_tab, drain := hx'.drain, pend := hx'.pend
            wait := hw, ptab := hx'.ptab } hf
        split at hy
        · rename_i hit
          split at hy
          · cases hy
          · rename_i hz
            refine key ?_ (Option.some.inj hy).symm
            intro _ _; simpa using hz
        · rename_i hit
          split at hy
          · cases hy
          · rename_i hz
            refine key ?_ (Option.some.inj hy).symm
            intro hp hcond hn
            simp only [Bool.and_eq_true, Bool.not_eq_eq_eq_not, Bool.not_true, beq_iff_eq, not_and,
              Bool.not_eq_false] at hz
            by_cases hr : x.resched = true
            · have := (hx'.armed hr).2.1
              rcases hcond with hcond | hcond
              · rw [this] at hcond; cases hcond
              · rw [hr] at hcond; cases hcond.1
            · have := hz ⟨by simpa using hr, hn⟩
              rw [hp] at this; cases this
      · have hb : (x.sid == c.sid) = false := by simpa using hxs
        unfold exitTask at hy
        rw [hb] at hy
        simp only [Bool.false_eq_true, if_false, Option.some.injEq] at hy
        subst hy
        refine ⟨rfl, rfl, id, hx'.frame hf, ?_⟩
        rw [if_neg (fun e => hxs e.symm)] at hcnt
        rw [h.count x hx]; omega
    · rw [ht]
      apply seqU_keep _ _ h.seqU
      intro x hx y hy
      unfold exitTask at hy
      split at hy
      · split at hy
        · split at hy
          · cases hy
          · cases hy; rfl
        · split at hy
          · cases hy
          · cases hy; rfl
      · cases hy; rfl
    · intro c' hc' hl'
      rw [hch] at hc'
      have hc'm := mem_kill_live hc' hl'
      obtain ⟨x, hx, hs⟩ := h.kids c' hc'm hl'
      refine ⟨x, hx, hs, ?_⟩
      intro hnone
      have hcnt := liveCount_kill s.children k c hc hl x.sid
      have hcount := h.count x hx
      have hpos : 1 ≤ liveCount (kill s.children k) c'.sid := liveCount_pos hc' hl'
      rw [← hs] at hpos
      unfold exitTask at hnone
      split at hnone
      · rename_i hb
        have hxs : c.sid = x.sid := by have : x.sid = c.sid := by simpa using hb
                                       exact this.symm
        rw [if_pos hxs] at hcnt
        split at hnone
        · split at hnone
          · rename_i hz
            have : x.nsim - 1 = 0 := by simpa using hz
            omega
          · cases hnone
        · split at hnone
          · rename_i hz
            simp only [Bool.and_eq_true, beq_iff_eq] at hz
            omega
          · cases hnone
      · cases hnone

/-- one pending callback -/
theorem InvP_cbStep {s : St} {sid : Nat} {rest : List Nat} (sps : List Spawn) (h : InvP (sid :: rest) s)
    (hn : sid ∉ rest) : InvP rest (cbStep (s, sps) sid).1 := by
  obtain ⟨s', he, ht, hch, hf⟩ := cbStep_spec s sps sid h.sidU
  rw [he]
  simp only []
  have hrest : ∀ x : DTask, x.sid ≠ sid → (sid :: rest).contains x.sid = rest.contains x.sid := by
    intro x hx
    simp only [List.contains_cons]
    have : (x.sid == sid) = false := by simpa using hx
    rw [this]; rfl
  have hkids_sid : ∀ c ∈ (onGet s sid (cbKids s.spawnFail)), c.sid = sid := by
    intro c hc
    cases hg : s.get sid with
    | none => rw [onGet_none _ hg] at hc; cases hc
    | some t =>
      rw [onGet_some _ hg] at hc
      simp only [cbKids] at hc
      split at hc
      · simp only [List.mem_singleton] at hc
        rw [hc]; exact (get_some_mem hg).2
      · cases hc
  apply InvP_of h _ ht
  · intro x hx y hy
    have hx' := h.tinv x hx
    rw [hch, liveCount_append]
    by_cases hxs : x.sid = sid
    · have hb : (x.sid == sid) = true := by simpa using hxs
      rw [if_pos hb] at hy
      have hg : s.get sid = some x := hxs ▸ get_of_mem h.sidU hx
      have hp : (sid :: rest).contains x.sid = true := by simp [hxs]
      have hq : rest.contains x.sid = false := by rw [hxs]; simpa using hn
      rw [hp] at hx'
      rw [hq, onGet_some _ hg]
      refine ⟨cbTask_sid hy, ?_, ?_, (TInvP_cbTask hx' hy).frame hf, ?_⟩
      · unfold cbTask at hy
        split at hy
        · cases hy; rfl
        split at hy
        · split at hy
          · cases hy; rfl
          · cases hy
        · split at hy
          · cases hy; rfl
          · split at hy
            · cases hy
            · cases hy; rfl
      · unfold cbTask at hy
        split at hy
        · cases hy; exact id
        split at hy
        · split at hy
          · cases hy; exact id
          · cases hy
        · split at hy
          · cases hy; exact id
          · split at hy
            · cases hy
            · cases hy; exact id
      · have hcount := h.count x hx
        have hk : liveCount (cbKids s.spawnFail x) x.sid = if runs s.spawnFail x then 1 else 0 := by
          unfold cbKids liveCount; split <;> simp
        show y.nsim = liveCount s.children x.sid + liveCount (cbKids s.spawnFail x) x.sid
        rw [hk, ← hcount]
        unfold cbTask at hy
        split at hy
        · rename_i hit
          cases hy
          have hit' : x.inTable = false := by simpa using hit
          simp [runs, hit']
        split at hy
        · rename_i hcb
          have : runs s.spawnFail x = false := by simp [runs, hcb]
          rw [this]
          split at hy
          · cases hy; rfl
          · cases hy
        · split at hy
          · rename_i hr
            cases hy
            rw [hr]; rfl
          · rename_i hr
            have : runs s.spawnFail x = false := by simpa using hr
            rw [this]
            split at hy
            · cases hy
            · cases hy; rfl
    · have hb : (x.sid == sid) = false := by simpa using hxs
      rw [hb] at hy
      simp only [Bool.false_eq_true, if_false, Option.some.injEq] at hy
      subst hy
      rw [← hrest x hxs]
      refine ⟨rfl, rfl, id, hx'.frame hf, ?_⟩
      have : liveCount (onGet s sid (cbKids s.spawnFail)) x.sid = 0 := by
        unfold liveCount
        rw [List.length_eq_zero_iff, List.filter_eq_nil_iff]
        intro c hc
        have := hkids_sid c hc
        simp [this]; intro _ e; exact hxs e.symm
      have hcx := h.count x hx
      omega
  · rw [ht]
    apply seqU_keep _ _ h.seqU
    intro x hx y hy
    split at hy
    · unfold cbTask at hy
      split at hy
      · cases hy; rfl
      split at hy
      · split at hy
        · cases hy; rfl
        · cases hy
      · split at hy
        · cases hy; rfl
        · split at hy
          · cases hy
          · cases hy; rfl
    · cases hy; rfl
  · intro c hc hl
    rw [hch, List.mem_append] at hc
    rcases hc with hc | hc
    · obtain ⟨x, hx, hs⟩ := h.kids c hc hl
      refine ⟨x, hx, hs, ?_⟩
      have hpos : 1 ≤ x.nsim := by
        rw [h.count x hx, hs]; exact liveCount_pos hc hl
      split
      · unfold cbTask
        split
        · simp
        split
        · split
          · simp
          · rename_i hz; exact absurd (by simpa using hz) (by omega : ¬ x.nsim = 0)
        · split
          · simp
          · split
            · rename_i hz
              simp only [Bool.and_eq_true, beq_iff_eq] at hz
              omega
            · simp
      · simp
    · cases hg : s.get sid with
      | none => rw [onGet_none _ hg] at hc; cases hc
      | some t =>
        rw [onGet_some _ hg] at hc
        obtain ⟨htm, hts⟩ := get_some_mem hg
        refine ⟨t, htm, ?_, ?_⟩
        · simp only [cbKids] at hc
          split at hc
          · simp only [List.mem_singleton] at hc; rw [hc]
          · cases hc
        · simp only [cbKids] at hc
          split at hc
          · rename_i hr
            have hb : (t.sid == sid) = true := by simpa using hts
            rw [if_pos hb]
            have hr' := hr
            simp only [runs, Bool.and_eq_true, Bool.not_eq_eq_eq_not, Bool.not_true] at hr'
            unfold cbTask
            simp [hr, hr'.1.1.1, hr'.1.1.2]
          · cases hc

/-- all pending callbacks -/
theorem Inv_cbFold : ∀ (L : List Nat) (s : St) (sps : List Spawn), InvP L s → L.Nodup →
    Inv (L.foldl cbStep (s, sps)).1 := by
  intro L
  induction L with
  | nil => intro s sps h _; exact h
  | cons sid rest ih =>
    intro s sps h hnd
    rw [List.nodup_cons] at hnd
    rw [List.foldl_cons]
    have := InvP_cbStep sps h hnd.1
    exact ih (cbStep (s, sps) sid).1 (cbStep (s, sps) sid).2 this hnd.2

/-- a whole loop iteration, with or without a child reaped in it -/
theorem Inv_iter {s : St} {now : Nat} (ko : Option Nat) (h : Inv s) (hnow : s.now ≤ now) :
    Inv (iter s now ko).1 := by
  obtain ⟨s1, L, hr, hnd, h1, _, _⟩ := InvP_reify h hnow
  unfold iter
  rw [hr, runPending_eq]
  simp only []
  apply Inv_cbFold L _ [] _ hnd
  cases ko with
  | none => exact h1
  | some k => exact InvP_exit k h1

/-! ### client requests -/

theorem find_some {s : St} {uid : String} {t : DTask} (h : s.find uid = some t) :
    t ∈ s.tasks ∧ t.inTable = true ∧ t.uid = uid := by
  unfold St.find at h
  have h1 := List.mem_of_find?_eq_some h
  have h2 := List.find?_some h
  simp only [Bool.and_eq_true, beq_iff_eq] at h2
  exact ⟨h1, h2.1, h2.2⟩

theorem find_eq_none_iff {s : St} {uid : String} :
    s.find uid = none ↔ ∀ t ∈ s.tasks, t.inTable = true → t.uid ≠ uid := by
  unfold St.find
  rw [List.find?_eq_none]
  simp

theorem find_eq_some_iff {pend : List Nat} {s : St} (h : InvP pend s) {uid : String} {t : DTask} :
    s.find uid = some t ↔ t ∈ s.tasks ∧ t.inTable = true ∧ t.uid = uid := by
  refine ⟨find_some, ?_⟩
  rintro ⟨h1, h2, h3⟩
  cases hf : s.find uid with
  | none => exact absurd h3 (find_eq_none_iff.mp hf t h1 h2)
  | some x =>
    obtain ⟨x1, x2, x3⟩ := find_some hf
    rw [h.uidU x x1 t h1 x2 h2 (x3.trans h3.symm)]

theorem liveCount_eq_zero {l : List Child} {x : Nat} (h : ∀ c ∈ l, c.live = true → c.sid ≠ x) :
    liveCount l x = 0 := by
  unfold liveCount
  rw [List.length_eq_zero_iff, List.filter_eq_nil_iff]
  intro c hc
  simp only [Bool.and_eq_true, beq_iff_eq, not_and]
  exact h c hc

theorem Inv_eject {s : St} (h : Inv s) (uid : String) (u : Nat) : Inv (eject s uid u).1 := by
  unfold eject
  cases hf : s.find uid with
  | none => exact h
  | some t =>
    obtain ⟨htm, hit, htu⟩ := find_some hf
    simp only []
    split
    · exact h
    · split
      · rename_i hn
        simp only []
        apply InvP_of h _ (upd_tasks_filterMap _ _)
        · intro x hx y hy
          have hx' := h.tinv x hx
          simp only [List.contains_nil] at hx' ⊢
          by_cases hxs : x.sid = t.sid
          · have hb : (x.sid == t.sid) = true := by simpa using hxs
            have : x = t := h.sidU.inj hx htm hxs
            subst this
            simp only [hb, if_true, Option.some.injEq] at hy
            subst hy
            refine ⟨rfl, rfl, ?_, ?_, h.count x hx⟩
            · intro hh; cases hh
            exact {
              sid_lt := hx'.sid_lt, seq_lt := hx'.seq_lt, owner_ok := hx'.owner_ok, sorted := hx'.sorted
              armed := by intro hh; cases hh
              done := by intro _ hh; cases hh
              act_tab := by intro hh; cases hh
              drain := by intro hh; cases hh
              pend := by intro hh; cases hh
              wait := fun _ _ => hn
              ptab := by intro hh; cases hh }
          · have hb : (x.sid == t.sid) = false := by simpa using hxs
            simp only [hb, Bool.false_eq_true, if_false, Option.some.injEq] at hy
            subst hy
            exact ⟨rfl, rfl, id, hx'.mono (Nat.le_refl _) (Nat.le_refl _) rfl rfl, h.count x hx⟩
        · rw [upd_tasks_filterMap]
          apply seqU_keep _ _ h.seqU
          intro x hx y hy
          split at hy
          · rename_i hb
            have : x = t := h.sidU.inj hx htm (by simpa using hb)
            cases hy; rw [this]
          · cases hy; rfl
        · intro c hc hl
          obtain ⟨x, hx, hs⟩ := h.kids c hc hl
          refine ⟨x, hx, hs, ?_⟩
          split <;> simp
      · rename_i hn
        have hn' : t.nsim = 0 := by simpa using hn
        simp only []
        apply InvP_of h _ (del_tasks_filterMap _ _)
        · intro x hx y hy
          have hx' := h.tinv x hx
          split at hy
          · cases hy
          · cases hy
            exact ⟨rfl, rfl, id, hx'.mono (Nat.le_refl _) (Nat.le_refl _) rfl rfl, h.count x hx⟩
        · rw [del_tasks_filterMap]
          apply seqU_keep _ _ h.seqU
          intro x hx y hy
          split at hy
          · cases hy
          · cases hy; rfl
        · intro c hc hl
          have hc : c ∈ s.children := hc
          obtain ⟨x, hx, hs⟩ := h.kids c hc hl
          refine ⟨x, hx, hs, ?_⟩
          have hne : x.sid ≠ t.sid := by
            intro e
            have := h.count t htm
            rw [hn', ← e, hs] at this
            have hp := liveCount_pos hc hl
            omega
          have hb : (x.sid == t.sid) = false := by simpa using hne
          simp [hb]

/-- the record `ev_periodic_start` leaves behind -/
theorem TInv_start {s' : St} {t0 : DTask} {now pq : Nat} (hr : t0.resched = true)
    (hcb : t0.cbUnsched = false) (hn : t0.nrun = 0) (hit : t0.inTable = true)
    (hsorted : t0.occ.Pairwise (· ≤ ·)) (howner : t0.owner ≠ notAUid ∧ s'.users.contains t0.owner = true)
    (hsid : t0.sid < s'.nextSid) (hpq : pq < s'.perseq) (hnow : s'.now = now) :
    TInvP false s' { resched t0 now with active := true, seq := pq } := by
  cases hdw : t0.occ.dropWhile (· < now) with
  | nil =>
    rw [resched_nil hdw, if_pos hn]
    exact {
      sid_lt := hsid, seq_lt := hpq, owner_ok := howner, sorted := List.Pairwise.nil
      armed := by intro hh; cases hh
      done := fun _ _ => ⟨rfl, rfl⟩
      act_tab := fun _ => hit
      drain := by intro _ _ hh; cases hh
      pend := fun _ _ => ⟨hn, now, rfl, by rw [hnow]; exact Nat.le_refl _⟩
      wait := by
        intro _ hh
        rcases hh with hh | hh
        · cases hh
        · cases hh.2
      ptab := by intro hh; cases hh }
  | cons e r =>
    rw [resched_cons hdw]
    have he := dropWhile_head_not _ _ _ _ hdw
    simp at he
    exact {
      sid_lt := hsid, seq_lt := hpq, owner_ok := howner
      sorted := by
        have := List.Pairwise.sublist (List.dropWhile_sublist (fun o => decide (o < now))) hsorted
        rw [hdw] at this; exact this
      armed := fun _ => ⟨hit, rfl, hcb, rfl, rfl, by rw [hnow]; exact he, Nat.le_add_left 1 _⟩
      done := by intro hh; rw [hr] at hh; cases hh
      act_tab := fun _ => hit
      drain := by intro _ hh; rw [hr] at hh; cases hh
      pend := by intro _ hh; rw [hcb] at hh; cases hh
      wait := by
        intro _ hh
        rcases hh with hh | hh
        · cases hh
        · rw [hr] at hh; cases hh.1
      ptab := by intro hh; cases hh }

theorem resched_keeps (t : DTask) (now : Nat) :
    (resched t now).sid = t.sid ∧ (resched t now).uid = t.uid ∧ (resched t now).inTable = t.inTable ∧
    (resched t now).nsim = t.nsim ∧ (resched t now).owner = t.owner ∧ (resched t now).maxSimul = t.maxSimul := by
  cases hdw : t.occ.dropWhile (· < now) with
  | nil => rw [resched_nil hdw]; split <;> exact ⟨rfl, rfl, rfl, rfl, rfl, rfl⟩
  | cons e r => rw [resched_cons hdw]; exact ⟨rfl, rfl, rfl, rfl, rfl, rfl⟩

/-- a new record at the end of the table -/
theorem Inv_append {s s' : St} {t : DTask} (h : Inv s) (ht : s'.tasks = s.tasks ++ [t])
    (hc : s'.children = s.children) (h1 : s'.nextSid = s.nextSid + 1) (h2 : s.perseq ≤ s'.perseq)
    (h3 : s'.users = s.users) (h4 : s'.now = s.now) (hsid : t.sid = s.nextSid) (hseq : t.seq = s.perseq)
    (hti : TInvP false s' t) (hn : t.nsim = 0) (hu : ∀ x ∈ s.tasks, x.inTable = true → x.uid ≠ t.uid)
    (hne : t.uid ≠ "") : Inv s' where
  sidU := by
    rw [ht]
    unfold SidU
    rw [List.map_append, List.nodup_append]
    refine ⟨h.sidU, by simp, ?_⟩
    intro a ha b hb
    rw [List.mem_map] at ha
    obtain ⟨x, hx, rfl⟩ := ha
    simp only [List.map_cons, List.map_nil, List.mem_singleton] at hb
    have := (h.tinv x hx).sid_lt
    omega
  uidU := by
    rw [ht]
    intro a ha b hb pa pb hab
    rw [List.mem_append, List.mem_singleton] at ha hb
    rcases ha with ha | rfl <;> rcases hb with hb | rfl
    · exact h.uidU a ha b hb pa pb hab
    · exact absurd hab (hu a ha pa)
    · exact absurd hab.symm (hu b hb pb)
    · rfl
  seqU := by
    rw [ht]
    intro a ha b hb hab
    rw [List.mem_append, List.mem_singleton] at ha hb
    rcases ha with ha | rfl <;> rcases hb with hb | rfl
    · exact h.seqU a ha b hb hab
    · have := (h.tinv a ha).seq_lt; omega
    · have := (h.tinv b hb).seq_lt; omega
    · rfl
  uidNe := by
    rw [ht]
    intro x hx
    rw [List.mem_append, List.mem_singleton] at hx
    rcases hx with hx | rfl
    · exact h.uidNe x hx
    · exact hne
  tinv := by
    rw [ht]
    intro x hx
    rw [List.mem_append, List.mem_singleton] at hx
    simp only [List.contains_nil]
    rcases hx with hx | rfl
    · exact (h.tinv' hx).mono (by omega) h2 h3 h4
    · exact hti
  kids := by
    rw [ht, hc]
    intro c hc' hl
    obtain ⟨x, hx, hs⟩ := h.kids c hc' hl
    exact ⟨x, List.mem_append_left _ hx, hs⟩
  count := by
    rw [ht, hc]
    intro x hx
    rw [List.mem_append, List.mem_singleton] at hx
    rcases hx with hx | rfl
    · exact h.count x hx
    · rw [hn, hsid]
      symm
      apply liveCount_eq_zero
      intro c hc' hl e
      obtain ⟨y, hy, hs⟩ := h.kids c hc' hl
      have := (h.tinv y hy).sid_lt
      omega

/-! ### `_inject_task1` -/

/-- the ownership decision of `_inject_task1` on the completed uids (`notAUid` = unknown or not given) -/
def effCore (s : St) (oc uc : Nat) : Option Nat :=
  if uc = notAUid ∧ oc = notAUid then none
  else if uc = notAUid ∧ s.me ≠ 0 ∧ oc ≠ s.me then none
  else if oc = notAUid ∧ s.me ≠ 0 ∧ uc ≠ s.me then none
  else if uc ≠ notAUid ∧ oc ≠ notAUid ∧ oc ≠ uc then none
  else some (if oc = notAUid then uc else oc)

/-- the `OWNER` field of an instruction, completed -/
def ownerC (s : St) : Option Nat → Nat
  | some o => complUid s o
  | none => notAUid

/-- the owner `_inject_task1` settles on; `none`: the request is refused on ownership grounds -/
def effOwner (s : St) (owner : Option Nat) (u : Nat) : Option Nat :=
  if u ≠ notAUid ∧ complUid s u = notAUid then none   -- a peer that is given but unknown is refused
  else effCore s (ownerC s owner) (complUid s u)

theorem effOwner_refused {s : St} {owner : Option Nat} {u : Nat} (h : u ≠ notAUid ∧ complUid s u = notAUid) :
    effOwner s owner u = none := if_pos h

theorem effOwner_core {s : St} {owner : Option Nat} {u : Nat} (h : ¬ (u ≠ notAUid ∧ complUid s u = notAUid)) :
    effOwner s owner u = effCore s (ownerC s owner) (complUid s u) := if_neg h

theorem effOwner_some {s : St} {owner : Option Nat} {u e : Nat} (h : effOwner s owner u = some e) :
    (u = notAUid ∨ complUid s u ≠ notAUid) ∧ effCore s (ownerC s owner) (complUid s u) = some e := by
  by_cases c : u ≠ notAUid ∧ complUid s u = notAUid
  · rw [effOwner_refused c] at h; cases h
  · rw [effOwner_core c] at h
    refine ⟨?_, h⟩
    by_cases hu : u = notAUid
    · exact Or.inl hu
    · exact Or.inr (fun hc => c ⟨hu, hc⟩)

/-- the record a (re)load arms -/
def loaded (s : St) (t0 : DTask) : DTask := { resched t0 s.now with active := true, seq := s.perseq }

def replaced (old : DTask) (e ms dur : Nat) (occ : List Nat) : DTask :=
  { old with owner := e, occ := occ, dur := dur, maxSimul := ms, nrun := 0, resched := true,
             cbUnsched := false, active := false }

def fresh (sid : Nat) (uid : String) (e ms dur : Nat) (occ : List Nat) : DTask :=
  { sid := sid, uid := uid, owner := e, occ := occ, dur := dur, maxSimul := ms }

/-- `_inject_task1` once the owner `e` is settled -/
def injectAs (s : St) (uid : String) (maxSimul dur : Nat) (occ : List Nat) (isTask : Bool) (e : Nat) : St × Bool :=
  if !isTask || uid == "" then (s, false)
  else match s.find uid with
    | some old =>
      if old.owner ≠ e then (s, false)
      else (({ s with perseq := s.perseq + 1 } : St).upd (loaded s (replaced old e maxSimul dur occ)), true)
    | none =>
      ({ s with nextSid := s.nextSid + 1, perseq := s.perseq + 1,
                tasks := s.tasks ++ [loaded s (fresh s.nextSid uid e maxSimul dur occ)] }, true)

/-- `_inject_task1` by cases -/
def injectSpec (s : St) (uid : String) (owner : Option Nat) (maxSimul dur : Nat) (occ : List Nat) (isTask : Bool)
    (u : Nat) : St × Bool :=
  match effOwner s owner u with
  | none => (s, false)
  | some e => injectAs s uid maxSimul dur occ isTask e

theorem inject_core (s : St) (uid : String) (maxSimul dur : Nat) (occ : List Nat) (isTask : Bool) (oc uc : Nat) :
    (if uc = notAUid ∧ oc = notAUid then (s, false)
    else if uc = notAUid ∧ s.me ≠ 0 ∧ oc ≠ s.me then (s, false)
    else if oc = notAUid ∧ s.me ≠ 0 ∧ uc ≠ s.me then (s, false)
    else if uc ≠ notAUid ∧ oc ≠ notAUid ∧ oc ≠ uc then (s, false)
    else
      let oc := if oc = notAUid then uc else oc
      let uc := if uc = notAUid then oc else uc
      if !isTask || uid == "" then (s, false)
      else
        match s.find uid with
        | some old =>
          if old.owner ≠ oc then (s, false)
          else
            let t : DTask := { old with owner := uc, occ := occ, dur := dur, maxSimul := maxSimul, nrun := 0,
                                        resched := true, cbUnsched := false, active := false }
            let (s, t) := startPeriodic s t
            (s.upd t, true)
        | none =>
          let t : DTask := { sid := s.nextSid, uid := uid, owner := uc, occ := occ, dur := dur, maxSimul := maxSimul }
          let s := { s with nextSid := s.nextSid + 1 }
          let (s, t) := startPeriodic s t
          ({ s with tasks := s.tasks ++ [t] }, true))
    = (match effCore s oc uc with
       | none => (s, false)
       | some e => injectAs s uid maxSimul dur occ isTask e) := by
  unfold effCore
  by_cases c1 : uc = notAUid ∧ oc = notAUid
  · rw [if_pos c1, if_pos c1]
  rw [if_neg c1, if_neg c1]
  by_cases c2 : uc = notAUid ∧ s.me ≠ 0 ∧ oc ≠ s.me
  · rw [if_pos c2, if_pos c2]
  rw [if_neg c2, if_neg c2]
  by_cases c3 : oc = notAUid ∧ s.me ≠ 0 ∧ uc ≠ s.me
  · rw [if_pos c3, if_pos c3]
  rw [if_neg c3, if_neg c3]
  by_cases c4 : uc ≠ notAUid ∧ oc ≠ notAUid ∧ oc ≠ uc
  · rw [if_pos c4, if_pos c4]
  rw [if_neg c4, if_neg c4]
  have he2 : (if uc = notAUid then (if oc = notAUid then uc else oc) else uc) = (if oc = notAUid then uc else oc) := by
    by_cases ho : oc = notAUid <;> by_cases hu : uc = notAUid
    · exact absurd ⟨hu, ho⟩ c1
    · simp [ho, hu]
    · simp [ho, hu]
    · simp only [ho, hu, if_false]
      rcases Nat.decEq oc uc with hne | heq
      · exact absurd ⟨hu, ho, hne⟩ c4
      · exact heq.symm
  simp only [he2]
  rfl

theorem inject_eq (s : St) (uid : String) (owner : Option Nat) (maxSimul dur : Nat) (occ : List Nat)
    (isTask : Bool) (u : Nat) :
    inject s uid owner maxSimul dur occ isTask u = injectSpec s uid owner maxSimul dur occ isTask u := by
  unfold injectSpec
  by_cases c : u ≠ notAUid ∧ complUid s u = notAUid
  · rw [effOwner_refused c]
    unfold inject
    simp only []
    rw [if_pos c]
  · rw [effOwner_core c]
    unfold inject
    simp only []
    rw [if_neg c]
    cases owner with
    | none => exact inject_core s uid maxSimul dur occ isTask notAUid (complUid s u)
    | some o => exact inject_core s uid maxSimul dur occ isTask (complUid s o) (complUid s u)

/-- a task without a usable UID (`!t->oid`) is turned down whatever the owner -/
theorem injectAs_empty (s : St) (ms dur : Nat) (occ : List Nat) (isTask : Bool) (e : Nat) :
    injectAs s "" ms dur occ isTask e = (s, false) := by
  unfold injectAs
  rw [if_pos (by simp)]

theorem inject_empty (s : St) (owner : Option Nat) (ms dur : Nat) (occ : List Nat) (isTask : Bool) (u : Nat) :
    inject s "" owner ms dur occ isTask u = (s, false) := by
  rw [inject_eq]
  unfold injectSpec
  cases effOwner s owner u with
  | none => rfl
  | some e => exact injectAs_empty s ms dur occ isTask e

theorem injectAs_ok_ne {s : St} {uid : String} {ms dur : Nat} {occ : List Nat} {isTask : Bool} {e : Nat}
    (h : (injectAs s uid ms dur occ isTask e).2 = true) : uid ≠ "" := by
  intro hu; subst hu; rw [injectAs_empty] at h; cases h

theorem inject_ok_ne {s : St} {uid : String} {owner : Option Nat} {ms dur : Nat} {occ : List Nat} {isTask : Bool}
    {u : Nat} (h : (inject s uid owner ms dur occ isTask u).2 = true) : uid ≠ "" := by
  intro hu; subst hu; rw [inject_empty] at h; cases h

theorem complUid_ne {s : St} {x : Nat} (h : complUid s x ≠ notAUid) :
    complUid s x = x ∧ x ≠ notAUid ∧ s.users.contains x = true := by
  unfold complUid at h ⊢
  split at h
  · rename_i hh; rw [if_pos hh]; exact ⟨rfl, hh.1, hh.2⟩
  · exact absurd rfl h

theorem ownerC_ne {s : St} {owner : Option Nat} (h : ownerC s owner ≠ notAUid) :
    ∃ o, owner = some o ∧ ownerC s owner = o ∧ o ≠ notAUid ∧ s.users.contains o = true := by
  cases owner with
  | none => exact absurd rfl h
  | some o =>
    have := complUid_ne (s := s) (x := o) h
    exact ⟨o, rfl, this.1, this.2⟩

theorem effCore_some {s : St} {oc uc e : Nat} (h : effCore s oc uc = some e) :
    (e = oc ∨ e = uc) ∧ e ≠ notAUid ∧ (oc = notAUid ∨ oc = e) ∧ (uc = notAUid ∨ uc = e) := by
  unfold effCore at h
  by_cases c1 : uc = notAUid ∧ oc = notAUid
  · rw [if_pos c1] at h; cases h
  rw [if_neg c1] at h
  by_cases c2 : uc = notAUid ∧ s.me ≠ 0 ∧ oc ≠ s.me
  · rw [if_pos c2] at h; cases h
  rw [if_neg c2] at h
  by_cases c3 : oc = notAUid ∧ s.me ≠ 0 ∧ uc ≠ s.me
  · rw [if_pos c3] at h; cases h
  rw [if_neg c3] at h
  by_cases c4 : uc ≠ notAUid ∧ oc ≠ notAUid ∧ oc ≠ uc
  · rw [if_pos c4] at h; cases h
  rw [if_neg c4] at h
  cases h
  by_cases ho : oc = notAUid <;> by_cases hu : uc = notAUid
  · exact absurd ⟨hu, ho⟩ c1
  · simp [ho, hu]
  · simp [ho, hu]
  · have : oc = uc := by
      rcases Nat.decEq oc uc with hne | heq
      · exact absurd ⟨hu, ho, hne⟩ c4
      · exact heq
    subst this
    simp [ho]

theorem effOwner_known {s : St} {owner : Option Nat} {u e : Nat} (h : effOwner s owner u = some e) :
    e ≠ notAUid ∧ s.users.contains e = true := by
  obtain ⟨h1, h2, h3, h4⟩ := effCore_some (effOwner_some h).2
  refine ⟨h2, ?_⟩
  rcases h1 with h1 | h1
  · obtain ⟨o, _, ho, _, hk⟩ := ownerC_ne (s := s) (owner := owner) (h1 ▸ h2)
    rw [h1, ho]; exact hk
  · have := complUid_ne (s := s) (x := u) (h1 ▸ h2)
    rw [h1, this.1]; exact this.2.2

theorem loaded_keeps (s : St) (t0 : DTask) :
    (loaded s t0).sid = t0.sid ∧ (loaded s t0).uid = t0.uid ∧ (loaded s t0).inTable = t0.inTable ∧
    (loaded s t0).nsim = t0.nsim ∧ (loaded s t0).owner = t0.owner ∧ (loaded s t0).maxSimul = t0.maxSimul ∧
    (loaded s t0).seq = s.perseq := by
  have := resched_keeps t0 s.now
  exact ⟨this.1, this.2.1, this.2.2.1, this.2.2.2.1, this.2.2.2.2.1, this.2.2.2.2.2, rfl⟩

theorem Inv_injectAs {s : St} (h : Inv s) (uid : String) (ms dur : Nat) (occ : List Nat) (isTask : Bool) (e : Nat)
    (hs : occ.Pairwise (· ≤ ·)) (he : e ≠ notAUid ∧ s.users.contains e = true) :
    Inv (injectAs s uid ms dur occ isTask e).1 := by
  unfold injectAs
  split
  · exact h
  rename_i hcond
  have hne : uid ≠ "" := by
    intro c; apply hcond; simp [c]
  cases hf : s.find uid with
  | none =>
    simp only []
    have hk := loaded_keeps s (fresh s.nextSid uid e ms dur occ)
    refine Inv_append (t := loaded s (fresh s.nextSid uid e ms dur occ)) h rfl rfl rfl (Nat.le_succ _) rfl rfl
      hk.1 hk.2.2.2.2.2.2 ?_ hk.2.2.2.1 ?_ ?_
    · exact TInv_start rfl rfl rfl rfl hs he (Nat.lt_succ_self _) (Nat.lt_succ_self _) rfl
    · intro x hx hxi
      rw [hk.2.1]
      exact find_eq_none_iff.mp hf x hx hxi
    · rw [hk.2.1]; exact hne
  | some old =>
    obtain ⟨hom, hoi, hou⟩ := find_some hf
    simp only []
    split
    · exact h
    rename_i hown
    have hk := loaded_keeps s (replaced old e ms dur occ)
    have hsid : (loaded s (replaced old e ms dur occ)).sid = old.sid := hk.1
    have hold := h.tinv' hom
    show Inv (({ s with perseq := s.perseq + 1 } : St).upd (loaded s (replaced old e ms dur occ)))
    have htasks : (({ s with perseq := s.perseq + 1 } : St).upd (loaded s (replaced old e ms dur occ))).tasks
        = s.tasks.filterMap (fun x => if x.sid == (loaded s (replaced old e ms dur occ)).sid
            then some (loaded s (replaced old e ms dur occ)) else some x) :=
      upd_tasks_filterMap ({ s with perseq := s.perseq + 1 } : St) _
    apply InvP_of h _ htasks
    · intro x hx y hy
      have hx' := h.tinv' hx
      simp only [List.contains_nil]
      rw [hsid] at hy
      by_cases hxs : x.sid = old.sid
      · have hb : (x.sid == old.sid) = true := by simpa using hxs
        have : x = old := h.sidU.inj hx hom hxs
        subst this
        simp only [hb, if_true, Option.some.injEq] at hy
        subst hy
        refine ⟨hk.1, hk.2.1, fun _ => hoi, ?_, ?_⟩
        · exact TInv_start rfl rfl rfl hoi hs he hold.sid_lt (Nat.lt_succ_self _) rfl
        · rw [hk.2.2.2.1]; exact h.count x hx
      · have hb : (x.sid == old.sid) = false := by simpa using hxs
        simp only [hb, Bool.false_eq_true, if_false, Option.some.injEq] at hy
        subst hy
        exact ⟨rfl, rfl, id, hx'.mono (Nat.le_refl _) (Nat.le_succ _) rfl rfl, h.count x hx⟩
    · intro a ha b hb hab
      rw [mem_upd] at ha hb
      rcases ha with ⟨ha, _⟩ | ⟨rfl, _⟩ <;> rcases hb with ⟨hb, _⟩ | ⟨rfl, _⟩
      · exact h.seqU a ha b hb hab
      · rw [hk.2.2.2.2.2.2] at hab
        have := (h.tinv a ha).seq_lt; omega
      · rw [hk.2.2.2.2.2.2] at hab
        have := (h.tinv b hb).seq_lt; omega
      · rfl
    · intro c hc hl
      obtain ⟨x, hx, hxs⟩ := h.kids c hc hl
      refine ⟨x, hx, hxs, ?_⟩
      split <;> simp

theorem Inv_inject {s : St} (h : Inv s) (uid : String) (owner : Option Nat) (ms dur : Nat) (occ : List Nat)
    (isTask : Bool) (u : Nat) (hs : occ.Pairwise (· ≤ ·)) : Inv (inject s uid owner ms dur occ isTask u).1 := by
  rw [inject_eq]
  unfold injectSpec
  cases he : effOwner s owner u with
  | none => exact h
  | some e => exact Inv_injectAs h uid ms dur occ isTask e hs (effOwner_known he)

/-! ### `cmd_ical` as a recursion -/

def applyInstr (s : St) (peer : Nat) : Instr → St × Bool
  | .sched uid owner ms dur occ isTask => inject s uid owner ms dur occ isTask peer
  | .cancel uid => eject s uid peer

def instrUid : Instr → String
  | .sched uid _ _ _ _ _ => uid
  | .cancel uid => uid

/-- the instructions of one request applied in order: final state, replies -/
def applyAll (s : St) (peer : Nat) : List Instr → St × List (String × Bool)
  | [] => (s, [])
  | i :: r => ((applyAll (applyInstr s peer i).1 peer r).1,
               (instrUid i, (applyInstr s peer i).2) :: (applyAll (applyInstr s peer i).1 peer r).2)

def icalStep (peer : Nat) (acc : St × List (String × Bool)) (i : Instr) : St × List (String × Bool) :=
  let (s, rps) := acc
  match i with
  | .sched uid owner ms dur occ isTask =>
    let (s, ok) := inject s uid owner ms dur occ isTask peer
    (s, rps ++ [(uid, ok)])
  | .cancel uid =>
    let (s, ok) := eject s uid peer
    (s, rps ++ [(uid, ok)])

theorem icalStep_eq (peer : Nat) (s : St) (rps : List (String × Bool)) (i : Instr) :
    icalStep peer (s, rps) i = ((applyInstr s peer i).1, rps ++ [(instrUid i, (applyInstr s peer i).2)]) := by
  cases i <;> rfl

theorem ical_fold (peer : Nat) : ∀ (ins : List Instr) (s : St) (rps : List (String × Bool)),
    ins.foldl (icalStep peer) (s, rps) = ((applyAll s peer ins).1, rps ++ (applyAll s peer ins).2) := by
  intro ins
  induction ins with
  | nil => intro s rps; simp [applyAll]
  | cons i r ih =>
    intro s rps
    rw [List.foldl_cons, icalStep_eq, ih]
    simp [applyAll]

theorem cmdIcal_eq (s : St) (peer : Nat) (ins : List Instr) :
    cmdIcal s peer ins = (if (applyAll s peer ins).2.any (·.2) then addChkpnt (applyAll s peer ins).1 peer
      else (applyAll s peer ins).1, (applyAll s peer ins).2) := by
  have : cmdIcal s peer ins = (if (ins.foldl (icalStep peer) (s, [])).2.any (·.2)
      then addChkpnt (ins.foldl (icalStep peer) (s, [])).1 peer else (ins.foldl (icalStep peer) (s, [])).1,
      (ins.foldl (icalStep peer) (s, [])).2) := rfl
  rw [this, ical_fold]
  simp

theorem Inv_applyInstr {s : St} (h : Inv s) (peer : Nat) (i : Instr) (hi : instrSorted i) :
    Inv (applyInstr s peer i).1 := by
  cases i with
  | sched uid owner ms dur occ isTask => exact Inv_inject h uid owner ms dur occ isTask peer hi
  | cancel uid => exact Inv_eject h uid peer

theorem Inv_applyAll (peer : Nat) : ∀ (ins : List Instr) (s : St), Inv s → (∀ i ∈ ins, instrSorted i) →
    Inv (applyAll s peer ins).1 := by
  intro ins
  induction ins with
  | nil => intro s h _; exact h
  | cons i r ih =>
    intro s h hs
    simp only [applyAll]
    exact ih _ (Inv_applyInstr h peer i (hs i List.mem_cons_self)) (fun j hj => hs j (List.mem_cons_of_mem _ hj))

theorem Inv_addChkpnt {s : St} (h : Inv s) (u : Nat) : Inv (addChkpnt s u) := by
  have hf := addChkpnt_frame s u
  exact InvP_frame h (addChkpnt_tasks s u) (addChkpnt_children s u) (Nat.le_of_eq hf.nextSid.symm)
    (Nat.le_of_eq hf.perseq.symm) hf.users hf.now

theorem Inv_cmdIcal {s : St} (h : Inv s) (peer : Nat) (ins : List Instr) (hs : ∀ i ∈ ins, instrSorted i) :
    Inv (cmdIcal s peer ins).1 := by
  rw [cmdIcal_eq]
  simp only []
  split
  · exact Inv_addChkpnt (Inv_applyAll peer ins s h hs) peer
  · exact Inv_applyAll peer ins s h hs

theorem Inv_chkpnt {s : St} (h : Inv s) (cut : Option Cut) : Inv (chkpnt s cut) :=
  InvP_frame h rfl rfl (Nat.le_refl _) (Nat.le_refl _) rfl rfl

theorem Inv_childExit {s : St} (h : Inv s) (k : Nat) : Inv (childExit s k).1 := InvP_exit k h

theorem Inv_tick {s : St} {now : Nat} (h : Inv s) (hnow : s.now ≤ now) : Inv (tick s now).1 := by
  rw [tick_eq_iter]; exact Inv_iter none h hnow

/-- every operation preserves well-formedness -/
theorem Inv_step {s : St} (h : Inv s) (op : Op) (hop : OpOk s op) : Inv (step s op).1 := by
  cases op with
  | tick now => exact Inv_tick h hop
  | req p ins => exact Inv_cmdIcal h p ins hop
  | exit k => exact Inv_childExit h k
  | chk => exact Inv_chkpnt h none
  | tickExit now k => exact Inv_iter (some k) h hop

/-- the fields no client request touches -/
structure ReqFrame (s s' : St) : Prop where
  me : s'.me = s.me
  users : s'.users = s.users
  now : s'.now = s.now
  spawnFail : s'.spawnFail = s.spawnFail
  children : s'.children = s.children
  files : s'.files = s.files

theorem ReqFrame.refl (s : St) : ReqFrame s s := ⟨rfl, rfl, rfl, rfl, rfl, rfl⟩

theorem ReqFrame.trans {a b c : St} (h1 : ReqFrame a b) (h2 : ReqFrame b c) : ReqFrame a c :=
  ⟨h2.me.trans h1.me, h2.users.trans h1.users, h2.now.trans h1.now, h2.spawnFail.trans h1.spawnFail,
   h2.children.trans h1.children, h2.files.trans h1.files⟩

theorem applyInstr_frame (s : St) (peer : Nat) (i : Instr) : ReqFrame s (applyInstr s peer i).1 := by
  cases i with
  | sched uid owner ms dur occ isTask =>
    simp only [applyInstr]
    rw [inject_eq]
    unfold injectSpec
    cases effOwner s owner peer with
    | none => exact ReqFrame.refl s
    | some e =>
      simp only [injectAs]
      split
      · exact ReqFrame.refl s
      · cases s.find uid with
        | none => exact ⟨rfl, rfl, rfl, rfl, rfl, rfl⟩
        | some old =>
          simp only []
          split
          · exact ReqFrame.refl s
          · exact ⟨rfl, rfl, rfl, rfl, rfl, rfl⟩
  | cancel uid =>
    simp only [applyInstr, eject]
    cases s.find uid with
    | none => exact ReqFrame.refl s
    | some t =>
      simp only []
      split
      · exact ReqFrame.refl s
      · split <;> exact ⟨rfl, rfl, rfl, rfl, rfl, rfl⟩

theorem applyAll_frame (peer : Nat) : ∀ (ins : List Instr) (s : St), ReqFrame s (applyAll s peer ins).1 := by
  intro ins
  induction ins with
  | nil => intro s; exact ReqFrame.refl s
  | cons i r ih => intro s; exact (applyInstr_frame s peer i).trans (ih _)

theorem cmdIcal_frame (s : St) (peer : Nat) (ins : List Instr) : ReqFrame s (cmdIcal s peer ins).1 := by
  rw [cmdIcal_eq]
  simp only []
  split
  · have h1 := applyAll_frame peer ins s
    have h2 := addChkpnt_frame (applyAll s peer ins).1 peer
    exact ⟨h2.me.trans h1.me, h2.users.trans h1.users, h2.now.trans h1.now, h2.spawnFail.trans h1.spawnFail,
      (addChkpnt_children _ _).trans h1.children, h2.files.trans h1.files⟩
  · exact applyAll_frame peer ins s

theorem step_now {s : St} (h : Inv s) (op : Op) : (step s op).1.now = op.clock s := by
  cases op with
  | tick now =>
    obtain ⟨L, _, _, _, _, hf⟩ := iter_spec s now none h.sidU
    exact hf.now
  | req p ins => exact (cmdIcal_frame s p ins).now
  | exit k =>
    simp only [step, Op.clock, childExit]
    cases hc : s.children[k]? with
    | none => rw [exit_none s k [] (by intro c hc'; rw [hc] at hc'; cases hc')]
    | some c =>
      by_cases hl : c.live = true
      · exact (exit_spec s k [] h.sidU c hc hl).2.2.now
      · rw [exit_none s k [] (by intro c' hc'; rw [hc] at hc'; cases hc'; simpa using hl)]
  | chk => rfl
  | tickExit now k =>
    obtain ⟨L, _, _, _, _, hf⟩ := iter_spec s now (some k) h.sidU
    exact hf.now

theorem Mono_cons {s : St} {op : Op} {ops : List Op} (h : Mono s.now (op :: ops)) :
    OpOk s op ∧ Mono (op.clock s) ops := by
  cases op with
  | tick now => exact h
  | req p ins => exact h
  | exit k => exact ⟨trivial, h⟩
  | chk => exact ⟨trivial, h⟩
  | tickExit now k => exact h

theorem run_cons (s : St) (op : Op) (ops : List Op) :
    run s (op :: ops) = ((run (step s op).1 ops).1,
      (step s op).2.1.map (fun sp => (op.clock s, sp)) ++ (run (step s op).1 ops).2.1,
      (step s op).2.2 ++ (run (step s op).1 ops).2.2) := rfl

/-- every state reached by a history (monotone clock, ascending occurrence lists) is well-formed -/
theorem Inv_run : ∀ (ops : List Op) (s : St), Inv s → Mono s.now ops → Inv (run s ops).1 := by
  intro ops
  induction ops with
  | nil => intro s h _; exact h
  | cons op ops ih =>
    intro s h hm
    obtain ⟨h1, h2⟩ := Mono_cons hm
    rw [run_cons]
    simp only []
    apply ih _ (Inv_step h op h1)
    rw [step_now h op]; exact h2

/-! ### a new daemon on the spool -/

theorem Inv_empty (s : St) (ht : s.tasks = []) (hc : s.children = []) : Inv s where
  sidU := by rw [ht]; simp [SidU]
  uidU := by rw [ht]; intro a h; cases h
  seqU := by rw [ht]; intro a h; cases h
  uidNe := by rw [ht]; intro a h; cases h
  tinv := by rw [ht]; intro a h; cases h
  kids := by rw [hc]; intro a h; cases h
  count := by rw [ht]; intro a h; cases h

theorem Inv_injectAll (u : Nat) : ∀ (ts : List DTask) (s : St), Inv s → (∀ t ∈ ts, t.occ.Pairwise (· ≤ ·)) →
    Inv (ts.foldl (fun s t => (inject s t.uid (some t.owner) t.maxSimul t.dur t.occ true u).1) s) := by
  intro ts
  induction ts with
  | nil => intro s h _; exact h
  | cons t r ih =>
    intro s h hs
    rw [List.foldl_cons]
    exact ih _ (Inv_inject h _ _ _ _ _ _ _ (hs t List.mem_cons_self)) (fun x hx => hs x (List.mem_cons_of_mem _ hx))

/-- the state `reload` builds from queue files with ascending streams is well-formed -/
theorem Inv_reload (files : List (Nat × List DTask)) (me now : Nat)
    (hs : ∀ f ∈ files, ∀ t ∈ f.2, t.occ.Pairwise (· ≤ ·)) : Inv (reload files me now) := by
  unfold reload
  simp only []
  have : ∀ (fs : List (Nat × List DTask)) (s : St), Inv s → (∀ f ∈ fs, ∀ t ∈ f.2, t.occ.Pairwise (· ≤ ·)) →
      Inv (fs.foldl (fun s f =>
        f.2.foldl (fun s t => (inject s t.uid (some t.owner) t.maxSimul t.dur t.occ true notAUid).1) s) s) := by
    intro fs
    induction fs with
    | nil => intro s h _; exact h
    | cons f r ih =>
      intro s h hs
      rw [List.foldl_cons]
      exact ih _ (Inv_injectAll notAUid f.2 s h (hs f List.mem_cons_self))
        (fun x hx => hs x (List.mem_cons_of_mem _ hx))
  exact this files _ (Inv_empty _ rfl rfl) hs

end Echse.Daemon
