/-
  C17 lemmas, part 16: SHIFT=NB on one real date: weekday, `bdayMove`, `reassess` against `shiftB`.
-/
import Echse.Lemmas.RuleExt11
import Echse.Lemmas.RuleExt14
import Echse.Lemmas.RuleExt15
namespace Echse.RuleExt
open Echse.Rrule Echse.Spec.Cal Echse.Spec.RuleExt Echse.Instant

theorem mkSh_fields (n : Int) (count : Nat) (back keep : Bool) (hc : count ≤ 366) :
    mkSh n count back keep ≠ 0 ∧ shDvalue (mkSh n count back keep) = n ∧ shBdayP (mkSh n count back keep) = true ∧
    shNegP (mkSh n count back keep) = back ∧ shInvP (mkSh n count back keep) = (keep || decide (count = 0)) ∧
    shBvalue (mkSh n count back keep) = (if back then -(count : Int) else count) := by
  have hl : shLow (mkSh n count back keep) =
      count * 4 + (if keep ∨ count = 0 then 2 else 0) + (if back then 1 else 0) := by
    unfold shLow mkSh
    split <;> split <;> omega
  have hnz : count * 4 + (if keep ∨ count = 0 then 2 else 0) + (if back then 1 else 0) ≠ 0 := by
    split <;> split <;> omega
  refine ⟨?_, ?_, ?_, ?_, ?_, ?_⟩
  · unfold mkSh; split <;> split <;> omega
  · unfold shDvalue mkSh; split <;> split <;> omega
  · unfold shBdayP; rw [hl]; exact decide_eq_true hnz
  · unfold shNegP; rw [hl]; cases back <;> cases keep <;> by_cases h : count = 0 <;> simp [h] <;> omega
  · unfold shInvP; rw [hl]; cases back <;> cases keep <;> by_cases h : count = 0 <;> simp [h] <;> omega
  · have ha : shAbsval (mkSh n count back keep) = count := by
      unfold shAbsval; rw [hl]; split <;> split <;> omega
    have hn : shNegP (mkSh n count back keep) = back := by
      unfold shNegP; rw [hl]; cases back <;> cases keep <;> by_cases h : count = 0 <;> simp [h] <;> omega
    unfold shBvalue; rw [ha, hn]

/-- business-day move of one real date, then `reassess` -/
theorem bd_core (cy m d : Nat) (sh : Int) (count : Nat) (back keep : Bool) (hc : count ≤ 366)
    (hneg : shNegP sh = back) (hinv : shInvP sh = (keep || decide (count = 0)))
    (hb : shBvalue sh = if back then -(count : Int) else count)
    (hcy : 1902 ≤ cy ∧ cy ≤ 2098) (h1 : 1 ≤ m) (h2 : m ≤ 12) (hd1 : 1 ≤ d) (hd : d ≤ monthLen cy m)
    (hlim : shiftB (days cy m d) count back keep ≤ dHI) :
    ∃ ny nm nd : Nat, 1 ≤ nm ∧ nm ≤ 12 ∧ 1 ≤ nd ∧ nd ≤ monthLen ny nm ∧
      days ny nm nd = shiftB (days cy m d) count back keep ∧
      reassess (reassessFuel (bdayMove (ymdGetWday cy m d) d sh)) cy m (bdayMove (ymdGetWday cy m d) d sh)
        = ((ny : Int), (nm : Int), (nd : Int)) := by
  have hml := monthLen_pos cy m h1 h2
  rw [wday_eq cy m d (by omega) (by omega) h1 h2 (by omega),
    bdayMove_spec (days cy m d) d count back keep sh hc hneg hinv hb]
  have hr := days_range cy m d hcy.1 hcy.2 h1 h2 hd1 hd
  have hbd := shiftB_bound (days cy m d) count back keep hc
  have hdd := days_d cy m d
  have hok : OkYM cy m := by unfold OkYM; omega
  obtain ⟨ny, nm, nd, e, v1, v2, v3, v4, v5, _, _⟩ :=
    reassess_spec (reassessFuel ((d : Int) + (shiftB (days cy m d) count back keep - days cy m d))) cy m
      ((d : Int) + (shiftB (days cy m d) count back keep - days cy m d)) hok
      (Or.inr (fuel_ok _)) (by rw [dLO_eq]; omega) (by omega)
  exact ⟨ny, nm, nd, v1, v2, v3, v4, by omega, e⟩

/-- the year the candidates of set `j` belong to -/
def cyOf (y j : Nat) : Nat := if j = 1 then y - 1 else if j = 2 then y + 1 else y

theorem cyOf_cast (y j : Nat) (hy : 1 ≤ y) :
    (y : Int) - (if j = 1 then 1 else 0) + (if j = 2 then 1 else 0) = ((cyOf y j : Nat) : Int) := by
  unfold cyOf
  by_cases h1 : j = 1
  · subst h1; simp; omega
  · by_cases h2 : j = 2
    · subst h2; simp
    · simp [h1, h2]

theorem bdF_spec (y j c : Nat) (sh : Int) (count : Nat) (back keep : Bool) (hc : count ≤ 366)
    (hneg : shNegP sh = back) (hinv : shInvP sh = (keep || decide (count = 0)))
    (hb : shBvalue sh = if back then -(count : Int) else count)
    (hcy : 1902 ≤ cyOf y j ∧ cyOf y j ≤ 2098) (hy : 1 ≤ y) (hv : VCand (cyOf y j) c)
    (hlim : shiftB (days (cyOf y j) (unpackCand c).m (unpackCand c).d) count back keep ≤ dHI) :
    ∃ ny nm nd : Nat, 1 ≤ nm ∧ nm ≤ 12 ∧ 1 ≤ nd ∧ nd ≤ monthLen ny nm ∧
      days ny nm nd = shiftB (days (cyOf y j) (unpackCand c).m (unpackCand c).d) count back keep ∧
      bdF y sh j c = (bucket y ny, packCand nm nd) := by
  obtain ⟨h1, h2, h3, h4⟩ := hv
  obtain ⟨ny, nm, nd, v1, v2, v3, v4, v5, e⟩ :=
    bd_core (cyOf y j) _ _ sh count back keep hc hneg hinv hb hcy h1 h2 h3 h4 hlim
  refine ⟨ny, nm, nd, v1, v2, v3, v4, v5, ?_⟩
  unfold bdF
  simp only [cyOf_cast y j hy, Int.toNat_natCast, e]
end Echse.RuleExt
