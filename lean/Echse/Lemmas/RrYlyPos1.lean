/-
  BYSETPOS for the yearly filler, part 1 (specification side): instances 28 q periods back and forth, `SetposOk` is
  the same for the instant 28 q periods back (`yly_setpos_back`); a year's list is ascending in the specification's
  order and holds exactly the instances of the year, so `SetposOk` for its entry `i` is `PosSel` on `i` (`yE_setpos`).
-/
import Echse.Lemmas.RrYlyRfc
import Echse.Lemmas.RrMlyPos2
namespace Echse.Lemmas.RrYlyRfc
open Echse.Rrule Echse.Instant Echse.Spec.RrOk Echse.Lemmas.RrCandOk Echse.Spec.Rfc Echse.Lemmas.RrRfc
open Echse.Lemmas.RrCandRfc Echse.Lemmas.RrYlyOk Echse.Spec.Cal Echse.Spec.RuleExt Echse.Lemmas.RrMlyRfc
open Echse.Lemmas.RrOkBase

theorem instance_yly (r : Rule) (p y : Inst) (hf : r.freq = 1) : Instance r p y ↔ YearlyInst r p y := by
  unfold Instance; rw [hf]; exact Iff.rfl

theorem period_yly (r : Rule) (y : Inst) (hf : r.freq = 1) : periodOf r.freq y = (y.y : Int) := by
  rw [hf]; rfl

/-- an instance `28 q INTERVAL` years earlier (`28 q` periods back) -/
theorem yly_back (r : Rule) (p y : Inst) (hy : 1901 ≤ p.y) (hx : YearlyInst r p y) (hx2 : y.y ≤ 2099)
    (k s q : Nat) (hk : y.y = p.y + k * r.inter) (hq : k = s + 28 * q) :
    YearlyInst r p (back28 y (q * r.inter)) ∧ (back28 y (q * r.inter)).y = p.y + s * r.inter ∧
      28 * (q * r.inter) ≤ y.y := by
  obtain ⟨a1, _, a3, a4⟩ := (ylyInst_iff r p y).1 hx
  have e1 : k * r.inter = s * r.inter + 28 * (q * r.inter) := by
    rw [hq, Nat.add_mul, Nat.mul_assoc]
  generalize q * r.inter = N at *
  generalize hS : s * r.inter = S at *
  have hN : 28 * N ≤ y.y := by omega
  have hback := sh28_back28 y N hN
  generalize hx' : back28 y N = x' at hback ⊢
  have fy : x'.y = y.y - 28 * N := by rw [← hx']; rfl
  have h1 : 1901 ≤ x'.y := by omega
  have h2 : x'.y + 28 * N ≤ 2099 := by omega
  refine ⟨(ylyInst_iff r p x').2 ⟨?_, ⟨s, by rw [hS]; omega⟩, ?_, ?_⟩, by omega, hN⟩
  · rw [← hback] at a1; exact (sameKind_sh28 p x' N h1 h2).1 a1
  · rw [← hback] at a3; exact (ylyDate_sh28 r p x' N h1 h2).1 a3
  · rw [← hback] at a4; exact a4

/-- … and later -/
theorem yly_fwd (r : Rule) (p y : Inst) (hx : YearlyInst r p y) (h1 : 1901 ≤ y.y) (s q : Nat)
    (hk : y.y = p.y + s * r.inter) (h2 : y.y + 28 * (q * r.inter) ≤ 2099) :
    YearlyInst r p (sh28 y (q * r.inter)) ∧ (sh28 y (q * r.inter)).y = p.y + (s + 28 * q) * r.inter := by
  obtain ⟨a1, _, a3, a4⟩ := (ylyInst_iff r p y).1 hx
  have e1 : (s + 28 * q) * r.inter = s * r.inter + 28 * (q * r.inter) := by
    rw [Nat.add_mul, Nat.mul_assoc]
  rw [e1]
  generalize q * r.inter = N at *
  have hidx : (sh28 y N).y = p.y + (s * r.inter + 28 * N) := by
    show y.y + 28 * N = _; omega
  exact ⟨(ylyInst_iff r p _).2 ⟨(sameKind_sh28 p y N h1 h2).2 a1, ⟨s + 28 * q, by rw [hidx, e1]⟩,
    (ylyDate_sh28 r p y N h1 h2).2 a3, a4⟩, hidx⟩

/-- BYSETPOS is the same for the instant `28 q` periods back -/
theorem yly_setpos_back (r : Rule) (p x : Inst) (hy : 1901 ≤ p.y) (hf : r.freq = 1)
    (hx : YearlyInst r p x) (hx2 : x.y ≤ 2099) (k s q : Nat) (hk : x.y = p.y + k * r.inter)
    (hq : k = s + 28 * q) (hsp : SetposOk r p x) : SetposOk r p (back28 x (q * r.inter)) := by
  obtain ⟨x1, x2, x3⟩ := yly_back r p x hy hx hx2 k s q hk hq
  generalize hN : q * r.inter = N at *
  have x2' : x.y - 28 * N = p.y + s * r.inter := x2
  have hS : 0 ≤ s * r.inter := Nat.zero_le _
  have hxb : sh28 (back28 x N) N = x := sh28_back28 x N x3
  have habs : absOf x = absOf (back28 x N) + 10227 * N * 86400 := by
    rw [← absOf_sh28 (back28 x N) N (by show 1901 ≤ x.y - 28 * N; omega)
      (by show x.y - 28 * N + 28 * N ≤ 2099; omega), hxb]
  refine setpos_transfer r p x (back28 x N) (fun y => back28 y N) (fun y => sh28 y N) (10227 * N * 86400)
    ?_ ?_ (by omega) hsp
  · intro y hy1 hy2
    rw [instance_yly r p y hf] at hy1
    rw [period_yly r y hf, period_yly r x hf] at hy2
    have e1 : y.y = x.y := by omega
    obtain ⟨y1, y2, y3⟩ := yly_back r p y hy hy1 (by omega) k s q (by rw [e1]; exact hk) hq
    rw [hN] at y1 y2 y3
    have hyb : sh28 (back28 y N) N = y := sh28_back28 y N y3
    refine ⟨(instance_yly r p _ hf).2 y1, ?_, hyb, ?_⟩
    · rw [period_yly r _ hf, period_yly r _ hf]
      show ((y.y - 28 * N : Nat) : Int) = ((x.y - 28 * N : Nat) : Int)
      rw [e1]
    · have := absOf_sh28 (back28 y N) N (by show 1901 ≤ y.y - 28 * N; omega)
        (by show y.y - 28 * N + 28 * N ≤ 2099; omega)
      rw [hyb] at this; omega
  · intro y' hy1 hy2
    rw [instance_yly r p y' hf] at hy1
    rw [period_yly r y' hf, period_yly r _ hf] at hy2
    have e1 : y'.y = x.y - 28 * N := by
      have : ((back28 x N).y : Int) = ((x.y - 28 * N : Nat) : Int) := rfl
      omega
    have hfw := yly_fwd r p y' hy1 (by omega) s q (by omega) (by rw [hN]; omega)
    rw [hN] at hfw
    refine ⟨(instance_yly r p _ hf).2 hfw.1, ?_, back28_sh28 y' N, ?_⟩
    · rw [period_yly r _ hf, period_yly r _ hf]
      show ((y'.y + 28 * N : Nat) : Int) = (x.y : Int)
      omega
    · exact absOf_sh28 y' N (by omega) (by omega)

theorem yE_abs_sorted (r : Rule) (p : Inst) (nti : Nat) (hr : WfRule r) (hp : WfInst p)
    (hsup : YlySup r) (hy : 1901 ≤ p.y) (y : Nat) (hq : yReach r p y) (hy2 : y ≤ 2099) :
    (yE r p nti y).Pairwise (fun a b => absOf a < absOf b) := by
  have hsorted := (yly_loopHyp r p nti hr hp hsup hy).sorted y hq hy2
  refine List.Pairwise.imp_of_mem ?_ hsorted
  intro a b ha hb hab
  have ia := yE_inst r p nti hr hp hsup hy y hq hy2 a ha
  have ib := yE_inst r p nti hr hp hsup hy y hq hy2 b hb
  have fa := yE_year r p nti hr hp hsup hy y hq hy2 a ha
  have fb := yE_year r p nti hr hp hsup hy y hq hy2 b hb
  exact abs_lt_of_ltP hp ia.1 ib.1 (by rw [fa]; exact hy2) (by rw [fb]; exact hy2) hab

/-- the year's list holds exactly the instances of the year's period -/
theorem yE_hchar (r : Rule) (p : Inst) (nti : Nat) (hr : WfRule r) (hp : WfInst p)
    (hsup : YlySup r) (hy : 1901 ≤ p.y) (hf : r.freq = 1) (y : Nat) (hq : yReach r p y) (hy2 : y ≤ 2099)
    (x : Inst) (hx : x ∈ yE r p nti y) (u : Inst) :
    u ∈ yE r p nti y ↔ Instance r p u ∧ periodOf r.freq u = periodOf r.freq x := by
  have fx := yE_year r p nti hr hp hsup hy y hq hy2 x hx
  rw [instance_yly r p u hf, period_yly r u hf, period_yly r x hf]
  constructor
  · intro hu
    have fu := yE_year r p nti hr hp hsup hy y hq hy2 u hu
    exact ⟨yE_inst r p nti hr hp hsup hy y hq hy2 u hu, by rw [fu, fx]⟩
  · rintro ⟨hi, hpe⟩
    obtain ⟨b1, _, b4, b5⟩ := (ylyInst_iff r p u).1 hi
    obtain ⟨t1, t2, t3⟩ := enum_of_exp hp (kindOk_of_same b1) b5
    obtain ⟨j, hj⟩ := hq
    have : 0 ≤ j * r.inter := Nat.zero_le _
    exact (mem_yE_iff r p nti hr hp hsup hy y ⟨by omega, hy2⟩ u).2
      ⟨by omega, b1.1, b1.2.1, b1.2.2.1, b1.2.2.2.1, b4, b1.2.2.2.2.1, t1, t2, t3⟩

/-- BYSETPOS for entry `i` of a year's list -/
theorem yE_setpos (r : Rule) (p : Inst) (nti : Nat) (hr : WfRule r) (hp : WfInst p)
    (hsup : YlySup r) (hy : 1901 ≤ p.y) (hf : r.freq = 1) (hpos : r.pos ≠ []) (y : Nat) (hq : yReach r p y)
    (hy2 : y ≤ 2099) (x : Inst) (i : Nat) (hi : (yE r p nti y)[i]? = some x) :
    SetposOk r p x ↔ PosSel r.pos i (yE r p nti y).length := by
  have hx : x ∈ yE r p nti y := List.mem_of_getElem? hi
  have hil : i < (yE r p nti y).length := (List.getElem?_eq_some_iff.1 hi).1
  rw [setpos_iff r p x hpos (yE r p nti y) (yE_abs_sorted r p nti hr hp hsup hy y hq hy2) i hi
    (yE_hchar r p nti hr hp hsup hy hf y hq hy2 x hx), posSel_iff_match r.pos i _ hil]

end Echse.Lemmas.RrYlyRfc
