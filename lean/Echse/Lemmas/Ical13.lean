/-
  C10 lemmas, part 13: `chop_more` when the rest of the buffer is a piece of one logical line (it goes to
  the stash), in terms of the automaton.
-/
import Echse.Lemmas.Ical12
namespace Echse.Ical

theorem rel_unmarked (p : Parser) (A : Abs) (h : Rel p A) (hp : A.sc.pend = false) : p.eolp = false := by
  cases hx : p.eolp with
  | false => rfl
  | true => have := h.mark.1 hx; rw [hp] at this; cases this

/-- `esccpy` into what is left of the stash: all of it or nothing -/
theorem esccpy_cases (six : Nat) (src : List Byte) (h : six < stashSize) :
    (six + (unesc src).length < stashSize ∧ (esccpy (stashSize - six) src).1 = some (unesc src)) ∨
    (stashSize ≤ six + (unesc src).length ∧ (esccpy (stashSize - six) src).1 = none) := by
  by_cases hf : six + (unesc src).length < stashSize
  · left; refine ⟨hf, ?_⟩
    rw [esccpy_eq _ _ (by omega)]
  · right; refine ⟨by omega, ?_⟩
    rw [esccpy_none _ _ (by omega) (by omega)]

/-- the rest of the buffer copied: skip and stash follow the unfolded line -/
theorem copyRest_spec (p : Parser) (A : Abs) (h : Rel p A) :
    ((A.cur ++ unesc (rest p)).length < stashSize →
      (copyRest p).skip = false ∧ (copyRest p).stash = A.cur ++ unesc (rest p)) ∧
    (stashSize ≤ (A.cur ++ unesc (rest p)).length → (copyRest p).skip = true ∧ (copyRest p).stash = []) := by
  rw [List.length_append]
  by_cases hfit : A.cur.length < stashSize
  · obtain ⟨hk, hs⟩ := h.fits hfit
    unfold copyRest
    rw [if_neg (by rw [hk]; simp)]
    have hc := esccpy_cases p.stash.length (rest p) (by rw [hs]; exact hfit)
    unfold rest at hc ⊢
    rw [hs] at hc ⊢
    rcases hc with ⟨h1, h2⟩ | ⟨h1, h2⟩
    · rw [h2]
      exact ⟨fun _ => ⟨hk, rfl⟩, fun hx => by omega⟩
    · rw [h2]
      exact ⟨fun hx => by omega, fun _ => ⟨rfl, rfl⟩⟩
  · have hover : stashSize ≤ A.cur.length := by omega
    obtain ⟨hk, hs⟩ := h.over hover
    unfold copyRest
    rw [if_pos hk]
    exact ⟨fun hx => by omega, fun _ => ⟨hk, hs⟩⟩

/-- a complete line copied: skip and stash follow the unfolded line (the stash is cleared at `proc:`) -/
theorem takeLine_spec (p : Parser) (A : Abs) (h : Rel p A) (e : Nat) :
    ((A.cur ++ unesc ((rest p).take e)).length < stashSize →
      (takeLine p e).skip = false ∧ (takeLine p e).stash = A.cur ++ unesc ((rest p).take e)) ∧
    (stashSize ≤ (A.cur ++ unesc ((rest p).take e)).length → (takeLine p e).skip = true) := by
  rw [List.length_append]
  by_cases hfit : A.cur.length < stashSize
  · obtain ⟨hk, hs⟩ := h.fits hfit
    unfold takeLine
    rw [if_neg (by rw [hk]; simp)]
    have hc := esccpy_cases p.stash.length ((rest p).take e) (by rw [hs]; exact hfit)
    unfold rest at hc ⊢
    rw [hs] at hc ⊢
    rcases hc with ⟨h1, h2⟩ | ⟨h1, h2⟩
    · rw [h2]
      exact ⟨fun _ => ⟨hk, rfl⟩, fun hx => by omega⟩
    · rw [h2]
      exact ⟨fun hx => by omega, fun _ => rfl⟩
  · have hover : stashSize ≤ A.cur.length := by omega
    obtain ⟨hk, hs⟩ := h.over hover
    unfold takeLine
    rw [if_pos hk]
    exact ⟨fun hx => by omega, fun _ => hk⟩

/-- what is known of a parser that reported `need more data`, and of its automaton state: the buffer is used
up (`BI = p->bsz` in the stash branch), so the pre-examination of a marked stash reads 0 behind it -/
structure Post (p : Parser) (A : Abs) : Prop where
  rel : Rel p A
  done : rest p = []
  inv : Inv A

/-- the rest of the buffer is a piece of one line: it is stashed, or found not to fit -/
theorem stash_spec (p : Parser) (A : Abs) (h : Pre p A) (hp : A.sc.pend = false) (b : Bool)
    (hl : lineEnd (rest p) = some b) :
    Post (stashRest p b).1 (runA A (rest p)) ∧ (runA A (rest p)).ins = A.ins := by
  have hrun := seg_runA _ (rest p) A b (Nat.le_refl _) hl h.nobsl hp
  have hsc := seg_runSc _ (rest p) A.sc b (Nat.le_refl _) hl hp
  have hcp := copyRest_spec p A h.rel
  have hinv := runA_inv A (rest p) h.inv
  rw [hrun] at hinv ⊢
  refine ⟨⟨⟨hcp.1, hcp.2, ?_, ?_, ?_⟩, ?_, hinv⟩, rfl⟩
  · show (copyRest p).comp = A.comp
    rw [copyRest_comp]; exact h.rel.comp
  · show (copyRest p).log = A.log
    rw [copyRest_log]; exact h.rel.log
  · show ((copyRest p).eolp || b) = true ↔ (runSc A.sc (rest p)).pend = true
    rw [hsc.1, copyRest_eolp, rel_unmarked p A h.rel hp]; simp
  · show List.drop (copyRest p).buf.length (copyRest p).buf = []
    exact List.drop_length

end Echse.Ical
