/-
  C01, sub-daily fillers: the filter masks of `mkSubCtx` (`hourMask`, `min64Mask`, `monMask`, `wdMaskOf`, `domMasks`)
  read as the RFC 5545 limits of `Echse.Spec.Rfc` (`hourLim`, `minLim`, `secLim`, `monthOk`, `wdayOk`, `mdayOk`).
-/
import Echse.Lemmas.RrSlyOk
import Echse.Spec.Rfc5545
import Echse.Lemmas.Bits
namespace Echse.Lemmas.RrSubRfc
open Echse.Rrule Echse.Instant Echse.Spec.RrOk Echse.Lemmas.RrSubOk Echse.Spec.Rfc

/-! ### bits -/

theorem bit_eq (mask k : Nat) : bit mask k = mask.testBit k := by
  unfold bit
  rw [Nat.testBit_eq_decide_div_mod_eq, Nat.shiftRight_eq_div_pow]

theorem and_pow_ne (x k : Nat) : ((x &&& 2 ^ k) ≠ 0) ↔ x.testBit k = true := by
  constructor
  · intro h
    cases hb : x.testBit k with
    | true => rfl
    | false =>
      exfalso; apply h
      apply Nat.eq_of_testBit_eq
      intro i
      rw [Nat.testBit_and, Nat.testBit_two_pow, Nat.zero_testBit]
      by_cases e : k = i
      · subst e; simp [hb]
      · simp [e]
  · intro h h0
    have := congrArg (fun z => z.testBit k) h0
    simp only [Nat.testBit_and, Nat.testBit_two_pow, Nat.zero_testBit, h] at this
    simp at this

theorem and_shl1 (x k : Nat) (hk : k < 32) : ((x &&& shl1 k) ≠ 0) ↔ x.testBit k = true := by
  unfold shl1
  rw [Nat.mod_eq_of_lt hk, Nat.one_shiftLeft]
  exact and_pow_ne x k

theorem and_shl1q (x k : Nat) (hk : k < 64) : ((x &&& shl1q k) ≠ 0) ↔ x.testBit k = true := by
  unfold shl1q
  rw [Nat.mod_eq_of_lt hk, Nat.one_shiftLeft]
  exact and_pow_ne x k

/-- bits of a mask built by or-ing `f t` over a list -/
theorem fold_or_bit {α : Type} (f : α → Nat) (k : Nat) : ∀ (l : List α) (init : Nat),
    (l.foldl (fun m t => m ||| f t) init).testBit k = (init.testBit k || l.any fun t => (f t).testBit k) := by
  intro l
  induction l with
  | nil => intro init; simp
  | cons a t ih =>
    intro init
    rw [List.foldl_cons, ih, Nat.testBit_or, List.any_cons, Bool.or_assoc]

theorem fold_or_zero {α : Type} (f : α → Nat) (l : List α) :
    l.foldl (fun m t => m ||| f t) 0 = 0 ↔ ∀ t ∈ l, f t = 0 := by
  constructor
  · intro h t ht
    apply Nat.eq_of_testBit_eq
    intro i
    have := congrArg (fun z => z.testBit i) h
    simp only [fold_or_bit, Nat.zero_testBit, Bool.false_or] at this
    rw [Nat.zero_testBit]
    cases hb : (f t).testBit i with
    | false => rfl
    | true =>
      have : (l.any fun t => (f t).testBit i) = true := List.any_eq_true.mpr ⟨t, ht, hb⟩
      simp_all
  · intro h
    apply Nat.eq_of_testBit_eq
    intro i
    rw [fold_or_bit, Nat.zero_testBit, Bool.false_or]
    apply List.any_eq_false.mpr
    intro t ht
    rw [h t ht, Nat.zero_testBit]; simp

/-- a mask of one bit per listed value -/
theorem fold_sel_bit (f : Nat → Nat) (l : List Nat) (k : Nat) (hf : ∀ t ∈ l, (f t).testBit k = decide (t = k)) :
    (l.foldl (fun m t => m ||| f t) 0).testBit k = true ↔ k ∈ l := by
  rw [fold_or_bit, Nat.zero_testBit, Bool.false_or, List.any_eq_true]
  constructor
  · rintro ⟨t, ht, hb⟩
    rw [hf t ht] at hb
    have : t = k := by simpa using hb
    exact this ▸ ht
  · intro hk
    exact ⟨k, hk, by rw [hf k hk]; simp⟩

theorem fold_sel_zero (f : Nat → Nat) (l : List Nat) (hf : ∀ t ∈ l, (f t).testBit t = true) :
    l.foldl (fun m t => m ||| f t) 0 = 0 ↔ l = [] := by
  rw [fold_or_zero]
  constructor
  · intro h
    cases l with
    | nil => rfl
    | cons a t =>
      have h1 := hf a (by simp)
      rw [h a (by simp), Nat.zero_testBit] at h1
      cases h1
  · intro h t ht; rw [h] at ht; cases ht

theorem shl1_bit (t k : Nat) (ht : t < 32) : (shl1 t).testBit k = decide (t = k) := by
  unfold shl1; rw [Nat.mod_eq_of_lt ht, Nat.one_shiftLeft, Nat.testBit_two_pow]

theorem shl1q_bit (t k : Nat) (ht : t < 64) : (shl1q t).testBit k = decide (t = k) := by
  unfold shl1q; rw [Nat.mod_eq_of_lt ht, Nat.one_shiftLeft, Nat.testBit_two_pow]

theorem ones64_bit (k : Nat) (hk : k < 64) : (2 ^ 64 - 1 : Nat).testBit k = true := by
  rw [Nat.testBit_two_pow_sub_one]; simpa using hk

/-- BYHOUR -/
theorem hourMask_ok (H : List Nat) (h : Nat) (hH : ∀ t ∈ H, t < 24) (hh : h < 24) :
    ((hourMask H &&& shl1 h) ≠ 0) ↔ (H = [] ∨ h ∈ H) := by
  rw [and_shl1 _ h (by omega)]
  unfold hourMask
  have hz := fold_sel_zero shl1 H (fun t ht => by rw [shl1_bit t t (by have := hH t ht; omega)]; simp)
  have hb := fold_sel_bit shl1 H h (fun t ht => shl1_bit t h (by have := hH t ht; omega))
  simp only []
  by_cases he : H = []
  · rw [if_pos (hz.mpr he)]
    simp [he, ones64_bit h (by omega)]
  · rw [if_neg (fun e => he (hz.mp e)), hb]
    simp [he]

/-- BYMINUTE, BYSECOND -/
theorem min64Mask_ok (M : List Nat) (v : Nat) (hM : ∀ t ∈ M, t < 60) (hv : v < 60) :
    ((min64Mask M &&& shl1q v) ≠ 0) ↔ (M = [] ∨ v ∈ M) := by
  rw [and_shl1q _ v (by omega)]
  unfold min64Mask
  have hz := fold_sel_zero shl1q M (fun t ht => by rw [shl1q_bit t t (by have := hM t ht; omega)]; simp)
  have hb := fold_sel_bit shl1q M v (fun t ht => shl1q_bit t v (by have := hM t ht; omega))
  simp only []
  by_cases he : M = []
  · rw [if_pos (hz.mpr he)]
    simp [he, ones64_bit v (by omega)]
  · rw [if_neg (fun e => he (hz.mp e)), hb]
    simp [he]

theorem monBit (t k : Nat) (ht : t < 32) : ((1 <<< t) % u32).testBit k = decide (t = k) := by
  have : u32 = 2 ^ 32 := by decide
  rw [this, Nat.testBit_mod_two_pow, Nat.one_shiftLeft, Nat.testBit_two_pow]
  by_cases e : t = k
  · subst e; simp [ht]
  · simp [e]

/-- BYMONTH -/
theorem monMask_ok (mon : List Nat) (m : Nat) (hmon : ∀ t ∈ mon, 1 ≤ t ∧ t ≤ 12) (h1 : 1 ≤ m) (h2 : m ≤ 12) :
    bit (monMask mon) m = true ↔ (mon = [] ∨ m ∈ mon) := by
  rw [bit_eq]
  unfold monMask
  have hz := fold_sel_zero (fun t => (1 <<< t) % u32) mon
    (fun t ht => by rw [monBit t t (by have := hmon t ht; omega)]; simp)
  have hb := fold_sel_bit (fun t => (1 <<< t) % u32) mon m (fun t ht => monBit t m (by have := hmon t ht; omega))
  simp only []
  by_cases he : mon = []
  · rw [if_pos (hz.mpr he)]
    have : (0b1111111111110 : Nat) = 2 ^ 13 - 1 - 1 := by decide
    have hm : m = 1 ∨ m = 2 ∨ m = 3 ∨ m = 4 ∨ m = 5 ∨ m = 6 ∨ m = 7 ∨ m = 8 ∨ m = 9 ∨ m = 10 ∨ m = 11 ∨ m = 12 := by
      omega
    simp only [he, true_or, iff_true]
    rcases hm with e|e|e|e|e|e|e|e|e|e|e|e <;> subst e <;> decide
  · rw [if_neg (fun e => he (hz.mp e)), hb]
    simp [he]

/-! ### BYDAY -/

def wdBit (t : Int) : Nat := if 1 ≤ t ∧ t ≤ 7 then 1 <<< t.toNat else 1

theorem wdMaskOf_eq (dow : List Int) : wdMaskOf dow = dow.foldl (fun m t => m ||| wdBit t) 0 % 256 := by
  unfold wdMaskOf
  congr 2
  funext m t
  unfold wdBit
  split <;> rfl

theorem wdMaskOf_bit (r : Rule) (k : Nat) (hk : 1 ≤ k) :
    (wdMaskOf r.dow).testBit k = true ↔ (k < 8 ∧ (k : Int) ∈ plainDays r) := by
  rw [wdMaskOf_eq]
  have e : (256 : Nat) = 2 ^ 8 := by decide
  rw [e, Nat.testBit_mod_two_pow, fold_or_bit, Nat.zero_testBit, Bool.false_or, Bool.and_eq_true,
    List.any_eq_true, decide_eq_true_eq]
  unfold plainDays
  constructor
  · rintro ⟨h8, t, ht, hb⟩
    refine ⟨h8, ?_⟩
    unfold wdBit at hb
    by_cases hp : 1 ≤ t ∧ t ≤ 7
    · rw [if_pos hp, Nat.one_shiftLeft, Nat.testBit_two_pow] at hb
      have e2 : t.toNat = k := by simpa using hb
      have e3 : (k : Int) = t := by omega
      rw [e3]
      exact List.mem_filter.mpr ⟨ht, by simpa using hp⟩
    · rw [if_neg hp, Nat.testBit_one_eq_true_iff_self_eq_zero] at hb
      omega
  · rintro ⟨h8, hm⟩
    obtain ⟨hm1, hm2⟩ := List.mem_filter.mp hm
    have hp : 1 ≤ (k : Int) ∧ (k : Int) ≤ 7 := by simpa using hm2
    refine ⟨h8, (k : Int), hm1, ?_⟩
    unfold wdBit
    rw [if_pos hp, Nat.one_shiftLeft, Nat.testBit_two_pow]
    simp

/-- the weekday mask of the sub-daily fillers -/
def subWdMask (r : Rule) : Nat :=
  if wdMaskOf r.dow / 2 = 0 then wdMaskOf r.dow ||| 0b11111110 else wdMaskOf r.dow

theorem subWdMask_ok (r : Rule) (w : Nat) (h1 : 1 ≤ w) (h2 : w ≤ 7) :
    bit (subWdMask r) w = true ↔ (plainDays r = [] ∨ (w : Int) ∈ plainDays r) := by
  rw [bit_eq]
  unfold subWdMask
  have hdiv : wdMaskOf r.dow / 2 = wdMaskOf r.dow >>> 1 := by rw [Nat.shiftRight_eq_div_pow]
  rw [hdiv]
  by_cases hz : wdMaskOf r.dow >>> 1 = 0
  · rw [if_pos hz]
    have hnone := (Echse.Bitint.shr_eq_zero_iff _ _).mp hz
    have hpl : plainDays r = [] := by
      cases hpd : plainDays r with
      | nil => rfl
      | cons a t =>
        exfalso
        have ha : a ∈ plainDays r := by rw [hpd]; simp
        have ha2 := (List.mem_filter.mp ha).2
        have hp : 1 ≤ a ∧ a ≤ 7 := by simpa using ha2
        have hk : ((a.toNat : Nat) : Int) = a := by omega
        have := (wdMaskOf_bit r a.toNat (by omega)).mpr ⟨by omega, by rw [hk]; exact ha⟩
        rw [hnone a.toNat (by omega)] at this
        cases this
    rw [Nat.testBit_or]
    have hw : (0b11111110 : Nat).testBit w = true := by
      have : w = 1 ∨ w = 2 ∨ w = 3 ∨ w = 4 ∨ w = 5 ∨ w = 6 ∨ w = 7 := by omega
      rcases this with e|e|e|e|e|e|e <;> subst e <;> decide
    simp [hw, hpl]
  · rw [if_neg hz, wdMaskOf_bit r w h1]
    have hne : plainDays r ≠ [] := by
      intro he
      apply hz
      apply (Echse.Bitint.shr_eq_zero_iff _ _).mpr
      intro j hj
      cases hb : (wdMaskOf r.dow).testBit j with
      | false => rfl
      | true =>
        have := ((wdMaskOf_bit r j hj).mp hb).2
        rw [he] at this; cases this
    constructor
    · intro h; exact Or.inr h.2
    · intro h
      rcases h with h | h
      · exact absurd h hne
      · exact ⟨by omega, h⟩

/-! ### BYMONTHDAY -/

def domP (t : Int) : Nat := if t > 0 then (1 <<< t.toNat) % u32 else 0
def domN (t : Int) : Nat := if t > 0 then 0 else if t < 0 then (1 <<< (-(t + 1)).toNat) % u32 else 0

theorem domFold_eq : ∀ (dom : List Int) (a b : Nat),
    dom.foldl (fun (pn : Nat × Nat) (t : Int) =>
      if t > 0 then (pn.1 ||| ((1 <<< t.toNat) % u32), pn.2)
      else if t < 0 then (pn.1, pn.2 ||| ((1 <<< (-(t + 1)).toNat) % u32))
      else pn) (a, b) =
    (dom.foldl (fun m t => m ||| domP t) a, dom.foldl (fun m t => m ||| domN t) b) := by
  intro dom
  induction dom with
  | nil => intro a b; rfl
  | cons t l ih =>
    intro a b
    simp only [List.foldl_cons]
    unfold domP domN
    by_cases h1 : t > 0
    · simp only [if_pos h1, Nat.or_zero]; exact ih _ _
    · by_cases h2 : t < 0
      · simp only [if_neg h1, if_pos h2, Nat.or_zero]; exact ih _ _
      · simp only [if_neg h1, if_neg h2, Nat.or_zero]; exact ih _ _

theorem ones32_bit (k : Nat) (hk : k < 32) : (u32 - 1).testBit k = true := by
  have : u32 - 1 = 2 ^ 32 - 1 := by decide
  rw [this, Nat.testBit_two_pow_sub_one]; simpa using hk

/-- BYMONTHDAY: the two masks against the spec's reading, on day `d` of a month of `maxd` days -/
theorem domMasks_ok (dom : List Int) (d maxd : Nat) (hdom : ∀ t ∈ dom, t ≠ 0 ∧ -31 ≤ t ∧ t ≤ 31)
    (hd1 : 1 ≤ d) (hd2 : d ≤ maxd) (hmx : maxd ≤ 31) :
    (¬ (((domMasks dom).1 &&& shl1 d) = 0 ∧ ((domMasks dom).2 &&& shl1 ((maxd + u32 - d) % u32)) = 0)) ↔
    (dom = [] ∨ ∃ n ∈ dom, (0 < n ∧ n = (d : Int)) ∨ (n < 0 ∧ (maxd : Int) + 1 + n = d)) := by
  have e1 : (maxd + u32 - d) % u32 = maxd - d := by simp only [u32]; omega
  rw [e1]
  clear e1
  have hA : ∀ x : Nat, (x &&& shl1 d) = 0 ↔ ¬ x.testBit d = true := by
    intro x; rw [← and_shl1 x d (by omega)]; simp
  have hB : ∀ x : Nat, (x &&& shl1 (maxd - d)) = 0 ↔ ¬ x.testBit (maxd - d) = true := by
    intro x; rw [← and_shl1 x (maxd - d) (by omega)]; simp
  rw [hA, hB]
  unfold domMasks
  rw [domFold_eq]
  simp only []
  have hP : (dom.foldl (fun m t => m ||| domP t) 0).testBit d = true ↔ ∃ n ∈ dom, 0 < n ∧ n = (d : Int) := by
    rw [fold_or_bit, Nat.zero_testBit, Bool.false_or, List.any_eq_true]
    constructor
    · rintro ⟨t, ht, hb⟩
      refine ⟨t, ht, ?_⟩
      unfold domP at hb
      by_cases h1 : t > 0
      · rw [if_pos h1, monBit _ _ (by have := hdom t ht; omega)] at hb
        have : t.toNat = d := by simpa using hb
        omega
      · rw [if_neg h1, Nat.zero_testBit] at hb; cases hb
    · rintro ⟨n, hn, h0, he⟩
      refine ⟨n, hn, ?_⟩
      unfold domP
      rw [if_pos h0, monBit _ _ (by have := hdom n hn; omega)]
      have : n.toNat = d := by omega
      simp [this]
  have hN : (dom.foldl (fun m t => m ||| domN t) 0).testBit (maxd - d) = true ↔
      ∃ n ∈ dom, n < 0 ∧ (maxd : Int) + 1 + n = d := by
    rw [fold_or_bit, Nat.zero_testBit, Bool.false_or, List.any_eq_true]
    constructor
    · rintro ⟨t, ht, hb⟩
      refine ⟨t, ht, ?_⟩
      unfold domN at hb
      by_cases h1 : t > 0
      · rw [if_pos h1, Nat.zero_testBit] at hb; cases hb
      · by_cases h2 : t < 0
        · rw [if_neg h1, if_pos h2, monBit _ _ (by have := hdom t ht; omega)] at hb
          have : (-(t + 1)).toNat = maxd - d := by simpa using hb
          omega
        · rw [if_neg h1, if_neg h2, Nat.zero_testBit] at hb; cases hb
    · rintro ⟨n, hn, h0, he⟩
      refine ⟨n, hn, ?_⟩
      unfold domN
      rw [if_neg (by omega), if_pos h0, monBit _ _ (by have := hdom n hn; omega)]
      have : (-(n + 1)).toNat = maxd - d := by omega
      simp [this]
  by_cases he : dom = []
  · subst he
    simp only [List.foldl_nil, and_self, if_true, true_or, iff_true]
    rw [ones32_bit d (by omega), ones32_bit (maxd - d) (by omega)]
    simp
  · have hnz : ¬ (dom.foldl (fun m t => m ||| domP t) 0 = 0 ∧ dom.foldl (fun m t => m ||| domN t) 0 = 0) := by
      rintro ⟨hp, hn⟩
      cases dom with
      | nil => exact he rfl
      | cons a l =>
        have ha := hdom a (by simp)
        have hp' := (fold_or_zero _ _).mp hp a (by simp)
        have hn' := (fold_or_zero _ _).mp hn a (by simp)
        unfold domP at hp'
        unfold domN at hn'
        by_cases h1 : a > 0
        · rw [if_pos h1] at hp'
          have := monBit a.toNat a.toNat (by omega)
          rw [hp', Nat.zero_testBit] at this
          simp at this
        · rw [if_neg h1, if_pos (by omega)] at hn'
          have := monBit (-(a + 1)).toNat (-(a + 1)).toNat (by omega)
          rw [hn', Nat.zero_testBit] at this
          simp at this
    rw [if_neg hnz]
    simp only []
    rw [hP, hN]
    constructor
    · intro h
      right
      by_cases hp : ∃ n ∈ dom, 0 < n ∧ n = (d : Int)
      · obtain ⟨n, hn, h⟩ := hp; exact ⟨n, hn, Or.inl h⟩
      · by_cases hq : ∃ n ∈ dom, n < 0 ∧ (maxd : Int) + 1 + n = d
        · obtain ⟨n, hn, h⟩ := hq; exact ⟨n, hn, Or.inr h⟩
        · exact absurd ⟨hp, hq⟩ h
    · rintro (h | ⟨n, hn, h | h⟩) ⟨hp, hq⟩
      · exact he h
      · exact hp ⟨n, hn, h⟩
      · exact hq ⟨n, hn, h⟩

end Echse.Lemmas.RrSubRfc
