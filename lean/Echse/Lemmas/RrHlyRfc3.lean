/-
  C01, `fillHly` (FREQ=HOURLY) against RFC 5545, part 3: the search for an hour, the filler past its entry checks,
  what it writes (`fillHly_good`) and that it misses nothing (`fillHly_complete_pick`, BYSETPOS as a hypothesis).
-/
import Echse.Lemmas.RrHlyRfc2
namespace Echse.Lemmas.RrHlyRfc
open Echse.Rrule Echse.Instant Echse.Spec.RrOk Echse.Lemmas.RrSubOk Echse.Spec.Rfc Echse.Spec.Cal Echse.Spec.RuleExt
open Echse.Lemmas.RrHlyOk Echse.Lemmas.RrSubRfc

/-! ### the search for an hour that passes the mask -/

theorem hlyReach_true (c : SubCtx) : ∀ (fuel k0 tmp n : Nat),
    (c.HMask &&& shl1 ((tmp + n * (c.inter % 24)) % 24)) ≠ 0 →
    k0 + n < 24 → n < fuel → tmp < 24 → hlyReach c fuel k0 tmp = some true := by
  intro fuel
  induction fuel with
  | zero => intro k0 tmp n _ _ h; omega
  | succ f ih =>
    intro k0 tmp n hp hk hn htmp
    unfold hlyReach
    by_cases hA : (c.HMask &&& shl1 tmp) ≠ 0
    · rw [if_pos hA]
    · rw [if_neg hA]
      have hn0 : n ≠ 0 := by
        intro h0
        rw [h0, Nat.zero_mul, Nat.add_zero, Nat.mod_eq_of_lt htmp] at hp
        exact hA hp
      rw [if_neg (by omega)]
      apply ih (k0 + 1) _ (n - 1) ?_ (by omega) (by omega) (Nat.mod_lt _ (by omega))
      rw [phase_step tmp (c.inter % 24) n 24 hn0]
      exact hp

/-- `fillHly` past its entry checks -/
theorem fillHly_eq (r : Rule) (p : Inst) (n k : Nat) (hr : WfRule r) (hp : WfInst p) (hcap : capNti r n = some k) :
    fillHly r p n =
      if !posPickAnyP r.pos ((subEnum p r).M.length * (subEnum p r).S.length) then some [] else
      match hlyReach (mkSubCtx r p k) 24 0 (seedT p).H with
      | none => none
      | some false => some []
      | some true =>
        (hlyLoop (mkSubCtx r p k) (subEnum p r).timesMS (hlyFuel p.y) p.y p.m p.d (seedT p).H
          (ymdGetWday p.y p.m p.d) (ymdGetYd p.y p.m p.d) (getNdom p.y p.m) (maxyOf p.y) 0 []).map List.reverse := by
  obtain ⟨hy1, hy2⟩ := hp.year
  obtain ⟨hm1, hm2⟩ := hp.month
  obtain ⟨hd1, hd2⟩ := hp.day
  have hnb := getNdom_bounds p.y p.m hm1 hm2
  unfold fillHly
  rw [hcap]
  simp only []
  rw [if_neg (by simp [hr.scale])]
  have e2 : r.inter % u32 = r.inter := by
    have := hr.inter
    simp only [u32]; omega
  have hs : (if p.H = allDay then 0 else p.H) = (seedT p).H := by
    unfold seedT
    by_cases h : p.H = allDay
    · simp only [if_pos h]
    · simp only [if_neg h]
  rw [hs, if_neg (by omega), if_neg (by rw [e2]; have := hr.inter; omega)]
  rfl

theorem habsOf_seedT (p : Inst) (hp : WfInst p) : habsOf (seedT p) = hcabs p.y p.m p.d (seedT p).H := by
  obtain ⟨_, _, _, _, e1, e2, e3⟩ := seedT_time p hp
  simp only [habsOf, hcabs, dayOf, e1, e2, e3]

/-- the minutes the hourly filler enumerates -/
theorem enum_M (r : Rule) (p : Inst) (hr : WfRule r) (hp : WfInst p) :
    (subEnum p r).M = if r.M = [] then [(seedT p).M] else r.M := by
  have hs := wf_M_lt p hp
  rw [(subEnum_eq r p).1]
  by_cases h : r.M = []
  · rw [if_pos h, h, (seedT_MS p hp).1]
    have : p.M % 256 = p.M := Nat.mod_eq_of_lt (by omega)
    simp [this]
  · rw [if_neg h]
    have : r.M.isEmpty = false := by simpa using h
    rw [this]
    simp only [Bool.false_eq_true, if_false]
    exact map_mod_id r.M hr.mins.2

theorem minExp_iff (r : Rule) (p : Inst) (hr : WfRule r) (hp : WfInst p) (x : Inst) :
    minExp r (seedT p) x ↔ x.M ∈ (subEnum p r).M := by
  rw [enum_M r p hr hp]
  unfold minExp
  by_cases h : r.M = []
  · simp [h]
  · simp [h]

theorem good_inst (r : Rule) (p : Inst) (hr : WfRule r) (hp : WfInst p) (z : Inst)
    (h : HlyGood r p (habsOf (seedT p)) z) : HourlyInst r (seedT p) z := by
  obtain ⟨hv, hms, ⟨l1, l2, l3⟩, ⟨j, hj⟩, ⟨t, ht, e1, e2, _⟩, _⟩ := h
  obtain ⟨t1, _, _, tms, _⟩ := seedT_time p hp
  obtain ⟨a1, a2, a3, a4, aH, aM, aS, _⟩ := hv
  have hne : (seedT p).H ≠ allDay := by simp only [allDay]; omega
  obtain ⟨m1, m2⟩ := (mem_timesMS _ t).mp ht
  refine ⟨⟨a1, a2, a3, a4, by rw [hms, tms], Or.inr ⟨hne, aH, aM, aS⟩⟩, by simp only [allDay]; omega,
    ⟨j, ?_⟩, l1, l2, l3, ?_, ?_⟩
  · rw [if_neg hne, ← Int.natCast_mul]; exact hj
  · rw [if_neg hne, minExp_iff r p hr hp, ← e1]
    exact List.fst_mem_of_mem_zipIdx (x := (t.2.2.1, t.1)) m1
  · rw [if_neg hne, secExp_iff r p hr hp, ← e2]
    exact List.fst_mem_of_mem_zipIdx (x := (t.2.2.2, t.2.1)) m2

/-- what is written: see `HlyGood` -/
theorem fillHly_good (r : Rule) (p : Inst) (n : Nat) (l : List Inst) (hr : WfRule r) (hp : WfInst p)
    (hy : 1901 ≤ p.y) (h : fillHly r p n = some l) : ∀ x ∈ l, HlyGood r p (habsOf (seedT p)) x := by
  cases hcap : capNti r n with
  | none =>
    unfold fillHly at h
    rw [hcap] at h
    cases h
    intro x hx; cases hx
  | some k =>
    rw [fillHly_eq r p n k hr hp hcap] at h
    split at h
    · cases h; intro x hx; cases hx
    split at h
    · cases h
    · cases h; intro x hx; cases hx
    · cases hloop : hlyLoop (mkSubCtx r p k) (subEnum p r).timesMS (hlyFuel p.y) p.y p.m p.d (seedT p).H
          (ymdGetWday p.y p.m p.d) (ymdGetYd p.y p.m p.d) (getNdom p.y p.m) (maxyOf p.y) 0 [] with
      | none => rw [hloop] at h; cases h
      | some acc' =>
        rw [hloop] at h
        simp only [Option.map_some, Option.some.injEq] at h
        subst h
        obtain ⟨t1, _⟩ := seedT_time p hp
        obtain ⟨hm1, hm2⟩ := hp.month
        obtain ⟨hd1, hd2⟩ := hp.day
        have hnb := getNdom_bounds p.y p.m hm1 hm2
        intro x hx
        have := hlyLoop_sound r p k hr hp (habsOf (seedT p)) _ p.y p.m p.d _ _ _ _ 0 [] acc' hy hm1 hm2 hd1 hd2
          t1 (fun _ => ⟨wday_start p.y p.m p.d hy hp.year.2 hm1 hm2 (by omega), rfl, rfl, 0, by
            rw [habsOf_seedT p hp]; simp⟩) hloop x (List.mem_reverse.mp hx)
        rcases this with h0 | hg
        · cases h0
        · exact hg

/-- an instance is a real, timed instant with the seed's sub-second part -/
theorem inst_vt (r : Rule) (ds x : Inst) (h : HourlyInst r ds x) (hy : x.y ≤ 2099) : VT x ∧ x.ms = ds.ms := by
  obtain ⟨⟨a1, a2, a3, a4, a5, a6⟩, hne, _⟩ := h
  rcases a6 with ⟨_, h2, _⟩ | ⟨_, b1, b2, b3⟩
  · exact absurd h2 hne
  · exact ⟨⟨a1, a2, a3, a4, b1, b2, b3, by omega⟩, a5⟩

/-- the entry of an enumerated minute and second, with its positions in range -/
theorem entry_of (e : Enum) (mi s : Nat) (hm : mi ∈ e.M) (hs : s ∈ e.S) :
    ∃ iM iS, (iM, iS, mi, s) ∈ e.timesMS ∧ iM < e.M.length ∧ iS < e.S.length := by
  obtain ⟨iM, h1⟩ := List.mem_iff_getElem?.mp hm
  obtain ⟨iS, h2⟩ := List.mem_iff_getElem?.mp hs
  have l1 : iM < e.M.length := by
    by_cases c : iM < e.M.length
    · exact c
    · rw [List.getElem?_eq_none (by omega)] at h1; cases h1
  have l2 : iS < e.S.length := by
    by_cases c : iS < e.S.length
    · exact c
    · rw [List.getElem?_eq_none (by omega)] at h2; cases h2
  exact ⟨iM, iS, (mem_timesMS e _).mpr
    ⟨List.mem_zipIdx_iff_getElem?.mpr h1, List.mem_zipIdx_iff_getElem?.mpr h2⟩, l1, l2⟩

theorem idx_lt (iM iS a b : Nat) (h1 : iM < a) (h2 : iS < b) : iM * b + iS < a * b := by
  have := Nat.mul_le_mul_right b (Nat.succ_le_of_lt h1)
  rw [Nat.succ_mul] at this
  omega

/-- none missing, with the BYSETPOS test as a hypothesis on the entry of the instance's minute and second -/
theorem fillHly_complete_pick (r : Rule) (p : Inst) (n cap : Nat) (l : List Inst) (hr : WfRule r) (hp : WfInst p)
    (hy : 1901 ≤ p.y) (hcap : capNti r n = some cap) (h : fillHly r p n = some l)
    (x : Inst) (hx : HourlyInst r (seedT p) x)
    (hpk : ∀ t ∈ (subEnum p r).timesMS, t.2.2.1 = x.M → t.2.2.2 = x.S → pickH r p t = true)
    (hge : absOf (seedT p) ≤ absOf x) (hu : ltP r.untl x = false) (hxy : x.y ≤ 2099) :
    x ∈ l ∨ (l.length = cap ∧ ∀ z ∈ l, ltP z x = true) := by
  obtain ⟨hv, hxms⟩ := inst_vt r _ x hx hxy
  obtain ⟨t1, t2, t3, tms, _⟩ := seedT_time p hp
  obtain ⟨hm1, hm2⟩ := hp.month
  obtain ⟨hd1, hd2⟩ := hp.day
  have hnb := getNdom_bounds p.y p.m hm1 hm2
  obtain ⟨_, _, ⟨kk, hk⟩, l1, l2, l3, l4, l5⟩ := hx
  have hne : (seedT p).H ≠ allDay := by simp only [allDay]; omega
  rw [if_neg hne] at l4 l5 hk
  have hxm := (minExp_iff r p hr hp x).mp l4
  have hxs := (secExp_iff r p hr hp x).mp l5
  have hsm := habsOf_seedT p hp
  have hk' : habsOf x = hcabs p.y p.m p.d (seedT p).H + ((kk * r.inter : Nat) : Int) := by
    rw [← hsm, Int.natCast_mul]; exact hk
  have hlt := abs_lt_2100 x hv hxy
  have hxa := absOf_h x hv
  -- the seed lies before 2100
  have hy2 : p.y ≤ 2099 := by
    by_cases c : p.y ≤ 2099
    · exact c
    · exfalso
      have h1 := days_year_mono 2100 p.y (by omega)
      have h2 := days_month_mono p.y 1 p.m (by omega) hm1 hm2
      have h3 := days_d p.y p.m p.d
      simp only [hcabs] at hk'
      omega
  have hxp := ge_seed p x hp hy hy2 hv (by rw [hxms, tms]) hge
  have hci := ctx_inter r p cap hr
  obtain ⟨iM, iS, hent, hiM, hiS⟩ := entry_of (subEnum p r) x.M x.S hxm hxs
  -- some position is picked
  have hany : posPickAnyP r.pos ((subEnum p r).M.length * (subEnum p r).S.length) = true :=
    posAny_of _ (iM * (subEnum p r).S.length + iS) _ (idx_lt _ _ _ _ hiM hiS) (hpk _ hent rfl rfl)
  -- the search for an hour succeeds
  have hreach : hlyReach (mkSubCtx r p cap) 24 0 (seedT p).H = some true := by
    have hv' := hv
    obtain ⟨_, _, _, _, bH, bM, bS, _⟩ := hv'
    have e0 : ((seedT p).H + kk * r.inter) % 24 = x.H := by
      simp only [hcabs, habsOf] at hk'
      generalize kk * r.inter = T at hk'
      omega
    apply hlyReach_true _ 24 0 _ (kk % 24) ?_ (by omega) (by omega) (by omega)
    rw [hci, ← phase_mod, e0]
    exact fun h0 => (t_hour r p cap hr x hv).mp h0 l3
  rw [fillHly_eq r p n cap hr hp hcap, hany, hreach] at h
  simp only [Bool.not_true, Bool.false_eq_true, if_false] at h
  cases hloop : hlyLoop (mkSubCtx r p cap) (subEnum p r).timesMS (hlyFuel p.y) p.y p.m p.d (seedT p).H
      (ymdGetWday p.y p.m p.d) (ymdGetYd p.y p.m p.d) (getNdom p.y p.m) (maxyOf p.y) 0 [] with
  | none => rw [hloop] at h; cases h
  | some acc' =>
    rw [hloop] at h
    simp only [Option.map_some, Option.some.injEq] at h
    subst h
    have := hlyLoop_complete r p cap hr hp x hv (by rw [hxms, tms]) ⟨l1, l2, l3⟩ hu hxp hxy
      ⟨_, hent, rfl, rfl⟩ hpk _ p.y p.m p.d _ _ 0 [] acc' hy hy2 hm1 hm2 hd1 hd2 t1
      (wday_start p.y p.m p.d hy hp.year.2 hm1 hm2 (by omega)) ⟨kk, hk'⟩ rfl (Nat.zero_le _)
      (by intro z hz; cases hz) hloop
    rcases this with h1 | ⟨h1, h2⟩
    · exact Or.inl (List.mem_reverse.mpr h1)
    · exact Or.inr ⟨by rw [List.length_reverse]; exact h1, fun z hz => h2 z (List.mem_reverse.mp hz)⟩

end Echse.Lemmas.RrHlyRfc
