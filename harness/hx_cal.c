/* line-protocol harness: instants (C08), text forms (C18), scales (C15), zones (C07).
 * linked against the library objects compiled from the scratch copy of /repo/src. */
#include <stdio.h>
#include <stdlib.h>
#include <string.h>
#include <stdint.h>
#include <inttypes.h>
#include <time.h>
#include "instant.h"
#include "dt-strpf.h"
#include "scale.h"
#include "tzob.h"

typedef double ev_tstamp;
#define UNLIKELY(x) __builtin_expect(!!(x), 0)
#define LIKELY(x) __builtin_expect(!!(x), 1)
/* echsd.c's static instant_to_tstamp, cut out of the working tree's echsd.c by the check */
#include "x_instant_to_tstamp.c"

static echs_instant_t rdi(const char *s)
{
	echs_instant_t i;
	i.u = strtoull(s, NULL, 16);
	return i;
}

int main(void)
{
	static char line[65536];
	while (fgets(line, sizeof(line), stdin)) {
		char *a[16];
		int n = 0;
		line[strcspn(line, "\r\n")] = 0;
		/* split on single spaces, at most 16 fields; the last one takes the rest */
		for (char *p = line; n < 16;) {
			a[n++] = p;
			if (n == 16) break;
			char *q = strchr(p, ' ');
			if (!q) break;
			*q = 0; p = q + 1;
		}
		const char *op = a[0];
		if (!strcmp(op, "i.fixup") && n == 2) {
			printf("%016" PRIx64 "\n", echs_instant_fixup(rdi(a[1])).u);
		} else if (!strcmp(op, "i.diff") && n == 3) {
			printf("%" PRId64 "\n", echs_instant_diff(rdi(a[1]), rdi(a[2])).d);
		} else if (!strcmp(op, "i.add") && n == 3) {
			echs_idiff_t d = {strtoll(a[2], NULL, 10)};
			printf("%016" PRIx64 "\n", echs_instant_add(rdi(a[1]), d).u);
		} else if (!strcmp(op, "i.lt") && n == 3) {
			printf("%d\n", (int)echs_instant_lt_p(rdi(a[1]), rdi(a[2])));
		} else if (!strcmp(op, "i.le") && n == 3) {
			printf("%d\n", (int)echs_instant_le_p(rdi(a[1]), rdi(a[2])));
		} else if (!strcmp(op, "i.toepoch") && n == 2) {
			printf("%lld\n", (long long)echs_instant_to_epoch(rdi(a[1])));
		} else if (!strcmp(op, "i.frepoch") && n == 2) {
			printf("%016" PRIx64 "\n", epoch_to_echs_instant((time_t)strtoll(a[1], NULL, 10)).u);
		} else if (!strcmp(op, "i.tstamp") && n == 2) {
			printf("%lld\n", (long long)instant_to_tstamp(rdi(a[1])));
		} else {
			puts("bad-op");
		}
	}
	return 0;
}
