/-
  Daemon model: checkpoint followed by a restart (`chkpnt`, then `reload` on the spool), the retried
  checkpoint after a failing call, and who is marked dirty.  Continues Echse/Lemmas/Chkpnt.lean.  Used by C06.
-/
import Echse.Lemmas.Chkpnt
namespace Echse.Daemon

/-! ### checkpoint, then restart -/

/-- the file `f` agrees with the table of `s` on who owns what: its entries have distinct uids, ascending
streams, and each names an in-table task of the file's user (e.g. `f.2 = tasksOf s f.1`, or an older
snapshot of tasks that are all still there, or an empty file) -/
def Current (s : St) (f : Nat × List DTask) : Prop :=
  (f.2.map (·.uid)).Nodup ∧ ∀ ft ∈ f.2, ft.owner = f.1 ∧ ft.occ.Pairwise (· ≤ ·) ∧
    ∃ t ∈ s.tasks, t.inTable = true ∧ t.uid = ft.uid ∧ t.owner = f.1

theorem mem_tasksOf {s : St} {u : Nat} {t : DTask} :
    t ∈ tasksOf s u ↔ t ∈ s.tasks ∧ t.inTable = true ∧ t.owner = u ∧ t.occ ≠ [] := by
  unfold tasksOf
  rw [List.mem_filter]
  simp [and_assoc]

theorem current_tasksOf {s : St} (h : Inv s) (u : Nat) : Current s (u, tasksOf s u) := by
  refine ⟨?_, ?_⟩
  · show ((tasksOf s u).map (·.uid)).Nodup
    unfold List.Nodup
    rw [List.pairwise_map]
    have h1 : s.tasks.Pairwise (fun a b => a.sid ≠ b.sid) := by
      have := h.sidU
      unfold SidU List.Nodup at this
      rwa [List.pairwise_map] at this
    have h2 : (tasksOf s u).Pairwise (fun a b => a.sid ≠ b.sid) := h1.filter _
    refine h2.imp_of_mem ?_
    intro a b ha hb hne he
    obtain ⟨a1, a2, _, _⟩ := mem_tasksOf.mp ha
    obtain ⟨b1, b2, _, _⟩ := mem_tasksOf.mp hb
    exact hne (by rw [h.uidU a a1 b b1 a2 b2 he])
  · intro ft hft
    obtain ⟨a1, a2, a3, _⟩ := mem_tasksOf.mp hft
    exact ⟨a3, (h.tinv' a1).sorted, ft, a1, a2, rfl, a3⟩

theorem current_empty (s : St) (u : Nat) : Current s (u, []) :=
  ⟨List.nodup_nil, fun _ h => by cases h⟩

theorem nodup_flatMap_uid : ∀ (F : List (Nat × List DTask)), (keys F).Nodup →
    (∀ f ∈ F, (f.2.map (·.uid)).Nodup) →
    (∀ f ∈ F, ∀ g ∈ F, ∀ a ∈ f.2, ∀ b ∈ g.2, a.uid = b.uid → f.1 = g.1) →
    ((F.flatMap (·.2)).map (·.uid)).Nodup := by
  intro F
  induction F with
  | nil => intro _ _ _; exact List.nodup_nil
  | cons f r ih =>
    intro hk hn hx
    have hk' : f.1 ∉ keys r ∧ (keys r).Nodup := by
      unfold keys at hk ⊢
      rw [List.map_cons, List.nodup_cons] at hk
      exact hk
    rw [List.flatMap_cons, List.map_append, List.nodup_append]
    refine ⟨hn f List.mem_cons_self, ?_, ?_⟩
    · exact ih hk'.2 (fun g hg => hn g (List.mem_cons_of_mem _ hg))
        (fun g hg g' hg' => hx g (List.mem_cons_of_mem _ hg) g' (List.mem_cons_of_mem _ hg'))
    · intro x hxa y hyb e
      rw [List.mem_map] at hxa hyb
      obtain ⟨a, ha, rfl⟩ := hxa
      obtain ⟨b, hb, hbe⟩ := hyb
      rw [List.mem_flatMap] at hb
      obtain ⟨g, hg, hbg⟩ := hb
      have := hx f List.mem_cons_self g (List.mem_cons_of_mem _ hg) a ha b hbg (e.trans hbe.symm)
      apply hk'.1
      rw [this]
      unfold keys
      rw [List.mem_map]
      exact ⟨g, hg, rfl⟩

/-- a spool of current files with one file per user can be restored completely -/
theorem FilesOK_of_current {s : St} (h : Inv s) (hu : s.users = ({ me := 0 } : St).users)
    {F : List (Nat × List DTask)} (hk : (keys F).Nodup) (hc : ∀ f ∈ F, Current s f) : FilesOK F where
  sorted := fun f hf t ht => ((hc f hf).2 t ht).2.1
  owner := fun f hf t ht => ((hc f hf).2 t ht).1
  known := by
    intro f hf ft hft
    obtain ⟨h1, _, t, ht, _, _, hto⟩ := (hc f hf).2 ft hft
    have := (h.tinv' ht).owner_ok
    rw [hu, hto, ← h1] at this
    exact this
  uidNe := by
    intro f hf ft hft
    obtain ⟨_, _, t, ht, _, htu, _⟩ := (hc f hf).2 ft hft
    rw [← htu]
    exact h.uidNe t ht
  uids := by
    apply nodup_flatMap_uid F hk (fun f hf => (hc f hf).1)
    intro f hf g hg a ha b hb e
    obtain ⟨_, _, t, ht, hti, htu, hto⟩ := (hc f hf).2 a ha
    obtain ⟨_, _, t', ht', hti', htu', hto'⟩ := (hc g hg).2 b hb
    have : t = t' := h.uidU t ht t' ht' hti hti' (by rw [htu, htu', e])
    rw [← hto, ← hto', this]

theorem mem_writeAll {s : St} {us : List Nat} {fs : List (Nat × List DTask)} (hk : (keys fs).Nodup)
    {f : Nat × List DTask} (hf : f ∈ writeAll s us fs) :
    (f.1 ∈ us ∧ f.2 = tasksOf s f.1) ∨ (f.1 ∉ us ∧ f ∈ fs) := by
  have h1 := fileOf_of_mem (keys_nodup_writeAll s us fs hk) hf
  rw [fileOf_writeAll] at h1
  by_cases hm : f.1 ∈ us
  · rw [if_pos hm] at h1
    exact Or.inl ⟨hm, (Option.some.inj h1).symm⟩
  · rw [if_neg hm] at h1
    exact Or.inr ⟨hm, fileOf_mem h1⟩

/-- what is in the spool after a completed checkpoint: new files, and below 16 entries the old files of the
users that are not on the list -/
theorem mem_chkpnt {s : St} (hk : (keys s.files).Nodup) {f : Nat × List DTask} (hf : f ∈ (chkpnt s).files) :
    (f.1 ∈ chkpntUsers s ∧ f.2 = tasksOf s f.1) ∨
    (s.dirty.length < 16 ∧ f.1 ∉ chkpntUsers s ∧ f ∈ s.files) := by
  rw [chkpnt_files_none] at hf
  by_cases hl : 16 ≤ s.dirty.length
  · rw [if_pos hl, List.mem_filter] at hf
    have hm : f.1 ∈ chkpntUsers s := by simpa using hf.2
    rcases mem_writeAll hk hf.1 with h1 | h1
    · exact Or.inl h1
    · exact absurd hm h1.1
  · rw [if_neg hl] at hf
    rcases mem_writeAll hk hf with h1 | h1
    · exact Or.inl h1
    · exact Or.inr ⟨by omega, h1⟩

/-- after a completed checkpoint the spool can be restored completely, provided the files that are not
rewritten (there are none after the complete dump) are current -/
theorem FilesOK_chkpnt {s : St} (h : Inv s) (hu : s.users = ({ me := 0 } : St).users)
    (hk : (keys s.files).Nodup)
    (hc : s.dirty.length < 16 → ∀ f ∈ s.files, f.1 ∉ chkpntUsers s → Current s f) :
    FilesOK (chkpnt s).files ∧ (keys (chkpnt s).files).Nodup := by
  have hk' := keys_nodup_chkpnt hk
  refine ⟨FilesOK_of_current h hu hk' ?_, hk'⟩
  intro f hf
  rcases mem_chkpnt hk hf with ⟨_, h2⟩ | ⟨hl, h1, h2⟩
  · have := current_tasksOf h f.1
    rw [← h2] at this
    exact this
  · exact hc hl f h2 h1

/-! ### who is marked dirty -/

theorem addChkpnt_dirty (s : St) (u : Nat) :
    (addChkpnt s u).dirty = if s.dirty.length < 16 then s.dirty ++ [u] else s.dirty := by
  unfold addChkpnt
  split <;> rfl

theorem unsched_dirty (s : St) (t : DTask) :
    (unsched s t).dirty = if s.dirty.length < 16 then s.dirty ++ [t.owner] else s.dirty := by
  show (addChkpnt s t.owner).dirty = _
  exact addChkpnt_dirty s t.owner

theorem applyInstr_dirty (s : St) (peer : Nat) (i : Instr) : (applyInstr s peer i).1.dirty = s.dirty := by
  cases i with
  | sched uid owner ms dur occ isTask =>
    simp only [applyInstr]
    rw [inject_eq]
    unfold injectSpec
    cases effOwner s owner peer with
    | none => rfl
    | some e =>
      simp only [injectAs]
      split
      · rfl
      · cases s.find uid with
        | none => rfl
        | some old =>
          simp only []
          split <;> rfl
  | cancel uid =>
    simp only [applyInstr, eject]
    cases s.find uid with
    | none => rfl
    | some t =>
      simp only []
      split
      · rfl
      · split <;> rfl

theorem applyAll_dirty (peer : Nat) : ∀ (ins : List Instr) (s : St), (applyAll s peer ins).1.dirty = s.dirty := by
  intro ins
  induction ins with
  | nil => intro s; rfl
  | cons i r ih => intro s; simp only [applyAll]; rw [ih, applyInstr_dirty]

theorem cmdIcal_dirty (s : St) (p : Nat) (ins : List Instr) :
    (cmdIcal s p ins).1.dirty =
      if (cmdIcal s p ins).2.any (·.2) = true ∧ s.dirty.length < 16 then s.dirty ++ [p] else s.dirty := by
  rw [cmdIcal_eq]
  simp only []
  by_cases ha : (applyAll s p ins).2.any (·.2) = true
  · rw [if_pos ha, addChkpnt_dirty, applyAll_dirty]
    by_cases hl : s.dirty.length < 16
    · rw [if_pos hl, if_pos ⟨ha, hl⟩]
    · rw [if_neg hl, if_neg (fun c => hl c.2)]
  · rw [if_neg ha, applyAll_dirty, if_neg (fun c => ha c.1)]

theorem chkpntUsers_dirty {s : St} (h : s.dirty.length < 16) : chkpntUsers s = s.dirty := by
  unfold chkpntUsers
  rw [if_neg (by omega)]

theorem mem_chkpntUsers_overflow {s : St} (h : 16 ≤ s.dirty.length) (u : Nat) :
    u ∈ chkpntUsers s ↔ ∃ t ∈ s.tasks, t.inTable = true ∧ t.owner = u := by
  unfold chkpntUsers
  rw [if_pos h, List.mem_eraseDups, List.mem_map]
  constructor
  · rintro ⟨t, ht, rfl⟩
    rw [List.mem_filter] at ht
    exact ⟨t, ht.1, ht.2, rfl⟩
  · rintro ⟨t, ht, hi, rfl⟩
    exact ⟨t, List.mem_filter.mpr ⟨ht, hi⟩, rfl⟩

/-! ### checkpoint, stop, start again -/

theorem snapAt_eq_snapOf {s : St} (h : Inv s) {u : Nat} {t : DTask} (ht : t ∈ tasksOf s u) :
    snapAt s.now t = snapOf t := by
  obtain ⟨a1, a2, _, _⟩ := mem_tasksOf.mp ht
  unfold snapAt snapOf
  have : t.occ.filter (fun o => decide (s.now ≤ o)) = t.occ := by
    rw [List.filter_eq_self]
    intro o ho
    have := occ_ge_now (h.tinv' a1) a2 o ho
    simpa using this
  rw [this]

theorem tasksOf_snapAt_now {s : St} (h : Inv s) (u : Nat) :
    ((tasksOf s u).map (snapAt s.now)).filter (fun sn => !sn.occ.isEmpty) = (tasksOf s u).map snapOf := by
  rw [List.map_congr_left (fun t ht => snapAt_eq_snapOf h ht), List.filter_eq_self]
  intro sn hsn
  rw [List.mem_map] at hsn
  obtain ⟨t, ht, rfl⟩ := hsn
  obtain ⟨_, _, _, a4⟩ := mem_tasksOf.mp ht
  cases ho : t.occ with
  | nil => exact absurd ho a4
  | cons a r => simp [snapOf, ho]

/-- the complete dump passes over the users that own no in-table task: they have nothing to write -/
theorem tasksOf_nil_of_unseen {s : St} (hl : 16 ≤ s.dirty.length) {u : Nat} (hm : u ∉ chkpntUsers s) :
    tasksOf s u = [] := by
  rw [List.eq_nil_iff_forall_not_mem]
  intro t ht
  obtain ⟨a1, a2, a3, _⟩ := mem_tasksOf.mp ht
  exact hm ((mem_chkpntUsers_overflow hl u).mpr ⟨t, a1, a2, a3⟩)

/-- checkpoint, stop, start again at the same clock value: the new daemon schedules for every rewritten
user exactly what the old one had in its table for that user -/
theorem chkpnt_reload_user {s : St} (h : Inv s) (hu : s.users = ({ me := 0 } : St).users)
    (hk : (keys s.files).Nodup)
    (hc : s.dirty.length < 16 → ∀ f ∈ s.files, f.1 ∉ chkpntUsers s → Current s f)
    {u : Nat} (hmem : u ∈ chkpntUsers s) :
    (tasksOf (reload (chkpnt s).files 0 s.now) u).map snapOf = (tasksOf s u).map snapOf := by
  obtain ⟨h1, h2⟩ := FilesOK_chkpnt h hu hk hc
  rw [reload_user h1 h2 0 s.now (Or.inl rfl) u]
  have hf : fileOf (chkpnt s).files u = some (tasksOf s u) := by
    rw [fileOf_chkpnt_none, if_pos hmem]
  rw [hf, Option.getD_some, tasksOf_snapAt_now h]

/-- … and for the users not rewritten what their (older) file says; after the complete dump nothing -/
theorem chkpnt_reload_other {s : St} (h : Inv s) (hu : s.users = ({ me := 0 } : St).users)
    (hk : (keys s.files).Nodup)
    (hc : s.dirty.length < 16 → ∀ f ∈ s.files, f.1 ∉ chkpntUsers s → Current s f)
    (now : Nat) {u : Nat} (hmem : u ∉ chkpntUsers s) :
    (tasksOf (reload (chkpnt s).files 0 now) u).map snapOf =
      if 16 ≤ s.dirty.length then []
      else (((fileOf s.files u).getD []).map (snapAt now)).filter (fun sn => !sn.occ.isEmpty) := by
  obtain ⟨h1, h2⟩ := FilesOK_chkpnt h hu hk hc
  rw [reload_user h1 h2 0 now (Or.inl rfl) u, fileOf_chkpnt_none, if_neg hmem]
  split <;> rfl

/-- if moreover the files not rewritten are up to date (the complete dump leaves none), the new daemon has
the old table, user by user -/
theorem chkpnt_reload_all {s : St} (h : Inv s) (hu : s.users = ({ me := 0 } : St).users)
    (hk : (keys s.files).Nodup)
    (hsync : s.dirty.length < 16 → ∀ u, u ∉ chkpntUsers s →
      fileOf s.files u = some (tasksOf s u) ∨ (fileOf s.files u = none ∧ tasksOf s u = []))
    (u : Nat) :
    (tasksOf (reload (chkpnt s).files 0 s.now) u).map snapOf = (tasksOf s u).map snapOf := by
  have hc : s.dirty.length < 16 → ∀ f ∈ s.files, f.1 ∉ chkpntUsers s → Current s f := by
    intro hl f hf hn
    have h1 := fileOf_of_mem hk hf
    rcases hsync hl f.1 hn with h2 | ⟨h2, _⟩
    · rw [h1] at h2
      have := current_tasksOf h f.1
      rw [← Option.some.inj h2] at this
      exact this
    · rw [h1] at h2; cases h2
  by_cases hm : u ∈ chkpntUsers s
  · exact chkpnt_reload_user h hu hk hc hm
  · rw [chkpnt_reload_other h hu hk hc s.now hm]
    by_cases hl : 16 ≤ s.dirty.length
    · rw [if_pos hl, tasksOf_nil_of_unseen hl hm]; rfl
    · rw [if_neg hl]
      rcases hsync (by omega) u hm with h2 | ⟨h2, h3⟩
      · rw [h2, Option.getD_some, tasksOf_snapAt_now h]
      · rw [h2, h3]; rfl

/-! ### the failed file is written by the next checkpoint -/

theorem tasksOf_chkpntFault (s : St) (u v : Nat) : tasksOf (chkpntFault s u) v = tasksOf s v := rfl

/-- whoever's file could not be written stays on the list; the complete dump keeps the whole list -/
theorem chkpntFault_dirty (s : St) (u : Nat) : (chkpntFault s u).dirty =
    if u ∈ chkpntUsers s then (if 16 ≤ s.dirty.length then s.dirty else [u]) else [] := by
  unfold chkpntFault
  by_cases hm : u ∈ chkpntUsers s
  · have hb : (chkpntUsers s).contains u = true := by simpa using hm
    simp only [hb, Bool.not_true, Bool.false_eq_true, if_false, ge_iff_le, if_pos hm]
  · have hb : (chkpntUsers s).contains u = false := by simpa using hm
    simp only [hb, Bool.not_false, if_true, if_neg hm]

theorem chkpntUsers_chkpntFault {s : St} {u : Nat} (hm : u ∈ chkpntUsers s) :
    chkpntUsers (chkpntFault s u) = if 16 ≤ s.dirty.length then chkpntUsers s else [u] := by
  have hd := chkpntFault_dirty s u
  rw [if_pos hm] at hd
  by_cases hl : 16 ≤ s.dirty.length
  · rw [if_pos hl] at hd
    rw [if_pos hl]
    unfold chkpntUsers
    rw [hd]
    rfl
  · rw [if_neg hl] at hd
    rw [if_neg hl]
    unfold chkpntUsers
    rw [hd]
    rfl

/-- a failing call while `u`'s file is written, then a completed checkpoint: the spool is, file by file, what
the checkpoint without the fault would have left -/
theorem fault_retry {s : St} {u : Nat} (hm : u ∈ chkpntUsers s) (v : Nat) :
    fileOf (chkpnt (chkpntFault s u)).files v = fileOf (chkpnt s).files v := by
  rw [fileOf_chkpnt_none, fileOf_chkpnt_none, chkpntUsers_chkpntFault hm, chkpntFault_dirty, if_pos hm,
    tasksOf_chkpntFault]
  by_cases hl : 16 ≤ s.dirty.length
  · simp only [if_pos hl]
  · simp only [if_neg hl, List.mem_singleton, List.length_singleton]
    by_cases hvu : v = u
    · rw [if_pos hvu, hvu, if_pos hm]
    · rw [if_neg hvu, if_neg (show ¬ 16 ≤ 1 by omega), chkpntFault_files, fileOf_writeAll]
      by_cases h2 : v ∈ chkpntUsers s
      · rw [if_pos ((List.mem_erase_of_ne hvu).mpr h2), if_pos h2]
      · rw [if_neg (fun c => h2 ((List.mem_erase_of_ne hvu).mp c)), if_neg h2]

theorem Inv_chkpntFault {s : St} (h : Inv s) (u : Nat) : Inv (chkpntFault s u) :=
  InvP_frame h rfl rfl (Nat.le_refl _) (Nat.le_refl _) rfl rfl

/-- … and a new daemon started on it has the old table, user by user (same proviso as `chkpnt_reload_all`) -/
theorem fault_retry_reload {s : St} (h : Inv s) (hu : s.users = ({ me := 0 } : St).users)
    (hk : (keys s.files).Nodup)
    (hsync : s.dirty.length < 16 → ∀ u, u ∉ chkpntUsers s →
      fileOf s.files u = some (tasksOf s u) ∨ (fileOf s.files u = none ∧ tasksOf s u = []))
    {u : Nat} (hm : u ∈ chkpntUsers s) (v : Nat) :
    (tasksOf (reload (chkpnt (chkpntFault s u)).files 0 s.now) v).map snapOf = (tasksOf s v).map snapOf := by
  have hk' : (keys (chkpntFault s u).files).Nodup := by
    rw [chkpntFault_files]
    exact keys_nodup_writeAll s _ _ hk
  refine chkpnt_reload_all (s := chkpntFault s u) (Inv_chkpntFault h u) hu hk' ?_ v
  intro hl' w hw
  rw [chkpntUsers_chkpntFault hm] at hw
  rw [chkpntFault_dirty, if_pos hm] at hl'
  have hl : s.dirty.length < 16 := by
    by_cases c : 16 ≤ s.dirty.length
    · rw [if_pos c] at hl'; omega
    · omega
  rw [if_neg (by omega), List.mem_singleton] at hw
  rw [tasksOf_chkpntFault, chkpntFault_files, fileOf_writeAll]
  by_cases h2 : w ∈ chkpntUsers s
  · rw [if_pos ((List.mem_erase_of_ne hw).mpr h2)]
    exact Or.inl rfl
  · rw [if_neg (fun c => h2 ((List.mem_erase_of_ne hw).mp c))]
    exact hsync hl w h2

end Echse.Daemon
