/-
  C01 for the weekly filler, part 4: the loop over the weeks cannot miss an instant (`wlyLoop_complete`).
-/
import Echse.Lemmas.RrWlyRfc3
namespace Echse.Lemmas.RrRfc
open Echse.Rrule Echse.Instant Echse.Spec.RrOk Echse.Spec.Cal Echse.Spec.RuleExt Echse.Spec.Rfc
open Echse.Lemmas.RrOkBase

theorem lowOk_carry {y m D y2 m2 d2 : Nat} (hc : Carry y m D y2 m2 d2) (h1 : 1 ≤ m) (h2 : m ≤ 12) (hD : 1 ≤ D)
    (hl : LowOk y m) : LowOk y2 m2 := by
  obtain ⟨hv, -, -, hor⟩ := hc.props h1 h2 hD
  have := hv.1
  have := hv.2.1
  unfold LowOk at *
  rcases hor with ⟨e1, e2, _⟩ | ⟨_, h⟩ <;> omega

theorem days_1900_3' : days 1900 3 1 = 693960 := by decide

/-- a date up to 2099 is less than 73000 days from a month start from March 1900 on -/
theorem carry_span {y m D : Nat} {x : Inst} (hc : Carry y m D x.y x.m x.d) (h1 : 1 ≤ m) (h2 : m ≤ 12) (hD : 1 ≤ D)
    (hl : LowOk y m) (hxy : x.y ≤ 2099) : D < 73000 := by
  have h := carry_days hc h1 h2 hD hl hxy
  obtain ⟨hv, -, -, -⟩ := hc.props h1 h2 hD
  have hyy := carry_year hc h1 h2 hD
  have hxv : VDs x.y x.m x.d := ⟨hv.1, hv.2.1, hv.2.2.1, by
    rw [← ndom_eq hv.1 hv.2.1 (lowOk_carry hc h1 h2 hD hl) hxy]; exact hv.2.2.2⟩
  have hlt := days_lt_2100 hxv hxy
  rw [days_2100] at hlt
  have hge : 693960 ≤ days y m 1 := by
    unfold LowOk at hl
    rcases hl with a | ⟨a, b⟩
    · have := days_ge_1901 (show 1901 ≤ y by omega) h1 h2 (Nat.le_refl 1); omega
    · subst a
      have := days_month_mono 1900 3 m (by omega) b h2
      rw [days_1900_3'] at this; exact this
  omega

/-- the loop over the weeks cannot miss an instant `x` that lies `i` rounds ahead at the week's offset `o`, in a month
of BYMONTH, with a time that is enumerated and not skipped: it ends with `x` written, or full with earlier instants -/
theorem wlyLoop_complete (c : WlyCtx) (hr : WfRule c.r) (hp : WfInst c.proto) (he : EnumOk c.e)
    (hinc : nibOk 8 c.wdIncs 6 = true) (x : Inst) (o : Nat) (ho : o ∈ offs 8 c.wdIncs 0) (hxy : x.y ≤ 2099)
    (hxms : x.ms = c.proto.ms) (ix : Nat × Nat × Nat) (hxt : (ix, x.H, x.M, x.S) ∈ c.e.timesIx)
    (R : Nat → Nat → Nat → Prop)
    (hR : ∀ y m d y2 m2 d2, R y m d → Carry y m (d + wk c) y2 m2 d2 → R y2 m2 d2)
    (hxs : ∀ y m d, R y m d → VD y m d → Carry y m (d + o) x.y x.m x.d →
      wlySkip c (wlyNset c m d (getNdom y m)) (ndAt c y m (offs 8 c.wdIncs d) (d + o)) ix = false)
    (hmon : bit c.mMask x.m = true)
    (hge : ltP x c.proto = false) (hle : ltP c.r.untl x = false) :
    ∀ (fuel i y m d : Nat) (res l : List Inst), R y m d → VD y m d → LowOk y m →
      Carry y m (d + i * wk c + o) x.y x.m x.d →
      Acc c.r c.proto c.nti res → Below res y m d → wlyLoop c fuel y m d (getNdom y m) res = some l →
      x ∈ l ∨ (l.length = c.nti ∧ ∀ z ∈ l, ikey z < ikey x) := by
  have hi := hr.inter
  have htg : TimeGood x.H x.M x.S := timesIx_good he hxt
  have hxk : dkey x.y x.m x.d * 4194304 ≤ ikey x := by unfold ikey; omega
  intro fuel
  induction fuel with
  | zero => intro i y m d res l _ _ _ _ _ _ h; cases h
  | succ f ih =>
    intro i y m d res l hRb hv hl hxc hacc hbel h
    have hd1 := hv.2.2.1
    have hd31 := hv.d31
    have hm12 := hv.2.1
    have hyx := carry_year hxc hv.1 hv.2.1 (by omega)
    have hy : y ≤ 13000000 := by omega
    have hspan := carry_span hxc hv.1 hv.2.1 (by omega) hl hxy
    obtain ⟨hxv, -, -, -⟩ := hxc.props hv.1 hv.2.1 (by omega)
    have hxin : InR x := by
      have : x = ⟨x.y, x.m, x.d, x.H, x.M, x.S, c.proto.ms⟩ := by cases x; simp only at hxms; subst hxms; rfl
      rw [this]; exact inR_mk hxv hxy htg hp.ms
    have before : ∀ (res : List Inst) (D : Nat), D ≤ d + i * wk c + o → Below res y m D → ∀ z ∈ res, ikey z < ikey x := by
      intro res D hD hb z hz
      have := hb z hz _ x.y x.m x.d hD hxc
      omega
    rw [wlyLoop_succ] at h
    by_cases c1 : res.length < c.nti
    · rw [if_neg (by omega)] at h
      cases i with
      | zero =>
        -- the week of `x`
        rw [Nat.zero_mul, Nat.add_zero] at hxc
        have hweek : ∀ out, wlyWeek c (wlyNset c m d (getNdom y m)) 8 c.wdIncs y m d (getNdom y m) 0 res = some out →
            x ∈ out.1 ∨ (out.1.length = c.nti ∧ ∀ z ∈ out.1, ikey z < ikey x) := by
          intro out hw
          exact wlyWeek_complete c hp he _ hv hy x (d + o) hxc hxy hxms ix hxt hmon hge hle 8 c.wdIncs d y m d 0
            res 6 out hinc (by omega) (Nat.le_refl _) (Carry.done hv.2.2.2) (offs_shift_mem ho)
            (by rw [Nat.zero_add]; exact hxs y m d hRb hv hxc) hacc (hbel.mono (by omega)) hw
        split at h
        · cases h
        · rename_i res1 hw
          cases h; exact hweek _ hw
        · rename_i res1 hw
          have h1 : x ∈ res1 ∨ (res1.length = c.nti ∧ ∀ z ∈ res1, ikey z < ikey x) := hweek _ hw
          have fin_case : ∀ l', l' = res1 → x ∈ l' ∨ (l'.length = c.nti ∧ ∀ z ∈ l', ikey z < ikey x) := by
            intro l' e; rw [e]; exact h1
          split at h
          · cases h; exact fin_case _ rfl
          · split at h
            · cases h
            · cases h; exact fin_case _ rfl
            · rcases h1 with a | ⟨b1, b2⟩
              · exact Or.inl (wlyLoop_subset c _ _ _ _ _ _ _ h x a)
              · have := wlyLoop_full c _ _ _ _ _ _ _ (by show ¬ res1.length < c.nti; omega) h
                rw [this]; exact Or.inr ⟨b1, b2⟩
      | succ i' =>
        -- an earlier week
        rw [Nat.succ_mul] at hxc hspan
        have hwk : 7 ≤ wk c := by unfold wk; omega
        obtain ⟨res1, fin, hw, hab1, hfin⟩ := wlyWeek_spec c hp (EnumOk c.e) id (wlyNset c m d (getNdom y m)) hv hy 8
          c.wdIncs d y m d 0 res 6 hinc (by omega) (Nat.le_refl _) (Carry.done hv.2.2.2)
          (fun _ => ⟨hacc, hbel.mono (by omega)⟩)
        obtain ⟨hacc1, hbel1⟩ := hab1 he
        rw [hw] at h
        cases fin with
        | true =>
          exfalso
          obtain ⟨D', ty', tm', td', hD1, hD', hc', hreason⟩ := wlyWeek_fin c hp he _ hv hy 8 c.wdIncs d y m d 0 res 6 res1
            hinc (by omega) (Nat.le_refl _) (Carry.done hv.2.2.2) hw
          obtain ⟨hv', -, -, -⟩ := hc'.props hv.1 hv.2.1 (by omega)
          have hdk : dkey ty' tm' td' < dkey x.y x.m x.d := hc'.mono _ _ _ _ hxc (by omega) hv.1 hv.2.1 (by omega)
          have hy' : ty' ≤ x.y := dkey_year' hv' hxv (Nat.le_of_lt hdk)
          rcases hreason with a | ⟨t, ht, hu⟩
          · omega
          · have htg' := timesIx_good he ht
            have := ltP_mono_right c.r.untl _ x (inR_mk hv' (by omega) htg' hp.ms) hxin hxms.symm hu
              (Nat.le_of_lt (ikey_day_lt hdk (tkey_lt htg')))
            rw [hle] at this; cases this
        | false =>
          simp only at h
          have hy99 := hfin rfl
          by_cases cg : c.r.inter % u32 > (u32 - 1 - 31) / 7
          · exfalso; unfold wk u32 at *; omega
          · rw [if_neg cg] at h
            have hk : c.r.inter * 7 + 31 < 4294967296 := by unfold u32 at cg; omega
            have e1 : (d + c.r.inter % u32 * 7 % u32) % u32 = d + wk c := by unfold wk u32; omega
            rw [e1] at h
            obtain ⟨y2, m2, d2, hcm, hc2⟩ := carryMon_spec (d + wk c + 1) y m (d + wk c) hv.1 hv.2.1 (by omega)
              (by unfold pot wk; omega)
            rw [hcm] at h
            simp only at h
            obtain ⟨hv2, -, -, -⟩ := hc2.props hv.1 hv.2.1 (by omega)
            have hxc2 : Carry y2 m2 (d2 + (i' * wk c + o)) x.y x.m x.d := by
              refine carry_split hc2 ?_ ⟨hv.1, hv.2.1⟩ (by omega) (by unfold pot; omega)
              have e : d + wk c + (i' * wk c + o) = d + (i' * wk c + wk c) + o := by omega
              rw [e]; exact hxc
            rw [← Nat.add_assoc] at hxc2
            exact ih i' y2 m2 d2 res1 l (hR _ _ _ _ _ _ hRb hc2) hv2 (lowOk_carry hc2 hv.1 hv.2.1 (by omega) hl) hxc2 hacc1
              ((hbel1.mono (by omega)).rebase hc2) h
    · rw [if_pos (by omega)] at h
      cases h
      exact Or.inr ⟨by have := hacc.len; omega, before res _ (by omega) hbel⟩

end Echse.Lemmas.RrRfc
