/-
  Stream layer, part 1: the chronological order on events as a total preorder with key
  `key`, event identity `evEq`, what it means for a sub-stream implementation to refine a list
  (`Refines`), scripts of peek/pop calls and what they return for a refining implementation.
-/
import Echse.Model.Stream
namespace Echse.Stream
open Echse.Instant

/-! ### the order -/

/-- the word `echs_instant_lt_p` really compares -/
def key (u : Nat) : Nat := (bump (Inst.unpack u)).pack

theorem key_eq (u : Nat) : key u =
    (u % 1024 + 1) % 1024 + (u / 1024 % 64) * 1024 + (u / 65536 % 256) * 65536
      + ((u / 16777216 % 256 + 1) % 256) * 16777216
      + (u / 4294967296 % 4294967296) * 4294967296 := by
  simp only [key, bump, Inst.unpack, Inst.pack, Nat.reducePow]
  omega

/-- on 64-bit words the key is injective (`bump` permutes the H and the ms field) -/
theorem key_inj {u v : Nat} (hu : u < 2^64) (hv : v < 2^64) (h : key u = key v) : u = v := by
  rw [key_eq, key_eq] at h
  simp only [Nat.reducePow] at hu hv
  omega

theorem evLt_iff (a b : Event) : evLt a b = true ↔ key a.from_ < key b.from_ := by
  simp [evLt, ltP, key]

theorem evLt_false_iff (a b : Event) : evLt a b = false ↔ key b.from_ ≤ key a.from_ := by
  rw [← Bool.not_eq_true, evLt_iff]; omega

theorem evLt_irrefl (a : Event) : evLt a a = false := by
  rw [evLt_false_iff]; omega

theorem evLt_trans {a b c : Event} (h1 : evLt a b = true) (h2 : evLt b c = true) : evLt a c = true := by
  rw [evLt_iff] at *; omega

theorem evLt_asymm {a b : Event} (h : evLt a b = true) : evLt b a = false := by
  rw [evLt_iff] at h; rw [evLt_false_iff]; omega

/-- `evLt` is the strict part of the total preorder "key ≤ key" -/
theorem evLt_total (a b : Event) : evLt a b = true ∨ evLt b a = true ∨ key a.from_ = key b.from_ := by
  simp only [evLt_iff]; omega

theorem evLt_incomp_iff (a b : Event) :
    (evLt a b = false ∧ evLt b a = false) ↔ key a.from_ = key b.from_ := by
  simp only [evLt_false_iff]; omega

theorem le_trans' {a b c : Event} (h1 : evLt b a = false) (h2 : evLt c b = false) : evLt c a = false := by
  rw [evLt_false_iff] at *; omega

theorem lt_of_lt_of_le {a b c : Event} (h1 : evLt a b = true) (h2 : evLt c b = false) : evLt a c = true := by
  rw [evLt_false_iff] at h2; rw [evLt_iff] at *; omega

theorem lt_of_le_of_lt {a b c : Event} (h1 : evLt b a = false) (h2 : evLt b c = true) : evLt a c = true := by
  rw [evLt_false_iff] at h1; rw [evLt_iff] at *; omega

/-! ### event identity -/

theorem evEq_iff (a b : Event) : evEq a b = true ↔ a.oid = b.oid ∧ a.from_ = b.from_ := by
  simp [evEq]

theorem evEq_refl (a : Event) : evEq a a = true := by simp [evEq]

theorem evEq_symm {a b : Event} (h : evEq a b = true) : evEq b a = true := by
  rw [evEq_iff] at *; exact ⟨h.1.symm, h.2.symm⟩

theorem evEq_comm (a b : Event) : evEq a b = evEq b a := by
  cases h : evEq a b
  · cases h' : evEq b a
    · rfl
    · rw [evEq_symm h'] at h; cases h
  · exact (evEq_symm h).symm

theorem evEq_trans {a b c : Event} (h1 : evEq a b = true) (h2 : evEq b c = true) : evEq a c = true := by
  rw [evEq_iff] at *; exact ⟨h1.1.trans h2.1, h1.2.trans h2.2⟩

theorem evEq_from {a b : Event} (h : evEq a b = true) : a.from_ = b.from_ := ((evEq_iff a b).mp h).2

/-- identical events are simultaneous -/
theorem evEq_not_lt {a b : Event} (h : evEq a b = true) : evLt a b = false := by
  rw [evLt_false_iff, evEq_from h]; omega

theorem evEq_false_of_lt {a b : Event} (h : evLt a b = true) : evEq a b = false := by
  cases h' : evEq a b
  · rfl
  · rw [evEq_not_lt h'] at h; cases h

theorem evEq_false_of_gt {a b : Event} (h : evLt b a = true) : evEq a b = false := by
  rw [evEq_comm]; exact evEq_false_of_lt h

/-! ### lists of events -/

/-- non-decreasing start -/
def Sorted (l : List Event) : Prop := l.Pairwise (fun a b => evLt b a = false)
/-- no listed event is the nul event -/
def NonNul (l : List Event) : Prop := ∀ e ∈ l, e.isNul = false
/-- no (uid, start) twice -/
def NoTwin (l : List Event) : Prop := l.Pairwise (fun a b => evEq a b = false)
/-- every start is a 64-bit word -/
def Words (l : List Event) : Prop := ∀ e ∈ l, e.from_ < 2^64

/-- head of a list, the nul event if there is none -/
def hd (l : List Event) : Event := l.headD Event.nul

@[simp] theorem hd_nil : hd [] = Event.nul := rfl
@[simp] theorem hd_cons (h : Event) (t : List Event) : hd (h :: t) = h := rfl

theorem Sorted.tail {l : List Event} (h : Sorted l) : Sorted l.tail :=
  List.Pairwise.sublist (List.tail_sublist l) h
theorem NonNul.tail {l : List Event} (h : NonNul l) : NonNul l.tail :=
  fun e he => h e (List.mem_of_mem_tail he)
theorem NoTwin.tail {l : List Event} (h : NoTwin l) : NoTwin l.tail :=
  List.Pairwise.sublist (List.tail_sublist l) h
theorem Words.tail {l : List Event} (h : Words l) : Words l.tail :=
  fun e he => h e (List.mem_of_mem_tail he)

theorem Sorted.suffix {l l' : List Event} (h : Sorted l) (s : l' <:+ l) : Sorted l' :=
  List.Pairwise.sublist s.sublist h
theorem NonNul.suffix {l l' : List Event} (h : NonNul l) (s : l' <:+ l) : NonNul l' :=
  fun e he => h e (s.subset he)
theorem NoTwin.suffix {l l' : List Event} (h : NoTwin l) (s : l' <:+ l) : NoTwin l' :=
  List.Pairwise.sublist s.sublist h

theorem Sorted.head_le {h : Event} {t : List Event} (hs : Sorted (h :: t)) :
    ∀ x ∈ h :: t, evLt x h = false := by
  intro x hx
  rcases List.mem_cons.mp hx with rfl | hx
  · exact evLt_irrefl _
  · exact (List.pairwise_cons.mp hs).1 x hx

theorem NoTwin.nodup {l : List Event} (h : NoTwin l) : l.Nodup := by
  unfold NoTwin at h
  unfold List.Nodup
  refine List.Pairwise.imp ?_ h
  intro a b hab heq
  subst heq
  rw [evEq_refl] at hab; cases hab

theorem hd_isNul_iff {l : List Event} (h : NonNul l) : (hd l).isNul = true ↔ l = [] := by
  cases l with
  | nil => simp [Event.isNul, Event.nul]
  | cons a t =>
    simp only [hd_cons, reduceCtorEq, iff_false, Bool.not_eq_true]
    exact h a (List.mem_cons_self)

/-! ### refinement of a list by a sub-stream implementation -/

/-- `ops` on the states satisfying `I` behaves like the list `abs s`:
both calls return its head (nul if empty), `pop` removes it, `peek` does not change it. -/
structure Refines {σ : Type} (ops : Ops σ) (abs : σ → List Event) (I : σ → Prop) : Prop where
  peek_val : ∀ s, I s → (ops.peek s).1 = (abs s).headD Event.nul
  peek_abs : ∀ s, I s → abs (ops.peek s).2 = abs s
  peek_inv : ∀ s, I s → I (ops.peek s).2
  pop_val  : ∀ s, I s → (ops.pop s).1 = (abs s).headD Event.nul
  pop_abs  : ∀ s, I s → abs (ops.pop s).2 = (abs s).tail
  pop_inv  : ∀ s, I s → I (ops.pop s).2

/-- the array stream refines its own list, under any invariant closed under `tail` -/
theorem listOps_refines (P : List Event → Prop) (hP : ∀ l, P l → P l.tail) :
    Refines listOps id P where
  peek_val := fun _ _ => rfl
  peek_abs := fun _ _ => rfl
  peek_inv := fun _ h => h
  pop_val := fun _ _ => rfl
  pop_abs := fun _ _ => rfl
  pop_inv := fun l h => hP l h

/-! ### scripts of calls -/

/-- one call: `true` = pop, `false` = peek -/
def call {σ : Type} (ops : Ops σ) (s : σ) (b : Bool) : Event × σ := if b then ops.pop s else ops.peek s

/-- the answers to all calls of a script -/
def answers {σ : Type} (ops : Ops σ) : σ → List Bool → List Event
  | _, [] => []
  | s, b :: sc => (call ops s b).1 :: answers ops (call ops s b).2 sc

/-- the answers to the pop calls of a script -/
def popped {σ : Type} (ops : Ops σ) : σ → List Bool → List Event
  | _, [] => []
  | s, b :: sc =>
    if b then (call ops s b).1 :: popped ops (call ops s b).2 sc else popped ops (call ops s b).2 sc

/-- the state after a script -/
def after {σ : Type} (ops : Ops σ) : σ → List Bool → σ
  | s, [] => s
  | s, b :: sc => after ops (call ops s b).2 sc

/-- number of pops in a script -/
def pops (sc : List Bool) : Nat := sc.count true

@[simp] theorem pops_nil : pops [] = 0 := rfl
@[simp] theorem pops_cons_true (sc : List Bool) : pops (true :: sc) = pops sc + 1 := by simp [pops]
@[simp] theorem pops_cons_false (sc : List Bool) : pops (false :: sc) = pops sc := by simp [pops]

/-- `n` answers out of a list, nul once it is used up -/
def deliver (l : List Event) : Nat → List Event
  | 0 => []
  | n+1 => hd l :: deliver l.tail n

theorem Refines.call_val {σ : Type} {ops : Ops σ} {abs : σ → List Event} {I : σ → Prop}
    (R : Refines ops abs I) (s : σ) (hs : I s) (b : Bool) : (call ops s b).1 = hd (abs s) := by
  cases b
  · exact R.peek_val s hs
  · exact R.pop_val s hs

theorem Refines.call_inv {σ : Type} {ops : Ops σ} {abs : σ → List Event} {I : σ → Prop}
    (R : Refines ops abs I) (s : σ) (hs : I s) (b : Bool) : I (call ops s b).2 := by
  cases b
  · exact R.peek_inv s hs
  · exact R.pop_inv s hs

theorem Refines.call_abs {σ : Type} {ops : Ops σ} {abs : σ → List Event} {I : σ → Prop}
    (R : Refines ops abs I) (s : σ) (hs : I s) (b : Bool) :
    abs (call ops s b).2 = if b then (abs s).tail else abs s := by
  cases b
  · exact R.peek_abs s hs
  · exact R.pop_abs s hs

/-- the pops of any script deliver the refined list in order, then nul -/
theorem Refines.popped_eq {σ : Type} {ops : Ops σ} {abs : σ → List Event} {I : σ → Prop}
    (R : Refines ops abs I) : ∀ (sc : List Bool) (s : σ), I s →
      popped ops s sc = deliver (abs s) (pops sc) := by
  intro sc
  induction sc with
  | nil => intro s _; rfl
  | cons b sc ih =>
    intro s hs
    cases b
    · simp only [popped, Bool.false_eq_true, if_false, pops_cons_false]
      rw [ih _ (R.call_inv s hs false), R.call_abs s hs false]; rfl
    · simp only [popped, if_true, pops_cons_true, deliver]
      rw [ih _ (R.call_inv s hs true), R.call_abs s hs true, R.call_val s hs true]; rfl

/-- every call of a script answers the head of what is left, and a peek leaves it unchanged -/
theorem Refines.after_abs {σ : Type} {ops : Ops σ} {abs : σ → List Event} {I : σ → Prop}
    (R : Refines ops abs I) : ∀ (sc : List Bool) (s : σ), I s →
      I (after ops s sc) ∧ abs (after ops s sc) = (abs s).drop (pops sc) := by
  intro sc
  induction sc with
  | nil => intro s hs; exact ⟨hs, rfl⟩
  | cons b sc ih =>
    intro s hs
    have := ih _ (R.call_inv s hs b)
    refine ⟨this.1, ?_⟩
    simp only [after]
    rw [this.2, R.call_abs s hs b]
    cases b
    · simp
    · simp [List.drop_tail] <;> rfl

/-- every answer of a script (peeks included) is nul or an event of the refined list -/
theorem Refines.answers_mem {σ : Type} {ops : Ops σ} {abs : σ → List Event} {I : σ → Prop}
    (R : Refines ops abs I) : ∀ (sc : List Bool) (s : σ), I s →
      ∀ e ∈ answers ops s sc, e.isNul = false → e ∈ abs s := by
  intro sc
  induction sc with
  | nil => intro s _ e he; cases he
  | cons b sc ih =>
    intro s hs e he hn
    simp only [answers] at he
    rcases List.mem_cons.mp he with h | h
    · rw [R.call_val s hs b] at h
      cases hl : abs s with
      | nil => rw [h, hl] at hn; simp [Event.isNul, Event.nul] at hn
      | cons a t => rw [hl] at h; rw [h]; exact List.mem_cons_self
    · have := ih _ (R.call_inv s hs b) e h hn
      rw [R.call_abs s hs b] at this
      cases b
      · exact this
      · exact List.mem_of_mem_tail this

theorem deliver_of_le (l : List Event) : ∀ n, n ≤ l.length → deliver l n = l.take n := by
  induction l with
  | nil => intro n hn; cases n with
    | zero => rfl
    | succ n => simp at hn
  | cons a t ih =>
    intro n hn
    cases n with
    | zero => rfl
    | succ n =>
      simp only [deliver, hd_cons, List.tail_cons, List.take_succ_cons]
      rw [ih n (by simpa using hn)]

theorem deliver_nil : ∀ n, deliver [] n = List.replicate n Event.nul := by
  intro n
  induction n with
  | zero => rfl
  | succ n ih => simp only [deliver, hd_nil, List.tail_nil, ih, List.replicate_succ]

theorem deliver_eq (l : List Event) : ∀ n, deliver l n = l.take n ++ List.replicate (n - l.length) Event.nul := by
  induction l with
  | nil => intro n; simp [deliver_nil]
  | cons a t ih =>
    intro n
    cases n with
    | zero => simp [deliver]
    | succ n =>
      simp only [deliver, hd_cons, List.tail_cons, List.take_succ_cons, List.length_cons, List.cons_append]
      rw [ih n, show n + 1 - (t.length + 1) = n - t.length by omega]

/-- enough pops deliver the whole list -/
theorem mem_deliver_of_le {l : List Event} {n : Nat} (h : l.length ≤ n) {e : Event} (he : e ∈ l) :
    e ∈ deliver l n := by
  rw [deliver_eq, List.take_of_length_le h]
  exact List.mem_append_left _ he

theorem mem_deliver {l : List Event} {n : Nat} {e : Event} (he : e ∈ deliver l n) (hn : e.isNul = false) :
    e ∈ l := by
  rw [deliver_eq] at he
  rcases List.mem_append.mp he with h | h
  · exact List.mem_of_mem_take h
  · rw [List.mem_replicate] at h
    rw [h.2] at hn; simp [Event.isNul, Event.nul] at hn

end Echse.Stream
