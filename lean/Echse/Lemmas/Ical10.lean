/-
  C10 lemmas, part 10: invariants of the automaton (`Inv`), the run-time side condition (`Good`), and the
  step at which a pending line turns out complete.
-/
import Echse.Lemmas.Ical9
namespace Echse.Ical

/-- skeleton and line agree -/
def Inv (A : Abs) : Prop :=
  (A.sc.empty = true ↔ A.cur = []) ∧ A.cur.length ≤ A.sc.raw ∧ (A.sc.sp = true → A.sc.empty = false)

theorem inv_init : Inv {} := ⟨by simp, by simp, by simp⟩

theorem plainA_inv (A : Abs) (c : Byte) (h : Inv A) : Inv (plainA A c) := by
  unfold plainA plainSc Inv
  by_cases h1 : c = CR
  · simp only [h1, true_or, if_true]; exact ⟨h.1, by have := h.2.1; omega, h.2.2⟩
  · by_cases h2 : c = NL
    · simp only [h2, or_true, if_true, if_neg nl_ne_cr]; exact ⟨h.1, by have := h.2.1; omega, h.2.2⟩
    · simp only [h1, h2, or_self, if_false]
      refine ⟨by simp, ?_, by simp⟩
      have := h.2.1; simp; omega

theorem flushA_inv (A : Abs) : Inv (flushA A) := by
  unfold Inv; rw [flushA_sc, flushA_cur]; simp

theorem stepA_inv (A : Abs) (c : Byte) (h : Inv A) : Inv (stepA A c) := by
  unfold stepA
  split
  · split
    · rename_i hp hf
      rw [stepSc_pend_fold _ _ hp hf]
      exact ⟨h.1, by have := h.2.1; show A.cur.length ≤ A.sc.raw + 1; omega, h.2.2⟩
    · exact plainA_inv _ _ (flushA_inv A)
  · exact plainA_inv _ _ h

theorem runA_inv (A : Abs) (l : List Byte) (h : Inv A) : Inv (runA A l) := by
  induction l generalizing A with
  | nil => exact h
  | cons c l ih => rw [runA_cons]; exact ih _ (stepA_inv A c h)

/-- the FORMER side condition at one position: the logical line is short (the bytes to come play no part).
Since the stash grows with the line, `feed_spec` no longer asks for it;
kept for the former hypothesis set `Tidy` of Props/C10. -/
def okAt (s : Sc) (_rest : List Byte) : Bool := decide (s.raw < 1000)

def Good (s : Sc) (rest : List Byte) : Prop := allSc okAt s rest = true

theorem good_nil (s : Sc) : Good s [] ↔ okAt s [] = true := by
  unfold Good allSc; exact Iff.rfl

theorem good_cons (s : Sc) (c : Byte) (r : List Byte) :
    Good s (c :: r) ↔ okAt s (c :: r) = true ∧ Good (stepSc s c) r := by
  unfold Good; rw [allSc]; simp

theorem good_head (s : Sc) (l : List Byte) (h : Good s l) : okAt s l = true := by
  cases l with
  | nil => exact (good_nil s).1 h
  | cons c r => exact ((good_cons s c r).1 h).1

theorem good_append (s : Sc) (x y : List Byte) (h : Good s (x ++ y)) : Good (runSc s x) y := by
  induction x generalizing s with
  | nil => exact h
  | cons c x ih =>
    rw [List.cons_append, good_cons] at h
    rw [runSc_cons]; exact ih _ h.2

theorem good_raw (s : Sc) (l : List Byte) (h : Good s l) : (runSc s l).raw < 1000 := by
  have := good_append s l [] (by simpa using h)
  have := good_head _ _ this
  unfold okAt at this
  simpa using this

theorem okAt_init (l : List Byte) : okAt {} l = true := by
  unfold okAt; simp

/-- restarting the skeleton in front of a byte that is no fold changes nothing behind it -/
theorem good_restart (s : Sc) (c : Byte) (r : List Byte) (hp : s.pend = true) (hf : isFold c = false)
    (h : Good s (c :: r)) : Good {} (c :: r) := by
  rw [good_cons] at h ⊢
  refine ⟨okAt_init _, ?_⟩
  have e1 : stepSc s c = plainSc {} c := stepSc_pend_nofold s c hp hf
  have e2 : stepSc {} c = plainSc {} c := stepSc_not_pend {} c rfl
  rw [e2, ← e1]; exact h.2

/-- a pending line followed by a byte that is no fold: the line is complete -/
theorem runA_flush (A : Abs) (c : Byte) (r : List Byte) (hp : A.sc.pend = true) (hf : isFold c = false) :
    runA A (c :: r) = runA (flushA A) (c :: r) := by
  rw [runA_cons, runA_cons, stepA_pend_nofold A c hp hf,
    stepA_not_pend (flushA A) c (by rw [flushA_sc])]

end Echse.Ical
