/-
  `bitint383_t` / `bitint447_t`: the native sorted-list mode (`assInt`), the degraded
  bitset mode (`assBs`), representation invariant `BigR`, its preservation by `assBig`,
  and what iteration yields under it.
-/
import Echse.Lemmas.Bi
namespace Echse.Bitint

/-! ### the native (sorted list) mode -/

instance (a b : Int) : Decidable (sLt a b) :=
  inferInstanceAs (Decidable (if b ≥ 0 then a ≥ 0 ∧ a < b else a > b))

theorem sLt_total (a b : Int) : a ≠ b → ¬ sLt a b → sLt b a := by
  unfold sLt; split <;> split <;> omega

theorem assInt_cons (v : Int) (vs : List Int) (x : Int) :
    assInt (v :: vs) x = if sLt v x then v :: assInt vs x else if v = x then v :: vs else x :: v :: vs := rfl

theorem assInt_mem (x : Int) : ∀ (vals : List Int) (a : Int), a ∈ assInt vals x ↔ a ∈ vals ∨ a = x := by
  intro vals
  induction vals with
  | nil => intro a; simp [assInt]
  | cons v vs ih =>
    intro a
    rw [assInt_cons]
    split
    · simp only [List.mem_cons, ih a]
      constructor
      · rintro (h | h | h) <;> simp [h]
      · rintro ((h | h) | h) <;> simp [h]
    · split
      · rename_i e
        subst e
        simp only [List.mem_cons]
        constructor
        · intro h; exact Or.inl h
        · rintro (h | h)
          · exact h
          · exact Or.inl h
      · simp only [List.mem_cons]
        constructor
        · rintro (h | h | h) <;> simp [h]
        · rintro ((h | h) | h) <;> simp [h]

theorem assInt_sorted (x : Int) : ∀ (vals : List Int), vals.Pairwise sLt → (assInt vals x).Pairwise sLt := by
  intro vals
  induction vals with
  | nil => intro _; simp [assInt]
  | cons v vs ih =>
    intro h
    rw [List.pairwise_cons] at h
    rw [assInt_cons]
    split
    · rename_i hlt
      rw [List.pairwise_cons]
      refine ⟨?_, ih h.2⟩
      intro a ha
      rcases (assInt_mem x vs a).mp ha with e | e
      · exact h.1 a e
      · subst e; exact hlt
    · split
      · exact List.pairwise_cons.mpr h
      · rename_i hlt hne
        have hxv : sLt x v := sLt_total v x hne hlt
        rw [List.pairwise_cons]
        refine ⟨?_, List.pairwise_cons.mpr h⟩
        intro a ha
        rcases List.mem_cons.mp ha with e | e
        · subst e; exact hxv
        · exact sLt_trans _ _ _ hxv (h.1 a e)

theorem assInt_length (x : Int) : ∀ (vals : List Int), (assInt vals x).length ≤ vals.length + 1 := by
  intro vals
  induction vals with
  | nil => simp [assInt]
  | cons v vs ih =>
    rw [assInt_cons]
    split
    · simp only [List.length_cons]; omega
    · split <;> simp only [List.length_cons] <;> omega

theorem bigIterate_succ (n : Nat) (bi : Big) (f iter : Nat) :
    bigIterate n bi (f+1) iter =
      if (bigNext n iter bi).2 = 0 then some []
      else (bigIterate n bi f (bigNext n iter bi).2).map ((bigNext n iter bi).1 :: ·) := rfl

theorem bigNext_native (n iter : Nat) (vals : List Int) :
    bigNext n iter (.native vals) =
      if iter ≥ vals.length then (0, 0) else (vals.getD iter 0, iter + 1) := rfl

theorem bigIterate_native (n : Nat) (vals : List Int) :
    ∀ fuel iter, (vals.length - iter) + 1 ≤ fuel →
      bigIterate n (.native vals) fuel iter = some (vals.drop iter) := by
  intro fuel
  induction fuel with
  | zero => intro iter h; omega
  | succ f ih =>
    intro iter hf
    rw [bigIterate_succ, bigNext_native]
    by_cases hc : iter ≥ vals.length
    · rw [if_pos hc, List.drop_eq_nil_of_le hc]; rfl
    · rw [if_neg hc]
      simp only []
      have hlt : iter < vals.length := by omega
      rw [if_neg (by omega), ih _ (by omega), List.drop_eq_getElem_cons hlt,
        List.getD_eq_getElem?_getD, List.getElem?_eq_getElem hlt]
      rfl

end Echse.Bitint
