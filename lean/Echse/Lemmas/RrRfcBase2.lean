/-
  Shared base of the C01 proofs for the daily and the weekly filler, part 2: the bit masks the fillers build from
  BYMONTH, BYDAY and BYMONTHDAY, read as the limits of the specification.
-/
import Echse.Lemmas.RrRfcBase
namespace Echse.Lemmas.RrRfc
open Echse.Rrule Echse.Instant Echse.Spec.RrOk Echse.Spec.Cal Echse.Spec.RuleExt Echse.Spec.Rfc
open Echse.Lemmas.RrOkBase

/-! ### bits -/

theorem bit_eq (a k : Nat) : bit a k = a.testBit k := by
  unfold bit
  rw [Nat.testBit_eq_decide_div_mod_eq, Nat.shiftRight_eq_div_pow]

theorem bit_or (a b k : Nat) : bit (a ||| b) k = (bit a k || bit b k) := by
  simp only [bit_eq, Nat.testBit_or]

theorem bit_shl (t k : Nat) : bit (1 <<< t) k = decide (t = k) := by
  rw [bit_eq, Nat.one_shiftLeft, Nat.testBit_two_pow]

theorem bit_zero (k : Nat) : bit 0 k = false := by
  rw [bit_eq, Nat.zero_testBit]

theorem shl_mod (t n : Nat) (h : t < n) : (1 <<< t) % 2 ^ n = 1 <<< t := by
  rw [Nat.one_shiftLeft]
  exact Nat.mod_eq_of_lt (Nat.pow_lt_pow_right (by omega) h)

theorem shl_mod_u32 (t : Nat) (h : t < 32) : (1 <<< t) % u32 = 1 <<< t := shl_mod t 32 h

theorem bit_mod256 (a k : Nat) (hk : k < 8) : bit (a % 256) k = bit a k := by
  rw [bit_eq, bit_eq, show (256 : Nat) = 2 ^ 8 from rfl, Nat.testBit_mod_two_pow]
  simp only [hk, decide_true, Bool.true_and]

theorem bit_small (a k : Nat) (h : a < 2) (hk : 1 ≤ k) : bit a k = false := by
  rw [bit_eq]
  apply Nat.testBit_lt_two_pow
  have : 2 ^ 1 ≤ 2 ^ k := Nat.pow_le_pow_right (by omega) hk
  omega

theorem ne_zero_of_bit {a k : Nat} (h : bit a k = true) : a ≠ 0 := by
  intro e; rw [e, bit_zero] at h; cases h

/-- the test `mask & (1U << k)` -/
theorem and_shl_eq_zero (a k : Nat) : (a &&& (1 <<< k) = 0) ↔ bit a k = false := by
  rw [bit_eq, Nat.one_shiftLeft]
  constructor
  · intro h
    cases hb : a.testBit k with
    | false => rfl
    | true =>
      have : (a &&& 2 ^ k).testBit k = true := by
        rw [Nat.testBit_and, hb, Nat.testBit_two_pow_self]; rfl
      rw [h, Nat.zero_testBit] at this
      cases this
  · intro h
    apply Nat.eq_of_testBit_eq
    intro i
    rw [Nat.testBit_and, Nat.testBit_two_pow, Nat.zero_testBit]
    by_cases c : k = i
    · subst c; rw [h]; rfl
    · simp only [c, decide_false, Bool.and_false]

/-! ### BYMONTH -/

theorem monFold_bit (l : List Nat) (a k : Nat) (hl : ∀ t ∈ l, t < 32) :
    bit (l.foldl (fun (m : Nat) (t : Nat) => m ||| ((1 <<< t) % u32)) a) k = (bit a k || decide (k ∈ l)) := by
  induction l generalizing a with
  | nil => simp
  | cons t ts ih =>
    rw [List.foldl_cons, ih _ (fun t ht => hl t (List.mem_cons_of_mem _ ht)),
      shl_mod_u32 t (hl t List.mem_cons_self), bit_or, bit_shl]
    by_cases c : t = k
    · subst c; simp
    · have c' : ¬ k = t := fun e => c e.symm
      simp [c, c']

theorem bit_allMon : ∀ k < 13, 1 ≤ k → bit 0b1111111111110 k = true := by decide

/-- the month mask is BYMONTH as a limit -/
theorem monMask_bit (mon : List Nat) (hm : ∀ t ∈ mon, 1 ≤ t ∧ t ≤ 12) (k : Nat) (h1 : 1 ≤ k) (h2 : k ≤ 12) :
    bit (monMask mon) k = true ↔ (mon = [] ∨ k ∈ mon) := by
  have hl : ∀ t ∈ mon, t < 32 := fun t ht => by have := hm t ht; omega
  unfold monMask
  simp only
  split
  · rename_i h0
    have : mon = [] := by
      cases mon with
      | nil => rfl
      | cons t ts =>
        exfalso
        have hb := monFold_bit (t :: ts) 0 t hl
        rw [h0, bit_zero] at hb
        simp at hb
    simp only [this, true_or, iff_true]
    exact bit_allMon k (by omega) h1
  · rename_i h0
    rw [monFold_bit mon 0 k hl, bit_zero]
    have hne : mon ≠ [] := by
      intro e; apply h0; rw [e]; rfl
    simp [hne]

/-! ### BYDAY -/

theorem mem_plainDays (r : Rule) (t : Int) : t ∈ plainDays r ↔ t ∈ r.dow ∧ 1 ≤ t ∧ t ≤ 7 := by
  unfold plainDays
  rw [List.mem_filter]
  simp only [decide_eq_true_eq]

theorem plainDays_nil (r : Rule) : plainDays r = [] ↔ ∀ k : Nat, 1 ≤ k → k ≤ 7 → (k : Int) ∉ r.dow := by
  constructor
  · intro h k h1 h2 hk
    have : (k : Int) ∈ plainDays r := (mem_plainDays r k).2 ⟨hk, by omega, by omega⟩
    rw [h] at this; cases this
  · intro h
    apply List.eq_nil_iff_forall_not_mem.2
    intro t ht
    obtain ⟨h1, h2, h3⟩ := (mem_plainDays r t).1 ht
    apply h t.toNat (by omega) (by omega)
    have : ((t.toNat : Nat) : Int) = t := by omega
    rw [this]; exact h1

/-- the fold of the daily filler's weekday mask -/
theorem wdFold_bit (l : List Int) (a k : Nat) (h1 : 1 ≤ k) (h7 : k ≤ 7) :
    bit (l.foldl (fun (m : Nat) (t : Int) => if 1 ≤ t ∧ t ≤ 7 then m ||| (1 <<< t.toNat) else m ||| 1) a) k =
      (bit a k || decide ((k : Int) ∈ l)) := by
  induction l generalizing a with
  | nil => simp
  | cons t ts ih =>
    rw [List.foldl_cons, ih]
    by_cases c : 1 ≤ t ∧ t ≤ 7
    · rw [if_pos c, bit_or, bit_shl]
      by_cases e : t.toNat = k
      · have : (k : Int) = t := by omega
        simp [e, this]
      · have : ¬ (k : Int) = t := by omega
        simp [e, this]
    · rw [if_neg c, bit_or, bit_small 1 k (by omega) h1]
      have : ¬ (k : Int) = t := by omega
      simp [this]

/-- … and of the weekly filler's -/
theorem wlyFold_bit (l : List Int) (a k : Nat) (h1 : 1 ≤ k) (h7 : k ≤ 7) :
    bit (l.foldl (fun (m : Nat) (t : Int) => if 1 ≤ t ∧ t ≤ 7 then m ||| ((1 <<< t.toNat) % 256) else m) a) k =
      (bit a k || decide ((k : Int) ∈ l)) := by
  induction l generalizing a with
  | nil => simp
  | cons t ts ih =>
    rw [List.foldl_cons, ih]
    by_cases c : 1 ≤ t ∧ t ≤ 7
    · rw [if_pos c, bit_or, shl_mod t.toNat 8 (by omega), bit_shl]
      by_cases e : t.toNat = k
      · have : (k : Int) = t := by omega
        simp [e, this]
      · have : ¬ (k : Int) = t := by omega
        simp [e, this]
    · rw [if_neg c]
      have : ¬ (k : Int) = t := by omega
      simp [this]

theorem wdMaskOf_bit (r : Rule) (k : Nat) (h1 : 1 ≤ k) (h7 : k ≤ 7) :
    bit (wdMaskOf r.dow) k = true ↔ (k : Int) ∈ plainDays r := by
  unfold wdMaskOf
  rw [bit_mod256 _ k (by omega), wdFold_bit r.dow 0 k h1 h7, bit_zero, mem_plainDays]
  simp only [Bool.false_or, decide_eq_true_eq]
  constructor
  · intro h; exact ⟨h, by omega, by omega⟩
  · intro h; exact h.1

theorem wlyWdMask_bit (r : Rule) (k : Nat) (h1 : 1 ≤ k) (h7 : k ≤ 7) :
    bit (wlyWdMask r.dow) k = true ↔ (k : Int) ∈ plainDays r := by
  unfold wlyWdMask
  rw [wlyFold_bit r.dow 0 k h1 h7, bit_zero, mem_plainDays]
  simp only [Bool.false_or, decide_eq_true_eq]
  constructor
  · intro h; exact ⟨h, by omega, by omega⟩
  · intro h; exact h.1

set_option maxRecDepth 20000 in
theorem small_of_bits : ∀ m < 256, (∀ k < 8, 1 ≤ k → bit m k = false) → m / 2 = 0 := by decide

theorem mask_half_zero {m : Nat} (hm : m < 256) : m / 2 = 0 ↔ ∀ k : Nat, 1 ≤ k → k ≤ 7 → bit m k = false := by
  constructor
  · intro h k h1 _; exact bit_small m k (by omega) h1
  · intro h; exact small_of_bits m hm (fun k hk h1 => h k h1 (by omega))

theorem wdMaskOf_half (r : Rule) : wdMaskOf r.dow / 2 = 0 ↔ plainDays r = [] := by
  have hlt : wdMaskOf r.dow < 256 := by unfold wdMaskOf; exact Nat.mod_lt _ (by omega)
  rw [mask_half_zero hlt, plainDays_nil]
  constructor
  · intro h k h1 h7 hk
    have := (wdMaskOf_bit r k h1 h7).2 ((mem_plainDays r k).2 ⟨hk, by omega, by omega⟩)
    rw [h k h1 h7] at this; cases this
  · intro h k h1 h7
    cases hb : bit (wdMaskOf r.dow) k with
    | false => rfl
    | true => exact absurd ((mem_plainDays r k).1 ((wdMaskOf_bit r k h1 h7).1 hb)).1 (h k h1 h7)

theorem wlyWdMask_zero (r : Rule) : wlyWdMask r.dow = 0 ↔ plainDays r = [] := by
  have hlt := wlyWdMask_lt r.dow
  rw [plainDays_nil]
  constructor
  · intro h k h1 h7 hk
    have := (wlyWdMask_bit r k h1 h7).2 ((mem_plainDays r k).2 ⟨hk, by omega, by omega⟩)
    rw [h, bit_zero] at this; cases this
  · intro h
    have h2 : wlyWdMask r.dow / 2 = 0 := by
      rw [mask_half_zero hlt]
      intro k h1 h7
      cases hb : bit (wlyWdMask r.dow) k with
      | false => rfl
      | true => exact absurd ((mem_plainDays r k).1 ((wlyWdMask_bit r k h1 h7).1 hb)).1 (h k h1 h7)
    have h0 : bit (wlyWdMask r.dow) 0 = false := by
      unfold wlyWdMask
      have key : ∀ (l : List Int) (a : Nat), bit a 0 = false →
          bit (l.foldl (fun (m : Nat) (t : Int) => if 1 ≤ t ∧ t ≤ 7 then m ||| ((1 <<< t.toNat) % 256) else m) a) 0 = false := by
        intro l
        induction l with
        | nil => intro a ha; exact ha
        | cons t ts ih =>
          intro a ha
          rw [List.foldl_cons]
          apply ih
          split
          · rename_i c
            rw [bit_or, ha, shl_mod t.toNat 8 (by omega), bit_shl]
            have : ¬ t.toNat = 0 := by omega
            simp [this]
          · exact ha
      exact key r.dow 0 (bit_zero 0)
    unfold bit at h0
    simp only [Nat.shiftRight_zero, decide_eq_false_iff_not] at h0
    omega

theorem bit_allWd : ∀ k < 8, 1 ≤ k → bit 0b11111110 k = true := by decide

/-- the weekday mask the day loop of the daily filler tests is BYDAY (plain weekdays) as a limit -/
theorem dlyWdMask_bit (r : Rule) (k : Nat) (h1 : 1 ≤ k) (h7 : k ≤ 7) :
    bit (if wdMaskOf r.dow / 2 = 0 then wdMaskOf r.dow ||| 0b11111110 else wdMaskOf r.dow) k = true ↔
      (plainDays r = [] ∨ (k : Int) ∈ plainDays r) := by
  by_cases c : wdMaskOf r.dow / 2 = 0
  · rw [if_pos c, bit_or, bit_allWd k (by omega) h1]
    simp only [Bool.or_true, true_iff]
    exact Or.inl ((wdMaskOf_half r).1 c)
  · rw [if_neg c, wdMaskOf_bit r k h1 h7]
    have : ¬ plainDays r = [] := fun e => c ((wdMaskOf_half r).2 e)
    simp only [this, false_or]

end Echse.Lemmas.RrRfc
