/-
  The result accumulator of the daily / weekly filler (kept in reverse): what is known of its members (`Mem`, `Acc`),
  the generic ENUM loop `genEnum` (of which `wlyEnum` and `dlyEnum` are instances) with its invariant, and the step
  from a final accumulator to `FillOk`.
-/
import Echse.Lemmas.RrOkEnum
namespace Echse.Lemmas.RrOkBase
open Echse.Rrule Echse.Instant Echse.Spec.RrOk

structure Mem (r : Rule) (p z : Inst) : Prop where
  wf : WfInst z
  ms : z.ms = p.ms
  ge : ltP z p = false
  le : ltP r.untl z = false

structure Acc (r : Rule) (p : Inst) (nti : Nat) (res : List Inst) : Prop where
  mem : ∀ z ∈ res, Mem r p z
  desc : res.Pairwise (fun a b => ikey b < ikey a)
  len : res.length ≤ nti

theorem Acc.nil (r : Rule) (p : Inst) (nti : Nat) : Acc r p nti [] := by
  refine ⟨?_, List.Pairwise.nil, Nat.zero_le _⟩
  intro z hz; cases hz

theorem inR_of_wf {z : Inst} (h : WfInst z) : InR z := by
  have hb := ndom_bounds z.y z.m h.month.1 h.month.2
  have h1 := h.year; have h2 := h.month; have h3 := h.day; have h5 := h.ms
  have h4 : z.H < 256 ∧ z.M < 60 ∧ z.S < 60 := by
    rcases h.time with ⟨a, b, c⟩ | ⟨a, b, c⟩
    · unfold allDay at a; omega
    · omega
  exact ⟨by omega, by omega, by omega, by omega, by omega, by omega, h5⟩

theorem tkey_lt {h mi s : Nat} (ht : TimeGood h mi s) : tkey h mi s < 4194304 := by
  unfold tkey
  rcases ht with ⟨a, b, c⟩ | ⟨a, b, c⟩ <;> omega

theorem mkInst_eq {y m d h mi s ms : Nat} (hv : VD y m d) (hy : y ≤ 2099) (ht : TimeGood h mi s) (hms : ms < 1024) :
    (let x := mkInst y m d h mi s ms; { x with y := x.y % 4096 }) = ⟨y, m, d, h, mi, s, ms⟩ ∧
    mkInst y m d h mi s ms = ⟨y, m, d, h, mi, s, ms⟩ := by
  have hd := hv.d31
  have hm := hv.2.1
  have hh : h < 256 ∧ mi < 256 ∧ s < 64 := by
    rcases ht with ⟨a, b, c⟩ | ⟨a, b, c⟩ <;> omega
  simp only [mkInst]
  rw [Nat.mod_eq_of_lt (show y < 65536 by omega), Nat.mod_eq_of_lt (show y < 4096 by omega),
    Nat.mod_eq_of_lt (show m < 256 by omega), Nat.mod_eq_of_lt (show d < 256 by omega),
    Nat.mod_eq_of_lt hh.1, Nat.mod_eq_of_lt hh.2.1, Nat.mod_eq_of_lt hh.2.2, Nat.mod_eq_of_lt hms]
  exact ⟨rfl, rfl⟩

/-- the instant the ENUM loop writes is a sane one -/
theorem mem_new {r : Rule} {p : Inst} {y m d h mi s : Nat} (hp : WfInst p) (hv : VD y m d) (hy : y ≤ 2099)
    (ht : TimeGood h mi s) (hge : ltP ⟨y, m, d, h, mi, s, p.ms⟩ p = false)
    (hle : ltP r.untl ⟨y, m, d, h, mi, s, p.ms⟩ = false) : Mem r p ⟨y, m, d, h, mi, s, p.ms⟩ := by
  have hd := hv.d31
  have hm := hv.2.1
  have hh : h < 256 ∧ mi < 256 ∧ s < 64 := by
    rcases ht with ⟨a, b, c⟩ | ⟨a, b, c⟩ <;> omega
  have hin : InR (⟨y, m, d, h, mi, s, p.ms⟩ : Inst) :=
    ⟨by show y < 65536; omega, by show m < 256; omega, by show d < 256; omega, hh.1, hh.2.1, hh.2.2, hp.ms⟩
  have hpr := inR_of_wf hp
  have hk := (ltP_key_false _ _ hin hpr rfl).1 hge
  have hy1 : p.y ≤ y := by
    obtain ⟨g1, g2, g3, g4, g5, g6, g7⟩ := hpr
    simp only [ikey, dkey, tkey] at hk
    omega
  refine ⟨⟨?_, ⟨hv.1, hv.2.1⟩, ⟨hv.2.2.1, hv.2.2.2⟩, ?_, hp.ms⟩, rfl, hge, hle⟩
  · have := hp.year; show 1601 ≤ y ∧ y ≤ 2100; omega
  · exact ht

/-- the ENUM loop shared by `wlyEnum` (`brk` = the month is not in BYMONTH) and `dlyEnum` (`brk = false`) -/
def genEnum (r : Rule) (p : Inst) (nti : Nat) (brk : Bool) (skip : Nat × Nat × Nat → Bool) (y m d : Nat) :
    List Tix → List Inst → List Inst × Bool
  | [], res => (res, false)
  | (ix, (h, mi, s)) :: rest, res =>
    if ¬ res.length < nti then (res, false) else
    let x := mkInst y m d h mi s p.ms
    if ltP x p then genEnum r p nti brk skip y m d rest res
    else if ltP r.untl x then (res, true)
    else if brk then (res, false)
    else if skip ix then genEnum r p nti brk skip y m d rest res
    else genEnum r p nti brk skip y m d rest ({ x with y := x.y % 4096 } :: res)

theorem genEnum_spec (r : Rule) (p : Inst) (nti : Nat) (brk : Bool) (skip : Nat × Nat × Nat → Bool) (y m d : Nat)
    (hp : WfInst p) (hv : VD y m d) (hy : y ≤ 2099) :
    ∀ (l : List Tix) (res : List Inst),
      (∀ t ∈ l, TimeGood t.2.1 t.2.2.1 t.2.2.2) →
      l.Pairwise (fun a b => TK a < TK b) →
      Acc r p nti res →
      (∀ z ∈ res, ∀ t ∈ l, ikey z < dkey y m d * 4194304 + TK t) →
      (∀ z ∈ res, ikey z < (dkey y m d + 1) * 4194304) →
      Acc r p nti (genEnum r p nti brk skip y m d l res).1 ∧
      ∀ z ∈ (genEnum r p nti brk skip y m d l res).1, ikey z < (dkey y m d + 1) * 4194304 := by
  intro l
  induction l with
  | nil => intro res _ _ hacc _ hdone; exact ⟨hacc, hdone⟩
  | cons t rest ih =>
    obtain ⟨ix, h, mi, s⟩ := t
    intro res hgood hasc hacc hlt hdone
    have hgood' : ∀ t ∈ rest, TimeGood t.2.1 t.2.2.1 t.2.2.2 := fun t ht => hgood t (List.mem_cons_of_mem _ ht)
    have hasc' := (List.pairwise_cons.1 hasc).2
    have hlt' : ∀ z ∈ res, ∀ t ∈ rest, ikey z < dkey y m d * 4194304 + TK t :=
      fun z hz t ht => hlt z hz t (List.mem_cons_of_mem _ ht)
    have htg : TimeGood h mi s := hgood _ (List.mem_cons_self)
    obtain ⟨e1, e2⟩ := mkInst_eq hv hy htg hp.ms
    unfold genEnum
    by_cases hlen : res.length < nti
    · simp only [hlen, not_true_eq_false, if_false]
      rw [e2]
      by_cases c1 : ltP ⟨y, m, d, h, mi, s, p.ms⟩ p = true
      · rw [if_pos c1]; exact ih res hgood' hasc' hacc hlt' hdone
      · rw [if_neg c1]
        by_cases c2 : ltP r.untl ⟨y, m, d, h, mi, s, p.ms⟩ = true
        · rw [if_pos c2]; exact ⟨hacc, hdone⟩
        · rw [if_neg c2]
          by_cases c3 : brk = true
          · rw [if_pos c3]; exact ⟨hacc, hdone⟩
          · rw [if_neg c3]
            by_cases c4 : skip ix = true
            · rw [if_pos c4]; exact ih res hgood' hasc' hacc hlt' hdone
            · rw [if_neg c4]
              have hy4 : y % 4096 = y := Nat.mod_eq_of_lt (by omega)
              simp only [hy4]
              have hmem : Mem r p ⟨y, m, d, h, mi, s, p.ms⟩ :=
                mem_new hp hv hy htg (by simpa using c1) (by simpa using c2)
              have hk : ikey (⟨y, m, d, h, mi, s, p.ms⟩ : Inst) = dkey y m d * 4194304 + tkey h mi s := rfl
              have htk := tkey_lt htg
              refine ih _ hgood' hasc' ⟨?_, ?_, ?_⟩ ?_ ?_
              · intro z hz
                rcases List.mem_cons.1 hz with hz | hz
                · rw [hz]; exact hmem
                · exact hacc.mem z hz
              · refine List.pairwise_cons.2 ⟨?_, hacc.desc⟩
                intro z hz
                have := hlt z hz _ (List.mem_cons_self)
                rw [hk]; exact this
              · simp only [List.length_cons]; omega
              · intro z hz t ht
                rcases List.mem_cons.1 hz with hz | hz
                · rw [hz, hk]
                  have := (List.pairwise_cons.1 hasc).1 t ht
                  simp only [TK] at this ⊢
                  omega
                · exact hlt' z hz t ht
              · intro z hz
                rcases List.mem_cons.1 hz with hz | hz
                · rw [hz, hk]; omega
                · exact hdone z hz
    · simp only [hlen, not_false_eq_true, if_true]; exact ⟨hacc, hdone⟩

/-! ### written instants lie before the days still to come -/

/-- every written instant is earlier than any day at an offset ≥ `D` from the month `(y, m)` -/
def Below (res : List Inst) (y m D : Nat) : Prop :=
  ∀ z ∈ res, ∀ D' y' m' d', D ≤ D' → Carry y m D' y' m' d' → ikey z < dkey y' m' d' * 4194304

theorem Below.nil (y m D : Nat) : Below [] y m D := by
  intro z hz; cases hz

theorem Below.mono {res : List Inst} {y m D D2 : Nat} (h : Below res y m D) (hle : D ≤ D2) : Below res y m D2 :=
  fun z hz D' y' m' d' hD hc => h z hz D' y' m' d' (by omega) hc

theorem Below.rebase {res : List Inst} {y m D y2 m2 d2 : Nat} (hc : Carry y m D y2 m2 d2) (h : Below res y m D) :
    Below res y2 m2 d2 := by
  intro z hz D' y' m' d' hD hc'
  have e : d2 + (D' - d2) = D' := by omega
  rw [← e] at hc'
  exact h z hz (D + (D' - d2)) y' m' d' (by omega) (hc.comp _ _ _ _ hc')

theorem below_of_done {res : List Inst} {y m D ty tm td : Nat} (hc : Carry y m D ty tm td) (h1 : 1 ≤ m) (h2 : m ≤ 12)
    (hD : 1 ≤ D) (h : ∀ z ∈ res, ikey z < (dkey ty tm td + 1) * 4194304) : Below res y m (D + 1) := by
  intro z hz D' y' m' d' hD' hc'
  have h3 : dkey ty tm td < dkey y' m' d' := hc.mono D' y' m' d' hc' (by omega) h1 h2 hD
  have h4 := h z hz
  have h5 : (dkey ty tm td + 1) * 4194304 ≤ dkey y' m' d' * 4194304 := Nat.mul_le_mul_right _ h3
  exact Nat.lt_of_lt_of_le h4 h5

/-! ### from the final accumulator to `FillOk` -/

theorem fillOk_of_acc {r : Rule} {p : Inst} {nti n : Nat} {res : List Inst} (hacc : Acc r p nti res) (hn : nti ≤ n)
    (hc : 0 ≤ r.count → (nti : Int) ≤ r.count) : FillOk r p n res.reverse := by
  have hlen := hacc.len
  refine ⟨?_, ?_, ?_, ?_, ?_, ?_⟩
  · rw [List.length_reverse]; omega
  · intro h0; have := hc h0; rw [List.length_reverse]; omega
  · intro x hx; exact (hacc.mem x (List.mem_reverse.1 hx)).wf
  · intro x hx; exact (hacc.mem x (List.mem_reverse.1 hx)).ge
  · intro x hx; exact (hacc.mem x (List.mem_reverse.1 hx)).le
  · rw [List.pairwise_reverse]
    refine hacc.desc.imp_of_mem ?_
    intro a b ha hb hlt
    have ma := hacc.mem a ha
    have mb := hacc.mem b hb
    exact (ltP_key b a (inR_of_wf mb.wf) (inR_of_wf ma.wf) (by rw [ma.ms, mb.ms])).2 hlt

theorem fillOk_nil (r : Rule) (p : Inst) (n : Nat) : FillOk r p n [] := by
  refine ⟨Nat.zero_le _, ?_, ?_, ?_, ?_, List.Pairwise.nil⟩
  · intro h; exact h
  · intro x hx; cases hx
  · intro x hx; cases hx
  · intro x hx; cases hx

theorem capNti_spec {r : Rule} {n nti : Nat} (hr : WfRule r) (h : capNti r n = some nti) :
    nti ≤ n ∧ (0 ≤ r.count → (nti : Int) ≤ r.count) := by
  have hc := hr.count
  have key : ∀ cu : Nat, cu = (r.count % ((4294967296 : Nat) : Int)).toNat →
      (if cu < n then (if cu = 0 then none else some cu) else some n) = some nti →
      nti ≤ n ∧ (0 ≤ r.count → (nti : Int) ≤ r.count) := by
    intro cu hcu h
    by_cases a : cu < n
    · rw [if_pos a] at h
      by_cases b : cu = 0
      · rw [if_pos b] at h; cases h
      · rw [if_neg b] at h; cases h; omega
    · rw [if_neg a] at h; cases h; omega
  exact key _ rfl h

end Echse.Lemmas.RrOkBase
