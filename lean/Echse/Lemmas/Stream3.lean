/-
  Stream layer, part 3: scripts of calls on the list-level merge `lOps`, and the reference
  merge `mergeRef` (what the pops deliver), with its characterisation.
-/
import Echse.Lemmas.Stream2
namespace Echse.Stream

/-- keeps the events, drops the nul answers -/
def nn (e : Event) : Bool := !e.isNul

theorem nn_nul : nn Event.nul = false := rfl

theorem nn_iff (e : Event) : nn e = true ↔ e.isNul = false := by
  simp [nn]

/-! ### scripts on `lOps` -/

theorem Valid.step {ls : List (List Event)} (hv : Valid ls) (b : Bool) : Valid (lstep ls b).2 :=
  (lstep_suf ls b).valid hv

theorem Guard.step {ls : List (List Event)} (hg : Guard ls) (b : Bool) : Guard (lstep ls b).2 :=
  Guard.suf (lstep_suf ls b) hg

/-- a list of a later state is the rest of a list of the earlier one -/
theorem step_mem {ls : List (List Event)} (b : Bool) {l' : List Event} (hl' : l' ∈ (lstep ls b).2)
    {e : Event} (he : e ∈ l') : ∃ l ∈ ls, e ∈ l := by
  obtain ⟨l, hl, hs⟩ := (lstep_suf ls b).mem l' hl'
  exact ⟨l, hl, hs.subset he⟩

/-- no invention: a popped event comes from a source -/
theorem lpopped_mem : ∀ (sc : List Bool) (ls : List (List Event)),
    ∀ e ∈ popped lOps ls sc, e.isNul = false → ∃ l ∈ ls, e ∈ l := by
  intro sc
  induction sc with
  | nil => intro ls e he; cases he
  | cons b sc ih =>
    intro ls e he hn
    have later : e ∈ popped lOps (lstep ls b).2 sc → ∃ l ∈ ls, e ∈ l := by
      intro h
      obtain ⟨l', hl', hm⟩ := ih _ e h hn
      exact step_mem b hl' hm
    cases b
    · simp only [popped, call_lOps, Bool.false_eq_true, if_false] at he
      exact later he
    · simp only [popped, call_lOps, if_true] at he
      rcases List.mem_cons.mp he with rfl | he
      · rcases lstep_mem ls true with h | h
        · rw [lstep_empty h] at hn; cases hn
        · exact h
      · exact later he

/-- order: the popped events are in non-decreasing start order -/
theorem lpopped_sorted : ∀ (sc : List Bool) (ls : List (List Event)), Valid ls →
    Sorted ((popped lOps ls sc).filter nn) := by
  intro sc
  induction sc with
  | nil => intro ls _; exact List.Pairwise.nil
  | cons b sc ih =>
    intro ls hv
    cases b
    · simp only [popped, call_lOps, Bool.false_eq_true, if_false]
      exact ih _ (hv.step false)
    · simp only [popped, call_lOps, if_true, List.filter_cons]
      split
      · refine List.pairwise_cons.mpr ⟨?_, ih _ (hv.step true)⟩
        intro e' he'
        rw [List.mem_filter] at he'
        obtain ⟨l', hl', hm⟩ := lpopped_mem sc _ e' he'.1 ((nn_iff _).mp he'.2)
        obtain ⟨l, hl, hx⟩ := step_mem true hl' hm
        exact lstep_min hv true l hl e' hx
      · exact ih _ (hv.step true)

/-- no loss: a script with enough pops delivers every source event (or one identical to it) -/
theorem lpopped_complete : ∀ (sc : List Bool) (ls : List (List Event)), total ls ≤ pops sc →
    ∀ l ∈ ls, ∀ x ∈ l, ∃ e ∈ popped lOps ls sc, evEq e x = true := by
  intro sc
  induction sc with
  | nil =>
    intro ls ht l hl x hx
    have : total ls = 0 := by simpa using ht
    rw [total_eq_zero.mp this l hl] at hx; cases hx
  | cons b sc ih =>
    intro ls ht l hl x hx
    have hne : ¬ ∀ l ∈ ls, l = [] := fun h => by rw [h l hl] at hx; cases hx
    have later : (∃ l' ∈ (lstep ls b).2, ∃ x' ∈ l', evEq x' x = true) →
        ∃ e ∈ popped lOps (lstep ls b).2 sc, evEq e x = true := by
      intro ⟨l', hl', x', hx', he⟩
      have ht' : total (lstep ls b).2 ≤ pops sc := by
        cases b
        · have := lstep_total_le ls false
          simp only [pops_cons_false] at ht; omega
        · have := lstep_total_pop ls hne
          simp only [pops_cons_true] at ht; omega
      obtain ⟨e, he1, he2⟩ := ih _ ht' l' hl' x' hx'
      exact ⟨e, he1, evEq_trans he2 he⟩
    rcases lstep_keep ls b l hl x hx with h | ⟨hb, h⟩
    · obtain ⟨e, he1, he2⟩ := later h
      refine ⟨e, ?_, he2⟩
      cases b
      · simpa only [popped, call_lOps, Bool.false_eq_true, if_false] using he1
      · simp only [popped, call_lOps, if_true]
        exact List.mem_cons_of_mem _ he1
    · subst hb
      refine ⟨(lstep ls true).1, ?_, h⟩
      simp only [popped, call_lOps, if_true]
      exact List.mem_cons_self

/-- collapse: under the guard no occurrence is popped twice -/
theorem lpopped_notwin : ∀ (sc : List Bool) (ls : List (List Event)), Valid ls → Guard ls →
    NoTwin ((popped lOps ls sc).filter nn) := by
  intro sc
  induction sc with
  | nil => intro ls _ _; exact List.Pairwise.nil
  | cons b sc ih =>
    intro ls hv hg
    cases b
    · simp only [popped, call_lOps, Bool.false_eq_true, if_false]
      exact ih _ (hv.step false) (hg.step false)
    · simp only [popped, call_lOps, if_true, List.filter_cons]
      split
      · refine List.pairwise_cons.mpr ⟨?_, ih _ (hv.step true) (hg.step true)⟩
        intro e' he'
        rw [List.mem_filter] at he'
        obtain ⟨l', hl', hm⟩ := lpopped_mem sc _ e' he'.1 ((nn_iff _).mp he'.2)
        rw [evEq_comm]
        exact lstep_collapse hv hg l' hl' e' hm
      · exact ih _ (hv.step true) (hg.step true)

/-- dead: once all sources are exhausted every call answers nul -/
theorem lanswers_dead : ∀ (sc : List Bool) (ls : List (List Event)), (∀ l ∈ ls, l = []) →
    answers lOps ls sc = List.replicate sc.length Event.nul := by
  intro sc
  induction sc with
  | nil => intro ls _; rfl
  | cons b sc ih =>
    intro ls h
    simp only [answers, call_lOps, lstep_empty h, List.length_cons, List.replicate_succ]
    rw [ih [] (fun l hl => by cases hl)]

theorem lpopped_dead : ∀ (sc : List Bool) (ls : List (List Event)), (∀ l ∈ ls, l = []) →
    (popped lOps ls sc).filter nn = [] := by
  intro sc
  induction sc with
  | nil => intro ls _; rfl
  | cons b sc ih =>
    intro ls h
    have h0 : ∀ l ∈ ([] : List (List Event)), l = [] := fun l hl => by cases hl
    cases b
    · simp only [popped, call_lOps, Bool.false_eq_true, if_false, lstep_empty h]
      exact ih [] h0
    · simp only [popped, call_lOps, if_true, lstep_empty h, List.filter_cons, nn_nul]
      exact ih [] h0

/-! ### the reference merge -/

/-- pop until nul -/
def mergeFuel : Nat → List (List Event) → List Event
  | 0, _ => []
  | n+1, ls =>
    if (lstep ls true).1.isNul then [] else (lstep ls true).1 :: mergeFuel n (lstep ls true).2

/-- what is still to be delivered from the lists `ls`: the first of the earliest heads, heads
identical to it dropped from the later lists, and so on -/
def mergeRef (ls : List (List Event)) : List Event := mergeFuel (total ls) ls

theorem lstep_nul_of_empty {ls : List (List Event)} (h : ∀ l ∈ ls, l = []) (b : Bool) :
    (lstep ls b).1.isNul = true := by rw [lstep_empty h]; rfl

theorem not_empty_of_nonnul {ls : List (List Event)} {b : Bool} (h : ¬ (lstep ls b).1.isNul = true) :
    ¬ ∀ l ∈ ls, l = [] := fun he => h (lstep_nul_of_empty he b)

theorem mergeFuel_stable : ∀ (n m : Nat) (ls : List (List Event)), total ls ≤ n → total ls ≤ m →
    mergeFuel n ls = mergeFuel m ls := by
  intro n
  induction n with
  | zero =>
    intro m ls h0 _
    have he := total_eq_zero.mp (Nat.le_zero.mp h0)
    cases m with
    | zero => rfl
    | succ m => simp only [mergeFuel, lstep_nul_of_empty he, if_true]
  | succ n ih =>
    intro m ls hn hm
    cases m with
    | zero =>
      have he := total_eq_zero.mp (Nat.le_zero.mp hm)
      simp only [mergeFuel, lstep_nul_of_empty he, if_true]
    | succ m =>
      simp only [mergeFuel]
      split
      · rfl
      · rename_i hnn
        have := lstep_total_pop ls (not_empty_of_nonnul hnn)
        rw [ih m _ (by omega) (by omega)]

theorem mergeFuel_eq_popped : ∀ (n : Nat) (ls : List (List Event)), Valid ls →
    mergeFuel n ls = (popped lOps ls (List.replicate n true)).filter nn := by
  intro n
  induction n with
  | zero => intro ls _; rfl
  | succ n ih =>
    intro ls hv
    simp only [mergeFuel, List.replicate_succ, popped, call_lOps, if_true, List.filter_cons, nn]
    by_cases hnul : (lstep ls true).1.isNul = true
    · have he := (lstep_nul_iff hv true).mp hnul
      simp only [hnul, if_true, Bool.not_true, Bool.false_eq_true, if_false]
      rw [lstep_empty he]
      exact (lpopped_dead _ [] (fun l hl => by cases hl)).symm
    · simp only [hnul, Bool.not_eq_true] at *
      simp only [Bool.not_false, if_true]
      rw [ih _ (hv.step true)]; rfl

theorem mergeRef_eq_popped {ls : List (List Event)} (hv : Valid ls) :
    mergeRef ls = (popped lOps ls (List.replicate (total ls) true)).filter nn :=
  mergeFuel_eq_popped _ ls hv

theorem pops_replicate (n : Nat) : pops (List.replicate n true) = n := by
  simp [pops]

theorem mergeRef_nonnul {ls : List (List Event)} (hv : Valid ls) : NonNul (mergeRef ls) := by
  intro e he
  rw [mergeRef_eq_popped hv, List.mem_filter] at he
  exact (nn_iff e).mp he.2

theorem mergeRef_sorted {ls : List (List Event)} (hv : Valid ls) : Sorted (mergeRef ls) := by
  rw [mergeRef_eq_popped hv]; exact lpopped_sorted _ ls hv

/-- every merged event comes from a source … -/
theorem mergeRef_sub {ls : List (List Event)} (hv : Valid ls) :
    ∀ e ∈ mergeRef ls, ∃ l ∈ ls, e ∈ l := by
  intro e he
  rw [mergeRef_eq_popped hv, List.mem_filter] at he
  exact lpopped_mem _ ls e he.1 ((nn_iff e).mp he.2)

/-- … and every source event, or one identical to it, is merged -/
theorem mergeRef_complete {ls : List (List Event)} (hv : Valid ls) :
    ∀ l ∈ ls, ∀ x ∈ l, ∃ e ∈ mergeRef ls, evEq e x = true := by
  intro l hl x hx
  obtain ⟨e, he1, he2⟩ := lpopped_complete (List.replicate (total ls) true) ls
    (by rw [pops_replicate]; exact Nat.le_refl _) l hl x hx
  refine ⟨e, ?_, he2⟩
  rw [mergeRef_eq_popped hv, List.mem_filter]
  refine ⟨he1, ?_⟩
  rw [nn_iff]
  have := (hv l hl).1 x hx
  simp only [Event.isNul] at this ⊢
  rw [evEq_from he2]; exact this

/-- under the guard no occurrence is merged twice -/
theorem mergeRef_notwin {ls : List (List Event)} (hv : Valid ls) (hg : Guard ls) : NoTwin (mergeRef ls) := by
  rw [mergeRef_eq_popped hv]; exact lpopped_notwin _ ls hv hg

theorem mergeRef_hd {ls : List (List Event)} (hv : Valid ls) : hd (mergeRef ls) = (lstep ls true).1 := by
  unfold mergeRef
  cases ht : total ls with
  | zero =>
    rw [lstep_empty (total_eq_zero.mp ht)]; rfl
  | succ n =>
    simp only [mergeFuel]
    split
    · rename_i hnul
      rw [lstep_empty ((lstep_nul_iff hv true).mp hnul)]; rfl
    · rfl

theorem mergeRef_pop {ls : List (List Event)} (hv : Valid ls) :
    mergeRef (lstep ls true).2 = (mergeRef ls).tail := by
  unfold mergeRef
  cases ht : total ls with
  | zero =>
    rw [lstep_empty (total_eq_zero.mp ht)]; rfl
  | succ n =>
    simp only [mergeFuel]
    split
    · rename_i hnul
      rw [lstep_empty ((lstep_nul_iff hv true).mp hnul)]; rfl
    · rename_i hnn
      have := lstep_total_pop ls (not_empty_of_nonnul hnn)
      simp only [List.tail_cons]
      exact mergeFuel_stable _ _ _ (Nat.le_refl _) (by omega)

/-- with no occurrence twice in a source, a peek leaves the merge unchanged -/
theorem mergeRef_peek {ls : List (List Event)} (hv : Valid ls) (hn : ∀ l ∈ ls, NoTwin l) :
    mergeRef (lstep ls false).2 = mergeRef ls := by
  unfold mergeRef
  have hle := lstep_total_le ls false
  rw [mergeFuel_stable _ (total ls) _ (Nat.le_refl _) hle]
  cases ht : total ls with
  | zero => rfl
  | succ n => simp only [mergeFuel, lstep_again hv hn true]

/-- sources that are sorted, nul-free and list no occurrence twice -/
def SrcInv (ls : List (List Event)) : Prop := Valid ls ∧ ∀ l ∈ ls, NoTwin l

theorem SrcInv.step {ls : List (List Event)} (h : SrcInv ls) (b : Bool) : SrcInv (lstep ls b).2 := by
  refine ⟨h.1.step b, ?_⟩
  intro l' hl'
  obtain ⟨l, hl, hs⟩ := (lstep_suf ls b).mem l' hl'
  exact (h.2 l hl).suffix hs

/-- the list-level merge refines the reference merge -/
theorem lOps_refines : Refines lOps mergeRef SrcInv where
  peek_val := fun ls h => by
    show (lstep ls false).1 = _
    rw [lstep_val]; exact (mergeRef_hd h.1).symm
  peek_abs := fun ls h => mergeRef_peek h.1 h.2
  peek_inv := fun ls h => h.step false
  pop_val := fun ls h => (mergeRef_hd h.1).symm
  pop_abs := fun ls h => mergeRef_pop h.1
  pop_inv := fun ls h => h.step true

end Echse.Stream
