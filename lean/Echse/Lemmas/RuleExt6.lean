/-
  C17 lemmas, part 6: membership in the candidate sets (`assC`, `Cand3.ass`, folds of them).
-/
import Echse.Model.Rrule
namespace Echse.RuleExt
open Echse.Rrule

theorem assC_mem (l : List Nat) (v x : Nat) : x ∈ assC l v ↔ x ∈ l ∨ x = v := by
  induction l with
  | nil => simp [assC]
  | cons a l ih =>
    unfold assC
    split
    · simp only [List.mem_cons]; grind
    · split
      · simp only [List.mem_cons]; grind
      · simp only [List.mem_cons, ih]; grind

theorem foldl_assC_mem (cs l : List Nat) (x : Nat) : x ∈ cs.foldl assC l ↔ x ∈ l ∨ x ∈ cs := by
  induction cs generalizing l with
  | nil => simp
  | cons c cs ih =>
    simp only [List.foldl_cons, ih, assC_mem, List.mem_cons]
    grind

/-- which set an index names -/
def nb (k : Nat) : Nat := if k = 0 then 0 else if k = 1 then 1 else 2

theorem nb_lt (k : Nat) : nb k < 3 := by unfold nb; split <;> (try split) <;> omega
theorem nb_nb (k : Nat) : nb (nb k) = nb k := by
  unfold nb; by_cases h0 : k = 0 <;> by_cases h1 : k = 1 <;> simp [h0, h1]
theorem get_nb (c : Cand3) (k : Nat) : c.get (nb k) = c.get k := by
  unfold nb Cand3.get; by_cases h0 : k = 0 <;> by_cases h1 : k = 1 <;> simp [h0, h1]
theorem nb_of_lt (k : Nat) (h : k < 3) : nb k = k := by unfold nb; split <;> (try split) <;> omega

theorem ass_get (res : Cand3) (b v k x : Nat) :
    x ∈ (res.ass b v).get k ↔ x ∈ res.get k ∨ (nb b = nb k ∧ x = v) := by
  unfold Cand3.ass Cand3.get nb
  by_cases hb0 : b = 0 <;> by_cases hb1 : b = 1 <;> by_cases hk0 : k = 0 <;> by_cases hk1 : k = 1 <;>
    simp [hb0, hb1, hk0, hk1, assC_mem] <;> omega

theorem foldl_ass_mem {α : Type} (F : α → Nat × Nat) (l : List α) (res0 : Cand3) (k x : Nat) :
    x ∈ (l.foldl (fun res c => res.ass (F c).1 (F c).2) res0).get k ↔
      x ∈ res0.get k ∨ ∃ c ∈ l, nb (F c).1 = nb k ∧ x = (F c).2 := by
  induction l generalizing res0 with
  | nil => simp
  | cons a l ih =>
    simp only [List.foldl_cons, ih, ass_get, List.mem_cons]
    constructor
    · intro h
      rcases h with (h|h)|⟨c, hc, h⟩
      · exact Or.inl h
      · exact Or.inr ⟨a, Or.inl rfl, h⟩
      · exact Or.inr ⟨c, Or.inr hc, h⟩
    · intro h
      rcases h with h|⟨c, hc|hc, h⟩
      · exact Or.inl (Or.inl h)
      · subst hc; exact Or.inl (Or.inr h)
      · exact Or.inr ⟨c, hc, h⟩
end Echse.RuleExt
