/-
  Shared base of the C01 proofs for the daily and the weekly filler, part 4: the generic ENUM loop `genEnum` —
  what it writes (`genEnum_mem`) and what it cannot miss (`genEnum_complete`).
-/
import Echse.Lemmas.RrRfcBase3
namespace Echse.Lemmas.RrRfc
open Echse.Rrule Echse.Instant Echse.Spec.RrOk Echse.Spec.Cal Echse.Spec.RuleExt Echse.Spec.Rfc
open Echse.Lemmas.RrOkBase

theorem genEnum_subset (r : Rule) (p : Inst) (nti : Nat) (brk : Bool) (skip : Nat × Nat × Nat → Bool) (y m d : Nat) :
    ∀ (l : List Tix) (res : List Inst) (z : Inst), z ∈ res → z ∈ (genEnum r p nti brk skip y m d l res).1 := by
  intro l
  induction l with
  | nil => intro res z hz; exact hz
  | cons t rest ih =>
    obtain ⟨ix, h, mi, s⟩ := t
    intro res z hz
    unfold genEnum
    simp only
    split
    · exact hz
    · split
      · exact ih res z hz
      · split
        · exact hz
        · split
          · exact hz
          · split
            · exact ih res z hz
            · exact ih _ z (List.mem_cons_of_mem _ hz)

/-- every instant the ENUM loop writes: a time of the list on the day `y-m-d`, not before the seed, not after UNTIL,
not skipped -/
theorem genEnum_mem (r : Rule) (p : Inst) (nti : Nat) (brk : Bool) (skip : Nat × Nat × Nat → Bool) {y m d : Nat}
    (hp : WfInst p) (hv : VD y m d) (hy : y ≤ 2099) :
    ∀ (l : List Tix) (res : List Inst), (∀ t ∈ l, TimeGood t.2.1 t.2.2.1 t.2.2.2) →
      ∀ z ∈ (genEnum r p nti brk skip y m d l res).1, z ∈ res ∨
        (brk = false ∧ ∃ t ∈ l, skip t.1 = false ∧ z = ⟨y, m, d, t.2.1, t.2.2.1, t.2.2.2, p.ms⟩ ∧ ltP z p = false ∧
          ltP r.untl z = false) := by
  intro l
  induction l with
  | nil => intro res _ z hz; exact Or.inl hz
  | cons t rest ih =>
    obtain ⟨ix, h, mi, s⟩ := t
    intro res hgood z hz
    have hgood' : ∀ t ∈ rest, TimeGood t.2.1 t.2.2.1 t.2.2.2 := fun t ht => hgood t (List.mem_cons_of_mem _ ht)
    have htg : TimeGood h mi s := hgood _ (List.mem_cons_self)
    obtain ⟨e1, e2⟩ := mkInst_eq hv hy htg hp.ms
    have lift : (z ∈ res ∨ (brk = false ∧ ∃ t ∈ rest, skip t.1 = false ∧ z = ⟨y, m, d, t.2.1, t.2.2.1, t.2.2.2, p.ms⟩ ∧
        ltP z p = false ∧ ltP r.untl z = false)) → (z ∈ res ∨ (brk = false ∧ ∃ t ∈ (ix, h, mi, s) :: rest,
        skip t.1 = false ∧ z = ⟨y, m, d, t.2.1, t.2.2.1, t.2.2.2, p.ms⟩ ∧ ltP z p = false ∧ ltP r.untl z = false)) := by
      rintro (a | ⟨b, t, ht, c⟩)
      · exact Or.inl a
      · exact Or.inr ⟨b, t, List.mem_cons_of_mem _ ht, c⟩
    unfold genEnum at hz
    simp only at hz
    rw [e2] at hz
    split at hz
    · exact Or.inl hz
    · split at hz
      · exact lift (ih res hgood' z hz)
      · rename_i c1
        split at hz
        · exact Or.inl hz
        · rename_i c2
          split at hz
          · exact Or.inl hz
          · rename_i c3
            split at hz
            · exact lift (ih res hgood' z hz)
            · rename_i c4
              have hy4 : y % 4096 = y := Nat.mod_eq_of_lt (by omega)
              simp only [hy4] at hz
              rcases ih _ hgood' z hz with a | b
              · rcases List.mem_cons.1 a with a | a
                · right
                  refine ⟨by simpa using c3, (ix, h, mi, s), List.mem_cons_self, by simpa using c4, a, ?_, ?_⟩
                  · rw [a]; simpa using c1
                  · rw [a]; simpa using c2
                · exact Or.inl a
              · exact lift (Or.inr b)

theorem inR_mk {y m d h mi s ms : Nat} (hv : VD y m d) (hy : y ≤ 2099) (ht : TimeGood h mi s) (hms : ms < 1024) :
    InR (⟨y, m, d, h, mi, s, ms⟩ : Inst) := by
  have hd := hv.d31
  have hm := hv.2.1
  have hh : h < 256 ∧ mi < 256 ∧ s < 64 := by
    rcases ht with ⟨a, b, c⟩ | ⟨a, b, c⟩ <;> omega
  exact ⟨by show y < 65536; omega, by show m < 256; omega, by show d < 256; omega, hh.1, hh.2.1, hh.2.2, hms⟩

/-- the ENUM loop cannot miss an instant `x` of its day: it ends with `x` written, or full with earlier instants only -/
theorem genEnum_complete (r : Rule) (p : Inst) (nti : Nat) (brk : Bool) (skip : Nat × Nat × Nat → Bool) {y m d : Nat}
    (hp : WfInst p) (hv : VD y m d) (hy : y ≤ 2099) (ix : Nat × Nat × Nat) (h mi s : Nat) (x : Inst)
    (hx : x = ⟨y, m, d, h, mi, s, p.ms⟩) (hbrk : brk = false) (hskip : skip ix = false)
    (hge : ltP x p = false) (hle : ltP r.untl x = false) :
    ∀ (l : List Tix) (res : List Inst), (∀ t ∈ l, TimeGood t.2.1 t.2.2.1 t.2.2.2) →
      l.Pairwise (fun a b => TK a < TK b) → (ix, h, mi, s) ∈ l → (∀ z ∈ res, ikey z < ikey x) → res.length ≤ nti →
      x ∈ (genEnum r p nti brk skip y m d l res).1 ∨
        ((genEnum r p nti brk skip y m d l res).1.length = nti ∧
          ∀ z ∈ (genEnum r p nti brk skip y m d l res).1, ikey z < ikey x) := by
  intro l
  induction l with
  | nil => intro res _ _ hm; cases hm
  | cons t rest ih =>
    obtain ⟨ix0, h0, mi0, s0⟩ := t
    intro res hgood hasc hmem hres hlen
    subst hbrk
    have hgood' : ∀ t ∈ rest, TimeGood t.2.1 t.2.2.1 t.2.2.2 := fun t ht => hgood t (List.mem_cons_of_mem _ ht)
    have hasc' := (List.pairwise_cons.1 hasc).2
    have htg : TimeGood h0 mi0 s0 := hgood _ (List.mem_cons_self)
    obtain ⟨e1, e2⟩ := mkInst_eq hv hy htg hp.ms
    unfold genEnum
    simp only
    rw [e2]
    by_cases hl : res.length < nti
    · rw [if_neg (by omega)]
      rcases List.mem_cons.1 hmem with hm | hm
      · -- the head is `x`
        have e : ix = ix0 ∧ h = h0 ∧ mi = mi0 ∧ s = s0 := by
          simp only [Prod.mk.injEq] at hm; exact ⟨hm.1, hm.2.1, hm.2.2.1, hm.2.2.2⟩
        obtain ⟨rfl, rfl, rfl, rfl⟩ := e
        rw [← hx, hge, hle, hskip]
        simp only [Bool.false_eq_true, if_false]
        have hy4 : y % 4096 = y := Nat.mod_eq_of_lt (by omega)
        left
        apply genEnum_subset
        rw [hx]
        simp only [hy4]
        exact List.mem_cons_self
      · -- `x` comes later
        have hlt : TK (ix0, h0, mi0, s0) < TK (ix, h, mi, s) := (List.pairwise_cons.1 hasc).1 _ hm
        have htx : TimeGood h mi s := hgood' _ hm
        have hk0 : ikey (⟨y, m, d, h0, mi0, s0, p.ms⟩ : Inst) < ikey x := by
          rw [hx]; simp only [ikey, TK] at hlt ⊢; omega
        split
        · exact ih res hgood' hasc' hm hres hlen
        · split
          · rename_i c2
            exfalso
            have := ltP_mono_right r.untl _ x (inR_mk hv hy htg hp.ms) (by rw [hx]; exact inR_mk hv hy htx hp.ms)
              (by rw [hx]) c2 (by omega)
            rw [hle] at this; cases this
          · simp only [Bool.false_eq_true, if_false]
            split
            · exact ih res hgood' hasc' hm hres hlen
            · have hy4 : y % 4096 = y := Nat.mod_eq_of_lt (by omega)
              try simp only [hy4]
              refine ih _ hgood' hasc' hm ?_ (by simp only [List.length_cons]; omega)
              intro z hz
              rcases List.mem_cons.1 hz with hz | hz
              · rw [hz]; exact hk0
              · exact hres z hz
    · rw [if_pos (by omega)]
      exact Or.inr ⟨by show res.length = nti; omega, hres⟩

/-- the ENUM loop says `fin` only on meeting a time after UNTIL -/
theorem genEnum_fin (r : Rule) (p : Inst) (nti : Nat) (brk : Bool) (skip : Nat × Nat × Nat → Bool) {y m d : Nat}
    (hp : WfInst p) (hv : VD y m d) (hy : y ≤ 2099) :
    ∀ (l : List Tix) (res : List Inst), (∀ t ∈ l, TimeGood t.2.1 t.2.2.1 t.2.2.2) →
      (genEnum r p nti brk skip y m d l res).2 = true →
      ∃ t ∈ l, ltP r.untl ⟨y, m, d, t.2.1, t.2.2.1, t.2.2.2, p.ms⟩ = true := by
  intro l
  induction l with
  | nil => intro res _ h; cases h
  | cons t rest ih =>
    obtain ⟨ix, h, mi, s⟩ := t
    intro res hgood hf
    have hgood' : ∀ t ∈ rest, TimeGood t.2.1 t.2.2.1 t.2.2.2 := fun t ht => hgood t (List.mem_cons_of_mem _ ht)
    have htg : TimeGood h mi s := hgood _ (List.mem_cons_self)
    obtain ⟨e1, e2⟩ := mkInst_eq hv hy htg hp.ms
    have lift : (∃ t ∈ rest, ltP r.untl ⟨y, m, d, t.2.1, t.2.2.1, t.2.2.2, p.ms⟩ = true) →
        ∃ t ∈ (ix, h, mi, s) :: rest, ltP r.untl ⟨y, m, d, t.2.1, t.2.2.1, t.2.2.2, p.ms⟩ = true := by
      rintro ⟨t, ht, c⟩; exact ⟨t, List.mem_cons_of_mem _ ht, c⟩
    unfold genEnum at hf
    simp only at hf
    rw [e2] at hf
    split at hf
    · cases hf
    · split at hf
      · exact lift (ih res hgood' hf)
      · split at hf
        · rename_i c2
          exact ⟨(ix, h, mi, s), List.mem_cons_self, c2⟩
        · split at hf
          · cases hf
          · split at hf
            · exact lift (ih res hgood' hf)
            · exact lift (ih _ hgood' hf)

theorem carry_det {y m D a b c : Nat} (h1 : Carry y m D a b c) : ∀ {a' b' c' : Nat}, Carry y m D a' b' c' →
    a = a' ∧ b = b' ∧ c = c' := by
  induction h1 with
  | done h =>
    intro a' b' c' h2
    cases h2 with
    | done _ => exact ⟨rfl, rfl, rfl⟩
    | step hd _ => omega
  | step hd _ ih =>
    intro a' b' c' h2
    cases h2 with
    | done h => omega
    | step _ h2' => exact ih h2'

/-- the day's weekday, carried along by the day loop -/
theorem wday_step (n : Int) (k : Nat) (hk : k < 2147483648) :
    (if (wdayOf n + k % u32) % u32 > 7 then ((wdayOf n + k % u32) % u32 - 1) % 7 + 1 else (wdayOf n + k % u32) % u32) =
      wdayOf (n + k) := by
  have hw : 1 ≤ wdayOf n ∧ wdayOf n ≤ 7 := by unfold wdayOf; omega
  have e1 : (wdayOf n + k % u32) % u32 = wdayOf n + k := by unfold u32; omega
  rw [e1]
  have e2 : wdayOf (n + k) = (wdayOf n + k - 1) % 7 + 1 := by unfold wdayOf; omega
  rw [e2]
  split <;> omega

theorem lt_aux (A B t K t2 : Nat) (h1 : A + K ≤ B) (ht : t < K) : A + t < B + t2 := by omega

/-- an instant of an earlier day is an earlier instant -/
theorem ikey_day_lt {y m d h mi s ms : Nat} {x : Inst} (hd : dkey y m d < dkey x.y x.m x.d)
    (ht : tkey h mi s < 4194304) : ikey (⟨y, m, d, h, mi, s, ms⟩ : Inst) < ikey x := by
  have h1 : (dkey y m d + 1) * 4194304 ≤ dkey x.y x.m x.d * 4194304 := Nat.mul_le_mul_right _ hd
  rw [Nat.succ_mul] at h1
  exact lt_aux _ _ _ _ _ h1 ht

theorem wdayOf_range (n : Int) : 1 ≤ wdayOf n ∧ wdayOf n ≤ 7 := by unfold wdayOf; omega

theorem lowOk_seed {p : Inst} (hy : 1901 ≤ p.y) : LowOk p.y p.m := Or.inl (by omega)

/-- a carry does not go back in years -/
theorem carry_year {y m D y2 m2 d2 : Nat} (hc : Carry y m D y2 m2 d2) (h1 : 1 ≤ m) (h2 : m ≤ 12) (hD : 1 ≤ D) :
    y ≤ y2 := by
  obtain ⟨hv, -, -, hor⟩ := hc.props h1 h2 hD
  have := hv.2.1
  rcases hor with ⟨e, _, _⟩ | ⟨_, h⟩ <;> omega

theorem days_2100 : days 2100 1 1 = 766950 := by decide
theorem days_1901 : days 1901 1 1 = 694266 := by decide

theorem days_ge_1901 {y m d : Nat} (hy : 1901 ≤ y) (h1 : 1 ≤ m) (h2 : m ≤ 12) (hd : 1 ≤ d) : 694266 ≤ days y m d := by
  have a := days_year_mono 1901 y hy
  have b := days_month_mono y 1 m (by omega) h1 h2
  have c := days_d y m d
  rw [days_1901] at a
  omega

theorem mem_getElem? {l : List Nat} {a : Nat} (h : a ∈ l) : ∃ i : Nat, l[i]? = some a := by
  obtain ⟨i, hi, e⟩ := List.mem_iff_getElem.1 h
  exact ⟨i, by rw [List.getElem?_eq_getElem hi, e]⟩

/-- the number of results a filler may produce: `nti`, or COUNT if smaller (0 if COUNT is used up) -/
def capOf (r : Rule) (n : Nat) : Nat := (capNti r n).getD 0

end Echse.Lemmas.RrRfc
