/-
  C17 lemmas, part 1: Easter (`easter_get_yday` against the anonymous Gregorian computus), by enumeration of the
  199 years 1901..2099.
-/
import Echse.Model.Rrule
import Echse.Spec.RuleExt
namespace Echse.RuleExt
open Echse.Rrule Echse.Spec.Cal Echse.Spec.RuleExt

/-- per-year check: day of the year, weekday, and the month/day the computus yields (March or April, valid day) -/
def easterChk (y : Nat) : Bool :=
  decide ((easterGetYday y : Int) = easterDay y - days y 1 1 + 1) && decide (wdayOf (easterDay y) = 7)
  && decide (81 ≤ easterGetYday y ∧ easterGetYday y ≤ 116)

theorem easterChk_all : (List.range 199).all (fun i => easterChk (1901 + i)) = true := by decide +kernel

theorem easterChk_of (y : Nat) (h1 : 1901 ≤ y) (h2 : y ≤ 2099) : easterChk y = true := by
  have h := List.all_eq_true.mp easterChk_all (y - 1901) (by simp; omega)
  have e : 1901 + (y - 1901) = y := by omega
  simpa [e] using h

theorem easter_yday (y : Nat) (h1 : 1901 ≤ y) (h2 : y ≤ 2099) :
    (easterGetYday y : Int) = easterDay y - days y 1 1 + 1 := by
  have h := easterChk_of y h1 h2
  simp [easterChk] at h
  exact h.1.1

theorem easter_wday (y : Nat) (h1 : 1901 ≤ y) (h2 : y ≤ 2099) : wdayOf (easterDay y) = 7 := by
  have h := easterChk_of y h1 h2
  simp [easterChk] at h
  exact h.1.2

theorem easter_yday_bounds (y : Nat) (h1 : 1901 ≤ y) (h2 : y ≤ 2099) :
    81 ≤ easterGetYday y ∧ easterGetYday y ≤ 116 := by
  have h := easterChk_of y h1 h2
  simp [easterChk] at h
  exact h.2

end Echse.RuleExt
