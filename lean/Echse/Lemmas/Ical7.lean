/-
  C10 lemmas, part 7: pieces of one logical line (`lineEnd`) and what `eolR` says about the buffer.
-/
import Echse.Lemmas.Ical2
namespace Echse.Ical

def isFold (c : Byte) : Bool := c == SP || c == TAB

/-- `some b`: the bytes are a piece of ONE logical line (every NL in it, except a last one, is followed by
fold whitespace); `b` says whether the piece ends in its NL.  `none`: a line ends inside. -/
def lineEnd : List Byte → Option Bool
  | [] => some false
  | c :: r =>
    if c = NL then
      match r with
      | [] => some true
      | d :: r' => if isFold d then lineEnd r' else none
    else lineEnd r

theorem lineEnd_nil : lineEnd [] = some false := by simp [lineEnd]
theorem lineEnd_cons_ne (c : Byte) (r : List Byte) (h : c ≠ NL) : lineEnd (c :: r) = lineEnd r := by
  cases r <;> simp [lineEnd, h]
theorem lineEnd_nl : lineEnd [NL] = some true := by simp [lineEnd]
theorem lineEnd_nl_cons (d : Byte) (r : List Byte) :
    lineEnd (NL :: d :: r) = if isFold d then lineEnd r else none := by simp [lineEnd]

theorem isFold_iff (c : Byte) : isFold c = true ↔ (c = SP ∨ c = TAB) := by
  unfold isFold; simp

theorem isFold_ne_nl (c : Byte) (h : isFold c = true) : c ≠ NL := by
  rw [isFold_iff] at h
  intro hc; subst hc
  cases h with
  | inl h => exact absurd h (by decide)
  | inr h => exact absurd h (by decide)

/-- no line end in the buffer, and it does not end in NL -/
theorem eolR_none : ∀ (n : Nat) (b : List Byte), b.length ≤ n → eolR b = none → lineEnd b = some false
  | _, [], _, _ => lineEnd_nil
  | 0, c :: r, hn, _ => by simp at hn
  | n+1, c :: r, hn, h => by
    have hn' : r.length ≤ n := by simp at hn; omega
    by_cases hc : c = NL
    · subst hc
      cases r with
      | nil => rw [eolR_nl_nil] at h; cases h
      | cons d r' =>
        rw [eolR_nl_cons] at h
        rw [lineEnd_nl_cons]
        by_cases hd : d = SP ∨ d = TAB
        · rw [if_pos hd] at h
          have hf : isFold d = true := (isFold_iff d).2 hd
          rw [if_pos hf]
          rw [eolR_cons_ne _ _ (isFold_ne_nl d hf)] at h
          have h' : eolR r' = none := by
            cases hx : eolR r' with
            | none => rfl
            | some v => rw [hx] at h; simp at h
          exact eolR_none n r' (by simp at hn'; omega) h'
        · rw [if_neg hd] at h; cases h
    · rw [eolR_cons_ne _ _ hc] at h
      rw [lineEnd_cons_ne _ _ hc]
      have h' : eolR r = none := by
        cases hx : eolR r with
        | none => rfl
        | some v => rw [hx] at h; simp at h
      exact eolR_none n r hn' h'

/-- a line ends at `e`: the bytes before are one logical line with its NL, the byte behind is no fold -/
theorem eolR_some : ∀ (n : Nat) (b : List Byte) (e : Nat), b.length ≤ n → eolR b = some e →
    lineEnd (b.take e) = some true ∧ (∀ d r, b.drop e = d :: r → isFold d = false)
  | _, [], e, _, h => by simp [eolR] at h
  | 0, c :: r, e, hn, _ => by simp at hn
  | n+1, c :: r, e, hn, h => by
    have hn' : r.length ≤ n := by simp at hn; omega
    by_cases hc : c = NL
    · subst hc
      cases r with
      | nil =>
        rw [eolR_nl_nil] at h; cases h
        exact ⟨by simp [lineEnd_nl], by intro d r hd; simp at hd⟩
      | cons d r' =>
        rw [eolR_nl_cons] at h
        by_cases hd : d = SP ∨ d = TAB
        · rw [if_pos hd] at h
          have hf : isFold d = true := (isFold_iff d).2 hd
          rw [eolR_cons_ne _ _ (isFold_ne_nl d hf)] at h
          cases hx : eolR r' with
          | none => rw [hx] at h; simp at h
          | some v =>
            rw [hx] at h; simp at h; subst h
            have ih := eolR_some n r' v (by simp at hn'; omega) hx
            refine ⟨?_, ?_⟩
            · simp only [List.take_succ_cons]
              rw [lineEnd_nl_cons, if_pos hf]; exact ih.1
            · intro d2 r2 hd2
              simp only [List.drop_succ_cons] at hd2
              exact ih.2 d2 r2 hd2
        · rw [if_neg hd] at h; cases h
          refine ⟨by simp [lineEnd_nl], ?_⟩
          intro d2 r2 hd2
          simp at hd2
          rw [← hd2.1]
          cases hfd : isFold d with
          | false => rfl
          | true => exact absurd ((isFold_iff d).1 hfd) hd
    · rw [eolR_cons_ne _ _ hc] at h
      cases hx : eolR r with
      | none => rw [hx] at h; simp at h
      | some v =>
        rw [hx] at h; simp at h; subst h
        have ih := eolR_some n r v hn' hx
        refine ⟨?_, ?_⟩
        · simp only [List.take_succ_cons]
          rw [lineEnd_cons_ne _ _ hc]; exact ih.1
        · intro d2 r2 hd2
          simp only [List.drop_succ_cons] at hd2
          exact ih.2 d2 r2 hd2

end Echse.Ical
