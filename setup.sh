#!/bin/sh
# offline set-up: build the Lean library (models, lemmas, property theorems) and the model driver.
set -e
cd "$(dirname "$0")"
python3 - <<'PY'
import sys, os
sys.path.insert(0, os.getcwd())
from tools import gen
print("generated:", gen.generate("/repo/src", "lean/Echse/Gen"))
PY
mkdir -p lean/.lake
cd lean
flock .lake/verif.lock lake build Echse echsemodel
