/-
  C15 enumeration part (written once by a loop, then static): Gregorian scale, per date index,
  chunks 0..35 of 1024 points.
  One theorem per chunk: each is checked by the kernel on its own (bounded memory and heartbeats).
-/
import Echse.Lemmas.C15Enum
namespace Echse.Scale

theorem dateA_c0 : allFrom (chkD) (0 + 1024 * (0 + 0)) 1024 = true := by decide +kernel
theorem dateA_c1 : allFrom (chkD) (0 + 1024 * (0 + 1)) 1024 = true := by decide +kernel
theorem dateA_c2 : allFrom (chkD) (0 + 1024 * (0 + 2)) 1024 = true := by decide +kernel
theorem dateA_c3 : allFrom (chkD) (0 + 1024 * (0 + 3)) 1024 = true := by decide +kernel
theorem dateA_c4 : allFrom (chkD) (0 + 1024 * (0 + 4)) 1024 = true := by decide +kernel
theorem dateA_c5 : allFrom (chkD) (0 + 1024 * (0 + 5)) 1024 = true := by decide +kernel
theorem dateA_c6 : allFrom (chkD) (0 + 1024 * (0 + 6)) 1024 = true := by decide +kernel
theorem dateA_c7 : allFrom (chkD) (0 + 1024 * (0 + 7)) 1024 = true := by decide +kernel
theorem dateA_c8 : allFrom (chkD) (0 + 1024 * (0 + 8)) 1024 = true := by decide +kernel
theorem dateA_c9 : allFrom (chkD) (0 + 1024 * (0 + 9)) 1024 = true := by decide +kernel
theorem dateA_c10 : allFrom (chkD) (0 + 1024 * (0 + 10)) 1024 = true := by decide +kernel
theorem dateA_c11 : allFrom (chkD) (0 + 1024 * (0 + 11)) 1024 = true := by decide +kernel
theorem dateA_c12 : allFrom (chkD) (0 + 1024 * (0 + 12)) 1024 = true := by decide +kernel
theorem dateA_c13 : allFrom (chkD) (0 + 1024 * (0 + 13)) 1024 = true := by decide +kernel
theorem dateA_c14 : allFrom (chkD) (0 + 1024 * (0 + 14)) 1024 = true := by decide +kernel
theorem dateA_c15 : allFrom (chkD) (0 + 1024 * (0 + 15)) 1024 = true := by decide +kernel
theorem dateA_c16 : allFrom (chkD) (0 + 1024 * (0 + 16)) 1024 = true := by decide +kernel
theorem dateA_c17 : allFrom (chkD) (0 + 1024 * (0 + 17)) 1024 = true := by decide +kernel
theorem dateA_c18 : allFrom (chkD) (0 + 1024 * (0 + 18)) 1024 = true := by decide +kernel
theorem dateA_c19 : allFrom (chkD) (0 + 1024 * (0 + 19)) 1024 = true := by decide +kernel
theorem dateA_c20 : allFrom (chkD) (0 + 1024 * (0 + 20)) 1024 = true := by decide +kernel
theorem dateA_c21 : allFrom (chkD) (0 + 1024 * (0 + 21)) 1024 = true := by decide +kernel
theorem dateA_c22 : allFrom (chkD) (0 + 1024 * (0 + 22)) 1024 = true := by decide +kernel
theorem dateA_c23 : allFrom (chkD) (0 + 1024 * (0 + 23)) 1024 = true := by decide +kernel
theorem dateA_c24 : allFrom (chkD) (0 + 1024 * (0 + 24)) 1024 = true := by decide +kernel
theorem dateA_c25 : allFrom (chkD) (0 + 1024 * (0 + 25)) 1024 = true := by decide +kernel
theorem dateA_c26 : allFrom (chkD) (0 + 1024 * (0 + 26)) 1024 = true := by decide +kernel
theorem dateA_c27 : allFrom (chkD) (0 + 1024 * (0 + 27)) 1024 = true := by decide +kernel
theorem dateA_c28 : allFrom (chkD) (0 + 1024 * (0 + 28)) 1024 = true := by decide +kernel
theorem dateA_c29 : allFrom (chkD) (0 + 1024 * (0 + 29)) 1024 = true := by decide +kernel
theorem dateA_c30 : allFrom (chkD) (0 + 1024 * (0 + 30)) 1024 = true := by decide +kernel
theorem dateA_c31 : allFrom (chkD) (0 + 1024 * (0 + 31)) 1024 = true := by decide +kernel
theorem dateA_c32 : allFrom (chkD) (0 + 1024 * (0 + 32)) 1024 = true := by decide +kernel
theorem dateA_c33 : allFrom (chkD) (0 + 1024 * (0 + 33)) 1024 = true := by decide +kernel
theorem dateA_c34 : allFrom (chkD) (0 + 1024 * (0 + 34)) 1024 = true := by decide +kernel
theorem dateA_c35 : allFrom (chkD) (0 + 1024 * (0 + 35)) 1024 = true := by decide +kernel

theorem dateA_chunks : ∀ c, c < 36 → allFrom (chkD) (0 + 1024 * (0 + c)) 1024 = true
  | 0, _ => dateA_c0
  | 1, _ => dateA_c1
  | 2, _ => dateA_c2
  | 3, _ => dateA_c3
  | 4, _ => dateA_c4
  | 5, _ => dateA_c5
  | 6, _ => dateA_c6
  | 7, _ => dateA_c7
  | 8, _ => dateA_c8
  | 9, _ => dateA_c9
  | 10, _ => dateA_c10
  | 11, _ => dateA_c11
  | 12, _ => dateA_c12
  | 13, _ => dateA_c13
  | 14, _ => dateA_c14
  | 15, _ => dateA_c15
  | 16, _ => dateA_c16
  | 17, _ => dateA_c17
  | 18, _ => dateA_c18
  | 19, _ => dateA_c19
  | 20, _ => dateA_c20
  | 21, _ => dateA_c21
  | 22, _ => dateA_c22
  | 23, _ => dateA_c23
  | 24, _ => dateA_c24
  | 25, _ => dateA_c25
  | 26, _ => dateA_c26
  | 27, _ => dateA_c27
  | 28, _ => dateA_c28
  | 29, _ => dateA_c29
  | 30, _ => dateA_c30
  | 31, _ => dateA_c31
  | 32, _ => dateA_c32
  | 33, _ => dateA_c33
  | 34, _ => dateA_c34
  | 35, _ => dateA_c35
  | n + 36, h => absurd h (by omega)

theorem dateA : ∀ k, 0 + 1024 * 0 ≤ k → k < 0 + 1024 * (0 + 36) → chkD k = true :=
  allFrom_chunks _ _ _ _ _ dateA_chunks

end Echse.Scale
