/-
  Lemmas for C13: what each chunk adds to each sink under `prep (Cfg.mk' so se same mo me)`, for all
  2^5 inputs (case split, `simp`), lifted to chunk lists by one general induction (`content_of_pointwise`).
-/
import Echse.Model.Exec
namespace Echse.Exec

/-- the chunks selected by `f`, their bytes concatenated in order -/
def proj (f : Chunk → Bool) (chunks : List Chunk) : List Nat := ((chunks.filter f).map (·.2)).flatten

/-- the stdout bytes in order -/
def outB (chunks : List Chunk) : List Nat := proj (·.1) chunks
/-- the stderr bytes in order -/
def errB (chunks : List Chunk) : List Nat := proj (fun ch => !ch.1) chunks

theorem proj_nil (f : Chunk → Bool) : proj f [] = [] := rfl

theorem proj_cons (f : Chunk → Bool) (ch : Chunk) (chunks : List Chunk) :
    proj f (ch :: chunks) = (if f ch then ch.2 else []) ++ proj f chunks := by
  unfold proj
  by_cases h : f ch = true <;> simp [h]

theorem proj_true (chunks : List Chunk) : proj (fun _ => true) chunks = (chunks.map (·.2)).flatten := by
  unfold proj; congr 2; exact List.filter_eq_self.2 (fun _ _ => rfl)

theorem proj_false (chunks : List Chunk) : proj (fun _ => false) chunks = [] := by
  simp [proj]

theorem proj_congr (f g : Chunk → Bool) (h : ∀ ch, f ch = g ch) (chunks : List Chunk) :
    proj f chunks = proj g chunks := by
  have : f = g := funext h
  rw [this]

/-- a sink that receives, chunk by chunk, exactly the chunks selected by `f` ends up with `proj f` -/
theorem flatten_map_of_pointwise (d : Chunk → List Nat) (f : Chunk → Bool)
    (h : ∀ ch, d ch = if f ch then ch.2 else []) (chunks : List Chunk) :
    (chunks.map d).flatten = proj f chunks := by
  induction chunks with
  | nil => rfl
  | cons ch rest ih => rw [proj_cons, List.map_cons, List.flatten_cons, ih, h]

theorem content_of_pointwise (p : Plan) (k : Sink) (f : Chunk → Bool)
    (h : ∀ ch, deliver p k ch = if f ch then ch.2 else []) (chunks : List Chunk) :
    content p k chunks = proj f chunks :=
  flatten_map_of_pointwise (deliver p k) f h chunks

/-- what one chunk adds to the mail body -/
def mailDeliver (p : Plan) (ch : Chunk) : List Nat :=
  match p.mfn with
  | some k => deliver p k ch
  | none => []

theorem mailBody_eq (p : Plan) (chunks : List Chunk) :
    mailBody p chunks = (chunks.map (mailDeliver p)).flatten := by
  unfold mailBody mailDeliver content
  cases p.mfn <;> simp

theorem mailBody_of_pointwise (p : Plan) (f : Chunk → Bool)
    (h : ∀ ch, mailDeliver p ch = if f ch then ch.2 else []) (chunks : List Chunk) :
    mailBody p chunks = proj f chunks := by
  rw [mailBody_eq]; exact flatten_map_of_pointwise _ f h chunks

/-! ### per-chunk routing, all 2^5 inputs -/

/-- the file named by OFILE receives a stdout chunk iff OFILE is set, and a stderr chunk iff EFILE is
the same file -/
theorem deliver_ofile (so se same mo me : Bool) (ch : Chunk) :
    deliver (prep (Cfg.mk' so se same mo me)) 2 ch = if so && (ch.1 || (se && same)) then ch.2 else [] := by
  obtain ⟨b, bs⟩ := ch
  cases so <;> cases se <;> cases same <;> cases mo <;> cases me <;> cases b <;>
    simp [deliver, prep, Cfg.mk', nul, tmp]

/-- the file named by EFILE (a different name) receives exactly the stderr chunks -/
theorem deliver_efile (so se same mo me : Bool) (ch : Chunk) :
    deliver (prep (Cfg.mk' so se same mo me)) 3 ch = if se && !(so && same) && !ch.1 then ch.2 else [] := by
  obtain ⟨b, bs⟩ := ch
  cases so <;> cases se <;> cases same <;> cases mo <;> cases me <;> cases b <;>
    simp [deliver, prep, Cfg.mk', nul, tmp]

/-- the mail body receives exactly the chunks of the requested streams -/
theorem deliver_mail (so se same mo me : Bool) (ch : Chunk) :
    mailDeliver (prep (Cfg.mk' so se same mo me)) ch = if (if ch.1 then mo else me) then ch.2 else [] := by
  obtain ⟨b, bs⟩ := ch
  cases so <;> cases se <;> cases same <;> cases mo <;> cases me <;> cases b <;>
    simp [mailDeliver, deliver, prep, Cfg.mk', nul, tmp]

/-- nothing reaches the temp file unless mail was requested -/
theorem deliver_tmp_nomail (so se same : Bool) (ch : Chunk) :
    deliver (prep (Cfg.mk' so se same false false)) tmp ch = [] := by
  obtain ⟨b, bs⟩ := ch
  cases so <;> cases se <;> cases same <;> cases b <;>
    simp [deliver, prep, Cfg.mk', nul, tmp]

theorem deliver_nul (p : Plan) (ch : Chunk) : deliver p nul ch = [] := by
  simp [deliver]

/-- no other descriptor number is ever written -/
theorem deliver_other (so se same mo me : Bool) (k : Nat) (hk : 4 ≤ k) (ch : Chunk) :
    deliver (prep (Cfg.mk' so se same mo me)) k ch = [] := by
  obtain ⟨b, bs⟩ := ch
  have h0 : ¬ k = 0 := by omega
  have h0' : ¬ 0 = k := by omega
  have h1 : ¬ 1 = k := by omega
  have h2 : ¬ 2 = k := by omega
  have h3 : ¬ 3 = k := by omega
  cases so <;> cases se <;> cases same <;> cases mo <;> cases me <;> cases b <;>
    simp [deliver, prep, Cfg.mk', nul, tmp, h0, h0', h1, h2, h3]

theorem content_nil_of_pointwise (p : Plan) (k : Sink) (h : ∀ ch, deliver p k ch = [])
    (chunks : List Chunk) : content p k chunks = [] := by
  rw [content_of_pointwise p k (fun _ => false) (by intro ch; simp [h]), proj_false]

end Echse.Exec
