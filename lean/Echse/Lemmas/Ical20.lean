/-
  C10 lemmas, part 20: a trailing EMPTY push (what the daemon does when recv() returns 0) followed by the
  last pull, in terms of the automaton's final state (`finishEof`).  Since the stash branch of `_ical_pull`
  sets `BI = p->bsz`, and an empty push has `buf = []`, the pre-examination of a marked stash reads 0: the
  pending line is processed by the drain loop after the empty push - with its ordinary verb - and the last
  pull finds nothing left to do.
-/
import Echse.Lemmas.Ical19
namespace Echse.Ical

/-- what `feed` returns after a trailing empty push: a pending last line is complete, and an instruction it
completes comes out of the ordinary `drain` loop (verb from the METHOD, verb-less ones passed over), not out of
the last pull (the same verb marked: `L`, `LU`, `LR`) as in `finish`; see `finishEof_modL` below -/
def finishEof (A : Abs) (ins : List Instr) : List Instr × List (List Byte) :=
  if A.sc.pend = true ∧ A.cur ≠ [] then
    (match (procLine A.comp A.cur).2 with
      | .ve =>
        if verbOf (procLine A.comp A.cur).1.meth (procLine A.comp A.cur).1.cur == "X" then ins
        else ins ++ [{ verb := verbOf (procLine A.comp A.cur).1.meth (procLine A.comp A.cur).1.cur,
                       lines := (procLine A.comp A.cur).1.cur }]
      | _ => ins,
     A.log ++ [A.cur.takeWhile (· ≠ 0)])
  else (ins, A.log)

/-- the lines acted upon are those of `finish` -/
theorem finishEof_log (A : Abs) (ins : List Instr) : (finishEof A ins).2 = (finish A ins).2 := by
  unfold finishEof finish
  split <;> rfl

/-- the instructions differ from `finish` only if the pending last line completes an event -/
theorem finishEof_eq (A : Abs) (ins : List Instr)
    (h : ¬ (A.sc.pend = true ∧ A.cur ≠ [] ∧ (procLine A.comp A.cur).2 = .ve)) :
    finishEof A ins = finish A ins := by
  unfold finishEof finish
  split
  · rename_i hc
    cases hr : (procLine A.comp A.cur).2 with
    | none => rfl
    | eop => rfl
    | ve => exact absurd ⟨hc.1, hc.2, hr⟩ h
  · rfl

theorem stashRest_eolp (p : Parser) (h : p.eolp = false) : (stashRest p false).1.eolp = false := by
  show ((copyRest p).eolp || false) = false
  rw [copyRest_eolp, h]; rfl

theorem rest_of_buf_nil (p : Parser) (hb : p.buf = []) : rest p = [] := by
  unfold rest; rw [hb]; simp

/-- an empty buffer and nothing marked: `need more data` at once -/
theorem round_empty (p : Parser) (hb : p.buf = []) (hm : ¬ Marked p) :
    round p = ((stashRest p false).1, some .need) := by
  rw [round_chop p (fun hc => hm hc.1)]
  have e : preChop p = p := by unfold preChop; rw [if_neg hm]
  rw [e]
  exact chopR_stash0 p (by rw [rest_of_buf_nil p hb]; exact eolR_nil)

/-- drain and last pull on an empty buffer with nothing marked: nothing happens -/
theorem eof_unmarked (f : Nat) (p : Parser) (acc : List Instr) (hf : 0 < f) (hb : p.buf = [])
    (hm : p.eolp = false) :
    lastRes (pullEv ((drain f p acc).1.buf.length + 2) (drain f p acc).1) (drain f p acc).2 =
      (acc, p.log) := by
  have hnm := not_marked_of_eolp p hm
  have hmu : mu p < f := by rw [mu_unmarked p hm, hb]; simp; exact hf
  rw [drain_round f p acc hmu, round_empty p hb hnm]
  dsimp only
  have hb' : (stashRest p false).1.buf = [] := by rw [stashRest_buf]; exact hb
  have hn := pullEv_noline ((stashRest p false).1.buf.length + 2) _ (mu_lt_fuel _)
    (not_marked_of_eolp _ (stashRest_eolp p hm))
    (by rw [rest_of_buf_nil _ hb']; exact noLine_nil)
  rw [lastRes_need _ _ hn.1, hn.2, stashRest_log]

/-- a trailing empty push, the drain after it, and the last pull -/
theorem eof_spec (q : Parser) (A : Abs) (hrel : Rel q A) (ins : List Instr) :
    feedEnd (feedStep (some q, ins) []) = finishEof A ins := by
  have hemp : ¬ (([] : List Byte).isEmpty ∧ (some q, ins).1.isNone) := by simp
  unfold feedStep
  rw [if_neg hemp]
  have ha := drain_nil_acc 2 { q with buf := [], bix := 0 } ins
  show lastRes (pullEv ((drain 2 { q with buf := [], bix := 0 } []).1.buf.length + 2)
    (drain 2 { q with buf := [], bix := 0 } []).1) (ins ++ (drain 2 { q with buf := [], bix := 0 } []).2) = _
  rw [← ha.1, ← ha.2]
  generalize hp0 : ({ q with buf := [], bix := 0 } : Parser) = p0
  have hbuf : p0.buf = [] := by rw [← hp0]
  have hbix : p0.bix = 0 := by rw [← hp0]
  have hk : p0.skip = false := by rw [← hp0]; exact hrel.skip
  have hst : p0.stash = A.cur := by rw [← hp0]; exact hrel.stash
  have hco : p0.comp = A.comp := by rw [← hp0]; exact hrel.comp
  have hlo : p0.log = A.log := by rw [← hp0]; exact hrel.log
  have hmk : p0.eolp = true ↔ A.sc.pend = true := by rw [← hp0]; exact hrel.mark
  by_cases hm : Marked p0
  · have hpend : A.sc.pend = true := hmk.1 hm
    have hnf : ¬ Fold (bpOf p0) := by
      unfold bpOf; rw [hbuf, hbix]; decide
    have hmu : mu p0 < 2 := by have := mu_le p0; rw [hbuf] at this; simp at this; omega
    by_cases hs : p0.stash.length ≠ 0
    · have hcur : A.cur ≠ [] := by
        rw [← hst]; intro hx; rw [hx] at hs; exact hs rfl
      have hsnd : (doProc (unmark p0)).2 = (procLine A.comp A.cur).2 := by
        rw [doProc_snd]; show (procLine p0.comp p0.stash).2 = _; rw [hco, hst]
      have hcomp : (doProc (unmark p0)).1.comp = (procLine A.comp A.cur).1 := by
        rw [doProc_comp]; show (procLine p0.comp p0.stash).1 = _; rw [hco, hst]
      have hlog : (doProc (unmark p0)).1.log = A.log ++ [A.cur.takeWhile (· ≠ 0)] := by
        rw [doProc_log]; show p0.log ++ [p0.stash.takeWhile (· ≠ 0)] = _; rw [hlo, hst]
      have hb1 : (doProc (unmark p0)).1.buf = [] := hbuf
      have he1 : (doProc (unmark p0)).1.eolp = false := rfl
      rw [drain_round 2 p0 ins hmu, round_marked p0 ⟨hm, hnf⟩ hk hs]
      unfold finishEof
      rw [if_pos ⟨hpend, hcur⟩]
      unfold procRes
      cases hr : (procLine A.comp A.cur).2 with
      | none =>
        rw [hr] at hsnd; simp only [hsnd]
        rw [eof_unmarked 2 _ ins (by omega) hb1 he1, hlog]
      | eop =>
        rw [hr] at hsnd; simp only [hsnd]
        rw [eof_unmarked 2 (resetMeth (doProc (unmark p0)).1) ins (by omega) hb1 he1]
        show (ins, (doProc (unmark p0)).1.log) = _
        rw [hlog]
      | ve =>
        rw [hr] at hsnd; simp only [hsnd]
        rw [hcomp]
        split
        · rw [eof_unmarked 2 _ ins (by omega) hb1 he1, hlog]
        · rw [eof_unmarked 2 _ _ (by omega) hb1 he1, hlog]
          unfold mkInstr; rw [hcomp]
    · have hcur : A.cur = [] := by
        rw [← hst]; exact List.eq_nil_of_length_eq_zero (by omega)
      rw [drain_round 2 p0 ins hmu, round_marked_empty p0 ⟨hm, hnf⟩ hk hs]
      dsimp only
      rw [eof_unmarked 2 (unmark p0) ins (by omega) hbuf rfl]
      unfold finishEof
      rw [if_neg (fun hx => hx.2 hcur)]
      show (ins, p0.log) = _
      rw [hlo]
  · have he : p0.eolp = false := by
      cases hx : p0.eolp with
      | false => rfl
      | true => exact absurd hx hm
    rw [eof_unmarked 2 p0 ins (by omega) hbuf he, hlo]
    unfold finishEof
    rw [if_neg]
    intro hx
    exact hm (hmk.2 hx.1)

/-- `feed` over any chunking of a non-empty input, with a trailing empty push -/
theorem feed_spec_eof (chunks : List (List Byte)) (hne : ∀ c ∈ chunks, c ≠ []) (hbs : chunks.flatten ≠ [])
    (hb : ∀ c ∈ chunks.flatten, c ≠ BSL) :
    feed (chunks ++ [[]]) = finishEof (runA {} chunks.flatten) (runA {} chunks.flatten).ins := by
  have hinv := feedFold_inv chunks (none, []) [] (Or.inl ⟨rfl, rfl⟩) hne hb
  rw [List.nil_append] at hinv
  rw [feed_eq, List.foldl_append, List.foldl_cons, List.foldl_nil]
  cases hinv with
  | inl h => exact absurd h.1 hbs
  | inr h =>
    obtain ⟨q, hq, hpost, hins, _⟩ := h
    have e : chunks.foldl feedStep (none, []) = (some q, (runA {} chunks.flatten).ins) :=
      Prod.ext hq hins
    rw [e]
    exact eof_spec q _ hpost.rel _

/-- take the mark of the last pull off a verb -/
def stripV (v : String) : String :=
  if v == "L" then "S" else if v == "LU" then "U" else if v == "LR" then "R" else v

/-- an instruction without the mark of the last pull -/
def stripL (i : Instr) : Instr := { i with verb := stripV i.verb }

/-- the verbs `echs_evical_pull` knows -/
theorem verbOf_cases (m : Option String) (ls : List (List Byte)) :
    verbOf m ls = "S" ∨ verbOf m ls = "U" ∨ verbOf m ls = "R" ∨ verbOf m ls = "X" := by
  unfold verbOf
  split <;> try simp
  split <;> simp

theorem stripL_lastVerb (v : String) (ls : List (List Byte)) (h : v = "S" ∨ v = "U" ∨ v = "R") :
    stripL { verb := lastVerb v, lines := ls } = stripL { verb := v, lines := ls } := by
  have e : stripV (lastVerb v) = stripV v := by
    rcases h with h | h | h <;> subst h <;> decide
  unfold stripL
  dsimp only
  rw [e]

/-- `finishEof` and `finish` differ in the mark `L` on the verb of the last instruction, and in nothing else -/
theorem finishEof_modL (A : Abs) (ins : List Instr) :
    ((finishEof A ins).1.map stripL, (finishEof A ins).2) = ((finish A ins).1.map stripL, (finish A ins).2) := by
  unfold finishEof finish
  split
  · cases hr : (procLine A.comp A.cur).2 with
    | none => rfl
    | eop => rfl
    | ve =>
      dsimp only
      split
      · rfl
      · rename_i hx
        have hv : ∀ v : String, (v = "S" ∨ v = "U" ∨ v = "R" ∨ v = "X") → ¬ (v == "X") = true →
            (v = "S" ∨ v = "U" ∨ v = "R") := by
          intro v h hx
          rcases h with h | h | h | h
          · exact Or.inl h
          · exact Or.inr (Or.inl h)
          · exact Or.inr (Or.inr h)
          · subst h; exact absurd rfl hx
        rw [List.map_append, List.map_append, List.map_cons, List.map_cons,
          stripL_lastVerb _ _ (hv _ (verbOf_cases _ _) hx)]
  · rfl
end Echse.Ical
