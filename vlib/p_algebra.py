"""Recurrence-set algebra through the whole parser (shared by C02 and C03).

Events with several RRULEs, RDATE lists, EXRULEs and EXDATE lists are written as calendars and read by the real parser
(`make_task()` assembles (RRULE mux RDATE) filtered by (EXRULE mux EXDATE), cloning the constituent streams on the way);
the occurrences the task's stream yields are compared with the set expression over the RFC 5545 reference expansions of
the single rules:  (U instances(DTSTART, RRULE_i)  U  RDATEs)  minus  (U instances(DTSTART, EXRULE_j)  U  EXDATEs),
in chronological order, each instant once.
"""
import collections
import datetime as dt

from . import common, rfc5545, rrgen
from .common import hex16, unhex16

NPOP = 60


def _key(t):
    return (t[0], t[1], t[2], -1 if t[3] is None else t[3], t[4] or 0, t[5] or 0)


def _txt(t):
    return rrgen.dtstart_text(t) + ("" if t[3] is None else "Z")


def _near(rng, t, allday):
    """an instant near t of the same value type"""
    d = dt.date(*t[:3]) + dt.timedelta(days=rng.choice([-40, -3, -1, 1, 2, 9, 33, 400]))
    if d.year < 1902 or d.year > 2098:
        d = dt.date(*t[:3])
    if allday:
        return (d.year, d.month, d.day, None, None, None)
    return (d.year, d.month, d.day, rng.choice([t[3], (t[3] + 1) % 24]), t[4], t[5])


def gen_event(rng, exceptions=True, i=0):
    allday = rng.random() < 0.3
    ds = rrgen.gen_dtstart(rng, allday=allday, lo=1990, hi=2060)
    nr = rng.choice([1, 2, 2, 3, 3, 0] if not exceptions else [1, 1, 2, 3, 0])
    rules = []
    for _ in range(nr):
        r = rrgen.gen_rule(rng, ds, freq=rng.choice(["YEARLY", "MONTHLY", "WEEKLY", "DAILY", "DAILY", "HOURLY"]))
        if r.count is None and r.until is None and rng.random() < 0.6:
            r.count = rng.choice([3, 10, 40, 70, 130])
        rules.append(r)
    lists = [rfc5545.expand(ds, r, NPOP * 3) for r in rules]
    pool = sorted({t for l, _ in lists for t in l[:NPOP]}, key=_key)
    base = pool or [ds]
    rdates = []
    # (an event of DTSTART alone has that one occurrence, which exceptions may name)
    lone = exceptions and nr == 0 and rng.random() < 0.3
    for _ in range(0 if lone else rng.choice([0, 0, 1, 3, 6]) if nr else rng.randint(1, 6)):
        rdates.append(rng.choice(base) if rng.random() < 0.3 else _near(rng, rng.choice(base), allday))
    xrules, xdates = [], []
    if exceptions:
        for _ in range(rng.choice([0, 0, 1, 1, 2])):
            if rules and rng.random() < 0.6:
                # an exception rule cut out of a rule: every k-th period, or the same rule with another COUNT
                src = rng.choice(rules)
                x = rfc5545.Rule(src.freq)
                x.__dict__.update({k: (list(v) if isinstance(v, list) else v) for k, v in src.__dict__.items()})
                x.interval = src.interval * rng.choice([1, 2, 3])
                x.count = rng.choice([None, 1, 5, 20]) if x.until is None else None
                x.bysetpos = []
            else:
                x = rrgen.gen_rule(rng, ds, freq=rng.choice(["MONTHLY", "WEEKLY", "DAILY"]))
            if x.count is None and x.until is None:
                x.count = rng.choice([5, 30, 90])
            xrules.append(x)
        allr = sorted(set(pool) | set(rdates), key=_key) or [ds]
        for _ in range(rng.choice([0, 1, 2, 4, 7])):
            z = rng.random()
            if z < 0.6:
                xdates.append(rng.choice(allr))
            elif z < 0.75:
                j = rng.randrange(len(allr))
                xdates += allr[j:j + rng.randint(2, 4)]
            else:
                xdates.append(_near(rng, rng.choice(allr), allday))
    xlists = [rfc5545.expand(ds, x, NPOP * 6) for x in xrules]
    # what is known for sure: up to the earliest point at which a cut-off list stops
    cut = None
    for l, why in lists + xlists:
        if why in ("n", "budget") and l:
            k = _key(l[-1])
            cut = k if cut is None or k < cut else cut
        elif why == "budget":
            cut = _key(ds)
    inc = {t for l, _ in lists for t in l} | set(rdates) | ({ds} if lone else set())
    exc = {t for l, _ in xlists for t in l} | set(xdates)
    want = sorted((t for t in inc if t not in exc and (cut is None or _key(t) <= cut)), key=_key)
    complete = cut is None
    val = ";VALUE=DATE" if allday else ""
    lines = ["BEGIN:VCALENDAR", "VERSION:2.0", "BEGIN:VEVENT", "UID:alg%d" % i, "SUMMARY:x", "DTSTART%s:%s" % (val, _txt(ds))]
    parts = [("RRULE:%s" % r.text()) for r in rules]
    rd = list(rdates)
    rng.shuffle(rd)
    while rd:
        k = rng.randint(1, len(rd))
        parts.append("RDATE%s:%s" % (val, ",".join(_txt(t) for t in rd[:k])))
        rd = rd[k:]
    parts += [("EXRULE:%s" % x.text()) for x in xrules]
    xd = list(dict.fromkeys(xdates))
    rng.shuffle(xd)
    while xd:
        k = rng.randint(1, len(xd))
        parts.append("EXDATE%s:%s" % (val, ",".join(_txt(t) for t in xd[:k])))
        xd = xd[k:]
    rng.shuffle(parts)
    lines += parts + ["END:VEVENT", "END:VCALENDAR"]
    shape = "rules=%d rdate=%s exrule=%d exdate=%s" % (nr, "y" if rdates else "n", len(xrules), "y" if xdates else "n")
    return "\n".join(lines) + "\n", want, complete, shape


def run(ctx, exe, rng, ncases, exceptions):
    """returns (number of ops, failures [(op, why)], histogram of shapes, occurrences compared)"""
    cases = [gen_event(rng, exceptions, i) for i in range(ncases)]
    ops = ["p.occ %s %d" % (c[0].encode().hex(), NPOP) for c in cases]
    impl, st, err = ctx.impl(exe, ops, timeout=900)
    fails = []
    hist = collections.Counter()
    total = 0
    import re
    for i, (txt, want, complete, shape) in enumerate(cases):
        hist[shape] += 1
        a = impl[i] if i < len(impl) else "<no answer>"
        m = re.search(r"occ=([^}]*)\}", a)
        desc = " / ".join(l for l in txt.split("\n") if l[:5] in ("DTSTA", "RRULE", "RDATE", "EXRUL", "EXDAT"))[:600]
        if a.startswith("<"):
            fails.append((ops[i], "%s : %s" % (desc, a[:200])))
            continue
        if not m:
            if want:
                fails.append((ops[i], "%s : the calendar does not yield a task (%s), the recurrence set starts %s" % (desc, a[:80], want[:2])))
            continue
        toks = [o for o in m.group(1).split(",") if o]
        ended = bool(toks) and toks[-1] == "-" or m.group(1) == "~"
        got = [unhex16(o.split("+")[0])[:6] for o in toks if o not in ("-", "~")]
        got = [(t[0], t[1], t[2], None, None, None) if t[3] == 255 else t for t in got]
        w = want[:NPOP]
        n = min(len(got), len(w))
        total += n
        why = None
        for j in range(n):
            if got[j] != w[j]:
                kind = "missing" if _key(w[j]) < _key(got[j]) else "extra"
                why = "occurrence %d is %s, the recurrence set has %s there (%s)" % (j, got[j], w[j], kind)
                break
        if why is None and len(got) < len(w) and (ended or len(got) < NPOP):
            why = "the stream ends after %d occurrences, the recurrence set goes on with %s" % (len(got), w[len(got)])
        if why is None and len(got) > len(w) and complete:
            why = "the stream yields %s after the recurrence set is exhausted (%d occurrences)" % (got[len(w)], len(w))
        if why:
            fails.append((ops[i], "%s : %s" % (desc, why)))
    return len(ops), fails, dict(hist), total, st
