/-
  Model of src/bitint.h, src/bitint.c, src/bitint-bobs.c (integer-degrading bitsets).

  Machine words are `Nat`s kept below `2^w`; the C code's `unsigned int` / `uint64_t`
  arithmetic is mirrored with explicit `% 2^w`.  Hand transcription, tied to the C
  code by the correspondence check (`vlib/p_C19.py`, harness ops `bui31 …`).

  Deviations from a literal transcription (all observably neutral, see DESIGN §4):
  * `bitint383_t` / `bitint447_t` in bitset mode: the 12 (14) words of `pos` and of
    `neg` are flattened into one natural number each (`P`, `N`), little endian, so
    "scan for the next non-zero word, then for the lowest set bit" becomes
    "lowest set bit at or above the iterator";
  * the native (sorted list) mode keeps a `List Int` instead of `neg[0..count)`.
-/
namespace Echse.Bitint

/-- count trailing zeros by the C loop `for (; !(b & 1); k++, b >>= 1)`; `fuel` bounds it. -/
def ctz : Nat → Nat → Nat
  | 0, _ => 0
  | fuel+1, b => if b % 2 = 1 then 0 else ctz fuel (b / 2) + 1

/-! ### unsigned containers `bituint31_t` (w = 32) and `bituint63_t` (w = 64) -/

def assBui (w bi x : Nat) : Nat :=
  if bi = 0 then ((x <<< 1) ||| 1) % 2^32
  else
    let bi := if bi % 2 = 1 then (1 <<< ((bi >>> 1) + 1)) % 2^w else bi
    (bi ||| (1 <<< (x + 1))) % 2^w

def buiHasBit (bi x : Nat) : Bool :=
  if bi % 2 = 1 then (bi >>> 1) == x else (bi >>> (x + 1)) % 2 == 1

/-- `bui31_next` / `bui63_next`: returns `(res, iter')`; `iter' = 0` is the end marker. -/
def buiNext (w iter bi : Nat) : Nat × Nat :=
  if bi % 2 = 1 then
    if iter ≠ 0 then (0, 0) else (bi >>> 1, (bi >>> 1) + 1)
  else
    let b := (bi >>> 1) >>> iter
    if b ≠ 0 then
      let k := ctz w b
      (iter + k, iter + k + 1)
    else (0, 0)

/-- the caller's loop `for (i = 0; (v = next(&i, bi), i);) emit v`, at most `fuel` calls;
`none` when the fuel is used up before the end marker is seen. -/
def buiIterate (w bi : Nat) : Nat → Nat → Option (List Nat)
  | 0, _ => none
  | fuel+1, iter =>
    let (res, iter') := buiNext w iter bi
    if iter' = 0 then some []
    else (buiIterate w bi fuel iter').map (res :: ·)

/-! ### signed containers `bitint31_t` (w = 32) and `bitint63_t` (w = 64)

`pos` is the unsigned word, `neg` the two's-complement bit pattern of the signed word. -/

structure Bi where
  pos : Nat
  neg : Nat
deriving Repr, DecidableEq

def toU (w : Nat) (z : Int) : Nat := (z % (2^w : Int)).toNat
def toS (w : Nat) (n : Nat) : Int := if n < 2^(w-1) then (n : Int) else (n : Int) - (2^w : Int)

/-- arithmetic shift right of the `w`-bit pattern `n` (gcc's `>>` on a negative `int`). -/
def sar (w n k : Nat) : Nat :=
  if n < 2^(w-1) then n >>> k else (n >>> k) ||| ((2^k - 1) <<< (w - k))

def assBi (w : Nat) (bi : Bi) (x : Int) : Bi :=
  if bi.pos = 0 ∧ bi.neg = 0 then { pos := 1, neg := toU w x }
  else
    let bi : Bi :=
      if bi.pos % 2 = 1 then
        let v := toS w bi.neg
        if v > 0 then { pos := (1 <<< v.toNat) % 2^w, neg := 0 }
        else { pos := 0, neg := (1 <<< (-v).toNat) % 2^w }
      else bi
    if x > 0 then { bi with pos := (bi.pos ||| (1 <<< x.toNat)) % 2^w }
    else { bi with neg := (bi.neg ||| (1 <<< (-x).toNat)) % 2^w }

def biHasBit (w : Nat) (bi : Bi) (x : Int) : Bool :=
  if bi.pos % 2 = 1 then toS w bi.neg == x
  else if x > 0 then (bi.pos >>> x.toNat) % 2 == 1
  else (sar w bi.neg (-x).toNat) % 2 == 1

/-- `bi31_next` (w = 32) / `bi63_next` (w = 64). -/
def biNext (w : Nat) (iter : Nat) (bi : Bi) : Int × Nat :=
  if bi.pos % 2 = 1 then
    if iter ≠ 0 then (0, 0) else (toS w bi.neg, 1)
  else if iter = 0 ∧ bi.neg % 2 = 1 then (0, 1)
  else
    -- no positives (left): negatives are next
    let iter := if iter < w ∧ bi.pos >>> iter = 0 then w + 1 else iter
    if iter < w ∧ bi.pos >>> iter ≠ 0 then
      let p := bi.pos >>> iter
      let k := ctz w p
      ((iter + k : Nat), if p >>> k > 1 then iter + k + 1 else w + 1)
    else if iter > w ∧ iter < 2 * w ∧ sar w bi.neg (iter - w) ≠ 0 then
      let k := ctz w (sar w bi.neg (iter - w))
      ((w : Int) - ((iter + k : Nat) : Int), iter + k + 1)
    else (0, 0)

def biIterate (w : Nat) (bi : Bi) : Nat → Nat → Option (List Int)
  | 0, _ => none
  | fuel+1, iter =>
    let (res, iter') := biNext w iter bi
    if iter' = 0 then some []
    else (biIterate w bi fuel iter').map (res :: ·)

/-! ### `bitint383_t` (n = 12 words) and `bitint447_t` (n = 14 words) -/

inductive Big where
  | native (vals : List Int)     -- `*pos = 2 * vals.length`, `neg[0..)` = vals
  | bits (P N : Nat)             -- `*pos & 1`; words flattened
deriving Repr, DecidableEq

def Big.empty : Big := .native []

/-- `ass_bs`: set the bit for `x` in the flattened words. -/
def assBs (P N : Nat) (x : Int) : Nat × Nat :=
  if x > 0 then (P ||| (1 <<< x.toNat), N) else (P, N ||| (1 <<< (-x).toNat))

/-- `ass_int`: insertion into the specially ordered native list
(non-negatives ascending, then negatives descending), duplicates ignored. -/
def assInt : List Int → Int → List Int
  | [], x => [x]
  | v :: vs, x =>
    if (if x ≥ 0 then v ≥ 0 ∧ v < x else v > x) then v :: assInt vs x
    else if v = x then v :: vs
    else x :: v :: vs

def assBig (n : Nat) (bi : Big) (x : Int) : Big :=
  match bi with
  | .bits P N => let (P', N') := assBs P N x; .bits P' N'
  | .native vals =>
    if vals.length < n then .native (assInt vals x)
    else
      let (P, N) := vals.foldl (fun (pn : Nat × Nat) v => assBs pn.1 pn.2 v) (1, 0)
      let (P', N') := assBs P N x
      .bits P' N'

def bigNegs (n start N : Nat) : Int × Nat :=
  let b := N >>> start
  if b ≠ 0 then
    let r := start + ctz (32 * n) b
    (-(r : Int), r + 32 * n + 1)
  else (0, 0)

/-- `bi383_next` (n = 12) / `bi447_next` (n = 14). -/
def bigNext (n : Nat) (iter : Nat) (bi : Big) : Int × Nat :=
  match bi with
  | .native vals =>
    if iter ≥ vals.length then (0, 0) else (vals.getD iter 0, iter + 1)
  | .bits P N =>
    if iter = 0 ∧ N % 2 = 1 then (0, 1)
    else
      let iter := if iter = 0 then 1 else iter
      if iter < 32 * n then
        let b := P >>> iter
        if b ≠ 0 then
          let r := iter + ctz (32 * n) b
          ((r : Int), if r + 1 = 32 * n then r + 2 else r + 1)
        else bigNegs n 1 N
      else if iter > 32 * n ∧ iter < 64 * n then bigNegs n (iter - 32 * n) N
      else (0, 0)

def bigIterate (n : Nat) (bi : Big) : Nat → Nat → Option (List Int)
  | 0, _ => none
  | fuel+1, iter =>
    let (res, iter') := bigNext n iter bi
    if iter' = 0 then some []
    else (bigIterate n bi fuel iter').map (res :: ·)

end Echse.Bitint
